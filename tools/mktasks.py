#!/usr/bin/env python3
"""tools/mktasks.py: write builder task files /work/_prompts/<wt>.task.md from the TASKS table below."""
import json, sys
props = {json.loads(l)['id']: json.loads(l) for l in open('/verif/properties.jsonl')}
TEMPLATE = open('/verif/tools/task_template.txt').read()
def ptxt(pid):
    p = props[pid]
    return 'Property %s (full JSON: /work/_prompts/%s.json) — %s\nStatement: "%s"\nQuantifier: %s\nCode anchors: %s\nMechanisms: %s' % (
        pid, pid, p['title'], p['statement'], p['quantifier']['text'], ', '.join('/repo/' + f for f in p['anchors']['files']),
        '; '.join(m['name'] + ' @ ' + m['where'] for m in p['anchors']['mechanism']))
TASKS = json.load(open(sys.argv[1]))
for wt, t in TASKS.items():
    out = TEMPLATE.format(wt=wt, design=t['design'], props='\n\n'.join(ptxt(i) for i in t['ids']), notes=t['notes'], ids=' and '.join(t['ids']))
    open('/work/_prompts/%s.task.md' % wt, 'w').write(out)
    print(wt, len(out))
