// Package c07kit is the shared VM environment of the C07 (realm authority) and
// C03 (persistence independence) harnesses: a REAL vm.VMKeeper over a memdb
// multistore, built from exported API only (the recipe of harness/cmd/c13),
// plus raw access to the gno object keys ("oid:…") of the base store.
//
// Layers (all MultiCacheWrap): base (stdlibs + packages deployed once per
// process) -> case (reset at every `#case`) -> tx (one per message; written
// into the case layer only if the message succeeded — baseapp.runTx's
// discipline).  Every tx gets a fresh gno transaction store, i.e. a cold
// object cache: objects written by one tx are re-read from their amino bytes
// by the next.
package c07kit

import (
	"encoding/hex"
	"fmt"
	"os"
	"path/filepath"
	"sort"
	"strings"
	"time"

	gno "github.com/gnolang/gno/gnovm/pkg/gnolang"

	"github.com/gnolang/gno/gno.land/pkg/sdk/vm"
	bft "github.com/gnolang/gno/tm2/pkg/bft/types"
	"github.com/gnolang/gno/tm2/pkg/crypto"
	"github.com/gnolang/gno/tm2/pkg/db/memdb"
	"github.com/gnolang/gno/tm2/pkg/log"
	"github.com/gnolang/gno/tm2/pkg/sdk"
	authm "github.com/gnolang/gno/tm2/pkg/sdk/auth"
	bankm "github.com/gnolang/gno/tm2/pkg/sdk/bank"
	pm "github.com/gnolang/gno/tm2/pkg/sdk/params"
	"github.com/gnolang/gno/tm2/pkg/std"
	"github.com/gnolang/gno/tm2/pkg/store"
	storebptree "github.com/gnolang/gno/tm2/pkg/store/bptree"
	"github.com/gnolang/gno/tm2/pkg/store/dbadapter"
)

type Env struct {
	MS      store.CommitMultiStore
	BaseCtx sdk.Context
	BaseKey store.StoreKey
	IavlKey store.StoreKey
	VMK     *vm.VMKeeper
	Caller  crypto.Address

	CaseMS  store.MultiStore
	CaseCtx sdk.Context

	deployed map[string]bool
}

func RepoDir() string {
	if d := os.Getenv("VERIF_REPO"); d != "" {
		return d
	}
	return "/repo"
}

func Trace() bool { return os.Getenv("VERIF_TRACE") != "" }

// NewEnv builds the keepers, funds the caller and loads the stdlibs.
func NewEnv(callerSeed string) *Env {
	t0 := time.Now()
	db := memdb.NewMemDB()
	baseKey := store.NewStoreKey("baseCapKey")
	iavlKey := store.NewStoreKey("iavlCapKey")
	ms := store.NewCommitMultiStore(db)
	ms.MountStoreWithDB(baseKey, dbadapter.StoreConstructor, db)
	ms.MountStoreWithDB(iavlKey, storebptree.FastStoreConstructor, db)
	ms.LoadLatestVersion()
	ctx := sdk.NewContext(sdk.RunTxModeDeliver, ms, &bft.Header{ChainID: "test-chain-id", Height: 42}, log.NewNoopLogger())

	prmk := pm.NewParamsKeeper(iavlKey)
	acck := authm.NewAccountKeeper(iavlKey, prmk.ForModule(authm.ModuleName), std.ProtoBaseAccount, std.ProtoBaseSessionAccount)
	bankk := bankm.NewBankKeeper(acck, prmk.ForModule(bankm.ModuleName), iavlKey, []string{"ugnot"})
	vmk := vm.NewVMKeeper(baseKey, iavlKey, acck, bankk, prmk)
	prmk.Register(authm.ModuleName, acck)
	prmk.Register(bankm.ModuleName, bankk)
	prmk.Register(vm.ModuleName, vmk)
	acck.SetParams(ctx, authm.DefaultParams())
	bankk.SetParams(ctx, bankm.DefaultParams())
	if err := vmk.SetParams(ctx, vm.DefaultParams()); err != nil {
		panic(err)
	}
	caller := crypto.AddressFromPreimage([]byte(callerSeed))
	acc := acck.NewAccountWithAddress(ctx, caller)
	acck.SetAccount(ctx, acc)
	bankk.SetCoins(ctx, caller, std.MustParseCoins("1000000000000000ugnot"))

	e := &Env{MS: ms, BaseCtx: ctx, BaseKey: baseKey, IavlKey: iavlKey, VMK: vmk, Caller: caller, deployed: map[string]bool{}}

	mcw := ms.MultiCacheWrap()
	vmk.Initialize(log.NewNoopLogger(), mcw)
	sctx := vmk.MakeGnoTransactionStore(ctx.WithMultiStore(mcw))
	vmk.LoadStdlibCached(sctx, filepath.Join(RepoDir(), "gnovm", "stdlibs"))
	vmk.CommitGnoTransactionStore(sctx)
	mcw.MultiWrite()
	vmk.PopulateStdlibCache()
	ms.Commit() // drain the root multistore's write collector: iterators only see committed keys
	e.NewCase()
	if Trace() {
		fmt.Fprintf(os.Stderr, "c07kit: env ready in %v\n", time.Since(t0))
	}
	return e
}

// NewCase drops everything written since the last NewCase (except base deploys).
func (e *Env) NewCase() {
	e.CaseMS = e.MS.MultiCacheWrap()
	e.CaseCtx = e.BaseCtx.WithMultiStore(e.CaseMS)
}

// RunPath is the package path the keeper gives to MsgRun scripts of Caller.
func (e *Env) RunPath() string { return "gno.land/e/" + e.Caller.String() + "/run" }

func lastElem(p string) string {
	if i := strings.LastIndex(p, "/"); i >= 0 {
		return p[i+1:]
	}
	return p
}

// File is one source file of a generated package.
type File struct{ Name, Body string }

func memFiles(path string, files []File) []*std.MemFile {
	fs := []*std.MemFile{}
	for _, f := range files {
		fs = append(fs, &std.MemFile{Name: f.Name, Body: f.Body})
	}
	fs = append(fs, &std.MemFile{Name: "gnomod.toml", Body: gno.GenGnoModLatest(path)})
	sort.Slice(fs, func(i, j int) bool { return fs[i].Name < fs[j].Name })
	return fs
}

// txOn runs f on a fresh tx layer over `under`; commits iff f returns nil
// without panicking.
func (e *Env) txOn(under store.MultiStore, underCtx sdk.Context, f func(ctx sdk.Context) error) (err error) {
	txMS := under.MultiCacheWrap()
	ctx := e.VMK.MakeGnoTransactionStore(underCtx.WithMultiStore(txMS))
	func() {
		defer func() {
			if r := recover(); r != nil {
				err = fmt.Errorf("go-panic: %v", r)
			}
		}()
		err = f(ctx)
	}()
	if err == nil {
		e.VMK.CommitGnoTransactionStore(ctx)
		txMS.MultiWrite()
	}
	return err
}

// Tx runs one message-like action on the CASE layer.
func (e *Env) Tx(f func(ctx sdk.Context) error) error {
	return e.txOn(e.CaseMS, e.CaseCtx, f)
}

// DeployBase adds a package on the BASE layer, once per process (memoised);
// it stays visible in every later case.
func (e *Env) DeployBase(path string, files []File) error {
	if e.deployed[path] {
		return nil
	}
	err := e.txOn(e.MS, e.BaseCtx, func(ctx sdk.Context) error {
		return e.VMK.AddPackage(ctx, vm.NewMsgAddPackage(e.Caller, path, memFiles(path, files)))
	})
	if err == nil {
		e.deployed[path] = true
		e.MS.Commit()
	}
	return err
}

// Deploy adds a package on the CASE layer (gone at the next `#case`).
func (e *Env) Deploy(path string, files []File) error {
	return e.Tx(func(ctx sdk.Context) error {
		return e.VMK.AddPackage(ctx, vm.NewMsgAddPackage(e.Caller, path, memFiles(path, files)))
	})
}

// Call is MsgCall.
func (e *Env) Call(path, fn string, args ...string) (res string, err error) {
	err = e.Tx(func(ctx sdk.Context) error {
		var er error
		res, er = e.VMK.Call(ctx, vm.NewMsgCall(e.Caller, nil, path, fn, args))
		return er
	})
	return
}

// Run is MsgRun with a single main.gno.
func (e *Env) Run(src string) (res string, err error) {
	err = e.Tx(func(ctx sdk.Context) error {
		var er error
		res, er = e.VMK.Run(ctx, vm.NewMsgRun(e.Caller, nil, []*std.MemFile{{Name: "main.gno", Body: src}}))
		return er
	})
	return
}

// Eval is the read-only vm/qeval query (never committed).
func (e *Env) Eval(path, expr string) (res string, err error) {
	txMS := e.CaseMS.MultiCacheWrap()
	ctx := e.VMK.MakeGnoTransactionStore(e.CaseCtx.WithMultiStore(txMS))
	defer func() {
		if r := recover(); r != nil {
			err = fmt.Errorf("go-panic: %v", r)
		}
	}()
	return e.VMK.QueryEval(ctx, path, expr)
}

// ---------------------------------------------------------------- raw object bytes

// OidPrefix is the key prefix of every persisted object stamped with path's PkgID.
func OidPrefix(path string) string {
	pid := gno.PkgIDFromPkgPath(path)
	return "oid:" + hex.EncodeToString(pid.Hashlet[:]) + ":"
}

// Objects returns the raw bytes of every key of the gno base store whose key
// starts with prefix (in the case layer), keyed by the key.
func (e *Env) Objects(prefix string) map[string]string {
	out := map[string]string{}
	st := e.CaseCtx.Store(e.BaseKey)
	it := store.PrefixIterator(nil, st, []byte(prefix))
	defer it.Close()
	for ; it.Valid(); it.Next() {
		out[string(it.Key())] = string(it.Value())
	}
	return out
}

// Diff lists keys changed / removed / added between two snapshots, sorted.
func Diff(a, b map[string]string) (changed, removed, added []string) {
	for k, v := range a {
		w, ok := b[k]
		if !ok {
			removed = append(removed, k)
		} else if w != v {
			changed = append(changed, k)
		}
	}
	for k := range b {
		if _, ok := a[k]; !ok {
			added = append(added, k)
		}
	}
	sort.Strings(changed)
	sort.Strings(removed)
	sort.Strings(added)
	return
}

// ErrMsg flattens an error (with the VM's panic text) for classification.
func ErrMsg(err error) string {
	if err == nil {
		return ""
	}
	return fmt.Sprintf("%+v", err)
}
