package c07kit

import (
	"encoding/json"
	"fmt"
	"sort"
	"strings"

	gno "github.com/gnolang/gno/gnovm/pkg/gnolang"
	"github.com/gnolang/gno/tm2/pkg/amino"
)

// metaKeys are the bookkeeping fields of a persisted object that are NOT its
// logical content: ownership / ref-count metadata of ObjectInfo and the hash
// vs. escaped form of a child reference.  Object identity (ID / ObjectID) and
// every value field stay.
var metaKeys = map[string]bool{
	"Hash": true, "OwnerID": true, "ModTime": true, "RefCount": true,
	"IsEscaped": true, "Escaped": true, "LastObjectSize": true,
}

func strip(v any) any {
	switch x := v.(type) {
	case map[string]any:
		out := map[string]any{}
		for k, w := range x {
			if metaKeys[k] {
				continue
			}
			out[k] = strip(w)
		}
		return out
	case []any:
		for i := range x {
			x[i] = strip(x[i])
		}
		return x
	}
	return v
}

// Logical decodes the raw store bytes of one object (hash ++ amino) with the
// registered amino codec and returns a canonical JSON rendering of its value
// with the bookkeeping fields removed.  Independent of the VM's object cache.
func Logical(raw string) (s string, err error) {
	defer func() {
		if r := recover(); r != nil {
			err = fmt.Errorf("decode: %v", r)
		}
	}()
	if len(raw) < gno.HashSize {
		return "", fmt.Errorf("short object")
	}
	var oo gno.Object
	amino.MustUnmarshal([]byte(raw[gno.HashSize:]), &oo)
	js, e := amino.MarshalJSON(oo)
	if e != nil {
		return "", e
	}
	var v any
	if e := json.Unmarshal(js, &v); e != nil {
		return "", e
	}
	out, e := json.Marshal(strip(v)) // encoding/json sorts map keys
	return string(out), e
}

// ObjDiff is the oracle's view of what a tx did to one realm's objects.
type ObjDiff struct {
	Logical []string // pre-existing keys whose logical content changed (or that vanished)
	Meta    []string // pre-existing keys whose raw bytes changed but logical content did not
	New     []string // keys that did not exist before
	Err     string   // a decode problem (reported, never silently dropped)
}

// IsRealmRecord reports whether key is the "#realm" bookkeeping record
// (Time / storage counters) rather than an object.
func IsRealmRecord(key string) bool { return strings.HasSuffix(key, "#realm") }

func DiffObjects(before, after map[string]string) ObjDiff {
	var d ObjDiff
	for k, v := range before {
		if IsRealmRecord(k) {
			continue
		}
		w, ok := after[k]
		if !ok {
			d.Logical = append(d.Logical, k)
			continue
		}
		if w == v {
			continue
		}
		a, e1 := Logical(v)
		b, e2 := Logical(w)
		if e1 != nil || e2 != nil {
			d.Err = fmt.Sprint(e1, e2)
			d.Logical = append(d.Logical, k)
			continue
		}
		if a != b {
			d.Logical = append(d.Logical, k)
		} else {
			d.Meta = append(d.Meta, k)
		}
	}
	for k := range after {
		if IsRealmRecord(k) {
			continue
		}
		if _, ok := before[k]; !ok {
			d.New = append(d.New, k)
		}
	}
	sort.Strings(d.Logical)
	sort.Strings(d.Meta)
	sort.Strings(d.New)
	return d
}
