package bptkit

import (
	"bytes"
	"fmt"
	"sort"

	"gnoverif/kit"
)

// Oracle evaluates the statement of C23 on the implementation's answers with
// nothing but Go maps: one map for the working contents and one frozen map per
// retained saved version.  It never sees the Lean model.
//
// Statement clauses and where they are judged:
//   - reads (get/has/size/idx/gwi/it/iter) of the working tree and of every
//     retained version equal the map's answer                 → judgeRead
//   - a saved version never changes afterwards                → fullCheck of every retained version at save/prune/audit, recorded root hash compared at every later `at N hash`
//   - a rollback restores the last saved (or loaded) version  → fullCheck of the working tree after rollback
//   - pruning never affects retained versions                 → fullCheck of every retained version after prune
type Oracle struct {
	Work     map[string][]byte
	Saved    map[int64]map[string][]byte
	Hash     map[int64]string
	Base     int64 // version the working session is based on (0 = the initial empty tree)
	Poisoned bool  // a SaveVersion failed: working-tree answers are outside the contract until rollback/load
}

func NewOracle() *Oracle {
	return &Oracle{Work: map[string][]byte{}, Saved: map[int64]map[string][]byte{}, Hash: map[int64]string{}}
}

func cpMap(m map[string][]byte) map[string][]byte {
	out := make(map[string][]byte, len(m))
	for k, v := range m {
		out[k] = v
	}
	return out
}

func sortedKeys(m map[string][]byte) []string {
	ks := make([]string, 0, len(m))
	for k := range m {
		ks = append(ks, k)
	}
	sort.Strings(ks) // byte-wise, = bytes.Compare
	return ks
}

func eqMap(a, b map[string][]byte) bool {
	if len(a) != len(b) {
		return false
	}
	for k, v := range a {
		w, ok := b[k]
		if !ok || !bytes.Equal(v, w) {
			return false
		}
	}
	return true
}

func (o *Oracle) latest() int64 {
	var l int64
	for v := range o.Saved {
		if v > l {
			l = v
		}
	}
	return l
}

func viol(class, format string, a ...any) string {
	return "VIOL:" + class + " " + fmt.Sprintf(format, a...)
}

// inRange is the statement's "[start, end)" with nil = unbounded.
func inRange(k string, s, e []byte) bool {
	if s != nil && k < string(s) {
		return false
	}
	if e != nil && k >= string(e) {
		return false
	}
	return true
}

// judgeRead compares one read result with the map `m`.
func judgeRead(m map[string][]byte, a ReadArgs, r *ReadRes, wantHash string) string {
	if r.Err != "" && !(a.Kind == "idx" && r.Err == "err:nokey") {
		return viol("read-error", "%s failed with %s", a.Kind, r.Err)
	}
	switch a.Kind {
	case "get":
		w, ok := m[string(a.Key)]
		if !ok {
			if r.Val != nil {
				return viol("get-mismatch", "absent key %x answered %x", a.Key, r.Val)
			}
			return "ok"
		}
		if r.Val == nil || !bytes.Equal(w, r.Val) {
			return viol("get-mismatch", "key %x: got %s want %s", a.Key, kit.Hex(r.Val), kit.Hex(w))
		}
		return "ok"
	case "has":
		_, ok := m[string(a.Key)]
		if ok != r.Bool {
			return viol("has-mismatch", "key %x: got %v want %v", a.Key, r.Bool, ok)
		}
		return "ok"
	case "size":
		if int64(len(m)) != r.N {
			return viol("size-mismatch", "got %d want %d", r.N, len(m))
		}
		return "ok"
	case "idx":
		ks := sortedKeys(m)
		if a.Index < 0 || a.Index >= int64(len(ks)) {
			if r.Err == "" {
				return viol("index-mismatch", "index %d out of range answered %x", a.Index, r.Key)
			}
			return "ok"
		}
		k := ks[a.Index]
		if r.Err != "" || string(r.Key) != k || !bytes.Equal(r.Val, m[k]) || r.Val == nil {
			return viol("index-mismatch", "index %d: got %s=%s %s want %x=%s", a.Index, kit.Hex(r.Key), kit.Hex(r.Val), r.Err, k, kit.Hex(m[k]))
		}
		return "ok"
	case "gwi":
		// rank = number of keys strictly smaller; value iff present
		var rank int64
		for k := range m {
			if k < string(a.Key) {
				rank++
			}
		}
		w, ok := m[string(a.Key)]
		if r.N != rank || (ok && (r.Val == nil || !bytes.Equal(r.Val, w))) || (!ok && r.Val != nil) {
			return viol("index-mismatch", "GetWithIndex %x: got %d %s want %d %s", a.Key, r.N, kit.Hex(r.Val), rank, kit.Hex(w))
		}
		return "ok"
	case "it", "iter":
		ks := sortedKeys(m)
		var want []string
		for _, k := range ks {
			if a.Kind == "iter" || inRange(k, a.Start, a.End) {
				want = append(want, k)
			}
		}
		if a.Kind == "it" && !a.Asc {
			for i, j := 0, len(want)-1; i < j; i, j = i+1, j-1 {
				want[i], want[j] = want[j], want[i]
			}
		}
		stopped := false
		if a.Limit > 0 && len(want) >= a.Limit {
			want, stopped = want[:a.Limit], true
		}
		if stopped != r.Stopped || len(want) != len(r.Items) {
			return viol("iter-mismatch", "%d items stopped=%v, want %d stopped=%v", len(r.Items), r.Stopped, len(want), stopped)
		}
		for i, k := range want {
			if string(r.Items[i].K) != k || r.Items[i].V == nil || !bytes.Equal(r.Items[i].V, m[k]) {
				return viol("iter-mismatch", "item %d: got %s=%s want %x=%s", i, kit.Hex(r.Items[i].K), kit.Hex(r.Items[i].V), k, kit.Hex(m[k]))
			}
		}
		return "ok"
	case "hash":
		if wantHash != "" && r.Text != wantHash {
			return viol("hash-changed", "got %s, was %s when saved", r.Text, wantHash)
		}
		if wantHash != "" {
			return "ok"
		}
		return "-"
	}
	return "-"
}

// fullCheck reads everything through r and compares with m.
func fullCheck(r reader, m map[string][]byte) string {
	ks := sortedKeys(m)
	if r.Size() != int64(len(ks)) {
		return fmt.Sprintf("size %d want %d", r.Size(), len(ks))
	}
	for _, asc := range []bool{true, false} {
		i := 0
		bad := ""
		_, err := r.IterateRange(nil, nil, asc, func(k, v []byte) bool {
			j := i
			if !asc {
				j = len(ks) - 1 - i
			}
			if j < 0 || j >= len(ks) || string(k) != ks[j] || v == nil || !bytes.Equal(v, m[ks[j]]) {
				bad = fmt.Sprintf("iteration(asc=%v) item %d is %x=%s", asc, i, k, kit.Hex(v))
				return true
			}
			i++
			return false
		})
		if err != nil {
			return "iteration error " + ErrClass(err)
		}
		if bad != "" {
			return bad
		}
		if i != len(ks) {
			return fmt.Sprintf("iteration(asc=%v) gave %d items want %d", asc, i, len(ks))
		}
	}
	step := 1
	if len(ks) > 48 {
		step = len(ks) / 48
	}
	for i := 0; i < len(ks); i += step {
		k := ks[i]
		v, err := r.Get([]byte(k))
		if err != nil || v == nil || !bytes.Equal(v, m[k]) {
			return fmt.Sprintf("get %x = %s %s want %s", k, kit.Hex(v), ErrClass(err), kit.Hex(m[k]))
		}
		kk, vv, err := r.GetByIndex(int64(i))
		if err != nil || string(kk) != k || !bytes.Equal(vv, m[k]) {
			return fmt.Sprintf("index %d = %x want %x", i, kk, k)
		}
	}
	return ""
}

// checkRetained fully re-reads every retained version (and its recorded hash).
func (o *Oracle) checkRetained(in *Inst, class string) string {
	vs := make([]int64, 0, len(o.Saved))
	for v := range o.Saved {
		vs = append(vs, v)
	}
	sort.Slice(vs, func(i, j int) bool { return vs[i] < vs[j] })
	for _, v := range vs {
		r, _, done, err := in.readerAt(v)
		if err != nil {
			return viol(class, "retained version %d unreadable: %s", v, ErrClass(err))
		}
		d := fullCheck(r, o.Saved[v])
		h := fmt.Sprintf("%x", r.Hash())
		done()
		if d != "" {
			return viol(class, "version %d: %s", v, d)
		}
		if h != o.Hash[v] {
			return viol("hash-changed", "version %d hash %s, was %s when saved", v, h, o.Hash[v])
		}
	}
	return "ok"
}

func (o *Oracle) checkWork(in *Inst, class string) string {
	if d := fullCheck(workReader{in.T}, o.Work); d != "" {
		return viol(class, "working tree: %s", d)
	}
	return "ok"
}

// Judge updates the oracle state with the outcome of one op and returns the verdict.
func (o *Oracle) Judge(toks []string, st Step, in *Inst) string {
	if st.Err == "err:badop" || len(toks) == 0 {
		return "-"
	}
	switch st.Op {
	case "set":
		k, _ := kit.UnHex(toks[1])
		v, _ := kit.UnHex(toks[2])
		if st.Err != "" {
			if o.Poisoned || len(k) == 0 || v == nil {
				return "-"
			}
			return viol("write-failed", "set %x failed with %s", k, st.Err)
		}
		if len(k) == 0 || v == nil {
			return "-" // accepted although the API documents a refusal: not covered by the statement
		}
		_, had := o.Work[string(k)]
		o.Work[string(k)] = append([]byte{}, v...)
		if had != st.Updated {
			return viol("set-flag", "set %x reported updated=%v, key present before=%v", k, st.Updated, had)
		}
		return "ok"
	case "rm":
		k, _ := kit.UnHex(toks[1])
		if st.Err != "" {
			if o.Poisoned {
				return "-"
			}
			return viol("write-failed", "rm %x failed with %s", k, st.Err)
		}
		w, had := o.Work[string(k)]
		delete(o.Work, string(k))
		if had != st.Found || (had && !bytes.Equal(w, st.OldVal)) {
			return viol("rm-mismatch", "rm %x: got %s found=%v want %s found=%v", k, kit.Hex(st.OldVal), st.Found, kit.Hex(w), had)
		}
		return "ok"
	case "save":
		if st.Err != "" {
			next, exists := o.Saved[o.Base+1]
			wasPoisoned := o.Poisoned
			o.Poisoned = true
			if wasPoisoned || exists {
				_ = next
				return "-" // refusing to overwrite an existing version (or a poisoned session) is allowed
			}
			return viol("save-failed", "SaveVersion failed with %s", st.Err)
		}
		o.Poisoned = false
		v := st.Version
		verdict := "ok"
		if v != o.Base+1 {
			verdict = viol("version-number", "saved as %d, working session was based on %d", v, o.Base)
		}
		if old, ok := o.Saved[v]; ok {
			if !eqMap(old, o.Work) {
				verdict = viol("saved-changed", "version %d saved again with different contents", v)
			} else if o.Hash[v] != st.Hash {
				verdict = viol("hash-changed", "version %d saved again with hash %s, was %s", v, st.Hash, o.Hash[v])
			}
		} else {
			o.Saved[v] = cpMap(o.Work)
			o.Hash[v] = st.Hash
		}
		o.Base = v
		// the working tree now IS version v
		o.Work = cpMap(o.Saved[v])
		if verdict == "ok" {
			verdict = o.checkWork(in, "save-mismatch")
		}
		if verdict == "ok" {
			r, _, done, err := in.readerAt(v)
			if err != nil {
				return viol("save-mismatch", "version %d unreadable right after save: %s", v, ErrClass(err))
			}
			d := fullCheck(r, o.Saved[v])
			done()
			if d != "" {
				verdict = viol("save-mismatch", "version %d: %s", v, d)
			}
		}
		return verdict
	case "rollback":
		o.Poisoned = false
		if o.Base == 0 {
			o.Work = map[string][]byte{}
		} else {
			o.Work = cpMap(o.Saved[o.Base])
		}
		return o.checkWork(in, "rollback-mismatch")
	case "load":
		v := kit.Atoi64(toks[1])
		_, retained := o.Saved[v]
		if st.Err != "" {
			if retained {
				return viol("load-failed", "retained version %d failed to load: %s", v, st.Err)
			}
			return "ok"
		}
		if !retained {
			return viol("load-mismatch", "version %d is not retained but loaded", v)
		}
		o.Poisoned = false
		o.Base = v
		o.Work = cpMap(o.Saved[v])
		if st.Version != o.latest() {
			return viol("load-mismatch", "LoadVersion returned latest=%d want %d", st.Version, o.latest())
		}
		return o.checkWork(in, "load-mismatch")
	case "prune":
		to := kit.Atoi64(toks[1])
		if st.Err != "" {
			return "-"
		}
		if to >= o.latest() && len(o.Saved) > 0 {
			return viol("prune-damaged", "pruning to %d accepted although latest is %d", to, o.latest())
		}
		for v := range o.Saved {
			if v <= to {
				delete(o.Saved, v)
				delete(o.Hash, v)
			}
		}
		if r := o.checkRetained(in, "prune-damaged"); r != "ok" {
			return r
		}
		if !o.Poisoned {
			return o.checkWork(in, "prune-damaged")
		}
		return "ok"
	case "reopen":
		if st.Err != "" {
			return viol("reopen-failed", "%s", st.Err)
		}
		l := o.latest()
		o.Poisoned = false
		o.Base = l
		if l == 0 {
			o.Work = map[string][]byte{}
		} else {
			o.Work = cpMap(o.Saved[l])
		}
		if st.Version != l {
			return viol("load-mismatch", "Load returned %d want %d", st.Version, l)
		}
		return o.checkWork(in, "load-mismatch")
	case "vers":
		want := make([]int, 0, len(o.Saved))
		for v := range o.Saved {
			want = append(want, int(v))
		}
		sort.Ints(want)
		if fmt.Sprint(want) != fmt.Sprint(st.Vers) {
			return viol("versions", "available %v want %v", st.Vers, want)
		}
		return "ok"
	case "ver":
		if st.Version != o.Base {
			return viol("versions", "Version()=%d want %d", st.Version, o.Base)
		}
		return "ok"
	case "lhash":
		if o.Base > 0 && st.Hash != o.Hash[o.Base] {
			return viol("hash-changed", "Hash()=%s, version %d was saved with %s", st.Hash, o.Base, o.Hash[o.Base])
		}
		return "ok"
	case "audit":
		if r := o.checkRetained(in, "saved-changed"); r != "ok" {
			return r
		}
		if !o.Poisoned {
			return o.checkWork(in, "read-mismatch")
		}
		return "ok"
	case "at":
		m, retained := o.Saved[st.At]
		if !retained {
			return "-"
		}
		if st.Read == nil {
			return viol("read-error", "retained version %d unreadable: %s", st.At, st.Err)
		}
		return judgeRead(m, st.Args, st.Read, o.Hash[st.At])
	default:
		if st.Read == nil || o.Poisoned {
			return "-"
		}
		return judgeRead(o.Work, st.Args, st.Read, "")
	}
}
