package bptkit

import (
	"fmt"
	"sort"

	"gnoverif/kit"
)

// Generator for C23 (mode "c23") and C24 (mode "c24") op streams.
//
// Keys are chosen to hit the tree's structural cases with B = 32: ascending
// runs (every leaf split is the 90/10 append split), descending runs (50/50
// split at position 0), random keys over small universes (updates, splits in
// the middle), long drains (redistribute from the left/right sibling, merges,
// inner-node redistribution and merges, root collapse), keys that are
// prefixes of each other and the extreme keys 00 / ff…ff.
//
// The generator tracks an approximation of the versions it created so that most
// version ops are valid; nothing depends on that approximation being exact.

type gen struct {
	w    *kit.Out
	r    *kit.Rand
	mode string

	present map[int]bool         // working keys (by universe index)
	snaps   map[int]map[int]bool // version -> keys
	vers    []int                // retained versions, ascending
	base    int
	dirty   bool
	poison  bool
	maxKeep int // c24: `load` only reaches this far back (every prune schedule keeps it)
}

func key(i int) string {
	if i < 0 {
		i = 0
	}
	if i < 65536 {
		return fmt.Sprintf("%04x", i)
	}
	return fmt.Sprintf("%06x", i)
}

func (g *gen) val() string {
	switch g.r.Intn(12) {
	case 0:
		return "e"
	case 1:
		return fmt.Sprintf("%x", g.r.Bytes(9))
	}
	return fmt.Sprintf("%02x", g.r.Intn(256))
}

func (g *gen) reset(cache int, fast bool) { g.resetN(cache, fast, 54) }

// resetN: `use` is the number of configurations a C24 case runs on.
func (g *gen) resetN(cache int, fast bool, use int) {
	g.present = map[int]bool{}
	g.snaps = map[int]map[int]bool{}
	g.vers = nil
	g.base, g.dirty, g.poison = 0, false, false
	if g.mode == "c23" {
		f := 0
		if fast {
			f = 1
		}
		g.w.Op("cfg %d %d", cache, f)
	} else {
		g.w.Op("use %d", use)
	}
}

func cpSet(m map[int]bool) map[int]bool {
	o := make(map[int]bool, len(m))
	for k := range m {
		o[k] = true
	}
	return o
}

func (g *gen) set(i int) {
	g.w.Op("set %s %s", key(i), g.val())
	if !g.poison {
		g.present[i] = true
		g.dirty = true
	}
}

func (g *gen) rm(i int) {
	g.w.Op("rm %s", key(i))
	if !g.poison && g.present[i] {
		delete(g.present, i)
		g.dirty = true
	}
}

func (g *gen) latest() int {
	if len(g.vers) == 0 {
		return 0
	}
	return g.vers[len(g.vers)-1]
}

func (g *gen) save() {
	g.w.Op("save")
	if g.poison {
		return
	}
	v := g.base + 1
	if _, ok := g.snaps[v]; ok {
		// existing version: succeeds only when the replay is identical; the
		// generator cannot know, so it assumes failure unless nothing changed.
		if g.dirty {
			g.poison = true
			return
		}
		// unchanged contents of base vs v: identical only if v == base contents
		g.poison = true
		return
	}
	g.snaps[v] = cpSet(g.present)
	g.vers = append(g.vers, v)
	g.base, g.dirty = v, false
}

func (g *gen) rollback() {
	g.w.Op("rollback")
	g.poison, g.dirty = false, false
	if s, ok := g.snaps[g.base]; ok {
		g.present = cpSet(s)
	} else {
		g.present = map[int]bool{}
	}
}

func (g *gen) load(v int) {
	g.w.Op("load %d", v)
	if s, ok := g.snaps[v]; ok {
		g.present = cpSet(s)
		g.base, g.dirty, g.poison = v, false, false
	}
}

func (g *gen) prune(to int) {
	g.w.Op("prune %d", to)
	if g.dirty || g.poison || to >= g.latest() || g.base <= to {
		return
	}
	var keep []int
	for _, v := range g.vers {
		if v <= to {
			delete(g.snaps, v)
		} else {
			keep = append(keep, v)
		}
	}
	g.vers = keep
}

func (g *gen) reopen() {
	g.w.Op("reopen")
	l := g.latest()
	g.base, g.dirty, g.poison = l, false, false
	if s, ok := g.snaps[l]; ok {
		g.present = cpSet(s)
	} else {
		g.present = map[int]bool{}
	}
}

func (g *gen) someKey(u int) int {
	// bias towards existing keys half of the time
	if len(g.present) > 0 && len(g.present) <= 512 && g.r.Chance(50) {
		n := g.r.Intn(len(g.present))
		ks := make([]int, 0, len(g.present))
		for k := range g.present {
			ks = append(ks, k)
		}
		sort.Ints(ks)
		return ks[n]
	}
	return g.r.Intn(u)
}

func (g *gen) bound(u int) string {
	switch g.r.Intn(10) {
	case 0:
		return "-"
	case 1:
		return "e"
	case 2:
		return key(g.r.Intn(u)) + "00"
	case 3:
		return fmt.Sprintf("%02x", g.r.Intn(256))
	}
	return key(g.r.Intn(u + 2))
}

// read emits one read op; prefix is "" (working tree) or "at N ".
func (g *gen) read(prefix string, u int, sizeHint int) {
	switch g.r.Intn(14) {
	case 0, 1, 2:
		g.w.Op("%sget %s", prefix, key(g.someKey(u)))
	case 3:
		g.w.Op("%shas %s", prefix, key(g.someKey(u)))
	case 4:
		g.w.Op("%ssize", prefix)
	case 5, 6:
		g.w.Op("%sidx %d", prefix, g.r.Intn(sizeHint+2)-1)
	case 7:
		g.w.Op("%sgwi %s", prefix, key(g.someKey(u)))
	case 8, 9, 10:
		dir := "asc"
		if g.r.Bool() {
			dir = "desc"
		}
		lim := 0
		if g.r.Chance(40) {
			lim = 1 + g.r.Intn(6)
		}
		g.w.Op("%sit %s %s %s %d", prefix, dir, g.bound(u), g.bound(u), lim)
	case 11:
		g.w.Op("%siter %d", prefix, g.r.Intn(4)*g.r.Intn(40))
	case 12:
		g.w.Op("%shash", prefix)
	case 13:
		g.w.Op("%sshape", prefix)
	}
}

func (g *gen) readAny(u int) {
	if len(g.vers) > 0 && g.r.Chance(35) {
		v := kit.Pick(g.r, g.vers)
		if g.r.Chance(5) {
			v = g.latest() + 1 + g.r.Intn(2) // a version that does not exist
		}
		g.read(fmt.Sprintf("at %d ", v), u, len(g.snaps[v]))
		return
	}
	g.read("", u, len(g.present))
}

func (g *gen) versionOp() {
	if g.mode == "c24" {
		switch g.r.Intn(10) {
		case 0:
			g.rollback()
		case 1:
			if l := g.latest(); l > 0 && !g.dirty {
				v := l - g.r.Intn(g.maxKeep)
				if v >= 1 {
					g.load(v)
					// return to the tip so that the history keeps growing
					if v != l && g.r.Chance(70) {
						g.load(l)
					}
				}
			}
		case 2:
			if l := g.latest(); l > 0 {
				g.w.Op("export %d", l-g.r.Intn(g.maxKeep))
			}
		case 3:
			g.w.Op("hash")
		default:
			g.save()
		}
		return
	}
	switch g.r.Intn(20) {
	case 0, 1:
		g.rollback()
	case 2, 3:
		if len(g.vers) > 0 {
			g.load(kit.Pick(g.r, g.vers))
		} else {
			g.load(1 + g.r.Intn(3))
		}
	case 4:
		g.load(g.latest() + g.r.Intn(3))
	case 5, 6, 7:
		// prune: mostly a valid target (clean session first)
		if g.r.Chance(70) {
			if g.dirty {
				if g.r.Bool() {
					g.save()
				} else {
					g.rollback()
				}
			}
			if g.base != g.latest() && g.latest() > 0 {
				g.load(g.latest())
			}
		}
		l := g.latest()
		if l >= 2 && len(g.vers) > 0 {
			lo := g.vers[0]
			g.prune(lo + g.r.Intn(l-lo+1) - g.r.Intn(2))
		} else {
			g.prune(g.r.Intn(3))
		}
	case 8:
		g.reopen()
	case 9:
		g.w.Op("vers")
	case 10:
		g.w.Op("ver")
	case 11:
		g.w.Op("lhash")
	case 12:
		g.w.Op("audit")
	default:
		g.save()
	}
}

// mixed emits n random ops over a universe of u keys.
func (g *gen) mixed(n, u int, pSet, pRm, pVer int) {
	for i := 0; i < n; i++ {
		x := g.r.Intn(100)
		switch {
		case x < pSet:
			g.set(g.r.Intn(u))
		case x < pSet+pRm:
			g.rm(g.someKey(u))
		case x < pSet+pRm+pVer:
			g.versionOp()
		default:
			g.readAny(u)
		}
		if g.poison && g.r.Chance(30) {
			g.rollback()
		}
	}
}

func (g *gen) checkpoint() {
	g.w.Op("size")
	g.w.Op("shape")
	g.w.Op("hash")
	g.w.Op("it asc - - 0")
	g.w.Op("it desc - - 0")
}

// ------------------------------------------------------------ boundary table

func (g *gen) boundary(thorough bool) {
	c23 := g.mode == "c23"
	// --- empty tree
	g.w.Case("b/empty")
	g.reset(0, false)
	for _, op := range []string{"get 01", "has 01", "size", "idx 0", "idx -1", "gwi 01", "it asc - - 0", "it desc e e 0", "iter 0", "hash", "lhash", "shape", "rm 01", "rollback", "size"} {
		g.w.Op("%s", op)
	}
	if c23 {
		for _, op := range []string{"vers", "ver", "load 1", "prune 0", "prune 1", "at 1 get 01", "audit"} {
			g.w.Op("%s", op)
		}
	}
	g.save() // saving the empty tree
	for _, op := range []string{"at 1 size", "at 1 hash", "at 1 shape", "at 1 it asc - - 0", "at 2 size", "hash", "lhash"} {
		g.w.Op("%s", op)
	}
	if c23 {
		g.w.Op("vers")
		g.w.Op("ver")
		g.w.Op("prune 1")
		g.w.Op("reopen")
	}
	g.set(1)
	g.save()
	g.rm(1)
	g.save() // back to empty at version 3
	g.w.Op("at 2 get 0001")
	g.w.Op("at 3 size")
	g.w.Op("at 3 hash")
	if c23 {
		g.w.Op("audit")
	}

	// --- argument errors
	g.w.Case("b/args")
	g.reset(1, true)
	for _, op := range []string{"set - 01", "set e 01", "set 01 -", "set - -", "set 01 e", "get 01", "has 01", "set 01 e", "set 01 02", "get 01", "get -", "get e", "has -", "rm -", "rm e", "gwi -", "gwi e", "size",
		"it asc - - 0", "it asc e - 0", "it asc - e 0", "it desc - e 0", "it desc e - 0", "it asc 01 01 0", "it asc 02 01 0", "it desc 02 01 0", "it asc 01 0100 0", "it desc 01 0100 0", "idx 0", "idx 1", "idx -1", "idx 9223372036854775807", "idx -9223372036854775808"} {
		g.w.Op("%s", op)
	}
	g.save()
	g.w.Op("at 1 get 01")
	g.w.Op("at 1 idx 1")

	// --- prefix-related and extreme keys
	g.w.Case("b/prefix-keys")
	g.reset(0, false)
	ks := []string{"00", "0000", "000000", "ff", "ffff", "ffffff", "61", "6100", "61ff", "6162", "616200", "62", "7f", "80", "00ff", "ff00", "01"}
	for i, k := range ks {
		g.w.Op("set %s %02x", k, i)
	}
	g.checkpoint()
	for _, k := range ks {
		g.w.Op("get %s", k)
		g.w.Op("gwi %s", k)
		g.w.Op("it asc %s - 2", k)
		g.w.Op("it desc - %s 2", k)
		g.w.Op("it asc %s %sff 0", k, k)
	}
	g.w.Op("gwi 6101")
	g.w.Op("gwi ffffffff")
	g.save()
	for i := 0; i < len(ks); i += 2 {
		g.w.Op("rm %s", ks[i])
	}
	g.checkpoint()
	g.w.Op("at 1 it asc - - 0")
	g.rollback()
	g.checkpoint()

	// --- a full leaf (32 keys, even indices) split by one more key at every position
	for _, pos := range []int{0, 1, 15, 16, 17, 18, 30, 31, 32} {
		g.w.Case(fmt.Sprintf("b/leaf-split-at-%d", pos))
		g.reset(0, false)
		for i := 0; i < 32; i++ {
			g.w.Op("set %s %02x", key(2*i+2), i)
		}
		g.w.Op("shape")
		g.save()
		g.w.Op("set %s ee", key(2*pos+1)) // lands at position pos
		g.checkpoint()
		g.w.Op("gwi %s", key(2*pos+1))
		g.w.Op("idx %d", pos)
		g.w.Op("idx 32")
		g.w.Op("idx 33")
		g.w.Op("at 1 shape")
		g.w.Op("at 1 size")
		g.save()
		g.w.Op("at 2 shape")
		g.w.Op("at 2 hash")
		// update in place in both halves, then remove down to the merge
		g.w.Op("set %s aa", key(2))
		g.w.Op("set %s bb", key(64))
		g.w.Op("hash")
		for i := 0; i < 20; i++ {
			g.w.Op("rm %s", key(2*i+2))
			if i%4 == 3 {
				g.w.Op("shape")
			}
		}
		g.checkpoint()
		g.rollback()
		g.w.Op("shape")
		for i := 31; i >= 8; i-- {
			g.w.Op("rm %s", key(2*i+2))
			if i%4 == 0 {
				g.w.Op("shape")
			}
		}
		g.checkpoint()
		g.w.Op("at 2 it asc - - 0")
	}

	// --- ascending and descending runs, then drains
	runs := []struct {
		name  string
		n     int
		desc  bool
		drain string
	}{
		{"asc-70", 70, false, "asc"}, {"asc-70-d", 70, false, "desc"}, {"desc-70", 70, true, "asc"}, {"desc-70-d", 70, true, "desc"},
		{"asc-1100", 1100, false, "asc"}, {"desc-600", 600, true, "desc"}, {"asc-1100-mid", 1100, false, "mid"},
	}
	if thorough {
		runs = append(runs, []struct {
			name  string
			n     int
			desc  bool
			drain string
		}{{"asc-2300", 2300, false, "desc"}, {"desc-1300", 1300, true, "asc"}, {"desc-1300-mid", 1300, true, "mid"}}...)
	}
	for _, ru := range runs {
		g.w.Case("b/run-" + ru.name)
		use := 54
		if !thorough && ru.n > 100 {
			use = 6
		}
		g.resetN(ru.n%3, ru.n%2 == 0, use)
		every := ru.n / 6
		for i := 0; i < ru.n; i++ {
			j := i
			if ru.desc {
				j = ru.n - 1 - i
			}
			g.w.Op("set %s %02x", key(3*j+3), j%251)
			if (i+1)%every == 0 {
				g.w.Op("shape")
				g.w.Op("size")
				g.save()
			}
		}
		g.checkpoint()
		g.w.Op("idx %d", ru.n-1)
		g.w.Op("idx %d", ru.n/2)
		g.w.Op("gwi %s", key(3*(ru.n/2)+4))
		g.w.Op("it asc %s %s 0", key(3*(ru.n/3)), key(3*(ru.n/3)+100))
		g.w.Op("it desc %s %s 7", key(3*(ru.n/3)), key(3*(ru.n/2)))
		g.w.Op("at 1 shape")
		g.w.Op("at 3 size")
		order := make([]int, ru.n)
		for i := range order {
			switch ru.drain {
			case "asc":
				order[i] = i
			case "desc":
				order[i] = ru.n - 1 - i
			default: // from the middle outwards
				if i%2 == 0 {
					order[i] = ru.n/2 + i/2
				} else {
					order[i] = ru.n/2 - 1 - i/2
				}
			}
		}
		for i, j := range order {
			if j < 0 || j >= ru.n {
				continue
			}
			g.w.Op("rm %s", key(3*j+3))
			if (i+1)%every == 0 {
				g.w.Op("shape")
				g.w.Op("size")
				g.w.Op("it asc - - 5")
				g.w.Op("it desc - - 5")
				g.save()
			}
		}
		g.checkpoint()
		g.save()
		if c23 {
			g.w.Op("audit")
			l := g.latest()
			g.prune(l / 2)
			g.w.Op("vers")
			g.prune(l - 1)
			g.w.Op("audit")
		} else {
			g.w.Op("export %d", g.latest()/2)
		}
	}

	// --- versions: rollback, load, re-save of an existing version, pruning
	if c23 {
		g.w.Case("b/versions")
		g.reset(2, true)
		g.w.Op("set 01 a1")
		g.w.Op("set 02 a2")
		g.save() // 1
		g.w.Op("set 02 b2")
		g.w.Op("set 03 b3")
		g.w.Op("rm 01")
		g.w.Op("get 01")
		g.w.Op("at 1 get 01")
		g.w.Op("at 1 get 03")
		g.rollback()
		g.w.Op("get 01")
		g.w.Op("get 03")
		g.w.Op("set 02 b2")
		g.w.Op("set 03 b3")
		g.w.Op("rm 01")
		g.save() // 2
		g.w.Op("set 04 c4")
		g.save() // 3
		g.w.Op("vers")
		g.w.Op("prune 3") // latest
		g.w.Op("prune 4")
		g.w.Op("set 05 d5")
		g.w.Op("prune 1") // uncommitted
		g.rollback()
		g.load(2)
		g.w.Op("ver")
		g.w.Op("lhash")
		g.w.Op("get 04")
		g.w.Op("prune 2") // loaded by the working tree
		g.w.Op("prune 1")
		g.w.Op("vers")
		g.w.Op("at 1 get 01")
		g.w.Op("set 04 c4")
		g.w.Op("hash")
		g.w.Op("save") // identical replay of version 3: idempotent
		g.w.Op("ver")
		g.load(2)
		g.w.Op("set 04 zz")
		g.w.Op("save") // differs from the existing version 3: refused, session poisoned
		g.w.Op("get 04")
		g.w.Op("set 06 00")
		g.w.Op("rm 02")
		g.w.Op("save")
		g.w.Op("at 3 get 04")
		g.w.Op("prune 2")
		g.w.Op("rollback")
		g.w.Op("get 04")
		g.w.Op("ver")
		g.w.Op("save") // version 2's contents against existing version 3: refused
		g.w.Op("rollback")
		g.w.Op("load 3")
		g.w.Op("set 07 e7")
		g.w.Op("save") // 4
		g.w.Op("reopen")
		g.w.Op("vers")
		g.w.Op("audit")
		g.w.Op("prune 3")
		g.w.Op("vers")
		g.w.Op("at 3 get 04")
		g.w.Op("at 4 it asc - - 0")
		g.w.Op("audit")
	}
}

// ------------------------------------------------------------ structured random

func (g *gen) random(thorough bool) {
	type prof struct {
		name            string
		cases, n, u     int
		pSet, pRm, pVer int
		preload         int
		use             int // C24: number of configurations
	}
	profs := []prof{
		{"tiny", 12, 120, 6, 30, 25, 20, 0, 54},
		{"small", 10, 300, 40, 35, 25, 12, 0, 54},
		{"leafy", 6, 500, 120, 45, 25, 8, 40, 18},
		{"churn", 3, 900, 400, 40, 35, 6, 300, 9},
		{"deep", 1, 1200, 3000, 30, 45, 3, 1500, 6},
	}
	if thorough {
		profs = []prof{
			{"tiny", 60, 150, 6, 30, 25, 20, 0, 54},
			{"small", 40, 400, 40, 35, 25, 12, 0, 54},
			{"leafy", 24, 700, 120, 45, 25, 8, 40, 54},
			{"churn", 10, 1500, 400, 40, 35, 6, 300, 54},
			{"deep", 4, 3000, 3000, 30, 45, 3, 1800, 27},
			{"deeper", 1, 4000, 12000, 25, 55, 1, 9000, 12},
		}
	}
	for _, p := range profs {
		for c := 0; c < p.cases; c++ {
			g.w.Case(fmt.Sprintf("r/%s-%d", p.name, c))
			g.maxKeep = 2
			g.resetN([]int{0, 1, 10000}[g.r.Intn(3)], g.r.Bool(), p.use)
			if p.preload > 0 {
				// preload in a random style so that the random phase starts on a tall tree
				style := g.r.Intn(3)
				for i := 0; i < p.preload; i++ {
					j := i
					switch style {
					case 1:
						j = p.preload - 1 - i
					case 2:
						j = g.r.Intn(p.u)
					}
					g.set(j * p.u / (p.preload + 1))
				}
				g.save()
				g.w.Op("shape")
			}
			g.mixed(p.n, p.u, p.pSet, p.pRm, p.pVer)
			g.checkpoint()
			if g.mode == "c23" {
				g.w.Op("audit")
			} else if g.latest() > 0 {
				g.w.Op("export %d", g.latest())
			}
		}
	}
}

// ------------------------------------------------------------ malformed stream

func (g *gen) malformed() {
	g.w.Case("m/malformed")
	g.reset(0, false)
	g.w.Op("set 01 02")
	bad := []string{"set", "set 01", "set 01 02 03", "set 0 01", "set zz 01", "set 01 0g", "rm", "rm 01 02", "get", "get 0", "has", "size 1", "idx", "idx x", "idx 1 2", "idx +1",
		"gwi", "it", "it asc", "it up - - 0", "it asc - -", "it asc - - x", "it asc - - -1", "it asc zz - 0", "iter", "iter x", "save 1", "rollback 1", "load", "load x", "load 0", "load -1",
		"prune", "prune x", "prune -1", "at", "at 1", "at x get 01", "at 0 get 01", "at 1 set 01 02", "at 1 save", "bogus", "SET 01 02", "hash 1", "shape x", "export", "export x", "cfg", "use", "use 0", "use 3", "vers 1", "ver 1", "lhash 1", "audit 1", "reopen 1"}
	for _, b := range bad {
		g.w.Op("%s", b)
	}
	for i := 0; i < 40; i++ {
		toks := []string{"set", "rm", "get", "it", "at", "idx", "load", "prune", "save", "01", "zz", "-", "e", "asc", "desc", "0", "1", "-1", "x", "ff"}
		n := 1 + g.r.Intn(5)
		s := ""
		for j := 0; j < n; j++ {
			if j > 0 {
				s += " "
			}
			s += kit.Pick(g.r, toks)
		}
		g.w.Op("%s", s)
	}
	g.w.Op("get 01")
	g.w.Op("size")
}

// Gen writes the whole stream for one seed.
func Gen(mode string) func(w *kit.Out, r *kit.Rand, tier string) {
	return func(w *kit.Out, r *kit.Rand, tier string) {
		g := &gen{w: w, r: r, mode: mode, maxKeep: 2}
		thorough := tier == "thorough"
		g.boundary(thorough)
		g.random(thorough)
		g.malformed()
	}
}
