// Package bptkit is the code shared by the C23 and C24 harnesses: one real
// bptree.MutableTree over a memdb ("Inst"), the op-line interpreter that turns
// its answers into canonical output tokens, the independent oracle (plain Go
// maps per version) and the generators.
//
// Nothing here looks at the Lean model; the canonical output format is
// documented in lean/GnoVerif/Drive/C23.lean.
package bptkit

import (
	"errors"
	"fmt"
	"sort"
	"strconv"
	"strings"

	bp "github.com/gnolang/gno/tm2/pkg/bptree"
	"github.com/gnolang/gno/tm2/pkg/db/memdb"

	"gnoverif/kit"
)

// Cfg is a configuration that must NOT influence any observable answer.
type Cfg struct {
	Cache int  // node cache size (0 = no cache)
	Fast  bool // fast index on/off
}

// Inst is one real tree over one in-memory DB.
type Inst struct {
	DB       *memdb.MemDB
	T        *bp.MutableTree
	Cfg      Cfg
	Poisoned bool // harness-side: the last SaveVersion failed; working-tree reads are outside the contract until rollback/load
}

func NewInst(cfg Cfg) *Inst {
	in := &Inst{DB: memdb.NewMemDB(), Cfg: cfg}
	in.open()
	return in
}

func (in *Inst) open() {
	in.T = bp.NewMutableTreeWithDB(in.DB, in.Cfg.Cache, bp.NewNopLogger(), bp.FastIndexOption(in.Cfg.Fast))
}

// Reopen closes the tree handle and opens a new one over the same DB, loading
// the latest version (uncommitted working state is lost, as after a restart).
func (in *Inst) Reopen() (int64, error) {
	_ = in.T.Close()
	in.open()
	in.Poisoned = false
	return in.T.Load()
}

// ---------------------------------------------------------------- errors

func ErrClass(err error) string {
	switch {
	case err == nil:
		return "ok"
	case errors.Is(err, bp.ErrSessionPoisoned):
		return "err:poisoned"
	case errors.Is(err, bp.ErrEmptyKey):
		return "err:emptykey"
	case errors.Is(err, bp.ErrKeyTooLong):
		return "err:keytoolong"
	case errors.Is(err, bp.ErrVersionDoesNotExist):
		return "err:noversion"
	case errors.Is(err, bp.ErrUncommittedChanges):
		return "err:uncommitted"
	case errors.Is(err, bp.ErrActiveReaders):
		return "err:active"
	case errors.Is(err, bp.ErrKeyDoesNotExist):
		return "err:nokey"
	case errors.Is(err, bp.ErrNotInitializedTree):
		return "err:emptytree"
	}
	msg := err.Error()
	switch {
	case strings.Contains(msg, "value must not be nil"):
		return "err:nilvalue"
	case strings.Contains(msg, "cannot prune latest version"):
		return "err:latest"
	case strings.Contains(msg, "already exists with a different hash"):
		return "err:hashmismatch"
	case strings.Contains(msg, "already exists"):
		return "err:exists"
	}
	return "err:other"
}

// ---------------------------------------------------------------- canonical output helpers

// Clip keeps outputs below the kit's 300-character line cap: short strings
// are printed as they are, long ones as `#<len>:<fnv1a-64>:<first 96 chars>`.
// The Lean driver implements the same function.
func Clip(s string) string {
	if len(s) <= 200 {
		return s
	}
	h := uint64(14695981039346656037)
	for i := 0; i < len(s); i++ {
		h ^= uint64(s[i])
		h *= 1099511628211
	}
	return fmt.Sprintf("#%d:%016x:%s", len(s), h, s[:96])
}

func boolStr(b bool) string {
	if b {
		return "true"
	}
	return "false"
}

type KV struct{ K, V []byte }

func FmtItems(items []KV) string {
	if len(items) == 0 {
		return "-"
	}
	var sb strings.Builder
	for i, it := range items {
		if i > 0 {
			sb.WriteByte(',')
		}
		sb.WriteString(kit.Hex(it.K))
		sb.WriteByte('=')
		sb.WriteString(kit.Hex(it.V))
	}
	return sb.String()
}

// reader is the read API common to the working tree and to committed snapshots.
type reader interface {
	Get(key []byte) ([]byte, error)
	Has(key []byte) (bool, error)
	Size() int64
	GetByIndex(index int64) ([]byte, []byte, error)
	GetWithIndex(key []byte) (int64, []byte, error)
	IterateRange(start, end []byte, ascending bool, fn func(key, value []byte) bool) (bool, error)
	Iterate(fn func(key, value []byte) bool) (bool, error)
	Hash() []byte
}

type workReader struct{ *bp.MutableTree }

// Hash of the working tree is WorkingHash (MutableTree.Hash is the last saved one).
func (w workReader) Hash() []byte { return w.MutableTree.WorkingHash() }

// Read results in structured form, for the oracle.
type ReadRes struct {
	Kind    string // get has size idx gwi it iter hash shape
	Val     []byte
	Bool    bool
	N       int64
	Key     []byte
	Items   []KV
	Stopped bool
	Err     string // canonical error token or ""
	Text    string // hash / shape text
}

// ReadArgs is a parsed read op.
type ReadArgs struct {
	Kind       string
	Key        []byte
	Index      int64
	Asc        bool
	Start, End []byte
	Limit      int
}

func ParseRead(t []string) (ReadArgs, bool) {
	var a ReadArgs
	if len(t) == 0 {
		return a, false
	}
	a.Kind = t[0]
	hexArg := func(s string, _ bool) ([]byte, bool) { return keyArg(s) }
	var ok bool
	switch a.Kind {
	case "get", "has", "gwi":
		if len(t) != 2 {
			return a, false
		}
		a.Key, ok = hexArg(t[1], false)
		return a, ok
	case "size", "hash", "shape":
		return a, len(t) == 1
	case "idx":
		if len(t) != 2 {
			return a, false
		}
		n, err := strconv.ParseInt(t[1], 10, 64)
		if err != nil || (len(t[1]) > 0 && t[1][0] == '+') {
			return a, false
		}
		a.Index = n
		return a, true
	case "it":
		if len(t) != 5 {
			return a, false
		}
		switch t[1] {
		case "asc":
			a.Asc = true
		case "desc":
			a.Asc = false
		default:
			return a, false
		}
		if a.Start, ok = hexArg(t[2], true); !ok {
			return a, false
		}
		if a.End, ok = hexArg(t[3], true); !ok {
			return a, false
		}
		n, err := strconv.ParseUint(t[4], 10, 31)
		if err != nil || (len(t[4]) > 0 && t[4][0] == '+') {
			return a, false
		}
		a.Limit = int(n)
		return a, true
	case "iter":
		if len(t) != 2 {
			return a, false
		}
		n, err := strconv.ParseUint(t[1], 10, 31)
		if err != nil || (len(t[1]) > 0 && t[1][0] == '+') {
			return a, false
		}
		a.Limit = int(n)
		return a, true
	}
	return a, false
}

// DoRead performs one read op on r and returns (canonical output, structured result).
func DoRead(r reader, exp func() (string, error), a ReadArgs) (string, ReadRes) {
	res := ReadRes{Kind: a.Kind}
	fail := func(err error) (string, ReadRes) {
		res.Err = ErrClass(err)
		return res.Err, res
	}
	switch a.Kind {
	case "get":
		v, err := r.Get(a.Key)
		if err != nil {
			return fail(err)
		}
		res.Val = v
		return kit.Hex(v), res
	case "has":
		b, err := r.Has(a.Key)
		if err != nil {
			return fail(err)
		}
		res.Bool = b
		return boolStr(b), res
	case "size":
		res.N = r.Size()
		return strconv.FormatInt(res.N, 10), res
	case "idx":
		k, v, err := r.GetByIndex(a.Index)
		if err != nil {
			return fail(err)
		}
		res.Key, res.Val = k, v
		return kit.Hex(k) + " " + kit.Hex(v), res
	case "gwi":
		i, v, err := r.GetWithIndex(a.Key)
		if err != nil {
			return fail(err)
		}
		res.N, res.Val = i, v
		return strconv.FormatInt(i, 10) + " " + kit.Hex(v), res
	case "it", "iter":
		var items []KV
		fn := func(k, v []byte) bool {
			items = append(items, KV{append([]byte{}, k...), cpv(v)})
			return a.Limit > 0 && len(items) >= a.Limit
		}
		var stopped bool
		var err error
		if a.Kind == "it" {
			stopped, err = r.IterateRange(a.Start, a.End, a.Asc, fn)
		} else {
			stopped, err = r.Iterate(fn)
		}
		if err != nil {
			return fail(err)
		}
		res.Items, res.Stopped = items, stopped
		return Clip(boolStr(stopped) + " " + strconv.Itoa(len(items)) + " " + FmtItems(items)), res
	case "hash":
		res.Text = fmt.Sprintf("%x", r.Hash())
		return res.Text, res
	case "shape":
		s, err := exp()
		if err != nil {
			return fail(err)
		}
		res.Text = s
		return Clip(s), res
	}
	return "err:badop", res
}

func cpv(v []byte) []byte {
	if v == nil {
		return nil
	}
	return append([]byte{}, v...)
}

// Shape renders the exporter's post-order stream as a nested term:
//
//	leaf  : L(k=v,k=v,...)
//	inner : I<height>[sep,sep,...](child child ...)
//	empty : E
//
// It exposes exactly what Export exposes: leaf boundaries, every key/value,
// every inner node's height and separator keys.
func Shape(imm *bp.ImmutableTree) (string, error) {
	if imm.IsEmpty() {
		return "E", nil
	}
	nodes, err := ExportAll(imm)
	if err != nil {
		return "", err
	}
	var stack []string
	var cur []KV
	for _, n := range nodes {
		switch {
		case n.Height == 0:
			cur = append(cur, KV{n.Key, n.Value})
		case n.Height == -1:
			if int(n.NumKeys) != len(cur) {
				return "", fmt.Errorf("shape: leaf marker %d vs %d entries", n.NumKeys, len(cur))
			}
			stack = append(stack, "L("+FmtItems(cur)+")")
			cur = nil
		default:
			nc := int(n.NumKeys) + 1
			if len(stack) < nc {
				return "", fmt.Errorf("shape: inner marker needs %d children, have %d", nc, len(stack))
			}
			seps := make([]string, len(n.SeparatorKeys))
			for i, s := range n.SeparatorKeys {
				seps[i] = kit.Hex(s)
			}
			kids := stack[len(stack)-nc:]
			s := "I" + strconv.Itoa(int(n.Height)) + "[" + strings.Join(seps, ",") + "](" + strings.Join(kids, " ") + ")"
			stack = append(stack[:len(stack)-nc], s)
		}
	}
	if len(stack) != 1 || len(cur) != 0 {
		return "", fmt.Errorf("shape: malformed export stream (stack %d, pending %d)", len(stack), len(cur))
	}
	return stack[0], nil
}

// ExportAll drains an exporter (values resolved through the snapshot's own resolver).
func ExportAll(imm *bp.ImmutableTree) ([]*bp.ExportNode, error) {
	exp, err := imm.Export(nil)
	if err != nil {
		return nil, err
	}
	defer exp.Close()
	var out []*bp.ExportNode
	for {
		n, err := exp.Next()
		if errors.Is(err, bp.ErrExportDone) {
			return out, nil
		}
		if err != nil {
			return nil, err
		}
		out = append(out, n)
	}
}

// ---------------------------------------------------------------- op interpreter (one instance)

// Step is the structured outcome of one op, consumed by the oracle.
type Step struct {
	Op      string
	Out     string // canonical output
	Err     string // canonical error token if the op failed, else ""
	Updated bool   // set
	Found   bool   // rm
	OldVal  []byte // rm
	Version int64  // save / load(latest) / reopen
	Hash    string // save
	At      int64  // versioned read: the version (0 = working tree)
	Read    *ReadRes
	Args    ReadArgs
	Vers    []int
}

func (in *Inst) readerAt(v int64) (reader, func() (string, error), func(), error) {
	if v == 0 {
		return workReader{in.T}, func() (string, error) { return Shape(in.T.Snapshot(in.T.Version())) }, func() {}, nil
	}
	imm, err := in.T.GetImmutable(v)
	if err != nil {
		return nil, nil, nil, err
	}
	return imm, func() (string, error) { return Shape(imm) }, func() { imm.Close() }, nil
}

func parseVersion(s string) (int64, bool) {
	n, err := strconv.ParseUint(s, 10, 31)
	if err != nil || (len(s) > 0 && s[0] == '+') {
		return 0, false
	}
	return int64(n), true
}

func keyArg(s string) ([]byte, bool) {
	b, err := kit.UnHex(s)
	if err != nil {
		return nil, false
	}
	return b, true
}

// Exec interprets one op line on this instance.  Ops (K,V lowercase hex, `e`
// empty, `-` nil):
//
//	set K V | rm K | save | rollback | load N | prune N | reopen | vers | ver
//	get K | has K | size | idx I | gwi K | it asc|desc S E LIMIT | iter LIMIT | hash | shape
//	at N <read op>          the same reads on the committed snapshot GetImmutable(N)
//	lhash                   MutableTree.Hash() (hash of the last saved/loaded version)
func (in *Inst) Exec(t []string) Step {
	st := Step{}
	bad := func() Step { st.Out = "err:badop"; st.Err = "err:badop"; return st }
	if len(t) == 0 {
		return bad()
	}
	st.Op = t[0]
	fail := func(err error) Step { st.Err = ErrClass(err); st.Out = st.Err; return st }
	switch t[0] {
	case "set":
		if len(t) != 3 {
			return bad()
		}
		k, ok1 := keyArg(t[1])
		v, ok2 := keyArg(t[2])
		if !ok1 || !ok2 {
			return bad()
		}
		upd, err := in.T.Set(k, v)
		if err != nil {
			return fail(err)
		}
		st.Updated = upd
		st.Out = boolStr(upd)
		return st
	case "rm":
		if len(t) != 2 {
			return bad()
		}
		k, ok := keyArg(t[1])
		if !ok {
			return bad()
		}
		old, found, err := in.T.Remove(k)
		if err != nil {
			return fail(err)
		}
		st.Found, st.OldVal = found, old
		st.Out = kit.Hex(old) + " " + boolStr(found)
		return st
	case "save":
		if len(t) != 1 {
			return bad()
		}
		h, v, err := in.T.SaveVersion()
		if err != nil {
			in.Poisoned = true
			return fail(err)
		}
		st.Version, st.Hash = v, fmt.Sprintf("%x", h)
		st.Out = strconv.FormatInt(v, 10) + " " + st.Hash
		return st
	case "rollback":
		if len(t) != 1 {
			return bad()
		}
		in.T.Rollback()
		in.Poisoned = false
		st.Out = "ok"
		return st
	case "load":
		if len(t) != 2 {
			return bad()
		}
		v, ok := parseVersion(t[1])
		if !ok || v == 0 {
			return bad()
		}
		latest, err := in.T.LoadVersion(v)
		if err != nil {
			return fail(err)
		}
		in.Poisoned = false
		st.Version = latest
		st.Out = strconv.FormatInt(latest, 10)
		return st
	case "prune":
		if len(t) != 2 {
			return bad()
		}
		v, ok := parseVersion(t[1])
		if !ok {
			return bad()
		}
		if err := in.T.DeleteVersionsTo(v); err != nil {
			return fail(err)
		}
		st.Out = "ok"
		return st
	case "reopen":
		if len(t) != 1 {
			return bad()
		}
		v, err := in.Reopen()
		if err != nil {
			return fail(err)
		}
		st.Version = v
		st.Out = strconv.FormatInt(v, 10)
		return st
	case "vers":
		if len(t) != 1 {
			return bad()
		}
		vs := in.T.AvailableVersions()
		sort.Ints(vs)
		st.Vers = vs
		parts := make([]string, len(vs))
		for i, v := range vs {
			parts[i] = strconv.Itoa(v)
		}
		st.Out = "[" + strings.Join(parts, ",") + "]"
		return st
	case "ver":
		if len(t) != 1 {
			return bad()
		}
		st.Version = in.T.Version()
		st.Out = fmt.Sprintf("%d %d", in.T.Version(), in.T.WorkingVersion())
		return st
	case "audit":
		// impl side: number of available versions and the sum of their sizes;
		// the oracle re-reads every retained version in full at this point.
		if len(t) != 1 {
			return bad()
		}
		vs := in.T.AvailableVersions()
		var sum int64
		for _, v := range vs {
			imm, err := in.T.GetImmutable(int64(v))
			if err != nil {
				return fail(err)
			}
			sum += imm.Size()
			imm.Close()
		}
		st.Out = fmt.Sprintf("%d %d", len(vs), sum)
		return st
	case "lhash":
		if len(t) != 1 {
			return bad()
		}
		st.Hash = fmt.Sprintf("%x", in.T.Hash())
		st.Out = st.Hash
		return st
	case "at":
		if len(t) < 3 {
			return bad()
		}
		v, ok := parseVersion(t[1])
		if !ok || v == 0 {
			return bad()
		}
		a, ok := ParseRead(t[2:])
		if !ok {
			return bad()
		}
		st.At, st.Args = v, a
		r, exp, done, err := in.readerAt(v)
		if err != nil {
			return fail(err)
		}
		defer done()
		out, rr := DoRead(r, exp, a)
		st.Out, st.Read, st.Err = out, &rr, rr.Err
		return st
	default:
		a, ok := ParseRead(t)
		if !ok {
			return bad()
		}
		st.Args = a
		if in.Poisoned {
			// a failed SaveVersion discarded the staged values the working tree
			// still references; the package's contract is "Rollback before
			// continuing", so the harness does not read the working tree here.
			st.Err = "err:poisoned"
			st.Out = st.Err
			return st
		}
		r, exp, done, _ := in.readerAt(0)
		defer done()
		out, rr := DoRead(r, exp, a)
		st.Out, st.Read, st.Err = out, &rr, rr.Err
		return st
	}
}
