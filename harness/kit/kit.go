// Package kit is the shared skeleton of every per-property harness binary.
//
// A harness binary has three modes (DESIGN.md §2, App. A):
//
//	gen  --seed S --tier T      write operation lines to stdout (one op per line,
//	                            `#case <id>` lines separate independent cases)
//	exec                        read operation lines from stdin, run the REAL
//	                            gnolang/gno code in-process, and answer one line
//	                            per input line:  <impl-output> TAB <oracle>
//	                            oracle ∈ { "-" (no verdict), "ok", "VIOL:<class> <detail>" }
//	stats                       read op lines, print a JSON histogram (optional)
//
// The Lean driver consumes the same operation lines and must print the same
// <impl-output>.  The oracle column is the independent spec predicate used by
// the failing-input search (§4); it never looks at the Lean model.
package kit

import (
	"bufio"
	"encoding/hex"
	"flag"
	"fmt"
	"os"
	"runtime/debug"
	"strconv"
	"strings"
)

// ---------------------------------------------------------------- PRNG

// Rand is splitmix64; every random choice of a generator derives from one state.
type Rand struct{ s uint64 }

// NewRand mixes the seed through the splitmix64 finaliser first: with a plain
// multiple of the increment as the initial state, consecutive seeds would
// yield the same stream shifted by one draw.
func NewRand(seed uint64) *Rand {
	z := seed + 0x1234567
	z = (z ^ (z >> 30)) * 0xBF58476D1CE4E5B9
	z = (z ^ (z >> 27)) * 0x94D049BB133111EB
	return &Rand{s: z ^ (z >> 31)}
}

func (r *Rand) U64() uint64 {
	r.s += 0x9E3779B97F4A7C15
	z := r.s
	z = (z ^ (z >> 30)) * 0xBF58476D1CE4E5B9
	z = (z ^ (z >> 27)) * 0x94D049BB133111EB
	return z ^ (z >> 31)
}
func (r *Rand) Intn(n int) int {
	if n <= 0 {
		return 0
	}
	return int(r.U64() % uint64(n))
}
func (r *Rand) Bool() bool           { return r.U64()&1 == 1 }
func (r *Rand) Chance(pct int) bool  { return r.Intn(100) < pct }
func (r *Rand) I64() int64           { return int64(r.U64()) }
func (r *Rand) Range(lo, hi int) int { return lo + r.Intn(hi-lo+1) }
func (r *Rand) Bytes(n int) []byte {
	b := make([]byte, n)
	for i := range b {
		b[i] = byte(r.U64())
	}
	return b
}
func Pick[T any](r *Rand, xs []T) T { return xs[r.Intn(len(xs))] }

// Fork derives an independent stream (so inserting a draw in one generator
// does not perturb the others).
func (r *Rand) Fork() *Rand { return &Rand{s: r.U64()} }

// ---------------------------------------------------------------- hex / tokens

func Hex(b []byte) string {
	if b == nil {
		return "-"
	}
	if len(b) == 0 {
		return "e"
	}
	return hex.EncodeToString(b)
}

func UnHex(s string) ([]byte, error) {
	switch s {
	case "-":
		return nil, nil
	case "e":
		return []byte{}, nil
	}
	return hex.DecodeString(s)
}

func MustUnHex(s string) []byte {
	b, err := UnHex(s)
	if err != nil {
		panic("bad hex token " + s)
	}
	return b
}

func Atoi(s string) int {
	n, err := strconv.Atoi(s)
	if err != nil {
		panic("bad int token " + s)
	}
	return n
}
func Atoi64(s string) int64 {
	n, err := strconv.ParseInt(s, 10, 64)
	if err != nil {
		panic("bad int64 token " + s)
	}
	return n
}
func Atou64(s string) uint64 {
	n, err := strconv.ParseUint(s, 10, 64)
	if err != nil {
		panic("bad uint64 token " + s)
	}
	return n
}

// ---------------------------------------------------------------- harness driver

// Harness is what a property supplies.
type Harness struct {
	// Gen writes operation lines. tier is "quick" or "thorough".
	Gen func(w *Out, r *Rand, tier string)
	// Reset is called at every `#case` line (and once at start).
	Reset func()
	// Exec runs one op (already split into tokens) on the real code and returns
	// the canonical implementation output and the oracle verdict ("-", "ok",
	// or "VIOL:<class> <detail>").  Panics are caught by the kit and reported
	// as impl-output "panic:<first line>" with oracle "-" unless PanicOracle is set.
	Exec func(toks []string) (impl string, oracle string)
	// PanicOracle, when non-nil, classifies a recovered panic value: it returns
	// the canonical impl output (e.g. "panic:overflow") and the oracle verdict.
	PanicOracle func(toks []string, v any) (impl string, oracle string)
}

// Out is the generator's sink; it counts lines and cases.
type Out struct {
	w     *bufio.Writer
	Cases int
	Ops   int
}

func (o *Out) Case(id string) {
	o.Cases++
	fmt.Fprintf(o.w, "#case %s\n", id)
}
func (o *Out) Op(format string, a ...any) {
	o.Ops++
	fmt.Fprintf(o.w, format, a...)
	o.w.WriteByte('\n')
}

func oneLine(s string) string {
	s = strings.ReplaceAll(s, "\n", "\\n")
	s = strings.ReplaceAll(s, "\t", " ")
	if len(s) > 300 {
		s = s[:300]
	}
	return s
}

func safeExec(h *Harness, toks []string) (impl, oracle string) {
	defer func() {
		if v := recover(); v != nil {
			if h.PanicOracle != nil {
				func() {
					defer func() {
						if v2 := recover(); v2 != nil {
							impl, oracle = "panic:"+oneLine(fmt.Sprint(v)), "-"
						}
					}()
					impl, oracle = h.PanicOracle(toks, v)
				}()
				return
			}
			if os.Getenv("VERIF_TRACE") != "" {
				fmt.Fprintf(os.Stderr, "panic: %v\n%s\n", v, debug.Stack())
			}
			impl, oracle = "panic:"+oneLine(fmt.Sprint(v)), "-"
		}
	}()
	return h.Exec(toks)
}

// Main is the entry point of every harness binary.
func Main(h *Harness) {
	if len(os.Args) < 2 {
		fmt.Fprintln(os.Stderr, "usage: gen --seed S --tier T | exec")
		os.Exit(2)
	}
	switch os.Args[1] {
	case "gen":
		fs := flag.NewFlagSet("gen", flag.ExitOnError)
		seed := fs.Uint64("seed", 1, "")
		tier := fs.String("tier", "quick", "")
		fs.Parse(os.Args[2:])
		w := bufio.NewWriterSize(os.Stdout, 1<<20)
		o := &Out{w: w}
		h.Gen(o, NewRand(*seed), *tier)
		w.Flush()
		fmt.Fprintf(os.Stderr, "gen: cases=%d ops=%d\n", o.Cases, o.Ops)
	case "exec":
		in := bufio.NewScanner(os.Stdin)
		in.Buffer(make([]byte, 1<<20), 1<<28)
		w := bufio.NewWriterSize(os.Stdout, 1<<16)
		defer w.Flush()
		if h.Reset != nil {
			h.Reset()
		}
		n := 0
		for in.Scan() {
			line := in.Text()
			if strings.HasPrefix(line, "#") {
				if h.Reset != nil {
					h.Reset()
				}
				w.WriteString("#\t-\n")
			} else {
				impl, oracle := safeExec(h, strings.Fields(line))
				if oracle == "" {
					oracle = "-"
				}
				w.WriteString(oneLine(impl))
				w.WriteByte('\t')
				w.WriteString(oneLine(oracle))
				w.WriteByte('\n')
			}
			n++
			if n%64 == 0 {
				w.Flush()
			}
		}
	default:
		fmt.Fprintln(os.Stderr, "unknown mode", os.Args[1])
		os.Exit(2)
	}
}
