// Package gnorun runs REAL Gno (.gno) code in-process inside the GnoVM.
//
// Recipe (reused by every property whose code under verification is a Gno
// package under /repo/examples or /repo/gnovm/stdlibs):
//
//  1. r := gnorun.New("/repo")          one in-memory gno.Store per process
//     whose package getter loads imports lazily, by import path, from
//     <root>/gnovm/stdlibs and <root>/examples (gnovm/pkg/test.ProdStore —
//     the same store `gno run` uses).  Loading + preprocessing an imported
//     package happens once, at the first import, and is cached in the store.
//  2. p, err := r.Load("main", "main", map[string]string{"main.gno": src})
//     parses a generated package whose source imports the package under
//     test, runs its declarations and init() (this is exactly what
//     gnovm/cmd/gno/run.go does before evaluating `main()`).
//     Package-level variables of the generated package persist for the
//     life of the Pkg, so a harness keeps its state (e.g. `var t avl.Tree`)
//     in Gno and drives it call by call.
//  3. res := p.Call("opSet", "k", "v")  evaluates one call expression
//     (arguments: string, int, int64, bool, or a prepared gno.Expr) with
//     Machine.Eval and returns the result values, whatever the program
//     printed (println / print go to the captured Output), and — if the Gno
//     code panicked — the panic as a VALUE (Res.Panic != nil), never as a Go
//     panic.  After a panic the machine's stacks are dirty, so the Pkg
//     transparently re-creates its Machine on the same store and package
//     value; package-level Gno state survives.
//
// Nothing under /repo is written: the store is a memdb, the generated source
// lives in memory only.
//
// Measured (C50, avl): New+Load ≈ 0.4 s once per process (parses and
// preprocesses strconv + avl); one Call ≈ 0.1 ms plus the interpreted work
// (16 000 ops incl. an O(n) shape dump after every mutation: 7 s).  So: ONE
// Runner and ONE Pkg per harness process, a Gno-side `reset()` at `#case`
// boundaries, one Call per op line — no per-case VM start-up.
//
// Limits / gotchas:
//   - A package path can be loaded once per Runner ("package … already exists
//     in cache" otherwise): give every Load a fresh path ("main", "main2", …)
//     or, better, keep one package and reset its state from Gno.
//   - String arguments go through strconv.Quote, so arbitrary bytes (invalid
//     UTF-8, NUL) reach Gno unchanged; results come back via TypedValue
//     accessors (Res.Str/Int/Bool).  For composite results, encode them in Gno
//     (length-prefixed, see harness/cmd/c50) or print them and read Res.Output.
//   - Gno panics surface as Res.Panic{Gno:true, Msg}; classify on Msg in the
//     harness (never print Msg as canonical output).  Gno code may of course
//     also recover() itself.
//   - Unexported identifiers of the package under test are NOT reachable from
//     the generated package; use the exported API (C50 drives a shadow
//     *avl.Node through exported Node methods to see the tree structure).
//   - Only pure packages (gno.land/p/…) have been exercised.  For realms
//     (gno.land/r/…) follow gnovm/cmd/gno/run.go: run inside
//     Store.BeginTransaction(...), set ctx.OriginCaller before RunFiles, and
//     re-fetch the package with Store.GetPackage after finalisation.
package gnorun

import (
	"bytes"
	"fmt"
	"strconv"
	"strings"

	gno "github.com/gnolang/gno/gnovm/pkg/gnolang"
	"github.com/gnolang/gno/gnovm/pkg/test"
	"github.com/gnolang/gno/tm2/pkg/std"
)

// Runner owns one gno.Store (memdb-backed) whose imports resolve under Root.
type Runner struct {
	Root  string
	Store gno.Store
	out   *bytes.Buffer
}

// New builds the store. root is the gnolang/gno checkout (e.g. "/repo").
// Production stdlibs are used (test.ProdStore); use NewTesting for the
// gnovm/tests/stdlibs overrides (`testing`, settable std context, …).
func New(root string) *Runner {
	r := &Runner{Root: root, out: &bytes.Buffer{}}
	_, r.Store = test.ProdStore(root, test.OutputWithError(r.out, r.out), nil)
	return r
}

// NewTesting is New with the testing stdlib overrides (test.TestStore).
func NewTesting(root string) *Runner {
	r := &Runner{Root: root, out: &bytes.Buffer{}}
	_, r.Store = test.TestStore(root, test.OutputWithError(r.out, r.out), nil)
	return r
}

// Panic describes a panic raised while running Gno code.
type Panic struct {
	// Gno is true for a Gno-level panic (panic(...) in Gno code or a Gno
	// runtime error such as a nil dereference / index out of range) that no
	// Gno recover() handled; false for a Go panic of the VM itself
	// (preprocess/type error of the evaluated expression, VM bug).
	Gno bool
	// Msg is the panic descriptor (for Gno panics: the printed panic value).
	Msg string
}

func (p *Panic) String() string {
	if p == nil {
		return "<nil>"
	}
	if p.Gno {
		return "gno panic: " + p.Msg
	}
	return "vm panic: " + p.Msg
}

// Pkg is a loaded, generated package with a live Machine.
type Pkg struct {
	r       *Runner
	Name    string
	Path    string
	pv      *gno.PackageValue
	m       *gno.Machine
	nMachin int
}

func (r *Runner) newMachine(pkgPath string) *gno.Machine {
	return gno.NewMachineWithOptions(gno.MachineOptions{
		Output:  test.OutputWithError(r.out, r.out),
		Store:   r.Store,
		Context: test.Context("", pkgPath, nil),
	})
}

func toPanic(v any) *Panic {
	switch e := v.(type) {
	case gno.UnhandledPanicError:
		return &Panic{Gno: true, Msg: e.Descriptor}
	case *gno.UnhandledPanicError:
		return &Panic{Gno: true, Msg: e.Descriptor}
	case error:
		return &Panic{Msg: e.Error()}
	default:
		return &Panic{Msg: fmt.Sprint(v)}
	}
}

// Load parses `files` (name → source) as package `name` at import path
// `path`, runs its declarations and init functions.  Imports are resolved by
// the store (stdlibs, then <root>/examples/<import path>).  A parse, type or
// init-time error is returned as a *Panic.  A path can be loaded only once per
// Runner (the store caches the package value); use a fresh path per Load.
func (r *Runner) Load(name, path string, files map[string]string) (p *Pkg, perr *Panic) {
	m := r.newMachine(path)
	defer func() {
		if v := recover(); v != nil {
			m.Release()
			p, perr = nil, toPanic(v)
		}
	}()
	// Same construction as gnovm/cmd/gno/run.go: do not use
	// MachineOptions.PkgPath (that would load an existing package).
	pn := gno.NewPackageNode(gno.Name(name), path, &gno.FileSet{})
	pv := pn.NewPackage(m.Alloc)
	m.Store.SetBlockNode(pn)
	m.Store.SetCachePackage(pv)
	m.SetActivePackage(pv)
	names := make([]string, 0, len(files))
	for fn := range files {
		names = append(names, fn)
	}
	sortStrings(names)
	fns := make([]*gno.FileNode, 0, len(files))
	for _, fn := range names {
		fns = append(fns, m.MustParseFile(fn, files[fn]))
	}
	m.RunFiles(fns...)
	return &Pkg{r: r, Name: name, Path: path, pv: pv, m: m}, nil
}

// Preload forces the import of a package (and its dependencies) into the
// store, so that its load cost is paid once, outside any timed section.
func (r *Runner) Preload(importPath string) (perr *Panic) {
	defer func() {
		if v := recover(); v != nil {
			perr = toPanic(v)
		}
	}()
	if pv := r.Store.GetPackage(importPath, true); pv == nil {
		return &Panic{Msg: "package not found: " + importPath}
	}
	return nil
}

// MemPackage returns the source files of an examples/stdlib package as the
// store sees them (nil if the package has not been imported yet).
func (r *Runner) MemPackage(importPath string) *std.MemPackage {
	return r.Store.GetMemPackage(importPath)
}

// Res is the outcome of one Call/Eval.
type Res struct {
	Values []gno.TypedValue // result values (empty when Panic != nil)
	Output string           // everything the Gno code printed during the call
	Panic  *Panic           // non-nil iff the call panicked
}

// Str returns result i as a Go string (Gno string result), Int as int64, Bool as bool.
func (r Res) Str(i int) string { return r.Values[i].GetString() }
func (r Res) Int(i int) int64  { return r.Values[i].GetInt() }
func (r Res) Bool(i int) bool  { return r.Values[i].GetBool() }

// Arg converts a Go value into a Gno literal expression.
func Arg(a any) gno.Expr {
	switch v := a.(type) {
	case gno.Expr:
		return v
	case string:
		return gno.Str(v) // strconv.Quote: arbitrary bytes survive as \x escapes
	case []byte:
		return gno.Str(string(v))
	case int:
		return intLit(int64(v))
	case int64:
		return intLit(v)
	case bool:
		if v {
			return gno.Nx("true")
		}
		return gno.Nx("false")
	}
	panic(fmt.Sprintf("gnorun.Arg: unsupported %T", a))
}

func intLit(v int64) gno.Expr {
	if v < 0 {
		// -(1<<63) cannot be written as -(9223372036854775808) in int; use
		// the constant expression -9223372036854775807 - 1 via a parsed form.
		if v == -1<<63 {
			return gno.Bx(neg(gno.Num("9223372036854775807")), "-", gno.Num("1"))
		}
		return neg(gno.Num(strconv.FormatInt(-v, 10)))
	}
	return gno.Num(strconv.FormatInt(v, 10))
}

func neg(x gno.Expr) gno.Expr { return &gno.UnaryExpr{X: x, Op: gno.SUB} }

// Call evaluates `fn(args...)` in the package's scope.
func (p *Pkg) Call(fn string, args ...any) Res {
	xs := make([]any, len(args))
	for i, a := range args {
		xs[i] = Arg(a)
	}
	return p.EvalExpr(gno.Call(gno.Nx(fn), xs...))
}

// Eval parses and evaluates an arbitrary Gno expression in the package's scope.
func (p *Pkg) Eval(src string) Res {
	x, err := p.m.ParseExpr(src)
	if err != nil {
		return Res{Panic: &Panic{Msg: "parse: " + err.Error()}}
	}
	return p.EvalExpr(x)
}

// EvalExpr evaluates a (not yet preprocessed) expression.
func (p *Pkg) EvalExpr(x gno.Expr) (res Res) {
	p.r.out.Reset()
	defer func() {
		if v := recover(); v != nil {
			res = Res{Output: p.r.out.String(), Panic: toPanic(v)}
			p.remachine()
		}
	}()
	vals := p.m.Eval(x)
	return Res{Values: vals, Output: p.r.out.String()}
}

// remachine discards the (dirty) machine and makes a new one over the same
// store and package value.
func (p *Pkg) remachine() {
	// Do not Release a machine that panicked: its stacks may be referenced.
	p.m = p.r.newMachine(p.Path)
	p.m.SetActivePackage(p.pv)
	p.nMachin++
}

// Machines reports how many times the machine had to be re-created.
func (p *Pkg) Machines() int { return p.nMachin }

// Close releases the machine.
func (p *Pkg) Close() {
	if p.m != nil {
		func() {
			defer func() { recover() }()
			p.m.Release()
		}()
		p.m = nil
	}
}

// Lines splits captured output into lines (without the trailing empty one).
func Lines(out string) []string {
	out = strings.TrimSuffix(out, "\n")
	if out == "" {
		return nil
	}
	return strings.Split(out, "\n")
}

func sortStrings(a []string) {
	for i := 1; i < len(a); i++ {
		for j := i; j > 0 && a[j] < a[j-1]; j-- {
			a[j], a[j-1] = a[j-1], a[j]
		}
	}
}
