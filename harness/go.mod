module gnoverif

go 1.25.9

require github.com/gnolang/gno v0.0.0

replace github.com/gnolang/gno => /repo
