module gnoverif

go 1.25.9

require github.com/gnolang/gno v0.0.0

require (
	github.com/davecgh/go-spew v1.1.2-0.20180830191138-d8f796af33cc // indirect
	github.com/pmezard/go-difflib v1.0.1-0.20181226105442-5d4384ee4fb2 // indirect
	github.com/stretchr/testify v1.11.1 // indirect
	github.com/valyala/bytebufferpool v1.0.0 // indirect
	google.golang.org/protobuf v1.36.11 // indirect
	gopkg.in/yaml.v3 v3.0.1 // indirect
)

replace github.com/gnolang/gno => /repo
