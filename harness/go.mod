module gnoverif

go 1.25.9

require github.com/gnolang/gno v0.0.0

require (
	github.com/bits-and-blooms/bitset v1.24.4 // indirect
	github.com/btcsuite/btcd/btcec/v2 v2.5.0 // indirect
	github.com/btcsuite/btcd/btcutil v1.2.0 // indirect
	github.com/cenkalti/backoff/v5 v5.0.3 // indirect
	github.com/cespare/xxhash/v2 v2.3.0 // indirect
	github.com/consensys/gnark-crypto v0.20.1 // indirect
	github.com/cosmos/gogoproto v1.7.0 // indirect
	github.com/cosmos/ics23/go v0.11.0 // indirect
	github.com/davecgh/go-spew v1.1.2-0.20180830191138-d8f796af33cc // indirect
	github.com/decred/dcrd/dcrec/secp256k1/v4 v4.4.1 // indirect
	github.com/dgraph-io/ristretto/v2 v2.4.0 // indirect
	github.com/dustin/go-humanize v1.0.1 // indirect
	github.com/emicklei/dot v1.11.0 // indirect
	github.com/go-logr/logr v1.4.3 // indirect
	github.com/go-logr/stdr v1.2.2 // indirect
	github.com/gofrs/flock v0.13.0 // indirect
	github.com/google/go-cmp v0.7.0 // indirect
	github.com/google/uuid v1.6.0 // indirect
	github.com/gorilla/websocket v1.5.3 // indirect
	github.com/grpc-ecosystem/grpc-gateway/v2 v2.29.0 // indirect
	github.com/gtank/merlin v0.1.1 // indirect
	github.com/hashicorp/golang-lru/v2 v2.0.7 // indirect
	github.com/libp2p/go-buffer-pool v0.1.0 // indirect
	github.com/mimoo/StrobeGo v0.0.0-20181016162300-f8f6d4d2b643 // indirect
	github.com/pelletier/go-toml v1.9.5 // indirect
	github.com/pmezard/go-difflib v1.0.1-0.20181226105442-5d4384ee4fb2 // indirect
	github.com/rs/xid v1.6.0 // indirect
	github.com/sig-0/insertion-queue v0.0.0-20241004125609-6b3ca841346b // indirect
	github.com/stretchr/testify v1.11.1 // indirect
	github.com/valyala/bytebufferpool v1.0.0 // indirect
	go.opentelemetry.io/auto/sdk v1.2.1 // indirect
	go.opentelemetry.io/otel v1.44.0 // indirect
	go.opentelemetry.io/otel/exporters/otlp/otlpmetric/otlpmetricgrpc v1.44.0 // indirect
	go.opentelemetry.io/otel/exporters/otlp/otlpmetric/otlpmetrichttp v1.44.0 // indirect
	go.opentelemetry.io/otel/exporters/otlp/otlptrace v1.44.0 // indirect
	go.opentelemetry.io/otel/exporters/otlp/otlptrace/otlptracehttp v1.44.0 // indirect
	go.opentelemetry.io/otel/metric v1.44.0 // indirect
	go.opentelemetry.io/otel/sdk v1.44.0 // indirect
	go.opentelemetry.io/otel/sdk/metric v1.44.0 // indirect
	go.opentelemetry.io/otel/trace v1.44.0 // indirect
	go.opentelemetry.io/proto/otlp v1.10.0 // indirect
	go.uber.org/multierr v1.11.0 // indirect
	golang.org/x/crypto v0.53.0 // indirect
	golang.org/x/mod v0.37.0 // indirect
	golang.org/x/net v0.56.0 // indirect
	golang.org/x/sync v0.21.0 // indirect
	golang.org/x/sys v0.46.0 // indirect
	golang.org/x/text v0.38.0 // indirect
	golang.org/x/tools v0.47.0 // indirect
	google.golang.org/genproto/googleapis/api v0.0.0-20260526163538-3dc84a4a5aaa // indirect
	google.golang.org/genproto/googleapis/rpc v0.0.0-20260526163538-3dc84a4a5aaa // indirect
	google.golang.org/grpc v1.81.1 // indirect
	google.golang.org/protobuf v1.36.11 // indirect
	gopkg.in/yaml.v3 v3.0.1 // indirect
)

replace github.com/gnolang/gno => /repo
