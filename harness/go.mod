module gnoverif

go 1.25.9

require (
	github.com/cosmos/ics23/go v0.11.0
	github.com/gnolang/gno v0.0.0
)

require (
	github.com/btcsuite/btcd/btcec/v2 v2.5.0 // indirect
	github.com/btcsuite/btcd/btcutil v1.2.0 // indirect
	github.com/cosmos/gogoproto v1.7.0 // indirect
	github.com/davecgh/go-spew v1.1.2-0.20180830191138-d8f796af33cc // indirect
	github.com/decred/dcrd/dcrec/secp256k1/v4 v4.4.1 // indirect
	github.com/google/go-cmp v0.7.0 // indirect
	github.com/hashicorp/golang-lru/v2 v2.0.7 // indirect
	github.com/pmezard/go-difflib v1.0.1-0.20181226105442-5d4384ee4fb2 // indirect
	github.com/stretchr/testify v1.11.1 // indirect
	github.com/valyala/bytebufferpool v1.0.0 // indirect
	golang.org/x/crypto v0.53.0 // indirect
	golang.org/x/sync v0.21.0 // indirect
	golang.org/x/sys v0.46.0 // indirect
	google.golang.org/protobuf v1.36.11 // indirect
	gopkg.in/yaml.v3 v3.0.1 // indirect
)

replace github.com/gnolang/gno => /repo
