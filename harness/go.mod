module gnoverif

go 1.25.9

require (
	github.com/btcsuite/btcd/btcutil v1.2.0
	github.com/gnolang/gno v0.0.0
)

require (
	github.com/valyala/bytebufferpool v1.0.0 // indirect
	google.golang.org/protobuf v1.36.11 // indirect
)

replace github.com/gnolang/gno => /repo
