module gnoverif

go 1.25.9

require github.com/gnolang/gno v0.0.0

require (
	github.com/btcsuite/btcd/btcec/v2 v2.5.0 // indirect
	github.com/btcsuite/btcd/btcutil v1.2.0 // indirect
	github.com/decred/dcrd/dcrec/secp256k1/v4 v4.4.1 // indirect
	github.com/valyala/bytebufferpool v1.0.0 // indirect
	golang.org/x/crypto v0.53.0 // indirect
	google.golang.org/protobuf v1.36.11 // indirect
)

replace github.com/gnolang/gno => /repo
