// Package runtxkit drives a REAL sdk.BaseApp (tm2/pkg/sdk) over memdb with a
// scripted ante handler and a scripted message handler, shared by the C02
// (atomicity) and C10 (gas) harnesses.
//
// Protocol (one op per line, see lean/GnoVerif/Model/C02RunTxProto.lean):
//
//	init <maxGas>
//	begin
//	tx|check|sim <gasWanted> A:<kind>[R]:<pre-steps>:<steps> (M|V|U):<steps> ...
//	tx|check|sim raw <hex>
//	end
//
// Everything printed is OBSERVED on the real app: the deliver state and both
// meters through the context handed to the BeginBlocker, the check state
// through a probe CheckTx whose ante handler dumps the store it sees, the
// committed state through GetCacheMultiStore.
package runtxkit

import (
	"encoding/hex"
	"fmt"
	"io"
	"log/slog"
	"regexp"
	"sort"
	"strconv"
	"strings"

	"github.com/gnolang/gno/tm2/pkg/amino"
	abci "github.com/gnolang/gno/tm2/pkg/bft/abci/types"
	bft "github.com/gnolang/gno/tm2/pkg/bft/types"
	"github.com/gnolang/gno/tm2/pkg/crypto"
	"github.com/gnolang/gno/tm2/pkg/db/memdb"
	"github.com/gnolang/gno/tm2/pkg/sdk"
	"github.com/gnolang/gno/tm2/pkg/std"
	"github.com/gnolang/gno/tm2/pkg/store"
	"github.com/gnolang/gno/tm2/pkg/store/dbadapter"
	"github.com/gnolang/gno/tm2/pkg/store/iavl"
)

// ---------------------------------------------------------------- the scripted message type

// ScriptMsg is the only message type of the test chain. Kind: M ordinary,
// V fails ValidateBasic, U has a route the router does not know.
type ScriptMsg struct {
	Kind  string
	Steps string
}

func (m ScriptMsg) Route() string {
	if m.Kind == "U" {
		return "noroute"
	}
	return "script"
}
func (m ScriptMsg) Type() string                 { return "script" }
func (m ScriptMsg) GetSignBytes() []byte         { return nil }
func (m ScriptMsg) GetSigners() []crypto.Address { return nil }
func (m ScriptMsg) ValidateBasic() error {
	if m.Kind == "V" {
		return std.ErrInvalidSequence("scripted ValidateBasic failure")
	}
	return nil
}

var Package = amino.RegisterPackage(amino.NewPackage(
	"gnoverif/runtxkit",
	"gnoverif.runtxkit",
	amino.GetCallersDirname(),
).WithDependencies(std.Package).WithTypes(
	ScriptMsg{}, "ScriptMsg",
))

// ---------------------------------------------------------------- script parsing (strict; mirrored in Lean)

type Step struct {
	Op    byte // w d c r q e p o z n
	Store string
	Key   []byte
	Val   []byte // q: nil = must be absent
	N     int64
}

type Ante struct {
	Kind     byte // b p i k
	Recovers bool
	Pre      []Step
	Steps    []Step
}

type Msg struct {
	Kind  string // M V U
	Steps []Step
	Raw   string
}

type Tx struct {
	Raw       []byte // non-nil: undecodable bytes
	GasWanted int64
	Ante      Ante
	AnteTok   string
	Msgs      []Msg
}

var (
	reI64 = regexp.MustCompile(`^-?[0-9]{1,19}$`)
	reHex = regexp.MustCompile(`^([0-9a-f][0-9a-f])+$`)
)

func ParseI64(s string) (int64, bool) {
	if !reI64.MatchString(s) {
		return 0, false
	}
	n, err := strconv.ParseInt(s, 10, 64)
	return n, err == nil
}

func parseStep(ante bool, s string) (Step, bool) {
	f := strings.Split(s, ".")
	okStore := func(x string) bool { return x == "x" || x == "y" }
	switch {
	case len(f) == 4 && f[0] == "w" && okStore(f[1]) && reHex.MatchString(f[2]) && reHex.MatchString(f[3]):
		k, _ := hex.DecodeString(f[2])
		v, _ := hex.DecodeString(f[3])
		return Step{Op: 'w', Store: f[1], Key: k, Val: v}, true
	case len(f) == 3 && f[0] == "d" && okStore(f[1]) && reHex.MatchString(f[2]):
		k, _ := hex.DecodeString(f[2])
		return Step{Op: 'd', Store: f[1], Key: k}, true
	case len(f) == 2 && (f[0] == "c" || f[0] == "r"):
		n, ok := ParseI64(f[1])
		return Step{Op: f[0][0], N: n}, ok
	case len(f) == 4 && f[0] == "q" && okStore(f[1]) && reHex.MatchString(f[2]) && (f[3] == "-" || reHex.MatchString(f[3])):
		k, _ := hex.DecodeString(f[2])
		var v []byte
		if f[3] != "-" {
			v, _ = hex.DecodeString(f[3])
		}
		return Step{Op: 'q', Store: f[1], Key: k, Val: v}, true
	case len(f) == 1 && (f[0] == "e" || f[0] == "p" || f[0] == "o"):
		return Step{Op: f[0][0]}, true
	case len(f) == 1 && ante && (f[0] == "z" || f[0] == "n"):
		return Step{Op: f[0][0]}, true
	}
	return Step{}, false
}

func parseSteps(ante bool, s string) ([]Step, bool) {
	if s == "" {
		return nil, true
	}
	var out []Step
	for _, p := range strings.Split(s, ",") {
		st, ok := parseStep(ante, p)
		if !ok {
			return nil, false
		}
		out = append(out, st)
	}
	return out, true
}

func parseAnte(s string) (Ante, bool) {
	f := strings.Split(s, ":")
	if len(f) != 4 || f[0] != "A" {
		return Ante{}, false
	}
	var a Ante
	switch f[1] {
	case "b", "p", "i", "k":
		a.Kind = f[1][0]
	case "bR", "pR", "iR", "kR":
		a.Kind, a.Recovers = f[1][0], true
	default:
		return Ante{}, false
	}
	var ok1, ok2 bool
	a.Pre, ok1 = parseSteps(true, f[2])
	a.Steps, ok2 = parseSteps(true, f[3])
	return a, ok1 && ok2
}

func parseMsg(s string) (Msg, bool) {
	f := strings.Split(s, ":")
	if len(f) != 2 || (f[0] != "M" && f[0] != "V" && f[0] != "U") {
		return Msg{}, false
	}
	st, ok := parseSteps(false, f[1])
	return Msg{Kind: f[0], Steps: st, Raw: f[1]}, ok
}

// ParseTx parses the tokens after the op word.
func ParseTx(t []string) (*Tx, bool) {
	if len(t) == 2 && t[0] == "raw" {
		if !reHex.MatchString(t[1]) {
			return nil, false
		}
		b, _ := hex.DecodeString(t[1])
		return &Tx{Raw: b}, true
	}
	if len(t) < 2 {
		return nil, false
	}
	gw, ok := ParseI64(t[0])
	if !ok {
		return nil, false
	}
	a, ok := parseAnte(t[1])
	if !ok {
		return nil, false
	}
	tx := &Tx{GasWanted: gw, Ante: a, AnteTok: t[1]}
	for _, m := range t[2:] {
		mm, ok := parseMsg(m)
		if !ok {
			return nil, false
		}
		tx.Msgs = append(tx.Msgs, mm)
	}
	return tx, true
}

func (tx *Tx) Bytes() []byte {
	if tx.Raw != nil {
		return tx.Raw
	}
	msgs := make([]std.Msg, len(tx.Msgs))
	for i, m := range tx.Msgs {
		msgs[i] = ScriptMsg{Kind: m.Kind, Steps: m.Raw}
	}
	return amino.MustMarshal(std.Tx{Msgs: msgs, Memo: strconv.FormatInt(tx.GasWanted, 10) + "|" + tx.AnteTok})
}

// Write is one store effect of a script (Val nil = delete).
type Write struct {
	Key string // "<store>/<hexkey>"
	Val *string
}

func writesOf(steps []Step) []Write {
	var out []Write
	for _, s := range steps {
		switch s.Op {
		case 'w':
			v := hex.EncodeToString(s.Val)
			out = append(out, Write{s.Store + "/" + hex.EncodeToString(s.Key), &v})
		case 'd':
			out = append(out, Write{s.Store + "/" + hex.EncodeToString(s.Key), nil})
		}
	}
	return out
}

// AnteWrites are the store effects of the whole ante script, MsgWrites those of all messages.
func (tx *Tx) AnteWrites() []Write {
	return append(writesOf(tx.Ante.Pre), writesOf(tx.Ante.Steps)...)
}
func (tx *Tx) MsgWrites() []Write {
	var out []Write
	for _, m := range tx.Msgs {
		out = append(out, writesOf(m.Steps)...)
	}
	return out
}

// ---------------------------------------------------------------- the world: one real BaseApp

type sideKey struct{}

type World struct {
	app     *sdk.BaseApp
	keys    map[string]store.StoreKey
	MaxGas  int64
	Broken  bool
	InBlock bool

	// captured from the context handed to the BeginBlocker (deliverState.ctx)
	dms        store.MultiStore
	blockMeter store.GasMeter
	ctxMeter   store.GasMeter

	vm map[string]string // the persistent side cache, committed by endTxHook on OK

	// per-tx observations
	anteRan  bool
	AnteDone bool
	msgsRan  int
	hook     string
	probe    map[string]string

	// the check / committed / side-cache dumps as last printed ("~" while unchanged)
	lastC, lastK, lastV string
}

var (
	baseKey = store.NewStoreKey("base")
	mainKey = store.NewStoreKey("main")
	xKey    = store.NewStoreKey("x")
	yKey    = store.NewStoreKey("y")
)

func NewWorld(maxGas int64) *World {
	w := &World{MaxGas: maxGas, vm: map[string]string{}, keys: map[string]store.StoreKey{"x": xKey, "y": yKey}}
	logger := slog.New(slog.NewTextHandler(io.Discard, nil))
	app := sdk.NewBaseApp("runtxkit", logger, memdb.NewMemDB(), baseKey, mainKey)
	app.MountStoreWithDB(baseKey, dbadapter.StoreConstructor, nil)
	app.MountStoreWithDB(mainKey, iavl.StoreConstructor, nil)
	app.MountStoreWithDB(xKey, iavl.StoreConstructor, nil)
	app.MountStoreWithDB(yKey, dbadapter.StoreConstructor, nil)
	app.SetAnteHandler(w.ante)
	app.Router().AddRoute("script", handler{w})
	app.SetBeginBlocker(func(ctx sdk.Context, req abci.RequestBeginBlock) abci.ResponseBeginBlock {
		w.dms, w.blockMeter, w.ctxMeter = ctx.MultiStore(), ctx.BlockGasMeter(), ctx.GasMeter()
		return abci.ResponseBeginBlock{}
	})
	app.SetBeginTxHook(func(ctx sdk.Context) sdk.Context {
		return ctx.WithValue(sideKey{}, &[]Write{})
	})
	app.SetEndTxHook(func(ctx sdk.Context, res sdk.Result) {
		if res.IsOK() {
			w.hook = "ok"
			for _, wr := range *(ctx.Value(sideKey{}).(*[]Write)) {
				if wr.Val == nil {
					delete(w.vm, wr.Key)
				} else {
					w.vm[wr.Key] = *wr.Val
				}
			}
		} else {
			w.hook = "fail"
		}
	})
	if err := app.LoadLatestVersion(); err != nil {
		panic(err)
	}
	app.InitChain(abci.RequestInitChain{
		ChainID:         "verif",
		ConsensusParams: &abci.ConsensusParams{Block: &abci.BlockParams{MaxGas: maxGas}},
	})
	w.app = app
	return w
}

var (
	errAnte = std.ErrInsufficientFee("scripted ante failure")
	errMsg  = std.ErrUnauthorized("scripted message failure")
)

// runSteps interprets a step list on ctx. It returns 'k' (all steps ran), 'e'
// (error), 'z' or 'n'; panics propagate.
func runSteps(ctx sdk.Context, keys map[string]store.StoreKey, steps []Step, side *[]Write) byte {
	for _, s := range steps {
		switch s.Op {
		case 'w':
			ctx.Store(keys[s.Store]).Set(nil, s.Key, s.Val)
			if side != nil {
				v := hex.EncodeToString(s.Val)
				*side = append(*side, Write{s.Store + "/" + hex.EncodeToString(s.Key), &v})
			}
		case 'd':
			ctx.Store(keys[s.Store]).Delete(nil, s.Key)
			if side != nil {
				*side = append(*side, Write{s.Store + "/" + hex.EncodeToString(s.Key), nil})
			}
		case 'c':
			ctx.GasMeter().ConsumeGas(s.N, "scripted consume")
		case 'r':
			ctx.GasMeter().RefundGas(s.N, "scripted refund")
		case 'q':
			got := ctx.Store(keys[s.Store]).Get(nil, s.Key)
			if (got == nil) != (s.Val == nil) || string(got) != string(s.Val) {
				return 'e'
			}
		case 'e':
			return 'e'
		case 'p':
			panic("scripted panic")
		case 'o':
			panic(store.OutOfGasError{Descriptor: "scripted out of gas"})
		case 'z':
			return 'z'
		case 'n':
			return 'n'
		}
	}
	return 'k'
}

func (w *World) ante(ctx sdk.Context, stx std.Tx, simulate bool) (newCtx sdk.Context, res sdk.Result, abort bool) {
	if stx.Memo == "PROBE" {
		w.probe = DumpMS(ctx.MultiStore(), w.keys)
		res.Error = sdk.ABCIError(errAnte)
		return ctx, res, true
	}
	w.anteRan = true
	bar := strings.IndexByte(stx.Memo, '|')
	gw, _ := strconv.ParseInt(stx.Memo[:bar], 10, 64)
	a, ok := parseAnte(stx.Memo[bar+1:])
	if !ok {
		panic("runtxkit: bad ante token in memo")
	}
	fail := func(c sdk.Context, out byte) (sdk.Context, sdk.Result, bool) {
		switch out {
		case 'z':
			return sdk.Context{}, sdk.Result{ResponseBase: abci.ResponseBase{Error: sdk.ABCIError(errAnte)}}, true
		case 'n':
			return c, sdk.Result{}, true
		}
		r := sdk.Result{GasWanted: gw, GasUsed: c.GasMeter().GasConsumed()}
		r.Error = sdk.ABCIError(errAnte)
		return c, r, true
	}
	if out := runSteps(ctx, w.keys, a.Pre, nil); out != 'k' {
		return fail(ctx, out)
	}
	switch a.Kind {
	case 'b':
		newCtx = ctx.WithGasMeter(store.NewGasMeter(gw))
	case 'p':
		newCtx = ctx.WithGasMeter(store.NewPassthroughGasMeter(ctx.GasMeter(), gw))
	case 'i':
		newCtx = ctx.WithGasMeter(store.NewInfiniteGasMeter())
	default:
		newCtx = ctx
	}
	if a.Recovers {
		// like auth.NewAnteHandler: out-of-gas inside the ante becomes an abort
		defer func() {
			if r := recover(); r != nil {
				if _, isOOG := r.(store.OutOfGasError); isOOG {
					res = sdk.Result{GasWanted: gw, GasUsed: newCtx.GasMeter().GasConsumed()}
					res.Error = sdk.ABCIError(std.ErrOutOfGas("scripted ante out of gas"))
					abort = true
					return
				}
				panic(r)
			}
		}()
	}
	if out := runSteps(newCtx, w.keys, a.Steps, nil); out != 'k' {
		return fail(newCtx, out)
	}
	w.AnteDone = true
	return newCtx, sdk.Result{GasWanted: gw}, false
}

type handler struct{ w *World }

func (h handler) Process(ctx sdk.Context, msg sdk.Msg) (res sdk.Result) {
	h.w.msgsRan++
	m := msg.(ScriptMsg)
	steps, ok := parseSteps(false, m.Steps)
	if !ok {
		panic("runtxkit: bad steps in message")
	}
	var side *[]Write
	if v := ctx.Value(sideKey{}); v != nil {
		side = v.(*[]Write)
	}
	if out := runSteps(ctx, h.w.keys, steps, side); out != 'k' {
		res.Error = sdk.ABCIError(errMsg)
	}
	return
}

func (h handler) Query(ctx sdk.Context, req abci.RequestQuery) abci.ResponseQuery {
	return abci.ResponseQuery{}
}

// ---------------------------------------------------------------- observation

// DumpMS reads every key of the scripted stores through the given multistore.
func DumpMS(ms store.MultiStore, keys map[string]store.StoreKey) map[string]string {
	out := map[string]string{}
	for name, k := range keys {
		it := ms.GetStore(k).Iterator(nil, nil, nil)
		for ; it.Valid(); it.Next() {
			out[name+"/"+hex.EncodeToString(it.Key())] = hex.EncodeToString(it.Value())
		}
		it.Close()
	}
	return out
}

func ShowMap(m map[string]string) string {
	if m == nil {
		return "-"
	}
	if len(m) == 0 {
		return "e"
	}
	ks := make([]string, 0, len(m))
	for k := range m {
		ks = append(ks, k)
	}
	sort.Strings(ks)
	var sb strings.Builder
	for i, k := range ks {
		if i > 0 {
			sb.WriteByte(',')
		}
		sb.WriteString(k + "=" + m[k])
	}
	return sb.String()
}

func CloneMap(m map[string]string) map[string]string {
	if m == nil {
		return nil
	}
	c := make(map[string]string, len(m))
	for k, v := range m {
		c[k] = v
	}
	return c
}

// Snap is everything observable about the app between two ops.
type Snap struct {
	Deliver   map[string]string // nil = no block in progress
	Check     map[string]string
	Committed map[string]string
	VM        map[string]string
	HasBlock  bool
	BlkCons   int64
	BlkLimit  int64 // 0 = infinite block meter
	CtxCons   int64
}

var probeTx = std.Tx{Msgs: []std.Msg{ScriptMsg{Kind: "M"}}, Memo: "PROBE"}

func (w *World) Snap() Snap {
	var s Snap
	if w.InBlock {
		s.Deliver = DumpMS(w.dms, w.keys)
		s.HasBlock = true
		s.BlkCons, s.BlkLimit, s.CtxCons = w.blockMeter.GasConsumed(), w.blockMeter.Limit(), w.ctxMeter.GasConsumed()
	}
	w.probe = nil
	w.app.Check(probeTx)
	s.Check = w.probe
	s.Committed = DumpMS(w.app.GetCacheMultiStore(), w.keys)
	s.VM = CloneMap(w.vm)
	return s
}

func delta(last *string, cur string) string {
	if *last == cur {
		return "~"
	}
	*last = cur
	return cur
}

// Show prints a snapshot; check / committed / side-cache dumps are printed as
// "~" while they equal what this world printed last (keeps lines short).
func (w *World) Show(s Snap) string {
	d := "D=- blk=- cm=-"
	if s.HasBlock {
		lim := "inf"
		if s.BlkLimit != 0 {
			lim = strconv.FormatInt(s.BlkLimit, 10)
		}
		d = fmt.Sprintf("D=%s blk=%d/%s cm=%d", ShowMap(s.Deliver), s.BlkCons, lim, s.CtxCons)
	}
	return fmt.Sprintf("%s C=%s K=%s V=%s", d, delta(&w.lastC, ShowMap(s.Check)), delta(&w.lastK, ShowMap(s.Committed)), delta(&w.lastV, ShowMap(s.VM)))
}

// Obs is what one tx op showed.
type Obs struct {
	Op       string // tx check sim
	Tx       *Tx
	Res      string // ok | err:<class>
	GW, GU   int64
	AnteRan  bool
	AnteDone bool
	MsgsRan  int
	Hook     string
	Before   Snap
	After    Snap
	Shown    string // After as printed
}

func resClass(e abci.Error) string {
	switch e.(type) {
	case nil:
		return "ok"
	case std.OutOfGasError:
		return "err:oog"
	case std.InternalError:
		return "err:internal"
	case std.TxDecodeError:
		return "err:txdecode"
	case std.UnknownRequestError:
		return "err:unknownrequest"
	case std.InvalidSequenceError:
		return "err:basic"
	case std.InsufficientFeeError:
		return "err:ante"
	case std.UnauthorizedError:
		return "err:msg"
	}
	return fmt.Sprintf("err:other(%T)", e)
}

func (o *Obs) Line() string {
	a := 0
	if o.AnteDone {
		a = 2
	} else if o.AnteRan {
		a = 1
	}
	return fmt.Sprintf("res=%s gw=%d gu=%d ran=a%dm%d hook=%s %s", o.Res, o.GW, o.GU, a, o.MsgsRan, o.Hook, o.Shown)
}

// Exec runs one protocol line. obs is non-nil for executed tx/check/sim ops.
func (w *World) Exec(t []string) (out string, obs *Obs) {
	if len(t) == 0 {
		return "err:badop", nil
	}
	switch t[0] {
	case "begin", "end", "tx", "check", "sim":
	default:
		return "err:badop", nil
	}
	if w == nil {
		return "err:noapp", nil
	}
	if w.Broken {
		return "err:broken", nil
	}
	switch t[0] {
	case "begin":
		if len(t) != 1 {
			return "err:badop", nil
		}
		if w.InBlock {
			return "err:inblock", nil
		}
		bad := false
		func() {
			defer func() {
				if r := recover(); r != nil {
					if s, ok := r.(string); ok && strings.HasPrefix(s, "invalid maximum block gas") {
						bad = true
						return
					}
					panic(r)
				}
			}()
			w.app.BeginBlock(abci.RequestBeginBlock{Header: &bft.Header{ChainID: "verif", Height: w.app.LastBlockHeight() + 1}})
		}()
		if bad {
			w.Broken = true
			return "panic:badmaxgas", nil
		}
		w.InBlock = true
		return "ok " + w.Show(w.Snap()), nil
	case "end":
		if len(t) != 1 {
			return "err:badop", nil
		}
		if !w.InBlock {
			return "err:noblock", nil
		}
		w.app.EndBlock(abci.RequestEndBlock{})
		w.app.Commit()
		w.InBlock, w.dms, w.blockMeter, w.ctxMeter = false, nil, nil, nil
		return "ok " + w.Show(w.Snap()), nil
	}
	tx, ok := ParseTx(t[1:])
	if !ok {
		return "err:badop", nil
	}
	if t[0] == "tx" && !w.InBlock {
		return "err:noblock", nil
	}
	o := &Obs{Op: t[0], Tx: tx, Before: w.Snap()}
	w.anteRan, w.AnteDone, w.msgsRan, w.hook = false, false, 0, "none"
	bz := tx.Bytes()
	switch t[0] {
	case "tx":
		r := w.app.DeliverTx(abci.RequestDeliverTx{Tx: bz})
		o.Res, o.GW, o.GU = resClass(r.Error), r.GasWanted, r.GasUsed
	case "check":
		r := w.app.CheckTx(abci.RequestCheckTx{Tx: bz})
		o.Res, o.GW, o.GU = resClass(r.Error), r.GasWanted, r.GasUsed
	case "sim":
		r := w.app.Simulate(bz)
		o.Res, o.GW, o.GU = resClass(r.Error), r.GasWanted, r.GasUsed
	}
	o.AnteRan, o.AnteDone, o.MsgsRan, o.Hook = w.anteRan, w.AnteDone, w.msgsRan, w.hook
	o.After = w.Snap()
	o.Shown = w.Show(o.After)
	return o.Line(), o
}

// Overlay applies writes to a copy of m (the oracles' plain-map semantics).
func Overlay(m map[string]string, ws []Write) map[string]string {
	c := CloneMap(m)
	if c == nil {
		c = map[string]string{}
	}
	for _, w := range ws {
		if w.Val == nil {
			delete(c, w.Key)
		} else {
			c[w.Key] = *w.Val
		}
	}
	return c
}

func SameMap(a, b map[string]string) bool {
	if len(a) != len(b) {
		return false
	}
	for k, v := range a {
		if w, ok := b[k]; !ok || w != v {
			return false
		}
	}
	return true
}
