package runtxkit

import (
	"fmt"
	"strings"

	"gnoverif/kit"
)

// Script builders shared by the C02 and C10 generators.

var (
	GenKeys = []string{"x.61", "x.62", "x.63", "y.61", "y.62"}
	GenVals = []string{"01", "02", "03", "04"}
)

const MaxI64 = "9223372036854775807"

func W(key, val string) string { return "w." + key + "." + val }
func D(key string) string      { return "d." + key }
func C(n int64) string         { return fmt.Sprintf("c.%d", n) }
func R(n int64) string         { return fmt.Sprintf("r.%d", n) }
func Q(key, val string) string { return "q." + key + "." + val }

func Steps(s ...string) string { return strings.Join(s, ",") }

func AnteTok(kind, pre, steps string) string { return "A:" + kind + ":" + pre + ":" + steps }
func MsgTok(kind, steps string) string       { return kind + ":" + steps }

func TxLine(op string, gw int64, ante string, msgs ...string) string {
	s := fmt.Sprintf("%s %d %s", op, gw, ante)
	for _, m := range msgs {
		s += " " + m
	}
	return s
}

// FailKinds are the ways a message (or the ante) can fail mid-way.
// Each is a step list suffix placed after some effects.
var FailKinds = []struct{ Name, Steps string }{
	{"err", "e"},
	{"panic", "p"},
	{"oogpanic", "o"},
	{"oog", "c.1000000"},
	{"require", "q.x.7a7a.01"},
	{"overflow", "c." + MaxI64 + ",c." + MaxI64},
	{"negative", "c.-1"},
	{"negrefund", "r.-1"},
}

// RandMsgSteps builds a mostly-successful message script.
func RandMsgSteps(r *kit.Rand, gasBudget int64) string {
	n := r.Range(1, 4)
	var st []string
	for i := 0; i < n; i++ {
		switch x := r.Intn(100); {
		case x < 50:
			st = append(st, W(kit.Pick(r, GenKeys), kit.Pick(r, GenVals)))
		case x < 75:
			if gasBudget > 0 {
				st = append(st, C(int64(r.Intn(int(gasBudget)+1))))
			} else {
				st = append(st, C(0))
			}
		case x < 85:
			st = append(st, D(kit.Pick(r, GenKeys)))
		case x < 93:
			v := "-"
			if r.Bool() {
				v = kit.Pick(r, GenVals)
			}
			st = append(st, Q(kit.Pick(r, GenKeys), v))
		default:
			st = append(st, R(int64(r.Intn(5))))
		}
	}
	return Steps(st...)
}

// Malformed lines: every one must be answered `err:badop` by both sides.
var Malformed = []string{
	"tx",
	"tx 10",
	"tx abc A:b:: M:",
	"tx 10 A:b: M:",
	"tx 10 A:q:: M:",
	"tx 10 A:b::w.z.61.01 M:",
	"tx 10 A:b:: M:z",
	"tx 10 A:b:: M:n",
	"tx 10 A:b:: M:w.x.6.01",
	"tx 10 A:b:: M:w.x.6B.01",
	"tx 10 A:b:: M:w.x.61",
	"tx 10 A:b:: M:c.99999999999999999999",
	"tx 10 A:b:: M:c.9223372036854775808",
	"tx 10 A:b:: M:c.",
	"tx 10 A:b:: M:c.+1",
	"tx 10 A:b:: X:",
	"tx 10 A:b:: M",
	"tx 10 M: A:b::",
	"tx +10 A:b:: M:",
	"tx 10 A:b:: M:,",
	"tx 10 A:b:: M:e,",
	"tx 10 A:bR:x: M:",
	"tx 10 A:Rb:: M:",
	"check 10 A:b:: M:q.x.61",
	"sim 10 A:b:: M:q.x.61.0",
	"tx raw zz",
	"tx raw",
	"tx raw ff ff",
	"frob",
	"begin 5",
	"end 1",
	"init",
	"init x",
	"init 1 2",
}
