package c06env

import (
	"fmt"
	"sort"
	"strings"

	gno "github.com/gnolang/gno/gnovm/pkg/gnolang"
)

// Short renders an object id compactly for verdict details.
func Short(id gno.ObjectID) string {
	if id.IsZero() {
		return "-"
	}
	return fmt.Sprintf("%x:%d", id.PkgID.Hashlet[:3], id.NewTime)
}

// inScope: the statement is evaluated on the objects of REALM packages.
// Stdlib and /p/ objects are immutable singletons whose reference counts the
// VM deliberately does not maintain for references from other packages
// (realm.go: "immutable package objects don't need refcount tracking"), and
// they are never deleted; they are only used as valid reference targets.
func inScope(id gno.ObjectID) bool { return !id.PkgID.IsImmutablePkg() }

// CheckGraph evaluates the C06 statement on a raw snapshot.  It returns ""
// when every clause holds, else "VIOL:<class> <detail>" for the first failing
// clause in a fixed order (deterministic: objects are visited in id order).
//
//	bad-key        a key/value under oid: that does not decode or whose value carries another id
//	hash           stored hash prefix != sha256(stored bytes)[:20]
//	dangling       a persisted reference to an object that is not in the store
//	refcount       RefCount != number of persisted references to the object
//	owner-missing  singly referenced, never escaped, but no owner recorded
//	owner-on-escaped  an owner recorded on a singly referenced object that HAS escaped
//	owner-extra    an owner recorded on an object that is not singly referenced
//	owner-stale    the recorded owner does not hold a reference to the object (or does not exist)
//	unreachable    not reachable from a package value and not kept alive by a reference cycle
func CheckGraphAll(s *Snap) []string {
	var out []string
	if len(s.Bad) > 0 {
		return []string{"VIOL:bad-key " + s.Bad[0]}
	}
	var ids []gno.ObjectID
	for _, id := range s.Order {
		if inScope(id) {
			ids = append(ids, id)
		}
	}
	count := map[gno.ObjectID]int{}
	for _, id := range ids {
		o := s.Objs[id]
		if o.Info.ID != id {
			out = append(out, fmt.Sprintf("VIOL:bad-key %s holds %s", Short(id), Short(o.Info.ID)))
		}
		if !o.HashOK {
			out = append(out, "VIOL:hash "+Short(id))
		}
		for _, r := range o.Refs {
			if !s.Exists(r) {
				out = append(out, fmt.Sprintf("VIOL:dangling %s->%s", Short(id), Short(r)))
				continue
			}
			count[r]++
		}
	}
	holds := func(owner, child gno.ObjectID) bool {
		po, ok := s.Objs[owner]
		if !ok {
			return false
		}
		for _, r := range po.Refs {
			if r == child {
				return true
			}
		}
		return false
	}
	for _, id := range ids {
		o := s.Objs[id]
		if o.Kind == "P" {
			// package values are referenced by path, not by object id:
			// the VM pins them at ref-count 1 without an owner.
			if o.Info.RefCount != 1 || !o.Info.OwnerID.IsZero() {
				out = append(out, fmt.Sprintf("VIOL:refcount package %s rc=%d owner=%s", Short(id), o.Info.RefCount, Short(o.Info.OwnerID)))
			}
			continue
		}
		if o.Info.RefCount != count[id] {
			out = append(out, fmt.Sprintf("VIOL:refcount %s rc=%d refs=%d", Short(id), o.Info.RefCount, count[id]))
			continue
		}
		single := o.Info.RefCount == 1 && !o.Info.IsEscaped
		switch {
		case single && o.Info.OwnerID.IsZero():
			out = append(out, "VIOL:owner-missing "+Short(id))
		case !single && !o.Info.OwnerID.IsZero() && o.Info.RefCount == 1:
			out = append(out, fmt.Sprintf("VIOL:owner-on-escaped %s rc=1 esc=true owner=%s", Short(id), Short(o.Info.OwnerID)))
		case !single && !o.Info.OwnerID.IsZero():
			out = append(out, fmt.Sprintf("VIOL:owner-extra %s rc=%d esc=%v owner=%s", Short(id), o.Info.RefCount, o.Info.IsEscaped, Short(o.Info.OwnerID)))
		case single && !holds(o.Info.OwnerID, id):
			out = append(out, fmt.Sprintf("VIOL:owner-stale %s owner=%s", Short(id), Short(o.Info.OwnerID)))
		}
	}
	// reachability: from package values, or downstream of a reference cycle
	idx := map[gno.ObjectID]int{}
	for i, id := range ids {
		idx[id] = i
	}
	adj := make([][]int, len(ids))
	for i, id := range ids {
		for _, r := range s.Objs[id].Refs {
			if j, ok := idx[r]; ok {
				adj[i] = append(adj[i], j)
			}
		}
	}
	alive := make([]bool, len(ids))
	var stack []int
	push := func(i int) {
		if !alive[i] {
			alive[i] = true
			stack = append(stack, i)
		}
	}
	flood := func() {
		for len(stack) > 0 {
			i := stack[len(stack)-1]
			stack = stack[:len(stack)-1]
			for _, j := range adj[i] {
				push(j)
			}
		}
	}
	for i, id := range ids {
		if s.Objs[id].Kind == "P" {
			push(i)
		}
	}
	flood()
	for _, i := range onCycle(adj) {
		push(i)
	}
	flood()
	for i, id := range ids {
		if !alive[i] {
			out = append(out, "VIOL:unreachable "+Short(id))
		}
	}
	return out
}

// CheckGraph is the first failing clause in the canonical visiting order ("" = none).
func CheckGraph(s *Snap) string {
	if all := CheckGraphAll(s); len(all) > 0 {
		return all[0]
	}
	return ""
}

// CheckGraphVerdict is the oracle verdict of a state: a state may fail several clauses at once, and a
// failure of one of the two owner clauses that the unchanged tree is known to fail must not hide
// another failure in the same state; so the first failure of any OTHER class is reported if there
// is one, else the first failure.
func CheckGraphVerdict(s *Snap) string {
	all := CheckGraphAll(s)
	for _, v := range all {
		if !strings.HasPrefix(v, "VIOL:owner-stale ") && !strings.HasPrefix(v, "VIOL:owner-on-escaped ") {
			return v
		}
	}
	if len(all) > 0 {
		return all[0]
	}
	return ""
}

// onCycle returns the vertices that lie on a directed cycle (Tarjan SCCs of
// size > 1, or with a self loop), iteratively.
func onCycle(adj [][]int) []int {
	n := len(adj)
	index := make([]int, n)
	low := make([]int, n)
	on := make([]bool, n)
	for i := range index {
		index[i] = -1
	}
	var st, out []int
	next := 0
	type frame struct{ v, k int }
	for root := 0; root < n; root++ {
		if index[root] >= 0 {
			continue
		}
		cs := []frame{{root, 0}}
		index[root], low[root] = next, next
		next++
		st = append(st, root)
		on[root] = true
		for len(cs) > 0 {
			f := &cs[len(cs)-1]
			if f.k < len(adj[f.v]) {
				w := adj[f.v][f.k]
				f.k++
				if index[w] < 0 {
					index[w], low[w] = next, next
					next++
					st = append(st, w)
					on[w] = true
					cs = append(cs, frame{w, 0})
				} else if on[w] && index[w] < low[f.v] {
					low[f.v] = index[w]
				}
				continue
			}
			v := f.v
			cs = cs[:len(cs)-1]
			if len(cs) > 0 {
				p := cs[len(cs)-1].v
				if low[v] < low[p] {
					low[p] = low[v]
				}
			}
			if low[v] == index[v] {
				var comp []int
				for {
					w := st[len(st)-1]
					st = st[:len(st)-1]
					on[w] = false
					comp = append(comp, w)
					if w == v {
						break
					}
				}
				cyc := len(comp) > 1
				if !cyc {
					for _, w := range adj[v] {
						if w == v {
							cyc = true
						}
					}
				}
				if cyc {
					out = append(out, comp...)
				}
			}
		}
	}
	sort.Ints(out)
	return out
}

// DebugDump prints every object of every realm package created in the case (for diagnosis only).
func DebugDump(s *Snap, w func(string)) {
	for _, id := range s.Order {
		o := s.Objs[id]
		var refs []string
		for _, r := range o.Refs {
			refs = append(refs, Short(r))
		}
		w(fmt.Sprintf("  %s %s rc=%d owner=%s esc=%v refs=%v", Short(id), o.Kind, o.Info.RefCount, Short(o.Info.OwnerID), o.Info.IsEscaped, refs))
	}
}
