package c06env

import (
	"crypto/sha256"
	"fmt"
	"reflect"
	"sort"
	"strings"

	"github.com/gnolang/gno/tm2/pkg/amino"

	gno "github.com/gnolang/gno/gnovm/pkg/gnolang"
)

// RawObj is one `oid:` entry of the base store, decoded.
type RawObj struct {
	Key     string       // store key, "oid:<pkgid-hex>:<n>"
	ID      gno.ObjectID // parsed from the KEY (not from the value)
	Size    int          // len(stored value) = hash prefix + amino bytes
	HashOK  bool         // stored prefix == sha256(amino bytes)[:20]
	Obj     gno.Object   // decoded value
	Info    gno.ObjectInfo
	Kind    string         // S(truct) A(rray) M(ap) F(unc) B(lock) H(eap item) P(ackage) m(bound method)
	Refs    []gno.ObjectID // every persisted reference to another object, in encounter order
	PkgRefs []string       // RefValue{PkgPath} references (packages by path)
	Inline  []gno.ObjectID // object infos of values stored INLINE inside this one (BoundMethodValue.Func)
}

// RawRealm is one `oid:…#realm` record.
type RawRealm struct {
	Key     string
	PkgID   gno.PkgID
	Path    string
	Time    uint64
	Deposit uint64
	Storage uint64
}

// Snap is everything the oracles read.
type Snap struct {
	Objs   map[gno.ObjectID]*RawObj
	Order  []gno.ObjectID // sorted by (pkgid, newtime)
	Realms map[gno.PkgID]*RawRealm
	Bad    []string // keys that could not be parsed/decoded

	exists func(gno.ObjectID) bool
}

// Exists reports whether an object id is present in the store (any package).
func (s *Snap) Exists(id gno.ObjectID) bool {
	if _, ok := s.Objs[id]; ok {
		return true
	}
	return s.exists != nil && s.exists(id)
}

const oidPrefix = "oid:"

type decodedEntry struct {
	val string
	obj *RawObj
}

func parseOID(s string) (oid gno.ObjectID, ok bool) {
	if err := (&oid).UnmarshalAmino(s); err != nil {
		return oid, false
	}
	return oid, true
}

func kindOf(o gno.Object) string {
	switch o.(type) {
	case *gno.StructValue:
		return "S"
	case *gno.ArrayValue:
		return "A"
	case *gno.MapValue:
		return "M"
	case *gno.FuncValue:
		return "F"
	case *gno.Block:
		return "B"
	case *gno.HeapItemValue:
		return "H"
	case *gno.PackageValue:
		return "P"
	case *gno.BoundMethodValue:
		return "m"
	}
	return "?"
}

var (
	refValueT   = reflect.TypeOf(gno.RefValue{})
	objectInfoT = reflect.TypeOf(gno.ObjectInfo{})
)

// collect walks a decoded value by reflection and records every RefValue it
// meets (in field/element order) and every nested ObjectInfo (values that the
// encoder stored inline although they are objects).  It knows nothing about
// the VM's own child enumeration (getChildObjects).
func collect(v reflect.Value, top bool, ro *RawObj, depth int) {
	if depth > 64 {
		return
	}
	switch v.Kind() {
	case reflect.Interface, reflect.Ptr:
		if v.IsNil() {
			return
		}
		// types never hold object references
		if v.CanInterface() {
			if _, isType := v.Interface().(gno.Type); isType {
				return
			}
		}
		collect(v.Elem(), top, ro, depth+1)
	case reflect.Struct:
		t := v.Type()
		if t == refValueT {
			rv := v.Interface().(gno.RefValue)
			if rv.PkgPath != "" {
				ro.PkgRefs = append(ro.PkgRefs, rv.PkgPath)
			} else {
				ro.Refs = append(ro.Refs, rv.ObjectID)
			}
			return
		}
		if t == objectInfoT {
			if !top {
				ro.Inline = append(ro.Inline, v.Interface().(gno.ObjectInfo).ID)
			}
			return
		}
		for i := 0; i < v.NumField(); i++ {
			f := t.Field(i)
			if f.PkgPath != "" { // unexported
				continue
			}
			if f.Type == objectInfoT {
				if !(top && f.Anonymous) {
					ro.Inline = append(ro.Inline, v.Field(i).Interface().(gno.ObjectInfo).ID)
				}
				continue
			}
			switch f.Name {
			case "Source", "Realm": // RefNode locations / the package's realm record: not object references
				continue
			}
			collect(v.Field(i), false, ro, depth+1)
		}
	case reflect.Slice, reflect.Array:
		if v.Kind() == reflect.Slice && v.Type().Elem().Kind() == reflect.Uint8 {
			return
		}
		for i := 0; i < v.Len(); i++ {
			collect(v.Index(i), false, ro, depth+1)
		}
	}
}

// the map's linked list is not visible to a plain field walk beyond Head/Next; do it by hand.
func collectMap(mv *gno.MapValue, ro *RawObj) {
	if mv.List == nil {
		return
	}
	for cur := mv.List.Head; cur != nil; cur = cur.Next {
		collect(reflect.ValueOf(cur.Key), false, ro, 1)
		collect(reflect.ValueOf(cur.Value), false, ro, 1)
	}
}

// Decode decodes one stored value.
func Decode(key string, val []byte) (*RawObj, error) {
	oid, ok := parseOID(strings.TrimPrefix(key, oidPrefix))
	if !ok {
		return nil, fmt.Errorf("bad key")
	}
	if len(val) < 20 {
		return nil, fmt.Errorf("short value")
	}
	ro := &RawObj{Key: key, ID: oid, Size: len(val)}
	sum := sha256.Sum256(val[20:])
	ro.HashOK = string(sum[:20]) == string(val[:20])
	var oo gno.Object
	if err := amino.Unmarshal(val[20:], &oo); err != nil {
		return nil, err
	}
	ro.Obj = oo
	ro.Info = *oo.GetObjectInfo()
	ro.Kind = kindOf(oo)
	if mv, ok := oo.(*gno.MapValue); ok {
		collectMap(mv, ro)
	} else {
		collect(reflect.ValueOf(oo).Elem(), true, ro, 0)
	}
	return ro, nil
}

// Snapshot reads the `oid:` keys of every REALM package from the base store as
// seen from the case layer.  Package ids start with four flag bits (stdlib,
// immutable, internal, reserved); the ids of mutable packages therefore have a
// first hex digit below 4, and the ~10^4 objects of the stdlibs (immutable,
// identical in every snapshot) are not walked; Exists() looks them up singly.
func (e *Env) Snapshot() *Snap {
	s := &Snap{Objs: map[gno.ObjectID]*RawObj{}, Realms: map[gno.PkgID]*RawRealm{}}
	st := e.CaseCtx.Store(e.BaseKey)
	s.exists = func(id gno.ObjectID) bool { return st.Has(nil, []byte(oidPrefix+id.String())) }
	it := st.Iterator(nil, []byte(oidPrefix+"0"), []byte(oidPrefix+"4"))
	defer it.Close()
	for ; it.Valid(); it.Next() {
		key := string(it.Key())
		val := append([]byte(nil), it.Value()...)
		if strings.HasSuffix(key, "#realm") {
			oid, ok := parseOID(strings.TrimSuffix(strings.TrimPrefix(key, oidPrefix), "#realm"))
			if !ok {
				s.Bad = append(s.Bad, key)
				continue
			}
			var rlm *gno.Realm
			if err := amino.Unmarshal(val, &rlm); err != nil || rlm == nil {
				s.Bad = append(s.Bad, key)
				continue
			}
			s.Realms[oid.PkgID] = &RawRealm{Key: key, PkgID: oid.PkgID, Path: rlm.Path, Time: rlm.Time, Deposit: rlm.Deposit, Storage: rlm.Storage}
			continue
		}
		// decoded values are memoised on (key, exact bytes): the ~10^4 stdlib
		// objects never change, so a snapshot costs one byte comparison each.
		var ro *RawObj
		if c, ok := e.decoded[key]; ok && c.val == string(val) {
			ro = c.obj
		} else {
			var err error
			ro, err = Decode(key, val)
			if err != nil {
				s.Bad = append(s.Bad, key)
				continue
			}
			if e.decoded == nil {
				e.decoded = map[string]decodedEntry{}
			}
			e.decoded[key] = decodedEntry{val: string(val), obj: ro}
		}
		s.Objs[ro.ID] = ro
		s.Order = append(s.Order, ro.ID)
	}
	sort.Slice(s.Order, func(i, j int) bool { return LessOID(s.Order[i], s.Order[j]) })
	return s
}

// LessOID orders object ids by (pkgid bytes, newtime).
func LessOID(a, b gno.ObjectID) bool {
	if a.PkgID != b.PkgID {
		return string(a.PkgID.Hashlet[:]) < string(b.PkgID.Hashlet[:])
	}
	return a.NewTime < b.NewTime
}

// ObjectBytes is Σ len(stored value) over the `oid:` object keys of one package id
// (the realm record itself is not an object).
func (s *Snap) ObjectBytes(pid gno.PkgID) int64 {
	var n int64
	for id, o := range s.Objs {
		if id.PkgID == pid {
			n += int64(o.Size)
		}
	}
	return n
}
