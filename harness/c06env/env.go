// Package c06env is the shared test environment of the C06 (object graph) and
// C09 (storage accounting) harnesses: a REAL vm.VMKeeper over memdb built from
// exported constructors only (the recipe of harness/cmd/c13), with
//
//   - a process-wide BASE multistore holding the stdlibs and the fixed realm
//     packages, loaded once;
//   - a per-case cache layer (discarded at every `#case`);
//   - a per-transaction cache layer that is written into the case layer iff the
//     message succeeded — baseapp.runTx's discipline.
//
// Everything the oracles need is read back from the RAW stores (base store
// `oid:` keys, realm records, bank balances); nothing here looks into the
// keeper's or the VM's in-memory state.
package c06env

import (
	"fmt"
	"os"
	"path/filepath"
	"strings"
	"time"

	gno "github.com/gnolang/gno/gnovm/pkg/gnolang"

	"github.com/gnolang/gno/gno.land/pkg/sdk/vm"
	bft "github.com/gnolang/gno/tm2/pkg/bft/types"
	"github.com/gnolang/gno/tm2/pkg/crypto"
	"github.com/gnolang/gno/tm2/pkg/db/memdb"
	"github.com/gnolang/gno/tm2/pkg/log"
	"github.com/gnolang/gno/tm2/pkg/sdk"
	authm "github.com/gnolang/gno/tm2/pkg/sdk/auth"
	bankm "github.com/gnolang/gno/tm2/pkg/sdk/bank"
	pm "github.com/gnolang/gno/tm2/pkg/sdk/params"
	"github.com/gnolang/gno/tm2/pkg/std"
	"github.com/gnolang/gno/tm2/pkg/store"
	storebptree "github.com/gnolang/gno/tm2/pkg/store/bptree"
	"github.com/gnolang/gno/tm2/pkg/store/dbadapter"
)

// Env is one keeper environment.
type Env struct {
	MS      store.CommitMultiStore
	BaseCtx sdk.Context
	BaseKey store.StoreKey
	IavlKey store.StoreKey
	Prmk    pm.ParamsKeeper
	Acck    authm.AccountKeeper
	Bankk   bankm.BankKeeper
	VMK     *vm.VMKeeper

	Callers []crypto.Address // funded accounts

	CaseMS  store.MultiStore
	CaseCtx sdk.Context

	deployed map[string]bool
	decoded  map[string]decodedEntry
}

var theEnv *Env

// RepoDir is the gnolang/gno checkout whose stdlibs are loaded.
func RepoDir() string {
	if d := os.Getenv("VERIF_REPO"); d != "" {
		return d
	}
	return "/repo"
}

// Trace reports whether VERIF_TRACE is set.
func Trace() bool { return os.Getenv("VERIF_TRACE") != "" }

// InitialFunds is what every caller account starts with.
const InitialFunds = int64(1_000_000_000_000_000)

// Get returns the process-wide environment, building it (and loading the
// stdlibs) on first use.
func Get() *Env {
	if theEnv != nil {
		return theEnv
	}
	t0 := time.Now()
	db := memdb.NewMemDB()
	baseKey := store.NewStoreKey("baseCapKey")
	iavlKey := store.NewStoreKey("iavlCapKey")
	ms := store.NewCommitMultiStore(db)
	ms.MountStoreWithDB(baseKey, dbadapter.StoreConstructor, db)
	ms.MountStoreWithDB(iavlKey, storebptree.FastStoreConstructor, db)
	ms.LoadLatestVersion()
	ctx := sdk.NewContext(sdk.RunTxModeDeliver, ms, &bft.Header{ChainID: "test-chain-id", Height: 42}, log.NewNoopLogger())

	prmk := pm.NewParamsKeeper(iavlKey)
	acck := authm.NewAccountKeeper(iavlKey, prmk.ForModule(authm.ModuleName), std.ProtoBaseAccount, std.ProtoBaseSessionAccount)
	bankk := bankm.NewBankKeeper(acck, prmk.ForModule(bankm.ModuleName), iavlKey, []string{"ugnot"})
	vmk := vm.NewVMKeeper(baseKey, iavlKey, acck, bankk, prmk)
	prmk.Register(authm.ModuleName, acck)
	prmk.Register(bankm.ModuleName, bankk)
	prmk.Register(vm.ModuleName, vmk)
	acck.SetParams(ctx, authm.DefaultParams())
	bankk.SetParams(ctx, bankm.DefaultParams())
	if err := vmk.SetParams(ctx, vm.DefaultParams()); err != nil {
		panic(err)
	}
	e := &Env{MS: ms, BaseCtx: ctx, BaseKey: baseKey, IavlKey: iavlKey, Prmk: prmk, Acck: acck, Bankk: bankk, VMK: vmk,
		deployed: map[string]bool{}}
	for _, name := range []string{"c06caller0", "c06caller1"} {
		a := crypto.AddressFromPreimage([]byte(name))
		acc := acck.NewAccountWithAddress(ctx, a)
		acck.SetAccount(ctx, acc)
		bankk.SetCoins(ctx, a, std.Coins{{Denom: "ugnot", Amount: InitialFunds}})
		e.Callers = append(e.Callers, a)
	}
	// gno store + stdlibs on the BASE store
	mcw := ms.MultiCacheWrap()
	vmk.Initialize(log.NewNoopLogger(), mcw)
	sctx := vmk.MakeGnoTransactionStore(ctx.WithMultiStore(mcw))
	vmk.LoadStdlibCached(sctx, filepath.Join(RepoDir(), "gnovm", "stdlibs"))
	vmk.CommitGnoTransactionStore(sctx)
	mcw.MultiWrite()
	// the root multistore collects sub-store writes in a batch that only
	// Commit drains; iterators do not see the pending batch.
	ms.Commit()
	vmk.PopulateStdlibCache()
	e.NewCase()
	theEnv = e
	if Trace() {
		fmt.Fprintf(os.Stderr, "c06env: built in %v\n", time.Since(t0))
	}
	return e
}

// NewCase discards the current case layer.
func (e *Env) NewCase() {
	e.CaseMS = e.MS.MultiCacheWrap()
	e.CaseCtx = e.BaseCtx.WithMultiStore(e.CaseMS)
}

// Tx runs f on a tx layer over the case layer and commits iff f returns nil
// and does not panic.
func (e *Env) Tx(f func(ctx sdk.Context) error) (err error) {
	txMS := e.CaseMS.MultiCacheWrap()
	ctx := e.VMK.MakeGnoTransactionStore(e.CaseCtx.WithMultiStore(txMS))
	func() {
		defer func() {
			if r := recover(); r != nil {
				err = fmt.Errorf("go-panic: %v", r)
			}
		}()
		err = f(ctx)
	}()
	if err == nil {
		e.VMK.CommitGnoTransactionStore(ctx)
		txMS.MultiWrite()
	}
	return err
}

// LastElem is the last path element.
func LastElem(p string) string {
	if i := strings.LastIndex(p, "/"); i >= 0 {
		return p[i+1:]
	}
	return p
}

// MemFiles builds the sorted file list of a one-file package.
func MemFiles(path, body string) []*std.MemFile {
	return []*std.MemFile{
		{Name: "a.gno", Body: body},
		{Name: "gnomod.toml", Body: gno.GenGnoModLatest(path)},
	}
}

func coins(amount int64) std.Coins {
	if amount == 0 {
		return nil
	}
	return std.Coins{{Denom: "ugnot", Amount: amount}}
}

// AddPackage deploys in a transaction on the CASE layer.
func (e *Env) AddPackage(caller crypto.Address, path, body string, maxDeposit int64) error {
	return e.Tx(func(ctx sdk.Context) error {
		msg := vm.NewMsgAddPackage(caller, path, MemFiles(path, body))
		msg.MaxDeposit = coins(maxDeposit)
		return e.VMK.AddPackage(ctx, msg)
	})
}

// Call runs MsgCall in a transaction on the case layer.
func (e *Env) Call(caller crypto.Address, path, fn string, args []string, maxDeposit int64) (res string, err error) {
	err = e.Tx(func(ctx sdk.Context) error {
		msg := vm.NewMsgCall(caller, nil, path, fn, args)
		msg.MaxDeposit = coins(maxDeposit)
		var err error
		res, err = e.VMK.Call(ctx, msg)
		return err
	})
	return
}

// Run runs MsgRun in a transaction on the case layer.
func (e *Env) Run(caller crypto.Address, body string, maxDeposit int64) (res string, err error) {
	err = e.Tx(func(ctx sdk.Context) error {
		msg := vm.NewMsgRun(caller, nil, []*std.MemFile{{Name: "main.gno", Body: body}})
		msg.MaxDeposit = coins(maxDeposit)
		var err error
		res, err = e.VMK.Run(ctx, msg)
		return err
	})
	return
}

// DeployBase deploys a package on the BASE store (shared by all cases), memoised.
func (e *Env) DeployBase(path, body string) bool {
	if ok, seen := e.deployed[path]; seen {
		return ok
	}
	ok := false
	func() {
		defer func() {
			if r := recover(); r != nil {
				if Trace() {
					fmt.Fprintf(os.Stderr, "deploy %q panicked: %v\n", path, r)
				}
				ok = false
			}
		}()
		mcw := e.MS.MultiCacheWrap()
		ctx := e.VMK.MakeGnoTransactionStore(e.BaseCtx.WithMultiStore(mcw))
		msg := vm.NewMsgAddPackage(e.Callers[0], path, MemFiles(path, body))
		if err := e.VMK.AddPackage(ctx, msg); err != nil {
			if Trace() {
				fmt.Fprintf(os.Stderr, "deploy %q: %+v\n", path, err)
			}
			return
		}
		e.VMK.CommitGnoTransactionStore(ctx)
		mcw.MultiWrite()
		e.MS.Commit()
		ok = true
	}()
	e.deployed[path] = ok
	// the case layer was created over the old base contents; it is a cache
	// wrap, so it sees the new base keys, but start clean anyway.
	e.NewCase()
	return ok
}

// Balance is the ugnot balance of addr in the case layer.
func (e *Env) Balance(addr crypto.Address) int64 {
	return e.Bankk.GetCoins(e.CaseCtx, addr).AmountOf("ugnot")
}

// SetStoragePrice rewrites the vm module's storage price (per byte, ugnot) in
// the case layer, through the keeper's own validated setter.
func (e *Env) SetStoragePrice(price int64) error {
	p := e.VMK.GetParams(e.CaseCtx)
	p.StoragePrice = fmt.Sprintf("%dugnot", price)
	return e.VMK.SetParams(e.CaseCtx, p)
}

// Params returns the vm params in the case layer.
func (e *Env) Params() vm.Params { return e.VMK.GetParams(e.CaseCtx) }
