package c06env

// Fixed realm programs deployed once on the base store.
//
// PathA ("heap machine" A): a realm whose persistent state is a pointer graph
// of Nodes hanging off four package-level roots, driven by a tiny script
// interpreter (one MsgCall = one realm transaction = one finalize).  Every
// instruction is three bytes: opcode, operand a, operand b (digits).
//
//	N a _   t[a] = &Node{}            (fresh, unreal)
//	M a b   t[a] = t[b]
//	Z a _   t[a] = nil
//	G a b   t[a] = root[b]
//	P a b   root[a] = t[b]            (DidUpdate on the package block)
//	L a b   t[a] = t[b].L             (panics on nil t[b])
//	R a b   t[a] = t[b].R
//	l a b   t[a].L = t[b]             (DidUpdate on the struct of t[a])
//	r a b   t[a].R = t[b]
//	V a _   t[a].V++                  (plain field write: dirty only)
//
// PathB: a second realm that imports A; it keeps its own roots of type
// *ha.Node (objects allocated in and stamped by A, attached to B's block:
// cross-realm attach) and can ask A to allocate and to link nodes.
const (
	PathA = "gno.land/r/c06/ha"
	PathB = "gno.land/r/c06/hb"
)

const BodyA = `package ha

type Node struct {
	L, R *Node
	V    int
}

var R0, R1, R2, R3 *Node

func getRoot(i int) *Node {
	switch i {
	case 0:
		return R0
	case 1:
		return R1
	case 2:
		return R2
	}
	return R3
}

func setRoot(i int, n *Node) {
	switch i {
	case 0:
		R0 = n
	case 1:
		R1 = n
	case 2:
		R2 = n
	default:
		R3 = n
	}
}

// Exec runs one script as one realm transaction.
func Exec(cur realm, s string) {
	var t [8]*Node
	for i := 0; i+2 < len(s); i += 3 {
		op, a, b := s[i], int(s[i+1]-'0')&7, int(s[i+2]-'0')&7
		switch op {
		case 'N':
			t[a] = &Node{}
		case 'M':
			t[a] = t[b]
		case 'Z':
			t[a] = nil
		case 'G':
			t[a] = getRoot(b & 3)
		case 'P':
			setRoot(a&3, t[b])
		case 'L':
			t[a] = t[b].L
		case 'R':
			t[a] = t[b].R
		case 'l':
			t[a].L = t[b]
		case 'r':
			t[a].R = t[b]
		case 'V':
			t[a].V++
		default:
			panic("bad opcode")
		}
	}
}

// New allocates a fresh node in A (for callers from other realms).
func New(cur realm) *Node { return &Node{} }

// Link sets a.L = b inside A.
func Link(cur realm, a, b *Node) { a.L = b }

// Keep stores n in root i of A.
func Keep(cur realm, i int, n *Node) { setRoot(i&3, n) }

// Root returns root i of A.
func Root(cur realm, i int) *Node { return getRoot(i & 3) }
`

const BodyB = `package hb

import "gno.land/r/c06/ha"

var Q0, Q1, Q2, Q3 *ha.Node

func getRoot(i int) *ha.Node {
	switch i {
	case 0:
		return Q0
	case 1:
		return Q1
	case 2:
		return Q2
	}
	return Q3
}

func setRoot(i int, n *ha.Node) {
	switch i {
	case 0:
		Q0 = n
	case 1:
		Q1 = n
	case 2:
		Q2 = n
	default:
		Q3 = n
	}
}

// Exec: B's interpreter.  N allocates in A (crossing call), l links in A
// (crossing call), G/P use B's roots, X/Y read/write A's roots through A.
func Exec(cur realm, s string) {
	var t [8]*ha.Node
	for i := 0; i+2 < len(s); i += 3 {
		op, a, b := s[i], int(s[i+1]-'0')&7, int(s[i+2]-'0')&7
		switch op {
		case 'N':
			t[a] = ha.New(cross(cur))
		case 'M':
			t[a] = t[b]
		case 'Z':
			t[a] = nil
		case 'G':
			t[a] = getRoot(b & 3)
		case 'P':
			setRoot(a&3, t[b])
		case 'L':
			t[a] = t[b].L
		case 'R':
			t[a] = t[b].R
		case 'l':
			ha.Link(cross(cur), t[a], t[b])
		case 'X':
			t[a] = ha.Root(cross(cur), b&3)
		case 'Y':
			ha.Keep(cross(cur), a&3, t[b])
		default:
			panic("bad opcode")
		}
	}
}
`

// PathST is the "storage machine" realm of the C09 harness: string blobs in a
// map, a list of separately persisted items, and chain/params byte values —
// three ways to grow and shrink a realm's accounted storage.
// PathSP sits at the designated system-params path, so it may change the vm
// module's storage price in the middle of a message that also grows its own state.
const (
	PathST = "gno.land/r/c06/st"
	PathSP = "gno.land/r/sys/params"
)

const BodyST = `package st

import (
	"chain/params"
	"strings"
)

type Item struct {
	Data string
}

var (
	blobs map[string]string
	items []*Item
)

// Blob sets blob k to n bytes (n < 0: delete).
func Blob(cur realm, k string, n int) {
	if blobs == nil {
		blobs = map[string]string{}
	}
	if n < 0 {
		delete(blobs, k)
		return
	}
	blobs[k] = strings.Repeat("x", n)
}

// Push appends n items of the given payload size.
func Push(cur realm, n, size int) {
	for i := 0; i < n; i++ {
		items = append(items, &Item{Data: strings.Repeat("y", size)})
	}
}

// Pop removes (and unreferences) the last n items.
func Pop(cur realm, n int) {
	for i := 0; i < n && len(items) > 0; i++ {
		items[len(items)-1] = nil
		items = items[:len(items)-1]
	}
}

// Param sets chain parameter k of this realm to n zero bytes (n < 0: delete).
func Param(cur realm, k string, n int) {
	if n < 0 {
		params.SetBytes(k, nil)
		return
	}
	params.SetBytes(k, make([]byte, n))
}

// Clear drops everything.
func Clear(cur realm) {
	blobs = nil
	items = nil
}
`

const BodySP = `package params

import (
	"strings"
	sp "sys/params"
)

var pad string

// SetPrice changes the vm module's storage price and, in the same message,
// resizes this realm's own state to n bytes of padding.
func SetPrice(cur realm, price string, n int) {
	sp.SetSysParamString("vm", "p", "storage_price", price)
	pad = strings.Repeat("p", n)
}
`
