package c06env

import (
	"sort"

	pm "github.com/gnolang/gno/tm2/pkg/sdk/params"
	"github.com/gnolang/gno/tm2/pkg/store"

	gno "github.com/gnolang/gno/gnovm/pkg/gnolang"
)

// ParamBytes re-derives "the bytes of a realm's own chain parameters" from the
// raw params store: Σ len(key)+len(value) over the keys vm:<realm>:<name>
// (key without the store prefix), which is what the params keeper's Set
// methods report as byte deltas.
func (e *Env) ParamBytes(realmPath string) int64 {
	st := e.CaseCtx.Store(e.IavlKey)
	pfx := []byte(pm.StoreKeyPrefix + "vm:" + realmPath + ":")
	it := store.PrefixIterator(nil, st, pfx)
	defer it.Close()
	var n int64
	for ; it.Valid(); it.Next() {
		n += int64(len(it.Key())-len(pm.StoreKeyPrefix)) + int64(len(it.Value()))
	}
	return n
}

// Fork stacks a scratch layer on the case layer; restore() discards it.
func (e *Env) Fork() (restore func()) {
	ms, ctx := e.CaseMS, e.CaseCtx
	e.CaseMS = ms.MultiCacheWrap()
	e.CaseCtx = e.BaseCtx.WithMultiStore(e.CaseMS)
	return func() { e.CaseMS, e.CaseCtx = ms, ctx }
}

// RealmAcct is the accounting view of one realm, every field read back from
// raw state: the realm record, the `oid:` keys, the params store, the bank.
type RealmAcct struct {
	Path       string
	Storage    int64 // recorded counter
	Deposit    int64 // recorded deposit
	ObjBytes   int64 // Σ len(stored value) over the realm's oid: keys
	ParamBytes int64
	Backing    int64 // ugnot at the realm's storage-deposit address
}

// Accounts lists every realm (non-immutable package with a realm record), by path.
func (e *Env) Accounts(s *Snap) []RealmAcct {
	var out []RealmAcct
	bytes := map[gno.PkgID]int64{}
	for id, o := range s.Objs {
		bytes[id.PkgID] += int64(o.Size)
	}
	for pid, r := range s.Realms {
		if pid.IsImmutablePkg() {
			continue
		}
		out = append(out, RealmAcct{
			Path: r.Path, Storage: int64(r.Storage), Deposit: int64(r.Deposit),
			ObjBytes: bytes[pid], ParamBytes: e.ParamBytes(r.Path),
			Backing: e.Balance(gno.DeriveStorageDepositCryptoAddr(r.Path)),
		})
	}
	sort.Slice(out, func(i, j int) bool { return out[i].Path < out[j].Path })
	return out
}
