package c06env

import (
	"fmt"
	"strings"

	"gnoverif/kit"
)

// Generated realm programs.  `prog <seed>` deterministically generates a realm
// from the seed: a node type with pointer, slice, array, map, closure,
// interface and nested-struct fields, package-level variables of all those
// shapes, and NFUNCS exported crossing functions T0…, each a random straight
// line of attach / detach / share / re-attach / delete statements.  All
// dereferences are nil-guarded, so every generated transaction is expected to
// succeed; the interesting output is the oracle's verdict on the raw store.

// NFuncs is the number of exported transaction functions T0… of a generated program.
const NFuncs = 6

const progHead = `package %s

type Inner struct {
	Q *N
	W int
}

type N struct {
	P   *N
	S   []*N
	A   [2]*N
	M   map[string]*N
	F   func() *N
	I   interface{}
	Sub Inner
	V   int
}

var (
	G0, G1, G2 *N
	GS         []*N
	GM         map[string]*N
	GF         func() *N
	GI         interface{}
	GV         N
	GA         [3]*N
	GX         map[string]interface{}
)

func p(n *N) *N {
	if n == nil {
		return nil
	}
	return n.P
}

func q(n *N) *N {
	if n == nil {
		return nil
	}
	return n.Sub.Q
}

func a0(n *N) *N {
	if n == nil {
		return nil
	}
	return n.A[0]
}

func s0(s []*N) *N {
	if len(s) == 0 {
		return nil
	}
	return s[0]
}

func sl(s []*N) *N {
	if len(s) == 0 {
		return nil
	}
	return s[len(s)-1]
}

func ns(n *N) []*N {
	if n == nil {
		return nil
	}
	return n.S
}

func mk(m map[string]*N, k string) *N {
	if m == nil {
		return nil
	}
	return m[k]
}

func nm(n *N) map[string]*N {
	if n == nil {
		return nil
	}
	return n.M
}

func call(f func() *N) *N {
	if f == nil {
		return nil
	}
	return f()
}

func nf(n *N) func() *N {
	if n == nil {
		return nil
	}
	return n.F
}

func asN(i interface{}) *N {
	if n, ok := i.(*N); ok {
		return n
	}
	return nil
}

func ni(n *N) interface{} {
	if n == nil {
		return nil
	}
	return n.I
}

// setters for values built in ANOTHER realm (a MsgRun script's ephemeral realm):
// anonymous composites allocated there are adopted by this realm when persisted.
func SetAny(cur realm, v interface{}) { GI = v }

func PutAny(cur realm, k string, v interface{}) {
	if GX == nil {
		GX = map[string]interface{}{}
	}
	GX[k] = v
}

func DropAny(cur realm, k string) { delete(GX, k) }

func Adopt(cur realm, n *N) *N {
	G2 = n
	return G1
}

func Fresh(cur realm) *N { return &N{} }

// fixed building blocks for the scripted shapes (GenRunScript, seeds below 16)
func Init2(cur realm) {
	G0 = &N{P: &N{}}
	G1 = &N{}
}

func SwapG(cur realm) { G0, G1 = G1, G0 }

func DropG(cur realm, i int) {
	if i == 0 {
		G0 = nil
	} else {
		G1 = nil
	}
}

func Touch(cur realm) {
	if G0 != nil {
		G0.V++
	}
}

func capture(x *N) func() *N {
	return func() *N { return x }
}

func counter(x *N) func() *N {
	n := 0
	return func() *N {
		n++
		if x != nil {
			x.V = n
		}
		return x
	}
}
`

type progGen struct {
	r  *kit.Rand
	sb strings.Builder
	nl int // local counter
}

// expr yields a Gno expression of type *N that never panics.
func (g *progGen) expr(depth int) string {
	r := g.r
	if depth > 2 {
		return kit.Pick(r, []string{"G0", "G1", "G2", "(*N)(nil)", "&N{}"})
	}
	switch r.Intn(22) {
	case 0, 1, 2:
		return "&N{}"
	case 3:
		return "(*N)(nil)"
	case 4:
		return "G0"
	case 5:
		return "G1"
	case 6:
		return "G2"
	case 7:
		return "p(" + g.expr(depth+1) + ")"
	case 8:
		return "q(" + g.expr(depth+1) + ")"
	case 9:
		return "a0(" + g.expr(depth+1) + ")"
	case 10:
		return "s0(GS)"
	case 11:
		return "sl(GS)"
	case 12:
		return "s0(ns(" + g.expr(depth+1) + "))"
	case 13:
		return fmt.Sprintf("mk(GM, %q)", kit.Pick(r, []string{"a", "b", "c"}))
	case 14:
		return fmt.Sprintf("mk(nm(%s), %q)", g.expr(depth+1), kit.Pick(r, []string{"a", "b"}))
	case 15:
		return "call(GF)"
	case 16:
		return "call(nf(" + g.expr(depth+1) + "))"
	case 17:
		return "asN(GI)"
	case 18:
		return "asN(ni(" + g.expr(depth+1) + "))"
	case 19:
		return "GV.P"
	case 20:
		return "GA[" + fmt.Sprint(r.Intn(3)) + "]"
	default:
		return "&N{P: " + g.expr(depth+1) + "}"
	}
}

func (g *progGen) local() string {
	g.nl++
	return fmt.Sprintf("x%d", g.nl)
}

func (g *progGen) stmt() {
	r := g.r
	w := func(f string, a ...any) { fmt.Fprintf(&g.sb, "\t"+f+"\n", a...) }
	e := func() string { return g.expr(0) }
	switch r.Intn(30) {
	case 0:
		w("G0 = %s", e())
	case 1:
		w("G1 = %s", e())
	case 2:
		w("G2 = %s", e())
	case 3:
		x := g.local()
		w("if %s := (%s); %s != nil { %s.P = %s }", x, e(), x, x, e())
	case 4:
		x := g.local()
		w("if %s := (%s); %s != nil { %s.Sub.Q = %s }", x, e(), x, x, e())
	case 5:
		x := g.local()
		w("if %s := (%s); %s != nil { %s.A[%d] = %s }", x, e(), x, x, r.Intn(2), e())
	case 6:
		w("GS = append(GS, %s)", e())
	case 7:
		w("if len(GS) > 0 { GS = GS[:len(GS)-1] }")
	case 8:
		w("if len(GS) > 0 { GS = GS[1:] }")
	case 9:
		w("if len(GS) > %d { GS[%d] = %s }", r.Intn(3), 0, e())
	case 10:
		w("GS = nil")
	case 11:
		x := g.local()
		w("if %s := (%s); %s != nil { %s.S = append(%s.S, %s) }", x, e(), x, x, x, e())
	case 12:
		x := g.local()
		w("if %s := (%s); %s != nil { %s.S = GS }", x, e(), x, x)
	case 13:
		w("if GM == nil { GM = map[string]*N{} }")
		w("GM[%q] = %s", kit.Pick(r, []string{"a", "b", "c"}), e())
	case 14:
		w("delete(GM, %q)", kit.Pick(r, []string{"a", "b", "c"}))
	case 15:
		w("GM = nil")
	case 16:
		x := g.local()
		w("if %s := (%s); %s != nil { if %s.M == nil { %s.M = map[string]*N{} }; %s.M[%q] = %s }", x, e(), x, x, x, x, kit.Pick(r, []string{"a", "b"}), e())
	case 17:
		w("GF = capture(%s)", e())
	case 18:
		w("GF = counter(%s)", e())
	case 19:
		w("GF = nil")
	case 20:
		x := g.local()
		w("if %s := (%s); %s != nil { %s.F = capture(%s) }", x, e(), x, x, e())
	case 21:
		w("GI = %s", e())
	case 22:
		x := g.local()
		w("if %s := (%s); %s != nil { GI = *%s }", x, e(), x, x)
	case 23:
		w("GI = nil")
	case 24:
		x := g.local()
		w("if %s := (%s); %s != nil { %s.I = %s }", x, e(), x, x, e())
	case 25:
		w("GV = N{P: %s}", e())
	case 26:
		x := g.local()
		w("if %s := (%s); %s != nil { GV = *%s }", x, e(), x, x)
	case 27:
		w("GA[%d] = %s", r.Intn(3), e())
	case 28:
		x := g.local()
		w("if %s := (%s); %s != nil { %s.V++ }", x, e(), x, x)
	default:
		w("_ = call(GF)")
	}
}

// GenProgram generates the realm source for a seed.
func GenProgram(seed uint64, pkgName string) string {
	g := &progGen{r: kit.NewRand(seed*2654435761 + 17)}
	fmt.Fprintf(&g.sb, progHead, pkgName)
	for f := 0; f < NFuncs; f++ {
		fmt.Fprintf(&g.sb, "\nfunc T%d(cur realm) {\n", f)
		n := 1 + g.r.Intn(6)
		for i := 0; i < n; i++ {
			g.stmt()
		}
		g.sb.WriteString("}\n")
	}
	// a package-level initialiser exercises the deploy-time finalize too
	if g.r.Chance(50) {
		g.sb.WriteString("\nfunc init() {\n")
		for i := 0; i < 1+g.r.Intn(4); i++ {
			g.stmt()
		}
		g.sb.WriteString("}\n")
	}
	return g.sb.String()
}


// GenRunScript generates the main package of a MsgRun transaction that builds
// values in the caller's ephemeral realm and hands them to the generated realm
// at path (a program produced by GenProgram): slices, maps, pointers to
// anonymous structs, arrays, nested composites, and nodes obtained from the
// realm itself and passed back.
// fixedScripts: seeds 1.. select a hand-written body (several crossing calls = several
// finalizations of the realm inside ONE transaction, on the same in-memory objects).
var fixedScripts = map[uint64]string{
	1: "\tp.Init2(cross(cur))\n",
	// swap two owned objects (detach + re-attach before the first finalization), then really drop one
	2: "\tp.SwapG(cross(cur))\n\tp.DropG(cross(cur), 1)\n",
	3: "\tp.SwapG(cross(cur))\n\tp.DropG(cross(cur), 0)\n",
	4: "\tp.SwapG(cross(cur))\n\tp.Touch(cross(cur))\n\tp.DropG(cross(cur), 1)\n\tp.DropG(cross(cur), 0)\n",
	5: "\tp.SwapG(cross(cur))\n\tp.SwapG(cross(cur))\n\tp.DropG(cross(cur), 0)\n",
	6: "\tp.Init2(cross(cur))\n\tp.SwapG(cross(cur))\n\tp.DropG(cross(cur), 1)\n",
}

func GenRunScript(seed uint64, path string) string {
	r := kit.NewRand(seed*0x9E3779B1 + 5)
	var sb strings.Builder
	fmt.Fprintf(&sb, "package main\n\nimport p %q\n\nfunc main(cur realm) {\n", path)
	if body, ok := fixedScripts[seed]; ok {
		sb.WriteString(body)
		sb.WriteString("}\n")
		return sb.String()
	}
	n := 1 + r.Intn(4)
	for i := 0; i < n; i++ {
		k := kit.Pick(r, []string{"a", "b", "c"})
		switch r.Intn(10) {
		case 0:
			fmt.Fprintf(&sb, "\tp.SetAny(cross(cur), []int{1, 2, %d})\n", r.Intn(100))
		case 1:
			fmt.Fprintf(&sb, "\tp.PutAny(cross(cur), %q, map[string]int{\"x\": %d})\n", k, r.Intn(100))
		case 2:
			// (a struct type declared in the script would be refused: "type defined in the private realm")
			fmt.Fprintf(&sb, "\tp.PutAny(cross(cur), %q, &[2]int{%d, 2})\n", k, r.Intn(100))
		case 3:
			fmt.Fprintf(&sb, "\tp.PutAny(cross(cur), %q, [2][]string{{\"u\"}, {\"v\", \"w\"}})\n", k)
		case 4:
			fmt.Fprintf(&sb, "\tp.DropAny(cross(cur), %q)\n", k)
		case 5:
			fmt.Fprintf(&sb, "\t{\n\t\ts := [][]int{{1}, {2, 3}}\n\t\tp.PutAny(cross(cur), %q, s)\n\t\tp.SetAny(cross(cur), s)\n\t}\n", k)
		case 6:
			sb.WriteString("\tp.Adopt(cross(cur), p.Fresh(cross(cur)))\n")
		case 7:
			sb.WriteString("\tp.Adopt(cross(cur), p.Adopt(cross(cur), p.Fresh(cross(cur))))\n")
		case 8:
			fmt.Fprintf(&sb, "\t{\n\t\tx := %d\n\t\tp.PutAny(cross(cur), %q, &x)\n\t}\n", r.Intn(100), k)
		default:
			fmt.Fprintf(&sb, "\tp.T%d(cross(cur))\n", r.Intn(NFuncs))
		}
	}
	sb.WriteString("}\n")
	return sb.String()
}
