// Harness for C26 — "The B+ tree fast index never serves a stale value".
//
// Runs the REAL tm2/pkg/bptree.MutableTree / ImmutableTree over one shared memdb
// (fast index on or off per handle) and answers the line protocol documented in
// lean/GnoVerif/Drive/C26.lean.  Slots 0..2 hold MutableTree handles (slot 0 is
// the single live writer; the others are query-style handles), view slots 0..2
// hold ImmutableTrees, so an op script is an interleaving of read-only loads
// with commits at API-call granularity.
//
// The DB wrapper gives three controls the real backends do not expose:
//   - crash:    from a chosen batch Write on, nothing reaches the DB (the process is dead;
//     the op that crashes also drops every handle and view);
//   - failure:  the next batch Write returns an error without applying anything;
//   - skew:     a handle's discoverVersions scan does not see the newest <skew> root
//     records (the scan ran before those commits landed — the Load TOCTOU of
//     tm2/adr/pr6018_fastindex_snapshot_isolation.md), every other read is current.
//
// Oracle (independent of the model): every read prints the value served by the
// fast-path API (MutableTree.Get / ImmutableTree.Get / GetVersioned) and the value
// of the authoritative tree walk on the same snapshot (GetWithIndex never consults
// the index); the statement holds iff they are equal.  A plain-map shadow of every
// committed version (built from the observed outputs) additionally checks that the
// walk itself returns what was committed.
package main

import (
	"bytes"
	"encoding/binary"
	"errors"
	"fmt"
	"sort"
	"strings"
	"sync"
	"sync/atomic"

	bp "github.com/gnolang/gno/tm2/pkg/bptree"
	dbm "github.com/gnolang/gno/tm2/pkg/db"
	"github.com/gnolang/gno/tm2/pkg/db/memdb"

	"gnoverif/kit"
)

// ---------------------------------------------------------------- DB wrapper

type ctl struct {
	mem      *memdb.MemDB
	allow    int  // -1: unlimited; n ≥ 0: n more batch Writes land, later ones are lost
	failNext bool // the next batch Write returns an error (nothing applied)
}

var errInjected = errors.New("injected write failure")

type wdb struct {
	*memdb.MemDB
	c    *ctl
	skew int
}

type wbatch struct {
	dbm.Batch
	c *ctl
}

func (b *wbatch) write(sync bool) error {
	if b.c.failNext {
		b.c.failNext = false
		return errInjected
	}
	if b.c.allow == 0 {
		return nil // lost: the process died before the write reached the DB
	}
	if b.c.allow > 0 {
		b.c.allow--
	}
	if sync {
		return b.Batch.WriteSync()
	}
	return b.Batch.Write()
}
func (b *wbatch) Write() error     { return b.write(false) }
func (b *wbatch) WriteSync() error { return b.write(true) }

func (w *wdb) NewBatch() dbm.Batch               { return &wbatch{w.MemDB.NewBatch(), w.c} }
func (w *wdb) NewBatchWithSize(_ int) dbm.Batch { return w.NewBatch() }

type sliceIter struct {
	keys, vals [][]byte
	i          int
	start, end []byte
}

func (s *sliceIter) Domain() ([]byte, []byte) { return s.start, s.end }
func (s *sliceIter) Valid() bool              { return s.i < len(s.keys) }
func (s *sliceIter) Next()                    { s.i++ }
func (s *sliceIter) Key() []byte              { return append([]byte{}, s.keys[s.i]...) }
func (s *sliceIter) Value() []byte            { return append([]byte{}, s.vals[s.i]...) }
func (s *sliceIter) Error() error             { return nil }
func (s *sliceIter) Close() error             { return nil }

func (w *wdb) Iterator(start, end []byte) (dbm.Iterator, error) {
	if w.skew == 0 || !bytes.Equal(start, []byte{bp.PrefixRoot}) {
		return w.MemDB.Iterator(start, end)
	}
	it, err := w.MemDB.Iterator(start, end)
	if err != nil {
		return nil, err
	}
	defer it.Close()
	s := &sliceIter{start: start, end: end}
	var vers []uint64
	for ; it.Valid(); it.Next() {
		k := it.Key()
		s.keys = append(s.keys, k)
		s.vals = append(s.vals, it.Value())
		if len(k) == 9 {
			vers = append(vers, binary.BigEndian.Uint64(k[1:]))
		}
	}
	// hide the newest `skew` versions
	var keys, vals [][]byte
	for i, k := range s.keys {
		if len(k) == 9 {
			v := binary.BigEndian.Uint64(k[1:])
			newer := 0
			for _, u := range vers {
				if u > v {
					newer++
				}
			}
			if newer < w.skew {
				continue
			}
		}
		keys = append(keys, k)
		vals = append(vals, s.vals[i])
	}
	s.keys, s.vals = keys, vals
	return s, nil
}

// ---------------------------------------------------------------- state

type handle struct {
	t        *bp.MutableTree
	fast     bool
	ensured  bool // opened through Load() without error (the documented trust contract)
	poisoned bool // a SaveVersion returned an error and no Rollback happened since
}

type view struct {
	imm *bp.ImmutableTree
	ver int64
}

type shadow struct {
	committed map[int64]map[string][]byte
	work      map[string][]byte // slot 0's working tree
	workOK    bool
	tainted   bool // a fast-on handle opened outside the trust contract has committed
}

var (
	c  *ctl
	hs [3]*handle
	vs [3]*view
	sh *shadow
)

func reset() {
	c = &ctl{mem: memdb.NewMemDB(), allow: -1}
	hs = [3]*handle{}
	vs = [3]*view{}
	sh = &shadow{committed: map[int64]map[string][]byte{}}
}

func killAll() {
	hs = [3]*handle{}
	vs = [3]*view{}
	sh.workOK = false
}

func cpMap(m map[string][]byte) map[string][]byte {
	o := make(map[string][]byte, len(m))
	for k, v := range m {
		o[k] = v
	}
	return o
}

// ---------------------------------------------------------------- parsing (strict; mirrors Drive/C26.lean)

func pNat(s string) (int64, bool) {
	if len(s) == 0 || len(s) > 7 {
		return 0, false
	}
	var n int64
	for _, ch := range s {
		if ch < '0' || ch > '9' {
			return 0, false
		}
		n = n*10 + int64(ch-'0')
	}
	return n, true
}

func pHex(s string) ([]byte, bool) {
	if s == "e" {
		return []byte{}, true
	}
	if s == "" || len(s)%2 != 0 {
		return nil, false
	}
	out := make([]byte, 0, len(s)/2)
	for i := 0; i < len(s); i += 2 {
		a, ok1 := hexd(s[i])
		b, ok2 := hexd(s[i+1])
		if !ok1 || !ok2 {
			return nil, false
		}
		out = append(out, a*16+b)
	}
	return out, true
}

func hexd(ch byte) (byte, bool) {
	switch {
	case ch >= '0' && ch <= '9':
		return ch - '0', true
	case ch >= 'a' && ch <= 'f':
		return ch - 'a' + 10, true
	}
	return 0, false
}

// hex | e | - (nil)
func pOptHex(s string) ([]byte, bool) {
	if s == "-" {
		return nil, true
	}
	return pHex(s)
}

func pSlot(s string) (int, bool) {
	n, ok := pNat(s)
	if !ok || n >= 3 {
		return 0, false
	}
	return int(n), true
}

func pBool(s string) (bool, bool) {
	switch s {
	case "1":
		return true, true
	case "0":
		return false, true
	}
	return false, false
}

// ---------------------------------------------------------------- canonical output helpers

func fnv64(s string) uint64 {
	h := uint64(14695981039346656037)
	for i := 0; i < len(s); i++ {
		h ^= uint64(s[i])
		h *= 1099511628211
	}
	return h
}

func compact(s string) string {
	if len(s) <= 250 {
		return s
	}
	return fmt.Sprintf("%s~%d~%016x", s[:200], len(s), fnv64(s))
}

func dump() string {
	mem := c.mem
	var fs []string
	it, _ := mem.Iterator([]byte{bp.PrefixFast}, []byte{bp.PrefixFast + 1})
	for ; it.Valid(); it.Next() {
		k, v := it.Key(), it.Value()
		if len(v) < 12 {
			fs = append(fs, fmt.Sprintf("%s:corrupt", kit.Hex(k[1:])))
			continue
		}
		payload := v[:len(v)-4]
		fs = append(fs, fmt.Sprintf("%s:%d:%s", kit.Hex(k[1:]), binary.BigEndian.Uint64(payload[:8]), kit.Hex(payload[8:])))
	}
	it.Close()
	stamp := "-"
	if v, _ := mem.Get(append([]byte{bp.PrefixMeta}, "fastidx"...)); v != nil {
		if len(v) == 12 {
			stamp = fmt.Sprint(binary.BigEndian.Uint64(v[:8]))
		} else {
			stamp = "corrupt"
		}
	}
	var vers []string
	it, _ = mem.Iterator([]byte{bp.PrefixRoot}, []byte{bp.PrefixRoot + 1})
	for ; it.Valid(); it.Next() {
		if k := it.Key(); len(k) == 9 {
			vers = append(vers, fmt.Sprint(binary.BigEndian.Uint64(k[1:])))
		}
	}
	it.Close()
	return compact(fmt.Sprintf("F=[%s] S=%s V=[%s]", strings.Join(fs, ","), stamp, strings.Join(vers, ",")))
}

func errClass(err error) string {
	switch {
	case errors.Is(err, bp.ErrSessionPoisoned):
		return "err:poisoned"
	case errors.Is(err, bp.ErrEmptyKey):
		return "err:emptykey"
	case errors.Is(err, bp.ErrVersionDoesNotExist):
		return "err:nover"
	case errors.Is(err, bp.ErrUncommittedChanges):
		return "err:uncommitted"
	case errors.Is(err, bp.ErrActiveReaders):
		return "err:activereaders"
	case errors.Is(err, errInjected):
		return "err:write"
	}
	m := err.Error()
	switch {
	case strings.Contains(m, "value must not be nil"):
		return "err:nilvalue"
	case strings.Contains(m, "already exists with a different hash"):
		return "err:exists"
	case strings.Contains(m, "cannot prune latest version"):
		return "err:prunelatest"
	case strings.Contains(m, "is ahead of the loaded version"):
		return "err:stampahead"
	}
	return "err:other"
}

// ---------------------------------------------------------------- oracle

func same(a, b []byte) bool { return (a == nil) == (b == nil) && bytes.Equal(a, b) }

// judge evaluates the statement on one read: `served` came through the API that may
// consult the fast index, `walked` from the authoritative tree walk on the same
// snapshot; `want` (when known) is what the shadow says was committed/staged.
func judge(served, walked []byte, want []byte, haveWant bool, bare bool) string {
	if !same(served, walked) {
		cls := "stale"
		if bare || sh.tainted {
			cls = "stale-bare-load"
		}
		return fmt.Sprintf("VIOL:%s served=%s tree=%s", cls, kit.Hex(served), kit.Hex(walked))
	}
	if haveWant && !same(walked, want) {
		return fmt.Sprintf("VIOL:tree-diverges tree=%s committed=%s", kit.Hex(walked), kit.Hex(want))
	}
	return "ok"
}

func (s *shadow) at(ver int64, k []byte) ([]byte, bool) {
	m, ok := s.committed[ver]
	if !ok {
		if ver == 0 {
			return nil, true
		}
		return nil, false
	}
	return m[string(k)], true
}

func (s *shadow) resetWork(ver int64) {
	if m, ok := s.committed[ver]; ok {
		s.work, s.workOK = cpMap(m), true
	} else if ver == 0 {
		s.work, s.workOK = map[string][]byte{}, true
	} else {
		s.workOK = false
	}
}

// ---------------------------------------------------------------- exec

func newTree(fast bool, skew int, cache int) *bp.MutableTree {
	return bp.NewMutableTreeWithDB(&wdb{MemDB: c.mem, c: c, skew: skew}, cache, nil, bp.FastIndexOption(fast))
}

func exec(t []string) (string, string) {
	bad := "err:badop"
	if len(t) == 0 {
		return bad, "-"
	}
	switch t[0] {
	case "open":
		if len(t) != 7 {
			return bad, "-"
		}
		slot, ok1 := pSlot(t[1])
		fast, ok2 := pBool(t[2])
		v, ok3 := pNat(t[4])
		skew, ok4 := pNat(t[5])
		cache, ok5 := pNat(t[6])
		mode := t[3]
		if !(ok1 && ok2 && ok3 && ok4 && ok5) {
			return bad, "-"
		}
		switch mode {
		case "load", "ro", "lv":
		case "loadlv":
			if v == 0 {
				return bad, "-"
			}
		default:
			return bad, "-"
		}
		if slot == 0 && skew != 0 {
			return bad, "-"
		}
		return open(slot, fast, mode, v, int(skew), int(cache)), "-"
	case "set":
		if len(t) != 4 {
			return bad, "-"
		}
		slot, ok1 := pSlot(t[1])
		k, ok2 := pOptHex(t[2])
		v, ok3 := pOptHex(t[3])
		if !(ok1 && ok2 && ok3) || slot != 0 {
			return bad, "-"
		}
		h := hs[slot]
		if h == nil {
			return "err:nohandle", "-"
		}
		upd, err := h.t.Set(k, v)
		if err != nil {
			return errClass(err), "-"
		}
		if sh.workOK {
			sh.work[string(k)] = append([]byte{}, v...)
		}
		return fmt.Sprintf("ok %v", upd), "-"
	case "rm":
		if len(t) != 3 {
			return bad, "-"
		}
		slot, ok1 := pSlot(t[1])
		k, ok2 := pOptHex(t[2])
		if !(ok1 && ok2) || slot != 0 {
			return bad, "-"
		}
		h := hs[slot]
		if h == nil {
			return "err:nohandle", "-"
		}
		val, found, err := h.t.Remove(k)
		if err != nil {
			return errClass(err), "-"
		}
		orc := "-"
		if sh.workOK {
			want, had := sh.work[string(k)]
			if had != found || (found && !same(val, want)) {
				orc = fmt.Sprintf("VIOL:tree-diverges remove found=%v val=%s staged=%v/%s", found, kit.Hex(val), had, kit.Hex(want))
			} else {
				orc = "ok"
			}
			delete(sh.work, string(k))
		}
		return fmt.Sprintf("rm %s %v", kit.Hex(val), found), orc
	case "save", "failsave":
		if len(t) != 2 {
			return bad, "-"
		}
		slot, ok1 := pSlot(t[1])
		if !ok1 || slot != 0 {
			return bad, "-"
		}
		h := hs[slot]
		if h == nil {
			return "err:nohandle", "-"
		}
		existed := h.t.VersionExists(h.t.Version() + 1)
		if t[0] == "failsave" {
			c.failNext = true
		}
		_, v, err := h.t.SaveVersion()
		c.failNext = false
		if err != nil {
			h.poisoned = true
			return errClass(err), "-"
		}
		if existed {
			sh.resetWork(v)
			return fmt.Sprintf("adopt %d", v), "-"
		}
		if sh.workOK {
			sh.committed[v] = cpMap(sh.work)
		}
		if h.fast && !h.ensured {
			sh.tainted = true
		}
		return fmt.Sprintf("ok %d", v), "-"
	case "rollback":
		if len(t) != 2 {
			return bad, "-"
		}
		slot, ok1 := pSlot(t[1])
		if !ok1 || slot != 0 {
			return bad, "-"
		}
		h := hs[slot]
		if h == nil {
			return "err:nohandle", "-"
		}
		h.t.Rollback()
		h.poisoned = false
		sh.resetWork(h.t.Version())
		return "ok", "-"
	case "prune":
		if len(t) != 3 {
			return bad, "-"
		}
		slot, ok1 := pSlot(t[1])
		to, ok2 := pNat(t[2])
		if !(ok1 && ok2) || slot != 0 {
			return bad, "-"
		}
		h := hs[slot]
		if h == nil {
			return "err:nohandle", "-"
		}
		if err := h.t.PruneVersionsTo(to); err != nil {
			return errClass(err), "-"
		}
		// harness rule (mirrored by the model): a successful prune closes every other
		// handle and every view at a version ≤ to.
		for i := range hs {
			if i != slot && hs[i] != nil && hs[i].t.Version() <= to {
				hs[i] = nil
			}
		}
		for i := range vs {
			if vs[i] != nil && vs[i].ver <= to {
				vs[i] = nil
			}
		}
		for v := range sh.committed {
			if v <= to {
				delete(sh.committed, v)
			}
		}
		return "ok", "-"
	case "get":
		if len(t) != 3 {
			return bad, "-"
		}
		slot, ok1 := pSlot(t[1])
		k, ok2 := pOptHex(t[2])
		if !(ok1 && ok2) {
			return bad, "-"
		}
		h := hs[slot]
		if h == nil {
			return "err:nohandle", "-"
		}
		if h.poisoned {
			return "err:poisoned", "-" // harness rule: no working reads on a poisoned session
		}
		served, err := h.t.Get(k)
		if err != nil {
			return "err:get", "-"
		}
		_, walked, err := h.t.GetWithIndex(k)
		if err != nil {
			return "err:get", "-"
		}
		var want []byte
		var have bool
		if slot == 0 {
			if sh.workOK {
				want, have = sh.work[string(k)], true
			}
		} else {
			want, have = sh.at(h.t.Version(), k)
		}
		return fmt.Sprintf("v=%s w=%s", kit.Hex(served), kit.Hex(walked)), judge(served, walked, want, have, h.fast && !h.ensured)
	case "getv":
		if len(t) != 4 {
			return bad, "-"
		}
		slot, ok1 := pSlot(t[1])
		k, ok2 := pOptHex(t[2])
		ver, ok3 := pNat(t[3])
		if !(ok1 && ok2 && ok3) {
			return bad, "-"
		}
		h := hs[slot]
		if h == nil {
			return "err:nohandle", "-"
		}
		imm, err := h.t.GetImmutable(ver)
		if err != nil {
			return "err:nover", "-"
		}
		_, walked, err := imm.GetWithIndex(k)
		imm.Close()
		if err != nil {
			return "err:get", "-"
		}
		served, err := h.t.GetVersioned(k, ver)
		if err != nil {
			return "err:get", "-"
		}
		want, have := sh.at(ver, k)
		return fmt.Sprintf("v=%s w=%s", kit.Hex(served), kit.Hex(walked)), judge(served, walked, want, have, false)
	case "imm":
		if len(t) != 4 {
			return bad, "-"
		}
		slot, ok1 := pSlot(t[1])
		vslot, ok2 := pSlot(t[2])
		ver, ok3 := pNat(t[3])
		if !(ok1 && ok2 && ok3) {
			return bad, "-"
		}
		h := hs[slot]
		if h == nil {
			return "err:nohandle", "-"
		}
		imm, err := h.t.GetImmutableUnregistered(ver)
		if err != nil {
			vs[vslot] = nil
			return "err:nover", "-"
		}
		vs[vslot] = &view{imm, ver}
		return "ok", "-"
	case "vget":
		if len(t) != 3 {
			return bad, "-"
		}
		vslot, ok1 := pSlot(t[1])
		k, ok2 := pOptHex(t[2])
		if !(ok1 && ok2) {
			return bad, "-"
		}
		vw := vs[vslot]
		if vw == nil {
			return "err:noview", "-"
		}
		served, err := vw.imm.Get(k)
		if err != nil {
			return "err:get", "-"
		}
		_, walked, err := vw.imm.GetWithIndex(k)
		if err != nil {
			return "err:get", "-"
		}
		want, have := sh.at(vw.ver, k)
		return fmt.Sprintf("v=%s w=%s", kit.Hex(served), kit.Hex(walked)), judge(served, walked, want, have, false)
	case "crashsave":
		if len(t) != 1 {
			return bad, "-"
		}
		if h := hs[0]; h != nil {
			c.allow = 0
			h.t.SaveVersion()
			c.allow = -1
		}
		killAll()
		return "crashed", "-"
	case "crashprune":
		if len(t) != 2 {
			return bad, "-"
		}
		to, ok := pNat(t[1])
		if !ok {
			return bad, "-"
		}
		if h := hs[0]; h != nil {
			c.allow = 0
			h.t.PruneVersionsTo(to)
			c.allow = -1
		}
		killAll()
		return "crashed", "-"
	case "crashopen":
		if len(t) != 3 {
			return bad, "-"
		}
		fast, ok1 := pBool(t[1])
		n, ok2 := pNat(t[2])
		if !(ok1 && ok2) {
			return bad, "-"
		}
		c.allow = int(n)
		newTree(fast, 0, 100).Load()
		c.allow = -1
		killAll()
		return "crashed", "-"
	case "delstamp": // the ADR's operator remediation: node down, stamp key deleted by hand
		if len(t) != 1 {
			return bad, "-"
		}
		c.mem.Delete(append([]byte{bp.PrefixMeta}, "fastidx"...))
		killAll()
		return "crashed", "-"
	case "crashimport": // Import → dropFastIndex (stamp delete commit, then the clear chunk), cut after n writes, abandoned
		if len(t) != 2 {
			return bad, "-"
		}
		n, ok := pNat(t[1])
		if !ok {
			return bad, "-"
		}
		tr := newTree(true, 0, 100)
		lat, _ := tr.LoadReadonly()
		c.allow = int(n)
		if imp, _ := tr.Import(lat + 1); imp != nil {
			imp.Close()
		}
		c.allow = -1
		killAll()
		return "crashed", "-"
	case "dump":
		if len(t) != 1 {
			return bad, "-"
		}
		return dump(), "-"
	case "stress":
		if len(t) != 3 {
			return bad, "-"
		}
		seed, ok1 := pNat(t[1])
		rounds, ok2 := pNat(t[2])
		if !(ok1 && ok2) {
			return bad, "-"
		}
		return "stress", stress(uint64(seed), int(rounds))
	}
	return bad, "-"
}

func open(slot int, fast bool, mode string, v int64, skew, cache int) string {
	hs[slot] = nil
	if slot == 0 {
		sh.workOK = false
	}
	t := newTree(fast, skew, cache)
	h := &handle{t: t, fast: fast}
	doLoad := func() (int64, string) { // Load(): (returned version, "" | error class)
		lv, err := t.Load()
		if err != nil {
			return lv, errClass(err)
		}
		h.ensured = true
		return lv, ""
	}
	var out string
	switch {
	case mode == "load" || (mode == "lv" && v == 0):
		lv, e := doLoad()
		switch e {
		case "":
			hs[slot] = h
			out = fmt.Sprintf("ok %d", lv)
		case "err:stampahead":
			hs[slot] = h // Load leaves the tree loaded; the caller may go on using it
			out = fmt.Sprintf("err:stampahead %d", lv)
		default:
			out = e
		}
	case mode == "ro":
		lv, err := t.LoadReadonly()
		if err != nil {
			out = errClass(err)
		} else {
			hs[slot] = h
			out = fmt.Sprintf("ok %d", lv)
		}
	case mode == "lv":
		lat, err := t.LoadVersion(v)
		if err != nil {
			out = errClass(err)
		} else {
			hs[slot] = h
			out = fmt.Sprintf("ok %d", lat)
		}
	case mode == "loadlv": // store/bptree.Store.LoadVersion
		lv, e := doLoad()
		switch {
		case e == "err:stampahead":
			out = fmt.Sprintf("err:stampahead %d", lv)
		case e != "":
			out = e
		case lv == v:
			hs[slot] = h
			out = fmt.Sprintf("ok %d", lv)
		default:
			if _, err := t.LoadVersion(v); err != nil {
				out = errClass(err)
			} else {
				h.ensured = v <= lv // Load() verified the index for lv only
				hs[slot] = h
				out = fmt.Sprintf("ok %d", lv)
			}
		}
	}
	if slot == 0 && hs[0] != nil {
		sh.resetWork(t.Version())
	}
	return out
}

// ---------------------------------------------------------------- concurrent stress (thorough tier; oracle only)

// stress runs one committing writer (fast index on) against concurrent query-style
// loads over the same DB — the three in-repo patterns: a fresh MutableTree with
// LoadReadonly + GetImmutableUnregistered (store/bptree immutable views), GetImmutable on
// the writer's own tree (documented safe), and an out-of-contract Load() (guarded by
// ensureFastIndex).  Every reader compares the fast-path Get with the tree walk of the
// SAME immutable snapshot; after the run a fresh in-contract Load re-checks every key.
func stress(seed uint64, rounds int) string {
	mem := memdb.NewMemDB()
	cc := &ctl{mem: mem, allow: -1}
	mk := func(fast bool) *bp.MutableTree {
		return bp.NewMutableTreeWithDB(&wdb{MemDB: mem, c: cc}, 100, nil, bp.FastIndexOption(fast))
	}
	const nkeys = 96
	key := func(i int) []byte { return []byte{byte(0x40 + i/16), byte(i % 16)} }
	w := mk(true)
	if _, err := w.Load(); err != nil {
		return "VIOL:stress-setup " + err.Error()
	}
	var stop atomic.Bool
	var bad atomic.Int64
	var firstBad atomic.Value
	var wg sync.WaitGroup
	report := func(kind string, ver int64, k, served, walked []byte) {
		if bad.Add(1) == 1 {
			firstBad.Store(fmt.Sprintf("%s ver=%d key=%s served=%s tree=%s", kind, ver, kit.Hex(k), kit.Hex(served), kit.Hex(walked)))
		}
	}
	for g := 0; g < 6; g++ {
		wg.Add(1)
		go func(g int) {
			defer wg.Done()
			r := kit.NewRand(seed*131 + uint64(g))
			for !stop.Load() {
				kind := r.Intn(10)
				switch {
				case kind < 6: // query view: fresh tree, LoadReadonly, unregistered immutable
					q := mk(true)
					lat, err := q.LoadReadonly()
					if err != nil || lat == 0 {
						continue
					}
					ver := lat - int64(r.Intn(3))
					if ver < 1 {
						ver = lat
					}
					imm, err := q.GetImmutableUnregistered(ver)
					if err != nil {
						continue
					}
					for i := 0; i < 24; i++ {
						k := key(r.Intn(nkeys))
						s, e1 := imm.Get(k)
						_, t, e2 := imm.GetWithIndex(k)
						if e1 == nil && e2 == nil && !same(s, t) {
							report("readonly-view", ver, k, s, t)
						}
					}
				case kind < 8: // snapshot on the writer's own tree
					lat := int64(0)
					if av := w.AvailableVersions(); len(av) > 0 {
						lat = int64(av[len(av)-1])
					}
					if lat == 0 {
						continue
					}
					imm, err := w.GetImmutable(lat)
					if err != nil {
						continue
					}
					for i := 0; i < 24; i++ {
						k := key(r.Intn(nkeys))
						s, e1 := imm.Get(k)
						_, t, e2 := imm.GetWithIndex(k)
						if e1 == nil && e2 == nil && !same(s, t) {
							report("writer-snapshot", lat, k, s, t)
						}
					}
					imm.Close()
				default: // out-of-contract Load() racing commits: must fail loud or be harmless
					q := mk(true)
					if _, err := q.Load(); err != nil {
						continue
					}
					ver := q.Version()
					imm, err := q.GetImmutableUnregistered(ver)
					if err != nil {
						continue
					}
					for i := 0; i < 8; i++ {
						k := key(r.Intn(nkeys))
						s, e1 := imm.Get(k)
						_, t, e2 := imm.GetWithIndex(k)
						if e1 == nil && e2 == nil && !same(s, t) {
							report("racing-load", ver, k, s, t)
						}
					}
				}
			}
		}(g)
	}
	r := kit.NewRand(seed)
	werr := ""
	for i := 0; i < rounds && werr == ""; i++ {
		for j := r.Range(1, 12); j > 0; j-- {
			k := key(r.Intn(nkeys))
			if r.Chance(25) {
				if _, _, err := w.Remove(k); err != nil {
					werr = err.Error()
				}
			} else if _, err := w.Set(k, []byte{byte(i), byte(i >> 8), byte(j)}); err != nil {
				werr = err.Error()
			}
		}
		if _, _, err := w.SaveVersion(); err != nil {
			werr = err.Error()
		}
		for j := 0; j < 4 && werr == ""; j++ { // the consensus-path clean working read
			k := key(r.Intn(nkeys))
			s, e1 := w.Get(k)
			_, t, e2 := w.GetWithIndex(k)
			if e1 == nil && e2 == nil && !same(s, t) {
				report("writer-get", w.Version(), k, s, t)
			}
		}
	}
	stop.Store(true)
	wg.Wait()
	if werr != "" {
		return "VIOL:stress-writer " + werr
	}
	// a restart in contract must find a current, correct index
	f := mk(true)
	if _, err := f.Load(); err != nil {
		return "VIOL:stress-reload " + err.Error()
	}
	for i := 0; i < nkeys; i++ {
		k := key(i)
		s, e1 := f.Get(k)
		_, t, e2 := f.GetWithIndex(k)
		if e1 == nil && e2 == nil && !same(s, t) {
			report("after-restart", f.Version(), k, s, t)
		}
	}
	if n := bad.Load(); n > 0 {
		return fmt.Sprintf("VIOL:stale-concurrent %d stale reads; first: %v", n, firstBad.Load())
	}
	return "ok"
}

// ---------------------------------------------------------------- generator

var smallKeys = []string{"61", "62", "6161", "00", "ff", "e1", "6b", "7a"}
var smallVals = []string{"01", "02", "e", "aa55", "00", "ff", "0102030405"}

type genState struct {
	w        *kit.Out
	r        *kit.Rand
	keys     []string
	first    int // oldest retained version (0 = none)
	latest   int
	ver0     int // version slot 0 is at
	poisoned bool
	views    [3]bool
	handles  [3]bool
	allowBad bool // may open fast-on handles outside the trust contract (known finding)
	// big: more than one leaf. The model decides SaveVersion's "version already exists" branch on
	// key/value content where the code compares root hashes; for multi-node trees equal content can
	// hash differently (shape depends on history), so big cases never save from an older version.
	big bool
}

func (g *genState) key() string { return kit.Pick(g.r, g.keys) }
func (g *genState) val() string {
	if g.r.Chance(70) {
		return kit.Pick(g.r, smallVals)
	}
	return kit.Hex(g.r.Bytes(g.r.Range(1, 6)))
}
func (g *genState) anyVer() int {
	if g.latest == 0 {
		return g.r.Intn(3)
	}
	if g.r.Chance(6) {
		return g.r.Intn(g.latest + 3)
	}
	lo := g.first
	if lo < 1 {
		lo = 1
	}
	if g.r.Chance(40) {
		return g.latest
	}
	return g.r.Range(lo, g.latest)
}
func (g *genState) cache() int { return kit.Pick(g.r, []int{0, 1, 100, 10000}) }

// pick prefers a live slot.
func (g *genState) pick(live [3]bool) int {
	if g.r.Chance(92) {
		var c []int
		for i, b := range live {
			if b {
				c = append(c, i)
			}
		}
		if len(c) > 0 {
			return kit.Pick(g.r, c)
		}
	}
	return g.r.Intn(3)
}

func (g *genState) killAll() {
	g.handles, g.views, g.poisoned = [3]bool{}, [3]bool{}, false
}

func (g *genState) openWriter() {
	fast := 1
	if g.r.Chance(25) {
		fast = 0
	}
	mode, v := "load", 0
	switch x := g.r.Intn(100); {
	case g.big:
	case x < 10 && g.latest > 0:
		mode, v = "loadlv", g.anyVer()
		if v == 0 {
			v = 1
		}
	case x < 18 && (g.allowBad || fast == 0):
		mode, v = "lv", g.anyVer()
	case x < 22 && (g.allowBad || fast == 0):
		mode = "ro"
	}
	g.w.Op("open 0 %d %s %d 0 %d", fast, mode, v, g.cache())
	g.handles[0], g.poisoned = true, false
	g.ver0 = g.latest
	if (mode == "lv" || mode == "loadlv") && v != 0 {
		g.ver0 = v
	}
}

func (g *genState) reads(n int) {
	for ; n > 0; n-- {
		switch x := g.r.Intn(100); {
		case x < 35:
			g.w.Op("get %d %s", g.pick(g.handles), g.key())
		case x < 70:
			g.w.Op("getv %d %s %d", g.pick(g.handles), g.key(), g.anyVer())
		default:
			g.w.Op("vget %d %s", g.pick(g.views), g.key())
		}
	}
}

func (g *genState) step() {
	r, w := g.r, g.w
	if !g.handles[0] {
		g.openWriter()
		return
	}
	if g.poisoned && r.Chance(70) {
		w.Op("rollback 0")
		g.poisoned = false
		return
	}
	switch x := r.Intn(1000); {
	case x < 330:
		w.Op("set 0 %s %s", g.key(), g.val())
	case x < 420:
		w.Op("rm 0 %s", g.key())
	case x < 560:
		w.Op("save 0")
		if g.ver0 == g.latest {
			g.latest++
			g.ver0 = g.latest
			if g.first == 0 {
				g.first = g.latest
			}
		} else {
			g.poisoned = true // most likely "already exists with a different hash"
		}
		g.reads(r.Range(1, 5))
	case x < 580:
		w.Op("rollback 0")
		g.poisoned = false
	case x < 615:
		g.openWriter()
	case x < 700: // query-style handle
		slot := r.Range(1, 2)
		fast := 1
		if r.Chance(20) {
			fast = 0
		}
		mode, v, skew := "ro", 0, 0
		switch y := r.Intn(100); {
		case y < 25:
			mode = "load" // out of contract for a query path, guarded by ensureFastIndex
		case y < 35:
			mode, v = "lv", g.anyVer()
		}
		if r.Chance(25) {
			skew = r.Range(1, 2)
		}
		w.Op("open %d %d %s %d %d %d", slot, fast, mode, v, skew, g.cache())
		g.handles[slot] = true
	case x < 780:
		vs := r.Intn(3)
		w.Op("imm %d %d %d", g.pick(g.handles), vs, g.anyVer())
		g.views[vs] = true
	case x < 810:
		to := g.anyVer()
		if r.Chance(60) && g.latest > 1 {
			to = r.Range(g.first, g.latest-1)
		}
		w.Op("prune 0 %d", to)
		if !g.poisoned && to >= g.first && to < g.latest && to < g.ver0 {
			g.first = to + 1
		}
	case x < 825:
		w.Op("failsave 0")
		g.poisoned = true
	case x < 833:
		w.Op("crashsave")
		g.killAll()
	case x < 837:
		w.Op("crashprune %d", g.anyVer())
		g.killAll()
	case x < 847:
		w.Op("crashopen %d %d", r.Intn(2), r.Intn(3))
		g.killAll()
	case x < 859: // entries without a stamp: operator remediation / Import aborted inside dropFastIndex
		if r.Chance(45) {
			w.Op("delstamp")
		} else {
			w.Op("crashimport %d", r.Intn(4))
		}
		g.killAll()
		if r.Chance(85) { // the restart window: read-only / query views before any writer rebuild
			slot := r.Range(1, 2)
			w.Op("open %d 1 ro 0 0 %d", slot, g.cache())
			g.handles[slot] = true
			vs := r.Intn(3)
			w.Op("imm %d %d %d", slot, vs, g.latest)
			g.views[vs] = true
			for i := r.Range(2, 6); i > 0; i-- {
				if r.Chance(60) {
					w.Op("getv %d %s %d", slot, g.key(), g.latest)
				} else {
					w.Op("vget %d %s", vs, g.key())
				}
			}
		}
	case x < 880:
		w.Op("dump")
	default:
		g.reads(1)
	}
}

func script(w *kit.Out, r *kit.Rand, id string, n int, keys []string, allowBad bool) {
	w.Case(id)
	g := &genState{w: w, r: r, keys: keys, allowBad: allowBad, big: len(keys) > 30}
	for i := 0; i < n; i++ {
		g.step()
	}
	w.Op("dump")
	// final sweep: a read-only view of whatever is on disk now (stamp behind / missing included) ...
	w.Op("open 1 1 ro 0 0 100")
	w.Op("imm 1 0 %d", g.latest)
	for _, k := range keys {
		if len(keys) > 12 && r.Chance(70) {
			continue
		}
		w.Op("getv 1 %s %d", k, g.latest)
		w.Op("vget 0 %s", k)
	}
	// ... then an in-contract restart, and every key through every read path
	w.Op("open 0 1 load 0 0 100")
	for _, k := range keys {
		if len(keys) > 12 && r.Chance(70) {
			continue
		}
		w.Op("get 0 %s", k)
		w.Op("getv 0 %s %d", k, g.anyVer())
	}
}

func bigKeys(r *kit.Rand, n int) []string {
	seen := map[string]bool{}
	var out []string
	for len(out) < n {
		k := fmt.Sprintf("%02x%02x", 0x40+r.Intn(4), r.Intn(64))
		if !seen[k] {
			seen[k] = true
			out = append(out, k)
		}
	}
	sort.Strings(out)
	return out
}

func boundary(w *kit.Out) {
	lines := func(id string, ls ...string) {
		w.Case(id)
		for _, l := range ls {
			w.Op("%s", l)
		}
	}
	lines("b/empty-db",
		"dump", "get 0 61", "open 0 1 load 0 0 100", "dump", "get 0 61", "getv 0 61 0", "getv 0 61 1", "save 0", "dump",
		"get 0 61", "getv 0 61 1", "imm 0 0 1", "vget 0 61", "set 0 61 e", "get 0 61", "save 0", "get 0 61", "getv 0 61 2", "getv 0 61 1", "vget 0 61", "dump",
		"rm 0 61", "get 0 61", "save 0", "get 0 61", "getv 0 61 2", "getv 0 61 3", "dump")
	lines("b/set-remove-same-session",
		"open 0 1 load 0 0 0", "set 0 61 01", "rm 0 61", "get 0 61", "save 0", "dump", "set 0 61 01", "save 0", "rm 0 61", "set 0 61 02", "get 0 61", "save 0", "dump",
		"get 0 61", "getv 0 61 2", "getv 0 61 3", "rm 0 61", "rm 0 61", "save 0", "dump", "getv 0 61 3", "getv 0 61 4", "get 0 61")
	lines("b/nil-empty",
		"open 0 1 load 0 0 1", "set 0 - 01", "set 0 e 01", "set 0 61 -", "set 0 61 e", "get 0 61", "save 0", "get 0 61", "get 0 -", "get 0 e", "rm 0 -", "rm 0 e", "getv 0 e 1", "dump")
	lines("b/version-guard-old-snapshots",
		"open 0 1 load 0 0 100", "set 0 61 01", "set 0 62 01", "save 0", "imm 0 0 1", "set 0 61 02", "save 0", "imm 0 1 2", "rm 0 62", "save 0", "imm 0 2 3",
		"vget 0 61", "vget 0 62", "vget 1 61", "vget 1 62", "vget 2 61", "vget 2 62", "getv 0 61 1", "getv 0 61 2", "getv 0 61 3", "getv 0 62 2", "getv 0 62 3", "getv 0 62 4", "dump",
		"open 0 1 loadlv 1 0 100", "get 0 61", "get 0 62", "set 0 61 09", "get 0 61", "save 0", "get 0 61", "rollback 0", "get 0 61", "set 0 61 02", "save 0", "get 0 61", "get 0 62", "dump")
	lines("b/toggle-off-on-in-contract",
		"open 0 1 load 0 0 100", "set 0 61 01", "set 0 62 01", "set 0 63 01", "save 0", "open 0 0 load 0 0 100", "set 0 61 02", "rm 0 62", "save 0", "dump",
		"open 1 1 ro 0 0 100", "imm 1 0 2", "imm 1 1 1", "vget 0 61", "vget 0 62", "vget 1 61", "vget 1 62", "getv 1 61 2", "getv 1 62 2", "getv 1 61 1",
		"open 0 1 load 0 0 100", "dump", "get 0 61", "get 0 62", "get 0 63", "getv 0 61 1", "getv 0 62 1", "vget 0 61", "vget 1 62")
	lines("b/bare-loadversion-after-off-period", // the known finding
		"open 0 1 load 0 0 100", "set 0 6b 61", "save 0", "open 0 0 load 0 0 100", "set 0 6b 62", "save 0",
		"open 0 1 lv 2 0 100", "get 0 6b", "getv 0 6b 2", "getv 0 6b 1", "set 0 7a 7a", "save 0", "dump",
		"open 0 1 load 0 0 100", "get 0 6b", "getv 0 6b 3", "dump")
	lines("b/bare-readonly-working-get",
		"open 0 1 load 0 0 100", "set 0 6b 61", "save 0", "open 0 0 load 0 0 100", "set 0 6b 62", "save 0",
		"open 1 1 ro 0 0 100", "get 1 6b", "getv 1 6b 2", "imm 1 0 2", "vget 0 6b")
	lines("b/gno6011-load-toctou", // discoverVersions before commit N, stamp read after it
		"open 0 1 load 0 0 100", "set 0 61 01", "set 0 62 01", "save 0", "set 0 61 02", "save 0", "dump",
		"open 1 1 load 0 1 100", "dump", "get 1 61", "getv 1 61 1", "getv 1 61 2", "set 0 62 03", "save 0", "get 0 61", "get 0 62", "getv 0 61 3", "dump",
		"open 2 1 load 0 2 100", "open 2 1 ro 0 1 100", "imm 2 0 0", "get 2 61", "open 1 1 loadlv 1 1 100", "open 1 1 load 0 5 0", "get 1 61", "dump")
	lines("b/query-views-across-commits",
		"open 0 1 load 0 0 100", "set 0 61 01", "save 0", "open 1 1 ro 0 0 100", "imm 1 0 1", "set 0 61 02", "vget 0 61", "save 0", "vget 0 61", "getv 1 61 1", "getv 1 61 2",
		"rm 0 61", "save 0", "vget 0 61", "getv 1 61 3", "imm 1 1 3", "vget 1 61", "set 0 61 03", "save 0", "vget 1 61", "vget 0 61", "dump")
	lines("b/crash-points",
		"open 0 1 load 0 0 100", "set 0 61 01", "save 0", "set 0 61 02", "set 0 62 02", "crashsave", "get 0 61", "dump", "open 0 1 load 0 0 100", "get 0 61", "get 0 62",
		"open 0 0 load 0 0 100", "set 0 61 03", "save 0", "dump", "crashopen 1 0", "dump", "crashopen 1 1", "dump", "open 1 1 ro 0 0 100", "getv 1 61 1", "getv 1 61 2", "imm 1 0 2", "vget 0 61",
		"crashopen 1 2", "dump", "open 0 1 load 0 0 100", "get 0 61", "crashopen 0 0", "crashprune 1", "dump", "open 0 1 load 0 0 100", "prune 0 1", "dump", "get 0 61", "getv 0 61 1")
	lines("b/failed-write-and-poison",
		"open 0 1 load 0 0 100", "set 0 61 01", "save 0", "set 0 61 02", "failsave 0", "get 0 61", "set 0 62 01", "rm 0 61", "save 0", "getv 0 61 1", "dump", "rollback 0", "get 0 61",
		"set 0 61 03", "save 0", "get 0 61", "dump", "failsave 0", "save 0", "rollback 0", "save 0", "dump")
	lines("b/replay-and-exists",
		"open 0 1 load 0 0 100", "set 0 61 01", "save 0", "set 0 61 02", "save 0", "open 0 1 loadlv 1 0 100", "set 0 61 02", "save 0", "get 0 61", "dump",
		"open 0 1 loadlv 1 0 100", "set 0 61 07", "save 0", "get 0 61", "set 0 62 01", "rollback 0", "get 0 61", "save 0", "dump", "set 0 62 05", "save 0", "get 0 62", "get 0 61", "dump")
	lines("b/prune",
		"open 0 1 load 0 0 100", "set 0 61 01", "save 0", "set 0 61 02", "save 0", "set 0 62 01", "save 0", "imm 0 0 1", "imm 0 1 3", "open 1 1 ro 0 0 100", "open 2 1 lv 1 0 100",
		"prune 0 3", "prune 0 9", "set 0 63 01", "prune 0 1", "rollback 0", "prune 0 0", "prune 0 1", "vget 0 61", "vget 1 61", "get 1 61", "get 2 61", "getv 0 61 1", "getv 0 61 2", "dump",
		"prune 0 1", "prune 0 2", "dump", "get 0 61", "getv 0 61 3", "open 0 1 loadlv 2 0 100", "open 0 1 load 0 0 100", "get 0 62")
	off := []string{"open 0 1 load 0 0 100", "set 0 61 01", "set 0 62 01", "set 0 63 01", "save 0",
		"open 0 0 load 0 0 100", "set 0 61 02", "rm 0 62", "save 0", "dump"}
	roReads := []string{"dump", "open 1 1 ro 0 0 100", "getv 1 61 2", "getv 1 62 2", "getv 1 63 2", "getv 1 61 1", "getv 1 62 1",
		"imm 1 0 2", "vget 0 61", "vget 0 62", "vget 0 63", "imm 1 1 1", "vget 1 61", "vget 1 62",
		"open 2 1 lv 2 0 0", "getv 2 61 2", "getv 2 62 2", "imm 2 2 2", "vget 2 61", "vget 2 62",
		"open 0 0 load 0 0 100", "getv 0 61 2", "getv 0 62 2", "set 0 63 05", "save 0", "getv 1 63 3", "getv 1 61 3", "getv 1 62 3",
		"open 0 1 load 0 0 100", "dump", "get 0 61", "get 0 62", "get 0 63", "getv 0 61 2", "getv 0 62 2", "getv 1 61 3", "vget 0 61"}
	// stale 'F' entries on disk and NO stamp, read through every read-only route before any rebuild
	lines("b/missing-stamp/delstamp", append(append(append([]string{}, off...), "delstamp"), roReads...)...)
	for n := 0; n < 4; n++ {
		lines(fmt.Sprintf("b/missing-stamp/crashimport-%d", n),
			append(append(append([]string{}, off...), fmt.Sprintf("crashimport %d", n)), roReads...)...)
	}
	lines("b/missing-stamp/in-sync-index",
		"open 0 1 load 0 0 100", "set 0 61 01", "save 0", "set 0 61 02", "set 0 62 02", "save 0", "delstamp", "dump",
		"open 1 1 ro 0 0 100", "getv 1 61 2", "getv 1 61 1", "getv 1 62 1", "crashimport 1", "open 1 1 ro 0 0 100", "getv 1 61 2",
		"delstamp", "crashimport 0", "crashimport 9", "dump", "open 0 1 load 0 0 100", "dump", "get 0 61", "delstamp 1", "crashimport", "crashimport x")
	lines("b/slots-and-badops",
		"set 1 61 01", "rm 2 61", "save 1", "rollback 2", "prune 1 1", "failsave 2", "open 0 1 load 0 1 100", "open 3 1 load 0 0 100", "open 0 2 load 0 0 100", "open 0 1 loadlv 0 0 100",
		"open 0 1 bogus 0 0 100", "get 3 61", "vget 3 61", "imm 0 3 1", "imm 1 0 1", "vget 0 61", "getv 1 61 1", "open 1 1 lv 4 0 100", "get 1 61", "open 1 1 loadlv 4 0 100", "set 0 6 01", "set 0 6G 01",
		"set 0 61", "open 0 1 load 0 0 100000000", "stress 1", "crashopen 2 0", "crashsave 1", "dump 1")
}

func malformed(w *kit.Out, r *kit.Rand, n int) {
	w.Case("malformed")
	w.Op("open 0 1 load 0 0 100")
	toks := []string{"open", "set", "rm", "save", "failsave", "rollback", "prune", "get", "getv", "imm", "vget", "crashsave", "crashprune", "crashopen", "dump", "delstamp", "crashimport",
		"load", "ro", "lv", "loadlv", "0", "1", "2", "3", "-1", "00", "61", "6", "e", "-", "zz", "FF", "0x61", "12345678", "100", ""}
	for i := 0; i < n; i++ {
		k := r.Range(1, 7)
		var parts []string
		for j := 0; j < k; j++ {
			if t := kit.Pick(r, toks); t != "" {
				parts = append(parts, t)
			}
		}
		if len(parts) == 0 || strings.HasPrefix(parts[0], "#") {
			continue
		}
		w.Op("%s", strings.Join(parts, " "))
	}
	w.Op("dump")
}

func gen(w *kit.Out, r *kit.Rand, tier string) {
	boundary(w)
	nSmall, nBare, nBig, maxOps, nMal := 500, 40, 30, 90, 400
	if tier == "thorough" {
		nSmall, nBare, nBig, maxOps, nMal = 4000, 250, 200, 250, 3000
	}
	rs := r.Fork()
	for i := 0; i < nSmall; i++ {
		nk := rs.Range(2, len(smallKeys))
		script(w, rs, fmt.Sprintf("small-%d", i), rs.Range(5, maxOps), smallKeys[:nk], false)
	}
	rbad := r.Fork()
	for i := 0; i < nBare; i++ {
		script(w, rbad, fmt.Sprintf("bare-%d", i), rbad.Range(5, maxOps), smallKeys[:rbad.Range(2, 5)], true)
	}
	rb := r.Fork()
	for i := 0; i < nBig; i++ {
		script(w, rb, fmt.Sprintf("big-%d", i), rb.Range(maxOps, 3*maxOps), bigKeys(rb, rb.Range(40, 120)), false)
	}
	malformed(w, r.Fork(), nMal)
	if tier == "thorough" {
		rst := r.Fork()
		for i := 0; i < 3; i++ {
			w.Case(fmt.Sprintf("stress/%d", i))
			w.Op("stress %d %d", rst.Intn(1000000), 400)
		}
	}
}

func main() {
	kit.Main(&kit.Harness{Gen: gen, Reset: reset, Exec: exec})
}
