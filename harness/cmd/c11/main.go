// Harness for C11: the VM never crashes and stays within its resource limits.
//
// op lines
//
//	anew MAX GC | aalloc N | astr N | asurv K | areset | arecount N
//	    a script on the REAL gno.Allocator (gnovm/pkg/gnolang/alloc.go); GC=1 installs a
//	    collector that, like Machine.GarbageCollect, Reset()s and Recount()s the K
//	    surviving bytes and fails when they exceed the cap.
//	    output: b=<tracked bytes> | panic:limit | panic:limit-nogc | panic:overflow
//	    oracle (math/big): the tracked bytes never exceed the cap; Allocate panics iff the
//	    request does not fit after a collection; otherwise bytes = previous + size − released.
//	prog <MiniGo tokens> | kf <key> prog … | src <kind> <n> <gas> | raw <hex source> <gas>
//	    crash probes: the source is handled the way the VM keeper's Run handler does
//	    (validate, go/types, Machine with gas meter + allocation cap + preprocess allocator,
//	    RunMemPackage, main), in a CHILD PROCESS with a watchdog.
//	    output: allowed | crash:vm-panic | crash:runtime-error | crash:fatal | crash:resource
//	    (crash:resource = no result within the watchdog although the gas is bounded, or the
//	    live Go heap of the child grew by more than twice the 500 MB allocation cap)
//	    oracle: VIOL:internal-fault unless the ending is success, a validation/type error, a
//	    Gno panic, out of gas or the allocation limit.
package main

import (
	"bufio"
	"encoding/hex"
	"fmt"
	"io"
	"math/big"
	"os"
	"os/exec"
	"strconv"
	"strings"
	"time"

	gno "github.com/gnolang/gno/gnovm/pkg/gnolang"
	"gnoverif/kit"
	"gnoverif/minigo"
)

// ---------------------------------------------------------------- allocator scripts

type allocState struct {
	a    *gno.Allocator
	max  int64
	gc   bool
	surv int64
	dead bool
	// oracle shadow (independent arithmetic)
	obytes *big.Int
}

var A allocState

func resetAlloc() { A = allocState{} }

func status() string {
	_, b := A.a.Status()
	return "b=" + strconv.FormatInt(b, 10)
}

func panicClass(v any) string {
	s := fmt.Sprint(v)
	switch {
	case strings.Contains(s, "allocation limit exceeded (no GC)"):
		return "panic:limit-nogc"
	case strings.Contains(s, "allocation limit exceeded"):
		return "panic:limit"
	case strings.Contains(s, "overflow"):
		return "panic:overflow"
	}
	return "panic:other " + s
}

var maxI64 = new(big.Int).SetInt64(1<<63 - 1)

// oracleAlloc decides, with exact integers, what Allocate(size) must do.
func oracleAlloc(size int64) (wantPanic bool, newBytes *big.Int) {
	sum := new(big.Int).Add(A.obytes, big.NewInt(size))
	if sum.Cmp(maxI64) > 0 {
		return true, nil
	}
	if sum.Cmp(big.NewInt(A.max)) <= 0 {
		return false, sum
	}
	if !A.gc || A.surv > A.max {
		return true, nil
	}
	after := new(big.Int).Add(big.NewInt(A.surv), big.NewInt(size))
	if after.Cmp(big.NewInt(A.max)) > 0 {
		return true, nil
	}
	return false, after
}

func doAllocate(size int64, f func()) (out, orc string) {
	if A.a == nil {
		return "err:noalloc", "-"
	}
	if A.dead {
		return "err:dead", "-"
	}
	// the exact prediction is meaningful when a collection only releases (surv ≤ bytes) and size ≥ 0
	guarded := size >= 0 && A.surv >= 0 && big.NewInt(A.surv).Cmp(A.obytes) <= 0
	wantPanic, nb := oracleAlloc(size)
	panicked := false
	func() {
		defer func() {
			if v := recover(); v != nil {
				panicked = true
				out = panicClass(v)
				A.dead = true
			}
		}()
		f()
		out = status()
	}()
	_, b := A.a.Status()
	switch {
	case !panicked && b > A.max:
		orc = fmt.Sprintf("VIOL:alloc-over-cap bytes=%d max=%d", b, A.max)
	case !guarded:
		orc = "-"
	case panicked != wantPanic:
		orc = fmt.Sprintf("VIOL:alloc-panic-mismatch panicked=%v want=%v", panicked, wantPanic)
	case !panicked && nb.Cmp(big.NewInt(b)) != 0:
		orc = fmt.Sprintf("VIOL:alloc-accounting bytes=%d want=%s", b, nb)
	default:
		orc = "ok"
	}
	if !panicked {
		A.obytes = big.NewInt(b)
	}
	return
}

func execAlloc(t []string) (string, string) {
	num := func(s string) (int64, bool) {
		n, err := strconv.ParseInt(s, 10, 64)
		return n, err == nil
	}
	switch t[0] {
	case "anew":
		if len(t) != 3 {
			return "err:badop", "-"
		}
		m, ok := num(t[1])
		if !ok || m <= 0 {
			return "err:badop", "-"
		}
		A = allocState{a: gno.NewAllocator(m), max: m, gc: t[2] == "1", obytes: big.NewInt(0)}
		if A.gc {
			a := A.a
			a.SetGCFn(func() (int64, bool) {
				// what Machine.GarbageCollect does to the allocator: Reset, Recount every
				// reachable object, stop when the budget is exceeded
				a.Reset()
				a.Recount(A.surv)
				if A.surv > A.max {
					return -1, false
				}
				return A.max - A.surv, true
			})
		}
		return "b=0", "ok"
	case "aalloc":
		if len(t) != 2 {
			return "err:badop", "-"
		}
		n, ok := num(t[1])
		if !ok {
			return "err:badop", "-"
		}
		return doAllocate(n, func() { A.a.Allocate(n) })
	case "astr":
		if len(t) != 2 {
			return "err:badop", "-"
		}
		n, ok := num(t[1])
		if !ok {
			return "err:badop", "-"
		}
		if A.a == nil {
			return "err:noalloc", "-"
		}
		if A.dead {
			return "err:dead", "-"
		}
		if n > 1<<63-1-48 {
			// AllocateString's own size arithmetic overflows before Allocate
			out := ""
			func() {
				defer func() {
					if v := recover(); v != nil {
						out = panicClass(v)
						A.dead = true
					}
				}()
				A.a.AllocateString(n)
				out = status()
			}()
			return out, "-"
		}
		return doAllocate(48+n, func() { A.a.AllocateString(n) })
	case "asurv":
		if len(t) != 2 || A.a == nil {
			return "err:noalloc", "-"
		}
		if A.dead {
			return "err:dead", "-"
		}
		n, ok := num(t[1])
		if !ok {
			return "err:noalloc", "-"
		}
		A.surv = n
		return status(), "-"
	case "areset":
		if A.a == nil {
			return "err:noalloc", "-"
		}
		if A.dead {
			return "err:dead", "-"
		}
		A.a.Reset()
		A.obytes = big.NewInt(0)
		return status(), "ok"
	case "arecount":
		if len(t) != 2 || A.a == nil {
			return "err:noalloc", "-"
		}
		if A.dead {
			return "err:dead", "-"
		}
		n, ok := num(t[1])
		if !ok {
			return "err:noalloc", "-"
		}
		A.a.Recount(n)
		A.obytes.Add(A.obytes, big.NewInt(n))
		return status(), "-"
	}
	return "err:badop", "-"
}

// ---------------------------------------------------------------- crash probes (child process)

// probeSource rebuilds the source text of a probe line; ok=false for a malformed line.
func probeSource(t []string) (src string, gas int64, ok bool) {
	gas = 50_000_000
	switch t[0] {
	case "prog", "kf":
		toks := t
		if t[0] == "kf" {
			// pinned known-finding witness: `kf <key> prog …` or `kf <key> src …`
			if len(t) >= 4 && t[2] == "src" {
				return probeSource(t[2:])
			}
			if len(t) < 4 || t[2] != "prog" {
				return "", 0, false
			}
			toks = t[2:]
		}
		p, err := minigo.ParseProgram(toks[1:])
		if err != nil {
			return "", 0, false
		}
		u, err := minigo.SafeUnit(p, 0)
		if err != nil {
			return "", 0, false
		}
		return "package main\n\n" + u.Text + "\nfunc main() { " + u.Prefix + "run() }\n", gas, true
	case "src":
		if len(t) != 4 {
			return "", 0, false
		}
		n, err1 := strconv.Atoi(t[2])
		g, err2 := strconv.ParseInt(t[3], 10, 64)
		if err1 != nil || err2 != nil || g <= 0 {
			return "", 0, false
		}
		return minigo.PathologicalSource(t[1], n), g, true
	case "raw":
		if len(t) != 3 {
			return "", 0, false
		}
		b, err := kit.UnHex(t[1])
		g, err2 := strconv.ParseInt(t[2], 10, 64)
		if err != nil || err2 != nil || g <= 0 {
			return "", 0, false
		}
		return string(b), g, true
	}
	return "", 0, false
}

// childMain: one probe line per input line; answer `<class>\t<phase>\t<detail>`.
func childMain() {
	in := bufio.NewScanner(os.Stdin)
	in.Buffer(make([]byte, 1<<20), 1<<28)
	w := bufio.NewWriter(os.Stdout)
	pr := minigo.NewProber(minigo.RepoDir())
	limit := 300 * time.Second
	for in.Scan() {
		t := strings.Fields(in.Text())
		src, gas, ok := probeSource(t)
		if !ok {
			fmt.Fprintf(w, "badline\t-\t-\n")
			w.Flush()
			continue
		}
		r, finished := pr.ProbeTimed(src, gas, limit)
		fmt.Fprintf(w, "%s\t%s\t%s\n", r.Class, r.Phase, strings.ReplaceAll(r.Detail, "\t", " "))
		w.Flush()
		if !finished {
			os.Exit(3) // the stuck goroutine cannot be stopped
		}
	}
}

type probeOut struct{ class, phase, detail string }

// runProbes feeds the probe lines to child processes; a child that dies or
// hangs costs one line (crash:fatal / crash:hang) and is replaced.
func runProbes(lines []string) []probeOut {
	res := make([]probeOut, len(lines))
	next := 0
	self, _ := os.Executable()
	for next < len(lines) {
		cmd := exec.Command(self, "child")
		cmd.Env = append(os.Environ(), "GOMEMLIMIT=8GiB")
		stdin, _ := cmd.StdinPipe()
		stdout, _ := cmd.StdoutPipe()
		var errBuf strings.Builder
		cmd.Stderr = &tailWriter{b: &errBuf}
		if err := cmd.Start(); err != nil {
			for ; next < len(lines); next++ {
				res[next] = probeOut{"err:child", "-", err.Error()}
			}
			return res
		}
		rd := bufio.NewReaderSize(stdout, 1<<20)
		start := next
		go func() {
			for i := start; i < len(lines); i++ {
				io.WriteString(stdin, lines[i]+"\n")
			}
			stdin.Close()
		}()
		for next < len(lines) {
			l, err := rd.ReadString('\n')
			if err != nil {
				break
			}
			f := strings.SplitN(strings.TrimSuffix(l, "\n"), "\t", 3)
			for len(f) < 3 {
				f = append(f, "-")
			}
			res[next] = probeOut{f[0], f[1], f[2]}
			next++
		}
		werr := cmd.Wait()
		selfExit := next > start && res[next-1].class == "crash:resource"
		if next < len(lines) && !selfExit {
			// the child died while handling line `next`
			detail := "child exited"
			if werr != nil {
				detail = werr.Error()
			}
			tail := errBuf.String()
			if i := strings.Index(tail, "fatal error:"); i >= 0 {
				detail += ": " + firstLine(tail[i:])
			} else if i := strings.Index(tail, "panic:"); i >= 0 {
				detail += ": " + firstLine(tail[i:])
			}
			res[next] = probeOut{"crash:fatal", "?", detail}
			next++
		}
	}
	return res
}

type tailWriter struct{ b *strings.Builder }

func (t *tailWriter) Write(p []byte) (int, error) {
	if t.b.Len() < 1<<16 {
		t.b.Write(p)
	}
	return len(p), nil
}

func firstLine(s string) string {
	if i := strings.IndexByte(s, '\n'); i >= 0 {
		s = s[:i]
	}
	if len(s) > 200 {
		s = s[:200]
	}
	return s
}

// ---------------------------------------------------------------- exec

func isProbe(t []string) bool {
	return len(t) > 0 && (t[0] == "prog" || t[0] == "kf" || t[0] == "src" || t[0] == "raw")
}

func execAll() {
	in := bufio.NewScanner(os.Stdin)
	in.Buffer(make([]byte, 1<<20), 1<<28)
	var lines []string
	for in.Scan() {
		lines = append(lines, in.Text())
	}
	impl := make([]string, len(lines))
	orc := make([]string, len(lines))
	var probeIdx []int
	var probeLines []string
	for i, l := range lines {
		orc[i] = "-"
		if strings.HasPrefix(l, "#") {
			impl[i] = "#"
			resetAlloc()
			continue
		}
		t := strings.Fields(l)
		switch {
		case len(t) == 0:
			impl[i] = "err:badop"
		case isProbe(t):
			if _, _, ok := probeSource(t); !ok {
				impl[i] = "err:badop"
				continue
			}
			probeIdx = append(probeIdx, i)
			probeLines = append(probeLines, l)
		case strings.HasPrefix(t[0], "a"):
			impl[i], orc[i] = execAlloc(t)
		default:
			impl[i] = "err:badop"
		}
	}
	hist := map[string]int{}
	for k, r := range runProbes(probeLines) {
		i := probeIdx[k]
		hist[r.class+"@"+r.phase]++
		if strings.HasPrefix(r.class, "crash:") || r.class == "err:child" || r.class == "badline" {
			impl[i] = r.class
			orc[i] = "VIOL:internal-fault " + r.phase + ": " + r.detail
		} else {
			impl[i] = "allowed"
			orc[i] = "ok"
		}
		if os.Getenv("VERIF_TRACE") != "" {
			fmt.Fprintf(os.Stderr, "c11: line %d: %s @%s %s\n", i, r.class, r.phase, r.detail)
		}
	}
	if len(hist) > 0 {
		fmt.Fprintf(os.Stderr, "c11: probe endings: %v\n", hist)
	}
	w := bufio.NewWriterSize(os.Stdout, 1<<16)
	defer w.Flush()
	for i := range lines {
		w.WriteString(strings.ReplaceAll(impl[i], "\t", " "))
		w.WriteByte('\t')
		w.WriteString(strings.ReplaceAll(strings.ReplaceAll(orc[i], "\n", "\\n"), "\t", " "))
		w.WriteByte('\n')
	}
}

// ---------------------------------------------------------------- gen

func genAllocScripts(w *kit.Out, r *kit.Rand, n int) {
	// boundary table
	caps := []int64{1, 48, 100, 4096, 500_000_000, 1<<63 - 1}
	k := 0
	for _, mx := range caps {
		for _, gc := range []string{"0", "1"} {
			w.Case(fmt.Sprintf("alloc-b-%d", k))
			k++
			w.Op("anew %d %s", mx, gc)
			w.Op("aalloc 0")
			w.Op("aalloc %d", mx)
			w.Op("asurv 0")
			w.Op("aalloc 1")
			w.Op("aalloc %d", mx)
			w.Op("aalloc 1")
		}
	}
	w.Case("alloc-b-overflow")
	w.Op("anew %d 1", int64(1<<62))
	w.Op("aalloc %d", int64(1<<62))
	w.Op("aalloc %d", int64(1<<62))
	w.Case("alloc-b-str-overflow")
	w.Op("anew 1000 0")
	w.Op("astr %d", int64(1<<63-1))
	// structured random
	for c := 0; c < n; c++ {
		w.Case(fmt.Sprintf("alloc-%d", c))
		mx := int64(kit.Pick(r, []int{64, 100, 1000, 4096, 1 << 20}))
		gc := r.Chance(60)
		g := "0"
		if gc {
			g = "1"
		}
		w.Op("anew %d %s", mx, g)
		var bytes int64 // what we expect to be tracked, to keep most scripts alive
		for i, m := 0, 4+r.Intn(12); i < m; i++ {
			switch x := r.Intn(10); {
			case x < 5:
				sz := int64(r.Intn(int(mx/4) + 2))
				if r.Chance(10) {
					sz = mx - bytes + int64(r.Intn(3)) - 1
				}
				if sz < 0 {
					sz = 0
				}
				w.Op("aalloc %d", sz)
				bytes += sz
			case x < 7:
				w.Op("astr %d", r.Intn(int(mx/3)+1))
			case x < 9:
				// the collector keeps some part of what is tracked (sometimes, adversarially, more)
				s := int64(0)
				if bytes > 0 {
					s = int64(r.Intn(int(min(bytes, mx)) + 1))
				}
				if r.Chance(8) {
					s = mx + int64(r.Intn(5))
				}
				w.Op("asurv %d", s)
				if s < bytes {
					bytes = s
				}
			case x == 9 && r.Chance(30):
				w.Op("areset")
				bytes = 0
			default:
				w.Op("arecount %d", r.Intn(50))
			}
		}
	}
	// malformed
	w.Case("alloc-mal")
	w.Op("aalloc 5")
	w.Op("anew 0 1")
	w.Op("anew x 1")
	w.Op("anew 10 1")
	w.Op("aalloc x")
	w.Op("aalloc 100")
	w.Op("aalloc 1")
	w.Op("bogus 1")
}

func gen(w *kit.Out, r *kit.Rand, tier string) {
	thorough := tier == "thorough"
	nAlloc, nProg, nRaw := 40, 30, 30
	if thorough {
		nAlloc, nProg, nRaw = 600, 120, 120
	}
	genAllocScripts(w, r.Fork(), nAlloc)
	// C04's generated programs as probes
	rp := r.Fork()
	for k := 0; k < nProg; k++ {
		w.Case(fmt.Sprintf("prog-%d", k))
		w.Op("prog %s", minigo.RandomProgram(rp.Fork()).SExp())
	}
	// pathological sources: every family at a small and a larger size; sweeps in thorough
	rs := r.Fork()
	gasQuick := int64(3_000_000)
	if thorough {
		gasQuick = 30_000_000
	}
	for _, kind := range minigo.SourceKinds {
		sizes := []int{1 + rs.Intn(8), 40 + rs.Intn(200)}
		if thorough {
			sizes = append(sizes, 1000+rs.Intn(3000))
			if rs.Chance(50) {
				sizes = append(sizes, 20000+rs.Intn(20000))
			}
		}
		for _, n := range sizes {
			gas := gasQuick
			if thorough && rs.Chance(25) {
				// well below the 3e9 block maximum: the watchdog (150 s) must stay far
				// from what a gas-bounded run can take on a loaded machine
				gas = 150_000_000
			}
			switch kind {
			case "const-string-double":
				// kept below the go/types blow-up (known finding typecheck-const-string-blowup:
				// N=22 already costs most of a minute of unmetered type-checking)
				if n > 14 {
					n = 8 + rs.Intn(7)
				}
			case "big-const-square":
				if n > 30 {
					n = 12 + rs.Intn(12)
				}
			case "string-double":
				if n > 40 {
					n = 24 + rs.Intn(16)
				}
			case "alloc-make", "alloc-make-byte", "sparse-lit", "sparse-arr", "huge-array-type":
				n = 1 << uint(10+rs.Intn(45))
			case "many-vars", "many-cases", "many-args", "big-struct":
				if n > 5000 {
					n = 5000
				}
			case "recursion-defer":
				// known finding defer-panic-recursion-memory: time and untracked memory grow
				// quadratically with the gas; the pinned witness is in the corpus
				gas = min(gas, 3_000_000)
			case "recover-loop":
				// same defect family (a panic raised inside a deferred call keeps the whole
				// chain: time and memory quadratic in the depth, gas linear): n=2000 already
				// takes most of a minute for 28M gas
				n = min(n, 300)
			}
			w.Case(fmt.Sprintf("src-%s-%d", kind, n))
			w.Op("src %s %d %d", kind, n, gas)
		}
	}
	// raw byte strings: random bytes, truncations and token mutations of valid programs
	rr := r.Fork()
	for k := 0; k < nRaw; k++ {
		w.Case(fmt.Sprintf("raw-%d", k))
		base := "package main\n\n" + minigo.MakeUnit(minigo.RandomProgram(rr.Fork()), 0).Text + "\nfunc main() { P0_run() }\n"
		var src []byte
		switch rr.Intn(6) {
		case 0:
			src = rr.Bytes(1 + rr.Intn(200))
		case 1:
			src = []byte(base[:rr.Intn(len(base))])
		case 2: // delete a run of bytes
			i := rr.Intn(len(base))
			j := min(len(base), i+1+rr.Intn(12))
			src = []byte(base[:i] + base[j:])
		case 3: // swap two tokens
			f := strings.Fields(base)
			if len(f) > 4 {
				a, b := 2+rr.Intn(len(f)-2), 2+rr.Intn(len(f)-2)
				f[a], f[b] = f[b], f[a]
			}
			src = []byte(strings.Join(f, " "))
		case 4: // duplicate a line
			ls := strings.Split(base, "\n")
			i := rr.Intn(len(ls))
			ls = append(ls[:i+1], ls[i:]...)
			src = []byte(strings.Join(ls, "\n"))
		default: // flip one byte
			b := []byte(base)
			b[rr.Intn(len(b))] = byte(rr.Intn(256))
			src = b
		}
		w.Op("raw %s %d", hex.EncodeToString(src), gasQuick)
	}
	w.Case("mal")
	w.Op("frob")
	w.Op("alloc 5")
}

func main() {
	if len(os.Args) > 1 && os.Args[1] == "exec" {
		execAll()
		return
	}
	if len(os.Args) > 1 && os.Args[1] == "child" {
		childMain()
		return
	}
	if len(os.Args) > 1 && os.Args[1] == "show" {
		// debugging aid: print the source of the probe lines on stdin
		in := bufio.NewScanner(os.Stdin)
		in.Buffer(make([]byte, 1<<20), 1<<28)
		for in.Scan() {
			if src, _, ok := probeSource(strings.Fields(in.Text())); ok {
				fmt.Println(src)
				fmt.Println("// ----")
			}
		}
		return
	}
	kit.Main(&kit.Harness{Gen: gen})
}
