// Harness for C45: bech32 as gno uses it.
//
// Real code under test (in-process):
//
//	tm2/pkg/bech32.ConvertAndEncode / DecodeAndConvert   (wrapper over btcutil/bech32)
//	tm2/pkg/crypto.AddressFromBech32                     (prefix + length checks)
//	btcutil/bech32.ConvertBits                           (what the wrapper calls, all parameters)
//
// op lines (every string as hex, `e` = empty):
//
//	enc  <hrp> <payload>           -> ok <string> | err:<class>
//	dec  <string>                  -> ok <hrp> <payload> | err:<class>
//	addr <string>                  -> ok <20 bytes> | err:<class>
//	sub  <string> <idx> <byte>     -> <dec of string> | <dec of string with byte idx replaced>
//	cvt  <from> <to> <0|1> <data>  -> ok <bytes> | err:<class>
//
// Oracle: a from-scratch BIP-173 reference (ref* below: the BIP's reference
// algorithm, checksum constant 1 only, accumulator-style convertbits) that
// never calls btcutil, plus the round-trip and single-substitution predicates
// of the property statement evaluated on the real implementation's outputs.
package main

import (
	"errors"
	"fmt"
	"strings"

	btc "github.com/btcsuite/btcd/btcutil/bech32"
	"github.com/gnolang/gno/tm2/pkg/bech32"
	"github.com/gnolang/gno/tm2/pkg/crypto"
	"gnoverif/kit"
)

// ------------------------------------------------------------------ reference BIP-173 (independent)

const refAlphabet = "qpzry9x8gf2tvdw0s3jn54khce6mua7l"

var refGen = [5]uint32{0x3b6a57b2, 0x26508e6d, 0x1ea119fa, 0x3d4233dd, 0x2a1462b3}

const refBech32mConst = 0x2bc830a3

func refPolymod(values []int) uint32 {
	chk := uint32(1)
	for _, v := range values {
		top := chk >> 25
		chk = (chk&0x1ffffff)<<5 ^ uint32(v)
		for i := 0; i < 5; i++ {
			if (top>>uint(i))&1 != 0 {
				chk ^= refGen[i]
			}
		}
	}
	return chk
}

func refHrpExpand(hrp string) []int {
	out := make([]int, 0, 2*len(hrp)+1)
	for i := 0; i < len(hrp); i++ {
		out = append(out, int(hrp[i])>>5)
	}
	out = append(out, 0)
	for i := 0; i < len(hrp); i++ {
		out = append(out, int(hrp[i])&31)
	}
	return out
}

func refCreateChecksum(hrp string, data []int) []int {
	values := append(refHrpExpand(hrp), data...)
	values = append(values, 0, 0, 0, 0, 0, 0)
	pm := refPolymod(values) ^ 1
	out := make([]int, 6)
	for i := 0; i < 6; i++ {
		out[i] = int(pm>>uint(5*(5-i))) & 31
	}
	return out
}

// refConvertBits is the BIP-173 reference `convertbits` (accumulator form).
func refConvertBits(data []int, from, to uint, pad bool) ([]int, bool) {
	acc, bits := 0, uint(0)
	var ret []int
	maxv := (1 << to) - 1
	maxAcc := (1 << (from + to - 1)) - 1
	for _, v := range data {
		if v < 0 || v>>from != 0 {
			return nil, false
		}
		acc = ((acc << from) | v) & maxAcc
		bits += from
		for bits >= to {
			bits -= to
			ret = append(ret, (acc>>bits)&maxv)
		}
	}
	if pad {
		if bits > 0 {
			ret = append(ret, (acc<<(to-bits))&maxv)
		}
	} else if bits >= from || (acc<<(to-bits))&maxv != 0 {
		return nil, false
	}
	return ret, true
}

func isUp(c byte) bool { return c >= 'A' && c <= 'Z' }
func isLo(c byte) bool { return c >= 'a' && c <= 'z' }
func lowerByte(c byte) byte {
	if isUp(c) {
		return c + 32
	}
	return c
}
func asciiLower(s string) string {
	b := []byte(s)
	for i := range b {
		b[i] = lowerByte(b[i])
	}
	return string(b)
}

// refValidHrp: what a prefix must satisfy for the round trip to return it
// unchanged: non-empty, printable US-ASCII 33..126, no upper-case letter.
func refValidHrp(hrp string, allowUpper bool) bool {
	if len(hrp) == 0 {
		return false
	}
	for i := 0; i < len(hrp); i++ {
		c := hrp[i]
		if c < 33 || c > 126 || (!allowUpper && isUp(c)) {
			return false
		}
	}
	return true
}

func refEncode(hrp string, payload []byte) string {
	in := make([]int, len(payload))
	for i, b := range payload {
		in[i] = int(b)
	}
	d5, _ := refConvertBits(in, 8, 5, true)
	hrp = asciiLower(hrp)
	cs := refCreateChecksum(hrp, d5)
	var sb strings.Builder
	sb.WriteString(hrp)
	sb.WriteByte('1')
	for _, v := range append(d5, cs...) {
		sb.WriteByte(refAlphabet[v])
	}
	return sb.String()
}

// refEncodeConst: same, but with an arbitrary final constant (1 = bech32).
func refEncodeConst(hrp string, payload []byte, c uint32) string {
	in := make([]int, len(payload))
	for i, b := range payload {
		in[i] = int(b)
	}
	d5, _ := refConvertBits(in, 8, 5, true)
	hrp = asciiLower(hrp)
	values := append(refHrpExpand(hrp), d5...)
	values = append(values, 0, 0, 0, 0, 0, 0)
	pm := refPolymod(values) ^ c
	var sb strings.Builder
	sb.WriteString(hrp)
	sb.WriteByte('1')
	for _, v := range d5 {
		sb.WriteByte(refAlphabet[v])
	}
	for i := 0; i < 6; i++ {
		sb.WriteByte(refAlphabet[int(pm>>uint(5*(5-i)))&31])
	}
	return sb.String()
}

type refResult struct {
	ok      bool
	hrp     string
	payload []byte
	pm      uint32 // final polymod when the string parsed up to the checksum test, else 0
	parsed  bool
	sepIdx  int
}

// refDecode: BIP-173 decoding rules without the 90-character limit (gno
// deliberately uses the no-limit variant: gpub… keys are longer) followed by
// the 5→8 regrouping the wrapper performs.
func refDecode(s string) (r refResult) {
	r.sepIdx = -1
	lo, up := false, false
	for i := 0; i < len(s); i++ {
		c := s[i]
		if c < 33 || c > 126 {
			return
		}
		lo = lo || isLo(c)
		up = up || isUp(c)
	}
	if lo && up {
		return
	}
	s = asciiLower(s)
	pos := strings.LastIndexByte(s, '1')
	r.sepIdx = pos
	if pos < 1 || pos+7 > len(s) {
		return
	}
	hrp := s[:pos]
	var data []int
	for i := pos + 1; i < len(s); i++ {
		d := strings.IndexByte(refAlphabet, s[i])
		if d < 0 {
			return
		}
		data = append(data, d)
	}
	r.parsed = true
	r.pm = refPolymod(append(refHrpExpand(hrp), data...))
	if r.pm != 1 {
		return
	}
	d8, ok := refConvertBits(data[:len(data)-6], 5, 8, false)
	if !ok {
		return
	}
	r.ok = true
	r.hrp = hrp
	r.payload = make([]byte, len(d8))
	for i, v := range d8 {
		r.payload[i] = byte(v)
	}
	return
}

// ------------------------------------------------------------------ real code

func errClass(err error) string {
	var (
		e1 btc.ErrInvalidLength
		e2 btc.ErrInvalidCharacter
		e3 btc.ErrMixedCase
		e4 btc.ErrInvalidSeparatorIndex
		e5 btc.ErrNonCharsetChar
		e6 btc.ErrInvalidChecksum
		e7 btc.ErrInvalidIncompleteGroup
		e8 btc.ErrInvalidDataByte
		e9 btc.ErrInvalidBitGroups
	)
	switch {
	case errors.As(err, &e1):
		return "err:length"
	case errors.As(err, &e2):
		return "err:char"
	case errors.As(err, &e3):
		return "err:mixed"
	case errors.As(err, &e4):
		return "err:sep"
	case errors.As(err, &e5):
		return "err:charset"
	case errors.As(err, &e6):
		return "err:checksum"
	case errors.As(err, &e7):
		return "err:padding"
	case errors.As(err, &e8):
		return "err:databyte"
	case errors.As(err, &e9):
		return "err:bitgroups"
	}
	msg := err.Error()
	switch {
	case strings.HasPrefix(msg, "decoding Bech32 failed: must provide"):
		return "err:empty"
	case strings.HasPrefix(msg, "invalid Bech32 prefix"):
		return "err:prefix"
	case strings.HasPrefix(msg, "unexpected address byte length"):
		return "err:addrlen"
	}
	return "err:unknown"
}

type decRes struct {
	ok      bool
	hrp     string
	payload []byte
	out     string
}

func implDecode(s string) decRes {
	hrp, bz, err := bech32.DecodeAndConvert(s)
	if err != nil {
		return decRes{out: errClass(err)}
	}
	return decRes{ok: true, hrp: hrp, payload: bz, out: "ok " + short([]byte(hrp)) + " " + short(bz)}
}

// short prints a byte string as hex, or as #<len>.<fnv1a-64> when longer than 48 bytes
// (the kit truncates output lines at 300 characters).
func short(b []byte) string {
	if len(b) <= 48 {
		return kit.Hex(nonNil(b))
	}
	h := uint64(0xcbf29ce484222325)
	for _, c := range b {
		h ^= uint64(c)
		h *= 0x100000001b3
	}
	return fmt.Sprintf("#%d.%016x", len(b), h)
}

func nonNil(b []byte) []byte {
	if b == nil {
		return []byte{}
	}
	return b
}

func sameDec(a decRes, r refResult) bool {
	return a.ok == r.ok && (!a.ok || (a.hrp == r.hrp && string(a.payload) == string(r.payload)))
}

// verdict for "the implementation decoded s as a, the BIP-173 reference says r".
func decVerdict(s string, a decRes, r refResult) string {
	switch {
	case a.ok && !r.ok:
		if r.parsed && r.pm == refBech32mConst {
			return fmt.Sprintf("VIOL:bech32m-accepted %q has no valid BIP-173 checksum (final polymod is the bech32m constant 0x2bc830a3, not 1) but decodes to hrp=%q payload=%x", s, a.hrp, a.payload)
		}
		return fmt.Sprintf("VIOL:accepts-invalid %q is rejected by the BIP-173 reference but decodes to hrp=%q payload=%x", s, a.hrp, a.payload)
	case !a.ok && r.ok:
		return fmt.Sprintf("VIOL:rejects-valid %q is valid BIP-173 (hrp=%q payload=%x) but decoding fails with %s", s, r.hrp, r.payload, a.out)
	case a.ok && !sameDec(a, r):
		return fmt.Sprintf("VIOL:decode-mismatch %q: got hrp=%q payload=%x, reference hrp=%q payload=%x", s, a.hrp, a.payload, r.hrp, r.payload)
	}
	return "ok"
}

func exec(t []string) (string, string) {
	if len(t) == 0 {
		return "err:badop", "-"
	}
	switch t[0] {
	case "enc":
		if len(t) != 3 {
			return "err:badop", "-"
		}
		hb, e1 := kit.UnHex(t[1])
		p, e2 := kit.UnHex(t[2])
		if e1 != nil || e2 != nil {
			return "err:badop", "-"
		}
		hrp := string(hb)
		for i := 0; i < len(hrp); i++ {
			if hrp[i] >= 0x80 {
				return "err:domain", "-"
			}
		}
		s, err := bech32.ConvertAndEncode(hrp, p)
		strict := refValidHrp(hrp, false) // non-empty, printable, no upper-case letter
		if err != nil {
			if strict {
				return errClass(err), fmt.Sprintf("VIOL:encode-fails hrp=%q payload=%x: %v", hrp, p, err)
			}
			return errClass(err), "-"
		}
		out := "ok " + short([]byte(s))
		if !refValidHrp(hrp, true) {
			return out, "-"
		}
		if want := refEncode(hrp, p); strict && s != want {
			return out, fmt.Sprintf("VIOL:encode-mismatch hrp=%q payload=%x: got %q, BIP-173 reference %q", hrp, p, s, want)
		}
		// round trip on the real implementation.  For a valid prefix the same prefix must come
		// back; a printable prefix with upper-case letters is lower-cased by the encoder, so
		// there the prefix is compared ignoring case (whether such a prefix is "valid" is not
		// for this oracle to decide).
		back := implDecode(s)
		if !back.ok || string(back.payload) != string(p) ||
			(strict && back.hrp != hrp) || (!strict && asciiLower(back.hrp) != asciiLower(hrp)) {
			return out, fmt.Sprintf("VIOL:roundtrip hrp=%q payload=%x encodes to %q which decodes to %s", hrp, p, s, back.out)
		}
		return out, "ok"
	case "dec":
		if len(t) != 2 {
			return "err:badop", "-"
		}
		sb, err := kit.UnHex(t[1])
		if err != nil {
			return "err:badop", "-"
		}
		s := string(sb)
		a := implDecode(s)
		return a.out, decVerdict(s, a, refDecode(s))
	case "addr":
		if len(t) != 2 {
			return "err:badop", "-"
		}
		sb, err := kit.UnHex(t[1])
		if err != nil {
			return "err:badop", "-"
		}
		s := string(sb)
		addr, aerr := crypto.AddressFromBech32(s)
		r := refDecode(s)
		want := r.ok && r.hrp == "g" && len(r.payload) == 20
		if aerr != nil {
			if want {
				return errClass(aerr), fmt.Sprintf("VIOL:rejects-valid address %q is a valid g1 address but is rejected: %v", s, aerr)
			}
			return errClass(aerr), "ok"
		}
		out := "ok " + kit.Hex(addr[:])
		if !want {
			if r.parsed && r.pm == refBech32mConst {
				return out, fmt.Sprintf("VIOL:bech32m-accepted address %q carries the bech32m checksum, not a BIP-173 one, but is accepted as %x", s, addr[:])
			}
			return out, fmt.Sprintf("VIOL:accepts-invalid address %q is not a valid g1 address but is accepted as %x", s, addr[:])
		}
		if string(addr[:]) != string(r.payload) {
			return out, fmt.Sprintf("VIOL:decode-mismatch address %q: got %x want %x", s, addr[:], r.payload)
		}
		return out, "ok"
	case "sub":
		if len(t) != 4 {
			return "err:badop", "-"
		}
		sb, e1 := kit.UnHex(t[1])
		cb, e2 := kit.UnHex(t[3])
		idx, ok := atoi(t[2])
		if e1 != nil || e2 != nil || !ok || len(cb) != 1 || idx >= len(sb) {
			return "err:badop", "-"
		}
		s := string(sb)
		mb := append([]byte{}, sb...)
		mb[idx] = cb[0]
		m := string(mb)
		a, b := implDecode(s), implDecode(m)
		out := a.out + " | " + b.out
		if !a.ok || m == s {
			return out, "-"
		}
		if lowerByte(cb[0]) == lowerByte(sb[idx]) {
			// only the case of one letter changed: bech32 is case-insensitive, so this is the
			// same string as far as BIP-173 is concerned; it must be rejected (mixed case) or
			// decode to exactly the same value.
			if b.ok && (b.hrp != a.hrp || string(b.payload) != string(a.payload)) {
				return out, fmt.Sprintf("VIOL:case-substitution-differs %q -> %q decodes differently", s, m)
			}
			return out, "ok"
		}
		if !b.ok {
			return out, "ok"
		}
		ra, rb := refDecode(s), refDecode(m)
		switch {
		case ra.parsed && rb.parsed && ra.pm != rb.pm:
			return out, fmt.Sprintf("VIOL:bech32m-accepted %q and its single-character substitution %q are both accepted (one checksums to 1, the other to the bech32m constant)", s, m)
		case idx <= ra.sepIdx && ra.sepIdx >= 1022:
			return out, fmt.Sprintf("VIOL:long-hrp-substitution-accepted a valid string with a %d-character prefix stays valid when byte %d (%q) is replaced by %q", ra.sepIdx, idx, sb[idx], cb[0])
		}
		return out, fmt.Sprintf("VIOL:substitution-accepted %q is valid and so is its single-character substitution %q", s, m)
	case "cvt":
		if len(t) != 5 {
			return "err:badop", "-"
		}
		from, ok1 := atoi(t[1])
		to, ok2 := atoi(t[2])
		d, err := kit.UnHex(t[4])
		if !ok1 || !ok2 || from > 255 || to > 255 || err != nil || (t[3] != "0" && t[3] != "1") {
			return "err:badop", "-"
		}
		pad := t[3] == "1"
		got, cerr := btc.ConvertBits(d, uint8(from), uint8(to), pad)
		out := ""
		if cerr != nil {
			out = errClass(cerr)
		} else {
			out = "ok " + short(got)
		}
		if from < 1 || from > 8 || to < 1 || to > 8 {
			if cerr == nil {
				return out, "VIOL:cvt-accepts-bad-groups"
			}
			return out, "ok"
		}
		in := make([]int, len(d))
		for i, b := range d {
			if int(b)>>uint(from) != 0 {
				return out, "-" // reference rejects over-wide inputs; btcutil masks them — no verdict
			}
			in[i] = int(b)
		}
		if !pad && from != 5 {
			// btcutil hard-codes "incomplete group must be <= 4 bits" (the 5→8 case gno uses);
			// the BIP reference says "< fromBits".  They coincide exactly for fromBits = 5.
			return out, "-"
		}
		want, wok := refConvertBits(in, uint(from), uint(to), pad)
		if wok != (cerr == nil) {
			return out, fmt.Sprintf("VIOL:cvt-mismatch %v: reference ok=%v, implementation %s", t, wok, out)
		}
		if wok {
			if len(want) != len(got) {
				return out, fmt.Sprintf("VIOL:cvt-mismatch %v: reference %v, implementation %v", t, want, got)
			}
			for i := range want {
				if want[i] != int(got[i]) {
					return out, fmt.Sprintf("VIOL:cvt-mismatch %v: reference %v, implementation %v", t, want, got)
				}
			}
		}
		return out, "ok"
	}
	return "err:badop", "-"
}

func atoi(s string) (int, bool) {
	if s == "" || len(s) > 9 {
		return 0, false
	}
	n := 0
	for i := 0; i < len(s); i++ {
		if s[i] < '0' || s[i] > '9' {
			return 0, false
		}
		n = n*10 + int(s[i]-'0')
	}
	return n, true
}

// ------------------------------------------------------------------ generator

func hx(s string) string { return kit.Hex([]byte(s)) }

const printable = "!\"#$%&'()*+,-./0123456789:;<=>?@ABCDEFGHIJKLMNOPQRSTUVWXYZ[\\]^_`abcdefghijklmnopqrstuvwxyz{|}~"

func randHrp(r *kit.Rand, allowUpper bool) string {
	var n int
	switch r.Intn(10) {
	case 0:
		n = 1
	case 1:
		n = 83
	case 2:
		n = r.Range(60, 83)
	default:
		n = r.Range(1, 12)
	}
	b := make([]byte, n)
	mode := r.Intn(10)
	for i := range b {
		switch {
		case mode < 6:
			b[i] = byte('a' + r.Intn(26))
		case mode < 8:
			b[i] = "0123456789abcdefghijklmnopqrstuvwxyz1111"[r.Intn(40)]
		default:
			for {
				c := byte(33 + r.Intn(94))
				if allowUpper || !isUp(c) {
					b[i] = c
					break
				}
			}
		}
	}
	if r.Chance(10) {
		b[r.Intn(n)] = 33
	}
	if r.Chance(10) {
		b[r.Intn(n)] = 126
	}
	return string(b)
}

func randPayload(r *kit.Rand) []byte {
	switch r.Intn(8) {
	case 0:
		return r.Bytes(20)
	case 1:
		return r.Bytes(r.Range(0, 4))
	case 2:
		n := r.Range(0, 64)
		b := make([]byte, n)
		v := kit.Pick(r, []byte{0, 0xff, 0x80, 0x01})
		for i := range b {
			b[i] = v
		}
		return b
	}
	return r.Bytes(r.Range(0, 64))
}

func subByte(r *kit.Rand, s string, idx int) byte {
	switch r.Intn(10) {
	case 0:
		return byte(r.U64()) // anything, including non-ASCII and control bytes
	case 1:
		return printable[r.Intn(len(printable))]
	case 2:
		c := s[idx]
		if isLo(c) {
			return c - 32
		}
		if isUp(c) {
			return c + 32
		}
		return refAlphabet[r.Intn(32)]
	case 3:
		return strings.ToUpper(refAlphabet)[r.Intn(32)]
	}
	return refAlphabet[r.Intn(32)]
}

// mutate emits ops that decode damaged versions of the valid string s.
func mutate(w *kit.Out, r *kit.Rand, s string) {
	n := len(s)
	b := []byte(s)
	switch r.Intn(12) {
	case 0, 1, 2, 3: // single substitution, biased to the data part
		idx := r.Intn(n)
		if one := strings.LastIndexByte(s, '1'); r.Chance(70) && one+1 < n {
			idx = one + 1 + r.Intn(n-one-1)
		}
		w.Op("sub %s %d %02x", hx(s), idx, subByte(r, s, idx))
	case 4: // two or three substitutions
		k := r.Range(2, 3)
		for j := 0; j < k; j++ {
			b[r.Intn(n)] = refAlphabet[r.Intn(32)]
		}
		w.Op("dec %s", hx(string(b)))
	case 5: // insert
		idx := r.Intn(n + 1)
		c := refAlphabet[r.Intn(32)]
		if r.Chance(20) {
			c = printable[r.Intn(len(printable))]
		}
		w.Op("dec %s", hx(s[:idx]+string(c)+s[idx:]))
	case 6: // delete
		idx := r.Intn(n)
		w.Op("dec %s", hx(s[:idx]+s[idx+1:]))
	case 7: // swap adjacent
		if n >= 2 {
			idx := r.Intn(n - 1)
			b[idx], b[idx+1] = b[idx+1], b[idx]
		}
		w.Op("dec %s", hx(string(b)))
	case 8: // case flip of one letter or of everything
		if r.Bool() {
			w.Op("dec %s", hx(strings.ToUpper(s)))
		} else {
			idx := r.Intn(n)
			if isLo(b[idx]) {
				b[idx] -= 32
			}
			w.Op("sub %s %d %02x", hx(s), idx, b[idx])
		}
	case 9: // truncate / extend
		if r.Bool() {
			w.Op("dec %s", hx(s[:r.Intn(n)]))
		} else {
			w.Op("dec %s", hx(s+string(refAlphabet[r.Intn(32)])))
		}
	case 10: // as an address
		w.Op("addr %s", hx(s))
	case 11: // separator games
		switch r.Intn(3) {
		case 0:
			w.Op("dec %s", hx(strings.Replace(s, "1", "", 1)))
		case 1:
			idx := r.Intn(n)
			w.Op("sub %s %d 31", hx(s), idx)
		default:
			w.Op("dec %s", hx("1"+s))
		}
	}
}

func boundary(w *kit.Out) {
	w.Case("boundary/roundtrip-lengths")
	pay := make([]byte, 64)
	for i := range pay {
		pay[i] = byte(i*37 + 11)
	}
	hrps := []string{"g", "gpub", "!", "~", "!~", "1", "11", "a1b", "A", "Gno", "0", "?", strings.Repeat("x", 83),
		"!" + strings.Repeat("~", 81) + "!", strings.Repeat("1", 83), "~" + strings.Repeat("a", 82)}
	for n := 0; n <= 64; n++ {
		for _, h := range hrps {
			if n > 8 && n != 20 && n != 32 && n != 33 && n != 64 && h != "g" && len(h) != 83 {
				continue
			}
			w.Op("enc %s %s", hx(h), kit.Hex(pay[:n]))
			w.Op("dec %s", hx(refEncode(h, pay[:n])))
		}
	}
	w.Case("boundary/hrp-length")
	for n := 1; n <= 83; n++ {
		h := strings.Repeat("k", n)
		w.Op("enc %s %s", hx(h), kit.Hex(pay[:20]))
		w.Op("dec %s", hx(refEncode(h, pay[:20])))
	}
	for c := 33; c <= 126; c++ {
		w.Op("enc %02x %s", c, kit.Hex(pay[:3]))
		w.Op("dec %s", hx(refEncode(string([]byte{byte(c)}), pay[:3])))
	}
	w.Case("boundary/bad-hrp")
	for _, h := range []string{"", " ", "\x00", "\x7f", "a b", "\x20a", "a\x1f", "\x80", "é", "G\xff"} {
		w.Op("enc %s %s", kit.Hex([]byte(h)), kit.Hex(pay[:5]))
	}
	w.Case("boundary/bip173-vectors")
	for _, s := range []string{
		// valid (BIP-173)
		"A12UEL5L", "a12uel5l", "an83characterlonghumanreadablepartthatcontainsthenumber1andtheexcludedcharactersbio1tt5tgs",
		"abcdef1qpzry9x8gf2tvdw0s3jn54khce6mua7lmqqqxw", "11qqqqqqqqqqqqqqqqqqqqqqqqqqqqqqqqqqqqqqqqqqqqqqqqqqqqqqqqqqqqqqqqqqqqqqqqqqqqqqqqqqc8247j",
		"split1checkupstagehandshakeupstreamerranterredcaperred2y9e3w", "?1ezyfcl",
		// invalid (BIP-173)
		"\x201nwldj5", "\x7f1axkwrx", "\x801eym55h", "an84characterslonghumanreadablepartthatcontainsthenumber1andtheexcludedcharactersbio1569pvx",
		"pzry9x0s0muk", "1pzry9x0s0muk", "x1b4n0q5v", "li1dgmt3", "de1lg7wt\xff", "A1G7SGD8", "10a06t8", "1qzzfhee",
		// length / separator edges
		"", "1", "a1", "a1qqqqq", "a1qqqqqq", "a12uel5", "12uel5l", "a2uel5l", "aa2uel5l", "a12uel5l1", "a1a12uel5l",
		"a12UEL5L", "A12uel5l", "a12uel5L", "a12uel5b", "a12uel5i", "a12uel5o", "a12uel5 ", "a12ue\x005l",
		"Aa\x00aaaaaa", "a\x00Aaaaaaa", "aA\x00aaaaaa",
	} {
		w.Op("dec %s", hx(s))
	}
	w.Case("boundary/addr")
	a20 := pay[:20]
	for _, s := range []string{
		refEncode("g", a20), strings.ToUpper(refEncode("g", a20)), refEncode("G", a20), refEncode("g", pay[:19]),
		refEncode("g", pay[:21]), refEncode("g", nil), refEncode("gg", a20), refEncode("gpub", a20), refEncode("cosmos", a20),
		"", "g", "g1", "g1jg8mtutu9khhfwc4nxmuhcpftf0pajdhfvsqf5", "g1jg8mtutu9khhfwc4nxmuhcpftf0pajdhfvsqf6",
	} {
		w.Op("addr %s", hx(s))
	}
	w.Case("boundary/cvt")
	datas := [][]byte{{}, {0}, {0xff}, {0xff, 0xff, 0xff, 0xff, 0xff}, {0x01, 0x80, 0x7f, 0xaa, 0x55, 0x00}, {31, 31, 31, 31, 31, 31, 31, 31}, {1, 0}, {31, 16}, {31, 8}}
	for from := 0; from <= 9; from++ {
		for to := 0; to <= 9; to++ {
			for pad := 0; pad <= 1; pad++ {
				for _, d := range datas {
					w.Op("cvt %d %d %d %s", from, to, pad, kit.Hex(d))
				}
			}
		}
	}
	w.Op("cvt 255 5 1 00")
	w.Op("cvt 8 255 0 00")
	w.Case("boundary/all-substitutions")
	s := refEncode("g", a20)
	for i := 0; i < len(s); i++ {
		for j := 0; j < 32; j++ {
			if refAlphabet[j] != s[i] {
				w.Op("sub %s %d %02x", hx(s), i, refAlphabet[j])
			}
		}
		w.Op("sub %s %d 31", hx(s), i)
		w.Op("sub %s %d %02x", hx(s), i, strings.ToUpper(s)[i])
	}
	// single-letter strings: the one case-only substitution that is NOT rejected
	w.Case("boundary/single-letter")
	for _, h := range []string{"265", "289", "328"} {
		s := refEncode(h, nil)
		for i := 0; i < len(s); i++ {
			if isLo(s[i]) {
				w.Op("sub %s %d %02x", hx(s), i, s[i]-32)
			}
		}
		w.Op("dec %s", hx(strings.ToUpper(s)))
	}
}

func gen(w *kit.Out, r *kit.Rand, tier string) {
	boundary(w)
	nRand, nAll, nGarb := 2500, 4, 3000
	if tier == "thorough" {
		nRand, nAll, nGarb = 30000, 25, 30000
	}
	// ---- structured random: round trips and mutations of valid strings
	rr := r.Fork()
	for i := 0; i < nRand; i++ {
		if i%50 == 0 {
			w.Case(fmt.Sprintf("random/%d", i))
		}
		hrp := randHrp(rr, rr.Chance(15))
		p := randPayload(rr)
		if rr.Chance(25) {
			hrp = "g"
			if rr.Chance(70) {
				p = rr.Bytes(20)
			}
		}
		w.Op("enc %s %s", hx(hrp), kit.Hex(p))
		s := refEncode(hrp, p)
		if rr.Chance(10) {
			s = strings.ToUpper(s)
		}
		w.Op("dec %s", hx(s))
		k := rr.Range(1, 4)
		for j := 0; j < k; j++ {
			mutate(w, rr, s)
		}
		if rr.Chance(10) {
			w.Op("cvt %d %d %d %s", rr.Range(1, 8), rr.Range(1, 8), rr.Intn(2), kit.Hex(rr.Bytes(rr.Range(0, 12))))
		}
		if rr.Chance(5) {
			w.Op("cvt 5 8 0 %s", kit.Hex(maskBytes(rr.Bytes(rr.Range(0, 40)), 31)))
		}
	}
	// ---- every single substitution of a few random valid strings
	ra := r.Fork()
	for i := 0; i < nAll; i++ {
		w.Case(fmt.Sprintf("allsub/%d", i))
		hrp := randHrp(ra, false)
		if len(hrp) > 20 {
			hrp = hrp[:20]
		}
		s := refEncode(hrp, randPayload(ra))
		if ra.Chance(15) {
			s = strings.ToUpper(s)
		}
		for idx := 0; idx < len(s); idx++ {
			for j := 0; j < 32; j++ {
				c := refAlphabet[j]
				if isUp(s[idx]) || (ra.Chance(5)) {
					c = lowerToUpper(c)
				}
				if c != s[idx] {
					w.Op("sub %s %d %02x", hx(s), idx, c)
				}
			}
		}
	}
	// ---- malformed stream
	rg := r.Fork()
	w.Case("garbage")
	for i := 0; i < nGarb; i++ {
		if i%500 == 499 {
			w.Case(fmt.Sprintf("garbage/%d", i))
		}
		var s []byte
		n := rg.Range(0, 100)
		switch rg.Intn(6) {
		case 0:
			s = rg.Bytes(n)
		case 1:
			s = make([]byte, n)
			for j := range s {
				s[j] = printable[rg.Intn(len(printable))]
			}
		case 2: // hrp + 1 + random charset characters (checksum almost surely wrong)
			s = []byte(randHrp(rg, false) + "1")
			for j := 0; j < n; j++ {
				s = append(s, refAlphabet[rg.Intn(32)])
			}
		case 3: // charset characters only, no separator
			s = make([]byte, n)
			for j := range s {
				s[j] = refAlphabet[rg.Intn(32)]
			}
		case 4: // valid checksum over 5-bit data whose regrouping to bytes may fail (padding rules)
			hrp := randHrp(rg, false)
			k := rg.Range(0, 20)
			d5 := make([]int, k)
			for j := range d5 {
				d5[j] = rg.Intn(32)
			}
			cs := refCreateChecksum(hrp, d5)
			s = []byte(hrp + "1")
			for _, v := range append(d5, cs...) {
				s = append(s, refAlphabet[v])
			}
		case 5: // the same payload under the OTHER checksum constant (bech32m) or a random one
			c := uint32(refBech32mConst)
			if rg.Chance(70) {
				c = uint32(rg.U64()) & 0x3fffffff
			}
			s = []byte(refEncodeConst(randHrp(rg, false), randPayload(rg), c))
		}
		if rg.Chance(15) {
			w.Op("addr %s", kit.Hex(nonNil(s)))
		} else {
			w.Op("dec %s", kit.Hex(nonNil(s)))
		}
	}
}

func lowerToUpper(c byte) byte {
	if isLo(c) {
		return c - 32
	}
	return c
}

func maskBytes(b []byte, m byte) []byte {
	for i := range b {
		b[i] &= m
	}
	return b
}

func main() {
	kit.Main(&kit.Harness{
		Gen:   gen,
		Reset: func() {},
		Exec:  exec,
		PanicOracle: func(toks []string, v any) (string, string) {
			return "panic:" + fmt.Sprint(v), fmt.Sprintf("VIOL:panic %v panicked: %v", toks, v)
		},
	})
}
