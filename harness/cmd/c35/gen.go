package main

import (
	"fmt"
	"strings"

	"github.com/gnolang/gno/tm2/pkg/bft/types"
	"gnoverif/kit"
)

// ---------------------------------------------------------------- generator

var powerTable = [][]int64{
	{1}, {7}, {1, 1}, {2, 1}, {1, 2}, {1, 1, 1}, {3, 3, 3}, {2, 2, 2}, {1, 1, 1, 1}, {1, 2, 3, 4}, {4, 3, 2, 1},
	{10, 1, 1, 1},       // one validator above 2/3
	{5, 3, 2, 2},        // one above 1/3
	{1, 1, 1, 1, 1},     // total 5: quorum 4
	{1, 1, 1, 1, 1, 1},  // total 6: 4 is exactly 2/3 (not enough), 5 is
	{3, 2, 2, 1, 1},     // total 9: 6 exactly 2/3
	{2, 2, 1, 1},        // total 6
	{100, 99, 1},        // 100+... boundary
	{6, 1, 1, 1},        // 6/9 exactly 2/3: not a quorum alone
	{7, 1, 1, 1},        // 7/10 > 2/3 alone
	{types.MaxTotalVotingPower - 3, 1, 1, 1},
	{types.MaxTotalVotingPower / 3, types.MaxTotalVotingPower / 3, types.MaxTotalVotingPower / 3},
}

func newLine(typ string, p []int64) string {
	s := make([]string, len(p))
	for i, x := range p {
		s[i] = fmt.Sprint(x)
	}
	return "new " + typ + " " + strings.Join(s, " ")
}

// scripted scenarios over a 4-validator set; %T is replaced by the type.
var scenarios = [][]string{
	// plain quorum, in order and then duplicates
	{"vote 0 A ok", "vote 1 A ok", "vote 2 A ok", "vote 3 A ok", "vote 0 A ok", "vote 3 A ok"},
	// the stray precommit: validator 3 precommits B, the others A
	{"vote 3 B ok", "vote 0 A ok", "vote 1 A ok", "vote 2 A ok"},
	// nil-block majority
	{"vote 0 nil ok", "vote 1 nil ok", "vote 2 nil ok", "vote 3 A ok"},
	// conflicting vote dropped (no peer claim), then resubmitted after the majority formed (late replacement)
	{"vote 0 B ok", "vote 0 A ok", "vote 1 A ok", "vote 2 A ok", "vote 3 A ok", "vote 0 A ok", "vote 0 A ok", "vote 0 A dupsig2"},
	// conflicting vote tracked because a peer claimed the block before
	{"peermaj 1 A", "vote 0 B ok", "vote 0 A ok", "vote 1 A ok", "vote 2 A ok", "vote 0 A ok"},
	// peer claim after the conflicting vote was dropped
	{"vote 0 B ok", "vote 0 A ok", "peermaj 1 A", "vote 0 A ok", "vote 1 A ok", "vote 2 A ok"},
	// two blocks both reach +2/3 through double signing; the first stays
	{"peermaj 1 A", "peermaj 2 B", "vote 0 A ok", "vote 1 A ok", "vote 2 A ok", "vote 0 B ok", "vote 1 B ok", "vote 2 B ok", "vote 3 B ok"},
	// peer claims: repeated, conflicting by the same peer, same block by two peers
	{"peermaj 1 A", "peermaj 1 A", "peermaj 1 B", "peermaj 2 A", "peermaj 2 nil", "vote 0 A ok"},
	// every malformed kind, alone and before/after a valid vote
	{"vote 0 A badsig", "vote 0 A wrongheight", "vote 0 A wronground", "vote 0 A wrongtype", "vote 0 A wrongaddr", "vote 4 A ok", "vote -1 A ok", "vote 0 A as1", "nilvote",
		"vote 0 A ok", "vote 0 A badsig", "vote 0 A dupsig2", "vote 0 A badsig,dupsig2", "vote 0 B badsig", "vote 0 B wrongheight"},
	// order of checks: several defects at once
	{"vote -1 A wrongheight", "vote 9 A wrongheight", "vote 9 A wrongaddr", "vote 1 A wrongaddr,wrongheight", "vote 1 A wrongaddr,badsig", "vote 1 A as0,badsig", "vote -3 A wrongaddr,badsig,wrongtype"},
	// non-deterministic signature on a vote that is only in votesByBlock (tracked conflicting vote)
	{"peermaj 1 B", "vote 0 A ok", "vote 0 B ok", "vote 0 B dupsig2", "vote 0 B ok", "vote 0 A dupsig2"},
	// two different BlockIDs with the same Key()
	{"vote 0 X ok", "vote 0 Y ok", "vote 1 Y ok", "vote 2 X ok", "vote 3 X ok"},
	{"vote 0 X ok", "vote 1 Y ok", "vote 2 Y ok"},
	{"peermaj 1 X", "peermaj 1 Y", "peermaj 2 Y", "vote 0 A ok", "vote 0 Y ok"},
}

func gen(o *kit.Out, r *kit.Rand, tier string) {
	// kit.NewRand(seed) for consecutive seeds yields one splitmix stream shifted by one draw;
	// re-seeding from a mixed output makes VERIF_SEED=1,2,3 explore different cases.
	r = kit.NewRand(r.U64() ^ 0xC35C35C35C35C35)
	thorough := tier == "thorough"
	id := 0
	nextCase := func(tag string) {
		id++
		o.Case(fmt.Sprintf("%s-%d", tag, id))
	}
	// ---- (i) boundary table
	for _, typ := range []string{"precommit", "prevote"} {
		for _, sc := range scenarios {
			for _, p := range [][]int64{{1, 1, 1, 1}, {1, 2, 3, 4}, {3, 1, 1, 1}} {
				nextCase("scen")
				o.Op("%s", newLine(typ, p))
				for _, l := range sc {
					o.Op("%s", l)
				}
			}
		}
	}
	// every power table entry: all validators vote A in order, then in reverse order for B with a peer claim
	for _, p := range powerTable {
		n := len(p)
		nextCase("pow-fwd")
		o.Op("%s", newLine("precommit", p))
		for i := 0; i < n; i++ {
			o.Op("vote %d A ok", i)
		}
		nextCase("pow-rev")
		o.Op("%s", newLine("precommit", p))
		for i := n - 1; i >= 0; i-- {
			o.Op("vote %d nil ok", i)
		}
		nextCase("pow-split")
		o.Op("%s", newLine("prevote", p))
		o.Op("peermaj 0 B")
		for i := 0; i < n; i++ {
			o.Op("vote %d %s ok", i, []string{"A", "B"}[i%2])
		}
		for i := 0; i < n; i++ {
			o.Op("vote %d B ok", i)
		}
	}
	// small exhaustive: 3 validators, every sequence of 4 votes over {A,B} (with and without a peer claim on B)
	if thorough {
		opts := []string{}
		for i := 0; i < 3; i++ {
			for _, b := range []string{"A", "B"} {
				opts = append(opts, fmt.Sprintf("vote %d %s ok", i, b))
			}
		}
		for _, pre := range []string{"", "peermaj 0 B"} {
			for a := 0; a < len(opts); a++ {
				for b := 0; b < len(opts); b++ {
					for c := 0; c < len(opts); c++ {
						for d := 0; d < len(opts); d++ {
							nextCase("exh")
							o.Op("new precommit 2 1 1")
							if pre != "" {
								o.Op("%s", pre)
							}
							o.Op("%s", opts[a])
							o.Op("%s", opts[b])
							o.Op("%s", opts[c])
							o.Op("%s", opts[d])
						}
					}
				}
			}
		}
	}
	// ---- (ii) structured random, mostly valid
	nRand := 1500
	maxN := 5
	if thorough {
		nRand = 12000
		maxN = 7
	}
	for c := 0; c < nRand; c++ {
		nextCase("rnd")
		genRandomCase(o, r.Fork(), maxN, false)
	}
	// ---- (iii) malformed stream
	nBad := 200
	if thorough {
		nBad = 1500
	}
	for c := 0; c < nBad; c++ {
		nextCase("bad")
		genRandomCase(o, r.Fork(), maxN, true)
	}
}

func randPowers(r *kit.Rand, maxN int) []int64 {
	n := r.Range(1, maxN)
	p := make([]int64, n)
	switch r.Intn(6) {
	case 0: // equal
		x := int64(r.Range(1, 5))
		for i := range p {
			p[i] = x
		}
	case 1: // small unequal
		for i := range p {
			p[i] = int64(r.Range(1, 6))
		}
	case 2: // one above 2/3
		s := int64(0)
		for i := range p {
			p[i] = int64(r.Range(1, 4))
			s += p[i]
		}
		k := r.Intn(n)
		s -= p[k]
		p[k] = 2*s + int64(r.Range(0, 2)) // 2s is exactly 2/3 of 3s: boundary; 2s+1, 2s+2 above
		if p[k] == 0 {
			p[k] = 1
		}
	case 3: // one above 1/3
		s := int64(0)
		for i := range p {
			p[i] = int64(r.Range(1, 4))
			s += p[i]
		}
		k := r.Intn(n)
		s -= p[k]
		p[k] = s/2 + int64(r.Range(0, 2))
		if p[k] == 0 {
			p[k] = 1
		}
	case 4: // wide
		for i := range p {
			p[i] = int64(r.Range(1, 1000))
		}
	default: // huge
		for i := range p {
			p[i] = types.MaxTotalVotingPower/int64(n) - int64(r.Intn(3))
		}
	}
	return p
}

func genRandomCase(o *kit.Out, r *kit.Rand, maxN int, malformed bool) {
	p := randPowers(r, maxN)
	n := len(p)
	typ := "precommit"
	if r.Chance(25) {
		typ = "prevote"
	}
	o.Op("%s", newLine(typ, p))
	blocks := []string{"A", "B", "nil", "C"}
	main := kit.Pick(r, []string{"A", "A", "B", "nil"})
	// a fraction of the cases plays with the colliding pair
	if r.Chance(4) {
		blocks = []string{"X", "Y", "A"}
		main = kit.Pick(r, []string{"X", "Y"})
	}
	conflictPct := kit.Pick(r, []int{0, 5, 15, 40})
	nEv := r.Range(1, 40)
	var hist []string
	for e := 0; e < nEv; e++ {
		x := r.Intn(100)
		if malformed {
			x = 60 + r.Intn(40)
		}
		var line string
		switch {
		case x < 62: // valid vote, mostly for the main block
			b := main
			if r.Chance(conflictPct + 10) {
				b = kit.Pick(r, blocks)
			}
			fl := "ok"
			if r.Chance(4) {
				fl = "dupsig2"
			}
			line = fmt.Sprintf("vote %d %s %s", r.Intn(n), b, fl)
		case x < 72: // replay of an earlier line (duplicates, repeated claims)
			if len(hist) > 0 {
				line = kit.Pick(r, hist)
			} else {
				line = fmt.Sprintf("vote %d %s ok", r.Intn(n), main)
			}
		case x < 82: // peer claim
			line = fmt.Sprintf("peermaj %d %s", r.Intn(4), kit.Pick(r, blocks))
		case x < 96: // one malformed vote
			fls := []string{"badsig", "wrongheight", "wronground", "wrongtype", "wrongaddr", fmt.Sprintf("as%d", r.Intn(n)), "badsig,dupsig2"}
			fl := kit.Pick(r, fls)
			if r.Chance(25) {
				fl += "," + kit.Pick(r, fls)
			}
			idx := r.Intn(n)
			if r.Chance(25) {
				idx = kit.Pick(r, []int{-1, -2, n, n + 1, 100})
				if r.Chance(40) {
					fl = "ok"
				}
			}
			line = fmt.Sprintf("vote %d %s %s", idx, kit.Pick(r, blocks), fl)
		case x < 98:
			line = "nilvote"
		default: // syntactically bad op lines
			line = kit.Pick(r, []string{"vote", "vote 0 A", "vote 0 Q ok", "vote x A ok", "vote 0 A bogus", "peermaj 1", "peermaj -1 A", "peermaj 1 Q", "frob 1 2", "vote 0 A as9", "nilvote 1", "vote 00 A ok", "vote 0 A ok,"})
		}
		hist = append(hist, line)
		o.Op("%s", line)
	}
}
