// Harness for C35: vote sets track quorums exactly (tm2/pkg/bft/types/vote_set.go).
//
// The REAL types.VoteSet is driven in-process with real ed25519 validators
// (deterministic keys, types.NewMockPVWithPrivKey) and real signatures.
//
// op lines (one case = `new` followed by events):
//
//	new <prevote|precommit> <power0> <power1> ...     validator i (index in address order) has power_i
//	vote <valIdx> <block> <flags>                     flags: comma list of
//	      ok | badsig | wrongheight | wronground | wrongtype | wrongaddr | dupsig2 | as<j>
//	      (valIdx is any integer: -1 and >= n exercise the index checks;
//	       as<j> = signed by validator j with j's address but carrying ValidatorIndex valIdx;
//	       dupsig2 = same vote signed with another timestamp: a second VALID signature)
//	nilvote                                           AddVote(nil)
//	peermaj <peer> <block>                            SetPeerMaj23
//
// block tokens: nil (zero BlockID), A..F (complete BlockIDs), X and Y (two
// DIFFERENT BlockIDs, each passing BlockID.ValidateBasic, with the same
// BlockID.Key()).
//
// output (after EVERY event the whole observable state is printed):
//
//	<result> maj=<tok|-> any=<t|f> all=<t|f> votes=<tok.sig|-,...> by=<tok:bits|tok:-;...> commit=<tok[e0,e1,..]|panic:class>
//	result: ok:added | ok:dup | err:<class>:<added 0|1>        (vote)
//	        ok | err:peerconflict                              (peermaj)
//
// oracle: recounts from its own log of accepted votes (plain maps, math/big)
// and evaluates every clause of the C35 statement.
package main

import (
	"encoding/hex"
	"errors"
	"fmt"
	"math/big"
	"sort"
	"strconv"
	"strings"
	"time"

	"github.com/gnolang/gno/tm2/pkg/amino"
	"github.com/gnolang/gno/tm2/pkg/bft/types"
	"github.com/gnolang/gno/tm2/pkg/crypto"
	"github.com/gnolang/gno/tm2/pkg/crypto/ed25519"
	"gnoverif/kit"
)

const (
	chainID  = "c35-chain"
	height   = int64(5)
	round    = 2
	poolSize = 8
	maxVals  = 8
)

type keyT struct {
	pv   types.PrivValidator
	addr crypto.Address
}

var (
	pool     []keyT // sorted by address, so pool[0:n] is already in validator-set order
	foreign  crypto.Address
	blockIDs = map[string]types.BlockID{}
	blockTok = []string{"nil", "A", "B", "C", "D", "E", "F", "X", "Y"}
	t0       = time.Date(2024, 1, 2, 3, 4, 5, 0, time.UTC)
	t1       = time.Date(2024, 1, 2, 3, 4, 6, 0, time.UTC)
	sigCache = map[string][]byte{}
)

func fill(b byte) []byte {
	out := make([]byte, 32)
	for i := range out {
		out[i] = b
	}
	return out
}

func init() {
	for i := 0; i < poolSize; i++ {
		pv := types.NewMockPVWithPrivKey(ed25519.GenPrivKeyFromSecret([]byte(fmt.Sprintf("c35-validator-%d", i))))
		pool = append(pool, keyT{pv, pv.PubKey().Address()})
	}
	sort.Slice(pool, func(i, j int) bool {
		return strings.Compare(string(pool[i].addr[:]), string(pool[j].addr[:])) < 0
	})
	foreign = ed25519.GenPrivKeyFromSecret([]byte("c35-foreign")).PubKey().Address()
	blockIDs["nil"] = types.BlockID{}
	for i, t := range []string{"A", "B", "C", "D", "E", "F"} {
		blockIDs[t] = types.BlockID{Hash: fill(byte(0xA0 + i)), PartsHeader: types.PartSetHeader{Total: i + 1, Hash: fill(byte(0xB0 + i))}}
	}
	// Y: empty block hash, parts header {Total:0, Hash:h}; Key(Y) = amino(PartsHeader) = 34 bytes.
	// X: Hash = first 32 bytes of Key(Y), parts header = the PartSetHeader whose amino encoding is the last 2 bytes.
	const tot = 3
	tail, err := amino.Marshal(types.PartSetHeader{Total: tot})
	if err != nil || len(tail) != 2 {
		panic(fmt.Sprintf("c35: unexpected amino encoding of PartSetHeader{Total:%d}: %x %v", tot, tail, err))
	}
	h := fill(0xC7)
	copy(h[30:], tail)
	y := types.BlockID{PartsHeader: types.PartSetHeader{Total: 0, Hash: h}}
	ky := []byte(y.Key())
	if len(ky) != 34 {
		panic(fmt.Sprintf("c35: unexpected key length %d", len(ky)))
	}
	x := types.BlockID{Hash: append([]byte{}, ky[:32]...), PartsHeader: types.PartSetHeader{Total: tot}}
	blockIDs["X"], blockIDs["Y"] = x, y
	// the pair must really be what the case claims: two different, individually valid BlockIDs with one Key
	if x.Equals(y) || x.Key() != y.Key() || x.ValidateBasic() != nil || y.ValidateBasic() != nil {
		panic(fmt.Sprintf("c35: X/Y are not a colliding valid pair: equals=%v samekey=%v vbX=%v vbY=%v",
			x.Equals(y), x.Key() == y.Key(), x.ValidateBasic(), y.ValidateBasic()))
	}
	for _, t := range []string{"nil", "A", "B", "C", "D", "E", "F"} {
		for _, u := range blockTok {
			if t != u && blockIDs[t].Key() == blockIDs[u].Key() {
				panic("c35: unexpected key collision " + t + "/" + u)
			}
		}
	}
}

func tokOf(b types.BlockID) string {
	for _, t := range blockTok {
		if blockIDs[t].Equals(b) {
			return t
		}
	}
	return "?"
}

// ---------------------------------------------------------------- world

type subm struct { // a submitted vote as the oracle remembers it
	val int
	tok string
	sig int
}

type world struct {
	n      int
	powers []int64
	total  *big.Int
	typ    types.SignedMsgType
	vs     *types.VoteSet
	sigTok map[string]subm // hex(signature) -> what it signs

	// oracle log
	accepted  []map[string]int // per validator: block token -> sig id of the vote AddVote reported as added
	wellSub   map[subm]bool    // well-formed votes submitted so far (val, tok, sig)
	wellPair  map[[2]string]bool
	firstMaj  string
	peerClaim map[string]bool
}

var w *world

func reset() { w = nil }

func errClass(err error) string {
	var ce *types.VoteConflictingVotesError
	switch {
	case errors.As(err, &ce):
		return "conflict"
	case errors.Is(err, types.ErrVoteNil):
		return "nil"
	case errors.Is(err, types.ErrVoteInvalidValidatorIndex):
		return "index"
	case errors.Is(err, types.ErrVoteInvalidValidatorAddress):
		return "addr"
	case errors.Is(err, types.ErrVoteUnexpectedStep):
		return "step"
	case errors.Is(err, types.ErrVoteNonDeterministicSignature):
		return "nondet"
	case errors.Is(err, types.ErrVoteInvalidSignature):
		return "sig"
	}
	return "other"
}

func (w *world) bitsOf(tok string) string {
	ba := w.vs.BitArrayByBlockID(blockIDs[tok])
	if ba == nil {
		return "-"
	}
	var sb strings.Builder
	for i := 0; i < w.n; i++ {
		if ba.GetIndex(i) {
			sb.WriteByte('1')
		} else {
			sb.WriteByte('0')
		}
	}
	return sb.String()
}

type commitView struct {
	panicClass string
	block      string
	entries    []*subm // nil = absent
	unknown    bool
}

func (w *world) commit() (cv commitView) {
	defer func() {
		if v := recover(); v != nil {
			s := fmt.Sprint(v)
			switch {
			case strings.Contains(s, "PrecommitType"):
				cv = commitView{panicClass: "commit-type"}
			case strings.Contains(s, "+2/3"):
				cv = commitView{panicClass: "commit-nomaj"}
			default:
				cv = commitView{panicClass: "other"}
			}
		}
	}()
	c := w.vs.MakeCommit()
	cv.block = tokOf(c.BlockID)
	for _, p := range c.Precommits {
		if p == nil {
			cv.entries = append(cv.entries, nil)
			continue
		}
		s, ok := w.sigTok[hex.EncodeToString(p.Signature)]
		if !ok || !blockIDs[s.tok].Equals(p.BlockID) || p.ValidatorIndex != s.val {
			cv.unknown = true
			s = subm{val: -1, tok: "?", sig: 0}
		}
		s2 := s
		cv.entries = append(cv.entries, &s2)
	}
	return cv
}

func (w *world) observe() (string, commitView, string, bool) {
	maj := "-"
	if b, ok := w.vs.TwoThirdsMajority(); ok {
		maj = tokOf(b)
	}
	if w.vs.HasTwoThirdsMajority() != (maj != "-") {
		maj += "!inconsistent"
	}
	tf := func(b bool) string {
		if b {
			return "t"
		}
		return "f"
	}
	anyB := w.vs.HasTwoThirdsAny()
	var vts []string
	for i := 0; i < w.n; i++ {
		v := w.vs.GetByIndex(i)
		if v == nil {
			vts = append(vts, "-")
			continue
		}
		s, ok := w.sigTok[hex.EncodeToString(v.Signature)]
		if !ok {
			vts = append(vts, "?")
			continue
		}
		vts = append(vts, fmt.Sprintf("%s.%d", s.tok, s.sig))
	}
	var by []string
	for _, t := range blockTok {
		by = append(by, t+":"+w.bitsOf(t))
	}
	cv := w.commit()
	cs := ""
	if cv.panicClass != "" {
		cs = "panic:" + cv.panicClass
	} else {
		var es []string
		for _, e := range cv.entries {
			if e == nil {
				es = append(es, "-")
			} else {
				es = append(es, fmt.Sprintf("%s.%d", e.tok, e.sig))
			}
		}
		cs = cv.block + "[" + strings.Join(es, ",") + "]"
	}
	out := fmt.Sprintf("maj=%s any=%s all=%s votes=%s by=%s commit=%s",
		maj, tf(anyB), tf(w.vs.HasAll()), strings.Join(vts, ","), strings.Join(by, ";"), cs)
	return out, cv, maj, anyB
}

// ---------------------------------------------------------------- oracle

func (w *world) gt23(x *big.Int) bool { // 3x > 2*total
	a := new(big.Int).Mul(x, big.NewInt(3))
	b := new(big.Int).Mul(w.total, big.NewInt(2))
	return a.Cmp(b) > 0
}

func (w *world) counted(tok string) *big.Int {
	s := new(big.Int)
	for i := 0; i < w.n; i++ {
		if _, ok := w.accepted[i][tok]; ok {
			s.Add(s, big.NewInt(w.powers[i]))
		}
	}
	return s
}

// stateOracle evaluates the state clauses of the statement on the observed
// outputs; the per-event clause verdict (evv) takes precedence, the known
// stray-precommit class comes last so that it can never mask another one.
func (w *world) stateOracle(evv string, cv commitView, maj string, anyB bool) string {
	if evv != "" {
		return evv
	}
	// a +2/3 majority is reported for a block exactly when votes counted for it exceed 2/3
	if maj != "-" {
		if _, ok := blockIDs[maj]; !ok {
			return "VIOL:maj23-unknown-block reported " + maj
		}
		if !w.gt23(w.counted(maj)) {
			return fmt.Sprintf("VIOL:maj23-without-quorum maj=%s counted=%s total=%s", maj, w.counted(maj), w.total)
		}
	} else {
		for _, t := range blockTok {
			if w.gt23(w.counted(t)) {
				return fmt.Sprintf("VIOL:quorum-not-reported block=%s counted=%s total=%s", t, w.counted(t), w.total)
			}
		}
	}
	// the first majority reported never changes
	if w.firstMaj == "" && maj != "-" {
		w.firstMaj = maj
	}
	if w.firstMaj != "" && maj != w.firstMaj {
		return fmt.Sprintf("VIOL:maj23-changed first=%s now=%s", w.firstMaj, maj)
	}
	// 'any +2/3' exactly when the counted power of distinct validators exceeds 2/3
	s := new(big.Int)
	for i := 0; i < w.n; i++ {
		if len(w.accepted[i]) > 0 {
			s.Add(s, big.NewInt(w.powers[i]))
		}
	}
	if anyB != w.gt23(s) {
		return fmt.Sprintf("VIOL:any23-mismatch reported=%v counted=%s total=%s", anyB, s, w.total)
	}
	// the votes counted per block (bit arrays) are the accepted ones
	for _, t := range blockTok {
		bits := w.bitsOf(t)
		for i := 0; i < w.n; i++ {
			_, acc := w.accepted[i][t]
			has := bits != "-" && bits[i] == '1'
			if acc != has {
				return fmt.Sprintf("VIOL:counted-set-mismatch block=%s val=%d accepted=%v tracked=%v", t, i, acc, has)
			}
		}
	}
	// commit
	if w.typ == types.PrecommitType && maj != "-" {
		if cv.panicClass != "" {
			return "VIOL:commit-panics " + cv.panicClass
		}
		if cv.block != maj {
			return fmt.Sprintf("VIOL:commit-wrong-block commit=%s maj=%s", cv.block, maj)
		}
		if len(cv.entries) != w.n {
			return fmt.Sprintf("VIOL:commit-size %d", len(cv.entries))
		}
		if cv.unknown {
			return "VIOL:commit-unknown-vote an entry is not a vote that was submitted"
		}
		for i, e := range cv.entries {
			if sig, ok := w.accepted[i][maj]; ok {
				if e == nil || e.tok != maj || e.sig != sig {
					return fmt.Sprintf("VIOL:commit-missing-vote val=%d accepted vote for %s is not in the commit", i, maj)
				}
			}
			if e != nil && (e.val != i || !w.wellSub[*e]) {
				return fmt.Sprintf("VIOL:commit-invalid-entry val=%d entry=%s.%d is not a valid precommit of this validator/height/round", i, e.tok, e.sig)
			}
		}
		for i, e := range cv.entries {
			if e != nil && e.tok != maj {
				return fmt.Sprintf("VIOL:commit-stray-precommit val=%d entry is for %s, majority block is %s", i, e.tok, maj)
			}
		}
	}
	return "ok"
}

// ---------------------------------------------------------------- exec

func parseInt(s string) (int, bool) {
	if len(s) > 9 {
		return 0, false
	}
	n, err := strconv.Atoi(s)
	if err != nil || strconv.Itoa(n) != s {
		return 0, false
	}
	return n, true
}

type flagsT struct {
	badsig, wh, wr, wt, waddr, dup bool
	as                             int
}

func parseFlags(s string) (f flagsT, ok bool) {
	f.as = -1
	if s == "" {
		return f, false
	}
	for _, p := range strings.Split(s, ",") {
		switch {
		case p == "ok":
		case p == "badsig":
			f.badsig = true
		case p == "wrongheight":
			f.wh = true
		case p == "wronground":
			f.wr = true
		case p == "wrongtype":
			f.wt = true
		case p == "wrongaddr":
			f.waddr = true
		case p == "dupsig2":
			f.dup = true
		case strings.HasPrefix(p, "as"):
			j, ok := parseInt(p[2:])
			if !ok || j < 0 {
				return f, false
			}
			f.as = j
		default:
			return f, false
		}
	}
	return f, true
}

func execNew(t []string) (string, string) {
	if len(t) < 3 || len(t) > 2+maxVals {
		return "err:badop", "-"
	}
	var typ types.SignedMsgType
	switch t[1] {
	case "prevote":
		typ = types.PrevoteType
	case "precommit":
		typ = types.PrecommitType
	default:
		return "err:badop", "-"
	}
	var powers []int64
	total := new(big.Int)
	for _, s := range t[2:] {
		p, err := strconv.ParseInt(s, 10, 64)
		if err != nil || p <= 0 || strconv.FormatInt(p, 10) != s {
			return "err:badop", "-"
		}
		powers = append(powers, p)
		total.Add(total, big.NewInt(p))
	}
	if total.Cmp(big.NewInt(types.MaxTotalVotingPower)) > 0 {
		return fmt.Sprintf("err:badnew maxtvp=%d", types.MaxTotalVotingPower), "-"
	}
	n := len(powers)
	vals := make([]*types.Validator, n)
	for i := 0; i < n; i++ {
		vals[i] = types.NewValidator(pool[i].pv.PubKey(), powers[i])
	}
	valSet := types.NewValidatorSet(vals)
	for i := 0; i < n; i++ {
		a, v := valSet.GetByIndex(i)
		if a != pool[i].addr || v.VotingPower != powers[i] {
			panic("c35: validator order assumption broken")
		}
	}
	w = &world{n: n, powers: powers, total: total, typ: typ,
		vs:     types.NewVoteSet(chainID, height, round, typ, valSet),
		sigTok: map[string]subm{}, wellSub: map[subm]bool{}, wellPair: map[[2]string]bool{}, peerClaim: map[string]bool{}}
	for i := 0; i < n; i++ {
		w.accepted = append(w.accepted, map[string]int{})
	}
	obs, cv, maj, anyB := w.observe()
	res := fmt.Sprintf("ok n=%d total=%d maxtvp=%d", n, valSet.TotalVotingPower(), types.MaxTotalVotingPower)
	return res + " " + obs, w.stateOracle("", cv, maj, anyB)
}

func execVote(t []string) (string, string) {
	if len(t) != 4 {
		return "err:badop", "-"
	}
	idx, ok1 := parseInt(t[1])
	bid, ok2 := blockIDs[t[2]]
	f, ok3 := parseFlags(t[3])
	if !ok1 || !ok2 || !ok3 || (f.as >= 0 && f.as >= w.n) {
		return "err:badop", "-"
	}
	signer := 0
	if idx >= 0 && idx < w.n {
		signer = idx
	}
	if f.as >= 0 {
		signer = f.as
	}
	v := &types.Vote{
		Type: w.typ, Height: height, Round: round, BlockID: bid, Timestamp: t0,
		ValidatorAddress: pool[signer].addr, ValidatorIndex: idx,
	}
	if f.wh {
		v.Height++
	}
	if f.wr {
		v.Round++
	}
	if f.wt {
		v.Type = types.PrevoteType + types.PrecommitType - w.typ
	}
	if f.dup {
		v.Timestamp = t1
	}
	ck := fmt.Sprintf("%d/%d/%d/%d/%s/%v", signer, v.Type, v.Height, v.Round, t[2], f.dup)
	sig, ok := sigCache[ck]
	if !ok {
		if err := pool[signer].pv.SignVote(chainID, v); err != nil {
			panic(err)
		}
		sig = v.Signature
		sigCache[ck] = sig
	}
	v.Signature = append([]byte{}, sig...)
	if f.waddr {
		v.ValidatorAddress = foreign
	}
	sigID := 0
	if f.dup {
		sigID |= 1
	}
	if f.badsig {
		sigID |= 2
		v.Signature[7] ^= 0x40
	}
	well := !f.badsig && !f.wh && !f.wr && !f.wt && !f.waddr && idx >= 0 && idx < w.n && signer == idx
	me := subm{val: idx, tok: t[2], sig: sigID}
	if well {
		w.sigTok[hex.EncodeToString(v.Signature)] = me
	}

	added, err := w.vs.AddVote(v)

	res := ""
	switch {
	case err == nil && added:
		res = "ok:added"
	case err == nil:
		res = "ok:dup"
	default:
		a := 0
		if added {
			a = 1
		}
		res = fmt.Sprintf("err:%s:%d", errClass(err), a)
	}

	// ---- per-event clauses (evaluated on the log kept before this event)
	evv := ""
	cls := ""
	if err != nil {
		cls = errClass(err)
	}
	if !well {
		if added || err == nil {
			evv = fmt.Sprintf("VIOL:invalid-vote-accepted flags=%s result=%s", t[3], res)
		}
	} else {
		prevSig, sameAccepted := w.accepted[idx][t[2]]
		other := false // validator has an accepted vote for a DIFFERENT block
		for tk := range w.accepted[idx] {
			if tk != t[2] {
				other = true
			}
		}
		seenPair := w.wellPair[[2]string{strconv.Itoa(idx), t[2]}]
		switch {
		case cls == "conflict" && !other:
			evv = "VIOL:spurious-conflict no accepted vote of this validator for another block"
		case len(w.accepted[idx]) == 0 && !(err == nil && added):
			evv = "VIOL:first-vote-not-accepted result=" + res
		case sameAccepted && prevSig == sigID && !(err == nil && !added):
			evv = "VIOL:duplicate-not-ignored result=" + res
		case other && !seenPair && cls != "conflict":
			evv = "VIOL:conflict-unreported second vote of validator for a different block, result=" + res
		case other && seenPair && err == nil && added:
			evv = "VIOL:conflict-unreported result=" + res
		}
		w.wellSub[me] = true
		w.wellPair[[2]string{strconv.Itoa(idx), t[2]}] = true
		if added {
			if _, dup := w.accepted[idx][t[2]]; dup && evv == "" {
				evv = "VIOL:vote-counted-twice same validator and block added again"
			}
			w.accepted[idx][t[2]] = sigID
		}
	}
	obs, cv, maj, anyB := w.observe()
	return res + " " + obs, w.stateOracle(evv, cv, maj, anyB)
}

func exec(t []string) (string, string) {
	if len(t) == 0 {
		return "err:badop", "-"
	}
	if t[0] == "new" {
		return execNew(t)
	}
	if w == nil {
		switch t[0] {
		case "vote", "nilvote", "peermaj":
			return "err:nostate", "-"
		}
		return "err:badop", "-"
	}
	switch t[0] {
	case "vote":
		return execVote(t)
	case "nilvote":
		if len(t) != 1 {
			return "err:badop", "-"
		}
		added, err := w.vs.AddVote(nil)
		evv := ""
		if added || err == nil {
			evv = "VIOL:invalid-vote-accepted nil vote"
		}
		a := 0
		if added {
			a = 1
		}
		res := "ok"
		if err != nil {
			res = fmt.Sprintf("err:%s:%d", errClass(err), a)
		}
		obs, cv, maj, anyB := w.observe()
		return res + " " + obs, w.stateOracle(evv, cv, maj, anyB)
	case "peermaj":
		if len(t) != 3 {
			return "err:badop", "-"
		}
		peer, ok1 := parseInt(t[1])
		bid, ok2 := blockIDs[t[2]]
		if !ok1 || !ok2 || peer < 0 {
			return "err:badop", "-"
		}
		err := w.vs.SetPeerMaj23(types.P2PID(fmt.Sprintf("peer%d", peer)), bid)
		res := "ok"
		if err != nil {
			res = "err:peerconflict"
		}
		// a peer claim alone must not change anything that is counted: the state clauses below check it.
		obs, cv, maj, anyB := w.observe()
		return res + " " + obs, w.stateOracle("", cv, maj, anyB)
	}
	return "err:badop", "-"
}

func main() {
	kit.Main(&kit.Harness{Gen: gen, Reset: reset, Exec: exec})
}
