package main

import (
	"fmt"
	"math"
	"strings"

	"gnoverif/kit"
)

// Generator for C14: histories of ledger ops.
//
//  1. boundary table: hand-written histories that reach every branch of the
//     keeper (supply cap, balance overflow, multi-send validation panics,
//     vesting lock, restricted denoms, partial raw application, genesis path);
//  2. structured random: mostly-valid histories driven by a rough ledger the
//     generator keeps for itself (so that most sends/burns succeed), with
//     boundary amounts mixed in;
//  3. malformed stream: invalid denoms, unsorted / duplicate / non-positive
//     coins, unbalanced multi-sends, wrong arity.

const maxI = math.MaxInt64

var (
	validDenoms   = []string{gasDenom, realmDenom, plainDenom, realmDenom2}
	longDenom     = strings.Repeat("z", 274)
	invalidDenoms = []string{"", "ab", "UGNOT", "1abc", "ug!not", "-abc", strings.Repeat("a", 275), "/R:x", "a_"}
	smallAmts     = []int64{1, 1, 2, 3, 5, 5, 7, 10, 50, 100}
	edgeAmts      = []int64{0, 1, 5, maxI, maxI - 1, maxI - 5, maxI/2 + 1, maxI / 2, -1, -5, math.MinInt64, math.MinInt64 + 1}
)

func coinsTok(ds []string, as []int64) string {
	if len(ds) == 0 {
		return "-"
	}
	parts := make([]string, len(ds))
	for i := range ds {
		parts[i] = fmt.Sprintf("%s=%d", ds[i], as[i])
	}
	return strings.Join(parts, ",")
}

func boundary(w *kit.Out) {
	c := func(id string, ops ...string) {
		w.Case("b/" + id)
		for _, o := range ops {
			w.Op("%s", o)
		}
	}
	G, R, P := gasDenom, realmDenom, plainDenom
	c("basic",
		"mint a0 "+G+"=100", "mint a0 "+R+"=50", "mint a1 "+P+"=7",
		"send a0 a1 "+G+"=30", "send a0 a2 "+R+"=50", "send a1 a1 "+P+"=7",
		"sendu a1 a3 "+G+"=30", "burn a2 "+R+"=20", "burn a2 "+R+"=30", "burn a3 "+G+"=30", "burn a0 "+G+"=70", "burn a1 "+P+"=7")
	c("multi-denom",
		"mint a0 "+R+"=5,"+P+"=6,"+G+"=7", "send a0 a1 "+R+"=1,"+P+"=2,"+G+"=3", "burn a0 "+R+"=4,"+P+"=4,"+G+"=4",
		"send a1 a0 "+R+"=1,"+P+"=2,"+G+"=4", "send a1 a0 "+R+"=1,"+P+"=3,"+G+"=3")
	c("supply-cap",
		fmt.Sprintf("mint a0 %s=%d", R, int64(maxI)), "mint a1 "+R+"=1", fmt.Sprintf("mint a1 %s=%d", G, int64(maxI-1)),
		"mint a0 "+G+"=1", "mint a0 "+G+"=1", fmt.Sprintf("send a0 a1 %s=%d", R, int64(maxI)),
		fmt.Sprintf("send a1 a0 %s=%d", G, int64(maxI-1)), fmt.Sprintf("burn a1 %s=%d", R, int64(maxI)), fmt.Sprintf("burn a0 %s=%d", G, int64(maxI)))
	c("supply-cap-partial",
		fmt.Sprintf("mint a0 %s=%d", P, int64(maxI-5)), "mint a1 "+P+"=5,"+G+"=1", "mint a2 "+G+"=3,"+P+"=1", "mint a2 "+P+"=1")
	c("balance-overflow-keeper",
		fmt.Sprintf("add a0 %s=%d", R, int64(maxI)), "add a0 "+R+"=1", fmt.Sprintf("add a0 %s=%d", G, int64(maxI)), "add a0 "+G+"=1",
		"add a1 "+R+"=1", "recompute", fmt.Sprintf("send a0 a1 %s=%d", R, int64(maxI)), "sub a1 "+R+"=1", "sub a0 "+G+"=1", "recompute",
		fmt.Sprintf("send a1 a0 %s=%d", R, int64(maxI)))
	c("raw-send-overflow",
		fmt.Sprintf("add a0 %s=%d", R, int64(maxI)), "add a1 "+R+"=5", "send.raw a1 a0 "+R+"=5", "recompute",
		fmt.Sprintf("add a0 %s=%d", G, int64(maxI)), "add a1 "+G+"=5", "sendu.raw a1 a0 "+G+"=5", "mint.raw a0 "+G+"=1")
	c("burn-beyond",
		"burn a0 "+R+"=1", "mint a0 "+R+"=5", "mint a1 "+R+"=5", "burn a0 "+R+"=6", "burn a0 "+R+"=11", "burn a2 "+R+"=1",
		"burn a0 "+R+"=5", "burn a0 "+R+"=1", "burn a1 "+G+"=1")
	c("zero-empty-self",
		"send a0 a1 -", "send a0 a1 "+G+"=0", "send a0 a1 =0", "send a0 a1 UP=0,"+G+"=0", "sendu a0 a1 -", "sendu a0 a1 "+G+"=0",
		"mint a0 -", "burn a0 -", "mint a0 "+G+"=0", "multi - -", "multi a0@- a1@-", "mint a0 "+G+"=9",
		"send a0 a0 "+G+"=9", "send a0 a0 "+G+"=10", "sendu a0 a0 "+G+"=4", "multi a0@"+G+"=4 a0@"+G+"=4", "add a2 -", "sub a3 -")
	c("invalid-denoms",
		"mint a0 ab=5", "mint a0 UGNOT=5", "mint a0 =5", "send a0 a1 1abc=5", "mint a0 "+G+"=5,"+G+"=5", "mint a0 "+R+"=1,"+P+"=1",
		"mint a0 "+P+"=1,"+R+"=1", "mint a0 "+G+"=-5", "burn a0 "+G+"=-5", "send a0 a1 "+G+"=-1", "sendu a0 a1 "+G+"=-1",
		"mint a0 "+strings.Repeat("a", 275)+"=1", "mint a0 "+longDenom+"=3", "send a0 a1 "+longDenom+"=1", "burn a1 "+longDenom+"=1")
	c("multi-validation",
		"mint a0 "+G+"=10,"+R+"=10", "mint a1 "+G+"=10", "multi a0@"+G+"=3;a1@"+G+"=4 a2@"+G+"=7", "multi a0@"+G+"=3;a0@"+G+"=3 a2@"+G+"=5;a3@"+G+"=1",
		"multi a0@"+G+"=3 a2@"+G+"=4", "multi a0@"+G+"=3 a2@"+R+"=3", "multi a0@"+G+"=3,"+R+"=1 a2@"+G+"=3", "multi a0@"+G+"=0 a2@"+G+"=0",
		"multi a0@"+G+"=1 -", "multi - a2@"+G+"=1", "multi a0@"+R+"=1;a0@"+G+"=1 a2@"+G+"=1;a3@"+R+"=1",
		fmt.Sprintf("multi a0@%s=%d;a1@%s=1 a2@%s=1", G, int64(maxI), G, G), fmt.Sprintf("multi a0@%s=1 a1@%s=%d;a2@%s=1", G, G, int64(maxI), G),
		"multi a0@"+G+"=1;a1@ab=1 a2@"+G+"=1", "multi a0@"+G+"=9;a1@"+G+"=9 a2@"+G+"=18", "multi a1@"+G+"=1;a0@"+R+"=11 a2@"+G+"=1,"+R+"=11",
		"multi.raw a1@"+G+"=1;a0@"+R+"=11 a2@"+G+"=1,"+R+"=11", "recompute", "multi a4@"+G+"=1 a2@"+G+"=1")
	c("vesting",
		"mint a0 "+G+"=100,"+R+"=100", "vest a0 "+R+"=100,"+G+"=60", "send a0 a1 "+G+"=41", "send a0 a1 "+G+"=40", "send a0 a1 "+R+"=1",
		"sendu a0 a1 "+G+"=30", "send a0 a1 "+G+"=1", "burn a0 "+R+"=1", "sendu a0 a2 "+R+"=10", "multi a0@"+R+"=1 a3@"+R+"=1",
		"mint a0 "+G+"=35", "send a0 a1 "+G+"=5", "send a0 a1 "+G+"=6", "unlock", "send a0 a1 "+G+"=6", "send a0 a1 "+R+"=90", "vest a4 -", "vest a5 "+P+"=5",
		"mint a4 "+P+"=1", "mint a5 "+P+"=5", "send a4 a5 "+P+"=1", "vest a1 ab=1")
	c("vesting-empty-upgrade", "mint a0 "+G+"=5", "vest a0 -", "send a0 a1 "+G+"=9", "send a0 a1 "+G+"=1", "vest a1 "+G+"=1", "sendu a1 a0 "+G+"=1", "send a1 a0 "+G+"=1")
	c("restricted",
		"mint a0 "+G+"=10,"+R+"=10", "mint a1 "+G+"=10", "restrict "+G, "send a0 a1 "+G+"=1", "send a0 a1 "+R+"=1", "send a0 a1 "+G+"=1,"+R+"=1",
		"sendu a0 a1 "+G+"=1", "multi a0@"+G+"=1 a1@"+G+"=1", "whitelist a0", "send a0 a1 "+G+"=1", "multi a0@"+G+"=1;a1@"+G+"=1 a2@"+G+"=2",
		"whitelist a5", "send a0 a1 "+G+"=0", "restrict -", "send a1 a0 "+G+"=1", "restrict ab", "restrict "+G+","+R, "send a1 a0 "+R+"=1", "vest a0 -", "whitelist a0", "send a0 a1 "+G+"=1")
	c("fees",
		"fee a0 a5 "+G+"=1", "mint a0 "+G+"=10,"+R+"=3", "fee a0 a5 "+G+"=1", "fee a0 a5 "+G+"=10", "fee a0 a5 "+R+"=3", "fee a0 a5 "+R+"=1,"+G+"=9",
		"fee a0 a5 "+G+"=0", "fee a0 a5 -", "fee a0 a5 ab=1", "fee a0 a5 "+P+"=1", "vest a0 "+G+"=5", "fee a0 a5 "+G+"=8", "restrict "+G, "fee a0 a5 "+G+"=1",
		"fee a5 a5 "+G+"=2", "fee a1 a5 "+G+"=1", "fee.raw a0 a5 "+G+"=1")
	c("genesis",
		"setcoins a0 "+G+"=5,"+R+"=6", "setcoins a1 "+P+"=1", "recompute", "send a0 a1 "+R+"=6", "setcoins a0 "+P+"=2", "setcoins a1 -", "recompute",
		"setcoins a2 ab=1", "setcoins a2 "+R+"=1,"+G+"=1", fmt.Sprintf("setcoins a3 %s=%d", R, int64(maxI)), "recompute", "setcoins a3 -", "recompute", "burn a2 "+R+"=1")
	c("raw-partial",
		"mint a0 "+R+"=5", "mint a1 "+R+"=5", "multi.raw a0@"+R+"=5;a1@"+R+"=6 a2@"+R+"=11", "recompute", "burn.raw a0 "+R+"=1", "burn.raw a1 "+R+"=6", "mint.raw a1 "+R+"=-1",
		"add.raw a1 ab=1", "sub.raw a1 "+R+"=9")
}

// ledger is the generator's own rough bookkeeping (not an oracle).
type ledger struct {
	bal    [nAddr]map[string]int64
	supply map[string]int64
}

func newLedger() *ledger {
	l := &ledger{supply: map[string]int64{}}
	for i := range l.bal {
		l.bal[i] = map[string]int64{}
	}
	return l
}

func (l *ledger) holders(d string) []int {
	var hs []int
	for i := range l.bal {
		if l.bal[i][d] > 0 {
			hs = append(hs, i)
		}
	}
	return hs
}

type genCfg struct {
	edgePct int // chance an amount comes from edgeAmts
	badPct  int // chance a denom is invalid
}

func (g genCfg) denom(r *kit.Rand) string {
	if r.Chance(g.badPct) {
		return kit.Pick(r, invalidDenoms)
	}
	if r.Chance(2) {
		return longDenom
	}
	return kit.Pick(r, validDenoms)
}

func (g genCfg) amt(r *kit.Rand, have int64) int64 {
	switch {
	case r.Chance(g.edgePct):
		return kit.Pick(r, edgeAmts)
	case have > 0 && r.Chance(85):
		switch r.Intn(8) {
		case 0:
			return have
		case 1:
			return have + 1
		default:
			return 1 + int64(r.U64()%uint64(have))
		}
	}
	return kit.Pick(r, smallAmts)
}

// coinSet draws 1–3 coins; mostly sorted and unique.  With from >= 0 the denoms
// are mostly ones that address holds (per the generator's own ledger).
func (g genCfg) coinSet(r *kit.Rand, l *ledger, from int, messy bool) ([]string, []int64) {
	n := 1
	if r.Chance(30) {
		n = 2 + r.Intn(2)
	}
	var held []string
	if from >= 0 {
		for _, d := range append(append([]string{}, validDenoms...), longDenom) {
			if l.bal[from][d] > 0 {
				held = append(held, d)
			}
		}
	}
	seen := map[string]bool{}
	var ds []string
	for i := 0; i < n; i++ {
		d := g.denom(r)
		if len(held) > 0 && !r.Chance(g.badPct) && r.Chance(88) {
			d = kit.Pick(r, held)
		}
		if seen[d] && !messy {
			continue
		}
		seen[d] = true
		ds = append(ds, d)
	}
	if !messy || r.Chance(50) {
		for i := range ds { // insertion sort
			for j := i; j > 0 && ds[j] < ds[j-1]; j-- {
				ds[j], ds[j-1] = ds[j-1], ds[j]
			}
		}
	}
	as := make([]int64, len(ds))
	for i, d := range ds {
		have := int64(0)
		if from >= 0 {
			have = l.bal[from][d]
		}
		as[i] = g.amt(r, have)
	}
	return ds, as
}

func okCoins(ds []string, as []int64) bool {
	for i := range ds {
		if as[i] <= 0 || (i > 0 && ds[i] <= ds[i-1]) {
			return false
		}
		bad := false
		for _, x := range invalidDenoms {
			if ds[i] == x {
				bad = true
			}
		}
		if bad {
			return false
		}
	}
	return true
}

func (l *ledger) can(from int, ds []string, as []int64) bool {
	for i := range ds {
		if l.bal[from][ds[i]] < as[i] {
			return false
		}
	}
	return true
}

func history(w *kit.Out, r *kit.Rand, g genCfg, nops int, allowKeeper bool) {
	l := newLedger()
	pickFrom := func() int {
		var hs []int
		for i := range l.bal {
			for _, v := range l.bal[i] {
				if v > 0 {
					hs = append(hs, i)
					break
				}
			}
		}
		if len(hs) > 0 && r.Chance(85) {
			return kit.Pick(r, hs)
		}
		return r.Intn(nAddr)
	}
	for k := 0; k < nops; k++ {
		x := r.Intn(100)
		raw := ""
		if allowKeeper && r.Chance(15) {
			raw = ".raw"
		}
		switch {
		case x < 24 || (k < 2 && x < 70): // mint
			a := r.Intn(nAddr)
			ds, as := g.coinSet(r, l, -1, false)
			if r.Chance(60) {
				for i := range as {
					if as[i] > 0 && as[i] < 1000 {
						as[i] *= 10
					}
				}
			}
			if r.Chance(4) && len(ds) > 0 { // aim at the cap
				as[0] = maxI - l.supply[ds[0]] + int64(r.Intn(3)) - 1
			}
			w.Op("mint%s a%d %s", raw, a, coinsTok(ds, as))
			if okCoins(ds, as) {
				fits := true
				for i := range ds {
					if l.supply[ds[i]] > maxI-as[i] {
						fits = false
					}
				}
				if fits {
					for i := range ds {
						l.supply[ds[i]] += as[i]
						l.bal[a][ds[i]] += as[i]
					}
				}
			}
		case x < 46: // send
			f, t := pickFrom(), r.Intn(nAddr)
			ds, as := g.coinSet(r, l, f, false)
			op := "send"
			switch r.Intn(10) {
			case 0, 1, 2:
				op = "sendu"
			case 3, 4:
				op = "fee"
			}
			w.Op("%s%s a%d a%d %s", op, raw, f, t, coinsTok(ds, as))
			if okCoins(ds, as) && l.can(f, ds, as) {
				for i := range ds {
					l.bal[f][ds[i]] -= as[i]
					l.bal[t][ds[i]] += as[i]
				}
			}
		case x < 60: // multi
			nin, nout := 1+r.Intn(3), 1+r.Intn(3)
			tot := map[string]int64{}
			var ins, outs []string
			type mv struct {
				a  int
				ds []string
				as []int64
			}
			var mins []mv
			avail := newLedger()
			for i := range l.bal {
				for d, v := range l.bal[i] {
					avail.bal[i][d] = v
				}
			}
			for i := 0; i < nin; i++ {
				f := pickFrom()
				ds, as := g.coinSet(r, avail, f, false)
				for j := range ds { // later inputs of the same address see what is left
					if as[j] > 0 && avail.bal[f][ds[j]] >= as[j] {
						avail.bal[f][ds[j]] -= as[j]
					}
				}
				mins = append(mins, mv{f, ds, as})
				ins = append(ins, fmt.Sprintf("a%d@%s", f, coinsTok(ds, as)))
				for j := range ds {
					tot[ds[j]] += as[j] // may wrap; generator only
				}
			}
			// distribute totals over outputs (balanced unless perturbed)
			var tds []string
			for d := range tot {
				tds = append(tds, d)
			}
			for i := range tds {
				for j := i; j > 0 && tds[j] < tds[j-1]; j-- {
					tds[j], tds[j-1] = tds[j-1], tds[j]
				}
			}
			var mouts []mv
			rem := map[string]int64{}
			for d, v := range tot {
				rem[d] = v
			}
			for i := 0; i < nout; i++ {
				t := r.Intn(nAddr)
				var ds []string
				var as []int64
				for _, d := range tds {
					v := rem[d]
					if v <= 0 {
						continue
					}
					if i < nout-1 {
						if r.Chance(40) {
							continue
						}
						v = 1 + int64(r.U64()%uint64(v))
					}
					rem[d] -= v
					ds, as = append(ds, d), append(as, v)
				}
				if len(ds) == 0 && r.Chance(80) {
					continue
				}
				mouts = append(mouts, mv{t, ds, as})
			}
			if r.Chance(12) && len(mouts) > 0 && len(mouts[0].as) > 0 { // unbalance
				mouts[0].as[0] += int64(r.Intn(3)) - 1
			}
			if r.Chance(5) && len(mouts) > 0 && len(mouts[0].ds) > 0 { // denom swap → IsEqual panic
				mouts[0].ds[0] = kit.Pick(r, validDenoms)
			}
			for _, m := range mouts {
				outs = append(outs, fmt.Sprintf("a%d@%s", m.a, coinsTok(m.ds, m.as)))
			}
			it, ot := strings.Join(ins, ";"), strings.Join(outs, ";")
			if it == "" {
				it = "-"
			}
			if ot == "" {
				ot = "-"
			}
			w.Op("multi%s %s %s", raw, it, ot)
			// rough bookkeeping: apply only if everything is plainly fine
			fine := true
			tmp := newLedger()
			for i := range l.bal {
				for d, v := range l.bal[i] {
					tmp.bal[i][d] = v
				}
			}
			for _, m := range mins {
				if !okCoins(m.ds, m.as) || !tmp.can(m.a, m.ds, m.as) {
					fine = false
					break
				}
				for j := range m.ds {
					tmp.bal[m.a][m.ds[j]] -= m.as[j]
				}
			}
			outTot := map[string]int64{}
			for _, m := range mouts {
				if !okCoins(m.ds, m.as) {
					fine = false
				}
				for j := range m.ds {
					outTot[m.ds[j]] += m.as[j]
					tmp.bal[m.a][m.ds[j]] += m.as[j]
				}
			}
			for d, v := range tot {
				if outTot[d] != v {
					fine = false
				}
			}
			for d, v := range outTot {
				if tot[d] != v {
					fine = false
				}
			}
			if fine {
				l.bal = tmp.bal
			}
		case x < 72: // burn
			a := pickFrom()
			ds, as := g.coinSet(r, l, a, false)
			w.Op("burn%s a%d %s", raw, a, coinsTok(ds, as))
			if okCoins(ds, as) && l.can(a, ds, as) {
				for i := range ds {
					l.bal[a][ds[i]] -= as[i]
					l.supply[ds[i]] -= as[i]
				}
			}
		case x < 76: // vest
			a := r.Intn(nAddr)
			ds, as := g.coinSet(r, l, a, false)
			if r.Chance(15) {
				ds, as = nil, nil
			}
			w.Op("vest a%d %s", a, coinsTok(ds, as))
		case x < 78:
			w.Op("unlock")
		case x < 81:
			switch r.Intn(4) {
			case 0:
				w.Op("restrict -")
			case 1:
				w.Op("restrict %s", g.denom(r))
			default:
				w.Op("restrict %s", kit.Pick(r, validDenoms))
			}
		case x < 84:
			w.Op("whitelist a%d", r.Intn(nAddr))
		case x < 92 && allowKeeper: // keeper-level / genesis-level
			a := pickFrom()
			ds, as := g.coinSet(r, l, a, false)
			switch r.Intn(5) {
			case 0:
				w.Op("add%s a%d %s", raw, a, coinsTok(ds, as))
			case 1:
				w.Op("sub%s a%d %s", raw, a, coinsTok(ds, as))
			case 2:
				w.Op("setcoins a%d %s", a, coinsTok(ds, as))
			default:
				w.Op("recompute")
			}
		default: // self / zero / empty oddities
			a := pickFrom()
			switch r.Intn(4) {
			case 0:
				w.Op("send a%d a%d -", a, r.Intn(nAddr))
			case 1:
				ds, as := g.coinSet(r, l, a, false)
				w.Op("send a%d a%d %s", a, a, coinsTok(ds, as))
			case 2:
				w.Op("send a%d a%d %s=0", a, r.Intn(nAddr), g.denom(r))
			default:
				ds, as := g.coinSet(r, l, a, false)
				w.Op("multi a%d@%s a%d@%s", a, coinsTok(ds, as), a, coinsTok(ds, as))
			}
		}
	}
}

func malformed(w *kit.Out, r *kit.Rand, n int) {
	g := genCfg{edgePct: 40, badPct: 35}
	ops := []string{"send", "sendu", "fee", "multi", "mint", "burn", "add", "sub", "setcoins", "vest", "send.raw", "multi.raw"}
	l := newLedger()
	for i := 0; i < n; i++ {
		op := kit.Pick(r, ops)
		ds, as := g.coinSet(r, l, -1, true)
		ct := coinsTok(ds, as)
		switch strings.TrimSuffix(op, ".raw") {
		case "send", "sendu", "fee":
			w.Op("%s a%d a%d %s", op, r.Intn(nAddr), r.Intn(nAddr), ct)
		case "multi":
			ds2, as2 := g.coinSet(r, l, -1, true)
			if r.Chance(50) {
				ds2, as2 = ds, as
			}
			w.Op("%s a%d@%s;a%d@%s a%d@%s", op, r.Intn(nAddr), ct, r.Intn(nAddr), coinsTok(ds2, as2), r.Intn(nAddr), coinsTok(ds2, as2))
		default:
			w.Op("%s a%d %s", op, r.Intn(nAddr), ct)
		}
		if r.Chance(10) {
			w.Op("mint a%d %s=%d", r.Intn(nAddr), kit.Pick(r, validDenoms), kit.Pick(r, smallAmts))
		}
	}
}

func gen(w *kit.Out, r *kit.Rand, tier string) {
	boundary(w)
	nTx, nKeeper, nMal, maxOps := 260, 70, 40, 30
	if tier == "thorough" {
		nTx, nKeeper, nMal, maxOps = 900, 250, 120, 90
	}
	rt, rk, rm := r.Fork(), r.Fork(), r.Fork()
	for i := 0; i < nTx; i++ {
		w.Case(fmt.Sprintf("tx/%d", i))
		g := genCfg{edgePct: 6, badPct: 3}
		if i%5 == 4 {
			g = genCfg{edgePct: 25, badPct: 8}
		}
		n := 1 + rt.Intn(maxOps)
		if tier == "thorough" && i%10 == 0 {
			n = 60 + rt.Intn(maxOps-59)
		}
		history(w, rt, g, n, false)
	}
	for i := 0; i < nKeeper; i++ {
		w.Case(fmt.Sprintf("keeper/%d", i))
		history(w, rk, genCfg{edgePct: 12, badPct: 5}, 1+rk.Intn(maxOps), true)
	}
	for i := 0; i < nMal; i++ {
		w.Case(fmt.Sprintf("mal/%d", i))
		malformed(w, rm, 1+rm.Intn(20))
	}
}
