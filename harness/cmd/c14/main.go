// Harness for C14: coin supply conservation and well-formed balance/account
// records (tm2/pkg/sdk/bank + tm2/pkg/sdk/auth).
//
// The REAL bank.BankKeeper + auth.AccountKeeper (gno.land's GnoAccount
// prototype, account tier = {"ugnot"}) run over a memdb-backed iavl
// multistore.  Every op line is executed inside a cache-wrapped context that
// is written on success and discarded on error/panic (like a transaction in
// BaseApp.runTx); after a write the block-level cache is flushed and the
// multistore is committed, so the oracle always looks at committed state.
//
// op lines (op name first; the suffix ".raw" on a ledger op means "no
// rollback": the cache is written even when the keeper call failed, which is
// what a caller that logs-and-continues would get):
//
//	send[.raw]  aF aT COINS          BankKeeper.SendCoins
//	sendu[.raw] aF aT COINS          BankKeeper.SendCoinsUnrestricted (fees, storage deposits)
//	fee[.raw]   aF aC COINS          auth.DeductFees(bank, ctx, account(aF), collector aC, COINS) — the ante handler's fee payment
//	multi[.raw] INS OUTS             BankKeeper.InputOutputCoins
//	mint[.raw]  a COINS              BankKeeper.MintCoins   (realm issuance, genesis funding)
//	burn[.raw]  a COINS              BankKeeper.BurnCoins
//	add[.raw]   a COINS              BankKeeper.AddCoins        keeper-level, NOT a transaction
//	sub[.raw]   a COINS              BankKeeper.SubtractCoins   keeper-level, NOT a transaction
//	setcoins    a COINS              BankKeeper.SetCoins        genesis-level
//	recompute                        BankKeeper.RecomputeSupply genesis-level
//	vest        a COINS              file a DelayedVestingAccount (locked = COINS until `unlock`)
//	unlock                           block time moves past every schedule's end
//	restrict    DENOMS               bank param restricted_denoms
//	whitelist   a                    GnoAccount.SetTokenLockWhitelisted(true)
//
//	COINS  = "-" | denom=amount[,denom=amount]*        (no sorting, no validation)
//	INS    = "-" | aN@COINS[;aN@COINS]*
//	DENOMS = "-" | denom[,denom]*
//
// output:  <result> <canonical state>      result ∈ ok | err:<class> | panic:<class>
// (compressed to 250 chars + "~" + fnv64 when longer than 290 chars).
//
// oracle (independent of the Lean model): after EVERY op
//   - the repository's own SupplyInvariant, BalanceKeysInvariant,
//     AccountTierInvariant and AccountKeyspaceInvariant must report nothing;
//   - a full iteration of the store, decoded by this file, is re-totalled with
//     math/big: recorded supply = Σ balances per denom, 0 < every stored
//     amount ≤ MaxInt64, every key filed under its own address / tier, every
//     holder has an account, account numbers unique and below the counter;
//   - supply records changed only if the op was mint/burn (and then by exactly
//     the amount); send / sendu / multi left every per-denom Σ unchanged;
//   - a failed op left the committed state untouched.
//
// Supply-related verdicts are suspended ("-") while the state is not one that
// committed transactions can produce: after a keeper-level add/sub/setcoins
// or a failed ".raw" op, until the next successful `recompute`.
package main

import (
	"bytes"
	"encoding/binary"
	"fmt"
	"math"
	"math/big"
	"os"
	"runtime/debug"
	"sort"
	"strings"
	"time"

	"github.com/gnolang/gno/gno.land/pkg/gnoland"
	"github.com/gnolang/gno/tm2/pkg/amino"
	bft "github.com/gnolang/gno/tm2/pkg/bft/types"
	"github.com/gnolang/gno/tm2/pkg/crypto"
	"github.com/gnolang/gno/tm2/pkg/db/memdb"
	tmerrors "github.com/gnolang/gno/tm2/pkg/errors"
	"github.com/gnolang/gno/tm2/pkg/log"
	"github.com/gnolang/gno/tm2/pkg/sdk"
	"github.com/gnolang/gno/tm2/pkg/sdk/auth"
	"github.com/gnolang/gno/tm2/pkg/sdk/bank"
	"github.com/gnolang/gno/tm2/pkg/sdk/params"
	"github.com/gnolang/gno/tm2/pkg/std"
	"github.com/gnolang/gno/tm2/pkg/store"
	"github.com/gnolang/gno/tm2/pkg/store/iavl"
	"gnoverif/kit"
)

const (
	nAddr       = 6
	gasDenom    = "ugnot"
	realmDenom  = "/gno.land/r/x:tok"
	plainDenom  = "atom"
	realmDenom2 = "/gno.land/r/y:zed"
	vestEnd     = 1000
)

var accountTier = []string{gasDenom}

func addrOf(i int) crypto.Address {
	var a crypto.Address
	for j := range a {
		a[j] = byte(0x10*(i+1) + j)
	}
	return a
}

func addrName(a crypto.Address) string {
	for i := 0; i < nAddr; i++ {
		if addrOf(i) == a {
			return fmt.Sprintf("a%d", i)
		}
	}
	return fmt.Sprintf("x%x", a[:])
}

// ---------------------------------------------------------------- environment

type env struct {
	cms     store.CommitMultiStore
	key     store.StoreKey
	bank    bank.BankKeeper
	acck    auth.AccountKeeper
	now     int64
	tainted bool // state not producible by committed transactions → supply verdicts suspended
}

var E *env

func reset() {
	db := memdb.NewMemDB()
	key := store.NewStoreKey("main")
	cms := store.NewCommitMultiStore(db)
	cms.MountStoreWithDB(key, iavl.StoreConstructor, db)
	if err := cms.LoadLatestVersion(); err != nil {
		panic(err)
	}
	prmk := params.NewParamsKeeper(key)
	acck := auth.NewAccountKeeper(key, prmk.ForModule(auth.ModuleName), gnoland.ProtoGnoAccount, gnoland.ProtoGnoSessionAccount)
	bk := bank.NewBankKeeper(acck, prmk.ForModule(bank.ModuleName), key, accountTier)
	prmk.Register(auth.ModuleName, acck)
	prmk.Register(bank.ModuleName, bk)
	E = &env{cms: cms, key: key, bank: bk, acck: acck, now: 500}
}

// blockCtx returns a context over a fresh block-level cache of the committed
// multistore, and the function that flushes and commits it.
func (e *env) blockCtx() (sdk.Context, func()) {
	ms := e.cms.MultiCacheWrap()
	hdr := &bft.Header{ChainID: "c14", Height: 1, Time: time.Unix(e.now, 0)}
	ctx := sdk.NewContext(sdk.RunTxModeDeliver, ms, hdr, log.NewNoopLogger())
	return ctx, func() {
		ms.MultiWrite()
		e.cms.Commit()
	}
}

// ---------------------------------------------------------------- token parsing

type badOp struct{ why string }

func parseAddr(t string) crypto.Address {
	if len(t) == 2 && t[0] == 'a' && t[1] >= '0' && t[1] < '0'+nAddr {
		return addrOf(int(t[1] - '0'))
	}
	panic(badOp{"addr " + t})
}

func parseCoins(t string) std.Coins {
	if t == "-" {
		return nil
	}
	var cs std.Coins
	for _, part := range strings.Split(t, ",") {
		i := strings.LastIndexByte(part, '=')
		if i < 0 {
			panic(badOp{"coin " + part})
		}
		var n int64
		if _, err := fmt.Sscanf(part[i+1:], "%d", &n); err != nil || fmt.Sprint(n) != part[i+1:] {
			panic(badOp{"amount " + part})
		}
		cs = append(cs, std.Coin{Denom: part[:i], Amount: n})
	}
	return cs
}

func parseIO(t string) (addrs []crypto.Address, coins []std.Coins) {
	if t == "-" {
		return nil, nil
	}
	for _, part := range strings.Split(t, ";") {
		i := strings.IndexByte(part, '@')
		if i < 0 {
			panic(badOp{"io " + part})
		}
		addrs = append(addrs, parseAddr(part[:i]))
		coins = append(coins, parseCoins(part[i+1:]))
	}
	return
}

// ---------------------------------------------------------------- result classes

func classifyErr(err error) string {
	if err == nil {
		return "ok"
	}
	switch tmerrors.Cause(err).(type) {
	case std.InvalidCoinsError:
		return "err:invalid-coins"
	case std.InsufficientCoinsError:
		return "err:insufficient"
	case std.RestrictedTransferError:
		return "err:restricted"
	case std.VestingLockedCoinsError:
		return "err:vesting-locked"
	case bank.InputOutputMismatchError:
		return "err:io-mismatch"
	case std.UnknownAddressError:
		return "err:unknown-address"
	case std.InsufficientFeeError:
		return "err:insufficient-fee"
	case std.InsufficientFundsError:
		return "err:insufficient-funds"
	}
	msg := err.Error()
	switch {
	case strings.HasPrefix(msg, "cannot mint"), strings.HasPrefix(msg, "cannot burn"):
		return "err:issuance"
	case strings.HasPrefix(msg, "supply of "):
		return "err:supply-range"
	}
	return "err:other " + msg
}

func classifyPanic(v any) string {
	if _, ok := v.(badOp); ok {
		return "err:badop"
	}
	msg := fmt.Sprint(v)
	switch {
	case strings.HasPrefix(msg, "coin add overflow"):
		return "panic:overflow"
	case strings.HasPrefix(msg, "invalid coin denominations"):
		return "panic:denom-mismatch"
	case strings.HasPrefix(msg, "invalid result"):
		return "panic:invalid-result"
	case strings.HasPrefix(msg, "cannot compute supply"):
		return "panic:recompute"
	case strings.HasPrefix(msg, "invalid param"):
		return "panic:bad-param"
	}
	if os.Getenv("VERIF_TRACE") != "" {
		fmt.Fprintf(os.Stderr, "panic: %v\n%s\n", v, debug.Stack())
	}
	return "panic:other " + msg
}

// ---------------------------------------------------------------- running one op on the real keepers

func (e *env) call(ctx sdk.Context, op string, t []string) error {
	need := func(n int) {
		if len(t) != n {
			panic(badOp{"arity"})
		}
	}
	switch op {
	case "send":
		need(3)
		return e.bank.SendCoins(ctx, parseAddr(t[0]), parseAddr(t[1]), parseCoins(t[2]))
	case "sendu":
		need(3)
		return e.bank.SendCoinsUnrestricted(ctx, parseAddr(t[0]), parseAddr(t[1]), parseCoins(t[2]))
	case "fee":
		need(3)
		from, coll, fees := parseAddr(t[0]), parseAddr(t[1]), parseCoins(t[2])
		acc := e.acck.GetAccount(ctx, from)
		if acc == nil { // the ante handler fails earlier, in GetSignerAcc
			return std.ErrUnknownAddress("no account")
		}
		res := auth.DeductFees(e.bank, ctx, acc, coll, fees)
		if res.IsOK() {
			return nil
		}
		return res.Error
	case "multi":
		need(2)
		ia, ic := parseIO(t[0])
		oa, oc := parseIO(t[1])
		var ins []bank.Input
		var outs []bank.Output
		for i := range ia {
			ins = append(ins, bank.Input{Address: ia[i], Coins: ic[i]})
		}
		for i := range oa {
			outs = append(outs, bank.Output{Address: oa[i], Coins: oc[i]})
		}
		return e.bank.InputOutputCoins(ctx, ins, outs)
	case "mint":
		need(2)
		return e.bank.MintCoins(ctx, parseAddr(t[0]), parseCoins(t[1]))
	case "burn":
		need(2)
		return e.bank.BurnCoins(ctx, parseAddr(t[0]), parseCoins(t[1]))
	case "add":
		need(2)
		return e.bank.AddCoins(ctx, parseAddr(t[0]), parseCoins(t[1]))
	case "sub":
		need(2)
		return e.bank.SubtractCoins(ctx, parseAddr(t[0]), parseCoins(t[1]))
	case "setcoins":
		need(2)
		return e.bank.SetCoins(ctx, parseAddr(t[0]), parseCoins(t[1]))
	case "recompute":
		need(0)
		e.bank.RecomputeSupply(ctx)
		return nil
	case "vest":
		need(2)
		addr, coins := parseAddr(t[0]), parseCoins(t[1])
		if !coins.IsValid() {
			panic(badOp{"vest coins"})
		}
		acc := e.acck.GetAccount(ctx, addr)
		if acc == nil {
			acc = e.acck.NewAccountWithAddress(ctx, addr)
		}
		base := std.BaseAccount{Address: acc.GetAddress(), Coins: acc.GetCoins(), PubKey: acc.GetPubKey(),
			AccountNumber: acc.GetAccountNumber(), Sequence: acc.GetSequence()}
		e.acck.SetAccount(ctx, &std.DelayedVestingAccount{BaseVestingAccount: std.BaseVestingAccount{
			BaseAccount:     base,
			VestingSchedule: std.VestingSchedule{OriginalVesting: coins, EndTime: vestEnd, Type: std.VestingDelayed},
		}})
		return nil
	case "restrict":
		need(1)
		var ds []string
		if t[0] != "-" {
			ds = strings.Split(t[0], ",")
		}
		e.bank.SetRestrictedDenoms(ctx, ds)
		return nil
	case "whitelist":
		need(1)
		acc := e.acck.GetAccount(ctx, parseAddr(t[0]))
		ga, ok := acc.(*gnoland.GnoAccount)
		if !ok {
			return fmt.Errorf("not-gno")
		}
		ga.SetTokenLockWhitelisted(true)
		e.acck.SetAccount(ctx, ga)
		return nil
	}
	panic(badOp{"op " + op})
}

func (e *env) runOp(ctx sdk.Context, op string, t []string) (res string) {
	defer func() {
		if v := recover(); v != nil {
			res = classifyPanic(v)
		}
	}()
	err := e.call(ctx, op, t)
	if err != nil && err.Error() == "not-gno" {
		return "err:not-gno"
	}
	return classifyErr(err)
}

// ---------------------------------------------------------------- independent snapshot of the whole store

type acctRec struct {
	keyAddr crypto.Address
	addr    crypto.Address
	num     uint64
	coins   std.Coins
	vesting bool
	white   bool
	ok      bool
}

type balRec struct {
	addr   crypto.Address
	denom  string
	raw    uint64
	rawLen int
}

type snapshot struct {
	accts   []acctRec
	bals    []balRec
	supply  []balRec // denom, raw
	global  uint64
	oddKeys []string
}

func (e *env) snap(ctx sdk.Context) *snapshot {
	s := &snapshot{}
	st := ctx.Store(e.key)
	it := st.Iterator(nil, nil, nil)
	defer it.Close()
	for ; it.Valid(); it.Next() {
		k, v := it.Key(), it.Value()
		switch {
		case bytes.HasPrefix(k, []byte("/a/")):
			if len(k) != 3+crypto.AddressSize {
				s.oddKeys = append(s.oddKeys, fmt.Sprintf("%x", k))
				continue
			}
			var r acctRec
			copy(r.keyAddr[:], k[3:])
			var acc std.Account
			if err := amino.Unmarshal(v, &acc); err == nil && acc != nil {
				r.ok = true
				r.addr = acc.GetAddress()
				r.num = acc.GetAccountNumber()
				r.coins = append(std.Coins(nil), acc.GetCoins()...)
				_, r.vesting = acc.(std.VestingAccount)
				if u, ok := acc.(std.AccountUnrestricter); ok {
					r.white = u.IsTokenLockWhitelisted()
				}
			}
			s.accts = append(s.accts, r)
		case bytes.HasPrefix(k, []byte("/b/")):
			if len(k) <= 3+crypto.AddressSize {
				s.oddKeys = append(s.oddKeys, fmt.Sprintf("%x", k))
				continue
			}
			var r balRec
			copy(r.addr[:], k[3:3+crypto.AddressSize])
			r.denom = string(k[3+crypto.AddressSize:])
			r.rawLen = len(v)
			if len(v) == 8 {
				r.raw = binary.BigEndian.Uint64(v)
			}
			s.bals = append(s.bals, r)
		case bytes.HasPrefix(k, []byte("/supply/")):
			r := balRec{denom: string(k[len("/supply/"):]), rawLen: len(v)}
			if len(v) == 8 {
				r.raw = binary.BigEndian.Uint64(v)
			}
			s.supply = append(s.supply, r)
		case string(k) == auth.GlobalAccountNumberKey:
			if err := amino.Unmarshal(v, &s.global); err != nil {
				s.oddKeys = append(s.oddKeys, "globalAccountNumber")
			}
		}
	}
	sort.Slice(s.accts, func(i, j int) bool { return bytes.Compare(s.accts[i].keyAddr[:], s.accts[j].keyAddr[:]) < 0 })
	sort.Slice(s.bals, func(i, j int) bool {
		if c := bytes.Compare(s.bals[i].addr[:], s.bals[j].addr[:]); c != 0 {
			return c < 0
		}
		return s.bals[i].denom < s.bals[j].denom
	})
	sort.Slice(s.supply, func(i, j int) bool { return s.supply[i].denom < s.supply[j].denom })
	return s
}

func (s *snapshot) canon() string {
	var b strings.Builder
	fmt.Fprintf(&b, "n=%d|S:", s.global)
	for i, r := range s.supply {
		if i > 0 {
			b.WriteByte(',')
		}
		fmt.Fprintf(&b, "%s=%d", r.denom, int64(r.raw))
	}
	b.WriteString("|A:")
	for i, r := range s.accts {
		if i > 0 {
			b.WriteByte(';')
		}
		fmt.Fprintf(&b, "%s#%d", addrName(r.keyAddr), r.num)
		if r.vesting {
			b.WriteByte('v')
		}
		if r.white {
			b.WriteByte('w')
		}
		if !r.ok || r.addr != r.keyAddr {
			b.WriteByte('!')
		}
		b.WriteByte(':')
		for j, c := range r.coins {
			if j > 0 {
				b.WriteByte(',')
			}
			fmt.Fprintf(&b, "%s=%d", c.Denom, c.Amount)
		}
	}
	b.WriteString("|B:")
	for i, r := range s.bals {
		if i > 0 {
			b.WriteByte(',')
		}
		fmt.Fprintf(&b, "%s/%s=%d", addrName(r.addr), r.denom, int64(r.raw))
	}
	if len(s.oddKeys) > 0 {
		fmt.Fprintf(&b, "|ODD:%s", strings.Join(s.oddKeys, ","))
	}
	return b.String()
}

func fnv64(s string) uint64 {
	h := uint64(14695981039346656037)
	for i := 0; i < len(s); i++ {
		h ^= uint64(s[i])
		h *= 1099511628211
	}
	return h
}

func compress(s string) string {
	if len(s) <= 290 {
		return s
	}
	return fmt.Sprintf("%s~%016x", s[:250], fnv64(s))
}

// sums returns Σ balances per denom over both tiers (math/big), and the recorded supplies.
func (s *snapshot) sums() (held map[string]*big.Int, rec map[string]*big.Int) {
	held, rec = map[string]*big.Int{}, map[string]*big.Int{}
	add := func(d string, v *big.Int) {
		if held[d] == nil {
			held[d] = new(big.Int)
		}
		held[d].Add(held[d], v)
	}
	for _, r := range s.bals {
		add(r.denom, new(big.Int).SetUint64(r.raw))
	}
	for _, a := range s.accts {
		for _, c := range a.coins {
			add(c.Denom, big.NewInt(c.Amount))
		}
	}
	for _, r := range s.supply {
		rec[r.denom] = new(big.Int).SetUint64(r.raw)
	}
	return
}

func isTier(d string) bool {
	for _, x := range accountTier {
		if x == d {
			return true
		}
	}
	return false
}

// structure checks the well-formedness clauses of the statement on a snapshot.
func (s *snapshot) structure() string {
	maxI := new(big.Int).SetUint64(math.MaxInt64)
	if len(s.oddKeys) > 0 {
		return "VIOL:odd-key " + s.oddKeys[0]
	}
	have := map[crypto.Address]bool{}
	nums := map[uint64]bool{}
	for _, a := range s.accts {
		if !a.ok {
			return "VIOL:account-undecodable " + addrName(a.keyAddr)
		}
		if a.addr != a.keyAddr {
			return fmt.Sprintf("VIOL:account-key %s holds account of %s", addrName(a.keyAddr), addrName(a.addr))
		}
		have[a.keyAddr] = true
		if nums[a.num] {
			return fmt.Sprintf("VIOL:accnum-dup %d", a.num)
		}
		nums[a.num] = true
		if a.num >= s.global {
			return fmt.Sprintf("VIOL:accnum-range %d>=%d", a.num, s.global)
		}
		prev := ""
		for i, c := range a.coins {
			if c.Amount <= 0 {
				return fmt.Sprintf("VIOL:nonpositive %s %s=%d", addrName(a.keyAddr), c.Denom, c.Amount)
			}
			if !isTier(c.Denom) {
				return fmt.Sprintf("VIOL:tier account object of %s holds %s", addrName(a.keyAddr), c.Denom)
			}
			if i > 0 && c.Denom <= prev {
				return fmt.Sprintf("VIOL:coins-order %s", addrName(a.keyAddr))
			}
			prev = c.Denom
		}
	}
	for _, r := range s.bals {
		v := new(big.Int).SetUint64(r.raw)
		if r.rawLen != 8 || v.Sign() <= 0 || v.Cmp(maxI) > 0 {
			return fmt.Sprintf("VIOL:nonpositive %s/%s raw=%d len=%d", addrName(r.addr), r.denom, r.raw, r.rawLen)
		}
		if isTier(r.denom) {
			return fmt.Sprintf("VIOL:tier split key for account-tier denom %s at %s", r.denom, addrName(r.addr))
		}
		if std.ValidateDenom(r.denom) != nil {
			return fmt.Sprintf("VIOL:bad-denom %q", r.denom)
		}
		if !have[r.addr] {
			return fmt.Sprintf("VIOL:no-account %s holds %s", addrName(r.addr), r.denom)
		}
	}
	for _, r := range s.supply {
		v := new(big.Int).SetUint64(r.raw)
		if r.rawLen != 8 || v.Sign() <= 0 || v.Cmp(maxI) > 0 {
			return fmt.Sprintf("VIOL:supply-range %s raw=%d len=%d", r.denom, r.raw, r.rawLen)
		}
		if r.denom == "" {
			return "VIOL:bad-denom supply key without denom"
		}
	}
	return ""
}

func sortedKeys(ms ...map[string]*big.Int) []string {
	seen := map[string]bool{}
	var ks []string
	for _, m := range ms {
		for k := range m {
			if !seen[k] {
				seen[k] = true
				ks = append(ks, k)
			}
		}
	}
	sort.Strings(ks)
	return ks
}

func (s *snapshot) supplyEq() string {
	held, rec := s.sums()
	for _, d := range sortedKeys(rec, held) {
		if get(held, d).Cmp(get(rec, d)) != 0 {
			return fmt.Sprintf("VIOL:supply-mismatch %s recorded=%s held=%s", d, get(rec, d), get(held, d))
		}
	}
	return ""
}

func sameMap(a, b map[string]*big.Int) (string, bool) {
	for _, d := range sortedKeys(a, b) {
		if get(a, d).Cmp(get(b, d)) != 0 {
			return d, false
		}
	}
	return "", true
}

func get(m map[string]*big.Int, d string) *big.Int {
	if v := m[d]; v != nil {
		return v
	}
	return new(big.Int)
}

// ---------------------------------------------------------------- exec

func exec(toks []string) (string, string) {
	if len(toks) == 0 {
		return "err:badop", "-"
	}
	e := E
	op, raw := toks[0], false
	if strings.HasSuffix(op, ".raw") {
		op, raw = strings.TrimSuffix(op, ".raw"), true
		switch op {
		case "send", "sendu", "fee", "multi", "mint", "burn", "add", "sub":
		default:
			return "err:badop", "-"
		}
	}
	if op == "unlock" {
		if len(toks) != 1 {
			return "err:badop", "-"
		}
		e.now = 2 * vestEnd
		ctx, _ := e.blockCtx()
		return compress("ok " + e.snap(ctx).canon()), "ok"
	}

	ctx0, _ := e.blockCtx()
	before := e.snap(ctx0)

	ctx, commit := e.blockCtx()
	txctx, write := ctx.CacheContext()
	res := e.runOp(txctx, op, toks[1:])
	if strings.HasPrefix(res, "err:badop") {
		return res, "-"
	}
	okRes := res == "ok"
	if okRes || raw {
		write()
		commit()
	}
	ctx1, _ := e.blockCtx()
	after := e.snap(ctx1)
	out := compress(strings.SplitN(res, " ", 2)[0] + " " + after.canon())
	if strings.HasPrefix(res, "err:other") || strings.HasPrefix(res, "panic:other") {
		out = res
	}

	// ---- oracle
	changed := before.canon() != after.canon()
	switch {
	case okRes && (op == "add" || op == "sub" || op == "setcoins"):
		e.tainted = true
	case !okRes && raw && changed:
		e.tainted = true
	case okRes && op == "recompute":
		e.tainted = false
	}
	if v := after.structure(); v != "" {
		return out, v
	}
	for _, inv := range []struct {
		name string
		f    sdk.Invariant
	}{
		{"balance-keys", bank.BalanceKeysInvariant(e.bank.ViewKeeper)},
		{"account-tier", bank.AccountTierInvariant(e.bank.ViewKeeper)},
		{"account-keyspace", auth.AccountKeyspaceInvariant(e.acck)},
	} {
		if msg, broken := inv.f(ctx1); broken {
			return out, "VIOL:repo-" + inv.name + " " + msg
		}
	}
	if !okRes && !raw && changed {
		return out, "VIOL:failed-op-changed-state"
	}
	if e.tainted && os.Getenv("C14_ORACLE_STRICT") == "" { // STRICT: self-test of the oracle (expects VIOLs on keeper-level ops)
		return out, "-"
	}
	if v := after.supplyEq(); v != "" {
		return out, v
	}
	if msg, broken := bank.SupplyInvariant(e.bank.ViewKeeper)(ctx1); broken {
		return out, "VIOL:repo-total-supply " + msg
	}
	hb, rb := before.sums()
	ha, ra := after.sums()
	switch op {
	case "recompute":
		// rewrites the records from what is held; the equation was checked above
	case "mint", "burn":
		if okRes {
			sign := int64(1)
			if op == "burn" {
				sign = -1
			}
			want := map[string]*big.Int{}
			for d, v := range rb {
				want[d] = new(big.Int).Set(v)
			}
			for _, c := range parseCoins(toks[2]) {
				if want[c.Denom] == nil {
					want[c.Denom] = new(big.Int)
				}
				want[c.Denom].Add(want[c.Denom], big.NewInt(sign*c.Amount))
			}
			if d, same := sameMap(want, ra); !same {
				return out, fmt.Sprintf("VIOL:mint-delta %s want=%s got=%s", d, get(want, d), get(ra, d))
			}
		}
	default:
		if d, same := sameMap(rb, ra); !same {
			return out, fmt.Sprintf("VIOL:supply-changed %s by %s: %s -> %s", d, op, get(rb, d), get(ra, d))
		}
		if op == "send" || op == "sendu" || op == "fee" || op == "multi" {
			if d, same := sameMap(hb, ha); !same {
				return out, fmt.Sprintf("VIOL:transfer-sum %s by %s: %s -> %s", d, op, get(hb, d), get(ha, d))
			}
		}
	}
	return out, "ok"
}

func main() {
	kit.Main(&kit.Harness{Gen: gen, Reset: reset, Exec: exec})
}
