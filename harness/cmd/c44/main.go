// Harness for C44: signature verification, including k-of-n multisig, is exact and never panics.
//
// Real code exercised in-process: tm2/pkg/crypto/multisig (PubKeyMultisigThreshold.VerifyBytes,
// Multisignature.AddSignature / AddSignatureFromPubKey, NewMultisig), its bitarray.CompactBitArray,
// amino (de)coding of Multisignature, and the single-key types ed25519 / secp256k1.
//
// Keys are real and deterministic: position i of a <keyspec> string is
//
//	e  ed25519 key #i        s  secp256k1 key #i      t  nested 1-of-2 multisig key over (ed #1000+i, secp #1000+i)
//	n  nil interface value (what amino decodes from an empty Any inside PubKeys)
//	d  the same key as position 0 (duplicate)          "-" = no keys
//
// Signature tokens (<sigtok>):  k<i> valid signature by the key at position i over msg,
// w<i> signature by key i over another message, m<i> k<i> with its last bit flipped,
// o<j> valid signature over msg by a key that is not in the set, x<hex> these raw bytes (x = empty).
//
// Op lines (the verify matrix — row i = key i, column j = signature j, '1' iff the REAL
// PubKeys[i].VerifyBytes(msg, sig_j) — is computed by `gen` and re-checked by `exec`; the Lean
// model receives it instead of doing cryptography):
//
//	ms    <k> <keyspec> <msg> <bits> <sigtok,…|-> <matrix>
//	      builds Multisignature{BitArray: <bits>, Sigs: …} of exactly that (possibly malformed)
//	      shape, amino-marshals it, and calls the real VerifyBytes.  <bits> = nil | <extra>:<elems-hex>
//	raw   <k> <keyspec> <msg> <bytes> <fail | bits/nsigs> <matrix>
//	      arbitrary signature bytes; the decoded shape on the line is re-checked against amino.
//	build <k> <keyspec> <msg> <add,…|-> <matrix>      add = <sigtok>@<index>  → AddSignature(sig, index)
//	                                                   | <sigtok>~<pos>   → AddSignatureFromPubKey(sig, keys[pos], keys)
//	                                                   | <sigtok>~f       → … with a key that is not in keys
//	      starts from NewMultisig(n), then VerifyBytes(Marshal()).
//	ba    <bits> <i>            Size / GetIndex(i) / NumTrueBitsBefore(i) of a struct literal
//	baset <bits> <i> <0|1>      SetIndex
//	single <e|s> <keyIdx> <msg> <mutation>     sign with the private key, mutate, verify
//	rawsig <e|s> <keyIdx> <msg> <sig>          arbitrary signature bytes under a real key
//	rawkey <e|s> <pub> <msg> <sig>             arbitrary public-key bytes (no-panic only)
//	gas    <keyspec> <bits> <nsigs>              auth.DefaultSigVerificationGasConsumer (ante.go) on such a shape
//	gasraw <keyspec> <bytes> <fail | bits/nsigs> … on arbitrary signature bytes
//
// Output of ms/raw:  <true|false|panic:class> sz=<Size()> nt=<NumTrueBitsBefore(n)>
//
// (K = 0 / K > n keys and nil constituent keys: fixed in /repo e5e21f6a46, kept as regressions.)
//
// Oracle (independent of the Lean model, evaluates the property statement): marked positions are
// counted from the raw Elems bytes; every marked position j-th in order must have a j-th signature
// that the real single-key verify accepts under that position's key.
//   - any panic                                          → VIOL:verify-panic
//   - result true although (k = 0 or k > n, #marked < k, or some marked position lacks a valid
//     signature by a non-nil key)                        → VIOL:accepts-invalid
//   - result false although the shape is well-formed for n, every signature is used
//     (len(sigs) = #marked), #marked ≥ k and all are valid → VIOL:rejects-valid
//     (with unused trailing signatures or a malformed shape the statement is silent: only the
//     soundness direction is judged).
package main

import (
	"bytes"
	"encoding/hex"
	"fmt"
	"runtime"
	"strconv"
	"strings"

	"github.com/gnolang/gno/tm2/pkg/amino"
	"github.com/gnolang/gno/tm2/pkg/crypto"
	"github.com/gnolang/gno/tm2/pkg/crypto/ed25519"
	"github.com/gnolang/gno/tm2/pkg/crypto/multisig"
	"github.com/gnolang/gno/tm2/pkg/crypto/multisig/bitarray"
	"github.com/gnolang/gno/tm2/pkg/crypto/secp256k1"
	"github.com/gnolang/gno/tm2/pkg/sdk/auth"
	"github.com/gnolang/gno/tm2/pkg/store"
	"gnoverif/kit"
)

// ---------------------------------------------------------------- keys and signatures

type keyT struct {
	id   string
	pub  crypto.PubKey
	sign func(msg []byte) []byte
}

var keyCache = map[string]*keyT{}

func mkKey(typ byte, i int) *keyT {
	id := fmt.Sprintf("%c%d", typ, i)
	if k, ok := keyCache[id]; ok {
		return k
	}
	var k *keyT
	switch typ {
	case 'e':
		priv := ed25519.GenPrivKeyFromSecret([]byte(fmt.Sprintf("c44-ed25519-%d", i)))
		k = &keyT{id: id, pub: priv.PubKey(), sign: func(m []byte) []byte { s, _ := priv.Sign(m); return s }}
	case 's':
		priv := secp256k1.GenPrivKeySecp256k1([]byte(fmt.Sprintf("c44-secp256k1-%d", i)))
		k = &keyT{id: id, pub: priv.PubKey(), sign: func(m []byte) []byte { s, _ := priv.Sign(m); return s }}
	case 't':
		a, b := mkKey('e', 1000+i), mkKey('s', 1000+i)
		pub := multisig.NewPubKeyMultisigThreshold(1, []crypto.PubKey{a.pub, b.pub})
		k = &keyT{id: id, pub: pub, sign: func(m []byte) []byte {
			ms := multisig.NewMultisig(2)
			ms.AddSignature(a.sign(m), 0)
			return ms.Marshal()
		}}
	default:
		panic("bad key type")
	}
	keyCache[id] = k
	return k
}

// resolveKeys: nil entries are nil public keys.
func resolveKeys(spec string) []*keyT {
	if spec == "-" {
		return nil
	}
	ks := make([]*keyT, len(spec))
	for i := 0; i < len(spec); i++ {
		switch c := spec[i]; c {
		case 'e', 's', 't':
			ks[i] = mkKey(c, i)
		case 'n':
			ks[i] = nil
		case 'd':
			if i > 0 && ks[0] != nil {
				ks[i] = ks[0]
			} else {
				ks[i] = mkKey('e', 0)
			}
		default:
			panic("bad keyspec")
		}
	}
	return ks
}

func pubKeys(ks []*keyT) []crypto.PubKey {
	out := make([]crypto.PubKey, len(ks))
	for i, k := range ks {
		if k != nil {
			out[i] = k.pub
		}
	}
	return out
}

var signCache = map[string][]byte{}

func signWith(k *keyT, msg []byte) []byte {
	ck := k.id + "|" + hex.EncodeToString(msg)
	if s, ok := signCache[ck]; ok {
		return append([]byte{}, s...)
	}
	s := k.sign(msg)
	signCache[ck] = s
	return append([]byte{}, s...)
}

func keyAt(ks []*keyT, i int) *keyT {
	if i >= 0 && i < len(ks) && ks[i] != nil {
		return ks[i]
	}
	return mkKey('e', 900+i)
}

func foreignKey(j int) *keyT {
	if j%2 == 0 {
		return mkKey('e', 500+j)
	}
	return mkKey('s', 500+j)
}

func sigBytes(tok string, ks []*keyT, msg []byte) []byte {
	if tok == "" {
		panic("empty sig token")
	}
	arg := tok[1:]
	switch tok[0] {
	case 'k':
		return signWith(keyAt(ks, kit.Atoi(arg)), msg)
	case 'w':
		return signWith(keyAt(ks, kit.Atoi(arg)), append(append([]byte{}, msg...), 0x01))
	case 'm':
		s := signWith(keyAt(ks, kit.Atoi(arg)), msg)
		if len(s) == 0 {
			return []byte{1}
		}
		s[len(s)-1] ^= 1
		return s
	case 'o':
		return signWith(foreignKey(kit.Atoi(arg)), msg)
	case 'x':
		if arg == "" {
			return []byte{}
		}
		return kit.MustUnHex(arg)
	}
	panic("bad sig token " + tok)
}

var verCache = map[string]bool{}

// realVerify is the real single-key verification (panics are reported as false + flag).
func realVerify(k *keyT, msg, sig []byte) (ok bool) {
	ck := k.id + "|" + hex.EncodeToString(msg) + "|" + hex.EncodeToString(sig)
	if v, hit := verCache[ck]; hit {
		return v
	}
	func() {
		defer func() {
			if recover() != nil {
				ok = false
			}
		}()
		ok = k.pub.VerifyBytes(msg, sig)
	}()
	if len(verCache) < 1<<18 {
		verCache[ck] = ok
	}
	return ok
}

func matrixOf(ks []*keyT, msg []byte, sigs [][]byte) string {
	if len(ks) == 0 || len(sigs) == 0 {
		return "-"
	}
	var sb strings.Builder
	for i, k := range ks {
		if i > 0 {
			sb.WriteByte('/')
		}
		for _, s := range sigs {
			if k != nil && realVerify(k, msg, s) {
				sb.WriteByte('1')
			} else {
				sb.WriteByte('0')
			}
		}
	}
	return sb.String()
}

// ---------------------------------------------------------------- bit array tokens

func parseBits(tok string) *bitarray.CompactBitArray {
	if tok == "nil" {
		return nil
	}
	a, b, ok := strings.Cut(tok, ":")
	if !ok {
		panic("bad bits token " + tok)
	}
	e := kit.Atoi(a)
	if e < 0 || e > 255 {
		panic("bad extra")
	}
	return &bitarray.CompactBitArray{ExtraBitsStored: byte(e), Elems: kit.MustUnHex(b)}
}

func showBits(ba *bitarray.CompactBitArray) string {
	if ba == nil {
		return "nil"
	}
	el := ba.Elems
	if el == nil {
		el = []byte{}
	}
	return fmt.Sprintf("%d:%s", ba.ExtraBitsStored, kit.Hex(el))
}

func splitList(tok string) []string {
	if tok == "-" {
		return nil
	}
	return strings.Split(tok, ",")
}

// ---------------------------------------------------------------- running the real code

func panicClass(v any) string {
	if e, ok := v.(runtime.Error); ok {
		s := e.Error()
		switch {
		case strings.Contains(s, "index out of range"), strings.Contains(s, "slice bounds out of range"):
			return "index"
		case strings.Contains(s, "nil pointer dereference"):
			return "nilkey"
		}
	}
	return "other"
}

func callVerify(pk crypto.PubKey, msg, sig []byte) (res string) {
	defer func() {
		if v := recover(); v != nil {
			res = "panic:" + panicClass(v)
		}
	}()
	if pk.VerifyBytes(msg, sig) {
		return "true"
	}
	return "false"
}

func safeInt(f func() int) (s string) {
	defer func() {
		if recover() != nil {
			s = "P"
		}
	}()
	return strconv.Itoa(f())
}

// ---------------------------------------------------------------- the independent oracle

func rawBit(elems []byte, i int) bool {
	return i/8 < len(elems) && (elems[i/8]>>(7-uint(i%8)))&1 == 1
}

func wellFormedFor(ba *bitarray.CompactBitArray, n int) bool {
	if n == 0 {
		return ba == nil || (ba.ExtraBitsStored == 0 && len(ba.Elems) == 0)
	}
	return ba != nil && int(ba.ExtraBitsStored) == n%8 && len(ba.Elems) == (n+7)/8
}

// judge evaluates the statement on (k, keys, decoded multisignature or nil, result).
func judge(res string, k uint64, ks []*keyT, msg []byte, dec *multisig.Multisignature) string {
	n := len(ks)
	var elems []byte
	if dec != nil && dec.BitArray != nil {
		elems = dec.BitArray.Elems
	}
	var marked []int
	nilMarked := false
	if dec != nil {
		for i := 0; i < n; i++ {
			if rawBit(elems, i) {
				marked = append(marked, i)
				if ks[i] == nil {
					nilMarked = true
				}
			}
		}
	}
	if strings.HasPrefix(res, "panic:") {
		if nilMarked {
			return "VIOL:verify-panic VerifyBytes panicked (" + res + ") with a nil constituent key at a marked position"
		}
		return "VIOL:verify-panic VerifyBytes panicked (" + res + ")"
	}
	if dec == nil { // undecodable signature bytes: must be rejected
		if res == "true" {
			return "VIOL:accepts-invalid undecodable signature bytes accepted"
		}
		return "ok"
	}
	allValid := true
	why := ""
	for j, p := range marked {
		if j >= len(dec.Sigs) {
			allValid, why = false, fmt.Sprintf("marked position %d has no signature", p)
			break
		}
		if ks[p] == nil || !realVerify(ks[p], msg, dec.Sigs[j]) {
			allValid, why = false, fmt.Sprintf("signature %d does not verify under key %d", j, p)
			break
		}
	}
	// a k-of-n key has 1 <= k <= n; anything else (decodable: the constructor is bypassed) is
	// not a key the statement lets verify anything — K = 0 would accept an empty
	// multisignature for EVERY message
	properKey := k >= 1 && k <= uint64(n)
	enough := uint64(len(marked)) >= k
	expected := properKey && enough && allValid
	if res == "true" && !expected {
		switch {
		case !properKey:
			why = fmt.Sprintf("k=%d is not a threshold for %d keys", k, n)
		case allValid:
			why = fmt.Sprintf("%d marked < k=%d", len(marked), k)
		}
		return "VIOL:accepts-invalid accepted although " + why
	}
	crisp := wellFormedFor(dec.BitArray, n) && len(dec.Sigs) == len(marked)
	if res == "false" && expected && crisp {
		return fmt.Sprintf("VIOL:rejects-valid rejected although %d>=k=%d positions are marked and every one carries a valid signature", len(marked), k)
	}
	return "ok"
}

// ---------------------------------------------------------------- exec

func parseK(s string) uint64 { return kit.Atou64(s) }

func thresholdKey(k uint64, ks []*keyT) multisig.PubKeyMultisigThreshold {
	// struct literal = what amino decoding yields (no constructor checks)
	return multisig.PubKeyMultisigThreshold{K: uint(k), PubKeys: pubKeys(ks)}
}

func sameShape(a *multisig.Multisignature, ba *bitarray.CompactBitArray, sigs [][]byte) bool {
	x, y := a.BitArray, ba
	xe := x == nil || (x.ExtraBitsStored == 0 && len(x.Elems) == 0)
	ye := y == nil || (y.ExtraBitsStored == 0 && len(y.Elems) == 0)
	if xe != ye {
		return false
	}
	if !xe && (x.ExtraBitsStored != y.ExtraBitsStored || !bytes.Equal(x.Elems, y.Elems)) {
		return false
	}
	if (x == nil) != (y == nil) {
		return false
	}
	if len(a.Sigs) != len(sigs) {
		return false
	}
	for i := range sigs {
		if !bytes.Equal(a.Sigs[i], sigs[i]) {
			return false
		}
	}
	return true
}

func tail(dec *multisig.Multisignature, n int) string {
	if dec == nil {
		return " sz=- nt=-"
	}
	return " sz=" + safeInt(dec.BitArray.Size) + " nt=" + safeInt(func() int { return dec.BitArray.NumTrueBitsBefore(n) })
}

func execMs(t []string) (string, string) {
	if len(t) != 7 {
		return "err:badop", "-"
	}
	k := parseK(t[1])
	ks := resolveKeys(t[2])
	msg := kit.MustUnHex(t[3])
	ba := parseBits(t[4])
	toks := splitList(t[5])
	sigs := make([][]byte, len(toks))
	for i, tk := range toks {
		sigs[i] = sigBytes(tk, ks, msg)
	}
	if matrixOf(ks, msg, sigs) != t[6] {
		return "err:matrix", "-"
	}
	bz, err := amino.Marshal(&multisig.Multisignature{BitArray: ba, Sigs: sigs})
	if err != nil {
		return "err:marshal", "-"
	}
	var dec multisig.Multisignature
	if err := amino.Unmarshal(bz, &dec); err != nil || !sameShape(&dec, ba, sigs) {
		return "err:roundtrip", "-"
	}
	res := callVerify(thresholdKey(k, ks), msg, bz)
	return res + tail(&dec, len(ks)), judge(res, k, ks, msg, &dec)
}

func decodeTok(bz []byte) (*multisig.Multisignature, string) {
	var dec multisig.Multisignature
	if err := amino.Unmarshal(bz, &dec); err != nil {
		return nil, "fail"
	}
	return &dec, fmt.Sprintf("%s/%d", showBits(dec.BitArray), len(dec.Sigs))
}

func execRaw(t []string) (string, string) {
	if len(t) != 7 {
		return "err:badop", "-"
	}
	k := parseK(t[1])
	ks := resolveKeys(t[2])
	msg := kit.MustUnHex(t[3])
	bz := kit.MustUnHex(t[4])
	dec, tok := decodeTok(bz)
	if tok != t[5] {
		return "err:decoded-shape", "-"
	}
	if dec != nil {
		if matrixOf(ks, msg, dec.Sigs) != t[6] {
			return "err:matrix", "-"
		}
	} else if t[6] != "-" {
		return "err:matrix", "-"
	}
	res := callVerify(thresholdKey(k, ks), msg, bz)
	return res + tail(dec, len(ks)), judge(res, k, ks, msg, dec)
}

type addT struct {
	tok    string // signature token
	direct bool   // AddSignature(sig, index)
	index  int
	pos    int  // AddSignatureFromPubKey(sig, keys[pos], keys)
	foreig bool // … with a key outside keys
}

func parseAdds(tok string) []addT {
	var out []addT
	for _, a := range splitList(tok) {
		if s, idx, ok := strings.Cut(a, "@"); ok {
			out = append(out, addT{tok: s, direct: true, index: kit.Atoi(idx)})
		} else if s, p, ok := strings.Cut(a, "~"); ok {
			if p == "f" {
				out = append(out, addT{tok: s, foreig: true})
			} else {
				out = append(out, addT{tok: s, pos: kit.Atoi(p)})
			}
		} else {
			panic("bad add token " + a)
		}
	}
	return out
}

func execBuild(t []string) (string, string) {
	if len(t) != 6 {
		return "err:badop", "-"
	}
	k := parseK(t[1])
	ks := resolveKeys(t[2])
	msg := kit.MustUnHex(t[3])
	adds := parseAdds(t[4])
	n := len(ks)
	sigs := make([][]byte, len(adds))
	for i, a := range adds {
		sigs[i] = sigBytes(a.tok, ks, msg)
	}
	if matrixOf(ks, msg, sigs) != t[5] {
		return "err:matrix", "-"
	}
	pubs := pubKeys(ks)
	ms := multisig.NewMultisig(n)
	errs := 0
	// independent bookkeeping for the oracle: position → latest signature
	latest := map[int][]byte{}
	honest := true
	var bpanic string
	func() {
		defer func() {
			if v := recover(); v != nil {
				bpanic = "panic:" + panicClass(v)
			}
		}()
		for i, a := range adds {
			switch {
			case a.direct:
				ms.AddSignature(sigs[i], a.index)
				if a.index < 0 || a.index >= n {
					honest = false
				} else {
					latest[a.index] = sigs[i]
				}
			case a.foreig:
				if ms.AddSignatureFromPubKey(sigs[i], foreignKey(77).pub, pubs) != nil {
					errs++
				} else {
					honest = false
				}
			default:
				if a.pos < 0 || a.pos >= n || pubs[a.pos] == nil {
					panic("bad build position")
				}
				if ms.AddSignatureFromPubKey(sigs[i], pubs[a.pos], pubs) != nil {
					errs++
					honest = false
				} else {
					first := a.pos
					for j := 0; j < a.pos; j++ {
						if ks[j] == ks[a.pos] {
							first = j
							break
						}
					}
					latest[first] = sigs[i]
				}
			}
		}
	}()
	if bpanic != "" {
		return bpanic, "VIOL:build-panic AddSignature panicked on a multisignature made by NewMultisig"
	}
	bz := ms.Marshal()
	var dec multisig.Multisignature
	if err := amino.Unmarshal(bz, &dec); err != nil {
		return "err:roundtrip", "VIOL:build-shape honestly built multisignature does not decode"
	}
	res := callVerify(thresholdKey(k, ks), msg, bz)
	// canonical view of the built structure: signature tokens in list order
	names := make([]string, len(ms.Sigs))
	for i, s := range ms.Sigs {
		names[i] = "?"
		for j := range adds {
			if bytes.Equal(sigs[j], s) {
				names[i] = normTok(adds[j].tok, t[2])
				break
			}
		}
	}
	sl := "-"
	if len(names) > 0 {
		sl = strings.Join(names, ",")
	}
	impl := fmt.Sprintf("%s bits=%s sigs=%s errs=%d", res, showBits(ms.BitArray), sl, errs)
	or := judge(res, k, ks, msg, &dec)
	if or == "ok" && honest && !strings.HasPrefix(res, "panic:") {
		// completeness + shape for the honest API
		valid := 0
		for p, s := range latest {
			if ks[p] != nil && realVerify(ks[p], msg, s) {
				valid++
			}
		}
		exp := k >= 1 && uint64(len(latest)) >= k && valid == len(latest)
		if len(dec.Sigs) != len(latest) {
			or = fmt.Sprintf("VIOL:build-shape %d signers but %d signatures stored", len(latest), len(dec.Sigs))
		} else if exp != (res == "true") {
			if exp {
				or = fmt.Sprintf("VIOL:rejects-valid %d valid signers >= k=%d rejected", valid, k)
			} else {
				or = fmt.Sprintf("VIOL:accepts-invalid accepted with %d signers (%d valid), k=%d", len(latest), valid, k)
			}
		}
	}
	return impl, or
}

// normTok: canonical name of a signature token — a position holding the duplicate key `d`
// names key 0 (the bytes are the same).
func normTok(tok, spec string) string {
	if tok != "" && strings.ContainsRune("kwm", rune(tok[0])) {
		if p, err := strconv.Atoi(tok[1:]); err == nil && p > 0 && p < len(spec) && spec[p] == 'd' {
			return tok[:1] + "0"
		}
	}
	return tok
}

func execBa(t []string) (string, string) {
	if len(t) != 3 {
		return "err:badop", "-"
	}
	ba := parseBits(t[1])
	i := kit.Atoi(t[2])
	var out string
	func() {
		defer func() {
			if v := recover(); v != nil {
				out = "panic:" + panicClass(v)
			}
		}()
		out = fmt.Sprintf("sz=%d get=%v ntb=%d", ba.Size(), ba.GetIndex(i), ba.NumTrueBitsBefore(i))
	}()
	if strings.HasPrefix(out, "panic:") {
		return out, "VIOL:bitarray-panic CompactBitArray read panicked"
	}
	// independent reading of GetIndex on shapes where the stored bits cover the index
	or := "ok"
	if ba != nil && i >= 0 && i < ba.Size() {
		if ba.GetIndex(i) != rawBit(ba.Elems, i) {
			or = "VIOL:bitarray-read GetIndex differs from the stored bit"
		}
	} else if ba.GetIndex(i) {
		or = "VIOL:bitarray-read GetIndex true outside Size()"
	}
	return out, or
}

func execBaSet(t []string) (string, string) {
	if len(t) != 4 {
		return "err:badop", "-"
	}
	ba := parseBits(t[1])
	i := kit.Atoi(t[2])
	v := t[3] == "1"
	var out string
	func() {
		defer func() {
			if v := recover(); v != nil {
				out = "panic:" + panicClass(v)
			}
		}()
		ok := ba.SetIndex(i, v)
		out = fmt.Sprintf("ok=%v bits=%s", ok, showBits(ba))
	}()
	if strings.HasPrefix(out, "panic:") {
		return out, "VIOL:bitarray-panic CompactBitArray.SetIndex panicked"
	}
	return out, "ok"
}

func singleKey(typ string, idx int) *keyT {
	if typ != "e" && typ != "s" {
		panic("bad single key type")
	}
	return mkKey(typ[0], idx)
}

func execSingle(t []string) (string, string) {
	if len(t) != 5 {
		return "err:badop", "-"
	}
	key := singleKey(t[1], kit.Atoi(t[2]))
	msg := kit.MustUnHex(t[3])
	mut := t[4]
	sig := signWith(key, msg)
	vkey, vmsg := key, msg
	switch {
	case mut == "none":
	case mut == "msg":
		vmsg = append(append([]byte{}, msg...), 0x00)
	case mut == "msgflip":
		if len(msg) == 0 {
			vmsg = []byte{0}
		} else {
			vmsg = append([]byte{}, msg...)
			vmsg[0] ^= 0x80
		}
	case mut == "key":
		vkey = singleKey(t[1], kit.Atoi(t[2])+1)
	case mut == "xtype":
		if t[1] == "e" {
			vkey = singleKey("s", kit.Atoi(t[2]))
		} else {
			vkey = singleKey("e", kit.Atoi(t[2]))
		}
	case strings.HasPrefix(mut, "bit"):
		j := kit.Atoi(mut[3:]) % (len(sig) * 8)
		sig[j/8] ^= 1 << uint(j%8)
	case strings.HasPrefix(mut, "trunc"):
		j := kit.Atoi(mut[5:]) % len(sig)
		sig = sig[:j]
	case mut == "ext":
		sig = append(sig, 0)
	case mut == "empty":
		sig = []byte{}
	case mut == "nil":
		sig = nil
	default:
		return "err:badop", "-"
	}
	res := callVerify(vkey.pub, vmsg, sig)
	or := "ok"
	switch {
	case strings.HasPrefix(res, "panic:"):
		or = "VIOL:verify-panic single-key VerifyBytes panicked"
	case mut == "none" && res != "true":
		or = "VIOL:single-rejects-valid signature by the private key does not verify"
	case mut != "none" && res != "false":
		or = "VIOL:single-accepts-mutated verifies after mutation " + mut
	}
	return res, or
}

func execRawSig(t []string) (string, string) {
	if len(t) != 5 {
		return "err:badop", "-"
	}
	key := singleKey(t[1], kit.Atoi(t[2]))
	res := callVerify(key.pub, kit.MustUnHex(t[3]), kit.MustUnHex(t[4]))
	switch {
	case strings.HasPrefix(res, "panic:"):
		return res, "VIOL:verify-panic single-key VerifyBytes panicked on arbitrary signature bytes"
	case res == "true":
		return res, "VIOL:single-accepts-mutated arbitrary signature bytes verify"
	}
	return res, "ok"
}

func execRawKey(t []string) (string, string) {
	if len(t) != 5 {
		return "err:badop", "-"
	}
	pub := kit.MustUnHex(t[2])
	var pk crypto.PubKey
	switch t[1] {
	case "e":
		var a ed25519.PubKeyEd25519
		copy(a[:], pub)
		pk = a
	case "s":
		var a secp256k1.PubKeySecp256k1
		copy(a[:], pub)
		pk = a
	default:
		return "err:badop", "-"
	}
	res := callVerify(pk, kit.MustUnHex(t[3]), kit.MustUnHex(t[4]))
	if strings.HasPrefix(res, "panic:") {
		return res, "VIOL:verify-panic single-key VerifyBytes panicked on arbitrary key bytes"
	}
	return "nopanic", "ok"
}

// execGas runs the ante handler's gas consumer (auth.DefaultSigVerificationGasConsumer →
// consumeMultisignatureVerificationGas), which walks the same bit array / signature list BEFORE
// VerifyBytes is called (ante.go), on the same kind of input.
//
//	gas    <keyspec> <bits> <nsigs>                 (signatures are empty byte strings; keys e|s|n only)
//	gasraw <keyspec> <bytes> <fail | bits/nsigs>    arbitrary signature bytes
func execGas(t []string) (string, string) {
	if len(t) != 4 {
		return "err:badop", "-"
	}
	ks := resolveKeys(t[1])
	var bz []byte
	want := int64(-1) // independent expectation, only for well-formed shapes with enough signatures
	if t[0] == "gas" {
		if ba := parseBits(t[2]); wellFormedFor(ba, len(ks)) {
			want = 0
			cnt := 0
			for i := range ks {
				if ba != nil && rawBit(ba.Elems, i) {
					cnt++
					if ks[i] != nil {
						switch ks[i].id[0] {
						case 'e':
							want += auth.DefaultParams().SigVerifyCostED25519
						case 's':
							want += auth.DefaultParams().SigVerifyCostSecp256k1
						default:
							want = -1 << 40
						}
					}
				}
			}
			if cnt > kit.Atoi(t[3]) || want < 0 {
				want = -1
			}
		}
	}
	if t[0] == "gasraw" {
		bz = kit.MustUnHex(t[2])
		if _, tok := decodeTok(bz); tok != t[3] {
			return "err:decoded-shape", "-"
		}
	} else {
		sigs := make([][]byte, kit.Atoi(t[3]))
		for i := range sigs {
			sigs[i] = []byte{}
		}
		var err error
		bz, err = amino.Marshal(&multisig.Multisignature{BitArray: parseBits(t[2]), Sigs: sigs})
		if err != nil {
			return "err:marshal", "-"
		}
	}
	var out string
	func() {
		defer func() {
			if v := recover(); v != nil {
				if _, rt := v.(runtime.Error); rt {
					out = "panic:" + panicClass(v)
				} else {
					out = "panic:decode" // amino.MustUnmarshal
				}
			}
		}()
		meter := store.NewInfiniteGasMeter()
		r := auth.DefaultSigVerificationGasConsumer(meter, bz, thresholdKey(1, ks), auth.DefaultParams())
		if r.IsOK() {
			out = fmt.Sprintf("gas=%d", meter.GasConsumed())
		} else {
			out = "err:result"
		}
	}()
	if strings.HasPrefix(out, "panic:") {
		return out, "VIOL:gas-" + strings.Replace(out, ":", "-", 1) + " DefaultSigVerificationGasConsumer panicked on multisig signature bytes"
	}
	if want >= 0 && out != fmt.Sprintf("gas=%d", want) {
		return out, fmt.Sprintf("VIOL:gas-amount expected gas=%d for the marked keys", want)
	}
	return out, "ok"
}

func exec(t []string) (string, string) {
	if len(t) == 0 {
		return "err:badop", "-"
	}
	switch t[0] {
	case "ms":
		return execMs(t)
	case "raw":
		return execRaw(t)
	case "build":
		return execBuild(t)
	case "ba":
		return execBa(t)
	case "baset":
		return execBaSet(t)
	case "single":
		return execSingle(t)
	case "rawsig":
		return execRawSig(t)
	case "rawkey":
		return execRawKey(t)
	case "gas", "gasraw":
		return execGas(t)
	}
	return "err:badop", "-"
}

func main() {
	kit.Main(&kit.Harness{
		Gen:   gen,
		Reset: func() {},
		Exec:  exec,
		PanicOracle: func(toks []string, v any) (string, string) {
			// a panic that escaped the per-call recover: harness bug or bad op line
			return "err:harness-panic " + fmt.Sprint(v), "-"
		},
	})
}
