package main

import (
	"fmt"
	"sort"
	"strings"

	"github.com/gnolang/gno/tm2/pkg/amino"
	"github.com/gnolang/gno/tm2/pkg/crypto/multisig"
	"gnoverif/kit"
)

// ---------------------------------------------------------------- emit helpers

type msShape struct {
	k    uint64
	spec string
	msg  []byte
	bits string
	sigs []string
}

func joinOrDash(xs []string) string {
	if len(xs) == 0 {
		return "-"
	}
	return strings.Join(xs, ",")
}

func (s msShape) sigBytesAll() ([]*keyT, [][]byte) {
	ks := resolveKeys(s.spec)
	out := make([][]byte, len(s.sigs))
	for i, t := range s.sigs {
		out[i] = sigBytes(t, ks, s.msg)
	}
	return ks, out
}

func emitMs(w *kit.Out, s msShape) {
	ks, sigs := s.sigBytesAll()
	w.Op("ms %d %s %s %s %s %s", s.k, s.spec, kit.Hex(s.msg), s.bits, joinOrDash(s.sigs), matrixOf(ks, s.msg, sigs))
}

func (s msShape) marshal() []byte {
	_, sigs := s.sigBytesAll()
	return amino.MustMarshal(&multisig.Multisignature{BitArray: parseBits(s.bits), Sigs: sigs})
}

func emitRaw(w *kit.Out, k uint64, spec string, msg, bz []byte) {
	ks := resolveKeys(spec)
	dec, tok := decodeTok(bz)
	m := "-"
	if dec != nil {
		m = matrixOf(ks, msg, dec.Sigs)
	}
	w.Op("raw %d %s %s %s %s %s", k, spec, kit.Hex(msg), kit.Hex(bz), tok, m)
}

func emitBuild(w *kit.Out, k uint64, spec string, msg []byte, adds []string) {
	ks := resolveKeys(spec)
	as := parseAdds(joinOrDash(adds))
	sigs := make([][]byte, len(as))
	for i, a := range as {
		sigs[i] = sigBytes(a.tok, ks, msg)
	}
	w.Op("build %d %s %s %s %s", k, spec, kit.Hex(msg), joinOrDash(adds), matrixOf(ks, msg, sigs))
}

// wfBits: the shape NewCompactBitArray(n) gives, with the given positions marked.
func wfBits(n int, marked []int) string {
	if n <= 0 {
		return "nil"
	}
	el := make([]byte, (n+7)/8)
	for _, i := range marked {
		if i >= 0 && i/8 < len(el) {
			el[i/8] |= 1 << uint(7-i%8)
		}
	}
	return fmt.Sprintf("%d:%s", n%8, kit.Hex(el))
}

func kSigs(pos []int) []string {
	out := make([]string, len(pos))
	for i, p := range pos {
		out[i] = fmt.Sprintf("k%d", p)
	}
	return out
}

func specOf(n int, pat string) string {
	b := make([]byte, n)
	for i := range b {
		b[i] = pat[i%len(pat)]
	}
	return string(b)
}

func subsetsOfSize(n, sz int) [][]int {
	var out [][]int
	var rec func(start int, cur []int)
	rec = func(start int, cur []int) {
		if len(cur) == sz {
			out = append(out, append([]int{}, cur...))
			return
		}
		for i := start; i < n; i++ {
			rec(i+1, append(cur, i))
		}
	}
	rec(0, nil)
	return out
}

func randSubset(r *kit.Rand, n, sz int) []int {
	if sz > n {
		sz = n
	}
	if sz < 0 {
		sz = 0
	}
	perm := make([]int, n)
	for i := range perm {
		perm[i] = i
	}
	for i := n - 1; i > 0; i-- {
		j := r.Intn(i + 1)
		perm[i], perm[j] = perm[j], perm[i]
	}
	s := append([]int{}, perm[:sz]...)
	sort.Ints(s)
	return s
}

var fixedMsg = []byte{1, 2, 3, 4}

// ---------------------------------------------------------------- boundary table

func genBoundary(w *kit.Out, r *kit.Rand, tier string) {
	w.Case("boundary-oldbugs")
	// the two panics fixed in /repo (8113a62ecf, 811aad199a): must now be false, never panic
	emitMs(w, msShape{2, "ese", fixedMsg, wfBits(3, []int{0, 1, 2}), kSigs([]int{0, 1})})
	emitMs(w, msShape{1, "e", fixedMsg, "9:e", []string{"k0"}}) // smallest shape: Size()=1, no Elems
	emitMs(w, msShape{1, specOf(9, "es"), fixedMsg, "9:80", []string{"k0"}})
	emitMs(w, msShape{1, specOf(200, "es"), fixedMsg, "200:80", []string{"k0"}})
	emitMs(w, msShape{2, specOf(200, "es"), fixedMsg, "200:ff", kSigs([]int{0, 1, 2, 3, 4, 5, 6, 7})})

	w.Case("boundary-subsets")
	nmax := 4
	if tier == "thorough" {
		nmax = 5
	}
	for n := 1; n <= nmax; n++ {
		spec := specOf(n, "es")
		for k := 1; k <= n; k++ {
			for sz := 0; sz <= n; sz++ {
				for _, sub := range subsetsOfSize(n, sz) {
					emitMs(w, msShape{uint64(k), spec, fixedMsg, wfBits(n, sub), kSigs(sub)})
				}
			}
		}
	}
	// n = 5..7: sizes around k
	for n := nmax + 1; n <= 7; n++ {
		spec := specOf(n, "se")
		for k := 1; k <= n; k++ {
			for _, sz := range []int{k - 1, k, k + 1} {
				if sz < 0 || sz > n {
					continue
				}
				sub := randSubset(r, n, sz)
				emitMs(w, msShape{uint64(k), spec, fixedMsg, wfBits(n, sub), kSigs(sub)})
			}
		}
	}

	w.Case("boundary-counts")
	// marked count ≠ len(sigs) both ways, wrong order, duplicates, extras — 2-of-3 and 1-of-2
	for _, s := range []msShape{
		{2, "ese", fixedMsg, wfBits(3, []int{0, 1}), []string{"k1", "k0"}},               // wrong order
		{2, "ese", fixedMsg, wfBits(3, []int{0, 1}), []string{"k0", "k0"}},               // duplicated signature
		{2, "ese", fixedMsg, wfBits(3, []int{0, 1}), []string{"k0", "k1", "k2"}},         // extra valid, unused (len = n)
		{2, "ese", fixedMsg, wfBits(3, []int{0, 1}), []string{"k0", "k1", "x00"}},        // extra junk, unused (len = n)
		{2, "ese", fixedMsg, wfBits(3, []int{0, 1}), []string{"k0", "k1", "x00", "x01"}}, // len > n
		{1, "es", fixedMsg, wfBits(2, []int{0}), []string{"k0", "x", "x"}},               // len > n, every marked valid
		{1, "es", fixedMsg, wfBits(2, []int{0}), []string{"k0", "x"}},                    // unused extra, len = n
		{2, "ese", fixedMsg, wfBits(3, []int{0, 1}), []string{"k0"}},                     // missing signature, len < k
		{1, "ese", fixedMsg, wfBits(3, []int{0, 1}), []string{"k0"}},                     // missing signature, len ≥ k
		{1, "ese", fixedMsg, wfBits(3, []int{0, 1, 2}), []string{"k0", "k1"}},            // 3 marked 2 sigs, k=1
		{2, "ese", fixedMsg, wfBits(3, []int{0}), []string{"k0", "k1"}},                  // fewer marked than k, enough sigs
		{2, "ese", fixedMsg, wfBits(3, []int{0, 2}), []string{"k0", "k1"}},               // signature of an unmarked signer
		{2, "ese", fixedMsg, wfBits(3, []int{0, 1}), []string{"k0", "w1"}},               // other message
		{2, "ese", fixedMsg, wfBits(3, []int{0, 1}), []string{"k0", "m1"}},               // mutated bytes
		{2, "ese", fixedMsg, wfBits(3, []int{0, 1}), []string{"k0", "o1"}},               // foreign key
		{2, "ese", fixedMsg, wfBits(3, []int{0, 1}), []string{"k0", "x"}},                // empty signature
		{3, "ese", fixedMsg, wfBits(3, []int{0, 1, 2}), []string{"k0", "k1", "m2"}},      // k valid + 1 invalid marked
		{2, "ese", fixedMsg, wfBits(3, []int{0, 1, 2}), []string{"k0", "k1", "w2"}},      // ≥k valid but one marked invalid
		{2, "ese", []byte{}, wfBits(3, []int{1, 2}), []string{"k1", "k2"}},               // empty message
		{1, "t", fixedMsg, wfBits(1, []int{0}), []string{"k0"}},                          // nested multisig key
		{2, "te", fixedMsg, wfBits(2, []int{0, 1}), []string{"k0", "k1"}},
		{2, "te", fixedMsg, wfBits(2, []int{0, 1}), []string{"m0", "k1"}},
		{2, "ed", fixedMsg, wfBits(2, []int{0, 1}), []string{"k0", "k0"}}, // duplicate key in the set
		{0, "es", fixedMsg, wfBits(2, nil), nil},                          // K = 0 (decodable)
		{0, "-", fixedMsg, "nil", nil},                                    // no keys at all
		{0, "-", fixedMsg, "0:e", nil},
		{1, "-", fixedMsg, "nil", nil},
		{3, "es", fixedMsg, wfBits(2, []int{0, 1}), []string{"k0", "k1"}},                   // K > n
		{9223372036854775807, "es", fixedMsg, wfBits(2, []int{0, 1}), []string{"k0", "k1"}}, // K = 2^63-1
	} {
		emitMs(w, s)
	}
	// padding bits of the last byte set (beyond n): ignored
	emitMs(w, msShape{2, "ese", fixedMsg, "3:df", kSigs([]int{0, 1})})
	emitMs(w, msShape{2, "ese", fixedMsg, "3:ff", kSigs([]int{0, 1, 2})})

	w.Case("boundary-shapes")
	// malformed bit arrays against several n; Elems all-ones so every stored bit is marked
	for _, n := range []int{0, 1, 7, 8, 9, 16} {
		spec := specOf(n, "es")
		if n == 0 {
			spec = "-"
		}
		for _, extra := range []int{0, 1, 7, 8, 9, 200, 255} {
			for nel := 0; nel <= 3; nel++ {
				bits := fmt.Sprintf("%d:%s", extra, kit.Hex(bytesOf(0xff, nel)))
				for _, ns := range []int{0, 1, n} {
					if ns > 16 {
						continue
					}
					pos := make([]int, ns)
					for i := range pos {
						pos[i] = i
					}
					emitMs(w, msShape{1, spec, fixedMsg, bits, kSigs(pos)})
				}
			}
		}
		emitMs(w, msShape{1, spec, fixedMsg, "nil", []string{"k0"}})
		emitMs(w, msShape{0, spec, fixedMsg, "nil", nil})
	}

	w.Case("boundary-bitarray")
	for _, bits := range []string{"nil", "0:e", "3:e", "9:e", "200:e", "0:ff", "3:ff", "3:a0", "8:ff", "9:ff", "200:80", "0:ffff", "1:ffff", "255:ff"} {
		for _, i := range []int{-64, -9, -8, -1, 0, 1, 2, 3, 7, 8, 9, 15, 16, 17, 192, 199, 200, 255, 1 << 20} {
			if i == 1<<20 {
				w.Op("ba %s %d", bits, 300) // NumTrueBitsBefore is linear: keep it small
				continue
			}
			w.Op("ba %s %d", bits, i)
			w.Op("baset %s %d 1", bits, i)
			w.Op("baset %s %d 0", bits, i)
		}
	}
}

func bytesOf(b byte, n int) []byte {
	out := make([]byte, n)
	for i := range out {
		out[i] = b
	}
	return out
}

// regressions of the defects fixed in /repo e5e21f6a46 and the remaining findings of the
// unchanged tree (each is pinned in corpus/C44 as well)
func genFindings(w *kit.Out) {
	w.Case("findings")
	// K ≥ 2^63 (int(pk.K) negative) and K = 0 used to accept; K > n can never be met
	emitMs(w, msShape{18446744073709551615, "es", fixedMsg, wfBits(2, nil), nil})
	emitMs(w, msShape{9223372036854775808, "e", fixedMsg, wfBits(1, nil), nil})
	emitMs(w, msShape{18446744073709551615, "ese", fixedMsg, wfBits(3, []int{1}), []string{"k1"}})
	emitMs(w, msShape{0, "es", fixedMsg, wfBits(2, nil), nil})
	emitMs(w, msShape{0, "es", []byte{}, wfBits(2, nil), nil})
	emitMs(w, msShape{0, "es", fixedMsg, wfBits(2, []int{0}), []string{"k0"}})
	emitMs(w, msShape{0, "-", fixedMsg, "nil", nil})
	emitMs(w, msShape{3, "es", fixedMsg, wfBits(2, []int{0, 1}), []string{"k0", "k1"}})
	// nil constituent key (amino decodes an empty Any to nil) at a marked position used to panic
	emitMs(w, msShape{1, "ne", fixedMsg, wfBits(2, []int{0}), []string{"k1"}})
	emitMs(w, msShape{1, "en", fixedMsg, wfBits(2, []int{0, 1}), []string{"k0", "k0"}})
	emitMs(w, msShape{1, "en", fixedMsg, wfBits(2, []int{0}), []string{"k0"}})          // nil key not marked: fine
	emitMs(w, msShape{1, "en", fixedMsg, wfBits(2, []int{0, 1}), []string{"w0", "k0"}}) // fails before reaching it
	emitMs(w, msShape{1, "n", fixedMsg, wfBits(1, []int{0}), []string{"x"}})
	// the ante handler's gas consumer walks the same structure unchecked
	w.Op("gas ese %s 2", wfBits(3, []int{0, 1, 2}))
	w.Op("gas e 2:c0 2") // bit array larger than the key list: pubkey.PubKeys[1]
	w.Op("gas e 9:80 1")
	w.Op("gas es %s 2", wfBits(2, []int{0, 1}))
	w.Op("gas ese %s 3", wfBits(3, []int{0, 2}))
	w.Op("gas en %s 2", wfBits(2, []int{0, 1}))
	w.Op("gas e 3:e 0")
	emitGasRaw(w, "es", []byte{0xff})
	emitGasRaw(w, "es", []byte{})
}

func emitGasRaw(w *kit.Out, spec string, bz []byte) {
	_, tok := decodeTok(bz)
	w.Op("gasraw %s %s %s", spec, kit.Hex(bz), tok)
}

// ---------------------------------------------------------------- structured random

func randSpec(r *kit.Rand, n int, allowNil bool) string {
	b := make([]byte, n)
	for i := range b {
		x := r.Intn(100)
		switch {
		case x < 46:
			b[i] = 'e'
		case x < 92:
			b[i] = 's'
		case x < 97 || i == 0:
			b[i] = 't'
		case x < 99:
			b[i] = 'd'
		case allowNil:
			b[i] = 'n'
		default:
			b[i] = 'e'
		}
	}
	return string(b)
}

func junkSig(r *kit.Rand) string {
	switch r.Intn(5) {
	case 0:
		return "x"
	case 1:
		return "x" + kit.Hex(r.Bytes(64))
	case 2:
		return "x" + kit.Hex(r.Bytes(1+r.Intn(70)))
	case 3:
		return "x" + kit.Hex(bytesOf(0, 64))
	}
	return "x" + kit.Hex(bytesOf(0xff, 64))
}

func honestShape(r *kit.Rand, msgs [][]byte) (msShape, int, []int) {
	n := r.Range(1, 7)
	spec := randSpec(r, n, true)
	k := r.Range(1, n)
	var sz int
	switch x := r.Intn(100); {
	case x < 40:
		sz = k
	case x < 60:
		sz = k + 1
	case x < 72:
		sz = n
	case x < 84:
		sz = k - 1
	default:
		sz = r.Range(0, n)
	}
	sub := randSubset(r, n, sz)
	return msShape{uint64(k), spec, kit.Pick(r, msgs), wfBits(n, sub), kSigs(sub)}, n, sub
}

func perturb(r *kit.Rand, s msShape, n int, sub []int) msShape {
	sigs := append([]string{}, s.sigs...)
	switch r.Intn(16) {
	case 0: // swap two signatures
		if len(sigs) >= 2 {
			i := r.Intn(len(sigs) - 1)
			sigs[i], sigs[i+1] = sigs[i+1], sigs[i]
		}
	case 1: // duplicate one over its neighbour
		if len(sigs) >= 2 {
			i := r.Intn(len(sigs) - 1)
			sigs[i+1] = sigs[i]
		}
	case 2: // drop the last
		if len(sigs) >= 1 {
			sigs = sigs[:len(sigs)-1]
		}
	case 3: // drop a random one
		if len(sigs) >= 1 {
			i := r.Intn(len(sigs))
			sigs = append(sigs[:i:i], sigs[i+1:]...)
		}
	case 4: // append unused extras
		for c := r.Range(1, 3); c > 0; c-- {
			switch r.Intn(3) {
			case 0:
				sigs = append(sigs, junkSig(r))
			case 1:
				sigs = append(sigs, fmt.Sprintf("k%d", r.Intn(n)))
			default:
				sigs = append(sigs, "o0")
			}
		}
	case 5, 6: // replace one signature by an invalid one
		if len(sigs) >= 1 {
			i := r.Intn(len(sigs))
			p := 0
			if i < len(sub) {
				p = sub[i]
			}
			switch r.Intn(5) {
			case 0:
				sigs[i] = fmt.Sprintf("w%d", p)
			case 1:
				sigs[i] = fmt.Sprintf("m%d", p)
			case 2:
				sigs[i] = fmt.Sprintf("o%d", r.Intn(4))
			case 3:
				sigs[i] = junkSig(r)
			default:
				sigs[i] = fmt.Sprintf("k%d", (p+1+r.Intn(n))%n)
			}
		}
	case 7: // mark one more position without a signature
		s.bits = wfBits(n, append(append([]int{}, sub...), r.Intn(n)))
	case 8: // unmark a position, keep its signature
		if len(sub) >= 1 {
			i := r.Intn(len(sub))
			s.bits = wfBits(n, append(append([]int{}, sub[:i]...), sub[i+1:]...))
		}
	case 9: // wrong ExtraBitsStored
		ba := parseBits(wfBits(n, sub))
		s.bits = fmt.Sprintf("%d:%s", kit.Pick(r, []int{0, 1, 7, 8, 9, 200, 255, (n + 1) % 8, (n + 7) % 8}), kit.Hex(ba.Elems))
	case 10: // too many / too few Elems
		ba := parseBits(wfBits(n, sub))
		el := ba.Elems
		if r.Bool() {
			el = append(el, byte(r.U64()))
		} else {
			el = el[:len(el)-1]
		}
		s.bits = fmt.Sprintf("%d:%s", ba.ExtraBitsStored, kit.Hex(el))
	case 11: // nil / empty bit array
		s.bits = kit.Pick(r, []string{"nil", "0:e", "3:e", "9:e"})
	case 12: // padding bits set
		ba := parseBits(wfBits(n, sub))
		ba.Elems[len(ba.Elems)-1] |= byte(0xff) >> uint(((n-1)%8)+1)
		s.bits = showBits(ba)
	case 13: // threshold out of range
		s.k = kit.Pick(r, []uint64{0, uint64(n) + 1, 1 << 62})
	case 14: // one key fewer / more than the bit array was made for
		if r.Bool() && n > 1 {
			s.spec = s.spec[:n-1]
		} else {
			s.spec += "e"
		}
	case 15: // different message than the one signed
		for i := range sigs {
			if sigs[i][0] == 'k' {
				sigs[i] = "w" + sigs[i][1:]
			}
		}
	}
	s.sigs = sigs
	return s
}

func genRandom(w *kit.Out, r *kit.Rand, msgs [][]byte, count int) {
	w.Case("random")
	for c := 0; c < count; c++ {
		s, n, sub := honestShape(r, msgs)
		if r.Chance(35) {
			s = perturb(r, s, n, sub)
			if r.Chance(15) {
				s = perturb(r, s, len(s.spec), sub)
			}
		}
		emitMs(w, s)
	}
}

// ---------------------------------------------------------------- malformed stream (raw bytes)

func genMalformed(w *kit.Out, r *kit.Rand, msgs [][]byte, count int, exhaustive bool) {
	w.Case("malformed")
	// hand-made byte strings around the amino layout of Multisignature
	for _, h := range []string{
		"e", "00", "0a", "0a00", "0a01", "0aff", "0a0208", "0a020800", "0a020801", "0a03088002", "0a0308c801",
		"0a0508c8011201", "0a0508031201e0", "0a0508031201e01200", "1200", "12001200", "0a001200", "12000a00",
		"0a000a00", "1a00", "0a001a00", "08031201e0", "0a05080312ffe0", "0a0412021200", "ffffffffffffffffffff01",
		"0a0908ffffffffffffffff7f", "0a0a08ffffffffffffffffff01", "12ffffffffffffffffff01", "0a0508031201e012",
		"0a0508031201e012ff", "0a0508031201e01240", "0a0710001201e00803",
	} {
		bz := kit.MustUnHex(h)
		for _, spec := range []string{"ese", "e"} {
			emitRaw(w, 1, spec, fixedMsg, bz)
		}
	}
	if exhaustive {
		// every single-bit mutation of one valid 2-of-3 multisignature
		s := msShape{2, "ese", fixedMsg, wfBits(3, []int{0, 2}), kSigs([]int{0, 2})}
		bz := s.marshal()
		for b := 0; b < len(bz)*8; b++ {
			m := append([]byte{}, bz...)
			m[b/8] ^= 1 << uint(b%8)
			emitRaw(w, s.k, s.spec, s.msg, m)
		}
		for l := 0; l <= len(bz); l++ {
			emitRaw(w, s.k, s.spec, s.msg, bz[:l])
		}
	}
	for c := 0; c < count; c++ {
		s, _, _ := honestShape(r, msgs)
		if len(s.sigs) > 3 { // keep lines short
			continue
		}
		bz := s.marshal()
		switch r.Intn(8) {
		case 0, 1, 2: // single-bit mutation (header region twice as likely)
			b := r.Intn(len(bz) * 8)
			if r.Bool() {
				b = r.Intn(min(len(bz), 12) * 8)
			}
			bz[b/8] ^= 1 << uint(b%8)
		case 3: // truncation
			bz = bz[:r.Intn(len(bz)+1)]
		case 4: // trailing bytes
			bz = append(bz, r.Bytes(1+r.Intn(4))...)
		case 5: // garbage
			bz = r.Bytes(r.Intn(40))
		case 6: // byte replaced
			bz[r.Intn(len(bz))] = byte(r.U64())
		case 7: // unchanged (valid bytes through the raw path)
		}
		emitRaw(w, s.k, s.spec, s.msg, bz)
	}
}

// ---------------------------------------------------------------- builder API

func genBuild(w *kit.Out, r *kit.Rand, msgs [][]byte, count int) {
	w.Case("build")
	// table: every insertion order of 3 signers out of 4, k = 2 and 3
	perms := [][]int{{0, 1, 3}, {0, 3, 1}, {1, 0, 3}, {1, 3, 0}, {3, 0, 1}, {3, 1, 0}}
	for _, p := range perms {
		for _, k := range []uint64{2, 3, 4} {
			var adds []string
			for _, i := range p {
				adds = append(adds, fmt.Sprintf("k%d~%d", i, i))
			}
			emitBuild(w, k, "eses", fixedMsg, adds)
		}
	}
	for _, t := range [][]string{
		nil,
		{"k0~0"},
		{"k0~0", "k0~0"},         // replacement
		{"w0~0", "k0~0"},         // invalid replaced by valid
		{"k0~0", "w0~0"},         // valid replaced by invalid
		{"k1~1", "k0~0", "k1~1"}, // replacement in the middle
		{"k0~f"},                 // foreign key: error, nothing added
		{"k0~0", "k1~f", "k1~1"},
		{"k0@5"}, {"k0@-1"}, {"k1@1", "k0@-1"}, {"k1@1", "k0@99", "k0@0"}, // out-of-range indices: appended, not marked
		{"k0@2"}, {"k2@0"}, // signature under the wrong position
	} {
		emitBuild(w, 1, "ese", fixedMsg, t)
		emitBuild(w, 2, "ese", fixedMsg, t)
	}
	emitBuild(w, 1, "ed", fixedMsg, []string{"k0~1"}) // duplicate key: getIndex finds position 0
	emitBuild(w, 2, "ed", fixedMsg, []string{"k0~1", "k0~0"})
	emitBuild(w, 0, "-", fixedMsg, nil)
	emitBuild(w, 1, "-", fixedMsg, []string{"k0@0"})
	for c := 0; c < count; c++ {
		n := r.Range(1, 7)
		spec := randSpec(r, n, false)
		k := uint64(r.Range(1, n))
		var sz int
		if r.Chance(70) {
			sz = r.Range(int(k), n)
		} else {
			sz = r.Range(0, n)
		}
		sub := randSubset(r, n, sz)
		// random insertion order
		for i := len(sub) - 1; i > 0; i-- {
			j := r.Intn(i + 1)
			sub[i], sub[j] = sub[j], sub[i]
		}
		var adds []string
		for _, p := range sub {
			tok := fmt.Sprintf("k%d", p)
			if r.Chance(6) {
				tok = kit.Pick(r, []string{fmt.Sprintf("w%d", p), fmt.Sprintf("m%d", p), "o1", "x", fmt.Sprintf("k%d", (p+1)%n)})
			}
			if r.Bool() {
				adds = append(adds, fmt.Sprintf("%s~%d", tok, p))
			} else {
				adds = append(adds, fmt.Sprintf("%s@%d", tok, p))
			}
			if r.Chance(8) { // add again (replacement)
				adds = append(adds, fmt.Sprintf("k%d@%d", p, p))
			}
			if r.Chance(3) {
				adds = append(adds, "k0~f")
			}
			if r.Chance(3) {
				adds = append(adds, fmt.Sprintf("k0@%d", kit.Pick(r, []int{-1, -8, n, n + 1, 64, 1000})))
			}
		}
		emitBuild(w, k, spec, kit.Pick(r, msgs), adds)
	}
}

// ---------------------------------------------------------------- single keys

func genSingle(w *kit.Out, r *kit.Rand, msgs [][]byte, count int) {
	w.Case("single")
	muts := []string{"none", "msg", "msgflip", "key", "xtype", "bit0", "bit7", "bit255", "bit256", "bit511", "trunc0", "trunc1", "trunc32", "trunc63", "ext", "empty", "nil"}
	for _, typ := range []string{"e", "s"} {
		for _, msg := range [][]byte{{}, fixedMsg} {
			for _, m := range muts {
				w.Op("single %s 0 %s %s", typ, kit.Hex(msg), m)
			}
		}
		for _, sig := range [][]byte{{}, {0}, bytesOf(0, 63), bytesOf(0, 64), bytesOf(0, 65), bytesOf(0xff, 64), bytesOf(0x01, 64), bytesOf(0x7f, 64), bytesOf(0, 128)} {
			w.Op("rawsig %s 0 %s %s", typ, kit.Hex(fixedMsg), kit.Hex(sig))
		}
	}
	for c := 0; c < count; c++ {
		typ := kit.Pick(r, []string{"e", "s"})
		idx := r.Intn(8)
		msg := kit.Pick(r, msgs)
		if r.Chance(30) {
			msg = r.Bytes(r.Intn(100))
		}
		switch x := r.Intn(10); {
		case x < 3:
			w.Op("single %s %d %s none", typ, idx, kit.Hex(msg))
		case x < 6:
			w.Op("single %s %d %s bit%d", typ, idx, kit.Hex(msg), r.Intn(512))
		case x < 7:
			w.Op("single %s %d %s %s", typ, idx, kit.Hex(msg), kit.Pick(r, []string{"msg", "msgflip", "key", "xtype", "ext", "empty"}))
		case x < 8:
			w.Op("single %s %d %s trunc%d", typ, idx, kit.Hex(msg), r.Intn(64))
		case x < 9:
			w.Op("rawsig %s %d %s %s", typ, idx, kit.Hex(msg), kit.Hex(r.Bytes(kit.Pick(r, []int{0, 1, 32, 63, 64, 64, 64, 65, 96}))))
		default:
			ln := 32
			if typ == "s" {
				ln = 33
			}
			pub := r.Bytes(ln)
			if typ == "s" && r.Bool() {
				pub[0] = byte(2 + r.Intn(2))
			}
			w.Op("rawkey %s %s %s %s", typ, kit.Hex(pub), kit.Hex(msg), kit.Hex(r.Bytes(64)))
		}
	}
}

// ---------------------------------------------------------------- bit arrays and the gas consumer

func randBits(r *kit.Rand) string {
	if r.Chance(5) {
		return "nil"
	}
	nel := r.Intn(5)
	extra := r.Intn(8)
	if r.Chance(25) {
		extra = kit.Pick(r, []int{8, 9, 16, 200, 255})
	}
	return fmt.Sprintf("%d:%s", extra, kit.Hex(r.Bytes(nel)))
}

func genBits(w *kit.Out, r *kit.Rand, count int) {
	w.Case("bitarray")
	for c := 0; c < count; c++ {
		bits := randBits(r)
		i := r.Range(-3, 44)
		switch r.Intn(3) {
		case 0:
			w.Op("ba %s %d", bits, i)
		case 1:
			w.Op("baset %s %d %d", bits, i, r.Intn(2))
		default:
			// well-formed shape
			n := r.Range(1, 40)
			sub := randSubset(r, n, r.Intn(n+1))
			w.Op("ba %s %d", wfBits(n, sub), r.Range(-1, n+1))
		}
	}
}

// genGas: inputs on which the gas consumer does NOT panic (the panicking ones are findings and
// are pinned in genFindings / the corpus, so that every other panic still fails the run).
func genGas(w *kit.Out, r *kit.Rand, count int) {
	w.Case("gas")
	for c := 0; c < count; c++ {
		n := r.Range(1, 7)
		spec := make([]byte, n)
		for i := range spec {
			spec[i] = kit.Pick(r, []byte{'e', 's'})
		}
		sub := randSubset(r, n, r.Intn(n+1))
		w.Op("gas %s %s %d", string(spec), wfBits(n, sub), len(sub)+r.Intn(2))
	}
}

// ---------------------------------------------------------------- entry point

func gen(w *kit.Out, r *kit.Rand, tier string) {
	scale := 1
	if tier == "thorough" {
		scale = 12
	}
	rb, rr, rm, rbu, rs, rba, rg := r.Fork(), r.Fork(), r.Fork(), r.Fork(), r.Fork(), r.Fork(), r.Fork()
	msgs := [][]byte{fixedMsg, {}, rr.Bytes(32), rr.Bytes(1 + rr.Intn(90))}
	genBoundary(w, rb, tier)
	genFindings(w)
	genRandom(w, rr, msgs, 1200*scale)
	genMalformed(w, rm, msgs, 500*scale, tier == "thorough")
	genBuild(w, rbu, msgs, 300*scale)
	genSingle(w, rs, msgs, 150*scale)
	genBits(w, rba, 300*scale)
	genGas(w, rg, 60*scale)
}
