package main

// Generators for C41: boundary table, structured-random block histories and
// state chains (evolved with the REAL validator-set code the way
// MakeGenesisState / updateState do), raw SaveState streams, a malformed stream.

import (
	"fmt"
	"strings"

	abci "github.com/gnolang/gno/tm2/pkg/bft/abci/types"
	"github.com/gnolang/gno/tm2/pkg/bft/types"
	"gnoverif/kit"
)

const interval = 100000 // only used to aim heights at checkpoint boundaries

// ---------------------------------------------------------------- state chains

type chain struct {
	o           *kit.Out
	lbh, ih     int64
	vals, nvals *types.ValidatorSet
	lhvc, lhpc  int64
	params      abci.ConsensusParams
	saved       []int64 // heights for which a validator entry was written
}

func mkVals(pows map[int]int64) []*types.Validator {
	var out []*types.Validator
	for id := 0; id < nKeys; id++ {
		if p, ok := pows[id]; ok {
			out = append(out, types.NewValidator(pubKeys[id], p))
		}
	}
	return out
}

// genesis as MakeGenesisState builds it
func newChain(o *kit.Out, ih int64, pows map[int]int64, params abci.ConsensusParams) *chain {
	c := &chain{o: o, ih: ih, lbh: ih - 1, lhvc: ih, lhpc: ih, params: params}
	c.vals = types.NewValidatorSet(mkVals(pows))
	c.nvals = types.NewValidatorSet(mkVals(pows)).CopyIncrementProposerPriority(1)
	return c
}

func (c *chain) save() {
	c.o.Op("ssave %d %d %s %s %d %s %d", c.lbh, c.ih, setStr(c.vals), setStr(c.nvals), c.lhvc, paramsStr(c.params), c.lhpc)
	if c.lbh+1 == c.ih {
		c.saved = append(c.saved, c.lbh+1)
	}
	c.saved = append(c.saved, c.lbh+2)
}

// step applies one block the way updateState does; changes may be nil.
func (c *chain) step(changes []*types.Validator, newParams *abci.ConsensusParams) {
	h := c.lbh + 1
	nv := c.nvals.Copy()
	if len(changes) > 0 {
		if err := nv.UpdateWithChangeSet(changes); err == nil {
			c.lhvc = h + 2
		}
	}
	nv.IncrementProposerPriority(1)
	if newParams != nil {
		c.params = *newParams
		c.lhpc = h + 1
	}
	c.vals = c.nvals
	c.nvals = nv
	c.lbh = h
}

func (c *chain) steps(n int) {
	for i := 0; i < n; i++ {
		c.step(nil, nil)
		c.save()
	}
}

// skip advances k blocks without saving the intermediate states, then saves.
func (c *chain) skip(k int) {
	for i := 0; i < k; i++ {
		c.step(nil, nil)
	}
	c.save()
}

func (c *chain) loadsAt(hs ...int64) {
	for _, h := range hs {
		c.o.Op("vload %d", h)
		c.o.Op("pload %d", h)
	}
}

func (c *chain) sweep(lo, hi int64) {
	for h := lo; h <= hi; h++ {
		c.o.Op("vload %d", h)
		c.o.Op("pload %d", h)
	}
}

func change(id int, power int64) []*types.Validator {
	return []*types.Validator{types.NewValidator(pubKeys[id], power)}
}

func bp(a, b, c, d, e int64) abci.ConsensusParams {
	return abci.ConsensusParams{Block: &abci.BlockParams{MaxTxBytes: a, MaxDataBytes: b, MaxBlockBytes: c, MaxGas: d, TimeIotaMS: e},
		Validator: &abci.ValidatorParams{PubKeyTypeURLs: []string{"ed25519"}}}
}

// ---------------------------------------------------------------- boundary table

func boundary(o *kit.Out) {
	// ----- block store
	o.Case("b/basic")
	o.Op("bheight")
	o.Op("bload 1")
	o.Op("bsave 1 7 0 1 1 -") // first block: LastCommit = &Commit{}
	o.Op("bsave 2 8 1 2 3 -")
	o.Op("bsave 3 9 2 3 6 -")
	for h := 0; h <= 4; h++ {
		o.Op("bload %d", h)
		o.Op("bmeta %d", h)
		o.Op("bcommit %d", h)
		o.Op("bseen %d", h)
		for i := -1; i <= 6; i++ {
			o.Op("bpart %d %d", h, i)
		}
	}
	o.Op("breopen")
	o.Op("bload 3")
	o.Op("bsave 4 10 3 4 2 -")
	o.Op("bcommit 3")
	o.Op("bheight")

	o.Case("b/initial-height")
	o.Op("bsave 50 1 0 5 2 -") // chain starting at InitialHeight 50
	o.Op("bsave 52 2 5 6 1 -") // gap
	o.Op("bsave 50 3 5 6 1 -") // again
	o.Op("bsave 51 4 5 6 2 -")
	o.Op("bload 50")
	o.Op("bload 51")
	o.Op("bload 52")
	o.Op("bcommit 49")
	o.Op("bcommit 50")
	o.Op("bseen 51")
	o.Op("breopen")
	o.Op("bsave 52 5 6 7 1 -")
	o.Op("bsave 4611686018427387904 5 6 7 1 -")

	o.Case("b/panics")
	o.Op("bsavenil")
	o.Op("bsave 1 1 0 1 3 0")
	o.Op("bsave 1 1 0 1 3 2")
	o.Op("bload 1")
	o.Op("bmeta 1")
	o.Op("bsave 1 1 - 1 3 -") // nil LastCommit: meta and parts written, then the panic
	o.Op("bload 1")
	o.Op("bmeta 1")
	o.Op("bpart 1 2")
	o.Op("bcommit 0")
	o.Op("bseen 1")
	o.Op("bheight")
	o.Op("bsave 1 2 0 - 2 -") // nil seen commit: C:0 written too
	o.Op("bload 1")
	o.Op("bpart 1 2") // stale part of the earlier attempt
	o.Op("bcommit 0")
	o.Op("bseen 1")
	o.Op("bsave 1 3 4 0 1 -") // seen commit &Commit{}: stored empty, reads back nil
	o.Op("bload 1")
	o.Op("bcommit 0")
	o.Op("bseen 1")
	o.Op("bsave 3 3 4 5 1 -")
	o.Op("bsave 2 3 4 5 1 -")
	o.Op("bsavenil")

	o.Case("b/missing-part")
	o.Op("bsave 1 5 0 1 3 -")
	o.Op("bdelpart 1 1")
	o.Op("bload 1")
	o.Op("bpart 1 0")
	o.Op("bpart 1 1")
	o.Op("bmeta 1")
	o.Op("bsave 2 6 1 2 2 -")
	o.Op("bdelmeta 2")
	o.Op("bload 2")
	o.Op("bpart 2 1")
	o.Op("bheight")

	o.Case("b/height0") // outside the statement's domain (Header.ValidateBasic rejects heights < 1): model only
	o.Op("bsave 0 1 0 1 3 -")
	o.Op("bheight")
	o.Op("bsave 0 2 0 1 2 -")
	o.Op("bload 0")
	o.Op("bpart 0 2")
	o.Op("bsave -3 3 0 1 1 -")
	o.Op("bsave -2 4 1 1 1 -")
	o.Op("bsave -1 5 1 1 1 -")
	o.Op("bsave 0 6 1 1 1 -")
	o.Op("bsave 9 7 1 1 1 -")
	o.Op("bload -3")
	o.Op("bcommit -4")
	o.Op("bload 0")
	o.Op("breopen")

	// ----- state store
	o.Case("s/empty")
	o.Op("vload 1")
	o.Op("pload 1")
	o.Op("sload")
	o.Op("vinfo 1")
	o.Op("pinfo 1")

	o.Case("s/genesis")
	c := newChain(o, 1, map[int]int64{0: 10, 1: 19, 2: 2}, bp(1, 2, 3, -1, 5))
	c.save()
	c.sweep(0, 3)
	o.Op("sload")
	c.steps(4)
	c.sweep(0, 7)
	for h := int64(1); h <= 6; h++ {
		o.Op("vinfo %d", h)
		o.Op("pinfo %d", h)
	}

	// the two witnesses of the (fixed) replay defect: a power decrease, then loads two or more blocks later
	o.Case("s/witness-10-19-2")
	c = newChain(o, 1, map[int]int64{0: 10, 1: 19, 2: 2}, bp(1, 2, 3, -1, 5))
	c.save()
	c.steps(2)
	c.step(change(1, 1), nil)
	c.save()
	c.steps(5)
	c.sweep(1, 10)
	o.Case("s/witness-23-6-24")
	c = newChain(o, 1, map[int]int64{0: 23, 1: 6, 2: 24}, bp(1, 2, 3, -1, 5))
	c.save()
	c.steps(1)
	c.step(change(2, 1), nil)
	c.save()
	c.steps(6)
	c.sweep(1, 10)

	// checkpoint boundary: chain starting just below 100000, no change / change at / around the checkpoint
	for _, chAt := range []int64{0, interval - 3, interval - 2, interval - 1, interval, interval + 1} {
		o.Case(fmt.Sprintf("s/checkpoint/%d", chAt))
		c = newChain(o, interval-4, map[int]int64{1: 5, 3: 1, 4: 9}, bp(10, 20, 30, 40, 50))
		c.save()
		for c.lbh < interval+4 {
			h := c.lbh + 1
			if h == chAt {
				p := bp(11, 21, 31, 41, 51)
				c.step(change(3, 7), &p)
			} else if h == chAt+2 {
				c.step(change(6, 4), nil)
			} else {
				c.step(nil, nil)
			}
			c.save()
		}
		c.sweep(interval-5, interval+6)
		for h := int64(interval - 2); h <= interval+2; h++ {
			o.Op("vinfo %d", h)
			o.Op("pinfo %d", h)
		}
	}
	o.Case("s/checkpoint/second")
	c = newChain(o, 2*interval-2, map[int]int64{0: 3, 7: 4}, bp(1, 1, 1, 1, 1))
	c.save()
	c.steps(6)
	c.sweep(2*interval-3, 2*interval+5)
	o.Op("vinfo %d", 2*interval)

	// gaps: states saved with big height jumps (not every block's state is saved)
	o.Case("s/gap")
	c = newChain(o, 1, map[int]int64{0: 4, 2: 7, 5: 1}, bp(1, 2, 3, 4, 5))
	c.save()
	c.steps(3)
	c.step(change(2, 2), nil)
	c.save()
	c.steps(2)
	c.skip(interval - 10) // lands below the checkpoint; entries in between do not exist
	c.steps(12)           // crosses it
	c.loadsAt(3, 6, 7, 8, 9, 500, interval-4, interval-3, interval-1, interval, interval+1, interval+8, interval+9)
	o.Op("vinfo %d", interval)
	c.skip(2*interval + 5)
	c.loadsAt(c.lbh+1, c.lbh+2, c.lbh)

	// raw SaveState calls that are not chains (no verdict): fallbacks, panics, degenerate records
	o.Case("s/raw")
	o.Op("ssave 0 0 - - 0 -/- 0") // the zero State: every record encodes to nothing
	o.Op("sload")
	o.Op("vload 2")
	o.Op("pload 1")
	o.Op("vinfo 2")
	o.Op("pinfo 1")
	o.Op("ssave 0 1 - - 1 -/- 1") // nil validator sets
	o.Op("vload 1")
	o.Op("vload 2")
	o.Op("pload 1")
	o.Op("vinfo 1")
	o.Op("pinfo 1")
	o.Op("ssave 4 1 0:1:0;0 0:1:0;0 7 1.1.1.1.1/- 3") // LastHeightValidatorsChanged 7 > 6
	o.Op("pload 5")                                   // params written before the panic; refers to height 3
	o.Op("pinfo 5")
	o.Op("sload")
	o.Op("ssave 4 9 0:1:0;0 0:1:0;0 5 1.1.1.1.1/- 5") // 1 < nextHeight < InitialHeight
	o.Op("ssave 0 9 0:1:0;0 0:1:0;0 2 1.1.1.1.1/- 2") // nextHeight 1 is tolerated
	o.Op("vload 2")
	o.Op("pload 1")
	o.Op("ssave 6 1 0:1:5;0 e;- 3 -/e 7")
	o.Op("vload 8") // refers to 3: absent
	o.Op("ssave 1 1 0:1:5;0 e;- 3 -/e 2")
	o.Op("vload 3") // the empty set, stored
	o.Op("vload 8") // replay of an empty set
	o.Op("pload 7")
	o.Op("pload 2")
	o.Op("ssave -7 1 0:1:5;0 0:2:6;- -6 -/e -6") // negative heights
	o.Op("vload -5")
	o.Op("vload -6")
	o.Op("pload -6")
	o.Op("ssave -3 1 0:1:5;0 0:2:6;- -6 -/e -6")
	o.Op("vload -1") // Go's truncated %: checkpoint 0 > -1
	o.Op("vinfo -1")
	o.Op("ssave 99997 1 0:3:1,1:4:-1;1 0:3:4,1:4:-4;0 5 1.2.3.4.5/a.b 99998") // checkpoint entry refers far back
	o.Op("vinfo 99999")
	o.Op("vload 99999")
	o.Op("ssave 3 1 0:3:1,1:4:-1;1 0:3:2,1:4:-2;0 5 1.2.3.4.5/a.b 2")
	o.Op("vload 5")
	o.Op("vload 99999") // replays 99994 rotations from height 5
	o.Op("ssave 99998 1 0:3:1,1:4:-1;1 0:3:0,1:4:0;0 5 1.2.3.4.5/a.b 99998")
	o.Op("vinfo 100000")
	o.Op("vload 100000")
	o.Op("ssave 99999 1 0:3:1,1:4:-1;1 0:3:9,1:4:-9;1 5 9.9.9.9.9/- 100000")
	o.Op("vload 100001") // from the checkpoint, not from 5
	o.Op("pload 100000")
	o.Op("ssave 199999 1 0:3:1,1:4:-1;1 - 5 -/- 7") // nil set at a checkpoint height: falls back to height 5
	o.Op("vinfo 200001")
	o.Op("ssave 199998 1 0:3:1,1:4:-1;1 - 5 -/- 7")
	o.Op("vload 200000")
	o.Op("ssave 4611686018427387904 1 - - 0 -/- 0")
	o.Op("ssave -4611686018427387904 1 - - 0 -/- 0")
}

// ---------------------------------------------------------------- random: block store

func randomBlocks(o *kit.Out, r *kit.Rand, id string, n int) {
	o.Case(id)
	h := int64(1)
	switch {
	case r.Chance(30):
		h = int64(r.Range(2, 300))
	case r.Chance(10):
		h = int64(interval*r.Range(1, 3) - r.Range(0, 3))
	}
	first := h
	top := int64(0) // generator's idea of the store height
	cm := int64(0)  // last commit token used
	for i := 0; i < n; i++ {
		switch p := r.Intn(100); {
		case p < 45:
			hh := h
			if top != 0 {
				hh = top + 1
			}
			if r.Chance(8) {
				hh += int64(r.Range(-2, 2))
			}
			lc, sc := cm, cm+1
			if top == 0 && r.Chance(70) {
				lc = 0
			}
			if r.Chance(4) {
				lc = -1
			}
			if r.Chance(4) {
				sc = -1
			}
			if r.Chance(4) {
				sc = 0
			}
			total := r.Range(1, 6)
			miss := "-"
			if r.Chance(6) {
				miss = fmt.Sprint(r.Intn(total))
			}
			o.Op("bsave %d %d %s %s %d %s", hh, r.Intn(65536), commitTok(lc), commitTok(sc), total, miss)
			if lc >= 0 && sc >= 0 && miss == "-" && (top == 0 || hh == top+1) && hh >= 1 {
				top = hh
				cm = sc
				if cm == 0 {
					cm = int64(r.Range(1, 1000))
				}
			}
		case p < 90:
			lo, hi := first-1, first+1
			if top != 0 {
				hi = top + 1
			}
			hh := lo + int64(r.Intn(int(hi-lo+1)))
			switch r.Intn(6) {
			case 0:
				o.Op("bload %d", hh)
			case 1:
				o.Op("bmeta %d", hh)
			case 2:
				o.Op("bpart %d %d", hh, r.Range(-1, 6))
			case 3:
				o.Op("bcommit %d", hh)
			case 4:
				o.Op("bseen %d", hh)
			default:
				o.Op("bheight")
			}
		case p < 94:
			o.Op("breopen")
		case p < 96:
			o.Op("bsavenil")
		case p < 98 && top != 0:
			o.Op("bdelpart %d %d", first+int64(r.Intn(int(top-first+1))), r.Range(0, 3))
		case top != 0:
			o.Op("bdelmeta %d", first+int64(r.Intn(int(top-first+1))))
		}
	}
	if top != 0 {
		for hh := first - 1; hh <= top+1 && hh < first+12; hh++ {
			o.Op("bload %d", hh)
			o.Op("bcommit %d", hh)
			o.Op("bseen %d", hh)
		}
	}
}

// ---------------------------------------------------------------- random: state chains

func randParams(r *kit.Rand) abci.ConsensusParams {
	var p abci.ConsensusParams
	if !r.Chance(4) {
		p.Block = &abci.BlockParams{MaxTxBytes: int64(r.Range(1, 9)), MaxDataBytes: int64(r.Range(1, 99)), MaxBlockBytes: int64(r.Range(1, 999)),
			MaxGas: int64(r.Range(-1, 50)), TimeIotaMS: int64(r.Range(1, 9))}
	}
	if !r.Chance(10) {
		p.Validator = &abci.ValidatorParams{PubKeyTypeURLs: []string{}}
		for i := r.Intn(3); i > 0; i-- {
			p.Validator.PubKeyTypeURLs = append(p.Validator.PubKeyTypeURLs, kit.Pick(r, []string{"ed25519", "secp", "k1", "multi"}))
		}
	}
	return p
}

func randChanges(r *kit.Rand, cur *types.ValidatorSet, big bool) []*types.Validator {
	var out []*types.Validator
	used := map[int]bool{}
	for n := r.Range(1, 2); n > 0; n-- {
		id := r.Intn(nKeys)
		if used[id] {
			continue
		}
		used[id] = true
		var p int64
		switch q := r.Intn(100); {
		case q < 20:
			p = 0 // removal (an error if not a member or the last one: then no change happens)
		case q < 55:
			p = int64(r.Range(1, 3)) // decrease-ish
		case big:
			p = int64(r.Range(1, 100000))
		default:
			p = int64(r.Range(1, 60))
		}
		out = append(out, types.NewValidator(pubKeys[id], p))
	}
	return out
}

func randomChain(o *kit.Out, r *kit.Rand, id string, thorough bool) {
	o.Case(id)
	ih := int64(1)
	switch {
	case r.Chance(25):
		ih = int64(r.Range(2, 500))
	case r.Chance(35):
		ih = int64(interval*r.Range(1, 3) - r.Range(0, 12))
	}
	big := r.Chance(30)
	pows := map[int]int64{}
	for n := r.Range(1, 5); n > 0; n-- {
		p := int64(r.Range(1, 40))
		if big {
			p = int64(r.Range(1, 100000))
		}
		pows[r.Intn(nKeys)] = p
	}
	c := newChain(o, ih, pows, randParams(r))
	c.save()
	n := r.Range(3, 30)
	gapped, longGap := false, false
	wantLong := r.Chance(3) || (thorough && r.Chance(6))
	for i := 0; i < n; i++ {
		switch p := r.Intn(100); {
		case p < 14:
			c.step(randChanges(r, c.nvals, big), nil)
			c.save()
		case p < 22:
			np := randParams(r)
			c.step(nil, &np)
			c.save()
		case p < 26:
			np := randParams(r)
			c.step(randChanges(r, c.nvals, big), &np)
			c.save()
		case p < 29 && !gapped:
			// a gap: rarely a long one that crosses a checkpoint
			k := r.Range(2, 40)
			if wantLong {
				k = r.Range(interval-50, interval+50)
				longGap = true
			}
			c.skip(k)
			gapped = true
		default:
			c.step(nil, nil)
			c.save()
		}
		if r.Chance(25) && !longGap {
			h := c.saved[r.Intn(len(c.saved))]
			if r.Chance(50) {
				h = c.saved[len(c.saved)-1-r.Intn(min(4, len(c.saved)))]
			}
			if r.Chance(5) {
				h += int64(r.Range(-2, 2))
			}
			if r.Bool() {
				o.Op("vload %d", h)
			} else {
				o.Op("pload %d", h)
			}
		}
	}
	// final sweep over (a window of) what was saved
	lo := max(c.ih-1, c.lbh-40)
	if longGap {
		lo = c.lbh // every load after the gap replays ~100000 rotations
	}
	c.sweep(lo, c.lbh+3)
	if len(c.saved) > 0 && !longGap {
		for k := 0; k < 6; k++ {
			c.loadsAt(c.saved[r.Intn(len(c.saved))])
		}
	}
	if r.Chance(50) {
		o.Op("sload")
	}
	if r.Chance(30) {
		cp := (c.lbh / interval) * interval
		o.Op("vinfo %d", cp)
		o.Op("vinfo %d", c.lhvc)
		o.Op("pinfo %d", c.lhpc)
		o.Op("pinfo %d", c.lbh+1)
	}
}

// ---------------------------------------------------------------- random: raw SaveState streams (not chains; model only)

func randSetTok(r *kit.Rand) string {
	if r.Chance(8) {
		return "-"
	}
	if r.Chance(4) {
		return "e;-"
	}
	var parts []string
	var ids []int
	for id := 0; id < nKeys; id++ {
		if r.Chance(35) {
			ids = append(ids, id)
			parts = append(parts, fmt.Sprintf("%d:%d:%d", id, r.Range(0, 30), r.Range(-60, 60)))
		}
	}
	if len(ids) == 0 {
		ids, parts = []int{3}, []string{"3:5:0"}
	}
	p := "-"
	if !r.Chance(10) {
		p = fmt.Sprint(kit.Pick(r, ids))
	}
	return strings.Join(parts, ",") + ";" + p
}

func randomRaw(o *kit.Out, r *kit.Rand, id string) {
	o.Case(id)
	base := int64(0)
	switch {
	case r.Chance(30):
		base = int64(interval - 6)
	case r.Chance(10):
		base = int64(2*interval - 6)
	case r.Chance(5):
		base = -8
	}
	hgt := func() int64 { return base + int64(r.Range(0, 12)) }
	n := r.Range(4, 25)
	for i := 0; i < n; i++ {
		switch p := r.Intn(100); {
		case p < 45:
			lbh := hgt()
			ih := int64(1)
			if r.Chance(25) {
				ih = lbh + int64(r.Range(-1, 3))
			}
			lhvc := lbh + 2 - int64(r.Intn(5))
			if r.Chance(15) {
				lhvc = int64(r.Range(0, 6))
			}
			if r.Chance(4) {
				lhvc = lbh + 3
			}
			lhpc := lbh + 1 - int64(r.Intn(4))
			if r.Chance(10) {
				lhpc = int64(r.Range(0, 6))
			}
			o.Op("ssave %d %d %s %s %d %s %d", lbh, ih, randSetTok(r), randSetTok(r), lhvc, paramsStr(randParams(r)), lhpc)
		case p < 65:
			o.Op("vload %d", hgt()+int64(r.Range(0, 2)))
		case p < 80:
			o.Op("pload %d", hgt()+int64(r.Range(0, 2)))
		case p < 88:
			o.Op("vinfo %d", hgt()+int64(r.Range(0, 2)))
		case p < 95:
			o.Op("pinfo %d", hgt())
		default:
			o.Op("sload")
		}
	}
}

// ---------------------------------------------------------------- malformed

func malformed(o *kit.Out, r *kit.Rand, n int) {
	o.Case("malformed")
	toks := []string{"", "-", "e", "0", "1", "-1", "+1", "01x", "7", "8", "65535", "65536", "4611686018427387904", "4611686018427387905",
		"-4611686018427387905", "99999999999999999999", "0:1:0;0", "0:1:0;1", "1:1:0,0:1:0;0", "0:1:0,0:2:0;0", "8:1:0;-", "0:1099511627776:0;0",
		"0:1099511627777:0;0", "0:1:1152921504606846977;0", "0:-1:0;0", "e;-", "e;0", ";", "0:1:0", "0:1;0", "-/-", "1.2.3.4.5/-", "1.2.3.4/-",
		"1.2.3.4.5.6/e", "-/e", "-/a.b.c.d", "-/a.b.c.d.e", "-/A", "-/a..b", "-/abcdefghi", "/", "1.2.3.4.5", "x", "2147483648", "2147483649"}
	ops := []string{"bsave", "bsavenil", "bload", "bmeta", "bpart", "bcommit", "bseen", "bheight", "breopen", "bdelpart", "bdelmeta",
		"ssave", "vload", "pload", "sload", "vinfo", "pinfo", "bogus", "Bsave"}
	arity := map[string]int{"bsave": 6, "bload": 1, "bmeta": 1, "bpart": 2, "bcommit": 1, "bseen": 1, "bdelpart": 2, "bdelmeta": 1,
		"ssave": 7, "vload": 1, "pload": 1, "vinfo": 1, "pinfo": 1}
	for i := 0; i < n; i++ {
		op := kit.Pick(r, ops)
		k := arity[op]
		if r.Chance(25) {
			k = r.Range(0, 8)
		}
		parts := []string{op}
		for j := 0; j < k; j++ {
			parts = append(parts, kit.Pick(r, toks))
		}
		o.Op("%s", strings.Join(parts, " "))
		if r.Chance(10) {
			o.Op("bsave %d 1 0 1 1 -", r.Range(1, 3))
		}
	}
}

func generate(o *kit.Out, r *kit.Rand, tier string) {
	boundary(o)
	nb, nc, nr := 300, 400, 250
	if tier == "thorough" {
		nb, nc, nr = 3000, 3500, 2500
	}
	rb, rc, rr, rm := r.Fork(), r.Fork(), r.Fork(), r.Fork()
	for i := 0; i < nb; i++ {
		randomBlocks(o, rb, fmt.Sprintf("rb/%d", i), rb.Range(5, 40))
	}
	for i := 0; i < nc; i++ {
		randomChain(o, rc, fmt.Sprintf("rc/%d", i), tier == "thorough")
	}
	for i := 0; i < nr; i++ {
		randomRaw(o, rr, fmt.Sprintf("rr/%d", i))
	}
	malformed(o, rm, 500)
}
