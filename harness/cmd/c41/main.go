// Harness for C41: the block store (tm2/pkg/bft/store.BlockStore) and the state
// store (tm2/pkg/bft/state: SaveState, LoadValidators, LoadConsensusParams,
// LoadState) return exactly what was saved.
//
// REAL stores over memdb.  Blocks are built with types.MakeBlock / MakePartSet /
// NewCommit from small descriptors on the op line; states are built from explicit
// descriptors (validator sets with powers and proposer priorities, consensus
// params, the two LastHeight…Changed fields) and passed to the exported
// sm.SaveState.
//
// op lines (ints decimal, |v| <= 2^62):
//
//	bsave <h> <d> <lc> <sc> <total> <miss>   SaveBlock(block(h,d,lc), its part set split in <total> parts
//	                                         (part <miss> left out unless `-`), seenCommit sc)
//	                                         d in 0..65535 = block data; lc/sc: `-` nil pointer, 0 = &Commit{}, k>=1 commit #k
//	bsavenil                                 SaveBlock(nil, …)
//	bload <h> | bmeta <h> | bpart <h> <i> | bcommit <h> | bseen <h>     the five loaders
//	bheight                                  Height() and the persisted BlockStoreStateJSON
//	breopen                                  NewBlockStore on the same db
//	bdelpart <h> <i> | bdelmeta <h>          raw db.Delete of a `P:h:i` / `H:h` key
//
//	ssave <lbh> <ih> <vals> <nvals> <lhvc> <params> <lhpc>     sm.SaveState of a State with these fields
//	vload <h> | pload <h> | sload            LoadValidators / LoadConsensusParams / LoadState
//	vinfo <h> | pinfo <h>                    the raw ValidatorsInfo / ConsensusParamsInfo record at h
//
//	set    = `-` (nil) | <vals>;<proposer>    vals = `e` | id:power:prio,…  (id 0..7 strictly increasing = address order,
//	                                           0<=power<=2^40, |prio|<=2^60); proposer = `-` | id (a member)
//	params = <block>/<validator>              block = `-` | five ints joined by `.`; validator = `-` | `e` | names joined by `.`
//
// outputs: see exec; errors are canonical tokens.
//
// oracle (plain maps keyed by height holding amino bytes of what was handed to the
// store; nothing is taken from the Lean model):
//
//	block-mismatch, meta-mismatch, part-mismatch, commit-mismatch, seen-mismatch
//	                     a loader returned something else than the data of the saved block
//	                     (judged for blocks with height >= 1 whose SaveBlock returned normally)
//	height-decreased     Height() went down across an operation / height-wrong: Height() is not the last saved height
//	valset-priority      LoadValidators(h): members and powers are those in effect at h, priorities or proposer are not
//	valset-mismatch      LoadValidators(h): different members/powers than in effect at h
//	valset-missing       LoadValidators(h) fails although the state for h was saved
//	params-mismatch, params-missing          same for LoadConsensusParams
//	state-mismatch       LoadState() differs from the last state saved
//
// "In effect at h" is evaluated by the oracle itself on the SaveState history: the
// history must be a chain of states as MakeGenesisState/updateState produce them
// (checked here with the real IncrementProposerPriority(1) per block, independent
// of the store); then Validators(first block)/NextValidators of the state saved
// with LastBlockHeight = h-2 (h-1 for params) is what is in effect at h.  Histories
// that are not such chains get no verdict (`-`).
package main

import (
	"bytes"
	"crypto/sha256"
	"fmt"
	"sort"
	"strings"
	"time"

	"github.com/gnolang/gno/tm2/pkg/amino"
	abci "github.com/gnolang/gno/tm2/pkg/bft/abci/types"
	sm "github.com/gnolang/gno/tm2/pkg/bft/state"
	"github.com/gnolang/gno/tm2/pkg/bft/store"
	"github.com/gnolang/gno/tm2/pkg/bft/types"
	"github.com/gnolang/gno/tm2/pkg/crypto"
	"github.com/gnolang/gno/tm2/pkg/crypto/ed25519"
	dbm "github.com/gnolang/gno/tm2/pkg/db"
	"github.com/gnolang/gno/tm2/pkg/db/memdb"
	"gnoverif/kit"
)

// ---------------------------------------------------------------- fixed universe

const nKeys = 8

var (
	pubKeys [nKeys]crypto.PubKey
	addrID  = map[crypto.Address]int{}
	t0      = time.Unix(1700000000, 0).UTC()
)

func init() {
	var ks []crypto.PubKey
	for i := 0; i < nKeys; i++ {
		ks = append(ks, ed25519.GenPrivKeyFromSecret([]byte{0xc4, 0x1c, byte(i)}).PubKey())
	}
	sort.Slice(ks, func(i, j int) bool { return ks[i].Address().Compare(ks[j].Address()) < 0 })
	for i, k := range ks {
		pubKeys[i] = k
		addrID[k.Address()] = i
	}
}

// ---------------------------------------------------------------- parsing (strict; mirrored by the Lean driver)

const lim = int64(1) << 62

func pInt(s string) (int64, bool) {
	t := s
	if strings.HasPrefix(t, "-") {
		t = t[1:]
	}
	if len(t) == 0 || len(t) > 19 {
		return 0, false
	}
	var v int64
	for _, c := range t {
		if c < '0' || c > '9' {
			return 0, false
		}
		d := int64(c - '0')
		if v > (lim-d)/10 {
			return 0, false
		}
		v = v*10 + d
	}
	if s[0] == '-' {
		v = -v
	}
	return v, true
}

func pNatLe(s string, hi int64) (int64, bool) {
	v, ok := pInt(s)
	if !ok || v < 0 || v > hi {
		return 0, false
	}
	return v, true
}

type valD struct {
	id          int
	power, prio int64
}

type setD struct {
	isNil bool
	vals  []valD
	prop  int // -1 = nil proposer
}

func pSet(s string) (setD, bool) {
	if s == "-" {
		return setD{isNil: true, prop: -1}, true
	}
	parts := strings.Split(s, ";")
	if len(parts) != 2 {
		return setD{}, false
	}
	d := setD{prop: -1}
	if parts[0] != "e" {
		last := -1
		for _, vt := range strings.Split(parts[0], ",") {
			f := strings.Split(vt, ":")
			if len(f) != 3 {
				return setD{}, false
			}
			id, ok1 := pNatLe(f[0], nKeys-1)
			pw, ok2 := pNatLe(f[1], 1<<40)
			pr, ok3 := pInt(f[2])
			if !ok1 || !ok2 || !ok3 || pr > 1<<60 || pr < -(1<<60) || int(id) <= last {
				return setD{}, false
			}
			last = int(id)
			d.vals = append(d.vals, valD{int(id), pw, pr})
		}
	}
	if parts[1] != "-" {
		id, ok := pNatLe(parts[1], nKeys-1)
		if !ok {
			return setD{}, false
		}
		found := false
		for _, v := range d.vals {
			if v.id == int(id) {
				found = true
			}
		}
		if !found {
			return setD{}, false
		}
		d.prop = int(id)
	}
	return d, true
}

func (d setD) build() *types.ValidatorSet {
	if d.isNil {
		return nil
	}
	vs := &types.ValidatorSet{}
	for _, v := range d.vals {
		val := &types.Validator{Address: pubKeys[v.id].Address(), PubKey: pubKeys[v.id], VotingPower: v.power, ProposerPriority: v.prio}
		vs.Validators = append(vs.Validators, val)
		if v.id == d.prop {
			vs.Proposer = val.Copy()
		}
	}
	return vs
}

func setStr(vs *types.ValidatorSet) string {
	if vs == nil {
		return "-"
	}
	var sb strings.Builder
	if len(vs.Validators) == 0 {
		sb.WriteString("e")
	}
	for i, v := range vs.Validators {
		if i > 0 {
			sb.WriteByte(',')
		}
		id, ok := addrID[v.Address]
		if !ok {
			sb.WriteString("?")
		}
		fmt.Fprintf(&sb, "%d:%d:%d", id, v.VotingPower, v.ProposerPriority)
	}
	sb.WriteByte(';')
	if vs.Proposer == nil {
		sb.WriteByte('-')
	} else if id, ok := addrID[vs.Proposer.Address]; ok {
		fmt.Fprintf(&sb, "%d", id)
	} else {
		sb.WriteString("?")
	}
	return sb.String()
}

func isName(s string) bool {
	if len(s) == 0 || len(s) > 8 {
		return false
	}
	for _, c := range s {
		if !((c >= 'a' && c <= 'z') || (c >= '0' && c <= '9')) {
			return false
		}
	}
	return true
}

func pParams(s string) (abci.ConsensusParams, bool) {
	var p abci.ConsensusParams
	parts := strings.Split(s, "/")
	if len(parts) != 2 {
		return p, false
	}
	if parts[0] != "-" {
		f := strings.Split(parts[0], ".")
		if len(f) != 5 {
			return p, false
		}
		var x [5]int64
		for i := range f {
			v, ok := pInt(f[i])
			if !ok {
				return p, false
			}
			x[i] = v
		}
		p.Block = &abci.BlockParams{MaxTxBytes: x[0], MaxDataBytes: x[1], MaxBlockBytes: x[2], MaxGas: x[3], TimeIotaMS: x[4]}
	}
	switch parts[1] {
	case "-":
	case "e":
		p.Validator = &abci.ValidatorParams{PubKeyTypeURLs: []string{}}
	default:
		ns := strings.Split(parts[1], ".")
		if len(ns) > 4 {
			return p, false
		}
		for _, n := range ns {
			if !isName(n) {
				return p, false
			}
		}
		p.Validator = &abci.ValidatorParams{PubKeyTypeURLs: ns}
	}
	return p, true
}

func paramsStr(p abci.ConsensusParams) string {
	b, v := "-", "-"
	if p.Block != nil {
		b = fmt.Sprintf("%d.%d.%d.%d.%d", p.Block.MaxTxBytes, p.Block.MaxDataBytes, p.Block.MaxBlockBytes, p.Block.MaxGas, p.Block.TimeIotaMS)
	}
	if p.Validator != nil {
		if len(p.Validator.PubKeyTypeURLs) == 0 {
			v = "e"
		} else {
			v = strings.Join(p.Validator.PubKeyTypeURLs, ".")
		}
	}
	return b + "/" + v
}

// commit token: -1 = nil pointer, 0 = empty commit, k >= 1
func pCommit(s string) (int64, bool) {
	if s == "-" {
		return -1, true
	}
	return pNatLe(s, 1<<31)
}

func commitTok(k int64) string {
	if k < 0 {
		return "-"
	}
	return fmt.Sprint(k)
}

// ---------------------------------------------------------------- real objects from descriptors

func mkCommit(k int64) *types.Commit {
	switch {
	case k < 0:
		return nil
	case k == 0:
		return types.NewCommit(types.BlockID{}, nil)
	}
	h := sha256.Sum256([]byte(fmt.Sprintf("commit-%d", k)))
	bid := types.BlockID{Hash: h[:20], PartsHeader: types.PartSetHeader{Total: int(k%3) + 1, Hash: h[12:]}}
	sig := &types.CommitSig{
		Type: types.PrecommitType, Height: k, Round: int(k % 5), BlockID: bid,
		Timestamp: t0.Add(time.Duration(k) * time.Second), ValidatorAddress: pubKeys[k%nKeys].Address(),
		ValidatorIndex: int(k % nKeys), Signature: bytes.Repeat([]byte{byte(k)}, 64),
	}
	pre := []*types.CommitSig{sig}
	if k%2 == 0 {
		pre = append(pre, nil)
	}
	return types.NewCommit(bid, pre)
}

func commitBytes(c *types.Commit) []byte {
	if c == nil {
		return nil
	}
	return amino.MustMarshal(c)
}

// name of a loaded commit: from its own fields
func commitName(c *types.Commit) string {
	if c == nil {
		return "nil"
	}
	if len(c.Precommits) == 0 || c.Precommits[0] == nil {
		return "C?"
	}
	return fmt.Sprintf("C%d", c.Precommits[0].Height)
}

type blockD struct {
	h  int64
	d  int64
	lc int64
}

func (b blockD) name() string { return fmt.Sprintf("%d.%d.%s", b.h, b.d, commitTok(b.lc)) }

func mkBlock(b blockD) *types.Block {
	txs := []types.Tx{{byte(b.d), byte(b.d >> 8)}}
	for i := int64(0); i < b.d%3; i++ {
		txs = append(txs, types.Tx(bytes.Repeat([]byte{byte(b.d + i)}, int(5+b.d%23))))
	}
	blk := types.MakeBlock(b.h, txs, mkCommit(b.lc))
	blk.Header.ChainID = "c41"
	blk.Header.Time = t0.Add(time.Duration(b.h%100000) * time.Second)
	blk.Header.ProposerAddress = pubKeys[uint64(b.d)%nKeys].Address()
	return blk
}

// names of everything ever constructed, keyed by its amino bytes (content-determined, so global)
var names = map[string]string{}

type built struct {
	blk   *types.Block
	ps    *types.PartSet
	bytes []byte   // amino(block)
	meta  []byte   // amino(NewBlockMeta(block, ps))
	parts [][]byte // amino(part i)
}

func build(b blockD, total int) *built {
	blk := mkBlock(b)
	sized := amino.MustMarshalSized(blk)
	n := len(sized)
	partSize := (n + total - 1) / total
	ps := blk.MakePartSet(partSize)
	if ps.Total() != total {
		panic(fmt.Sprintf("harness: wanted %d parts, got %d (size %d)", total, ps.Total(), n))
	}
	r := &built{blk: blk, ps: ps, bytes: amino.MustMarshal(blk), meta: amino.MustMarshal(types.NewBlockMeta(blk, ps))}
	names["B"+string(r.bytes)] = "B" + b.name()
	names["M"+string(r.meta)] = fmt.Sprintf("M%s/%d", b.name(), total)
	for i := 0; i < total; i++ {
		pb := amino.MustMarshal(ps.GetPart(i))
		r.parts = append(r.parts, pb)
		names["P"+string(pb)] = fmt.Sprintf("P%s/%d#%d", b.name(), total, i)
	}
	return r
}

func nameOf(kind string, bz []byte) string {
	if n, ok := names[kind+string(bz)]; ok {
		return n
	}
	h := sha256.Sum256(bz)
	return fmt.Sprintf("%s?%x", kind, h[:4])
}

// ---------------------------------------------------------------- world + oracle bookkeeping

type savedBlock struct {
	block, meta []byte
	parts       [][]byte
	lc, sc      []byte
}

type stDesc struct {
	lbh, ih, lhvc, lhpc int64
	vals, nvals         *types.ValidatorSet
	params              abci.ConsensusParams
}

type world struct {
	bdb dbm.DB
	bs  *store.BlockStore
	sdb dbm.DB
	// block oracle
	saved  map[int64]*savedBlock
	dirty  map[int64]bool // partially written or raw-deleted heights: no verdict
	offBlk bool           // a block with height < 1 was handed to the store: outside the statement's domain
	lastOK int64          // height of the last block saved normally (0 = none)
	// state oracle
	cons     bool // the SaveState history so far is a chain
	started  bool
	prev     stDesc
	effV     map[int64][]byte
	effP     map[int64][]byte
	lastSt   []byte // bytes of the last State saved normally
	anySaved bool
}

var w *world

func reset() {
	bdb, sdb := memdb.NewMemDB(), memdb.NewMemDB()
	w = &world{bdb: bdb, bs: store.NewBlockStore(bdb), sdb: sdb, saved: map[int64]*savedBlock{}, dirty: map[int64]bool{},
		cons: true, effV: map[int64][]byte{}, effP: map[int64][]byte{}}
}

// catch runs f and returns the recovered panic message ("" = returned normally).
func catch(f func()) (msg string) {
	defer func() {
		if v := recover(); v != nil {
			msg = fmt.Sprint(v)
			if msg == "" {
				msg = "?"
			}
		}
	}()
	f()
	return ""
}

func classify(msg string) string {
	switch {
	case strings.Contains(msg, "non-nil block"):
		return "panic:nil-block"
	case strings.Contains(msg, "contiguous blocks"):
		return "panic:noncontiguous"
	case strings.Contains(msg, "complete block part sets"):
		return "panic:incomplete"
	case strings.Contains(msg, "nil *Commit pointer"):
		return "panic:nil-commit"
	case strings.Contains(msg, "Error reading block"):
		return "panic:decode"
	case strings.Contains(msg, "saveState: nextHeight"):
		return "panic:invalid-height"
	case strings.Contains(msg, "LastHeightChanged cannot be greater"):
		return "panic:lhc-gt-height"
	case strings.Contains(msg, "Couldn't find validators"):
		return "panic:novals"
	case strings.Contains(msg, "Couldn't find consensus params"):
		return "panic:noparams"
	case strings.Contains(msg, "empty validator set"):
		return "panic:empty"
	case strings.Contains(msg, "non-positive times"):
		return "panic:times"
	case strings.Contains(msg, "Total voting power should be guarded"):
		return "panic:total"
	case strings.Contains(msg, "divide by zero"):
		return "panic:divzero"
	}
	return "panic:other " + msg
}

func (w *world) hj() string {
	return fmt.Sprintf("H=%d J=%d", w.bs.Height(), store.LoadBlockStoreStateJSON(w.bdb).Height)
}

// heightVerdict compares Height() before/after an operation.
func (w *world) heightVerdict(before int64) string {
	if w.offBlk {
		return "-"
	}
	after := w.bs.Height()
	if after < before {
		return fmt.Sprintf("VIOL:height-decreased Height() went from %d to %d", before, after)
	}
	if after != w.lastOK {
		return fmt.Sprintf("VIOL:height-wrong Height()=%d but the last block saved has height %d", after, w.lastOK)
	}
	return "ok"
}

// ---------------------------------------------------------------- state oracle: is the history a chain?

func vsBytes(vs *types.ValidatorSet) []byte {
	if vs == nil {
		return nil
	}
	return amino.MustMarshal(vs)
}

func inc1(vs *types.ValidatorSet, k int64) *types.ValidatorSet {
	c := vs.Copy()
	for i := int64(0); i < k; i++ {
		c.IncrementProposerPriority(1)
	}
	// Copy() keeps the old Proposer pointer when k == 0; normalise to the member
	if c.Proposer != nil {
		for _, v := range c.Validators {
			if v.Address == c.Proposer.Address {
				c.Proposer = v
			}
		}
	}
	return c
}

func nonEmpty(vs *types.ValidatorSet) bool { return vs != nil && len(vs.Validators) > 0 }

const maxGap = 250000

// chainStep decides whether `cur`, saved after `w.prev`, continues a chain.
func (w *world) chainStep(cur stDesc) bool {
	if !w.started {
		// genesis shape (MakeGenesisState): nextHeight == InitialHeight, both change heights = InitialHeight,
		// NextValidators = Validators rotated once
		if cur.ih < 1 || cur.lbh+1 != cur.ih || cur.lhvc != cur.ih || cur.lhpc != cur.ih || !nonEmpty(cur.vals) || !nonEmpty(cur.nvals) {
			return false
		}
		return bytes.Equal(vsBytes(inc1(cur.vals, 1)), vsBytes(cur.nvals))
	}
	p := w.prev
	k := cur.lbh - p.lbh
	if k < 1 || k > maxGap || cur.ih != p.ih || !nonEmpty(cur.vals) || !nonEmpty(cur.nvals) {
		return false
	}
	// blocks p.lbh+1 … cur.lbh-1 (not saved) changed nothing; block cur.lbh may have
	mid := inc1(p.nvals, k-1) // NextValidators after block cur.lbh-1 = Validators after block cur.lbh
	if !bytes.Equal(vsBytes(mid), vsBytes(cur.vals)) {
		return false
	}
	switch {
	case cur.lhvc == p.lhvc:
		if !bytes.Equal(vsBytes(inc1(mid, 1)), vsBytes(cur.nvals)) {
			return false
		}
	case cur.lhvc == cur.lbh+2:
		// EndBlock of block cur.lbh changed the set: any non-empty set may come out
	default:
		return false
	}
	pb, cb := amino.MustMarshal(p.params), amino.MustMarshal(cur.params)
	switch {
	case cur.lhpc == p.lhpc:
		if !bytes.Equal(pb, cb) {
			return false
		}
	case cur.lhpc == cur.lbh+1:
	default:
		return false
	}
	return true
}

func sameMembers(a, b *types.ValidatorSet) bool {
	if a == nil || b == nil || len(a.Validators) != len(b.Validators) {
		return false
	}
	for i := range a.Validators {
		if a.Validators[i].Address != b.Validators[i].Address || a.Validators[i].VotingPower != b.Validators[i].VotingPower ||
			!a.Validators[i].PubKey.Equals(b.Validators[i].PubKey) {
			return false
		}
	}
	return true
}

// ---------------------------------------------------------------- exec

func exec(t []string) (string, string) {
	if len(t) == 0 {
		return "err:badop", "-"
	}
	switch t[0] {
	case "bsave":
		if len(t) != 7 {
			break
		}
		h, ok1 := pInt(t[1])
		d, ok2 := pNatLe(t[2], 65535)
		lc, ok3 := pCommit(t[3])
		sc, ok4 := pCommit(t[4])
		total, ok5 := pNatLe(t[5], 6)
		if !(ok1 && ok2 && ok3 && ok4 && ok5) || total == 0 {
			break
		}
		miss := int64(-1)
		if t[6] != "-" {
			m, ok := pNatLe(t[6], 5)
			if !ok || m >= total {
				break
			}
			miss = m
		}
		bd := blockD{h, d, lc}
		b := build(bd, int(total))
		ps := b.ps
		if miss >= 0 {
			ps = types.NewPartSetFromHeader(b.ps.Header())
			for i := 0; i < int(total); i++ {
				if int64(i) != miss {
					if _, err := ps.AddPart(b.ps.GetPart(i)); err != nil {
						panic(err)
					}
				}
			}
		}
		seen := mkCommit(sc)
		before := w.bs.Height()
		if h < 1 {
			w.offBlk = true
		}
		msg := catch(func() { w.bs.SaveBlock(b.blk, ps, seen) })
		res := "ok"
		if msg != "" {
			res = classify(msg)
			if res == "panic:nil-commit" {
				w.dirty[h], w.dirty[h-1] = true, true
			}
		} else {
			w.saved[h] = &savedBlock{block: b.bytes, meta: b.meta, parts: b.parts, lc: commitBytes(b.blk.LastCommit), sc: commitBytes(seen)}
			w.lastOK = h
		}
		return res + " " + w.hj(), w.heightVerdict(before)
	case "bsavenil":
		if len(t) != 1 {
			break
		}
		before := w.bs.Height()
		b := build(blockD{1, 0, 0}, 1)
		msg := catch(func() { w.bs.SaveBlock(nil, b.ps, mkCommit(0)) })
		res := "ok"
		if msg != "" {
			res = classify(msg)
		}
		return res + " " + w.hj(), w.heightVerdict(before)
	case "bload", "bmeta", "bcommit", "bseen":
		if len(t) != 2 {
			break
		}
		h, ok := pInt(t[1])
		if !ok {
			break
		}
		judged := !w.offBlk && !w.dirty[h]
		sb := w.saved[h]
		switch t[0] {
		case "bload":
			var blk *types.Block
			if msg := catch(func() { blk = w.bs.LoadBlock(h) }); msg != "" {
				return classify(msg), "-"
			}
			var got []byte
			out := "nil"
			if blk != nil {
				got = amino.MustMarshal(blk)
				out = nameOf("B", got)
			}
			if !judged {
				return out, "-"
			}
			var want []byte
			if sb != nil {
				want = sb.block
			}
			if (blk == nil) != (sb == nil) || !bytes.Equal(got, want) {
				return out, fmt.Sprintf("VIOL:block-mismatch LoadBlock(%d) is not the block saved at that height", h)
			}
			return out, "ok"
		case "bmeta":
			m := w.bs.LoadBlockMeta(h)
			var got []byte
			out := "nil"
			if m != nil {
				got = amino.MustMarshal(m)
				out = nameOf("M", got)
			}
			if !judged {
				return out, "-"
			}
			var want []byte
			if sb != nil {
				want = sb.meta
			}
			if (m == nil) != (sb == nil) || !bytes.Equal(got, want) {
				return out, fmt.Sprintf("VIOL:meta-mismatch LoadBlockMeta(%d)", h)
			}
			return out, "ok"
		case "bcommit":
			c := w.bs.LoadBlockCommit(h)
			out := commitName(c)
			nx := w.saved[h+1]
			if w.offBlk || w.dirty[h+1] || w.dirty[h] {
				return out, "-"
			}
			var want []byte
			if nx != nil {
				want = nx.lc
			}
			if !bytes.Equal(commitBytes(c), want) {
				return out, fmt.Sprintf("VIOL:commit-mismatch LoadBlockCommit(%d) is not the LastCommit of block %d", h, h+1)
			}
			return out, "ok"
		default:
			c := w.bs.LoadSeenCommit(h)
			out := commitName(c)
			if !judged {
				return out, "-"
			}
			var want []byte
			if sb != nil {
				want = sb.sc
			}
			if !bytes.Equal(commitBytes(c), want) {
				return out, fmt.Sprintf("VIOL:seen-mismatch LoadSeenCommit(%d)", h)
			}
			return out, "ok"
		}
	case "bpart":
		if len(t) != 3 {
			break
		}
		h, ok1 := pInt(t[1])
		i, ok2 := pInt(t[2])
		if !ok1 || !ok2 || i > 1<<31 || i < -(1<<31) {
			break
		}
		p := w.bs.LoadBlockPart(h, int(i))
		var got []byte
		out := "nil"
		if p != nil {
			got = amino.MustMarshal(p)
			out = nameOf("P", got)
		}
		if w.offBlk || w.dirty[h] {
			return out, "-"
		}
		var want []byte
		if sb := w.saved[h]; sb != nil && i >= 0 && i < int64(len(sb.parts)) {
			want = sb.parts[i]
		}
		if (p == nil) != (want == nil) || !bytes.Equal(got, want) {
			return out, fmt.Sprintf("VIOL:part-mismatch LoadBlockPart(%d,%d)", h, i)
		}
		return out, "ok"
	case "bheight":
		if len(t) != 1 {
			break
		}
		return w.hj(), w.heightVerdict(w.bs.Height())
	case "breopen":
		if len(t) != 1 {
			break
		}
		before := w.bs.Height()
		w.bs = store.NewBlockStore(w.bdb)
		return w.hj(), w.heightVerdict(before)
	case "bdelpart":
		if len(t) != 3 {
			break
		}
		h, ok1 := pInt(t[1])
		i, ok2 := pInt(t[2])
		if !ok1 || !ok2 || i > 1<<31 || i < -(1<<31) {
			break
		}
		w.bdb.Delete([]byte(fmt.Sprintf("P:%d:%d", h, i)))
		w.dirty[h] = true
		return "ok", "-"
	case "bdelmeta":
		if len(t) != 2 {
			break
		}
		h, ok := pInt(t[1])
		if !ok {
			break
		}
		w.bdb.Delete([]byte(fmt.Sprintf("H:%d", h)))
		w.dirty[h] = true
		return "ok", "-"

	case "ssave":
		if len(t) != 8 {
			break
		}
		lbh, ok1 := pInt(t[1])
		ih, ok2 := pInt(t[2])
		vals, ok3 := pSet(t[3])
		nvals, ok4 := pSet(t[4])
		lhvc, ok5 := pInt(t[5])
		params, ok6 := pParams(t[6])
		lhpc, ok7 := pInt(t[7])
		if !(ok1 && ok2 && ok3 && ok4 && ok5 && ok6 && ok7) {
			break
		}
		cur := stDesc{lbh: lbh, ih: ih, lhvc: lhvc, lhpc: lhpc, vals: vals.build(), nvals: nvals.build(), params: params}
		st := sm.State{ChainID: "c41", InitialHeight: ih, LastBlockHeight: lbh, Validators: cur.vals, NextValidators: cur.nvals,
			LastHeightValidatorsChanged: lhvc, ConsensusParams: params, LastHeightConsensusParamsChanged: lhpc}
		stBytes := st.Bytes()
		msg := catch(func() { sm.SaveState(w.sdb, st) })
		if msg != "" {
			w.cons = false
			return classify(msg), "-"
		}
		w.lastSt, w.anySaved = stBytes, true
		if w.cons {
			if w.chainStep(cur) {
				if !w.started {
					w.effV[ih] = vsBytes(cur.vals)
				}
				w.effV[lbh+2] = vsBytes(cur.nvals)
				w.effP[lbh+1] = amino.MustMarshal(params)
				w.started, w.prev = true, cur
			} else {
				w.cons = false
			}
		}
		return "ok", "-"
	case "vload":
		if len(t) != 2 {
			break
		}
		h, ok := pInt(t[1])
		if !ok {
			break
		}
		var vs *types.ValidatorSet
		var err error
		msg := catch(func() { vs, err = sm.LoadValidators(w.sdb, h) })
		out := ""
		switch {
		case msg != "":
			out = classify(msg)
		case err != nil:
			if _, is := err.(sm.NoValSetForHeightError); is {
				out = "err:novalset"
			} else {
				out = "err:other"
			}
		default:
			out = "V " + setStr(vs)
		}
		want, have := w.effV[h]
		if !w.cons || !have {
			return out, "-"
		}
		if msg != "" || err != nil {
			return out, fmt.Sprintf("VIOL:valset-missing LoadValidators(%d) fails (%s) although the state for that height was saved", h, out)
		}
		if bytes.Equal(vsBytes(vs), want) {
			return out, "ok"
		}
		var ws types.ValidatorSet
		amino.MustUnmarshal(want, &ws)
		if sameMembers(vs, &ws) {
			return out, fmt.Sprintf("VIOL:valset-priority LoadValidators(%d) = %s but in effect at that height: %s", h, setStr(vs), setStr(&ws))
		}
		return out, fmt.Sprintf("VIOL:valset-mismatch LoadValidators(%d) = %s but in effect at that height: %s", h, setStr(vs), setStr(&ws))
	case "pload":
		if len(t) != 2 {
			break
		}
		h, ok := pInt(t[1])
		if !ok {
			break
		}
		var p abci.ConsensusParams
		var err error
		msg := catch(func() { p, err = sm.LoadConsensusParams(w.sdb, h) })
		out := ""
		switch {
		case msg != "":
			out = classify(msg)
		case err != nil:
			if _, is := err.(sm.NoConsensusParamsForHeightError); is {
				out = "err:noparams"
			} else {
				out = "err:other"
			}
		default:
			out = "CP " + paramsStr(p)
		}
		want, have := w.effP[h]
		if !w.cons || !have {
			return out, "-"
		}
		if msg != "" || err != nil {
			return out, fmt.Sprintf("VIOL:params-missing LoadConsensusParams(%d) fails (%s) although the state for that height was saved", h, out)
		}
		if !bytes.Equal(amino.MustMarshal(p), want) {
			return out, fmt.Sprintf("VIOL:params-mismatch LoadConsensusParams(%d) = %s", h, paramsStr(p))
		}
		return out, "ok"
	case "sload":
		if len(t) != 1 {
			break
		}
		st := sm.LoadState(w.sdb)
		out := fmt.Sprintf("S %d %d %s %s %d %s %d", st.LastBlockHeight, st.InitialHeight, setStr(st.Validators), setStr(st.NextValidators),
			st.LastHeightValidatorsChanged, paramsStr(st.ConsensusParams), st.LastHeightConsensusParamsChanged)
		if !w.anySaved {
			return out, "-"
		}
		if !bytes.Equal(st.Bytes(), w.lastSt) {
			return out, "VIOL:state-mismatch LoadState() differs from the last saved State"
		}
		return out, "ok"
	case "vinfo":
		if len(t) != 2 {
			break
		}
		h, ok := pInt(t[1])
		if !ok {
			break
		}
		bz, err := w.sdb.Get([]byte(fmt.Sprintf("validatorsKey:%x", h)))
		if err != nil {
			panic(err)
		}
		if len(bz) == 0 {
			return "nil", "-"
		}
		var vi sm.ValidatorsInfo
		amino.MustUnmarshal(bz, &vi)
		return fmt.Sprintf("I %s %d", setStr(vi.ValidatorSet), vi.LastHeightChanged), "-"
	case "pinfo":
		if len(t) != 2 {
			break
		}
		h, ok := pInt(t[1])
		if !ok {
			break
		}
		bz, err := w.sdb.Get([]byte(fmt.Sprintf("consensusParamsKey:%x", h)))
		if err != nil {
			panic(err)
		}
		if len(bz) == 0 {
			return "nil", "-"
		}
		var pi sm.ConsensusParamsInfo
		amino.MustUnmarshal(bz, &pi)
		return fmt.Sprintf("I %s %d", paramsStr(pi.ConsensusParams), pi.LastHeightChanged), "-"
	}
	return "err:badop", "-"
}

func main() {
	kit.Main(&kit.Harness{Gen: generate, Reset: reset, Exec: exec})
}
