// Harness for C24: B+ tree root hashes depend only on the operation history.
//
// The SAME op stream is applied, in lock-step, to one real bptree.MutableTree
// per CONFIGURATION (each over its own in-memory DB):
//
//	reopen pattern  {never, after every save, after every 3rd version}
//	node cache      {0, 1, 10000}
//	fast index      {off, on}
//	pruning         {none, keep the last 2 versions, keep the last 4 versions}   (DeleteVersionsTo right after a save)
//
// (all 54 combinations; instance 0 = never / 10000 / off / none is the reference
// whose answers are printed and compared with the Lean model).
//
// Oracle.  For C24 the property is itself a statement about implementations in
// different configurations, so the check is implementation-vs-implementation
// (plus a plain-map oracle for the contents): every answer to set/rm/save/
// load/rollback/hash/lhash must be identical on all 54 instances — in
// particular the (version, root hash) of every save; `at N hash` must give the
// hash recorded when N was saved on every instance that still retains N; the
// WorkingHash right before a save must equal the saved root hash; and
// `export N` exports version N from every instance that retains it, imports the
// stream into an EMPTY database, and requires the imported tree (before and
// after a reopen) to have the recorded hash and exactly the recorded contents.
// The Lean model (Drive/C24.lean) additionally recomputes every printed root
// hash from the history alone (tree shape + contents, SHA-256 from scratch).
//
// ops: set K V | rm K | save | rollback | load N (latest two versions only) |
//
//	hash | lhash | ver | get/has/size/idx/gwi/it/iter/shape | at N <read> | export N |
//	use N   (first op of a case: only the first N of the 54 configurations; bounds the cost of long cases)
package main

import (
	"bytes"
	"fmt"
	"os"
	"runtime/pprof"
	"strconv"

	bp "github.com/gnolang/gno/tm2/pkg/bptree"
	"github.com/gnolang/gno/tm2/pkg/db/memdb"

	"gnoverif/bptkit"
	"gnoverif/kit"
)

type conf struct {
	reopen int // 0 never, 1 every save, 3 every 3rd version
	keep   int // 0 = no pruning, else keep the last `keep` versions
	cfg    bptkit.Cfg
}

type instance struct {
	*bptkit.Inst
	c conf
}

var (
	fresh       bool
	exportCount int
	insts       []*instance
	oracle      *bptkit.Oracle // contents per version, from the reference instance's answers
)

func (c conf) String() string {
	return fmt.Sprintf("reopen=%d,cache=%d,fast=%v,keep=%d", c.reopen, c.cfg.Cache, c.cfg.Fast, c.keep)
}

func reset() {
	var all []*instance
	for _, ro := range []int{0, 1, 3} {
		for _, keep := range []int{0, 2, 4} {
			for _, cache := range []int{10000, 0, 1} {
				for _, fast := range []bool{false, true} {
					c := conf{reopen: ro, keep: keep, cfg: bptkit.Cfg{Cache: cache, Fast: fast}}
					all = append(all, &instance{c: c})
				}
			}
		}
	}
	// a fixed permutation (stride 23 is coprime with 54) so that every prefix of
	// the list mixes all levels of all four factors; all[0] is the reference
	insts = nil
	for k := range all {
		insts = append(insts, all[(k*23)%len(all)])
	}
	for _, in := range insts {
		in.Inst = bptkit.NewInst(in.c.cfg)
	}
	oracle = bptkit.NewOracle()
	exportCount = 0
	fresh = true
}

// afterSave applies the instance's pruning and reopen schedule.
func (in *instance) afterSave(v int64) string {
	if in.c.keep > 0 && v-int64(in.c.keep) >= 1 {
		if err := in.T.DeleteVersionsTo(v - int64(in.c.keep)); err != nil {
			return "VIOL:schedule-failed " + in.c.String() + ": prune: " + bptkit.ErrClass(err)
		}
	}
	if in.c.reopen == 1 || (in.c.reopen == 3 && v%3 == 0) {
		got, err := in.Reopen()
		if err != nil || got != v {
			return fmt.Sprintf("VIOL:schedule-failed %s: reopen gave %d %s", in.c, got, bptkit.ErrClass(err))
		}
	}
	return ""
}

func contents(t interface {
	IterateRange(start, end []byte, ascending bool, fn func(key, value []byte) bool) (bool, error)
}) (map[string][]byte, error) {
	m := map[string][]byte{}
	_, err := t.IterateRange(nil, nil, true, func(k, v []byte) bool {
		m[string(k)] = append([]byte{}, v...)
		return false
	})
	return m, err
}

func sameMap(a, b map[string][]byte) bool {
	if len(a) != len(b) {
		return false
	}
	for k, v := range a {
		if w, ok := b[k]; !ok || !bytes.Equal(v, w) {
			return false
		}
	}
	return true
}

// exportImport exports version v of `in` and imports it into an empty DB.
func exportImport(in *instance, v int64, wantHash string, want map[string][]byte) (string, string) {
	imm, err := in.T.GetImmutable(v)
	if err != nil {
		return "", "VIOL:export-failed " + in.c.String() + ": " + bptkit.ErrClass(err)
	}
	defer imm.Close()
	if imm.IsEmpty() {
		if _, err := imm.Export(nil); err == nil {
			return "", "VIOL:export-failed empty tree exported"
		}
		return "err:emptytree", ""
	}
	nodes, err := bptkit.ExportAll(imm)
	if err != nil {
		return "", "VIOL:export-failed " + in.c.String() + ": " + err.Error()
	}
	db := memdb.NewMemDB()
	dst := bp.NewMutableTreeWithDB(db, in.c.cfg.Cache, bp.NewNopLogger(), bp.FastIndexOption(in.c.cfg.Fast))
	imp, err := dst.Import(v)
	if err != nil {
		return "", "VIOL:import-failed " + in.c.String() + ": " + err.Error()
	}
	for _, n := range nodes {
		if err := imp.Add(n); err != nil {
			imp.Close()
			return "", "VIOL:import-failed " + in.c.String() + ": Add: " + err.Error()
		}
	}
	if err := imp.Commit(); err != nil {
		imp.Close()
		return "", "VIOL:import-failed " + in.c.String() + ": Commit: " + err.Error()
	}
	imp.Close()
	out := fmt.Sprintf("%x %d", dst.Hash(), dst.Size())
	check := func(t *bp.MutableTree, when string) string {
		if h := fmt.Sprintf("%x", t.Hash()); h != wantHash {
			return fmt.Sprintf("VIOL:import-hash %s: %s imported version %d has hash %s, exported version had %s", in.c, when, v, h, wantHash)
		}
		if t.Version() != v {
			return fmt.Sprintf("VIOL:import-contents %s: %s version %d want %d", in.c, when, t.Version(), v)
		}
		got, err := contents(t)
		if err != nil || !sameMap(got, want) || t.Size() != int64(len(want)) {
			return fmt.Sprintf("VIOL:import-contents %s: %s imported version %d has %d entries (size %d), exported version had %d", in.c, when, v, len(got), t.Size(), len(want))
		}
		for k, w := range want {
			g, err := t.Get([]byte(k))
			if err != nil || !bytes.Equal(g, w) {
				return fmt.Sprintf("VIOL:import-contents %s: %s get %x = %x want %x", in.c, when, k, g, w)
			}
			break
		}
		return ""
	}
	if r := check(dst, "fresh"); r != "" {
		return out, r
	}
	_ = dst.Close()
	dst2 := bp.NewMutableTreeWithDB(db, in.c.cfg.Cache, bp.NewNopLogger(), bp.FastIndexOption(in.c.cfg.Fast))
	if _, err := dst2.Load(); err != nil {
		return out, "VIOL:import-failed " + in.c.String() + ": reload: " + err.Error()
	}
	if r := check(dst2, "reloaded"); r != "" {
		return out, r
	}
	// the imported tree must keep producing the same hashes as the original
	return out, ""
}

func exec(t []string) (string, string) {
	if len(t) == 0 {
		return "err:badop", "-"
	}
	if t[0] == "use" {
		// `use N` (first op of a case): run the case on the first N configurations only
		if len(t) != 2 || !fresh {
			return "err:badop", "-"
		}
		n, err := strconv.ParseUint(t[1], 10, 31)
		if err != nil || t[1][0] == '+' || n < 1 || n > uint64(len(insts)) {
			return "err:badop", "-"
		}
		insts = insts[:n]
		return "ok", "-"
	}
	fresh = false
	ref := insts[0]
	switch t[0] {
	case "cfg", "prune", "reopen", "vers", "audit":
		return "err:badop", "-"
	case "load":
		if len(t) != 2 {
			return "err:badop", "-"
		}
		v, err := strconv.ParseUint(t[1], 10, 31)
		if err != nil || t[1][0] == '+' || v == 0 {
			return "err:badop", "-"
		}
		latest := oracleLatest()
		if int64(v) > latest || latest-int64(v) >= 2 {
			return "err:badop", "-"
		}
	case "export":
		if len(t) != 2 {
			return "err:badop", "-"
		}
		v, err := strconv.ParseUint(t[1], 10, 31)
		if err != nil || t[1][0] == '+' || v == 0 {
			return "err:badop", "-"
		}
		want, ok := oracle.Saved[int64(v)]
		if !ok {
			// never saved: the reference must say so
			if _, err := ref.T.GetImmutable(int64(v)); err == nil {
				return "ok", "VIOL:export-failed version " + t[1] + " readable but never saved"
			}
			return "err:noversion", "ok"
		}
		out := ""
		exportCount++
		for i, in := range insts {
			// the reference always; the other configurations in rotation (9 of 54 per export)
			if i != 0 && (i+exportCount)%6 != 0 {
				continue
			}
			if !in.T.VersionExists(int64(v)) {
				if i == 0 {
					return "err:noversion", "VIOL:export-failed reference lost version " + t[1]
				}
				continue
			}
			o, viol := exportImport(in, int64(v), oracle.Hash[int64(v)], want)
			if viol != "" {
				return o, viol
			}
			if i == 0 {
				out = o
			} else if o != out {
				return out, fmt.Sprintf("VIOL:config-divergence export %d on %s gave %s, reference %s", v, in.c, o, out)
			}
		}
		return out, "ok"
	}
	// every other op: run on all instances
	workingBefore := ""
	if t[0] == "save" && len(t) == 1 {
		workingBefore = fmt.Sprintf("%x", ref.T.WorkingHash())
	}
	st0 := ref.Exec(t)
	if st0.Err == "err:badop" {
		return st0.Out, "-"
	}
	verdict := oracle.Judge(t, st0, ref.Inst)
	lockstep := map[string]bool{"set": true, "rm": true, "save": true, "rollback": true, "load": true, "hash": true, "lhash": true, "ver": true}
	for idx, in := range insts[1:] {
		isAt := t[0] == "at"
		if (!lockstep[t[0]] || (isAt && !(len(t) > 2 && t[2] == "hash"))) && (idx+1)%7 != 0 {
			continue // plain reads: the reference and a sample of the other configurations
		}
		if !lockstep[t[0]] && !isAt {
			// plain reads of the working tree: also identical everywhere
			st := in.Exec(t)
			if st.Out != st0.Out && verdict == "ok" {
				verdict = fmt.Sprintf("VIOL:config-divergence %s answered %s, reference %s", in.c, st.Out, st0.Out)
			}
			continue
		}
		if isAt {
			v, _ := strconv.ParseInt(t[1], 10, 64)
			if !in.T.VersionExists(v) {
				continue // pruned in this configuration
			}
		}
		st := in.Exec(t)
		if st.Out != st0.Out {
			cls := "config-divergence"
			if t[0] == "save" || t[0] == "hash" || t[0] == "lhash" || (isAt && len(t) > 2 && t[2] == "hash") {
				cls = "hash-config"
			}
			if verdict == "ok" || verdict == "-" {
				verdict = fmt.Sprintf("VIOL:%s %s on %s answered %s, reference %s", cls, t[0], in.c, st.Out, st0.Out)
			}
		}
	}
	if t[0] == "save" && st0.Err == "" {
		// the hash reported for the working tree right before the save is the hash
		// of the same history without the save/reload: it must be the saved hash
		if workingBefore != st0.Hash && (verdict == "ok" || verdict == "-") {
			verdict = fmt.Sprintf("VIOL:hash-config WorkingHash before save %s, saved root hash %s", workingBefore, st0.Hash)
		}
		for _, in := range insts {
			if r := in.afterSave(st0.Version); r != "" && (verdict == "ok" || verdict == "-") {
				verdict = r
			}
		}
	}
	return st0.Out, verdict
}

func oracleLatest() int64 {
	var l int64
	for v := range oracle.Saved {
		if v > l {
			l = v
		}
	}
	return l
}

func main() {
	if p := os.Getenv("VERIF_PPROF"); p != "" {
		if f, err := os.Create(p); err == nil {
			_ = pprof.StartCPUProfile(f)
			defer pprof.StopCPUProfile()
		}
	}
	kit.Main(&kit.Harness{Gen: bptkit.Gen("c24"), Reset: reset, Exec: exec})
}
