package main

// The chain environment of the C12 harness: a REAL vm.VMKeeper over memdb,
// built the way gno.land/pkg/sdk/vm/common_test.go builds it (exported
// constructors only), with the stdlibs from /repo/gnovm/stdlibs.  Every
// message is executed the way baseapp.runTx + gno.land's Begin/EndTxHook
// execute it: on a cache-wrapped multistore with a fresh gno transaction store,
// written back only when the handler returned no error (and did not panic).

import (
	"fmt"
	"os"
	"path/filepath"
	"strings"

	"github.com/gnolang/gno/gno.land/pkg/sdk/vm"
	bft "github.com/gnolang/gno/tm2/pkg/bft/types"
	"github.com/gnolang/gno/tm2/pkg/crypto"
	"github.com/gnolang/gno/tm2/pkg/db/memdb"
	tmerrors "github.com/gnolang/gno/tm2/pkg/errors"
	"github.com/gnolang/gno/tm2/pkg/log"
	"github.com/gnolang/gno/tm2/pkg/sdk"
	authm "github.com/gnolang/gno/tm2/pkg/sdk/auth"
	bankm "github.com/gnolang/gno/tm2/pkg/sdk/bank"
	pm "github.com/gnolang/gno/tm2/pkg/sdk/params"
	"github.com/gnolang/gno/tm2/pkg/std"
	"github.com/gnolang/gno/tm2/pkg/store"
	storebptree "github.com/gnolang/gno/tm2/pkg/store/bptree"
	"github.com/gnolang/gno/tm2/pkg/store/dbadapter"
)

const chainID = "test-chain-id"

// number of funded accounts; creator index nAccounts is an address WITHOUT an
// account (unknown address), index nAccounts+1 is the zero address.
const nAccounts = 3

type env struct {
	ms    store.MultiStore
	ctx   sdk.Context
	vmk   *vm.VMKeeper
	acck  authm.AccountKeeper
	bankk bankm.BankKeeper
	prmk  pm.ParamsKeeper
	addrs []crypto.Address
}

func repoRoot() string {
	if r := os.Getenv("VERIF_REPO"); r != "" {
		return r
	}
	return "/repo"
}

func newEnv() *env {
	if os.Getenv("GNOROOT") == "" {
		os.Setenv("GNOROOT", repoRoot())
	}
	db := memdb.NewMemDB()
	baseCapKey := store.NewStoreKey("baseCapKey")
	iavlCapKey := store.NewStoreKey("iavlCapKey")
	ms := store.NewCommitMultiStore(db)
	ms.MountStoreWithDB(baseCapKey, dbadapter.StoreConstructor, db)
	ms.MountStoreWithDB(iavlCapKey, storebptree.FastStoreConstructor, db)
	ms.LoadLatestVersion()

	ctx := sdk.NewContext(sdk.RunTxModeDeliver, ms, &bft.Header{ChainID: chainID, Height: 1}, log.NewNoopLogger())

	prmk := pm.NewParamsKeeper(iavlCapKey)
	acck := authm.NewAccountKeeper(iavlCapKey, prmk.ForModule(authm.ModuleName), std.ProtoBaseAccount, std.ProtoBaseSessionAccount)
	bankk := bankm.NewBankKeeper(acck, prmk.ForModule(bankm.ModuleName), iavlCapKey, []string{"ugnot"})
	vmk := vm.NewVMKeeper(baseCapKey, iavlCapKey, acck, bankk, prmk)

	prmk.Register(authm.ModuleName, acck)
	prmk.Register(bankm.ModuleName, bankk)
	prmk.Register(vm.ModuleName, vmk)
	acck.SetParams(ctx, authm.DefaultParams())
	bankk.SetParams(ctx, bankm.DefaultParams())
	vmk.SetParams(ctx, vm.DefaultParams())

	mcw := ms.MultiCacheWrap()
	vmk.Initialize(log.NewNoopLogger(), mcw)
	stdlibCtx := vmk.MakeGnoTransactionStore(ctx.WithMultiStore(mcw))
	vmk.LoadStdlibCached(stdlibCtx, filepath.Join(repoRoot(), "gnovm", "stdlibs"))
	vmk.CommitGnoTransactionStore(stdlibCtx)
	mcw.MultiWrite()
	vmk.PopulateStdlibCache()

	e := &env{ms: ms, ctx: ctx, vmk: vmk, acck: acck, bankk: bankk, prmk: prmk}
	for i := 0; i < nAccounts; i++ {
		addr := crypto.AddressFromPreimage([]byte(fmt.Sprintf("c12-addr-%d", i)))
		acc := acck.NewAccountWithAddress(ctx, addr)
		acck.SetAccount(ctx, acc)
		bankk.SetCoins(ctx, addr, std.MustParseCoins("1000000000000ugnot"))
		e.addrs = append(e.addrs, addr)
	}
	e.addrs = append(e.addrs, crypto.AddressFromPreimage([]byte("c12-no-account")))
	e.addrs = append(e.addrs, crypto.Address{})
	return e
}

// runTx mirrors baseapp.runTx + BeginTxHook/EndTxHook of gno.land's app.go for
// one message: cache-wrap, fresh gno transaction store, write back iff ok.
// A panic escaping the handler is what baseapp's recover turns into an error
// result: nothing is written.
func (e *env) runTx(height int64, fn func(ctx sdk.Context) error) (err error, panicked any) {
	ctx := e.ctx.WithBlockHeader(&bft.Header{ChainID: chainID, Height: height})
	msCache := e.ms.MultiCacheWrap()
	ctx = ctx.WithMultiStore(msCache)
	ctx = e.vmk.MakeGnoTransactionStore(ctx)
	func() {
		defer func() {
			if r := recover(); r != nil {
				panicked = r
				if os.Getenv("VERIF_TRACE") != "" {
					fmt.Fprintf(os.Stderr, "panic in tx: %v\n", r)
				}
			}
		}()
		err = fn(ctx)
	}()
	if err == nil && panicked == nil {
		e.vmk.CommitGnoTransactionStore(ctx)
		msCache.MultiWrite()
	}
	return
}

// errClass maps an error to a stable token (never the message text).
func errClass(err error) string {
	if err == nil {
		return "ok"
	}
	switch tmerrors.Cause(err).(type) {
	case vm.InvalidPkgPathError, *vm.InvalidPkgPathError:
		return "err:pkgpath"
	case vm.PkgExistError, *vm.PkgExistError:
		return "err:exists"
	case vm.InvalidPackageError, *vm.InvalidPackageError:
		return "err:package"
	case vm.TypeCheckError, *vm.TypeCheckError:
		return "err:typecheck"
	case vm.UnauthorizedUserError, *vm.UnauthorizedUserError:
		return "err:unauthorized"
	case vm.InvalidFileError, *vm.InvalidFileError:
		return "err:file"
	case std.UnknownAddressError, *std.UnknownAddressError:
		return "err:unknownaddr"
	case std.InvalidAddressError, *std.InvalidAddressError:
		return "err:invalidaddr"
	case std.InvalidCoinsError, *std.InvalidCoinsError:
		return "err:coins"
	case std.InsufficientCoinsError, *std.InsufficientCoinsError:
		return "err:funds"
	case std.OutOfGasError, *std.OutOfGasError:
		return "err:outofgas"
	}
	return "err:other"
}

func (e *env) add(height int64, creator int, path, name string, files []*std.MemFile) string {
	msg := vm.MsgAddPackage{
		Creator: e.addrs[creator],
		Package: &std.MemPackage{Name: name, Path: path, Files: files},
	}
	if err := msg.ValidateBasic(); err != nil {
		return "basic-" + errClass(err)
	}
	err, p := e.runTx(height, func(ctx sdk.Context) error { return e.vmk.AddPackage(ctx, msg) })
	if p != nil {
		return panicClass(p)
	}
	if err != nil && os.Getenv("VERIF_TRACE") != "" {
		fmt.Fprintf(os.Stderr, "add error: %+v\n", err)
	}
	return errClass(err)
}

// panicClass maps a recovered panic value to a stable token.
func panicClass(p any) string {
	s := fmt.Sprint(p)
	switch {
	case strings.Contains(s, "gnomod.toml not found"):
		return "panic:nogmod"
	case strings.Contains(s, "unsupported gno version"), strings.Contains(s, "expected gnomod.toml gno version"):
		return "panic:gnover"
	case strings.Contains(s, "only integration package types may end with"),
		strings.Contains(s, "expected user package path"),
		strings.Contains(s, "ending in filetests"):
		return "panic:mptype"
	case strings.Contains(s, "invalid package path"):
		return "panic:badpath"
	case strings.Contains(s, "unexpected node with location"):
		return "panic:nopkg"
	}
	return "panic:other"
}

func (e *env) qfile(fp string) (res string, cls string) {
	defer func() {
		if r := recover(); r != nil {
			res, cls = "", panicClass(r)
		}
	}()
	res, err := e.vmk.QueryFile(e.ctx, fp)
	return res, errClass(err)
}

func (e *env) qpaths(target string, limit int) ([]string, string) {
	res, err := e.vmk.QueryPaths(e.ctx, target, limit)
	if err != nil {
		return nil, "err:query"
	}
	return res, "ok"
}

func addrString(i int) string {
	return crypto.AddressFromPreimage([]byte(fmt.Sprintf("c12-addr-%d", i))).String()
}
