package main

// Case isolation.  The keeper's persistent gno store keeps the preprocessed
// BlockNodes of every committed package in an in-memory map that is not part
// of the multistore (on a real node it is rebuilt at start-up from the stored
// mempackages).  To give every case a pristine chain without paying the
// stdlib load again, the keeper's (unexported) `gnoStore` field is pointed, per
// case, at a never-committed transaction layer over the pristine root store:
// per-message transaction stores then commit into that layer, which is dropped
// at the next `#case`.  This is the only place the harness touches an
// unexported field (read the root store once, set the field per case).

import (
	"reflect"
	"unsafe"

	"github.com/gnolang/gno/gno.land/pkg/sdk/vm"
	gno "github.com/gnolang/gno/gnovm/pkg/gnolang"
)

func keeperStoreField(k *vm.VMKeeper) reflect.Value {
	f := reflect.ValueOf(k).Elem().FieldByName("gnoStore")
	return reflect.NewAt(f.Type(), unsafe.Pointer(f.UnsafeAddr())).Elem()
}

func getKeeperStore(k *vm.VMKeeper) gno.Store { return keeperStoreField(k).Interface().(gno.Store) }

func setKeeperStore(k *vm.VMKeeper, s gno.Store) { keeperStoreField(k).Set(reflect.ValueOf(s)) }

// layerOver returns a fresh transaction layer over s that is never written back.
func layerOver(s gno.Store) gno.Store { return s.BeginTransaction(nil, nil, nil, nil) }
