package main

import (
	"fmt"
	"sort"
	"strings"

	"gnoverif/kit"
)

// ---------------------------------------------------------------- building op lines

type gfile struct{ name, body string } // body "@" = rendered gnomod.toml

type addSpec struct {
	h     int64
	acct  int
	path  string
	name  string
	gm    string
	v     byte
	files []gfile
}

func (a addSpec) line() string {
	var b strings.Builder
	fmt.Fprintf(&b, "add %d %d %s %s %s %c", a.h, a.acct, hs(a.path), hs(a.name), a.gm, a.v)
	for _, f := range a.files {
		if f.body == "@" {
			fmt.Fprintf(&b, " %s:@", hs(f.name))
		} else {
			fmt.Fprintf(&b, " %s:%s", hs(f.name), hs(f.body))
		}
	}
	return b.String()
}

func sortFiles(fs []gfile) []gfile {
	sort.SliceStable(fs, func(i, j int) bool { return fs[i].name < fs[j].name })
	return fs
}

// lastElem mirrors the naming rule (package name = last path element, version suffix skipped).
func lastElem(p string) string {
	parts := strings.Split(p, "/")
	l := parts[len(parts)-1]
	if len(parts) >= 2 && len(l) >= 2 && l[0] == 'v' && strings.Trim(l[1:], "0123456789") == "" && (l == "v0" || l[1] != '0') {
		return parts[len(parts)-2]
	}
	return l
}

func okBody(pn string, k, n int) string {
	return fmt.Sprintf("package %s\n\nvar V%d = %d\n", pn, k, n)
}

// pkg builds a well-formed deployment of `path` with `variant` controlling the source text.
func pkg(h int64, acct int, path, gm string, variant int, extra ...gfile) addSpec {
	pn := lastElem(path)
	fs := []gfile{{pn + ".gno", okBody(pn, 0, variant)}}
	if gm != "-" {
		fs = append(fs, gfile{"gnomod.toml", "@"})
	}
	fs = append(fs, extra...)
	return addSpec{h: h, acct: acct, path: path, name: pn, gm: gm, v: 'o', files: sortFiles(fs)}
}

// ---------------------------------------------------------------- pools

var validPaths = []string{
	"gno.land/r/aa", "gno.land/r/aa/bb", "gno.land/p/aa", "gno.land/p/aa/bb", "gno.land/r/ab", "gno.land/r/aa/v2",
	"gno.land/r/u0/xx", "gno.land/p/u0/xx", "gno.land/r/u1/xx", "gno.land/r/open/xx", "gno.land/r/a-b/c_d", "gno.land/p/a0/b1",
	"gno.land/r/aa/internal/xx", "gno.land/r/a/bb",
}

var oddPaths = []string{
	"gno.land/r/a_test", "gno.land/r/a/b_test", "gno.land/r/b_filetest", "gno.land/p/a/b_filetest", "gno.land/r/a/filetests",
	"gno.land/e/g1abc/run", "gno.land/e/a/run", "gno.land/x/a", "gno.land/r", "gno.land/r/", "gno.land/r/a/", "gno.land/r//a",
	"gno.land/R/a", "Gno.land/r/a", "gno.land/r/A", "gno.land/r/a#b", "gno.land/r/a#allbutprod", "gno.land/r/a-b", "gno.land/r/a--b",
	"gno.land/r/a_", "gno.land/r/a-", "gno.land/r/1a", "gno.land/r/a/v1/v2", "gno.land/r/a/v1", "gno.land/r/a/v0", "gno.land/r/a/v01",
	"gno.landx/r/a", "gno.lan/r/a", "x.gno.land/r/a", "gno.land.evil.com/r/a", "evil.com/gno.land/r/a", "strings", "a/b", "ab",
	"gno.land/r/a ", " gno.land/r/a", "gno.land/r/a\n", "gno.land/r/a/./b", "gno.land/r/a/../a", "gno.land/r/a%2fb", "gno.land/rr/a",
	"gno.land/r/a.b", "gno.land", "gno.land/", "/gno.land/r/a", "gno.land/r/a\x00", "gno.land/r/\xc3\xa9", "gno.land/p/a_test", "g/r/a",
	"gno.land/r/sys/names", "gno.land/r/sys/cla", "gno.land/r/sys/namesx",
}

func longPath(n int) string {
	p := "gno.land/r/"
	for len(p) < n {
		p += "a"
	}
	return p
}

var gmTokens = []string{"sl", "sl", "sl", "sl", "slp", "slp", "sld", "sli", "slr", "sla", "slc", "slpc", "slpd", "ol", "olp", "el", "xl", "se", "sv", "sep", "b", "-", "slpdirac"}

// ---------------------------------------------------------------- boundary table

func boundary(w *kit.Out) {
	emit := func(id string, lines ...string) {
		w.Case(id)
		for _, l := range lines {
			w.Op("%s", l)
		}
	}
	q := func(s string) string { return "qfile " + hs(s) }
	qp := func(s string, n int) string { return fmt.Sprintf("qpaths %s %d", hs(s), n) }

	// 1. public deploy, colliding redeploys by everybody, queries
	a := "gno.land/r/aa"
	emit("b/public-immutable",
		pkg(42, 0, a, "sl", 1).line(), q(a), q(a+"/gnomod.toml"), q(a+"/aa.gno"),
		pkg(43, 0, a, "sl", 2).line(), pkg(43, 1, a, "sl", 3).line(), pkg(43, 0, a, "slp", 4).line(),
		pkg(0, 0, a, "sld", 5).line(), q(a+"/aa.gno"), q(a+"/gnomod.toml"), qp("gno.land/", 100), qp("gno.land/r/a", 100))
	// 2. private redeploys, private->public refused, stale test files gone
	emit("b/private-redeploy",
		pkg(42, 0, a, "slp", 1, gfile{"aa_test.gno", "package aa\n"}, gfile{"z_filetest.gno", "package main\n\nfunc main() {}\n"}).line(),
		q(a), q(a+"/aa_test.gno"), q(a+"#allbutprod"), q(a+"#allbutprod/aa_test.gno"),
		pkg(43, 1, a, "slp", 2).line(), q(a), q(a+"/aa_test.gno"), q(a+"/aa.gno"), q(a+"/gnomod.toml"),
		pkg(44, 1, a, "sl", 3).line(), q(a+"/aa.gno"),
		pkg(44, 2, a, "slp", 4, gfile{"README.md", "# hi\n"}).line(), q(a), qp("gno.land/r/", 100))
	// 3. private only for realms; draft only at genesis
	emit("b/private-draft",
		pkg(42, 0, "gno.land/p/aa", "slp", 1).line(), pkg(42, 0, "gno.land/p/aa", "sl", 1).line(),
		pkg(42, 0, "gno.land/r/ab", "sld", 1).line(), pkg(0, 0, "gno.land/r/ab", "sld", 1).line(), q("gno.land/r/ab/gnomod.toml"),
		pkg(0, 0, "gno.land/r/aa/bb", "slpd", 1).line(), q("gno.land/r/aa/bb/gnomod.toml"))
	// 4. gnomod.toml variants
	var ls []string
	for i, g := range []string{"-", "b", "el", "xl", "ol", "se", "sv", "sli", "slr", "sla", "slc", "slpdirac", "slpdiac"} {
		p := fmt.Sprintf("gno.land/r/a/g%d", i)
		ls = append(ls, pkg(int64(40+i), i%3, p, g, i).line(), q(p+"/gnomod.toml"))
	}
	emit("b/gnomod", ls...)
	// 5. creators
	ls = nil
	for acct := 0; acct <= 4; acct++ {
		ls = append(ls, pkg(42, acct, fmt.Sprintf("gno.land/r/a/c%d", acct), "sl", acct).line())
	}
	emit("b/creators", ls...)
	// 6. file sets
	mk := func(path string, v byte, name string, fs ...gfile) string {
		return addSpec{h: 42, acct: 0, path: path, name: name, gm: "sl", v: v, files: fs}.line()
	}
	gmf := gfile{"gnomod.toml", "@"}
	emit("b/filesets",
		mk("gno.land/r/a/f0", 'o', "f0", gfile{"a_test.gno", "package f0\n"}, gmf),                                      // test only
		mk("gno.land/r/a/f1", 'o', "f1", gfile{"a_filetest.gno", "package main\n"}, gmf),                                // filetest only
		mk("gno.land/r/a/f2", 'o', "f2", gmf),                                                                           // no .gno
		mk("gno.land/r/a/f3", 'o', "f3"),                                                                                // no files
		mk("gno.land/r/a/f4", 'o', "f4", gmf, gfile{"a.gno", "package f4\n"}),                                           // unsorted
		mk("gno.land/r/a/f5", 'o', "f5", gfile{"a.gno", "package f5\n"}, gfile{"a.gno", "package f5\n"}, gmf),           // duplicate
		mk("gno.land/r/a/f6", 'o', "f6", gfile{"A.gno", "package f6\n"}, gfile{"a.gno", "package f6\n"}, gmf),           // case-insensitive duplicate
		mk("gno.land/r/a/f7", 'o', "f7", gfile{"a.gno", "package other\n"}, gmf),                                        // wrong package name
		mk("gno.land/r/a/f8", 'o', "zz", gfile{"a.gno", "package zz\n"}, gmf),                                           // name does not match path
		mk("gno.land/r/a/f9", 'o', "f9", gfile{"a.gno", "package f9\n"}, gfile{"a_test.gno", "package f9_test\n"}, gmf), // xxx_test
		mk("gno.land/r/a/fa", 'o', "fa", gfile{"a.gno", "package fa\n"}, gfile{"a_test.gno", "package zz\n"}, gmf),      // bad test package name
		mk("gno.land/r/a/fb", 'o', "fb", gfile{"LICENSE", "x"}, gfile{"README.md", "x"}, gfile{"a.gno", "package fb\n"}, gfile{"doc.toml", "x"}, gmf),
		mk("gno.land/r/a/fc", 'o', "fc", gfile{"a.gen.go", "x"}, gfile{"a.gno", "package fc\n"}, gmf),
		mk("gno.land/r/a/fd", 'o', "fd", gfile{"a.gno", "package fd\n"}, gfile{"a.txt", "x"}, gmf),
		mk("gno.land/r/a/fe", 'o', "fe", gfile{"a.gno", "package fe\n"}, gfile{"gno.mod", "module gno.land/r/a/fe\n"}, gmf),
		mk("gno.land/r/a/ff", 'o', "ff", gfile{"a.gno", ""}, gmf),
		mk("gno.land/r/a/fg", 'o', "fg", gfile{"a.gno", "  \n\tpackage   fg ;"}, gmf),
		mk("gno.land/r/a/fh", 't', "fh", gfile{"a.gno", "package fh }"}, gmf),
		mk("gno.land/r/a/fi", 'o', "fi", gfile{"a.gno", "package fi x"}, gmf),
		mk("gno.land/r/a/fj", 'o', "fj", gfile{"a.gno", "package func"}, gmf),
		mk("gno.land/r/a/fk", 'o', "fk", gfile{"a.gno", "// c\npackage fk\n"}, gmf), // unmodelled
		mk("gno.land/r/a/fl", 't', "fl", gfile{"a.gno", "package fl\n\nvar T int = \"s\"\n"}, gmf),
		mk("gno.land/r/a/fm", 'i', "fm", gfile{"a.gno", "package fm\n\nfunc init() { panic(\"boom\") }\n"}, gmf),
		mk("gno.land/r/a/fn", 'o', "f", gfile{"a.gno", "package f\n"}, gmf),
		mk("gno.land/r/a/fo", 'o', "_", gfile{"a.gno", "package _\n"}, gmf),
		mk("gno.land/r/a/fp", 'o', "fp", gfile{".a.gno", "package fp\n"}, gfile{"a.gno", "package fp\n"}, gmf),
		mk("gno.land/r/a/fq", 'o', "fq", gfile{"a b.gno", "package fq\n"}, gfile{"a.gno", "package fq\n"}, gmf),
		qp("gno.land/", 100))
	// 7. every odd path, with a name derived from it, plus over-long paths
	ls = nil
	for i, p := range append(append([]string{}, oddPaths...), longPath(256), longPath(257), "") {
		s := pkg(42, i%3, p, "sl", i)
		if s.name == "" || strings.ContainsAny(s.name, " \n\x00#%.") {
			s.name = "aa"
			s.files = sortFiles([]gfile{{"gnomod.toml", "@"}, {"aa.gno", okBody("aa", 0, i)}})
		}
		ls = append(ls, s.line())
	}
	ls = append(ls, qp("gno.land/", 1000), qp("g", 1000), q(longPath(256)+"/gnomod.toml"), q(longPath(256)), q(longPath(257)))
	emit("b/odd-paths", ls...)
	// 8. path-normalisation variants of a deployed package
	ls = []string{pkg(42, 0, a, "sl", 1).line()}
	for i, p := range []string{a + "/", a + "//", "gno.land/r//aa", "gno.land/r/./aa", "gno.land/r/aa/.", "gno.land/r/AA", "gno.land/r/Aa", "GNO.LAND/r/aa", "gno.land/r/aa ", "gno.land/r/aa\t", "gno.land//r/aa", "gno.land/r/aa#", "gno.land/r/aa#allbutprod"} {
		s := pkg(43, 1, p, "sl", 10+i)
		s.name, s.files = "aa", sortFiles([]gfile{{"gnomod.toml", "@"}, {"aa.gno", okBody("aa", 0, 10+i)}})
		ls = append(ls, s.line(), q(p), q(p+"/aa.gno"))
	}
	ls = append(ls, q(a+"/aa.gno"), q(a+"//aa.gno"), q(a+"/"), q(a+"/nofile.gno"), q(a+"/README"), q(a+"/LICENSE"), q(a+"/noext"), q("gno.land/r/zz"), q("gno.land/r/zz/a.gno"))
	emit("b/normalisation", ls...)
	// 9. namespace registry
	a0 := addrOf(0)
	emit("b/registry",
		pkg(42, 1, "gno.land/r/u1/xx", "sl", 1).line(), // before the registry exists: anybody
		"reg 0 "+hs("u0"),                              // registry not deployed
		"names 0", "names 1",
		pkg(42, 1, "gno.land/r/u0/xx", "sl", 1).line(), // unauthorized
		"reg 0 "+hs("u0"), "reg 1 "+hs("u0"), "reg 1 "+hs("u1"),
		pkg(42, 1, "gno.land/r/u0/xx", "sl", 2).line(), // still unauthorized
		pkg(42, 0, "gno.land/r/u0/xx", "sl", 3).line(), // owner
		pkg(42, 0, "gno.land/p/u0/xx", "sl", 3).line(), // owner, /p/
		pkg(42, 0, "gno.land/r/u1/yy", "sl", 4).line(),
		pkg(42, 1, "gno.land/r/u1/yy", "sl", 5).line(),
		pkg(42, 0, "gno.land/r/"+a0+"/xx", "sl", 6).line(), // own address namespace
		pkg(42, 1, "gno.land/r/"+a0+"/yy", "sl", 7).line(),
		pkg(42, 2, "gno.land/r/open/xx", "sl", 8).line(),
		"param 0",
		pkg(42, 2, "gno.land/r/open/xx", "sl", 9).line(), // registry param cleared: anybody
		"param 1",
		pkg(42, 2, "gno.land/r/open/yy", "sl", 10).line(),
		pkg(42, 1, "gno.land/r/u0/xx", "slp", 11).line(), // public stays
		qp("@u0", 100), qp("@u0/", 100), qp("@u0/xx", 100), qp("@u0/x", 100), qp("@u1", 0), qp("@u1", 1), qp("@", 10), qp("@a b", 10), qp("@stdlibs", 10))
	// 10. qpaths limits and prefixes
	emit("b/qpaths",
		pkg(42, 0, "gno.land/r/aa", "sl", 1, gfile{"aa_test.gno", "package aa\n"}).line(),
		pkg(42, 0, "gno.land/r/aa/bb", "slp", 1, gfile{"bb_test.gno", "package bb\n"}).line(),
		pkg(42, 0, "gno.land/r/aab", "sl", 1).line(), pkg(42, 0, "gno.land/p/aa", "sl", 1).line(), pkg(42, 0, "gno.land/r/aa-b/c_d", "sl", 1).line(),
		qp("gno.land/", 0), qp("gno.land/", 1), qp("gno.land/", 2), qp("gno.land/", 1000), qp("gno.land/r/aa", 1000), qp("gno.land/r/aa/", 1000),
		qp("gno.land/r/aa#", 1000), qp("gno.land/r/aa#allbutprod", 1000), qp("gno.land/r/aa/bb#allbutpro", 1000), qp("gno.land/r/aa/bb#allbutprod", 1000), qp("gno.land/p", 1000), qp("gno.lanD", 1000),
		qp("@aa", 1000), qp("@aa/", 1000), qp("@aa/bb", 1000), qp("@aa//bb", 1000), qp("@aa/bb/", 1000), qp("@aa/b", 1000), qp("@aa-b", 1000), qp("@aa/..", 1000), qp("h", 5), qp("", 5), qp("_", 5))
	// 11. /p/ post-init mutation attempts
	ls = nil
	for i := range pmutVariants {
		ls = append(ls, fmt.Sprintf("pmut %d", i))
	}
	emit("b/pmut", ls...)
	emit("b/pmut-with-registry", "names 0", "pmut 1", "pmut 0")
	// 12. malformed op lines
	emit("b/badops", "add", "add 1 0", "add x 0 e e - o", "add 1 5 e e - o", "add 1 0 zz e - o", "add 1 0 e e q o", "add 1 0 e e sl x",
		"add 1 0 e e slpp o", "add 1 0 e e sl o zz", "add 1 0 e e sl o 61:@:", "add 99999999999 0 e e sl o", "names", "names 7", "param 2", "reg 3 e", "reg 0",
		"qfile", "qfile zz", "qpaths e", "qpaths e x", "pmut 99", "pmut x", "nop")
}

func addrOf(i int) string {
	if root == nil {
		// addresses are derived from fixed preimages; computing them does not need the chain
		return addrString(i)
	}
	return root.addrs[i].String()
}

// ---------------------------------------------------------------- structured random histories

func randomHistory(w *kit.Out, r *kit.Rand, id string, nops int) {
	w.Case(id)
	// a small set of paths so that collisions are the norm
	np := r.Range(2, 4)
	paths := make([]string, np)
	for i := range paths {
		paths[i] = kit.Pick(r, validPaths)
	}
	if r.Chance(30) {
		paths[0] = "gno.land/r/" + addrOf(r.Intn(3)) + "/xx"
	}
	heights := []int64{0, 1, 42, 43, 1 << 31}
	for k := 0; k < nops; k++ {
		switch c := r.Intn(100); {
		case c < 52: // deployment on a case path
			p := kit.Pick(r, paths)
			gm := kit.Pick(r, gmTokens)
			if r.Chance(60) {
				gm = kit.Pick(r, []string{"sl", "slp"})
			}
			h := int64(42)
			if r.Chance(30) {
				h = kit.Pick(r, heights)
			}
			acct := r.Intn(3)
			if r.Chance(6) {
				acct = 3 + r.Intn(2)
			}
			s := pkg(h, acct, p, gm, r.Intn(1000))
			pn := s.name
			if r.Chance(35) {
				s.files = append(s.files, gfile{pn + "_test.gno", "package " + pn + kit.Pick(r, []string{"", "", "_test"}) + "\n"})
			}
			if r.Chance(15) {
				s.files = append(s.files, gfile{"z_filetest.gno", "package main\n\nfunc main() {}\n"})
			}
			if r.Chance(15) {
				s.files = append(s.files, gfile{kit.Pick(r, []string{"README.md", "LICENSE", "doc.toml", "notes.md"}), fmt.Sprintf("doc %d\n", r.Intn(100))})
			}
			if r.Chance(15) {
				s.files = append(s.files, gfile{"b.gno", okBody(pn, 1, r.Intn(1000))})
			}
			if r.Chance(8) { // test-only
				var fs []gfile
				for _, f := range s.files {
					if !strings.HasSuffix(f.name, ".gno") || strings.HasSuffix(f.name, "_test.gno") || strings.HasSuffix(f.name, "_filetest.gno") {
						fs = append(fs, f)
					}
				}
				s.files = fs
			}
			s.files = sortFiles(s.files)
			if r.Chance(4) && len(s.files) > 1 { // unsorted
				s.files[0], s.files[len(s.files)-1] = s.files[len(s.files)-1], s.files[0]
			}
			if r.Chance(5) {
				s.name = kit.Pick(r, []string{"zz", "a", "x", ""})
			}
			if r.Chance(6) {
				for i := range s.files {
					if s.files[i].name == pn+".gno" {
						if r.Bool() {
							s.v, s.files[i].body = 't', "package "+pn+"\n\nvar T int = \"s\"\n"
						} else {
							s.v, s.files[i].body = 'i', "package "+pn+"\n\nfunc init() { panic(\"boom\") }\n"
						}
					}
				}
			}
			w.Op("%s", s.line())
		case c < 60: // deployment on an odd / normalised path
			p := kit.Pick(r, oddPaths)
			if r.Chance(40) {
				base := kit.Pick(r, paths)
				p = kit.Pick(r, []string{base + "/", base + "_test", base + "#allbutprod", strings.ToUpper(base), base + " ", "/" + base, strings.Replace(base, "/", "//", 1), base + "/filetests", base + "_filetest"})
			}
			s := pkg(42, r.Intn(3), p, kit.Pick(r, []string{"sl", "slp"}), r.Intn(1000))
			if s.name == "" || strings.ContainsAny(s.name, " \n\t\x00#%.") || r.Chance(20) {
				s.name = "aa"
				s.files = sortFiles([]gfile{{"gnomod.toml", "@"}, {"aa.gno", okBody("aa", 0, r.Intn(100))}})
			}
			w.Op("%s", s.line())
		case c < 75: // qfile
			p := kit.Pick(r, paths)
			pn := lastElem(p)
			t := kit.Pick(r, []string{p, p, p + "/" + pn + ".gno", p + "/gnomod.toml", p + "/" + pn + "_test.gno", p + "/z_filetest.gno", p + "/README.md",
				p + "/", p + "//" + pn + ".gno", p + "#allbutprod", p + "#allbutprod/" + pn + "_test.gno", p + "/nofile.gno", p + "/LICENSE", p + "/noext", p + "x", strings.ToUpper(p)})
			w.Op("qfile %s", hs(t))
		case c < 83: // qpaths
			p := kit.Pick(r, paths)
			parts := strings.Split(p, "/")
			t := kit.Pick(r, []string{"gno.land/", "gno.land/r/", "gno.land/p/", p, p + "/", p[:len(p)-1], p + "#", p + "#allbutprod", "@" + parts[2], "@" + parts[2] + "/", "@" + strings.Join(parts[2:], "/"), "g"})
			w.Op("qpaths %s %d", hs(t), kit.Pick(r, []int{0, 1, 2, 3, 1000, 1000, 1000}))
		case c < 88:
			w.Op("names %d", r.Intn(3))
		case c < 94:
			ns := kit.Pick(r, []string{"u0", "u1", "open", "a", "ab", "a-b", "a0", addrOf(r.Intn(3))})
			w.Op("reg %d %s", r.Intn(3), hs(ns))
		case c < 96:
			w.Op("param %d", r.Intn(2))
		case c < 98:
			w.Op("pmut %d", r.Intn(len(pmutVariants)))
		default:
			w.Op("qpaths %s %d", hs("gno.land/"), 1000)
		}
	}
}

// ---------------------------------------------------------------- malformed stream

func randName(r *kit.Rand) string {
	switch r.Intn(6) {
	case 0:
		return string(r.Bytes(r.Range(0, 6)))
	case 1:
		return kit.Pick(r, []string{"a.gno", "A.GNO", "a.Gno", "a_test.gno", "a_filetest.gno", "README", "README.md", "license", "LICENCE.txt", "x.gen.go", ".x.gno", "a..gno", "a.b.c.gno", "a.toolongext", "gno.mod", "a-b.gno", "A-B.md", "Ab.md"})
	default:
		n := r.Range(1, 5)
		b := make([]byte, n)
		for i := range b {
			b[i] = "abz09_-.AZ /#"[r.Intn(13)]
		}
		return string(b) + kit.Pick(r, []string{".gno", ".gno", ".md", ".toml", "", "_test.gno"})
	}
}

// randBody returns a body and whether it passes the package-clause scan but not the full parse
// (so that the GnoVM verdict the generator must supply is `t`).
func randBody(r *kit.Rand, pn string) (string, bool) {
	b := randBody1(r, pn)
	t := strings.TrimRight(b, " \t\r")
	return b, strings.HasSuffix(t, "}") || strings.HasSuffix(t, ")")
}

func randBody1(r *kit.Rand, pn string) string {
	switch r.Intn(8) {
	case 0:
		return string(r.Bytes(r.Range(0, 12)))
	case 1:
		return ""
	case 2:
		return "package"
	case 3:
		return "package " + pn + kit.Pick(r, []string{"", "\n", ";", " ;", " }", " )", " x", ",", "\t\r\n", " \x00", "#"})
	case 4:
		return kit.Pick(r, []string{" ", "\n\n", "\t"}) + "package\n" + pn
	case 5:
		return "package " + kit.Pick(r, []string{"_", "func", "type", "9a", "A", "a_b", "é", pn + "é", "main"}) + "\n"
	default:
		return "package " + pn + "\n"
	}
}

func malformed(w *kit.Out, r *kit.Rand, id string, nops int) {
	w.Case(id)
	for k := 0; k < nops; k++ {
		switch c := r.Intn(100); {
		case c < 55:
			var p string
			switch r.Intn(4) {
			case 0:
				p = string(r.Bytes(r.Range(0, 10)))
			case 1:
				p = kit.Pick(r, oddPaths)
			case 2:
				b := []byte(kit.Pick(r, validPaths))
				if len(b) > 0 {
					b[r.Intn(len(b))] = byte(r.U64())
				}
				p = string(b)
			default:
				p = kit.Pick(r, validPaths)
			}
			pn := lastElem(p)
			if r.Chance(30) || pn == "" {
				pn = kit.Pick(r, []string{"a", "x", "ab", "_", "A", ""})
			}
			// bodies here are bare package clauses: the VM's verdict is `o` unless the full parse fails
			s := addSpec{h: int64(r.Intn(50)), acct: r.Intn(5), path: p, name: pn, gm: kit.Pick(r, gmTokens), v: 'o'}
			nf := r.Range(0, 4)
			for i := 0; i < nf; i++ {
				fn := randName(r)
				b, needT := randBody(r, pn)
				if needT && strings.HasSuffix(fn, ".gno") {
					s.v = 't'
				}
				s.files = append(s.files, gfile{fn, b})
			}
			if s.gm != "-" && r.Chance(90) {
				s.files = append(s.files, gfile{"gnomod.toml", "@"})
			}
			if r.Chance(70) {
				s.files = sortFiles(s.files)
			}
			w.Op("%s", s.line())
		case c < 70:
			w.Op("qfile %s", hx(r.Bytes(r.Range(0, 12))))
		case c < 80:
			t := string(r.Bytes(r.Range(1, 6)))
			if r.Bool() {
				t = "@" + kit.Pick(r, []string{"a", "a/b", "a/../b", "~x", "a b", "", "std", "stdlibs", "a/.", "a//"})
			}
			w.Op("qpaths %s %d", hs(t), r.Intn(5))
		case c < 90:
			w.Op("qfile %s", hs(kit.Pick(r, validPaths)+kit.Pick(r, []string{"", "/", "/a.gno", "//", "/.", "/..", "/a.gno/", "#", "/gnomod.toml"})))
		default: // broken op lines
			w.Op("%s", kit.Pick(r, []string{"add 1 0 e", "add 1 0 61 61 sl o 61", "add -1 0 61 61 sl o", "reg 9 e", "qpaths 61 -1", "qfile 6", "param", "x y z", "add 1 0 61 61 sl o 61:62:63", "pmut -1"}))
		}
	}
}

// ---------------------------------------------------------------- entry

func gen(w *kit.Out, r *kit.Rand, tier string) {
	boundary(w)
	nh, nm := 90, 20
	if tier == "thorough" {
		nh, nm = 3000, 500
	}
	rh, rm := r.Fork(), r.Fork()
	for i := 0; i < nh; i++ {
		randomHistory(w, rh, fmt.Sprintf("h/%d", i), rh.Range(6, 18))
	}
	for i := 0; i < nm; i++ {
		malformed(w, rm, fmt.Sprintf("m/%d", i), rm.Range(8, 20))
	}
}
