// Harness for C12: published package code is immutable and namespace-protected.
//
// A REAL vm.VMKeeper (gno.land/pkg/sdk/vm) over memdb with the real stdlibs is
// driven with histories of MsgAddPackage (colliding paths, private/public
// redeploys, test-only file sets, arbitrary path strings), followed by
// vm/qfile- and vm/qpaths-style reads.  Every message runs the way
// baseapp.runTx + gno.land's tx hooks run it (cache-wrapped multistore + gno
// transaction store, written back only on success).  See env.go.
//
// op lines (bytes = lowercase hex, `e` = empty):
//
//	add <h> <acct> <path> <name> <gm> <v> <file>*     MsgAddPackage{Creator: acct, Package{Name,Path,Files}} at block height h
//	     acct  0..2 funded accounts, 3 = address without account, 4 = zero address
//	     gm    gnomod.toml content, structured:  `-` no such file | `b` broken TOML |
//	           <mod><gno><flags>:  mod  s = module is the package path, o = another valid path, e = empty, x = not an import path
//	                               gno  l = "0.9", e = "", v = "0.8"
//	                               flags (subset of, in this order) p private, d draft, i ignore, r a [[replace]] entry,
//	                                     a a spoofed [addpkg] section, c comments and an unknown key
//	     v     the GnoVM's verdict on the file bodies, supplied by the generator (the model cannot type-check):
//	           o = type-checks and init runs, t = type check fails, i = type-checks but init panics
//	     file  <name>:<body>   (hex); the gnomod.toml entry is written <hex("gnomod.toml")>:@  (body rendered from gm)
//	names <acct>                 deploy the namespace registry realm (gno.land/r/sys/names, the default sysnames_pkgpath) from acct
//	param <0|1>                  set vm param sysnames_pkgpath to "" (0) or to its default (1)
//	reg <acct> <ns>              MsgCall names.Register(ns) from acct: first registrant owns namespace ns
//	qfile <path>                 vm/qfile
//	qpaths <target> <limit>      vm/qpaths (keeper level)
//	pmut <variant>               (correspondence only) deploy a /p/ package with state + a realm that tries mutation
//	                             variant <variant> after init; executed on a throw-away layer
//
// output:
//
//	add/names/reg/param:  <result> | n=<#packages> h=<fnv32 of all (path, file name, body) read back through the queries>
//	        result: ok | basic-err:<class> | err:<class> | panic:<class> | err:badop | err:unmodelled
//	qfile:  f=<hex body> | l=<hex listing> | err:file | err:package
//	qpaths: p=<path,path,...> | err:query
//	pmut:   ok v=<state read back> r=<state the realm read in the same tx> | rejected:<deploy|call> v=<state read back>
//
// oracle (independent; plain maps; evaluates the property statement on what
// the queries return, never looks at the Lean model):
//
//	code-changed        a public package's files read back differ from what was deployed (+ metadata), or it vanished
//	query-mismatch      right after an accepted deployment, qfile does not return the deployed files / metadata
//	bad-path-accepted   a deployment was accepted for a path that is not a valid /r/ or /p/ path under gno.land/
//	unauthorized-deploy a deployment was accepted from an address not authorized for the namespace while the registry is configured
//	private-to-public   a private package was replaced by a public one
//	test-only-accepted  a deployment without any production .gno file was accepted
//	phantom             a package appeared that no accepted deployment put there
//	p-mutated           (pmut) /p/ package state changed after initialization
package main

import (
	"fmt"
	"sort"
	"strconv"
	"strings"

	"gnoverif/kit"

	"github.com/gnolang/gno/gno.land/pkg/sdk/vm"
	gno "github.com/gnolang/gno/gnovm/pkg/gnolang"
	"github.com/gnolang/gno/gnovm/pkg/gnomod"
	"github.com/gnolang/gno/tm2/pkg/sdk"
	"github.com/gnolang/gno/tm2/pkg/std"
	"github.com/gnolang/gno/tm2/pkg/store"
)

const (
	namesPath = "gno.land/r/sys/names"
	claPath   = "gno.land/r/sys/cla"
	otherMod  = "gno.land/r/zzz/other"
)

// ---------------------------------------------------------------- per-case state

var (
	root      *env      // built once per process
	rootStore gno.Store // the keeper's pristine persistent gno store
	cur       *env      // the case's view: same keepers, ctx over a throw-away cache-wrap of root.ms
	sh        *shadow
)

// caseEnv derives the per-case environment: a MultiCacheWrap of the root
// multistore that is never written back.
func caseEnv() *env {
	if root == nil {
		root = newEnv()
		rootStore = getKeeperStore(root.vmk)
	}
	setKeeperStore(root.vmk, layerOver(rootStore))
	c := *root
	cms := root.ms.MultiCacheWrap()
	c.ms = cacheAsCommit{cms}
	c.ctx = root.ctx.WithMultiStore(cms)
	return &c
}

// cacheAsCommit lets env.runTx call MultiCacheWrap on the case layer.
type cacheAsCommit struct{ store.MultiStore }

func reset() {
	cur = caseEnv()
	sh = newShadow()
}

// ---------------------------------------------------------------- token parsing

func unhex(s string) ([]byte, bool) {
	if s == "e" {
		return []byte{}, true
	}
	if s == "" || len(s)%2 != 0 {
		return nil, false
	}
	out := make([]byte, len(s)/2)
	for i := 0; i < len(s); i += 2 {
		a, b := hexv(s[i]), hexv(s[i+1])
		if a < 0 || b < 0 {
			return nil, false
		}
		out[i/2] = byte(a<<4 | b)
	}
	return out, true
}

func hexv(c byte) int {
	switch {
	case c >= '0' && c <= '9':
		return int(c - '0')
	case c >= 'a' && c <= 'f':
		return int(c-'a') + 10
	}
	return -1
}

func hx(b []byte) string { return kit.Hex(append([]byte{}, b...)) }
func hs(s string) string { return kit.Hex([]byte(s)) }

// decimal, 1..10 digits, <= 2^31
func pNat(s string) (int64, bool) {
	if len(s) == 0 || len(s) > 10 {
		return 0, false
	}
	var v int64
	for _, c := range []byte(s) {
		if c < '0' || c > '9' {
			return 0, false
		}
		v = v*10 + int64(c-'0')
	}
	if v > 1<<31 {
		return 0, false
	}
	return v, true
}

type gmod struct {
	present, broken bool
	mod, gno        byte
	private, draft  bool
	ignore, replace bool
	addpkg, noise   bool
}

func pGm(s string) (g gmod, ok bool) {
	if s == "-" {
		return g, true
	}
	g.present = true
	if s == "b" {
		g.broken = true
		return g, true
	}
	if len(s) < 2 || !strings.ContainsRune("soex", rune(s[0])) || !strings.ContainsRune("lev", rune(s[1])) {
		return g, false
	}
	g.mod, g.gno = s[0], s[1]
	rest := s[2:]
	for _, f := range []struct {
		c byte
		p *bool
	}{{'p', &g.private}, {'d', &g.draft}, {'i', &g.ignore}, {'r', &g.replace}, {'a', &g.addpkg}, {'c', &g.noise}} {
		if len(rest) > 0 && rest[0] == f.c {
			*f.p = true
			rest = rest[1:]
		}
	}
	return g, rest == ""
}

// render writes the gnomod.toml text a deployer would submit.
func (g gmod) render(path string) string {
	if g.broken {
		return "module = \"" + path + "\"\ngno = = \"0.9\"\n[[\n"
	}
	var b strings.Builder
	if g.noise {
		b.WriteString("# deployed by the C12 harness\n")
	}
	switch g.mod {
	case 's':
		b.WriteString("module = \"" + path + "\"\n")
	case 'o':
		b.WriteString("module = \"" + otherMod + "\"\n")
	case 'e':
		b.WriteString("module = \"\"\n")
	case 'x':
		b.WriteString("module = \"not an import path!\"\n")
	}
	switch g.gno {
	case 'l':
		b.WriteString("gno = \"0.9\"\n")
	case 'e':
		b.WriteString("gno = \"\"\n")
	case 'v':
		b.WriteString("gno = \"0.8\"\n")
	}
	if g.noise {
		b.WriteString("unknownkey = \"zzz\" # ignored\n")
	}
	if g.ignore {
		b.WriteString("ignore = true\n")
	}
	if g.draft {
		b.WriteString("draft = true\n")
	}
	if g.private {
		b.WriteString("private = true\n")
	}
	if g.replace {
		b.WriteString("\n[[replace]]\n  old = \"gno.land/p/a\"\n  new = \"gno.land/p/b\"\n")
	}
	if g.addpkg {
		b.WriteString("\n[addpkg]\n  creator = \"g1spoofedspoofedspoofedspoofedspoofed00\"\n  height = 7\n")
	}
	return b.String()
}

type fileTok struct {
	name, body []byte
	isGm       bool
}

func pFile(s string) (f fileTok, ok bool) {
	i := strings.IndexByte(s, ':')
	if i < 0 {
		return f, false
	}
	if f.name, ok = unhex(s[:i]); !ok {
		return f, false
	}
	if s[i+1:] == "@" {
		f.isGm = true
		return f, true
	}
	f.body, ok = unhex(s[i+1:])
	return f, ok
}

// ---------------------------------------------------------------- the domain guard (syntactic; mirrored by the Lean driver)

var goKeywords = map[string]bool{
	"break": true, "case": true, "chan": true, "const": true, "continue": true, "default": true, "defer": true,
	"else": true, "fallthrough": true, "for": true, "func": true, "go": true, "goto": true, "if": true, "import": true,
	"interface": true, "map": true, "package": true, "range": true, "return": true, "select": true, "struct": true,
	"switch": true, "type": true, "var": true,
}

func isLetter(c byte) bool { return c >= 'a' && c <= 'z' || c >= 'A' && c <= 'Z' || c == '_' }
func isDigit(c byte) bool  { return c >= '0' && c <= '9' }

// clauseDomain reports whether the package clause of body lies in the fragment
// of Go's lexical grammar that the model's scanner covers (ASCII, no comments
// before the end of the clause).  It is a pure syntactic scan; it does NOT
// compute the package name (the real go/parser does that in the real code).
func clauseDomain(b []byte) bool {
	i := 0
	ws := func(nl bool) {
		for i < len(b) && (b[i] == ' ' || b[i] == '\t' || b[i] == '\r' || (nl && b[i] == '\n')) {
			i++
		}
	}
	word := func() (string, bool) { // returns the identifier-like run at i; false = outside the fragment
		j := i
		for j < len(b) && (isLetter(b[j]) || isDigit(b[j])) {
			j++
		}
		if j < len(b) && b[j] >= 0x80 {
			return "", false
		}
		w := string(b[i:j])
		i = j
		return w, true
	}
	ws(true)
	if i >= len(b) {
		return true // parse error
	}
	if b[i] >= 0x80 || b[i] == '/' {
		return false
	}
	if !isLetter(b[i]) {
		return true // some other token: parse error
	}
	w, ok := word()
	if !ok {
		return false
	}
	if w != "package" {
		return true // parse error
	}
	ws(true)
	if i >= len(b) {
		return true
	}
	if b[i] >= 0x80 || b[i] == '/' {
		return false
	}
	if !isLetter(b[i]) {
		return true
	}
	if _, ok = word(); !ok {
		return false
	}
	ws(false)
	if i >= len(b) {
		return true
	}
	if b[i] >= 0x80 || b[i] == '/' {
		return false
	}
	return true
}

func hasSuffix(b []byte, s string) bool { return strings.HasSuffix(string(b), s) }

// unmodelled: inputs outside the modelled fragment are answered `err:unmodelled`
// by both sides without touching the state.
func addUnmodelled(path []byte, g gmod, files []fileTok) bool {
	if string(path) == namesPath || string(path) == claPath {
		return true
	}
	nGm, hasDotMod := 0, false
	for _, f := range files {
		if f.isGm {
			nGm++
			if string(f.name) != "gnomod.toml" {
				return true
			}
		} else if string(f.name) == "gnomod.toml" {
			return true
		}
		if string(f.name) == "gno.mod" {
			hasDotMod = true
		}
		if !f.isGm && hasSuffix(f.name, ".gno") && !clauseDomain(f.body) {
			return true
		}
	}
	if nGm > 1 || (nGm == 1) != g.present {
		return true
	}
	if hasDotMod && !g.present {
		return true
	}
	return false
}

// ---------------------------------------------------------------- read-back walk and digest

type pkgRead struct {
	path  string
	names []string
	body  map[string]string
}

func (e *env) readPkg(p string) (*pkgRead, bool) {
	lst, cls := e.qfile(p)
	if cls != "ok" {
		return nil, false
	}
	r := &pkgRead{path: p, body: map[string]string{}}
	if lst != "" {
		r.names = strings.Split(lst, "\n")
	}
	for _, n := range r.names {
		b, c := e.qfile(p + "/" + n)
		if c != "ok" {
			b = "\x00unreadable:" + c
		}
		r.body[n] = b
	}
	return r, true
}

func (e *env) walk() []*pkgRead {
	paths, _ := e.qpaths("gno.land/", 10000)
	var out []*pkgRead
	for _, p := range paths {
		if r, ok := e.readPkg(p); ok {
			out = append(out, r)
		} else {
			out = append(out, &pkgRead{path: p, body: map[string]string{}})
		}
	}
	return out
}

func digest(w []*pkgRead) string {
	h := uint32(2166136261)
	add := func(s string) {
		for i := 0; i < len(s); i++ {
			h ^= uint32(s[i])
			h *= 16777619
		}
		h ^= 0
		h *= 16777619
	}
	for _, p := range w {
		add(p.path)
		for _, n := range p.names {
			add(n)
			add(p.body[n])
		}
		h ^= 1
		h *= 16777619
	}
	return fmt.Sprintf("n=%d h=%08x", len(w), h)
}

// ---------------------------------------------------------------- oracle (independent shadow of the statement)

type shadowPkg struct {
	files   map[string]string // as deployed (gnomod.toml: submitted text)
	names   []string
	private bool
	creator string
	height  int64
}

type shadow struct {
	pkgs       map[string]*shadowPkg
	owners     map[string]int // namespace -> account index (registry state, from accepted reg ops)
	namesParam bool
}

func newShadow() *shadow {
	return &shadow{pkgs: map[string]*shadowPkg{}, owners: map[string]int{}, namesParam: true}
}

// oValidName: a path element: starts with a letter, alphanumerics, single `_`/`-`
// separators only between alphanumerics (mempackage.go's documented rule).
func oValidName(s string) bool {
	if s == "" || s[0] < 'a' || s[0] > 'z' {
		return false
	}
	prevSep := false
	for i := 0; i < len(s); i++ {
		c := s[i]
		switch {
		case c >= 'a' && c <= 'z' || c >= '0' && c <= '9':
			prevSep = false
		case c == '_' || c == '-':
			if prevSep {
				return false
			}
			prevSep = true
		default:
			return false
		}
	}
	return !prevSep
}

// oValidPath: the statement's "valid path under the chain domain": gno.land/(r|p)/<name>(/<name>)*,
// not a test path.
func oValidPath(p string) bool {
	parts := strings.Split(p, "/")
	if len(parts) < 3 || parts[0] != "gno.land" || (parts[1] != "r" && parts[1] != "p") {
		return false
	}
	for _, s := range parts[2:] {
		if !oValidName(s) {
			return false
		}
	}
	return !strings.HasSuffix(p, "_test") && !strings.HasSuffix(p, "_filetest") && len(p) <= 256
}

func (s *shadow) registryConfigured() bool {
	_, ok := s.pkgs[namesPath]
	return ok && s.namesParam
}

func (s *shadow) authorized(e *env, acct int, ns string) bool {
	if ns == e.addrs[acct].String() {
		return true
	}
	o, ok := s.owners[ns]
	return ok && o == acct
}

// expectFiles checks that what is read back for sp equals what was deployed plus metadata.
func expectFiles(path string, sp *shadowPkg, r *pkgRead) string {
	if r == nil {
		return "package vanished"
	}
	if strings.Join(r.names, ",") != strings.Join(sp.names, ",") {
		return fmt.Sprintf("file list %v, deployed %v", r.names, sp.names)
	}
	for _, n := range sp.names {
		if n != "gnomod.toml" {
			if r.body[n] != sp.files[n] {
				return "body of " + n + " differs"
			}
			continue
		}
		want, err1 := gnomod.ParseBytes("gnomod.toml", []byte(sp.files[n]))
		got, err2 := gnomod.ParseBytes("gnomod.toml", []byte(r.body[n]))
		if err1 != nil || err2 != nil {
			return "gnomod.toml does not parse"
		}
		wantGno := want.Gno
		if got.Module != path || got.Gno != wantGno || got.Draft != want.Draft || got.Private != want.Private ||
			got.Ignore != want.Ignore || len(got.Replace) != 0 || got.AddPkg.Creator != sp.creator || int64(got.AddPkg.Height) != sp.height {
			return "gnomod.toml metadata: " + strings.ReplaceAll(r.body[n], "\n", "|")
		}
	}
	return ""
}

// judge evaluates the invariants of the statement on the read-back state.
func (s *shadow) judge(w []*pkgRead) string {
	byPath := map[string]*pkgRead{}
	for _, r := range w {
		byPath[r.path] = r
	}
	var ps []string
	for p := range s.pkgs {
		ps = append(ps, p)
	}
	sort.Strings(ps)
	for _, p := range ps {
		sp := s.pkgs[p]
		if sp.private {
			continue
		}
		if msg := expectFiles(p, sp, byPath[p]); msg != "" {
			return "VIOL:code-changed " + p + ": " + msg
		}
	}
	for _, r := range w {
		if _, ok := s.pkgs[r.path]; !ok {
			return "VIOL:phantom " + r.path
		}
	}
	return "ok"
}

// ---------------------------------------------------------------- ops

func finish(res string, orc string) (string, string) {
	w := cur.walk()
	if orc == "" || orc == "ok" {
		orc = sh.judge(w)
	}
	return res + " | " + digest(w), orc
}

func doAdd(h int64, acct int, path, name string, g gmod, files []fileTok) (string, string) {
	var mfiles []*std.MemFile
	submitted := map[string]string{}
	var names []string
	hasProd := false
	for _, f := range files {
		body := string(f.body)
		if f.isGm {
			body = g.render(path)
		}
		mfiles = append(mfiles, &std.MemFile{Name: string(f.name), Body: body})
		submitted[string(f.name)] = body
		names = append(names, string(f.name))
		if hasSuffix(f.name, ".gno") && !hasSuffix(f.name, "_test.gno") && !hasSuffix(f.name, "_filetest.gno") {
			hasProd = true
		}
	}
	before, existed := sh.pkgs[path]
	res := cur.add(h, acct, path, name, mfiles)
	orc := ""
	if res == "ok" {
		// evaluate the acceptance clauses of the statement
		priv := false
		if gm, err := gnomod.ParseBytes("gnomod.toml", []byte(submitted["gnomod.toml"])); err == nil {
			priv = gm.Private
		}
		switch {
		case !oValidPath(path):
			orc = "VIOL:bad-path-accepted " + strconv.Quote(path)
		case !hasProd:
			orc = "VIOL:test-only-accepted " + path
		case existed && !before.private:
			orc = "VIOL:code-changed " + path + ": redeploy over a public package accepted"
		case existed && before.private && !priv:
			orc = "VIOL:private-to-public " + path
		case sh.registryConfigured() && !sh.authorized(cur, acct, strings.Split(path, "/")[2]):
			orc = "VIOL:unauthorized-deploy " + path + " by account " + strconv.Itoa(acct)
		}
		sp := &shadowPkg{files: submitted, names: names, private: priv, creator: cur.addrs[acct].String(), height: h}
		sh.pkgs[path] = sp
		if orc == "" {
			r, _ := cur.readPkg(path)
			if msg := expectFiles(path, sp, r); msg != "" {
				orc = "VIOL:query-mismatch " + path + ": " + msg
			}
		}
	}
	return finish(res, orc)
}

func exec(t []string) (string, string) {
	bad := func() (string, string) { return "err:badop", "-" }
	if len(t) == 0 {
		return bad()
	}
	switch t[0] {
	case "add":
		if len(t) < 7 {
			return bad()
		}
		h, ok1 := pNat(t[1])
		acct, ok2 := pNat(t[2])
		path, ok3 := unhex(t[3])
		name, ok4 := unhex(t[4])
		g, ok5 := pGm(t[5])
		if !ok1 || !ok2 || !ok3 || !ok4 || !ok5 || acct > 4 || len(t[2]) != 1 || len(t[6]) != 1 || !strings.Contains("oti", t[6]) {
			return bad()
		}
		var files []fileTok
		for _, ft := range t[7:] {
			f, ok := pFile(ft)
			if !ok {
				return bad()
			}
			files = append(files, f)
		}
		if addUnmodelled(path, g, files) {
			return "err:unmodelled", "-"
		}
		return doAdd(h, int(acct), string(path), string(name), g, files)
	case "names":
		if len(t) != 2 || len(t[1]) != 1 || t[1][0] < '0' || t[1][0] > '4' {
			return bad()
		}
		acct := int(t[1][0] - '0')
		g := gmod{present: true, mod: 's', gno: 'l'}
		return doAdd(1, acct, namesPath, "names", g, []fileTok{
			{name: []byte("gnomod.toml"), isGm: true},
			{name: []byte("names.gno"), body: []byte(namesRealm)},
		})
	case "param":
		if len(t) != 2 || (t[1] != "0" && t[1] != "1") {
			return bad()
		}
		p := cur.vmk.GetParams(cur.ctx)
		if t[1] == "0" {
			p.SysNamesPkgPath = ""
		} else {
			p.SysNamesPkgPath = namesPath
		}
		err, pn := cur.runTx(1, func(ctx sdk.Context) error { return cur.vmk.SetParams(ctx, p) })
		if err != nil || pn != nil {
			return finish("err:other", "")
		}
		sh.namesParam = t[1] == "1"
		return finish("ok", "")
	case "reg":
		if len(t) != 3 || len(t[1]) != 1 || t[1][0] < '0' || t[1][0] > '2' {
			return bad()
		}
		ns, ok := unhex(t[2])
		if !ok {
			return bad()
		}
		acct := int(t[1][0] - '0')
		msg := vm.MsgCall{Caller: cur.addrs[acct], PkgPath: namesPath, Func: "Register", Args: []string{string(ns)}}
		res := ""
		if err := msg.ValidateBasic(); err != nil {
			res = "basic-" + errClass(err)
		} else {
			err, pn := cur.runTx(1, func(ctx sdk.Context) error { _, err := cur.vmk.Call(ctx, msg); return err })
			if pn != nil {
				res = panicClass(pn)
			} else {
				res = errClass(err)
			}
		}
		if res == "ok" {
			if _, taken := sh.owners[string(ns)]; !taken {
				sh.owners[string(ns)] = acct
			}
		}
		return finish(res, "")
	case "qfile":
		if len(t) != 2 {
			return bad()
		}
		fp, ok := unhex(t[1])
		if !ok {
			return bad()
		}
		if qfileUnmodelled(string(fp)) {
			return "err:unmodelled", "-"
		}
		dir, fname := std.SplitFilepath(string(fp))
		_ = dir
		res, cls := cur.qfile(string(fp))
		if cls != "ok" {
			return cls, "-"
		}
		if fname != "" {
			return "f=" + hs(res), "-"
		}
		return "l=" + hs(res), "-"
	case "qpaths":
		if len(t) != 3 {
			return bad()
		}
		tg, ok := unhex(t[1])
		lim, ok2 := pNat(t[2])
		if !ok || !ok2 {
			return bad()
		}
		if qpathsUnmodelled(string(tg)) {
			return "err:unmodelled", "-"
		}
		ps, cls := cur.qpaths(string(tg), int(lim))
		if cls != "ok" {
			return cls, "-"
		}
		orc := "ok"
		for _, p := range ps {
			if _, known := sh.pkgs[p]; !known {
				orc = "VIOL:phantom " + p
			}
		}
		return "p=" + strings.Join(ps, ","), orc
	case "pmut":
		if len(t) != 2 {
			return bad()
		}
		v, ok := pNat(t[1])
		if !ok || int(v) >= len(pmutVariants) {
			return bad()
		}
		return doPmut(int(v))
	}
	return bad()
}

func main() {
	kit.Main(&kit.Harness{Gen: gen, Reset: reset, Exec: exec})
}
