package main

import (
	"fmt"
	"strings"

	"github.com/gnolang/gno/gno.land/pkg/sdk/vm"
	"github.com/gnolang/gno/tm2/pkg/sdk"
	"github.com/gnolang/gno/tm2/pkg/std"
)

// ---------------------------------------------------------------- query guards

// qfileUnmodelled: a first path segment without a dot could name a stdlib
// (whose contents the model does not carry).
func qfileUnmodelled(fp string) bool {
	seg := fp
	if i := strings.IndexByte(fp, '/'); i >= 0 {
		seg = fp[:i]
	}
	return !strings.Contains(seg, ".")
}

func qpathsUnmodelled(t string) bool {
	if t == "" || t[0] == '_' {
		return true // would list stdlibs
	}
	if t[0] != '@' {
		return t[len(t)-1] == 0xff // endKey[len-1]++ wraps
	}
	name, sub, _ := strings.Cut(t[1:], "/")
	if name == "stdlibs" || name == "std" {
		return true
	}
	for i := 0; i < len(sub); i++ {
		c := sub[i]
		if !(c >= 'a' && c <= 'z' || c >= '0' && c <= '9' || c == '_' || c == '-' || c == '/') {
			return true // path.Clean on dots etc. is not modelled
		}
	}
	return false
}

// ---------------------------------------------------------------- the namespace registry realm

// A minimal namespace registry with the API the keeper calls
// (IsAuthorizedAddressForNamespace): an address is authorized for the namespace
// that equals its own address string, and for the namespaces it registered
// first.  It stands in for gno.land/r/sys/names (whose own logic — govdao,
// r/sys/users — is not in scope of C12).
const namesRealm = `package names

var owners = map[string]address{}

func Register(cur realm, ns string) {
	caller := cur.Previous().Address()
	if _, taken := owners[ns]; taken {
		panic("namespace taken")
	}
	owners[ns] = caller
}

func IsAuthorizedAddressForNamespace(addr address, ns string) bool {
	if string(addr) == ns {
		return true
	}
	o, ok := owners[ns]
	return ok && o == addr
}
`

// ---------------------------------------------------------------- /p/ post-init mutation attempts (correspondence only)

const boxPkg = `package box

type Box struct{ V int }

var (
	X = 1
	P = &Box{V: 1}
	M = map[string]int{"k": 1}
	S = []int{1}
)

func init() { X = 2 }

func Get() int { return X + P.V*10 + M["k"]*100 + S[0]*1000 + len(S)*10000 + len(M)*100000 }

func SetX(n int)         { X = n }
func (b *Box) Set(n int) { b.V = n }
func SetM(n int)         { M["k"] = n }
func AddM()              { M["z"] = 9 }
func SetS(n int)         { S[0] = n }
func AppendS(n int)      { S = append(S, n) }
func Setter() func(int)  { return func(n int) { X = n } }
func New() *Box          { return &Box{V: 1} }
`

type pmutVariant struct {
	stmt    string
	mutates bool
}

var pmutVariants = []pmutVariant{
	{"mine.Set(5)", false}, // control: realm-owned object of a /p/ type
	{"box.SetX(7)", true},
	{"box.P.Set(7)", true},
	{"box.SetM(7)", true},
	{"box.AddM()", true},
	{"box.SetS(7)", true},
	{"box.AppendS(7)", true},
	{"box.Setter()(7)", true},
	{"box.P.V = 7", true},
	{"box.X = 7", true},
	{"box.M[\"k\"] = 7", true},
	{"box.S[0] = 7", true},
	{"p := &box.X; *p = 7", true},
	{"b := box.P; b.V = 7", true},
	{"_ = box.Get()", false}, // control: read only
}

func doPmut(v int) (string, string) {
	// throw-away layer on top of the case state (multistore and gno store)
	caseStore := getKeeperStore(cur.vmk)
	setKeeperStore(cur.vmk, layerOver(caseStore))
	defer setKeeperStore(cur.vmk, caseStore)
	e := *cur
	cms := cur.ms.MultiCacheWrap()
	e.ms = cms
	e.ctx = cur.ctx.WithMultiStore(cms)
	// the registry (if configured) authorizes an address for the namespace equal to itself
	ns := e.addrs[0].String()
	boxPath := "gno.land/p/" + ns + "/box"
	mutPath := "gno.land/r/" + ns + "/mut"
	gm := func(p string) string { return "module = \"" + p + "\"\ngno = \"0.9\"\n" }
	r1 := e.add(1, 0, boxPath, "box", []*std.MemFile{{Name: "box.gno", Body: boxPkg}, {Name: "gnomod.toml", Body: gm(boxPath)}})
	if r1 != "ok" {
		return "setup-failed:" + r1, "-"
	}
	get := func() string {
		res, err := e.vmk.QueryEval(e.ctx, boxPath, "Get()")
		if err != nil {
			return "?"
		}
		return strings.TrimSuffix(strings.TrimPrefix(res, "("), " int)")
	}
	before := get()
	realm := "package mut\n\nimport \"" + boxPath + "\"\n\nvar mine = box.New()\n\nfunc Do(cur realm) int {\n\t" +
		pmutVariants[v].stmt + "\n\treturn box.Get()\n}\n"
	res := e.add(1, 0, mutPath, "mut", []*std.MemFile{{Name: "gnomod.toml", Body: gm(mutPath)}, {Name: "mut.gno", Body: realm}})
	stage, inTx := "deploy", ""
	if res == "ok" {
		stage = "call"
		msg := vm.MsgCall{Caller: e.addrs[0], PkgPath: mutPath, Func: "Do"}
		var ret string
		err, pn := e.runTx(1, func(ctx sdk.Context) error { r, err := e.vmk.Call(ctx, msg); ret = r; return err })
		if pn != nil {
			res = panicClass(pn)
		} else {
			res = errClass(err)
		}
		inTx = strings.TrimSuffix(strings.TrimPrefix(strings.TrimSpace(ret), "("), " int)")
	}
	after := get()
	out := "rejected:" + stage + " v=" + after
	if res == "ok" {
		// r = what the realm itself read from the /p/ package right after its attempt, in the same tx
		out = "ok v=" + after + " r=" + inTx
	}
	orc := "ok"
	if after != before || (res == "ok" && inTx != before) {
		orc = fmt.Sprintf("VIOL:p-mutated variant %d (%s): Get() %s -> %s (persisted), %s (in the same tx)", v, pmutVariants[v].stmt, before, after, inTx)
	}
	return out, orc
}
