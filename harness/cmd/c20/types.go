package main

import (
	"reflect"
	"sort"
	"strings"

	"github.com/gnolang/gno/tm2/pkg/amino"
	"github.com/gnolang/gno/tm2/pkg/amino/pkg"

	gnoland "github.com/gnolang/gno/gno.land/pkg/gnoland"
	vm "github.com/gnolang/gno/gno.land/pkg/sdk/vm"
	gnolang "github.com/gnolang/gno/gnovm/pkg/gnolang"
	chain "github.com/gnolang/gno/gnovm/stdlibs/chain"
	abci "github.com/gnolang/gno/tm2/pkg/bft/abci/types"
	blockchain "github.com/gnolang/gno/tm2/pkg/bft/blockchain"
	consensus "github.com/gnolang/gno/tm2/pkg/bft/consensus"
	cstypes "github.com/gnolang/gno/tm2/pkg/bft/consensus/types"
	mempool "github.com/gnolang/gno/tm2/pkg/bft/mempool"
	remote "github.com/gnolang/gno/tm2/pkg/bft/privval/signer/remote"
	bft "github.com/gnolang/gno/tm2/pkg/bft/types"
	bitarray "github.com/gnolang/gno/tm2/pkg/bitarray"
	ed25519 "github.com/gnolang/gno/tm2/pkg/crypto/ed25519"
	hd "github.com/gnolang/gno/tm2/pkg/crypto/hd"
	keys "github.com/gnolang/gno/tm2/pkg/crypto/keys"
	merkle "github.com/gnolang/gno/tm2/pkg/crypto/merkle"
	mock "github.com/gnolang/gno/tm2/pkg/crypto/mock"
	multisig "github.com/gnolang/gno/tm2/pkg/crypto/multisig"
	secp256k1 "github.com/gnolang/gno/tm2/pkg/crypto/secp256k1"
	conn "github.com/gnolang/gno/tm2/pkg/p2p/conn"
	discovery "github.com/gnolang/gno/tm2/pkg/p2p/discovery"
	sdk "github.com/gnolang/gno/tm2/pkg/sdk"
	auth "github.com/gnolang/gno/tm2/pkg/sdk/auth"
	bank "github.com/gnolang/gno/tm2/pkg/sdk/bank"
	params "github.com/gnolang/gno/tm2/pkg/sdk/params"
	testutils "github.com/gnolang/gno/tm2/pkg/sdk/testutils"
	std "github.com/gnolang/gno/tm2/pkg/std"
)

// allPackages lists every amino.Package registered by non-test code in tm2,
// gnovm and gno.land (found with `grep -rn amino.RegisterPackage`).
var allPackages = []*pkg.Package{
	gnoland.Package, vm.Package, gnolang.Package, chain.Package,
	abci.Package, blockchain.Package, consensus.Package, cstypes.Package,
	mempool.Package, remote.Package, bft.Package, bitarray.Package,
	ed25519.Package, hd.Package, keys.Package, merkle.Package, mock.Package,
	multisig.Package, secp256k1.Package, conn.Package, discovery.Package,
	sdk.Package, auth.Package, bank.Package, params.Package, testutils.Package,
	std.Package,
}

// regType is one registered concrete type.
type regType struct {
	Name string // "<p3pkg>.<Name>" (the Any full name), unique
	RT   reflect.Type
	Info *amino.TypeInfo
	Fast bool // has native genproto2 methods
}

var (
	cdc       *amino.Codec
	regTypes  []*regType
	regByName = map[string]*regType{}
)

func initTypes() {
	cdc = amino.NewCodec()
	for _, p := range allPackages {
		cdc.RegisterPackage(p)
	}
	cdc.Seal()
	seen := map[reflect.Type]bool{}
	for _, p := range cdc.GetPackages() {
		if !strings.HasPrefix(p.GoPkgPath, "github.com/gnolang/gno/") {
			continue // native / time / google well-known packages
		}
		for _, t := range p.Types {
			rt := t.Type
			if rt.Kind() == reflect.Pointer {
				rt = rt.Elem()
			}
			if seen[rt] || rt.Kind() == reflect.Interface {
				continue
			}
			info, err := cdc.GetTypeInfo(rt)
			if err != nil || !info.Registered {
				continue
			}
			if info.Package == nil || info.Package.GoPkgPath == "" {
				continue
			}
			seen[rt] = true
			name := info.TypeURL[1:]
			r := &regType{Name: name, RT: rt, Info: info, Fast: amino.HasNativeGenproto2(rt)}
			regTypes = append(regTypes, r)
			regByName[name] = r
		}
	}
	sort.Slice(regTypes, func(i, j int) bool { return regTypes[i].Name < regTypes[j].Name })
}
