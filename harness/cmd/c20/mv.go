package main

// Canonical "amino-visible value" (MV) of a Go value, and the type descriptor
// (TD) of its type, both serialised as single tokens for the op line.
//
// The MV is what amino defines a value to BE: only amino-visible struct
// fields, AminoMarshaler types replaced by their repr, nil and empty lists /
// byte strings identified (proto3 cannot distinguish them; reflect.go
// defaultValue doc), a nil pointer to a non-struct identified with a pointer
// to the default value (same doc), times as (seconds, nanos).
// Value equality in the oracle is equality of MV strings.
//
// MV grammar (no spaces):
//   u<dec> | i<dec> | t | f | x<hex> | T<s>,<ns> | D<ns> | ~ (nil)
//   [mv,mv,...] | {mv;mv;...} | <name:mv> | m0(mv) | m1(mv)
// TD grammar:
//   u8 u16 u32 u64 i8 i16 i32 i64 x32i x32u x64i x64u X32i X32u p32 p64
//   b s y a<N> T D I(id)  L[*][n](td)  A<N>[*][n](td)  $name  M(td) Ms(td)
//   struct def (only as env entry):  {<num>[*][w]:td;...}[|r<num>,...]
// env:  name[@ifaceid,...]=def&name=def&...   (ifaceids: interfaces of this env the type is assignable to)

import (
	"encoding/hex"
	"fmt"
	"math"
	"reflect"
	"sort"
	"strconv"
	"strings"
	"time"

	"github.com/gnolang/gno/tm2/pkg/amino"
)

type errUncovered string

func (e errUncovered) Error() string { return string(e) }

type tdEnv struct {
	defs   map[string]string
	names  map[reflect.Type]string
	infos  map[string]*amino.TypeInfo
	ifaces map[string]reflect.Type // interface id -> type, for every `I(id)` emitted
	order  []string
	// descriptor features seen (decide what the model can follow)
	hasMarsh, hasUnmodelled bool
}

func newEnv() *tdEnv {
	return &tdEnv{defs: map[string]string{}, names: map[reflect.Type]string{},
		infos: map[string]*amino.TypeInfo{}, ifaces: map[string]reflect.Type{}}
}

func ifaceID(t reflect.Type) string { return sanitize(t.String()) }

func (e *tdEnv) String() string {
	ks := append([]string(nil), e.order...)
	sort.Strings(ks)
	var sb strings.Builder
	var ids []string
	for id := range e.ifaces {
		ids = append(ids, id)
	}
	sort.Strings(ids)
	for i, k := range ks {
		if i > 0 {
			sb.WriteByte('&')
		}
		sb.WriteString(k)
		// interfaces (among those occurring in this env) the decoded form is assignable to
		info := e.infos[k]
		if info != nil && info.Registered && !strings.HasPrefix(k, "#") {
			form := info.Type
			if info.PointerPreferred {
				form = reflect.PointerTo(form)
			}
			first := true
			for _, id := range ids {
				if form.AssignableTo(e.ifaces[id]) {
					if first {
						sb.WriteByte('@')
						first = false
					} else {
						sb.WriteByte(',')
					}
					sb.WriteString(id)
				}
			}
		}
		sb.WriteByte('=')
		sb.WriteString(e.defs[k])
	}
	if sb.Len() == 0 {
		return "-"
	}
	return sb.String()
}

func sanitize(s string) string {
	var sb strings.Builder
	for _, c := range s {
		if c >= 'a' && c <= 'z' || c >= 'A' && c <= 'Z' || c >= '0' && c <= '9' || c == '.' || c == '_' {
			sb.WriteRune(c)
		} else {
			sb.WriteByte('_')
		}
	}
	return sb.String()
}

// nameOf gives the env name of a type: the Any full name if registered,
// otherwise "#<pkg>.<Name>" (never resolvable from a type URL).
func (e *tdEnv) nameOf(info *amino.TypeInfo) string {
	if n, ok := e.names[info.Type]; ok {
		return n
	}
	var n string
	if info.Registered && info.Package != nil && strings.HasPrefix(info.Package.GoPkgPath, "github.com/gnolang/gno/") {
		n = info.TypeURL[1:]
	} else if info.Type.Name() != "" {
		n = "#" + sanitize(info.Type.String())
	} else {
		n = "#anon" + strconv.Itoa(len(e.names))
	}
	e.names[info.Type] = n
	return n
}

// define makes sure env has an entry for a (registered or struct) type and
// returns its name.
func (e *tdEnv) define(info *amino.TypeInfo) string {
	n := e.nameOf(info)
	if _, ok := e.defs[n]; ok {
		return n
	}
	e.defs[n] = "?" // cut recursion
	e.infos[n] = info
	e.order = append(e.order, n)
	var td string
	if !info.IsAminoMarshaler && info.Type.Kind() == reflect.Struct && info.Type != timeType {
		td = e.structDef(info)
	} else {
		td = e.tdOf(info, amino.FieldOptions{}, true)
	}
	e.defs[n] = td
	return n
}

func (e *tdEnv) structDef(info *amino.TypeInfo) string {
	var sb strings.Builder
	sb.WriteByte('{')
	for i, f := range info.Fields {
		if i > 0 {
			sb.WriteByte(';')
		}
		sb.WriteString(strconv.Itoa(int(f.BinFieldNum)))
		if f.Type.Kind() == reflect.Pointer {
			sb.WriteByte('*')
		}
		if f.WriteEmpty {
			sb.WriteByte('w')
		}
		sb.WriteByte(':')
		sb.WriteString(e.tdOf(f.TypeInfo, f.FieldOptions, false))
	}
	sb.WriteByte('}')
	if len(info.Reserved) > 0 {
		sb.WriteByte('|')
		for i, r := range info.Reserved {
			if i > 0 {
				sb.WriteByte(',')
			}
			sb.WriteString("r" + strconv.Itoa(int(r)))
		}
	}
	return sb.String()
}

// tdOf: descriptor of a (dereferenced) type under field options fopts.
// top=true when defining an env entry for a non-struct type (avoid `$self`).
func (e *tdEnv) tdOf(info *amino.TypeInfo, fopts amino.FieldOptions, top bool) string {
	if fopts.UseGoogleTypes {
		panic(errUncovered("google field option"))
	}
	rt := info.Type
	if info.IsAminoMarshaler {
		e.hasMarsh = true
		if rt.Kind() == reflect.Struct {
			return "Ms(" + e.tdOf(info.ReprType, fopts, false) + ")"
		}
		return "M(" + e.tdOf(info.ReprType, fopts, false) + ")"
	}
	switch rt {
	case timeType:
		return "T"
	case durationType:
		return "D"
	}
	switch rt.Kind() {
	case reflect.Interface:
		id := ifaceID(rt)
		e.ifaces[id] = rt
		return "I(" + id + ")"
	case reflect.Struct:
		return "$" + e.define(info)
	case reflect.Slice, reflect.Array:
		if rt.Elem().Kind() == reflect.Uint8 {
			if rt.Kind() == reflect.Slice {
				return "y"
			}
			return "a" + strconv.Itoa(rt.Len())
		}
		var sb strings.Builder
		if rt.Kind() == reflect.Slice {
			sb.WriteByte('L')
		} else {
			e.hasUnmodelled = true
			sb.WriteString("A" + strconv.Itoa(rt.Len()))
		}
		if rt.Elem().Kind() == reflect.Pointer {
			sb.WriteByte('*')
		}
		if fopts.NilElements {
			sb.WriteByte('n')
		}
		sb.WriteByte('(')
		sb.WriteString(e.tdOf(info.Elem, fopts, false))
		sb.WriteByte(')')
		return sb.String()
	case reflect.Int64, reflect.Int:
		switch {
		case fopts.BinFixed64:
			return "x64i"
		case fopts.BinFixed32 && rt.Kind() == reflect.Int:
			e.hasUnmodelled = true
			return "X32i"
		case fopts.BinPlainVarint:
			return "p64"
		}
		return "i64"
	case reflect.Int32:
		switch {
		case fopts.BinFixed32:
			return "x32i"
		case fopts.BinPlainVarint:
			return "p32"
		}
		return "i32"
	case reflect.Int16:
		return "i16"
	case reflect.Int8:
		return "i8"
	case reflect.Uint64, reflect.Uint:
		switch {
		case fopts.BinFixed64:
			return "x64u"
		case fopts.BinFixed32 && rt.Kind() == reflect.Uint:
			e.hasUnmodelled = true
			return "X32u"
		}
		return "u64"
	case reflect.Uint32:
		if fopts.BinFixed32 {
			return "x32u"
		}
		return "u32"
	case reflect.Uint16:
		return "u16"
	case reflect.Uint8:
		return "u8"
	case reflect.Bool:
		return "b"
	case reflect.String:
		return "s"
	case reflect.Float32, reflect.Float64:
		e.hasUnmodelled = true
		return "g" + strconv.Itoa(rt.Bits())
	}
	panic(errUncovered(fmt.Sprintf("unsupported kind %v", rt.Kind())))
}

// ---------------------------------------------------------------- MV

type mvCtx struct {
	env *tdEnv // may be nil (then no env is built)
}

func hexs(b []byte) string { return "x" + hex.EncodeToString(b) }

// isStructLike: reflect.go defaultValue keeps a nil pointer nil exactly when the
// pointee's GO kind is struct (time.Time excepted, whose default is non-nil 1970).
func isStructLike(info *amino.TypeInfo) bool {
	return info.Type.Kind() == reflect.Struct && info.Type != timeType
}

// defaultMV is the MV of reflect.go's defaultValue for a dereferenced,
// non-struct-pointer target type.
func (c *mvCtx) zeroOf(info *amino.TypeInfo) string {
	var v reflect.Value
	if info.Type == timeType {
		v = reflect.ValueOf(time.Unix(0, 0).UTC())
	} else {
		v = reflect.Zero(info.Type)
	}
	return c.mvOf(v, info)
}

// ptrMV renders a (possibly pointer-typed) slot. ctxNilIsNil: a nil pointer
// stays nil (struct pointers; any pointer under nil_elements).
func (c *mvCtx) slotMV(v reflect.Value, info *amino.TypeInfo, nilElems bool) string {
	if v.Kind() == reflect.Pointer {
		if v.IsNil() {
			if isStructLike(info) || nilElems {
				return "~"
			}
			return c.zeroOf(info)
		}
		v = v.Elem()
	}
	return c.mvOf(v, info)
}

func (c *mvCtx) mvOf(v reflect.Value, info *amino.TypeInfo) string {
	rt := info.Type
	if info.IsAminoMarshaler {
		var m reflect.Value
		if v.CanAddr() {
			m = v.Addr().MethodByName("MarshalAmino")
		} else {
			m = v.MethodByName("MarshalAmino")
		}
		outs := m.Call(nil)
		if !outs[1].IsNil() {
			panic(errUncovered("MarshalAmino error: " + outs[1].Interface().(error).Error()))
		}
		gz := "0"
		if goZero(v) {
			gz = "1"
		}
		return "m" + gz + "(" + c.mvOf(outs[0], info.ReprType) + ")"
	}
	switch rt {
	case timeType:
		t := v.Interface().(time.Time)
		return "T" + strconv.FormatInt(t.Unix(), 10) + "," + strconv.Itoa(t.Nanosecond())
	case durationType:
		return "D" + strconv.FormatInt(v.Int(), 10)
	}
	switch rt.Kind() {
	case reflect.Interface:
		if v.IsNil() {
			return "~"
		}
		cv := v.Elem()
		if cv.Kind() == reflect.Pointer {
			if cv.IsNil() {
				panic(errUncovered("nil pointer in interface"))
			}
			cv = cv.Elem()
		}
		cinfo, err := cdc.GetTypeInfo(cv.Type())
		if err != nil || !cinfo.Registered {
			panic(errUncovered("unregistered concrete type " + cv.Type().String()))
		}
		name := cinfo.TypeURL[1:]
		if c.env != nil {
			name = c.env.define(cinfo)
		}
		return "<" + name + ":" + c.mvOf(cv, cinfo) + ">"
	case reflect.Struct:
		var sb strings.Builder
		sb.WriteByte('{')
		for i, f := range info.Fields {
			if i > 0 {
				sb.WriteByte(';')
			}
			fv := v.Field(f.Index)
			if lk := f.TypeInfo.ReprType.Type.Kind(); (lk == reflect.Slice || lk == reflect.Array) && !f.TypeInfo.IsAminoMarshaler {
				sb.WriteString(c.listSlot(fv, f.TypeInfo, f.NilElements))
			} else {
				sb.WriteString(c.slotMV(fv, f.TypeInfo, false))
			}
		}
		sb.WriteByte('}')
		return sb.String()
	case reflect.Slice, reflect.Array:
		return c.listMV(v, info, false)
	case reflect.Int, reflect.Int8, reflect.Int16, reflect.Int32, reflect.Int64:
		return "i" + strconv.FormatInt(v.Int(), 10)
	case reflect.Uint, reflect.Uint8, reflect.Uint16, reflect.Uint32, reflect.Uint64:
		return "u" + strconv.FormatUint(v.Uint(), 10)
	case reflect.Float32, reflect.Float64:
		return "g" + strconv.FormatUint(math.Float64bits(v.Float()), 16)
	case reflect.Bool:
		if v.Bool() {
			return "t"
		}
		return "f"
	case reflect.String:
		return hexs([]byte(v.String()))
	}
	panic(errUncovered(fmt.Sprintf("mvOf: unsupported kind %v", rt.Kind())))
}

// listSlot: a struct field holding (a pointer to) a list.
func (c *mvCtx) listSlot(v reflect.Value, info *amino.TypeInfo, nilElems bool) string {
	if v.Kind() == reflect.Pointer {
		if v.IsNil() {
			return c.listMV(reflect.Zero(info.Type), info, nilElems)
		}
		v = v.Elem()
	}
	return c.listMV(v, info, nilElems)
}

func (c *mvCtx) listMV(v reflect.Value, info *amino.TypeInfo, nilElems bool) string {
	rt := info.Type
	if rt.Elem().Kind() == reflect.Uint8 {
		n := v.Len()
		b := make([]byte, n)
		reflect.Copy(reflect.ValueOf(b), v)
		return hexs(b)
	}
	var sb strings.Builder
	sb.WriteByte('[')
	for i := 0; i < v.Len(); i++ {
		if i > 0 {
			sb.WriteByte(',')
		}
		ev := v.Index(i)
		einfo := info.Elem
		if lk := einfo.ReprType.Type.Kind(); (lk == reflect.Slice || lk == reflect.Array) && !einfo.IsAminoMarshaler {
			if ev.Kind() == reflect.Pointer {
				if ev.IsNil() {
					if nilElems {
						sb.WriteByte('~')
						continue
					}
					ev = reflect.Zero(einfo.Type)
				} else {
					ev = ev.Elem()
				}
			}
			sb.WriteString(c.listMV(ev, einfo, nilElems))
		} else {
			sb.WriteString(c.slotMV(ev, einfo, nilElems))
		}
	}
	sb.WriteByte(']')
	return sb.String()
}

// goZero mirrors the Go-level notion "is the Go zero value" used for the m0/m1
// bit of AminoMarshaler nodes (nil or empty containers count as zero).
func goZero(v reflect.Value) bool {
	switch v.Kind() {
	case reflect.Slice, reflect.Map:
		return v.IsNil() || v.Len() == 0
	case reflect.String:
		return v.Len() == 0
	case reflect.Struct, reflect.Array:
		return false
	}
	return v.IsZero()
}

// mvTop renders *T (pv non-nil pointer) as an MV string; returns ok=false if
// the value contains something outside the MV language.
func mvTop(pv reflect.Value, info *amino.TypeInfo, env *tdEnv) (s string, err error) {
	defer func() {
		if r := recover(); r != nil {
			if e, ok := r.(errUncovered); ok {
				err = e
				return
			}
			panic(r)
		}
	}()
	c := &mvCtx{env: env}
	if env != nil {
		env.define(info)
	}
	return c.mvOf(pv.Elem(), info), nil
}
