package main

import (
	"bytes"
	"encoding/hex"
	"fmt"
	"os"
	"reflect"
	"runtime/debug"
	"strings"

	"github.com/gnolang/gno/tm2/pkg/amino"
)

// safely runs f and converts a panic into (panicked=true, msg).
func safely(f func()) (panicked bool, msg string) {
	defer func() {
		if v := recover(); v != nil {
			panicked = true
			msg = fmt.Sprint(v)
			if os.Getenv("VERIF_TRACE") != "" {
				fmt.Fprintf(os.Stderr, "panic: %v\n%s\n", v, debug.Stack())
			}
		}
	}()
	f()
	return
}

type encRes struct {
	bz       []byte
	err      error
	panicked bool
	pmsg     string
}

func (e encRes) status() string {
	switch {
	case e.panicked:
		return "panic"
	case e.err != nil:
		return "err"
	}
	return "ok"
}

func encReflect(pv reflect.Value) (r encRes) {
	r.panicked, r.pmsg = safely(func() { r.bz, r.err = cdc.MarshalReflect(pv.Interface()) })
	return
}

// encFast runs the generated encoder exactly as Codec.MarshalBinary2 does, and
// also reports the predicted size.
func encFast(pv reflect.Value) (r encRes, size int, sizeErr error) {
	pbm := pv.Interface().(amino.PBMarshaler2)
	r.panicked, r.pmsg = safely(func() {
		size, sizeErr = pbm.SizeBinary2(cdc)
		r.bz, r.err = cdc.MarshalBinary2(pbm)
	})
	return
}

type decRes struct {
	pv       reflect.Value
	err      error
	panicked bool
	pmsg     string
}

func (d decRes) status() string {
	switch {
	case d.panicked:
		return "panic"
	case d.err != nil:
		return "err"
	}
	return "ok"
}

func decReflect(rt *regType, bz []byte) (d decRes) {
	d.pv = reflect.New(rt.RT)
	d.panicked, d.pmsg = safely(func() { d.err = cdc.UnmarshalReflect(bz, d.pv.Interface()) })
	return
}

func decFast(rt *regType, bz []byte) (d decRes) {
	d.pv = reflect.New(rt.RT)
	pbm := d.pv.Interface().(amino.PBMessager2)
	d.panicked, d.pmsg = safely(func() { d.err = pbm.UnmarshalBinary2(cdc, bz, 0) })
	return
}

func short(s string) string {
	if len(s) > 120 {
		return s[:120] + "..."
	}
	return s
}

func mvOrErr(pv reflect.Value, info *amino.TypeInfo) string {
	var s string
	var err error
	p, msg := safely(func() { s, err = mvTop(pv, info, nil) })
	if p {
		return "!panic:" + msg
	}
	if err != nil {
		return "!err:" + err.Error()
	}
	return s
}

// firstDiff gives a short description of where two MV strings differ.
func firstDiff(a, b string) string {
	i := 0
	for i < len(a) && i < len(b) && a[i] == b[i] {
		i++
	}
	lo := i - 20
	if lo < 0 {
		lo = 0
	}
	ha, hb := i+30, i+30
	if ha > len(a) {
		ha = len(a)
	}
	if hb > len(b) {
		hb = len(b)
	}
	return fmt.Sprintf("@%d …%s… vs …%s…", i, a[lo:ha], b[lo:hb])
}

// rtClass: a round-trip mismatch whose ONLY differences are epoch times
// (1970, amino's empty time) coming back as Go's zero time (year 1) is the
// recorded finding rt-epoch-in-empty-struct; anything else is rt-value.
func rtClass(orig, got string) string {
	const epoch, year1 = "T0,0", "T-62135596800,0"
	if strings.Contains(orig, epoch) && rewriteEpoch(orig, got, epoch, year1) {
		return "rt-epoch-in-empty-struct"
	}
	return "rt-value"
}

// rewriteEpoch: got equals orig after replacing SOME occurrences of epoch by year1.
func rewriteEpoch(orig, got, epoch, year1 string) bool {
	i, j := 0, 0
	changed := false
	for i < len(orig) && j < len(got) {
		if strings.HasPrefix(orig[i:], epoch) && strings.HasPrefix(got[j:], year1) && !strings.HasPrefix(orig[i:], year1) {
			i += len(epoch)
			j += len(year1)
			changed = true
			continue
		}
		if orig[i] != got[j] {
			return false
		}
		i++
		j++
	}
	return changed && i == len(orig) && j == len(got)
}

// checkRT evaluates the round-trip clauses of the statement on one value.
// Returns the reflect encoder's result, the MV of the value and the verdict.
func checkRT(rt *regType, pv reflect.Value) (enc encRes, mv string, verdict string) {
	info := rt.Info
	mv = mvOrErr(pv, info)
	enc = encReflect(pv)
	if enc.panicked {
		return enc, mv, "VIOL:enc-panic reflect encoder panicked: " + short(enc.pmsg)
	}
	if rt.Fast {
		ef, size, sizeErr := encFast(pv)
		if ef.panicked {
			return enc, mv, "VIOL:enc-panic fast encoder panicked: " + short(ef.pmsg)
		}
		if (ef.err != nil) != (enc.err != nil) {
			return enc, mv, fmt.Sprintf("VIOL:enc-mismatch reflect=%s fast=%s (%v / %v)", enc.status(), ef.status(), enc.err, ef.err)
		}
		if enc.err == nil {
			if !bytes.Equal(enc.bz, ef.bz) {
				return enc, mv, fmt.Sprintf("VIOL:enc-mismatch reflect=%x fast=%x", enc.bz, ef.bz)
			}
			if sizeErr != nil || size != len(ef.bz) {
				return enc, mv, fmt.Sprintf("VIOL:size-mismatch size=%d (%v) len=%d", size, sizeErr, len(ef.bz))
			}
			// Codec.Marshal dispatch must give the same bytes too.
			var bzM []byte
			var errM error
			if p, msg := safely(func() { bzM, errM = cdc.Marshal(pv.Interface()) }); p || errM != nil || !bytes.Equal(bzM, enc.bz) {
				return enc, mv, fmt.Sprintf("VIOL:enc-mismatch Codec.Marshal=%x err=%v panic=%v reflect=%x", bzM, errM, msg, enc.bz)
			}
		}
	}
	if enc.err != nil {
		return enc, mv, "ok" // both encoders reject this value alike
	}
	// decode with either decoder
	d1 := decReflect(rt, enc.bz)
	if d1.panicked {
		return enc, mv, "VIOL:dec-panic reflect decoder panicked on own encoding: " + short(d1.pmsg)
	}
	if d1.err != nil {
		return enc, mv, "VIOL:rt-reject reflect decoder rejects own encoding: " + short(d1.err.Error())
	}
	m1 := mvOrErr(d1.pv, info)
	if m1 != mv {
		return enc, mv, "VIOL:" + rtClass(mv, m1) + " reflect decode(encode v) != v " + firstDiff(mv, m1)
	}
	if rt.Fast {
		d2 := decFast(rt, enc.bz)
		if d2.panicked {
			return enc, mv, "VIOL:dec-panic fast decoder panicked on own encoding: " + short(d2.pmsg)
		}
		if d2.err != nil {
			return enc, mv, "VIOL:rt-reject fast decoder rejects own encoding: " + short(d2.err.Error())
		}
		m2 := mvOrErr(d2.pv, info)
		if m2 != mv {
			return enc, mv, "VIOL:" + rtClass(mv, m2) + " fast decode(encode v) != v " + firstDiff(mv, m2)
		}
	}
	// JSON
	var js []byte
	var jerr error
	if p, msg := safely(func() { js, jerr = cdc.JSONMarshal(pv.Interface()) }); p {
		return enc, mv, "VIOL:json-panic JSONMarshal panicked: " + short(msg)
	}
	if jerr != nil {
		return enc, mv, "VIOL:json-enc JSONMarshal failed on a binary-encodable value: " + short(jerr.Error())
	}
	d3 := reflect.New(rt.RT)
	if p, msg := safely(func() { jerr = cdc.JSONUnmarshal(js, d3.Interface()) }); p {
		return enc, mv, "VIOL:json-panic JSONUnmarshal panicked: " + short(msg)
	}
	if jerr != nil {
		return enc, mv, "VIOL:json-reject JSONUnmarshal rejects own encoding: " + short(jerr.Error()) + " json=" + short(string(js))
	}
	m3 := mvOrErr(d3, info)
	if m3 != mv {
		return enc, mv, "VIOL:json-value JSON decode(encode v) != v " + firstDiff(mv, m3)
	}
	return enc, mv, "ok"
}

// checkDec evaluates the arbitrary-bytes clauses on one byte string.
func checkDec(rt *regType, bz []byte) (d1 decRes, m1 string, verdict string) {
	info := rt.Info
	d1 = decReflect(rt, bz)
	if d1.panicked {
		return d1, "", "VIOL:dec-panic reflect decoder panicked: " + short(d1.pmsg)
	}
	if d1.err == nil {
		m1 = mvOrErr(d1.pv, info)
	}
	if rt.Fast {
		d2 := decFast(rt, bz)
		if d2.panicked {
			return d1, m1, "VIOL:dec-panic fast decoder panicked: " + short(d2.pmsg)
		}
		if (d1.err == nil) != (d2.err == nil) {
			cls := classifyDecDivergence(rt, bz, d1.err == nil, m1, d1.pv)
			if cls == "" {
				cls = "dec-accept"
			}
			return d1, m1, fmt.Sprintf("VIOL:%s reflect=%s fast=%s (%v / %v)", cls, d1.status(), d2.status(), d1.err, d2.err)
		}
		if d1.err == nil {
			m2 := mvOrErr(d2.pv, info)
			if m1 != m2 {
				cls := classifyDecDivergence(rt, bz, true, m1, d1.pv)
				if cls == "" {
					cls = "dec-value"
				}
				return d1, m1, "VIOL:" + cls + " decoders accept with different values " + firstDiff(m1, m2)
			}
		}
		// Codec.Unmarshal dispatch agrees with the fast decoder by construction; check anyway.
		d3 := reflect.New(rt.RT)
		var e3 error
		if p, msg := safely(func() { e3 = cdc.Unmarshal(bz, d3.Interface()) }); p {
			return d1, m1, "VIOL:dec-panic Codec.Unmarshal panicked: " + short(msg)
		}
		if (e3 == nil) != (d1.err == nil) {
			return d1, m1, fmt.Sprintf("VIOL:dec-accept reflect=%s Codec.Unmarshal err=%v", d1.status(), e3)
		}
	}
	if d1.err != nil {
		return d1, m1, "ok"
	}
	// re-encode the accepted value; it must decode back to the same value
	e := encReflect(d1.pv)
	if e.panicked {
		return d1, m1, "VIOL:reenc-panic re-encoding an accepted value panicked: " + short(e.pmsg)
	}
	if e.err != nil {
		return d1, m1, "VIOL:reenc-err re-encoding an accepted value failed: " + short(e.err.Error())
	}
	if rt.Fast {
		ef, _, _ := encFast(d1.pv)
		if ef.panicked || ef.err != nil || !bytes.Equal(ef.bz, e.bz) {
			return d1, m1, fmt.Sprintf("VIOL:enc-mismatch on accepted value reflect=%x fast=%x err=%v panic=%v", e.bz, ef.bz, ef.err, ef.pmsg)
		}
	}
	d4 := decReflect(rt, e.bz)
	if d4.panicked || d4.err != nil {
		return d1, m1, fmt.Sprintf("VIOL:reenc-reject re-encoded accepted value does not decode: %v %v", d4.err, d4.pmsg)
	}
	if m4 := mvOrErr(d4.pv, info); m4 != m1 {
		return d1, m1, "VIOL:reenc-value decode(encode(accepted)) != accepted " + firstDiff(m1, m4)
	}
	return d1, m1, "ok"
}

// ---- attribution of a decoder disagreement to a recorded finding ------------
//
// A disagreement is attributed to a known family only constructively: the
// family's repair of the INPUT must make both real decoders accept with equal
// values (and, for key-eof, the value the lenient decoder had produced).

// agreeAccept: both decoders accept bz with equal values; returns that value.
func agreeAccept(rt *regType, bz []byte) (string, bool) {
	d1 := decReflect(rt, bz)
	d2 := decFast(rt, bz)
	if d1.panicked || d2.panicked || d1.err != nil || d2.err != nil {
		return "", false
	}
	m1, m2 := mvOrErr(d1.pv, rt.Info), mvOrErr(d2.pv, rt.Info)
	return m1, m1 == m2
}

// depad removes padding from varints: a continuation byte followed by 0x00
// (…,0x8X,0x00 → …,0x0X), at the given candidate index or everywhere (idx<0).
func padSites(bz []byte) []int {
	var out []int
	for i := 0; i+1 < len(bz); i++ {
		if bz[i] >= 0x80 && bz[i+1] == 0x00 {
			out = append(out, i)
		}
	}
	return out
}

func depadAt(bz []byte, sites []int) []byte {
	skip := map[int]bool{}
	for _, i := range sites {
		skip[i+1] = true
	}
	out := make([]byte, 0, len(bz))
	for i, b := range bz {
		if skip[i] {
			continue
		}
		if skip[i+1] {
			b &= 0x7f
		}
		out = append(out, b)
	}
	return out
}

// depadVariants: the input with all padding sites repaired (iterated, for
// multi-byte padding) and with each single site repaired.
func depadVariants(bz []byte) [][]byte {
	var out [][]byte
	cur := bz
	for k := 0; k < 10; k++ {
		sites := padSites(cur)
		if len(sites) == 0 {
			break
		}
		// non-overlapping sites only
		var pick []int
		last := -2
		for _, i := range sites {
			if i > last+1 {
				pick = append(pick, i)
				last = i
			}
		}
		cur = depadAt(cur, pick)
		out = append(out, cur)
	}
	if sites := padSites(bz); len(sites) >= 3 && len(sites) <= 10 {
		// every pair / triple of sites (some `8x 00` pairs may be payload bytes, not padding)
		for a := 0; a < len(sites); a++ {
			for b := a + 1; b < len(sites); b++ {
				if sites[b] > sites[a]+1 {
					out = append(out, depadAt(bz, []int{sites[a], sites[b]}))
					for c := b + 1; c < len(sites); c++ {
						if sites[c] > sites[b]+1 {
							out = append(out, depadAt(bz, []int{sites[a], sites[b], sites[c]}))
						}
					}
				}
			}
		}
	}
	for _, i := range padSites(bz) {
		one := depadAt(bz, []int{i})
		out = append(out, one)
		// a longer padding run at the same place
		for k := 0; k < 8; k++ {
			j := -1
			for _, s := range padSites(one) {
				if s == i-1-k || s == i-k {
					j = s
				}
			}
			if j < 0 {
				break
			}
			one = depadAt(one, []int{j})
			out = append(out, one)
		}
	}
	return out
}

// classifyDecDivergence names the recorded family a disagreement on bz belongs
// to, or "" if none of the repairs reconciles the decoders.
func classifyDecDivergence(rt *regType, bz []byte, reflectOK bool, reflectMV string, reflectPV reflect.Value) string {
	if len(bz) == 0 && rt.Info.IsAminoMarshaler {
		return "dec-empty-marshaler"
	}
	if reflectOK && hasZeroMarshalerElem(reflectPV.Elem(), rt.Info) {
		return "dec-empty-marshaler"
	}
	for _, v := range depadVariants(bz) {
		if _, ok := agreeAccept(rt, v); ok {
			return "dec-padded-len"
		}
	}
	if reflectOK {
		if m, ok := agreeAccept(rt, append(append([]byte(nil), bz...), 0)); ok && m == reflectMV {
			return "dec-bytes-key-eof"
		}
		for _, v := range depadVariants(bz) {
			if _, ok := agreeAccept(rt, append(append([]byte(nil), v...), 0)); ok {
				return "dec-padded-len"
			}
		}
	}
	return ""
}

// hasZeroMarshalerElem: the (reflect-decoded) value holds a LIST ELEMENT of an
// AminoMarshaler type that is still the Go zero value although the zero value's
// repr is not empty — i.e. the wire carried an empty repr (0x00) for it and the
// reflect decoder did not call UnmarshalAmino (binary_decode.go: the 0x00
// special case of the list decoders).
func hasZeroMarshalerElem(v reflect.Value, info *amino.TypeInfo) bool {
	if v.Kind() == reflect.Pointer {
		if v.IsNil() {
			return false
		}
		v = v.Elem()
	}
	if info.IsAminoMarshaler {
		return false
	}
	switch info.Type.Kind() {
	case reflect.Interface:
		if v.IsNil() {
			return false
		}
		cv := v.Elem()
		if cv.Kind() == reflect.Pointer {
			if cv.IsNil() {
				return false
			}
			cv = cv.Elem()
		}
		cinfo, err := cdc.GetTypeInfo(cv.Type())
		if err != nil {
			return false
		}
		return hasZeroMarshalerElem(cv, cinfo)
	case reflect.Struct:
		if info.Type == timeType {
			return false
		}
		for _, f := range info.Fields {
			if hasZeroMarshalerElem(v.Field(f.Index), f.TypeInfo) {
				return true
			}
		}
	case reflect.Slice, reflect.Array:
		if info.Type.Elem().Kind() == reflect.Uint8 {
			return false
		}
		for i := 0; i < v.Len(); i++ {
			ev := v.Index(i)
			if ev.Kind() == reflect.Pointer {
				if ev.IsNil() {
					continue
				}
				ev = ev.Elem()
			}
			if info.Elem.IsAminoMarshaler {
				if ev.IsZero() {
					var repr reflect.Value
					if p, _ := safely(func() { repr = ev.MethodByName("MarshalAmino").Call(nil)[0] }); !p && !repr.IsZero() {
						return true
					}
				}
				continue
			}
			if hasZeroMarshalerElem(ev, info.Elem) {
				return true
			}
		}
	}
	return false
}

func hexOrE(b []byte) string {
	if len(b) == 0 {
		return "e"
	}
	return hex.EncodeToString(b)
}
