package main

import (
	"encoding/binary"

	"gnoverif/kit"
)

// splitFields cuts bz into top-level protobuf fields (key+value chunks);
// ok=false if bz does not parse as a field sequence.
func splitFields(bz []byte) (chunks [][]byte, ok bool) {
	for len(bz) > 0 {
		key, n := binary.Uvarint(bz)
		if n <= 0 {
			return nil, false
		}
		l := n
		switch key & 7 {
		case 0:
			_, m := binary.Uvarint(bz[l:])
			if m <= 0 {
				return nil, false
			}
			l += m
		case 1:
			l += 8
		case 5:
			l += 4
		case 2:
			c, m := binary.Uvarint(bz[l:])
			if m <= 0 || c > uint64(len(bz)) {
				return nil, false
			}
			l += m + int(c)
		default:
			return nil, false
		}
		if l > len(bz) {
			return nil, false
		}
		chunks = append(chunks, bz[:l])
		bz = bz[l:]
	}
	return chunks, true
}

var overlong = [][]byte{
	{0xff, 0xff, 0xff, 0xff, 0xff, 0xff, 0xff, 0xff, 0xff, 0x01},       // max uint64
	{0xff, 0xff, 0xff, 0xff, 0xff, 0xff, 0xff, 0xff, 0xff, 0x02},       // overflows 64 bits
	{0x80, 0x80, 0x80, 0x80, 0x80, 0x80, 0x80, 0x80, 0x80, 0x80, 0x01}, // 11 bytes
	{0x80, 0x00}, // padded zero (non-canonical but accepted by binary.Uvarint)
	{0x81, 0x00}, // padded one
	{0x80},       // unterminated
}

// mutate returns a malformed / perturbed variant of a valid encoding.
func mutate(r *kit.Rand, bz []byte) []byte {
	out := append([]byte(nil), bz...)
	if len(out) == 0 {
		return r.Bytes(1 + r.Intn(4))
	}
	switch r.Intn(16) {
	case 0: // truncate
		return out[:r.Intn(len(out))]
	case 1: // flip one bit
		i := r.Intn(len(out))
		out[i] ^= 1 << uint(r.Intn(8))
	case 2: // replace a byte
		out[r.Intn(len(out))] = byte(r.U64())
	case 3: // insert a byte
		i := r.Intn(len(out) + 1)
		out = append(out[:i], append([]byte{byte(r.U64())}, out[i:]...)...)
	case 4: // delete a byte
		i := r.Intn(len(out))
		out = append(out[:i], out[i+1:]...)
	case 5: // trailing garbage
		out = append(out, r.Bytes(1+r.Intn(3))...)
	case 6, 7: // reorder / duplicate / drop top-level fields
		if ch, ok := splitFields(out); ok && len(ch) > 0 {
			i, j := r.Intn(len(ch)), r.Intn(len(ch))
			switch r.Intn(3) {
			case 0:
				ch[i], ch[j] = ch[j], ch[i]
			case 1:
				ch = append(ch[:i+1], ch[i:]...)
			default:
				ch = append(ch[:i:i], ch[i+1:]...)
			}
			out = nil
			for _, c := range ch {
				out = append(out, c...)
			}
		} else {
			out[r.Intn(len(out))] ^= 0x80
		}
	case 8: // splice an overlong / padded varint
		i := r.Intn(len(out) + 1)
		v := kit.Pick(r, overlong)
		if r.Bool() && i < len(out) {
			out = append(out[:i], append(append([]byte(nil), v...), out[i+1:]...)...)
		} else {
			out = append(out[:i], append(append([]byte(nil), v...), out[i:]...)...)
		}
	case 9: // change the wire type of a key byte
		i := r.Intn(len(out))
		out[i] = out[i]&^7 | byte(r.Intn(8))
	case 10: // change a field number
		i := r.Intn(len(out))
		out[i] = out[i]&7 | byte(r.Intn(32))<<3
	case 11: // zero a byte (0x00 element / empty length)
		out[r.Intn(len(out))] = 0
	case 12: // append a whole unknown field
		out = append(out, byte((15+r.Intn(3))<<3|kit.Pick(r, []int{0, 1, 2, 5})))
		out = append(out, r.Bytes(r.Intn(9))...)
	case 13, 14: // pad one or two varints (non-canonical length prefixes / keys / values)
		for j := 0; j < 1+r.Intn(2); j++ {
			out = padAt(out, r.Intn(len(out)))
		}
	default: // two independent byte edits
		out[r.Intn(len(out))] = byte(r.U64())
		out[r.Intn(len(out))] = byte(r.U64())
	}
	return out
}

func garbage(r *kit.Rand) []byte {
	switch r.Intn(5) {
	case 0:
		return nil
	case 1:
		return []byte{byte(r.U64())}
	case 2:
		return kit.Pick(r, overlong)
	default:
		return r.Bytes(1 + r.Intn(24))
	}
}

// padAt turns the byte at i (if it is a final varint byte) into a padded two-byte form.
func padAt(bz []byte, i int) []byte {
	if bz[i] >= 0x80 {
		return bz
	}
	out := append([]byte(nil), bz[:i]...)
	out = append(out, bz[i]|0x80, 0x00)
	return append(out, bz[i+1:]...)
}
