package main

// Type-directed value generator: walks amino's own TypeInfo (the same
// structure both codecs are driven by) and builds a mostly-valid Go value.
// Everything derives from one *kit.Rand.

import (
	"fmt"
	"math"
	"math/big"
	"net"
	"reflect"
	"sort"
	"time"

	"github.com/gnolang/gno/tm2/pkg/amino"
	"github.com/gnolang/gno/tm2/pkg/crypto"
	"gnoverif/kit"

	gnoland "github.com/gnolang/gno/gno.land/pkg/gnoland"
	gnolang "github.com/gnolang/gno/gnovm/pkg/gnolang"
	p2ptypes "github.com/gnolang/gno/tm2/pkg/p2p/types"
	params "github.com/gnolang/gno/tm2/pkg/sdk/params"
	std "github.com/gnolang/gno/tm2/pkg/std"
)

var (
	timeType     = reflect.TypeFor[time.Time]()
	durationType = reflect.TypeFor[time.Duration]()
)

type gctx struct {
	r     *kit.Rand
	depth int // remaining depth budget
	// mode knobs
	canon bool // only canonical shapes (nil rather than empty, ...)
}

// impls[iface] = registered concrete types assignable to iface, in the form
// (pointer or value) amino's decoder will produce.
var implsCache = map[reflect.Type][]*regType{}

func implsOf(it reflect.Type) []*regType {
	if l, ok := implsCache[it]; ok {
		return l
	}
	var l []*regType
	for _, r := range regTypes {
		form := r.RT
		if r.Info.PointerPreferred {
			form = reflect.PointerTo(r.RT)
		}
		if form.AssignableTo(it) {
			l = append(l, r)
		}
	}
	sort.Slice(l, func(i, j int) bool { return l[i].Name < l[j].Name })
	implsCache[it] = l
	return l
}

var denoms = []string{"ugnot", "atom", "foo", "gnot", "x/y", "zzz"}

func genCoins(r *kit.Rand) std.Coins {
	n := r.Intn(4)
	if n == 0 {
		return nil
	}
	picked := map[string]bool{}
	var cs std.Coins
	for len(cs) < n {
		d := kit.Pick(r, denoms)
		if picked[d] {
			continue
		}
		picked[d] = true
		cs = append(cs, std.Coin{Denom: d, Amount: genPosInt64(r)})
	}
	sort.Slice(cs, func(i, j int) bool { return cs[i].Denom < cs[j].Denom })
	return cs
}

func genPosInt64(r *kit.Rand) int64 {
	switch r.Intn(5) {
	case 0:
		return 1
	case 1:
		return math.MaxInt64
	case 2:
		return int64(r.Intn(1000)) + 1
	default:
		return int64(r.U64()>>uint(1+r.Intn(62))) + 1
	}
}

func genInt(r *kit.Rand, bits int) int64 {
	lo := -(int64(1) << (bits - 1))
	hi := int64(1)<<(bits-1) - 1
	switch r.Intn(8) {
	case 0:
		return 0
	case 1:
		return lo
	case 2:
		return hi
	case 3:
		return -1
	case 4:
		return 1
	case 5:
		return int64(r.Intn(300)) - 150
	default:
		v := int64(r.U64() >> uint(64-bits))
		if bits < 64 {
			v += lo
		}
		return v >> uint(r.Intn(bits))
	}
}

func genUint(r *kit.Rand, bits int) uint64 {
	hi := uint64(math.MaxUint64) >> uint(64-bits)
	switch r.Intn(7) {
	case 0:
		return 0
	case 1:
		return hi
	case 2:
		return 1
	case 3:
		return uint64(r.Intn(300))
	case 4:
		return 127 + uint64(r.Intn(3)) // varint byte boundary
	default:
		return (r.U64() & hi) >> uint(r.Intn(bits))
	}
}

var strTable = []string{"", "a", "abc", "hello world", "\x00", "é", "日本", "g1jg8mtutu9khhfwc4nxmuhcpftf0pajdhfvsqf5", "gno.land/r/demo/users", "0", "\n\t\"\\", "main.gno"}

func genString(r *kit.Rand) string {
	if r.Chance(70) {
		return kit.Pick(r, strTable)
	}
	n := r.Intn(12)
	b := make([]rune, n)
	for i := range b {
		switch r.Intn(4) {
		case 0:
			b[i] = rune(0x20 + r.Intn(0x5f))
		case 1:
			b[i] = rune('a' + r.Intn(26))
		case 2:
			b[i] = rune(0xa0 + r.Intn(0x500))
		default:
			b[i] = rune(r.Intn(0x20))
		}
	}
	return string(b)
}

func genBytes(r *kit.Rand) []byte {
	switch r.Intn(6) {
	case 0:
		return nil
	case 1:
		return []byte{0}
	case 2:
		return r.Bytes(1)
	case 3:
		return r.Bytes(128 + r.Intn(3)) // length prefix needs 2 bytes
	default:
		return r.Bytes(1 + r.Intn(10))
	}
}

func genTime(r *kit.Rand) time.Time {
	switch r.Intn(8) {
	case 0:
		return time.Unix(0, 0).UTC() // amino's "empty" time
	case 1:
		return time.Time{} // Go zero time (year 1) — min valid seconds
	case 2:
		return time.Unix(253402300799, 999999999).UTC() // max valid
	case 3:
		return time.Unix(int64(r.Intn(2000000000)), 0).UTC()
	case 4:
		return time.Unix(0, int64(r.Intn(1000000000))).UTC()
	case 5:
		return time.Unix(-int64(r.Intn(2000000000)), int64(r.Intn(1000000000))).UTC()
	default:
		return time.Unix(int64(r.Intn(2000000000)), int64(r.Intn(1000000000))).UTC()
	}
}

func genDuration(r *kit.Rand) time.Duration {
	switch r.Intn(7) {
	case 0:
		return 0
	case 1:
		return time.Duration(math.MaxInt64)
	case 2:
		return time.Duration(math.MinInt64)
	case 3:
		return time.Duration(r.Intn(1000000000))
	case 4:
		return -time.Duration(r.Intn(1000000000))
	case 5:
		return time.Duration(r.Intn(100000)) * time.Second
	default:
		return time.Duration(genInt(r, 64))
	}
}

func genBigInt(r *kit.Rand) *big.Int {
	switch r.Intn(5) {
	case 0:
		return big.NewInt(0)
	case 1:
		return big.NewInt(genInt(r, 64))
	case 2:
		v := new(big.Int).SetBytes(r.Bytes(1 + r.Intn(40)))
		if r.Bool() {
			v.Neg(v)
		}
		return v
	default:
		return big.NewInt(int64(r.Intn(1000)) - 500)
	}
}

// customGen returns (value, true) for types that cannot be built field by
// field (AminoMarshaler types whose invariants live behind constructors).
func (g *gctx) customGen(rt reflect.Type) (reflect.Value, bool) {
	r := g.r
	switch rt {
	case timeType:
		return reflect.ValueOf(genTime(r)), true
	case durationType:
		return reflect.ValueOf(genDuration(r)), true
	case reflect.TypeFor[crypto.Address]():
		var a crypto.Address
		if !r.Chance(15) {
			copy(a[:], r.Bytes(20))
		}
		return reflect.ValueOf(a), true
	case reflect.TypeFor[std.Coin]():
		if r.Chance(15) {
			return reflect.ValueOf(std.Coin{}), true
		}
		return reflect.ValueOf(std.Coin{Denom: kit.Pick(r, denoms), Amount: genPosInt64(r)}), true
	case reflect.TypeFor[std.Coins]():
		return reflect.ValueOf(genCoins(r)), true
	case reflect.TypeFor[gnolang.BigintValue]():
		return reflect.ValueOf(gnolang.BigintValue{V: genBigInt(r)}), true
	case reflect.TypeFor[gnolang.BigdecValue]():
		if r.Chance(25) {
			f := new(big.Float).SetPrec(gnolang.BigdecFloatPrec).SetInt(genBigInt(r))
			if r.Bool() {
				f.Quo(f, new(big.Float).SetPrec(gnolang.BigdecFloatPrec).SetInt64(int64(1+r.Intn(1000))))
			}
			return reflect.ValueOf(gnolang.BigdecValue{F: f}), true
		}
		den := genBigInt(r)
		if den.Sign() == 0 {
			den = big.NewInt(1)
		}
		return reflect.ValueOf(gnolang.BigdecValue{V: new(big.Rat).SetFrac(genBigInt(r), den)}), true
	case reflect.TypeFor[gnolang.PkgID]():
		var p gnolang.PkgID
		if !r.Chance(15) {
			copy(p.Hashlet[:], r.Bytes(20))
		}
		return reflect.ValueOf(p), true
	case reflect.TypeFor[gnolang.ValueHash]():
		var p gnolang.ValueHash
		if !r.Chance(15) {
			copy(p.Hashlet[:], r.Bytes(20))
		}
		return reflect.ValueOf(p), true
	case reflect.TypeFor[gnolang.ObjectID]():
		var o gnolang.ObjectID
		if !r.Chance(15) {
			copy(o.PkgID.Hashlet[:], r.Bytes(20))
			o.NewTime = uint64(r.Intn(1 << 30))
		}
		return reflect.ValueOf(o), true
	case reflect.TypeFor[gnolang.MapList]():
		var ml gnolang.MapList
		n := 0
		if g.depth > 0 {
			n = r.Intn(3)
		}
		itemInfo, _ := cdc.GetTypeInfo(reflect.TypeFor[gnolang.MapListItem]())
		for i := 0; i < n; i++ {
			sub := &gctx{r: r, depth: g.depth - 1, canon: g.canon}
			iv := sub.genStruct(itemInfo)
			item := iv.Addr().Interface().(*gnolang.MapListItem)
			item.Prev, item.Next = nil, nil
			if ml.Head == nil {
				ml.Head, ml.Tail, ml.Size = item, item, 1
			} else {
				item.Prev = ml.Tail
				ml.Tail.Next = item
				ml.Tail = item
				ml.Size++
			}
		}
		return reflect.ValueOf(ml), true
	case reflect.TypeFor[params.Param]():
		key := kit.Pick(r, []string{"k", "vm:p:sysnames_pkgpath", "auth.max_memo", "a.b.c"})
		var p params.Param
		switch r.Intn(6) {
		case 0:
			p = params.NewParam(key, kit.Pick(r, []string{"", "v", "hello=world", "a,b"}))
		case 1:
			p = params.NewParam(key, genInt(r, 64))
		case 2:
			p = params.NewParam(key, genUint(r, 64))
		case 3:
			p = params.NewParam(key, r.Bool())
		case 4:
			p = params.NewParam(key, r.Bytes(r.Intn(5)))
		default:
			p = params.NewParam(key, []string{"a", "bc"}[:1+r.Intn(2)])
		}
		return reflect.ValueOf(p), true
	case reflect.TypeFor[gnoland.Balance]():
		var a crypto.Address
		copy(a[:], r.Bytes(20))
		b := gnoland.Balance{Address: a, Amount: genCoins(r)}
		return reflect.ValueOf(b), true
	case reflect.TypeFor[p2ptypes.NetAddress]():
		var ida crypto.Address
		copy(ida[:], r.Bytes(20))
		na := p2ptypes.NetAddress{
			ID:   ida.ID(),
			IP:   net.IPv4(byte(1+r.Intn(200)), byte(r.Intn(256)), byte(r.Intn(256)), byte(1+r.Intn(250))),
			Port: uint16(1 + r.Intn(65000)),
		}
		return reflect.ValueOf(na), true
	}
	return reflect.Value{}, false
}

// genValue builds a value of Go type rt (may be a pointer type).
// inList: the value is a list element; nilElems: the list has nil_elements.
func (g *gctx) genValue(rt reflect.Type, inList, nilElems bool) reflect.Value {
	r := g.r
	if rt.Kind() == reflect.Pointer {
		et := rt.Elem()
		einfo, err := cdc.GetTypeInfo(et)
		if err != nil {
			panic(err)
		}
		isStruct := einfo.ReprType.Type.Kind() == reflect.Struct && et != timeType
		nilOK := !inList || nilElems
		if !isStruct && !nilElems {
			nilOK = !g.canon // nil *nonstruct decodes as non-nil default: only canonical when non-nil
		}
		if nilOK && (g.depth <= 0 || r.Chance(25)) {
			return reflect.Zero(rt)
		}
		pv := reflect.New(et)
		sub := &gctx{r: r, depth: g.depth - 1, canon: g.canon}
		pv.Elem().Set(sub.genValue(et, false, false))
		if inList && nilElems {
			// A pointer to a value whose encoding is empty is indistinguishable
			// from nil on the wire (documented proto3 limitation): canonical form is nil.
			if bz, err := cdc.MarshalReflect(pv.Interface()); err == nil && len(bz) == 0 {
				return reflect.Zero(rt)
			}
		}
		return pv
	}
	if v, ok := g.customGen(rt); ok {
		if v.Type() != rt {
			v = v.Convert(rt)
		}
		return v
	}
	info, err := cdc.GetTypeInfo(rt)
	if err != nil {
		panic(err)
	}
	if info.IsAminoMarshaler {
		// generic route: build a repr value, then UnmarshalAmino it
		repr := g.genValue(info.ReprType.Type, false, false)
		pv := reflect.New(rt)
		outs := pv.MethodByName("UnmarshalAmino").Call([]reflect.Value{repr})
		if !outs[0].IsNil() {
			return reflect.Zero(rt)
		}
		return pv.Elem()
	}
	switch rt.Kind() {
	case reflect.Interface:
		impls := implsOf(rt)
		if len(impls) == 0 || g.depth <= 0 || r.Chance(20) {
			return reflect.Zero(rt)
		}
		c := kit.Pick(r, impls)
		sub := &gctx{r: r, depth: g.depth - 1, canon: g.canon}
		cv := sub.genValue(c.RT, false, false)
		out := reflect.New(rt).Elem()
		if c.Info.PointerPreferred {
			pv := reflect.New(c.RT)
			pv.Elem().Set(cv)
			out.Set(pv)
		} else {
			out.Set(cv)
		}
		return out
	case reflect.Struct:
		return g.genStruct(info)
	case reflect.Slice:
		if rt.Elem().Kind() == reflect.Uint8 {
			b := genBytes(r)
			if g.canon && len(b) == 0 {
				b = nil
			}
			return reflect.ValueOf(b).Convert(rt)
		}
		n := 0
		if g.depth > 0 {
			n = r.Intn(4)
		}
		if n == 0 {
			if !g.canon && r.Chance(30) {
				return reflect.MakeSlice(rt, 0, 0)
			}
			return reflect.Zero(rt)
		}
		sv := reflect.MakeSlice(rt, n, n)
		sub := &gctx{r: r, depth: g.depth - 1, canon: g.canon}
		for i := 0; i < n; i++ {
			sv.Index(i).Set(sub.genValue(rt.Elem(), true, nilElems))
		}
		return sv
	case reflect.Array:
		av := reflect.New(rt).Elem()
		if rt.Elem().Kind() == reflect.Uint8 {
			if !r.Chance(15) {
				reflect.Copy(av, reflect.ValueOf(r.Bytes(rt.Len())))
			}
			return av
		}
		sub := &gctx{r: r, depth: g.depth - 1, canon: g.canon}
		for i := 0; i < rt.Len(); i++ {
			av.Index(i).Set(sub.genValue(rt.Elem(), true, nilElems))
		}
		return av
	case reflect.Int8:
		return reflect.ValueOf(genInt(r, 8)).Convert(rt)
	case reflect.Int16:
		return reflect.ValueOf(genInt(r, 16)).Convert(rt)
	case reflect.Int32:
		return reflect.ValueOf(genInt(r, 32)).Convert(rt)
	case reflect.Int64, reflect.Int:
		return reflect.ValueOf(genInt(r, 64)).Convert(rt)
	case reflect.Uint8:
		return reflect.ValueOf(genUint(r, 8)).Convert(rt)
	case reflect.Uint16:
		return reflect.ValueOf(genUint(r, 16)).Convert(rt)
	case reflect.Uint32:
		return reflect.ValueOf(genUint(r, 32)).Convert(rt)
	case reflect.Uint64, reflect.Uint:
		return reflect.ValueOf(genUint(r, 64)).Convert(rt)
	case reflect.Float32, reflect.Float64:
		return reflect.ValueOf(float64(genInt(r, 16)) / 4).Convert(rt)
	case reflect.Bool:
		return reflect.ValueOf(r.Bool()).Convert(rt)
	case reflect.String:
		return reflect.ValueOf(genString(r)).Convert(rt)
	}
	panic(fmt.Sprintf("genValue: unsupported type %v", rt))
}

func (g *gctx) genStruct(info *amino.TypeInfo) reflect.Value {
	sv := reflect.New(info.Type).Elem()
	for _, f := range info.Fields {
		if g.r.Chance(20) {
			continue // leave at Go zero: exercises omission
		}
		sv.Field(f.Index).Set(g.genValue(f.Type, false, f.NilElements))
	}
	return sv
}

// genTop returns a *T holding a generated value of the registered type.
func genTop(rt *regType, seed uint64, depth int, canon bool) reflect.Value {
	g := &gctx{r: kit.NewRand(seed), depth: depth, canon: canon}
	pv := reflect.New(rt.RT)
	if depth < 0 && !rt.Info.IsAminoMarshaler {
		return pv // boundary: the Go zero value of the type
	}
	// (the Go zero value of an AminoMarshaler type such as BigintValue{V: nil} or
	// params.Param{} is not a value of the type's domain: its MarshalAmino fails or
	// yields a repr its own UnmarshalAmino rejects; use the constructor-built value)
	if depth < 0 {
		g.depth = 0
	}
	pv.Elem().Set(g.genValue(rt.RT, false, false))
	return pv
}
