package main

import (
	"fmt"
	"reflect"
	"sort"

	"github.com/gnolang/gno/tm2/pkg/amino"
)

// walkInfos visits every TypeInfo reachable from the registered types
// (fields, elems, repr types; interfaces are leaves).
func walkInfos(visit func(info *amino.TypeInfo)) {
	seen := map[*amino.TypeInfo]bool{}
	var rec func(info *amino.TypeInfo)
	rec = func(info *amino.TypeInfo) {
		if info == nil || seen[info] {
			return
		}
		seen[info] = true
		visit(info)
		if info.ReprType != info {
			rec(info.ReprType)
		}
		if info.Elem != nil {
			rec(info.Elem)
		}
		for _, f := range info.Fields {
			rec(f.TypeInfo)
		}
	}
	for _, r := range regTypes {
		rec(r.Info)
	}
}

func shapeReport() {
	cnt := map[string]int{}
	var marsh, ifaces, lists []string
	walkInfos(func(info *amino.TypeInfo) {
		k := info.Type.Kind()
		cnt["kind:"+k.String()]++
		if info.IsAminoMarshaler {
			marsh = append(marsh, fmt.Sprintf("%v (kind %v) -> repr %v", info.Type, k, info.ReprType.Type))
		}
		if k == reflect.Interface {
			n := 0
			for _, r := range regTypes {
				if r.RT.Implements(info.Type) || reflect.PointerTo(r.RT).Implements(info.Type) {
					n++
				}
			}
			ifaces = append(ifaces, fmt.Sprintf("%v impls=%d", info.Type, n))
		}
		if (k == reflect.Slice || k == reflect.Array) && info.Type.Elem().Kind() != reflect.Uint8 {
			lists = append(lists, fmt.Sprintf("%v elemrepr=%v", info.Type, info.Elem.ReprType.Type.Kind()))
		}
		if len(info.Reserved) > 0 {
			cnt["reserved"]++
			fmt.Println("reserved:", info.Type, info.Reserved)
		}
		for _, f := range info.Fields {
			o := f.FieldOptions
			if o.BinFixed32 {
				cnt["opt:fixed32"]++
				fmt.Println("fixed32:", info.Type, f.Name, f.Type)
			}
			if o.BinFixed64 {
				cnt["opt:fixed64"]++
				fmt.Println("fixed64:", info.Type, f.Name, f.Type)
			}
			if o.BinPlainVarint {
				cnt["opt:plainvarint"]++
				fmt.Println("plainvarint:", info.Type, f.Name, f.Type)
			}
			if o.WriteEmpty {
				cnt["opt:write_empty"]++
				fmt.Println("write_empty:", info.Type, f.Name, f.Type)
			}
			if o.NilElements {
				cnt["opt:nil_elements"]++
				fmt.Println("nil_elements:", info.Type, f.Name, f.Type)
			}
			if o.Unsafe {
				cnt["opt:unsafe"]++
				fmt.Println("unsafe:", info.Type, f.Name, f.Type)
			}
			if f.UnpackedList {
				cnt["unpackedlist"]++
			}
			if f.Type.Kind() == reflect.Pointer {
				cnt["ptrfield:"+f.Type.Elem().Kind().String()]++
				if f.Type.Elem().Kind() != reflect.Struct {
					fmt.Println("ptr-nonstruct:", info.Type, f.Name, f.Type)
				}
			}
		}
	})
	sort.Strings(marsh)
	sort.Strings(ifaces)
	sort.Strings(lists)
	for _, s := range marsh {
		fmt.Println("marshaler:", s)
	}
	for _, s := range ifaces {
		fmt.Println("iface:", s)
	}
	for _, s := range lists {
		fmt.Println("list:", s)
	}
	var ks []string
	for k := range cnt {
		ks = append(ks, k)
	}
	sort.Strings(ks)
	for _, k := range ks {
		fmt.Println(k, cnt[k])
	}
}
