// Harness for C20: amino encoding consistency / round trip / safe rejection.
//
// op lines (see gen.go / mv.go for the token grammars):
//
//	rtx  <type> <seed> <depth>            value of <type> generated from <seed>; implementation-only checks
//	rt   <type> <seed> <depth> <env> <mv> same, and the model encodes <mv> under <env>
//	rtv  <type> <env> <mv>                explicit value (corpus witnesses); checked like rt
//	decx <type> <hex>                     arbitrary bytes; implementation-only checks
//	dec  <type> <hex> <env>               same, and the model decodes the bytes under <env>
//
// impl output:  rtx/decx: `n`
//
//	rt:   `<hex of the reflect encoder's bytes> rt=ok` | `err:enc`
//	dec:  `ok <mv of the reflect decoder's value>` | `err`
//
// oracle: the property statement evaluated on both real codecs (exec.go).
package main

import (
	"fmt"
	"os"
	"reflect"
	"sort"
	"strconv"
	"strings"

	"gnoverif/kit"
)

// envMV computes the env and MV tokens of *T. ok: the model can follow the
// value (everything is inside the modelled descriptor language); marsh: the
// env contains AminoMarshaler nodes (then the model does not decode).
func envMV(rt *regType, pv reflect.Value) (env, mv string, ok, marsh bool) {
	e := newEnv()
	var err error
	p, _ := safely(func() { mv, err = mvTop(pv, rt.Info, e) })
	if p || err != nil {
		return "", "", false, false
	}
	env = e.String()
	return env, mv, !e.hasUnmodelled, e.hasMarsh
}

// anyNames lists the concrete type names under interfaces in an MV string.
func anyNames(mv string) []string {
	var out []string
	for i := 0; i < len(mv); i++ {
		if mv[i] == '<' {
			j := strings.IndexByte(mv[i:], ':')
			if j > 0 {
				out = append(out, mv[i+1:i+j])
			}
		}
	}
	return out
}

// compact keeps long canonical outputs under the kit's 300-character line
// limit: head, total length and FNV-1a/64 of the whole string.
func compact(s string) string {
	if len(s) <= 200 {
		return s
	}
	h := uint64(14695981039346656037)
	for i := 0; i < len(s); i++ {
		h ^= uint64(s[i])
		h *= 1099511628211
	}
	return fmt.Sprintf("%s~%d~%016x", s[:96], len(s), h)
}

func execOp(toks []string) (string, string) {
	impl, orc := execOp1(toks)
	return compact(impl), orc
}

func execOp1(toks []string) (string, string) {
	if len(toks) < 3 {
		return "err:badop", "-"
	}
	rt := regByName[toks[1]]
	if rt == nil {
		return "err:badop", "-"
	}
	switch toks[0] {
	case "rtx", "rt":
		if len(toks) < 4 {
			return "err:badop", "-"
		}
		seed := kit.Atou64(toks[2])
		depth, err := strconv.Atoi(toks[3])
		if err != nil {
			return "err:badop", "-"
		}
		pv := genTop(rt, seed, depth, true)
		enc, _, verdict := checkRT(rt, pv)
		if toks[0] == "rtx" {
			return "n", verdict
		}
		if len(toks) != 6 {
			return "err:badop", "-"
		}
		env, mv, ok, marsh := envMV(rt, pv)
		if !ok || env != toks[4] || mv != toks[5] {
			return "err:badop", "-" // the line's env/value tokens are not the ones of <seed>
		}
		if enc.err != nil || enc.panicked {
			return "err:enc", verdict
		}
		rts := "ok"
		if marsh {
			rts = "skip"
		} else if strings.HasPrefix(verdict, "VIOL:rt-") {
			rts = "bad"
		}
		return hexOrE(enc.bz) + " rt=" + rts, verdict
	case "rtv":
		// rtv <type> <env> <mv>: explicit value (corpus witnesses)
		if len(toks) != 4 {
			return "err:badop", "-"
		}
		pv, err := buildTop(rt, toks[3])
		if err != nil {
			return "err:badop", "-"
		}
		env, mv, ok, marsh := envMV(rt, pv)
		if !ok || env != toks[2] || mv != toks[3] {
			return "err:badop", "-"
		}
		enc, _, verdict := checkRT(rt, pv)
		if enc.err != nil || enc.panicked {
			return "err:enc", verdict
		}
		rts := "ok"
		if marsh {
			rts = "skip"
		} else if strings.HasPrefix(verdict, "VIOL:rt-") {
			rts = "bad"
		}
		return hexOrE(enc.bz) + " rt=" + rts, verdict
	case "decx", "dec":
		bz := kit.MustUnHex(toks[2])
		d1, m1, verdict := checkDec(rt, bz)
		if toks[0] == "decx" {
			return "n", verdict
		}
		if d1.err != nil || d1.panicked {
			return "err", verdict
		}
		return "ok " + m1, verdict
	}
	return "err:badop", "-"
}

// emitRT writes an rt (model-covered) or rtx line for (type, seed, depth).
func emitRT(w *kit.Out, t *regType, seed uint64, depth int) {
	pv := genTop(t, seed, depth, true)
	if env, mv, ok, _ := envMV(t, pv); ok && len(env)+len(mv) < 60000 {
		w.Op("rt %s %d %d %s %s", t.Name, seed, depth, env, mv)
		return
	}
	w.Op("rtx %s %d %d", t.Name, seed, depth)
}

// emitDec writes a dec (model-covered) or decx line for bytes bz, using the env
// of the value the bytes were derived from.
func emitDec(w *kit.Out, t *regType, bz []byte, env string, envOK bool) {
	if envOK && len(env) < 60000 {
		// the model only knows the concrete types of `env`; if the real decoder
		// accepts with some other registered type under an interface, do not ask the model.
		d := decReflect(t, bz)
		ok := true
		if !d.panicked && d.err == nil {
			mv := mvOrErr(d.pv, t.Info)
			for _, n := range anyNames(mv) {
				if !strings.Contains(env, n+"@") && !strings.Contains(env, n+"=") {
					ok = false
				}
			}
		}
		if ok {
			w.Op("dec %s %s %s", t.Name, kit.Hex(bz), env)
			return
		}
	}
	w.Op("decx %s %s", t.Name, kit.Hex(bz))
}

// boundaryBytes: inputs every type is tried on first.
var boundaryBytes = [][]byte{
	nil, {0x00}, {0x08}, {0x0a}, {0x0a, 0x00}, {0x08, 0x00}, {0x0d}, {0x09}, {0x0b}, {0xff},
	{0x0a, 0x80, 0x00}, {0x0a, 0x01}, {0x12, 0x00, 0x0a, 0x00}, {0x0a, 0x00, 0x0a, 0x00},
	{0xf8, 0xff, 0xff, 0xff, 0x0f, 0x00}, {0x80, 0x80, 0x80, 0x80, 0x80, 0x80, 0x80, 0x80, 0x80, 0x80, 0x01},
}

func gen(w *kit.Out, r *kit.Rand, tier string) {
	perType, decPer := 6, 10
	if tier == "thorough" {
		perType, decPer = 80, 120
	}
	// (i) boundary table: zero value and shallow value of every type; fixed byte strings
	w.Case("boundary")
	for _, t := range regTypes {
		emitRT(w, t, 0, -1)
		emitRT(w, t, 1, 0)
		pv := genTop(t, 0, -1, true)
		env, _, envOK, marsh := envMV(t, pv)
		for _, bz := range boundaryBytes {
			emitDec(w, t, bz, env, envOK && !marsh)
		}
	}
	// (ii) structured random values (mostly valid)
	w.Case("rt")
	for _, t := range regTypes {
		for i := 0; i < perType; i++ {
			emitRT(w, t, r.U64()>>1, 1+r.Intn(4))
		}
	}
	// (iii) malformed stream: valid encodings, mutations of them, garbage
	w.Case("dec")
	for _, t := range regTypes {
		for i := 0; i < decPer; i++ {
			seed, depth := r.U64()>>1, 1+r.Intn(3)
			pv := genTop(t, seed, depth, true)
			env, _, envOK, marsh := envMV(t, pv)
			envOK = envOK && !marsh
			e := encReflect(pv)
			var bz []byte
			switch {
			case i%6 == 5:
				bz = garbage(r)
			case i%6 == 0:
				bz = e.bz
			default:
				bz = mutate(r, e.bz)
				if r.Chance(30) {
					bz = mutate(r, bz)
				}
			}
			emitDec(w, t, bz, env, envOK)
		}
	}
}

// sig reduces an oracle message to its shape (digits and hex runs collapsed).
func sig(s string) string {
	var sb strings.Builder
	for _, f := range strings.Fields(s) {
		if len(f) > 12 && !strings.ContainsAny(f, "=:-") {
			f = "#"
		}
		sb.WriteString(f)
		sb.WriteByte(' ')
		if sb.Len() > 160 {
			break
		}
	}
	return sb.String()
}

func probe(n int, mode string) {
	byClass := map[string]int{}
	example := map[string]string{}
	r := kit.NewRand(1)
	for _, t := range regTypes {
		for i := 0; i < n; i++ {
			seed := r.U64() >> 1
			depth := 1 + r.Intn(4)
			if i == 0 {
				seed, depth = 0, 0
			}
			line := fmt.Sprintf("rtx %s %d %d", t.Name, seed, depth)
			if mode == "dec" {
				pv := genTop(t, seed, depth, true)
				e := encReflect(pv)
				var bz []byte
				switch {
				case i%5 == 4:
					bz = garbage(r)
				case i%5 == 0:
					bz = e.bz
				default:
					bz = mutate(r, e.bz)
					if r.Chance(30) {
						bz = mutate(r, bz)
					}
				}
				line = fmt.Sprintf("decx %s %s", t.Name, kit.Hex(bz))
			}
			if mode == "pad" {
				pv := genTop(t, seed, depth, true)
				bz := append([]byte(nil), encReflect(pv).bz...)
				for j := 0; j < 1+r.Intn(3) && len(bz) > 0; j++ {
					bz = padAt(bz, r.Intn(len(bz)))
				}
				line = fmt.Sprintf("decx %s %s", t.Name, kit.Hex(bz))
			}
			var impl, orc string
			if p, msg := safely(func() { impl, orc = execOp(strings.Fields(line)) }); p {
				orc = "HARNESS-PANIC " + msg
			}
			_ = impl
			if orc != "ok" {
				cls := strings.SplitN(orc, " ", 2)[0] + " " + t.Name
				if os.Getenv("BYMSG") != "" {
					cls = sig(orc)
				}
				byClass[cls]++
				if _, ok := example[cls]; !ok {
					example[cls] = line + "  => " + orc
				}
			}
		}
	}
	var ks []string
	for k := range byClass {
		ks = append(ks, k)
	}
	sort.Strings(ks)
	for _, k := range ks {
		fmt.Printf("%5d %s\n      %s\n", byClass[k], k, short(example[k])+"")
	}
	fmt.Println("classes:", len(ks))
}

func main() {
	initTypes()
	if len(os.Args) > 1 {
		switch os.Args[1] {
		case "list":
			nf := 0
			for _, r := range regTypes {
				if r.Fast {
					nf++
				}
				fmt.Printf("%s\t%v\tfast=%v\tkind=%v\n", r.Name, r.RT, r.Fast, r.RT.Kind())
			}
			fmt.Printf("total=%d fast=%d\n", len(regTypes), nf)
			return
		case "shape":
			shapeReport()
			return
		case "envof": // envof <type> <mv> → the rtv line for an explicit value
			t := regByName[os.Args[2]]
			pv, err := buildTop(t, os.Args[3])
			if err != nil {
				fmt.Println("error:", err)
				return
			}
			env, mv, ok, _ := envMV(t, pv)
			fmt.Printf("rtv %s %s %s\n", t.Name, env, mv)
			if !ok || mv != os.Args[3] {
				fmt.Println("# note: not canonical / not model-covered; canonical mv:", mv)
			}
			return
		case "show":
			t := regByName[os.Args[2]]
			seed, _ := strconv.ParseUint(os.Args[3], 10, 64)
			depth, _ := strconv.Atoi(os.Args[4])
			pv := genTop(t, seed, depth, true)
			env := newEnv()
			mv, err := mvTop(pv, t.Info, env)
			enc := encReflect(pv)
			js, _ := cdc.JSONMarshal(pv.Interface())
			fmt.Printf("mv=%s\nerr=%v\nenv=%s\nbz=%x encerr=%v\njson=%s\n", mv, err, env.String(), enc.bz, enc.err, js)
			return
		case "probe":
			n := 20
			if len(os.Args) > 2 {
				n, _ = strconv.Atoi(os.Args[2])
			}
			mode := "rt"
			if len(os.Args) > 3 {
				mode = os.Args[3]
			}
			probe(n, mode)
			return
		}
	}
	kit.Main(&kit.Harness{Gen: gen, Exec: execOp})
}
