package main

// MV token → Go value (inverse of mv.go), so that a witness can be written
// down explicitly in the corpus:  rtv <type> <env> <mv>.

import (
	"encoding/hex"
	"fmt"
	"reflect"
	"strconv"
	"time"

	"github.com/gnolang/gno/tm2/pkg/amino"
)

type mvParser struct {
	s string
	i int
}

func (p *mvParser) fail(msg string) { panic(errUncovered(fmt.Sprintf("mv parse at %d: %s", p.i, msg))) }
func (p *mvParser) peek() byte {
	if p.i >= len(p.s) {
		return 0
	}
	return p.s[p.i]
}
func (p *mvParser) eat(c byte) {
	if p.peek() != c {
		p.fail("expected " + string(c))
	}
	p.i++
}
func (p *mvParser) intTok() string {
	j := p.i
	if p.peek() == '-' {
		p.i++
	}
	for p.peek() >= '0' && p.peek() <= '9' {
		p.i++
	}
	if j == p.i {
		p.fail("number")
	}
	return p.s[j:p.i]
}
func (p *mvParser) hexTok() []byte {
	j := p.i
	for c := p.peek(); c >= '0' && c <= '9' || c >= 'a' && c <= 'f'; c = p.peek() {
		p.i++
	}
	b, err := hex.DecodeString(p.s[j:p.i])
	if err != nil {
		p.fail("hex")
	}
	return b
}
func (p *mvParser) nameTok() string {
	j := p.i
	for c := p.peek(); c >= 'a' && c <= 'z' || c >= 'A' && c <= 'Z' || c >= '0' && c <= '9' || c == '.' || c == '_'; c = p.peek() {
		p.i++
	}
	return p.s[j:p.i]
}

// build fills the settable value rv (of Go type info.Type) from the MV at the cursor.
func (p *mvParser) build(rv reflect.Value, info *amino.TypeInfo) {
	rt := info.Type
	if info.IsAminoMarshaler {
		p.eat('m')
		p.i++ // goZero bit (recomputed)
		p.eat('(')
		repr := reflect.New(info.ReprType.Type).Elem()
		p.build(repr, info.ReprType)
		p.eat(')')
		outs := rv.Addr().MethodByName("UnmarshalAmino").Call([]reflect.Value{repr})
		if !outs[0].IsNil() {
			p.fail("UnmarshalAmino: " + outs[0].Interface().(error).Error())
		}
		return
	}
	switch rt {
	case timeType:
		p.eat('T')
		s, _ := strconv.ParseInt(p.intTok(), 10, 64)
		p.eat(',')
		ns, _ := strconv.ParseInt(p.intTok(), 10, 64)
		rv.Set(reflect.ValueOf(time.Unix(s, ns).UTC()))
		return
	case durationType:
		p.eat('D')
		d, _ := strconv.ParseInt(p.intTok(), 10, 64)
		rv.SetInt(d)
		return
	}
	switch rt.Kind() {
	case reflect.Interface:
		if p.peek() == '~' {
			p.i++
			return
		}
		p.eat('<')
		c := regByName[p.nameTok()]
		if c == nil {
			p.fail("unknown concrete type")
		}
		p.eat(':')
		pv := reflect.New(c.RT)
		p.build(pv.Elem(), c.Info)
		p.eat('>')
		if c.Info.PointerPreferred {
			rv.Set(pv)
		} else {
			rv.Set(pv.Elem())
		}
	case reflect.Struct:
		p.eat('{')
		for i, f := range info.Fields {
			if i > 0 {
				p.eat(';')
			}
			p.slot(rv.Field(f.Index), f.TypeInfo)
		}
		p.eat('}')
	case reflect.Slice, reflect.Array:
		if rt.Elem().Kind() == reflect.Uint8 {
			p.eat('x')
			b := p.hexTok()
			if rt.Kind() == reflect.Slice {
				if len(b) > 0 {
					rv.SetBytes(append([]byte(nil), b...))
					if rv.Type() != reflect.TypeOf(b) {
						rv.Set(reflect.ValueOf(b).Convert(rt))
					}
				}
			} else {
				if len(b) != rt.Len() {
					p.fail("byte array length")
				}
				reflect.Copy(rv, reflect.ValueOf(b))
			}
			return
		}
		p.eat('[')
		var elems []reflect.Value
		for p.peek() != ']' {
			if len(elems) > 0 {
				p.eat(',')
			}
			ev := reflect.New(rt.Elem()).Elem()
			p.slot(ev, info.Elem)
			elems = append(elems, ev)
		}
		p.eat(']')
		if rt.Kind() == reflect.Slice {
			if len(elems) > 0 {
				sv := reflect.MakeSlice(rt, len(elems), len(elems))
				for i, e := range elems {
					sv.Index(i).Set(e)
				}
				rv.Set(sv)
			}
		} else {
			if len(elems) != rt.Len() {
				p.fail("array length")
			}
			for i, e := range elems {
				rv.Index(i).Set(e)
			}
		}
	case reflect.Int, reflect.Int8, reflect.Int16, reflect.Int32, reflect.Int64:
		p.eat('i')
		v, err := strconv.ParseInt(p.intTok(), 10, 64)
		if err != nil || rv.OverflowInt(v) {
			p.fail("int range")
		}
		rv.SetInt(v)
	case reflect.Uint, reflect.Uint8, reflect.Uint16, reflect.Uint32, reflect.Uint64:
		p.eat('u')
		v, err := strconv.ParseUint(p.intTok(), 10, 64)
		if err != nil || rv.OverflowUint(v) {
			p.fail("uint range")
		}
		rv.SetUint(v)
	case reflect.Bool:
		switch p.peek() {
		case 't':
			rv.SetBool(true)
		case 'f':
		default:
			p.fail("bool")
		}
		p.i++
	case reflect.String:
		p.eat('x')
		rv.SetString(string(p.hexTok()))
	default:
		p.fail("unsupported kind " + rt.Kind().String())
	}
}

// slot: a struct field / list element that may be of pointer type.
func (p *mvParser) slot(rv reflect.Value, info *amino.TypeInfo) {
	if rv.Kind() == reflect.Pointer {
		if p.peek() == '~' {
			p.i++
			return
		}
		pv := reflect.New(rv.Type().Elem())
		p.build(pv.Elem(), info)
		rv.Set(pv)
		return
	}
	p.build(rv, info)
}

// buildTop: *T from an MV token.
func buildTop(rt *regType, mv string) (pv reflect.Value, err error) {
	defer func() {
		if r := recover(); r != nil {
			if e, ok := r.(errUncovered); ok {
				err = e
				return
			}
			err = fmt.Errorf("%v", r)
		}
	}()
	p := &mvParser{s: mv}
	pv = reflect.New(rt.RT)
	p.build(pv.Elem(), rt.Info)
	if p.i != len(mv) {
		p.fail("trailing characters")
	}
	return pv, nil
}
