// Harness for C13 — chain parameters can be written only by their owners.
//
// Three routes into the REAL code, all hook-free and in-process:
//
//  1. native route (ops `pkey`, `prmkey`): the exported Go natives
//     gnovm/stdlibs/chain/params.SetString and sys/params.X_setSysParamString
//     are called with a hand-built *gno.Machine whose frame stack names the
//     current realm / the calling package, and an ExecContext whose Params is
//     a recording fake.  This isolates the unexported pkey / prmkey /
//     assertSysParamsRealm for arbitrary (also malformed) realm-path strings.
//  2. keeper route (ops `set`, `rawset`): the real vm.SDKParams adapter over
//     the real tm2 ParamsKeeper (memdb multistore) with the real auth, bank
//     and vm keepers registered (each wrapped by a recorder that logs the
//     WillSetParam call and then delegates), plus two fake modules.
//  3. VM route (ops `vmset`, `vmplain`, `vmsys`, `vmrun`, `vmproxy`): small
//     generated realm programs are deployed with MsgAddPackage and driven by
//     MsgCall / MsgRun through the real VMKeeper (stdlibs loaded from
//     /repo/gnovm/stdlibs), i.e. gno code -> native binding -> pkey ->
//     SDKParams -> ParamsKeeper -> WillSetParam -> store.
//
// The oracle is independent of the Lean model: it snapshots every "/pv/" key
// of the main store before and after each op and evaluates the property
// statement on the difference.
package main

import (
	"encoding/base64"
	"encoding/hex"
	"fmt"
	"os"
	"path/filepath"
	"sort"
	"strconv"
	"strings"
	"time"

	"gnoverif/kit"

	gno "github.com/gnolang/gno/gnovm/pkg/gnolang"
	"github.com/gnolang/gno/gnovm/stdlibs"
	chainparams "github.com/gnolang/gno/gnovm/stdlibs/chain/params"
	sysparams "github.com/gnolang/gno/gnovm/stdlibs/sys/params"

	"github.com/gnolang/gno/gno.land/pkg/sdk/vm"
	bft "github.com/gnolang/gno/tm2/pkg/bft/types"
	"github.com/gnolang/gno/tm2/pkg/crypto"
	"github.com/gnolang/gno/tm2/pkg/db/memdb"
	"github.com/gnolang/gno/tm2/pkg/log"
	"github.com/gnolang/gno/tm2/pkg/sdk"
	authm "github.com/gnolang/gno/tm2/pkg/sdk/auth"
	bankm "github.com/gnolang/gno/tm2/pkg/sdk/bank"
	pm "github.com/gnolang/gno/tm2/pkg/sdk/params"
	"github.com/gnolang/gno/tm2/pkg/std"
	"github.com/gnolang/gno/tm2/pkg/store"
	storebptree "github.com/gnolang/gno/tm2/pkg/store/bptree"
	"github.com/gnolang/gno/tm2/pkg/store/dbadapter"
)

// ---------------------------------------------------------------- recorder

type willRec struct {
	module string
	rawKey string
	done   bool // WillSetParam returned normally
}

var wills []willRec

type recKeeper struct {
	module string
	inner  pm.ParamfulKeeper
}

func (r recKeeper) WillSetParam(ctx sdk.Context, key string, value any) {
	wills = append(wills, willRec{module: r.module, rawKey: key})
	i := len(wills) - 1
	r.inner.WillSetParam(ctx, key, value)
	wills[i].done = true
}

// acceptAll is the shape of gnoland's nodeParamsKeeper / auth.DummyBankKeeper.
type acceptAll struct{}

func (acceptAll) WillSetParam(ctx sdk.Context, key string, value any) {}

// rejectBad rejects exactly the string value "bad".
type rejectBad struct{}

func (rejectBad) WillSetParam(ctx sdk.Context, key string, value any) {
	if s, ok := value.(string); ok && s == "bad" {
		panic("invalid param: fake module rejects bad")
	}
}

// ---------------------------------------------------------------- environment

type env struct {
	ms      store.CommitMultiStore
	baseCtx sdk.Context
	iavlKey store.StoreKey
	prmk    pm.ParamsKeeper
	acck    authm.AccountKeeper
	bankk   bankm.BankKeeper
	vmk     *vm.VMKeeper
	caller  crypto.Address

	caseMS  store.MultiStore
	caseCtx sdk.Context

	deployed map[string]bool // path -> deployed ok (memoised for the whole process)
	vmReady  bool            // stdlibs loaded (only the VM route needs them)
}

// readyVM initialises the gno store and loads the stdlibs on the BASE store,
// the first time a VM-route op needs them (keeper-route ops do not).
func (e *env) readyVM() {
	if e.vmReady {
		return
	}
	t0 := time.Now()
	mcw := e.ms.MultiCacheWrap()
	e.vmk.Initialize(log.NewNoopLogger(), mcw)
	sctx := e.vmk.MakeGnoTransactionStore(e.baseCtx.WithMultiStore(mcw))
	e.vmk.LoadStdlibCached(sctx, filepath.Join(repoDir(), "gnovm", "stdlibs"))
	e.vmk.CommitGnoTransactionStore(sctx)
	mcw.MultiWrite()
	e.vmk.PopulateStdlibCache()
	e.vmReady = true
	if os.Getenv("VERIF_TRACE") != "" {
		fmt.Fprintf(os.Stderr, "stdlibs loaded in %v\n", time.Since(t0))
	}
}

var E *env

func repoDir() string {
	if d := os.Getenv("VERIF_REPO"); d != "" {
		return d
	}
	return "/repo"
}

var callerAddr = crypto.AddressFromPreimage([]byte("c13caller"))

func buildEnv() *env {
	db := memdb.NewMemDB()
	baseKey := store.NewStoreKey("baseCapKey")
	iavlKey := store.NewStoreKey("iavlCapKey")
	ms := store.NewCommitMultiStore(db)
	ms.MountStoreWithDB(baseKey, dbadapter.StoreConstructor, db)
	ms.MountStoreWithDB(iavlKey, storebptree.FastStoreConstructor, db)
	ms.LoadLatestVersion()
	ctx := sdk.NewContext(sdk.RunTxModeDeliver, ms, &bft.Header{ChainID: "test-chain-id", Height: 42}, log.NewNoopLogger())

	prmk := pm.NewParamsKeeper(iavlKey)
	acck := authm.NewAccountKeeper(iavlKey, prmk.ForModule(authm.ModuleName), std.ProtoBaseAccount, std.ProtoBaseSessionAccount)
	bankk := bankm.NewBankKeeper(acck, prmk.ForModule(bankm.ModuleName), iavlKey, []string{"ugnot"})
	vmk := vm.NewVMKeeper(baseKey, iavlKey, acck, bankk, prmk)

	// exactly gnoland/app.go's registration, each real keeper behind a recorder
	prmk.Register(authm.ModuleName, recKeeper{"auth", acck})
	prmk.Register(bankm.ModuleName, recKeeper{"bank", bankk})
	prmk.Register(vm.ModuleName, recKeeper{"vm", vmk})
	prmk.Register("node", recKeeper{"node", acceptAll{}})
	prmk.Register("fake", recKeeper{"fake", rejectBad{}})
	acck.SetParams(ctx, authm.DefaultParams())
	bankk.SetParams(ctx, bankm.DefaultParams())
	if err := vmk.SetParams(ctx, vm.DefaultParams()); err != nil {
		panic(err)
	}

	acc := acck.NewAccountWithAddress(ctx, callerAddr)
	acck.SetAccount(ctx, acc)
	bankk.SetCoins(ctx, callerAddr, std.MustParseCoins("1000000000000000ugnot"))

	e := &env{ms: ms, baseCtx: ctx, iavlKey: iavlKey, prmk: prmk, acck: acck, bankk: bankk, vmk: vmk,
		caller: callerAddr, deployed: map[string]bool{}}
	e.newCase()
	return e
}

func (e *env) newCase() {
	e.caseMS = e.ms.MultiCacheWrap()
	e.caseCtx = e.baseCtx.WithMultiStore(e.caseMS)
}

func getEnv() *env {
	if E == nil {
		t0 := time.Now()
		E = buildEnv()
		if os.Getenv("VERIF_TRACE") != "" {
			fmt.Fprintf(os.Stderr, "env built in %v\n", time.Since(t0))
		}
	}
	return E
}

// snapshot of all params keys ("/pv/" prefix stripped) in the case layer.
func (e *env) snapshot() map[string]string {
	out := map[string]string{}
	st := e.caseCtx.Store(e.iavlKey)
	pfx := []byte(pm.StoreKeyPrefix)
	it := store.PrefixIterator(nil, st, pfx)
	defer it.Close()
	for ; it.Valid(); it.Next() {
		out[string(it.Key()[len(pfx):])] = string(it.Value())
	}
	return out
}

func changedKeys(a, b map[string]string) []string {
	var out []string
	for k, v := range a {
		if w, ok := b[k]; !ok || w != v {
			out = append(out, k)
		}
	}
	for k := range b {
		if _, ok := a[k]; !ok {
			out = append(out, k)
		}
	}
	sort.Strings(out)
	return out
}

// tx runs f on a tx-level cache layer over the case layer; commits iff f
// returns nil and does not panic (this is baseapp.runTx's discipline).
func (e *env) tx(f func(ctx sdk.Context) error) (err error) {
	e.readyVM()
	txMS := e.caseMS.MultiCacheWrap()
	ctx := e.vmk.MakeGnoTransactionStore(e.caseCtx.WithMultiStore(txMS))
	func() {
		defer func() {
			if r := recover(); r != nil {
				err = fmt.Errorf("go-panic: %v", r)
			}
		}()
		err = f(ctx)
	}()
	if err == nil {
		e.vmk.CommitGnoTransactionStore(ctx)
		txMS.MultiWrite()
	}
	return err
}

// ---------------------------------------------------------------- realm programs

const stdBody = `package %s

import (
	"chain/params"
	sysparams "sys/params"
)

func SetString(cur realm, k, v string)             { params.SetString(k, v) }
func SetBool(cur realm, k string, v bool)          { params.SetBool(k, v) }
func SetInt64(cur realm, k string, v int64)        { params.SetInt64(k, v) }
func SetUint64(cur realm, k string, v uint64)      { params.SetUint64(k, v) }
func SetBytes(cur realm, k string, v []byte)       { params.SetBytes(k, v) }
func SetStrings(cur realm, k string, v ...string)  { params.SetStrings(k, v) }
func AddStrings(cur realm, k string, v ...string)  { params.UpdateParamStrings(k, v, true) }
func DelStrings(cur realm, k string, v ...string)  { params.UpdateParamStrings(k, v, false) }

// Plain is non-crossing: it runs under the CALLER's current realm.
func Plain(k, v string) { params.SetString(k, v) }

func SysSetString(cur realm, m, s, n, v string)       { sysparams.SetSysParamString(m, s, n, v) }
func SysSetInt64(cur realm, m, s, n string, v int64)  { sysparams.SetSysParamInt64(m, s, n, v) }
func SysSetBool(cur realm, m, s, n string, v bool)    { sysparams.SetSysParamBool(m, s, n, v) }
`

const proxyBody = `package %s

import tgt %q

func Cross(cur realm, k, v string) { tgt.SetString(cross(cur), k, v) }
func Plain(cur realm, k, v string) { tgt.Plain(k, v) }
`

func lastElem(p string) string {
	if i := strings.LastIndex(p, "/"); i >= 0 {
		return p[i+1:]
	}
	return p
}

// deploy adds a package at path with body (a format string taking the
// package name first) on the BASE store, memoised.
func (e *env) deploy(path string, body string) bool {
	if ok, seen := e.deployed[path]; seen {
		return ok
	}
	e.readyVM()
	ok := false
	func() {
		defer func() {
			if r := recover(); r != nil {
				ok = false
			}
		}()
		name := lastElem(path)
		files := []*std.MemFile{
			{Name: "a.gno", Body: strings.Replace(body, "%s", name, 1)},
			{Name: "gnomod.toml", Body: gno.GenGnoModLatest(path)},
		}
		mcw := e.ms.MultiCacheWrap()
		ctx := e.vmk.MakeGnoTransactionStore(e.baseCtx.WithMultiStore(mcw))
		msg := vm.NewMsgAddPackage(e.caller, path, files)
		if err := e.vmk.AddPackage(ctx, msg); err != nil {
			if os.Getenv("VERIF_TRACE") != "" {
				fmt.Fprintf(os.Stderr, "deploy %q: %+v\n", path, err)
			}
			return
		}
		e.vmk.CommitGnoTransactionStore(ctx)
		mcw.MultiWrite()
		ok = true
	}()
	e.deployed[path] = ok
	return ok
}

func proxyPath(target string) string {
	return "gno.land/r/proxy/x" + hex.EncodeToString([]byte(target))
}

// ---------------------------------------------------------------- error classes

func classify(msg string) string {
	switch {
	case strings.Contains(msg, "params storage diff for unknown realm"):
		return "err:deposit-unknown-realm"
	case strings.Contains(msg, "not enough deposit"):
		return "err:deposit-short"
	case strings.Contains(msg, "empty param key"):
		return "panic:empty-key"
	case strings.Contains(msg, "invalid param key format"):
		return "panic:badkey"
	case strings.Contains(msg, "invalid param key"):
		return "panic:colon-key"
	case strings.Contains(msg, "can only be used from"):
		return "panic:gate"
	case strings.Contains(msg, "invalid param name"):
		return "panic:colon-name"
	case strings.Contains(msg, "submodule cannot be empty"):
		return "panic:empty-sub"
	case strings.Contains(msg, "not registered"):
		return "panic:unregistered"
	case strings.Contains(msg, "unknown vm param key"), strings.Contains(msg, "unknown bank param key"), strings.Contains(msg, "unknown auth param key"):
		return "panic:unknown-param"
	case strings.Contains(msg, "json."), strings.Contains(msg, "nmarshal"):
		return "panic:unmarshal"
	case strings.Contains(msg, "invalid type for"):
		return "panic:badtype"
	case strings.Contains(msg, "invalid param:"), strings.Contains(msg, "invalid storage_fee_collector"), strings.Contains(msg, "invalid fee_collector"), strings.Contains(msg, "invalid initial_gasprice"):
		return "panic:invalid"
	}
	if os.Getenv("VERIF_TRACE") != "" {
		fmt.Fprintf(os.Stderr, "unclassified: %s\n", msg)
	}
	return "panic:other"
}

func panicMsg(v any) string {
	switch x := v.(type) {
	case *gno.Exception:
		return x.Sprint(nil)
	case error:
		return x.Error()
	default:
		return fmt.Sprint(v)
	}
}

// ---------------------------------------------------------------- native route

type recParams struct{ keys []string }

func (p *recParams) SetString(key, val string)                        { p.keys = append(p.keys, key) }
func (p *recParams) SetBool(key string, val bool)                     { p.keys = append(p.keys, key) }
func (p *recParams) SetInt64(key string, val int64)                   { p.keys = append(p.keys, key) }
func (p *recParams) SetUint64(key string, val uint64)                 { p.keys = append(p.keys, key) }
func (p *recParams) SetBytes(key string, val []byte)                  { p.keys = append(p.keys, key) }
func (p *recParams) SetStrings(key string, val []string)              { p.keys = append(p.keys, key) }
func (p *recParams) UpdateStrings(key string, val []string, add bool) { p.keys = append(p.keys, key) }
func (p *recParams) GetString(key string, ptr *string) bool           { return false }
func (p *recParams) GetBool(key string, ptr *bool) bool               { return false }
func (p *recParams) GetInt64(key string, ptr *int64) bool             { return false }
func (p *recParams) GetUint64(key string, ptr *uint64) bool           { return false }
func (p *recParams) GetBytes(key string, ptr *[]byte) bool            { return false }
func (p *recParams) GetStrings(key string, ptr *[]string) bool        { return false }

func machineWithFrames(rp *recParams, pkgs ...string) *gno.Machine {
	m := &gno.Machine{Stage: gno.StageRun}
	m.Context = stdlibs.ExecContext{Params: rp}
	for _, p := range pkgs {
		m.Frames = append(m.Frames, gno.Frame{LastPackage: &gno.PackageValue{PkgPath: p}})
	}
	return m
}

func nativeCall(rp *recParams, f func()) (out string) {
	defer func() {
		if r := recover(); r != nil {
			out = classify(panicMsg(r))
		}
	}()
	f()
	if len(rp.keys) != 1 {
		return "err:nokey"
	}
	return "k " + kit.Hex([]byte(rp.keys[0]))
}

// seen maps a formed key to the (realm,key) pair that formed it (per case).
var seenPkey = map[string][2]string{}

func opPkey(realm, key string) (string, string) {
	rp := &recParams{}
	m := machineWithFrames(rp, realm)
	out := nativeCall(rp, func() { chainparams.SetString(m, key, "v") })
	// oracle: the statement on the produced key string
	if !strings.HasPrefix(out, "k ") {
		// rejections: the statement only requires that nothing was handed to the params interface
		if len(rp.keys) != 0 {
			return out, "VIOL:write-after-reject " + kit.Hex([]byte(rp.keys[0]))
		}
		return out, "ok"
	}
	got := rp.keys[0]
	if got != "vm:"+realm+":"+key {
		return out, "VIOL:pkey-shape " + kit.Hex([]byte(got))
	}
	if prev, ok := seenPkey[got]; ok && (prev[0] != realm || prev[1] != key) {
		return out, "VIOL:pkey-collision " + kit.Hex([]byte(got))
	}
	seenPkey[got] = [2]string{realm, key}
	if !gno.IsUserlib(realm) {
		// not a package path of the real grammar (e.g. "p", "", "gno.land/r/a:b"):
		// outside the statement's domain; shape and collision were still checked
		return out, "-"
	}
	parts := strings.SplitN(got, ":", 3)
	if len(parts) != 3 || parts[0] != "vm" || parts[1] != realm || parts[2] != key || parts[1] == "p" {
		return out, "VIOL:pkey-parse " + kit.Hex([]byte(got))
	}
	return out, "ok"
}

func opPrmkey(caller, module, sub, name string) (string, string) {
	rp := &recParams{}
	m := machineWithFrames(rp, "main", caller, "sys/params")
	out := nativeCall(rp, func() { sysparams.X_setSysParamString(m, module, sub, name, "v") })
	if !strings.HasPrefix(out, "k ") {
		if len(rp.keys) != 0 {
			return out, "VIOL:write-after-reject " + kit.Hex([]byte(rp.keys[0]))
		}
		return out, "ok"
	}
	if caller != "gno.land/r/sys/params" {
		return out, "VIOL:sys-gate-bypass " + kit.Hex([]byte(caller))
	}
	if rp.keys[0] != module+":"+sub+":"+name {
		return out, "VIOL:prmkey-shape " + kit.Hex([]byte(rp.keys[0]))
	}
	return out, "ok"
}

// ---------------------------------------------------------------- value tokens

// value token: s:<hex> i:<dec> u:<dec> b:true|false y:<hex>|y:- l:<hex>,<hex>,… (l:e = empty list)
type value struct {
	kind byte
	s    string
	i    int64
	u    uint64
	b    bool
	y    []byte
	l    []string
}

func parseValue(tok string) (v value, ok bool) {
	if len(tok) < 2 || tok[1] != ':' {
		return v, false
	}
	v.kind = tok[0]
	rest := tok[2:]
	var err error
	switch v.kind {
	case 's':
		var bz []byte
		bz, err = kit.UnHex(rest)
		v.s = string(bz)
	case 'i':
		v.i, err = strconv.ParseInt(rest, 10, 64)
	case 'u':
		v.u, err = strconv.ParseUint(rest, 10, 64)
	case 'b':
		v.b, err = strconv.ParseBool(rest)
		if rest != "true" && rest != "false" {
			return v, false
		}
	case 'y':
		v.y, err = kit.UnHex(rest)
	case 'l':
		v.l = []string{}
		if rest != "e" {
			for _, h := range strings.Split(rest, ",") {
				var bz []byte
				bz, err = kit.UnHex(h)
				if err != nil {
					return v, false
				}
				v.l = append(v.l, string(bz))
			}
		}
	default:
		return v, false
	}
	return v, err == nil
}

// ---------------------------------------------------------------- keeper route

// knownUnmodelled lists module keys whose value validation is not part of the
// C13 model (coin / address / gas-price syntax — other properties).
func unmodelled(module, rawKey string) bool {
	switch module {
	case "vm":
		switch rawKey {
		case "p:default_deposit", "p:storage_price", "p:storage_fee_collector":
			return true
		}
	case "auth":
		switch rawKey {
		case "p:max_memo_bytes", "p:tx_sig_limit", "p:tx_size_cost_per_byte", "p:sig_verify_cost_ed25519",
			"p:sig_verify_cost_secp256k1", "p:gas_price_change_compressor", "p:target_gas_ratio",
			"p:fee_collector", "p:initial_gasprice", "p:unrestricted_addrs":
			return true
		}
	case "bank":
		return rawKey == "p:restricted_denoms"
	}
	return false
}

type outcome struct {
	ok      bool
	class   string
	changed []string
	wills   []willRec
}

// observe runs f, recording WillSetParam calls and the params-store difference.
func (e *env) observe(f func() error) outcome {
	wills = wills[:0]
	before := e.snapshot()
	var o outcome
	func() {
		defer func() {
			if r := recover(); r != nil {
				o.class = classify(panicMsg(r))
			}
		}()
		if err := f(); err != nil {
			o.class = classify(err.Error())
			return
		}
		o.ok = true
	}()
	o.changed = changedKeys(before, e.snapshot())
	o.wills = append([]willRec(nil), wills...)
	return o
}

// moduleOf: the independent reading of "<module>:" used by the oracle.
func moduleOf(key string) (string, bool) {
	i := strings.IndexByte(key, ':')
	if i <= 0 {
		// no separator, or an empty prefix: the key belongs to no module
		return "", false
	}
	return key[:i], true
}

// oracleWrite evaluates the statement on one observed write attempt.
//
//	allowedKey   the only parameter key this attempt may touch ("" = none)
//	metaRealm    realm whose _realmmeta_ accounting key may also change ("" = none)
func oracleWrite(o outcome, allowedKey, metaRealm string) string {
	for _, k := range o.changed {
		if k == allowedKey && allowedKey != "" {
			continue
		}
		if metaRealm != "" && k == "_realmmeta_"+metaRealm {
			continue
		}
		return "VIOL:foreign-key-changed " + kit.Hex([]byte(k))
	}
	// every changed module-prefixed key must have passed that module's WillSetParam
	for _, k := range o.changed {
		mod, has := moduleOf(k)
		if !has {
			continue
		}
		passed := false
		for _, w := range o.wills {
			if w.module == mod && mod+":"+w.rawKey == k && w.done {
				passed = true
			}
		}
		if !passed {
			return "VIOL:unvalidated-write " + kit.Hex([]byte(k))
		}
	}
	if !o.ok && len(o.changed) != 0 {
		return "VIOL:write-after-reject " + kit.Hex([]byte(o.changed[0]))
	}
	return "ok"
}

func showWrite(o outcome) string {
	// a write that reached the WillSetParam of a key whose value validation is
	// outside the model prints `unmodelled`, whatever the verdict was
	for _, w := range o.wills {
		if unmodelled(w.module, w.rawKey) {
			return "unmodelled"
		}
	}
	if !o.ok {
		return o.class
	}
	if len(o.wills) == 0 {
		return "ok -"
	}
	w := o.wills[len(o.wills)-1]
	return "ok " + kit.Hex([]byte(w.module)) + " " + kit.Hex([]byte(w.rawKey))
}

func sdkSet(p *vm.SDKParams, key string, v value, upd string) {
	switch {
	case upd == "add":
		p.UpdateStrings(key, v.l, true)
	case upd == "del":
		p.UpdateStrings(key, v.l, false)
	case v.kind == 's':
		p.SetString(key, v.s)
	case v.kind == 'i':
		p.SetInt64(key, v.i)
	case v.kind == 'u':
		p.SetUint64(key, v.u)
	case v.kind == 'b':
		p.SetBool(key, v.b)
	case v.kind == 'y':
		p.SetBytes(key, v.y)
	case v.kind == 'l':
		p.SetStrings(key, v.l)
	}
}

func opSet(key string, v value, upd string) (string, string) {
	e := getEnv()
	o := e.observe(func() error {
		ctx := vm.ContextWithParamsAccum(e.caseCtx)
		sdkSet(vm.NewSDKParams(e.prmk, ctx), key, v, upd)
		return nil
	})
	return showWrite(o), oracleWrite(o, key, "")
}

func opRawSet(key string, val string) (string, string) {
	e := getEnv()
	o := e.observe(func() error {
		e.prmk.SetString(e.caseCtx, key, val)
		return nil
	})
	return showWrite(o), oracleWrite(o, key, "")
}

// ---------------------------------------------------------------- VM route

func argOf(v value) []string {
	switch v.kind {
	case 's':
		return []string{v.s}
	case 'i':
		return []string{strconv.FormatInt(v.i, 10)}
	case 'u':
		return []string{strconv.FormatUint(v.u, 10)}
	case 'b':
		return []string{strconv.FormatBool(v.b)}
	case 'y':
		return []string{base64.StdEncoding.EncodeToString(v.y)}
	case 'l':
		return v.l
	}
	return nil
}

func fnOf(v value, upd string) string {
	switch {
	case upd == "add":
		return "AddStrings"
	case upd == "del":
		return "DelStrings"
	}
	switch v.kind {
	case 's':
		return "SetString"
	case 'i':
		return "SetInt64"
	case 'u':
		return "SetUint64"
	case 'b':
		return "SetBool"
	case 'y':
		return "SetBytes"
	case 'l':
		return "SetStrings"
	}
	return ""
}

func (e *env) call(path, fn string, args []string) error {
	return e.tx(func(ctx sdk.Context) error {
		_, err := e.vmk.Call(ctx, vm.NewMsgCall(e.caller, nil, path, fn, args))
		return err
	})
}

// realm write through gno code: `path`.<Set*>(cur, key, val)
func opVMSet(path, key string, v value, upd string) (string, string) {
	e := getEnv()
	if !e.deploy(path, stdBody) {
		return "err:deploy", "-"
	}
	o := e.observe(func() error {
		return e.call(path, fnOf(v, upd), append([]string{key}, argOf(v)...))
	})
	return showWrite(o), oracleWrite(o, ownKey(path, key), path)
}

// ownKey is the one key a chain/params write from realm r with key k may touch
// (written independently of pkey: prefix + realm + separator + key, and only
// when k cannot smuggle a separator).
func ownKey(realm, key string) string {
	if key == "" || strings.ContainsRune(key, ':') {
		return "" // nothing may change
	}
	return strings.Join([]string{"vm", realm, key}, ":")
}

func opVMSys(callerRealm, module, sub, name string, v value) (string, string) {
	e := getEnv()
	if !e.deploy(callerRealm, stdBody) {
		return "err:deploy", "-"
	}
	var fn string
	switch v.kind {
	case 's':
		fn = "SysSetString"
	case 'i':
		fn = "SysSetInt64"
	case 'b':
		fn = "SysSetBool"
	default:
		return "err:badop", "-"
	}
	o := e.observe(func() error {
		return e.call(callerRealm, fn, append([]string{module, sub, name}, argOf(v)...))
	})
	impl := showWrite(o)
	if callerRealm != "gno.land/r/sys/params" {
		// any realm other than the designated one must not change anything
		if len(o.changed) != 0 {
			return impl, "VIOL:sys-gate-bypass " + kit.Hex([]byte(o.changed[0]))
		}
		return impl, "ok"
	}
	full := module + ":" + sub + ":" + name
	meta := ""
	if module == "vm" {
		// governance writing into a realm's slot is charged to that realm's
		// accounting key (realmFromKey); allowed by the statement's
		// "designated system parameters realm" clause.
		if i := strings.LastIndex(sub+":"+name, ":"); i >= 0 && strings.Contains((sub + ":" + name)[:i], "/") {
			meta = (sub + ":" + name)[:i]
		}
	}
	return impl, oracleWrite(o, full, meta)
}

func opVMRun(key, val string) (string, string) {
	e := getEnv()
	body := "package main\n\nimport \"chain/params\"\n\nfunc main() { params.SetString(" + strconv.Quote(key) + ", " + strconv.Quote(val) + ") }\n"
	realm := "gno.land/e/" + e.caller.String() + "/run"
	o := e.observe(func() error {
		return e.tx(func(ctx sdk.Context) error {
			msg := vm.NewMsgRun(e.caller, nil, []*std.MemFile{{Name: "main.gno", Body: body}})
			_, err := e.vmk.Run(ctx, msg)
			return err
		})
	})
	return showWrite(o), oracleWrite(o, ownKey(realm, key), realm)
}

func opVMProxy(mode, target, key, val string) (string, string) {
	e := getEnv()
	if !e.deploy(target, stdBody) {
		return "err:deploy", "-"
	}
	pp := proxyPath(target)
	if !e.deploy(pp, strings.Replace(proxyBody, "%q", strconv.Quote(target), 1)) {
		return "err:deploy-proxy", "-"
	}
	var fn, owner string
	switch mode {
	case "cross":
		fn, owner = "Cross", target // target's code under target's realm
	case "plain":
		fn, owner = "Plain", pp // target's non-crossing helper runs under the proxy's realm
	default:
		return "err:badop", "-"
	}
	o := e.observe(func() error { return e.call(pp, fn, []string{key, val}) })
	return showWrite(o), oracleWrite(o, ownKey(owner, key), owner)
}

// ---------------------------------------------------------------- realm grammar

func opRealm(path string) (string, string) {
	ul := gno.IsUserlib(path)
	rl := gno.IsRealmPath(path)
	out := "userlib=" + strconv.FormatBool(ul) + " realm=" + strconv.FormatBool(rl)
	// the facts the key algebra needs from the grammar
	if ul || rl {
		if strings.ContainsRune(path, ':') {
			return out, "VIOL:realm-path-colon " + kit.Hex([]byte(path))
		}
		if path == "p" || strings.HasPrefix(path, "p:") || !strings.ContainsRune(path, '/') {
			return out, "VIOL:realm-path-shape " + kit.Hex([]byte(path))
		}
	}
	if rl && !ul {
		return out, "VIOL:realm-not-userlib " + kit.Hex([]byte(path))
	}
	return out, "ok"
}

// ---------------------------------------------------------------- exec

func unhex(tok string) (string, bool) {
	b, err := kit.UnHex(tok)
	if err != nil || tok == "-" {
		return "", false
	}
	return string(b), true
}

func unhexAll(toks []string) ([]string, bool) {
	out := make([]string, len(toks))
	for i, t := range toks {
		s, ok := unhex(t)
		if !ok {
			return nil, false
		}
		out[i] = s
	}
	return out, true
}

func exec(toks []string) (string, string) {
	bad := func() (string, string) { return "err:badop", "-" }
	if len(toks) == 0 {
		return bad()
	}
	switch toks[0] {
	case "fact":
		if len(toks) == 2 {
			return opFact(toks[1])
		}
	case "realm":
		if a, ok := unhexAll(toks[1:]); ok && len(a) == 1 {
			return opRealm(a[0])
		}
	case "pkey":
		if a, ok := unhexAll(toks[1:]); ok && len(a) == 2 {
			return opPkey(a[0], a[1])
		}
	case "prmkey":
		if a, ok := unhexAll(toks[1:]); ok && len(a) == 4 {
			return opPrmkey(a[0], a[1], a[2], a[3])
		}
	case "set", "add", "del":
		if len(toks) == 3 {
			k, ok1 := unhex(toks[1])
			v, ok2 := parseValue(toks[2])
			if ok1 && ok2 && (toks[0] == "set" || v.kind == 'l') {
				upd := ""
				if toks[0] != "set" {
					upd = toks[0]
				}
				return opSet(k, v, upd)
			}
		}
	case "rawset":
		if a, ok := unhexAll(toks[1:]); ok && len(a) == 2 {
			return opRawSet(a[0], a[1])
		}
	case "vmset", "vmadd", "vmdel":
		if len(toks) == 4 {
			a, ok1 := unhexAll(toks[1:3])
			v, ok2 := parseValue(toks[3])
			if ok1 && ok2 && (toks[0] == "vmset" || v.kind == 'l') {
				upd := ""
				if toks[0] != "vmset" {
					upd = toks[0][2:]
				}
				return opVMSet(a[0], a[1], v, upd)
			}
		}
	case "vmsys":
		if len(toks) == 6 {
			a, ok1 := unhexAll(toks[1:5])
			v, ok2 := parseValue(toks[5])
			if ok1 && ok2 {
				return opVMSys(a[0], a[1], a[2], a[3], v)
			}
		}
	case "vmrun":
		// vmrun <run-realm-hex> <key-hex> <val-hex>; the realm is the harness's own caller's
		if a, ok := unhexAll(toks[1:]); ok && len(a) == 3 {
			if a[0] != "gno.land/e/"+callerAddr.String()+"/run" {
				return bad()
			}
			return opVMRun(a[1], a[2])
		}
	case "vmproxy":
		if len(toks) == 5 {
			if a, ok := unhexAll(toks[2:]); ok {
				return opVMProxy(toks[1], a[0], a[1], a[2])
			}
		}
	}
	return bad()
}

func reset() {
	seenPkey = map[string][2]string{}
	if E != nil {
		E.newCase()
	}
}

func main() {
	kit.Main(&kit.Harness{Gen: gen, Reset: reset, Exec: exec})
}
