package main

import (
	"fmt"
	"strings"

	"gnoverif/kit"
)

// ---------------------------------------------------------------- token helpers

func hx(s string) string { return kit.Hex([]byte(s)) }
func vs(s string) string { return "s:" + hx(s) }
func vi(i int64) string  { return fmt.Sprintf("i:%d", i) }
func vl(xs ...string) string {
	if len(xs) == 0 {
		return "l:e"
	}
	h := make([]string, len(xs))
	for i, x := range xs {
		h[i] = hx(x)
	}
	return "l:" + strings.Join(h, ",")
}

// allStrings enumerates every string of length <= n over alpha (shortest first).
func allStrings(alpha []string, n int) []string {
	out := []string{""}
	level := []string{""}
	for l := 1; l <= n; l++ {
		var next []string
		for _, p := range level {
			for _, a := range alpha {
				next = append(next, p+a)
			}
		}
		out = append(out, next...)
		level = next
	}
	return out
}

// the key alphabet of the task statement: {a, :, /, _, ., digit} (+ empty = length 0)
var keyAlpha = []string{"a", ":", "/", "_", ".", "0"}

// ---------------------------------------------------------------- realm paths

var goKeywords = map[string]bool{"break": true, "case": true, "chan": true, "const": true, "continue": true,
	"default": true, "defer": true, "else": true, "fallthrough": true, "for": true, "func": true, "go": true,
	"goto": true, "if": true, "import": true, "interface": true, "map": true, "package": true, "range": true,
	"return": true, "select": true, "struct": true, "switch": true, "type": true, "var": true,
	"init": true, "main": true, "realm": true, "cross": true, "params": false}

const lower = "abcdefghijklmnopqrstuvwxyz"
const lowernum = lower + "0123456789"

// name from Re_name; ident=true restricts to what a deployable last element needs
// (>= 2 chars, no '-', not a keyword / version suffix / _test).
func genName(r *kit.Rand, ident bool) string {
	for {
		var b strings.Builder
		b.WriteByte(lower[r.Intn(26)])
		for n := r.Intn(4); n > 0; n-- {
			b.WriteByte(lowernum[r.Intn(len(lowernum))])
		}
		for g := r.Intn(3); g > 0; g-- {
			if ident || r.Bool() {
				b.WriteByte('_')
			} else {
				b.WriteByte('-')
			}
			for n := 1 + r.Intn(3); n > 0; n-- {
				b.WriteByte(lowernum[r.Intn(len(lowernum))])
			}
		}
		s := b.String()
		if !ident {
			return s
		}
		if len(s) < 2 || goKeywords[s] || strings.HasSuffix(s, "_test") || strings.HasSuffix(s, "_filetest") {
			continue
		}
		if s[0] == 'v' && strings.Trim(s[1:], "0123456789") == "" {
			continue
		}
		return s
	}
}

// a deployable realm path under gno.land/r/ ("u<…>" user keeps clear of proxy/, ghost/, sys/)
func genRealm(r *kit.Rand) string {
	p := "gno.land/r/u" + genName(r, false)
	for n := r.Intn(3); n > 0; n-- {
		p += "/" + genName(r, false)
	}
	return p + "/" + genName(r, true)
}

// a syntactically valid user path of any letter / domain (for `realm` and `pkey`)
func genUserPath(r *kit.Rand) string {
	doms := []string{"gno.land", "a.bc", "sub.domain.tld", "x-y.z0.io", "0.ab"}
	p := kit.Pick(r, doms) + "/" + string(lower[r.Intn(26)])
	if r.Chance(70) {
		p = kit.Pick(r, doms) + "/r"
	}
	for n := 1 + r.Intn(3); n > 0; n-- {
		p += "/" + genName(r, false)
	}
	return p
}

// malformed realm strings: separators, look-alikes, prefixes of other realms
func mutatePath(r *kit.Rand, p string) string {
	if len(p) == 0 {
		return ":"
	}
	ins := []string{":", ":", "::", "/", "//", ".", "_", "-", "__", "A", " ", "\x00", "\xff", "_test", "p:", ":p", "vm:"}
	switch r.Intn(6) {
	case 0:
		i := r.Intn(len(p) + 1)
		return p[:i] + kit.Pick(r, ins) + p[i:]
	case 1:
		i := r.Intn(len(p))
		return p[:i] + p[i+1:]
	case 2:
		return p + ":" + genName(r, false)
	case 3:
		return p + kit.Pick(r, ins)
	case 4:
		return kit.Pick(r, ins) + p
	default:
		i := r.Intn(len(p))
		return p[:i]
	}
}

var realmTable = []string{
	"gno.land/r/a", "gno.land/r/a:b", "gno.land/r/a/b", "gno.land/r/a:", "gno.land/r/ab", "gno.land/r/a_b", "gno.land/r/a-b",
	"gno.land/r/a_", "gno.land/r/a__b", "gno.land/r/_a", "gno.land/r/0a", "gno.land/r/a0", "gno.land/r/A",
	"gno.land/r/a/", "gno.land/r//a", "gno.land/r/", "gno.land/r", "gno.land/", "gno.land", "",
	"p", "p:", "p:x", "vm", "vm:p", "r", "/", ":", "gno.land/p/a", "gno.land/e/g1abc/run", "gno.land/x/a", "gno.land/rr/a",
	"gno.land/r/a_test", "gno.land/r/a/b_test", "gno.land/r/a/b_test/c", "gno.land/r/a/btest", "gno.land/r/a/_test",
	"gno.land/r/sys/params", "gno.land/r/sys/params:x", "gno.land:8080/r/a", "gno.land/r/a.b", "gno.land./r/a", ".land/r/a",
	"gno.l/r/a", "gno.la/r/a", "gno.l4nd/r/a", "g-n-o.land/r/a", "-.ab/r/a", "land/r/a", "a.b.c.de/r/a",
	"gno." + strings.Repeat("a", 63) + "/r/a", "gno." + strings.Repeat("a", 64) + "/r/a",
	"GNO.land/r/a", "gno.land/R/a", "gno.land/r/a\n", "gno.land/r/a ", " gno.land/r/a", "gno.land/r/a\x00", "gno.land/r/\xc3\xa9",
	"gno.land/r/a/v2", "gno.land/r/a-/b", "gno.land/r/a-0", "gno.land/r/a_0-b",
}

// ---------------------------------------------------------------- value pools

var depthKeys = []string{"min_get_read_depth_100", "min_set_read_depth_100", "min_write_depth_100",
	"fixed_get_read_depth_100", "fixed_set_read_depth_100", "fixed_write_depth_100"}
var positiveKeys = []string{"iter_next_cost_flat", "preprocess_gas_per_byte"}
var pkgPathKeys = []string{"sysnames_pkgpath", "syscla_pkgpath"}
var extKeys = []string{"default_deposit", "storage_price", "storage_fee_collector"}

var depthVals = []int64{-1, 0, 1, 100, 540, 9999, 10000, 10001, -9223372036854775808, 9223372036854775807}
var positiveVals = []int64{-1, 0, 1, 1000, 1250, 99999, 100000, 100001, 9223372036854775807}
var pkgPathVals = []string{"", "gno.land/r/sys/names", "gno.land/r/a", "gno.land/x/y", "bad", "gno.land/r/a:b", "Gno.land/r/a",
	"gno.land/r/a/", "a.bc/z/q_1", "gno.land/r", "p"}
var domainVals = []string{"", "gno.land", "example.com", "x", "a.b", "a.bc", "-a.com", "a-.com", "a-b.com", "a.c0m", "A.Com",
	"a..com", ".com", "com", "a.com.", strings.Repeat("a", 63) + ".com", strings.Repeat("a", 64) + ".com", "a_b.com", "a.b.c.d.ef",
	"gno.land:1", "0.ab", "a.b-c"}

// wrong-typed values for any key
func wrongTyped(r *kit.Rand) string {
	return kit.Pick(r, []string{"b:true", "u:7", "y:00ff", "y:-", "y:e", "l:e", vl("a"), "i:5", vs("5")})
}

func anyValue(r *kit.Rand, nonce *int) string {
	*nonce++
	switch r.Intn(8) {
	case 0:
		return vi(r.I64() >> uint(r.Intn(64)))
	case 1:
		return fmt.Sprintf("u:%d", r.U64()>>uint(r.Intn(64)))
	case 2:
		return "b:" + fmt.Sprint(r.Bool())
	case 3:
		return "y:" + kit.Hex(r.Bytes(1+r.Intn(5)))
	case 4:
		return vl(fmt.Sprintf("e%d", *nonce), "x")
	default:
		return vs(fmt.Sprintf("n%d", *nonce))
	}
}

// a parameter key: mostly valid, sometimes with a separator or empty
func genKey(r *kit.Rand) string {
	const body = "abcxyz019_./-"
	switch {
	case r.Chance(6):
		return ""
	case r.Chance(12):
		ks := allStrings(keyAlpha, 3)
		return ks[r.Intn(len(ks))]
	}
	var b strings.Builder
	for n := 1 + r.Intn(8); n > 0; n-- {
		b.WriteByte(body[r.Intn(len(body))])
	}
	s := b.String()
	if r.Chance(12) {
		i := r.Intn(len(s) + 1)
		s = s[:i] + ":" + s[i:]
	}
	if r.Chance(4) {
		s = "p:" + s
	}
	return s
}

var moduleNames = []string{"vm", "p", "bank", "auth", "node", "fake", "params", "", "v", "vmm", "VM", "vm ", " vm", "vm:p", "vm:", ":vm",
	"bank:p", "auth:p", "_realmmeta_", "gno.land/r/a", "vm\x00"}
var subNames = []string{"p", "", "a", "p:x", ":", "gno.land/r/a", "gno.land/r/ghost/zz", "a/b", "p:", ":p", "vm", "x:y"}
var leafNames = []string{"k", "", "a:b", ":", "chain_domain", "min_write_depth_100", "nonesuch", "restricted_denoms", "max_memo_bytes", "x/y", "a.b"}

const sysRealm = "gno.land/r/sys/params"

// ---------------------------------------------------------------- generator

func gen(w *kit.Out, r *kit.Rand, tier string) {
	thorough := tier == "thorough"
	nonce := 0
	runRealm := "gno.land/e/" + callerAddr.String() + "/run"

	// ---- 0. code-shape facts the theorems rely on (read from /repo's source)
	w.Case("facts")
	for _, f := range []string{"param-writers", "exec-params", "params-handler", "gate-order"} {
		w.Op("fact %s", f)
	}

	// ---- A. boundary tables: grammar and key algebra (native route)
	w.Case("realm-table")
	for _, p := range realmTable {
		w.Op("realm %s", hx(p))
	}
	keyLen := 3
	if thorough {
		keyLen = 4
	}
	keys := allStrings(keyAlpha, keyLen)
	// all keys × a realm, its ':'-extensions and a sub-realm, in ONE case so that
	// the collision oracle sees every pair
	w.Case("pkey-exhaustive")
	for _, rl := range []string{"gno.land/r/a", "gno.land/r/a:b", "gno.land/r/a/b", "gno.land/r/a:", "p", "", "gno.land/r/a:a", "vm"} {
		for _, k := range keys {
			w.Op("pkey %s %s", hx(rl), hx(k))
		}
	}
	if thorough {
		// one more symbol of key length for the realm / ':'-extension pair
		w.Case("pkey-exhaustive-5")
		for _, rl := range []string{"gno.land/r/a", "gno.land/r/a:b", "gno.land/r/a/b"} {
			for _, k := range allStrings(keyAlpha, 5) {
				w.Op("pkey %s %s", hx(rl), hx(k))
			}
		}
	}
	w.Case("pkey-table")
	for _, rl := range realmTable {
		for _, k := range []string{"k", "", "a:b", "p", "p:k", ":", "x/y", "chain_domain"} {
			w.Op("pkey %s %s", hx(rl), hx(k))
		}
	}
	w.Case("prmkey-table")
	for _, c := range []string{sysRealm, "gno.land/r/sys/params2", "gno.land/r/sys", "gno.land/r/evil", "", "sys/params", "gno.land/p/sys/params", sysRealm + ":x", sysRealm + "/"} {
		for _, m := range moduleNames {
			for _, s := range subNames {
				for _, n := range leafNames {
					if c == sysRealm || r.Chance(4) {
						w.Op("prmkey %s %s %s %s", hx(c), hx(m), hx(s), hx(n))
					}
				}
			}
		}
	}
	subLen, nameLen := 2, 2
	if thorough {
		subLen, nameLen = 2, 3
	}
	w.Case("prmkey-exhaustive")
	for _, m := range []string{"vm", "bank", "p", ""} {
		for _, s := range allStrings(keyAlpha, subLen) {
			for _, n := range allStrings(keyAlpha, nameLen) {
				w.Op("prmkey %s %s %s %s", hx(sysRealm), hx(m), hx(s), hx(n))
			}
		}
	}

	// ---- B. keeper route: the adapter + ParamsKeeper + real module keepers
	w.Case("set-modules")
	raws := []string{"p:chain_domain", "p:x", "p", "p:", "x", "", ":", "gno.land/r/a:k", "p:min_write_depth_100", "gno.land/r/a:p:k", "pp:x", "P:x", " p:x"}
	for _, m := range moduleNames {
		w.Op("set %s %s", hx(m), vs("v")) // no separator at all
		for _, raw := range raws {
			nonce++
			w.Op("set %s %s", hx(m+":"+raw), vs(fmt.Sprintf("n%d", nonce)))
			w.Op("rawset %s %s", hx(m+":"+raw), hx(fmt.Sprintf("n%d", nonce)))
		}
	}
	w.Case("set-vm-fields")
	for _, k := range depthKeys {
		for _, v := range depthVals {
			w.Op("set %s %s", hx("vm:p:"+k), vi(v))
		}
		w.Op("set %s %s", hx("vm:p:"+k), wrongTyped(r))
	}
	for _, k := range positiveKeys {
		for _, v := range positiveVals {
			w.Op("set %s %s", hx("vm:p:"+k), vi(v))
		}
		w.Op("set %s %s", hx("vm:p:"+k), wrongTyped(r))
	}
	w.Case("set-vm-pkgpath")
	for _, k := range pkgPathKeys {
		for _, v := range pkgPathVals {
			w.Op("set %s %s", hx("vm:p:"+k), vs(v))
		}
		for _, p := range realmTable {
			w.Op("set %s %s", hx("vm:p:"+k), vs(p))
		}
		w.Op("set %s %s", hx("vm:p:"+k), "i:1")
	}
	w.Case("set-vm-domain")
	for _, v := range domainVals {
		w.Op("set %s %s", hx("vm:p:chain_domain"), vs(v))
	}
	w.Op("set %s %s", hx("vm:p:chain_domain"), "b:true")
	w.Case("set-unmodelled")
	for _, k := range extKeys {
		w.Op("set %s %s", hx("vm:p:"+k), vs("garbage"))
		w.Op("set %s %s", hx("vm:p:"+k), "i:1")
	}
	w.Op("set %s %s", hx("vm:p:default_deposit"), vs("600000000ugnot"))
	w.Op("set %s %s", hx("vm:p:storage_price"), vs("100ugnot"))
	w.Op("set %s %s", hx("bank:p:restricted_denoms"), "l:e")
	w.Op("set %s %s", hx("bank:p:restricted_denoms"), vs("x"))
	w.Op("set %s %s", hx("auth:p:max_memo_bytes"), "i:65536")
	w.Op("set %s %s", hx("auth:p:max_memo_bytes"), vs("x"))
	w.Op("set %s %s", hx("auth:p:nonesuch"), "i:1")
	w.Op("set %s %s", hx("bank:p:nonesuch"), "i:1")
	w.Op("set %s %s", hx("bank:gno.land/r/a:k"), "i:1")
	w.Case("set-fake")
	for _, v := range []string{vs("bad"), vs("good"), vs(""), "i:1", "y:626164", "y:-", vl("bad")} {
		w.Op("set %s %s", hx("fake:x"), v)
		w.Op("set %s %s", hx("node:x"), v)
	}
	w.Op("add %s %s", hx("node:list"), vl("a", "b"))
	w.Op("add %s %s", hx("node:list"), vl("b", "c"))
	w.Op("del %s %s", hx("node:list"), vl("a", "zz"))
	w.Op("set %s %s", hx("node:notalist"), vs("x"))
	w.Op("add %s %s", hx("node:notalist"), vl("a"))
	w.Op("set %s %s", hx("node:int"), "i:3")
	w.Op("del %s %s", hx("node:int"), vl("a"))
	w.Op("add %s %s", hx("zzz:list"), vl("a"))
	w.Op("add %s %s", hx("nocolon"), vl("a"))
	w.Op("add %s %s", hx(":lead"), vl("a"))
	w.Op("add %s %s", hx("vm:gno.land/r/a:lst"), vl("a"))
	w.Op("add %s %s", hx("vm:p:lst"), vl("a"))

	// ---- C. VM route: generated realm programs through the real VMKeeper
	nRealms := 5
	if thorough {
		nRealms = 32
	}
	pool := []string{"gno.land/r/alice/one", "gno.land/r/alice/one/two", "gno.land/r/alice/on", "gno.land/r/a0_b/c1_d"}
	for len(pool) < nRealms {
		pool = append(pool, genRealm(r))
	}
	vmKeyLen := 2
	if thorough {
		vmKeyLen = 4
	}
	w.Case("vm-exhaustive")
	for _, k := range allStrings(keyAlpha, vmKeyLen) {
		nonce++
		w.Op("vmset %s %s %s", hx(pool[0]), hx(k), vs(fmt.Sprintf("n%d", nonce)))
	}
	// the same keys from a realm whose path is a proper prefix / extension of the first
	for _, k := range allStrings(keyAlpha, 2) {
		nonce++
		w.Op("vmset %s %s %s", hx(pool[1]), hx(k), vs(fmt.Sprintf("n%d", nonce)))
		nonce++
		w.Op("vmset %s %s %s", hx(pool[2]), hx(k), vs(fmt.Sprintf("n%d", nonce)))
	}
	w.Case("vm-types")
	for _, v := range []string{vs("x"), vs(""), "i:-5", "i:9223372036854775807", "u:0", "u:18446744073709551615", "b:true", "b:false",
		"y:00ff", "y:e", "l:e", vl("a"), vl("a", "b", "a")} {
		w.Op("vmset %s %s %s", hx(pool[0]), hx("t"), v)
		w.Op("vmset %s %s %s", hx(pool[0]), hx("t:t"), v)
		w.Op("vmset %s %s %s", hx(pool[0]), hx(""), v)
	}
	w.Op("vmset %s %s %s", hx(pool[0]), hx("lst"), vl("a", "b"))
	w.Op("vmadd %s %s %s", hx(pool[0]), hx("lst"), vl("b", "c"))
	w.Op("vmdel %s %s %s", hx(pool[0]), hx("lst"), vl("a"))
	w.Op("vmadd %s %s %s", hx(pool[0]), hx("fresh"), vl("a"))
	w.Op("vmdel %s %s %s", hx(pool[0]), hx("fresh2"), vl("a"))
	w.Op("vmadd %s %s %s", hx(pool[0]), hx("l:st"), vl("a"))
	w.Op("vmadd %s %s %s", hx(pool[0]), hx(""), vl("a"))
	w.Op("vmset %s %s %s", hx(pool[0]), hx("str"), vs("x"))
	w.Op("vmadd %s %s %s", hx(pool[0]), hx("str"), vl("a"))
	w.Case("vm-module-lookalike-keys")
	// keys that LOOK like module parameters, written from an ordinary realm
	for _, k := range []string{"p", "chain_domain", "p.chain_domain", "p/chain_domain", "vm", "bank", "_realmmeta_", "p:chain_domain", ":p:chain_domain", "vm:p:chain_domain"} {
		nonce++
		w.Op("vmset %s %s %s", hx(pool[0]), hx(k), vs(fmt.Sprintf("n%d", nonce)))
	}
	w.Case("vm-undeployable")
	for _, p := range []string{"gno.land/r/a:b", "gno.land/r/a:b/cc", "gno.land/r/alice/one:x", "gno.land/p/alice/lib", "gno.land/r/alice/x", "example.com/r/alice/one",
		"gno.land/r/alice/one_test", "gno.land/r/alice/v2", "p", "", "gno.land/r/alice/a-b", "gno.land/r/Alice/one"} {
		w.Op("vmset %s %s %s", hx(p), hx("k"), vs("v"))
	}
	w.Case("vm-sys")
	w.Op("vmset %s %s %s", hx(pool[0]), hx("k"), vs("own"))
	for _, c := range []string{sysRealm, "gno.land/r/evil/xx", "gno.land/r/sys/params2", "gno.land/r/sys/params/sub", pool[0]} {
		w.Op("vmsys %s %s %s %s %s", hx(c), hx("vm"), hx("p"), hx("min_write_depth_100"), "i:541")
		w.Op("vmsys %s %s %s %s %s", hx(c), hx("vm"), hx("p"), hx("min_write_depth_100"), "i:-1")
		w.Op("vmsys %s %s %s %s %s", hx(c), hx("vm"), hx("p"), hx("min_write_depth_100"), vs("541"))
		w.Op("vmsys %s %s %s %s %s", hx(c), hx("vm"), hx("p"), hx("nonesuch"), "i:1")
		w.Op("vmsys %s %s %s %s %s", hx(c), hx("vm"), hx("p"), hx("chain_domain"), vs("gno.land"))
		w.Op("vmsys %s %s %s %s %s", hx(c), hx("vm"), hx("p"), hx("chain_domain"), vs("nodot"))
		w.Op("vmsys %s %s %s %s %s", hx(c), hx("vm"), hx("p"), hx("storage_price"), vs("100ugnot"))
		w.Op("vmsys %s %s %s %s %s", hx(c), hx("vm"), hx(pool[0]), hx("k"), vs("governance")) // the stated residual
		w.Op("vmsys %s %s %s %s %s", hx(c), hx("vm"), hx("gno.land/r/ghost/zz"), hx("k"), vs("x"))
		w.Op("vmsys %s %s %s %s %s", hx(c), hx("vm"), hx("x"), hx("k"), vs("x"))
		w.Op("vmsys %s %s %s %s %s", hx(c), hx("vm"), hx(""), hx("k"), vs("x"))
		w.Op("vmsys %s %s %s %s %s", hx(c), hx("vm"), hx("x"), hx("a:b"), vs("x"))
		w.Op("vmsys %s %s %s %s %s", hx(c), hx("node"), hx("x"), hx("k"), "b:true")
		w.Op("vmsys %s %s %s %s %s", hx(c), hx("fake"), hx("x"), hx("k"), vs("bad"))
		w.Op("vmsys %s %s %s %s %s", hx(c), hx("zzz"), hx("x"), hx("k"), vs("x"))
		w.Op("vmsys %s %s %s %s %s", hx(c), hx(""), hx("x"), hx("k"), vs("x"))
		w.Op("vmsys %s %s %s %s %s", hx(c), hx("bank"), hx("p"), hx("nonesuch"), vs("x"))
		w.Op("vmsys %s %s %s %s %s", hx(c), hx("vm:p"), hx("x"), hx("k"), vs("x"))
	}
	w.Case("vm-run-proxy")
	for _, k := range []string{"rk", "", "r:k", "p", "p:x"} {
		w.Op("vmrun %s %s %s", hx(runRealm), hx(k), hx("rv"))
		w.Op("vmproxy cross %s %s %s", hx(pool[0]), hx(k), hx("pv"))
		w.Op("vmproxy plain %s %s %s", hx(pool[0]), hx(k), hx("pv"))
	}
	w.Op("vmproxy cross %s %s %s", hx("gno.land/r/a:b"), hx("k"), hx("pv"))
	w.Op("vmproxy other %s %s %s", hx(pool[0]), hx("k"), hx("pv"))

	// ---- D. structured random (mostly valid)
	nCases, nativeCases := 40, 30
	if thorough {
		nCases, nativeCases = 1500, 1200
	}
	for c := 0; c < nCases; c++ {
		w.Case(fmt.Sprintf("vm-rand-%d", c))
		used := []string{}
		for n := 4 + r.Intn(10); n > 0; n-- {
			rl := kit.Pick(r, pool)
			switch x := r.Intn(100); {
			case x < 55:
				op := "vmset"
				v := anyValue(r, &nonce)
				if strings.HasPrefix(v, "l:") && r.Chance(50) {
					op = kit.Pick(r, []string{"vmadd", "vmdel"})
				}
				k := genKey(r)
				if op != "vmset" {
					k = "lst" + kit.Pick(r, []string{"", "1", ":", "2"})
				}
				w.Op("%s %s %s %s", op, hx(rl), hx(k), v)
				used = append(used, rl)
			case x < 70:
				// governance route; realm slots only of realms used in this case, or the never-deployed ghost
				var m, s, nm, v string
				switch r.Intn(5) {
				case 0:
					m, s, nm, v = "vm", "p", kit.Pick(r, depthKeys), vi(kit.Pick(r, depthVals))
				case 1:
					m, s, nm, v = "vm", "p", kit.Pick(r, positiveKeys), vi(kit.Pick(r, positiveVals))
				case 2:
					tgt := "gno.land/r/ghost/g" + genName(r, true)
					if len(used) > 0 && r.Chance(70) {
						tgt = kit.Pick(r, used)
					}
					m, s, nm, v = "vm", tgt, genKey(r), vs(fmt.Sprintf("g%d", nonce))
					nonce++
				case 3:
					m, s, nm, v = kit.Pick(r, moduleNames), kit.Pick(r, []string{"p", "x", "", "p:x"}), genKey(r), kit.Pick(r, []string{vs("x"), "i:1", "b:true"})
					if (m == "bank" || m == "auth" || m == "vm") && s == "p" {
						nm = "nonesuch" + nm // keep clear of the unmodelled value syntaxes
					}
				default:
					m, s, nm, v = "node", genName(r, false), genKey(r), vs("x")
				}
				c := sysRealm
				if r.Chance(30) {
					c = kit.Pick(r, pool)
				}
				w.Op("vmsys %s %s %s %s %s", hx(c), hx(m), hx(s), hx(nm), v)
				used = append(used, c)
			case x < 80:
				w.Op("vmproxy %s %s %s %s", kit.Pick(r, []string{"cross", "plain"}), hx(rl), hx(genKey(r)), hx(fmt.Sprintf("n%d", nonce)))
				nonce++
				used = append(used, rl, proxyPath(rl))
			case x < 85:
				w.Op("vmrun %s %s %s", hx(runRealm), hx(genKey(r)), hx("rv"))
			case x < 93:
				// adapter-level write at an arbitrary full key (what a buggy native could pass)
				w.Op("set %s %s", hx(kit.Pick(r, moduleNames)+":"+kit.Pick(r, []string{rl + ":" + genKey(r), "p:nonesuch", genKey(r)})), vs(fmt.Sprintf("n%d", nonce)))
				nonce++
			default:
				w.Op("pkey %s %s", hx(rl), hx(genKey(r)))
			}
		}
	}

	// ---- E. malformed stream (native route + grammar)
	for c := 0; c < nativeCases; c++ {
		w.Case(fmt.Sprintf("malformed-%d", c))
		base := genUserPath(r)
		for n := 20; n > 0; n-- {
			p := base
			switch r.Intn(4) {
			case 0:
				p = genUserPath(r)
			case 1:
				p = mutatePath(r, base)
			case 2:
				p = mutatePath(r, mutatePath(r, base))
			}
			w.Op("realm %s", hx(p))
			k := genKey(r)
			w.Op("pkey %s %s", hx(p), hx(k))
			if r.Chance(40) {
				// try to land on the same string from the mutated realm with a shifted separator
				if i := strings.LastIndex(p, ":"); i >= 0 {
					w.Op("pkey %s %s", hx(p[:i]), hx(p[i+1:]+":"+k))
					w.Op("pkey %s %s", hx(p[:i]), hx(p[i+1:]+k))
				}
			}
			if r.Chance(30) {
				w.Op("prmkey %s %s %s %s", hx(kit.Pick(r, []string{sysRealm, p})), hx(kit.Pick(r, moduleNames)), hx(kit.Pick(r, []string{p, "p", "", genKey(r)})), hx(genKey(r)))
			}
			if r.Chance(25) {
				w.Op("set %s %s", hx("vm:p:"+kit.Pick(r, pkgPathKeys)), vs(p))
			}
		}
	}
}
