package main

import (
	"fmt"
	"go/ast"
	"go/parser"
	"go/token"
	"os"
	"path/filepath"
	"sort"
	"strings"
)

// Code-shape facts the C13 theorems rely on, read from /repo's SOURCE at run
// time (op `fact <name>`); the model side prints the committed expectation,
// so a changed shape shows up as a correspondence break.
//
//	param-writers   Go packages under gnovm/stdlibs whose non-test code calls
//	                <x>.Params.Set*/UpdateStrings (the natives that can write)
//	exec-params     every `Params:` field of a stdlibs.ExecContext literal in
//	                gno.land/pkg/sdk/vm is NewSDKParams(vm.prmk, ctx)
//	params-handler  tm2 params handler's Process handles no message type
//	gate-order      every X_setSysParam*/X_updateSysParam* native calls
//	                assertSysParamsRealm first and prmkey second

func parseDir(dir string) (*token.FileSet, []*ast.File, []string) {
	fset := token.NewFileSet()
	var files []*ast.File
	var names []string
	ents, err := os.ReadDir(dir)
	if err != nil {
		return fset, nil, nil
	}
	for _, e := range ents {
		n := e.Name()
		if e.IsDir() || !strings.HasSuffix(n, ".go") || strings.HasSuffix(n, "_test.go") {
			continue
		}
		f, err := parser.ParseFile(fset, filepath.Join(dir, n), nil, 0)
		if err != nil {
			continue
		}
		files = append(files, f)
		names = append(names, n)
	}
	return fset, files, names
}

var writerMethods = map[string]bool{"SetString": true, "SetBool": true, "SetInt64": true, "SetUint64": true,
	"SetBytes": true, "SetStrings": true, "UpdateStrings": true}

func isParamsWrite(call *ast.CallExpr) bool {
	sel, ok := call.Fun.(*ast.SelectorExpr)
	if !ok || !writerMethods[sel.Sel.Name] {
		return false
	}
	inner, ok := sel.X.(*ast.SelectorExpr)
	return ok && inner.Sel.Name == "Params"
}

func factParamWriters() string {
	root := filepath.Join(repoDir(), "gnovm", "stdlibs")
	found := map[string]bool{}
	filepath.WalkDir(root, func(p string, d os.DirEntry, err error) error {
		if err != nil || !d.IsDir() {
			return nil
		}
		_, files, _ := parseDir(p)
		for _, f := range files {
			ast.Inspect(f, func(n ast.Node) bool {
				if c, ok := n.(*ast.CallExpr); ok && isParamsWrite(c) {
					rel, _ := filepath.Rel(root, p)
					found[filepath.ToSlash(rel)] = true
				}
				return true
			})
		}
		return nil
	})
	var out []string
	for k := range found {
		out = append(out, k)
	}
	sort.Strings(out)
	return "writers=" + strings.Join(out, ",")
}

func exprString(e ast.Expr) string {
	switch x := e.(type) {
	case *ast.Ident:
		return x.Name
	case *ast.SelectorExpr:
		return exprString(x.X) + "." + x.Sel.Name
	case *ast.CallExpr:
		var a []string
		for _, arg := range x.Args {
			a = append(a, exprString(arg))
		}
		return exprString(x.Fun) + "(" + strings.Join(a, ",") + ")"
	}
	return "?"
}

func factExecParams() string {
	_, files, _ := parseDir(filepath.Join(repoDir(), "gno.land", "pkg", "sdk", "vm"))
	n, other := 0, 0
	for _, f := range files {
		ast.Inspect(f, func(nd ast.Node) bool {
			cl, ok := nd.(*ast.CompositeLit)
			if !ok || exprString(cl.Type) != "stdlibs.ExecContext" {
				return true
			}
			has := false
			for _, el := range cl.Elts {
				kv, ok := el.(*ast.KeyValueExpr)
				if !ok || exprString(kv.Key) != "Params" {
					continue
				}
				has = true
				if exprString(kv.Value) == "NewSDKParams(vm.prmk,ctx)" {
					n++
				} else {
					other++
				}
			}
			if !has {
				other++ // a context without Params would nil-deref, still a changed shape
			}
			return true
		})
	}
	return fmt.Sprintf("sdkparams=%d other=%d", n, other)
}

func factParamsHandler() string {
	_, files, _ := parseDir(filepath.Join(repoDir(), "tm2", "pkg", "sdk", "params"))
	for _, f := range files {
		for _, d := range f.Decls {
			fd, ok := d.(*ast.FuncDecl)
			if !ok || fd.Name.Name != "Process" || fd.Recv == nil {
				continue
			}
			handles := false
			ast.Inspect(fd.Body, func(n ast.Node) bool {
				switch n.(type) {
				case *ast.TypeSwitchStmt, *ast.TypeAssertExpr, *ast.SwitchStmt:
					handles = true
				}
				return true
			})
			if handles {
				return "process=dispatches"
			}
			return "process=rejects-all"
		}
	}
	return "process=missing"
}

func factGateOrder() string {
	_, files, _ := parseDir(filepath.Join(repoDir(), "gnovm", "stdlibs", "sys", "params"))
	n, bad := 0, 0
	for _, f := range files {
		for _, d := range f.Decls {
			fd, ok := d.(*ast.FuncDecl)
			if !ok || fd.Body == nil {
				continue
			}
			writes := false
			ast.Inspect(fd.Body, func(nd ast.Node) bool {
				if c, ok := nd.(*ast.CallExpr); ok && isParamsWrite(c) {
					writes = true
				}
				return true
			})
			if !writes {
				continue
			}
			n++
			ok1 := false
			if len(fd.Body.List) >= 2 {
				if es, ok := fd.Body.List[0].(*ast.ExprStmt); ok {
					if c, ok := es.X.(*ast.CallExpr); ok && exprString(c.Fun) == "assertSysParamsRealm" {
						if as, ok := fd.Body.List[1].(*ast.AssignStmt); ok && len(as.Rhs) == 1 {
							if c2, ok := as.Rhs[0].(*ast.CallExpr); ok && exprString(c2.Fun) == "prmkey" {
								ok1 = true
							}
						}
					}
				}
			}
			if !ok1 {
				bad++
			}
		}
	}
	return fmt.Sprintf("gated=%d ungated=%d", n-bad, bad)
}

func opFact(name string) (string, string) {
	switch name {
	case "param-writers":
		return factParamWriters(), "-"
	case "exec-params":
		return factExecParams(), "-"
	case "params-handler":
		return factParamsHandler(), "-"
	case "gate-order":
		return factGateOrder(), "-"
	}
	return "err:badop", "-"
}
