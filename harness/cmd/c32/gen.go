package main

// Generators for C32.  Everything random comes from the one *kit.Rand.
//
//   1. boundary table : a fixed list of scenarios (genesis block, first block
//      after genesis, later heights, hard-fork InitialHeight, 1–7 validators,
//      equal / skewed / near-cap powers, changed validator sets), each with the
//      valid block built by the repo's own State.MakeBlock and then EVERY
//      single-field mutation of the header, the data, the commit and each
//      precommit field;
//   2. quorum table   : every signer subset for small sets (tally at / around 2/3);
//   3. chain stream   : states produced by the real MakeGenesisState +
//      BlockExecutor.ApplyBlock (validator updates through EndBlock), valid and
//      mutated candidates at every height;
//   4. structured random : random scenarios with 0–3 random mutations;
//   5. malformed stream  : byte-level damage to the amino bytes of valid and
//      mutated blocks (decodable ones become `vb` lines, the others `und`).

import (
	"crypto/sha256"
	"encoding/hex"
	"fmt"
	"math"
	"sort"
	"strings"
	"time"

	"github.com/gnolang/gno/tm2/pkg/amino"
	abci "github.com/gnolang/gno/tm2/pkg/bft/abci/types"
	"github.com/gnolang/gno/tm2/pkg/bft/appconn"
	"github.com/gnolang/gno/tm2/pkg/bft/mempool/mock"
	"github.com/gnolang/gno/tm2/pkg/bft/proxy"
	sm "github.com/gnolang/gno/tm2/pkg/bft/state"
	"github.com/gnolang/gno/tm2/pkg/bft/types"
	typesver "github.com/gnolang/gno/tm2/pkg/bft/types/version"
	"github.com/gnolang/gno/tm2/pkg/crypto"
	"github.com/gnolang/gno/tm2/pkg/db/memdb"
	"github.com/gnolang/gno/tm2/pkg/log"
	"gnoverif/kit"
)

const maxTotalPower = int64(math.MaxInt64) / 8

var t0 = time.Unix(1700000000, 0).UTC()

func h32(s string) []byte {
	h := sha256.Sum256([]byte(s))
	return h[:]
}

func mkBlockID(tag string, total int) types.BlockID {
	return types.BlockID{Hash: h32("c32-block-" + tag), PartsHeader: types.PartSetHeader{Total: total, Hash: h32("c32-parts-" + tag)}}
}

// ---------------------------------------------------------------- scenarios

type scenario struct {
	name    string
	sp      stateSpec
	st      sm.State
	genesis bool
	height  int64
	txs     []types.Tx
	round   int
	deltas  []time.Duration // vote timestamps relative to lastBlockTime, per last validator
	holes   []bool          // nil precommit slots
	far     []int           // slots whose timestamp is moved 2^64 ns ahead (same UnixNano())
	prop    int             // index into vals of the proposer
	base    []byte          // amino bytes of the valid block
}

func signPrecommit(chainID string, k int, pc *types.CommitSig) {
	v := &types.Vote{Type: pc.Type, Height: pc.Height, Round: pc.Round, BlockID: pc.BlockID, Timestamp: pc.Timestamp}
	sig, err := pool[k].priv.Sign(v.SignBytes(chainID))
	if err != nil {
		panic(err)
	}
	pc.Signature = sig
}

// validCommit builds the commit of the previous block: one signed precommit per
// last validator (nil where sc.holes says so).
func (sc *scenario) validCommit() *types.Commit {
	if sc.genesis {
		return types.NewCommit(types.BlockID{}, nil)
	}
	pcs := make([]*types.CommitSig, len(sc.sp.lastVals))
	for i, v := range sc.sp.lastVals {
		if i < len(sc.holes) && sc.holes[i] {
			continue
		}
		d := time.Duration(i+1) * time.Second
		if i < len(sc.deltas) {
			d = sc.deltas[i]
		}
		ts := sc.sp.lastBlockTime.Add(d)
		for _, f := range sc.far {
			if f == i {
				ts = add2p64(ts)
			}
		}
		pc := &types.CommitSig{Type: types.PrecommitType, Height: sc.height - 1, Round: sc.round,
			BlockID: sc.sp.lastBlockID, Timestamp: ts,
			ValidatorAddress: pool[v.k].addr, ValidatorIndex: i}
		signPrecommit(sc.sp.chainID, v.k, pc)
		pcs[i] = pc
	}
	return types.NewCommit(sc.sp.lastBlockID, pcs)
}

// finish builds the real state and the valid block with the repo's own MakeBlock.
func (sc *scenario) finish() bool {
	st, ok := buildState(&sc.sp)
	if !ok {
		return false
	}
	sc.st = st
	sc.height = sc.sp.lastHeight + 1
	sc.genesis = sc.height == sc.sp.initialHeight
	if len(sc.sp.vals) == 0 {
		return false
	}
	ok = true
	func() {
		defer func() {
			if recover() != nil {
				ok = false
			}
		}()
		prop := pool[sc.sp.vals[sc.prop%len(sc.sp.vals)].k].addr
		blk, _ := st.MakeBlock(sc.height, sc.txs, sc.validCommit(), prop)
		sc.base = amino.MustMarshal(blk)
	}()
	return ok
}

func (sc *scenario) block() *types.Block {
	b, err := decodeBlock(sc.base)
	if err != nil {
		panic(err)
	}
	return b
}

func vps(ks []int, powers ...int64) []vp {
	out := make([]vp, len(ks))
	for i, k := range ks {
		out[i] = vp{k, powers[i%len(powers)]}
	}
	return out
}

func mkTxs(n int, tag byte) []types.Tx {
	var txs []types.Tx
	for i := 0; i < n; i++ {
		txs = append(txs, types.Tx([]byte{tag, byte(i), 0x55}))
	}
	return txs
}

func baseSpec() stateSpec {
	return stateSpec{
		blockVersion: typesver.BlockVersion, appVersion: "1.2.3", chainID: "c32-chain",
		initialHeight: 1, lastHeight: 0, lastBlockTime: t0,
	}
}

// later: a spec "after" some block at height h was applied.
func laterSpec(h int64, vals, last, next []vp) stateSpec {
	sp := baseSpec()
	sp.lastHeight = h
	sp.lastTotalTx = h * 3
	sp.lastBlockID = mkBlockID(fmt.Sprint("h", h), int(h%7)+1)
	sp.lastBlockTime = t0.Add(time.Duration(h) * 5 * time.Second)
	sp.vals, sp.lastVals, sp.nextVals = vals, last, next
	sp.appHash = h32(fmt.Sprint("app", h))
	sp.lastResultsHash = h32(fmt.Sprint("res", h))
	return sp
}

func tableScenarios() []*scenario {
	var out []*scenario
	add := func(name string, sp stateSpec, f func(sc *scenario)) {
		sc := &scenario{name: name, sp: sp, txs: mkTxs(2, 1)}
		if f != nil {
			f(sc)
		}
		if !sc.finish() {
			panic("table scenario does not build: " + name)
		}
		out = append(out, sc)
	}
	four := []int{1, 3, 4, 8}
	// genesis block of a standard chain
	g := baseSpec()
	g.vals, g.nextVals = vps(four, 10), vps(four, 10)
	add("genesis", g, nil)
	// genesis block of a hard-fork chain (InitialHeight 7)
	g7 := baseSpec()
	g7.initialHeight, g7.lastHeight = 7, 6
	g7.vals, g7.nextVals = vps([]int{2, 5}, 3, 4), vps([]int{2, 5}, 3, 4)
	g7.appHash = h32("fork-app")
	add("genesis-fork", g7, func(sc *scenario) { sc.txs = nil })
	// first block after genesis, 4 equal validators
	add("h2-equal4", laterSpec(1, vps(four, 10), vps(four, 10), vps(four, 10)), nil)
	// one validator
	add("h5-single", laterSpec(4, vps([]int{6}, 1), vps([]int{6}, 1), vps([]int{6}, 1)), func(sc *scenario) { sc.txs = nil })
	// skewed powers, changed sets, round 3, a nil hole
	sk := laterSpec(9, vps([]int{0, 2, 5, 7, 9}, 1, 50, 7, 20, 3), vps([]int{0, 2, 5, 7}, 5, 1, 30, 9), vps([]int{2, 5, 7, 9}, 4, 4, 4, 4))
	sk.cp = 1
	add("h10-skewed", sk, func(sc *scenario) {
		sc.round = 3
		sc.holes = []bool{false, true, false, false}
		sc.deltas = []time.Duration{7 * time.Second, 0, 2 * time.Second, 9 * time.Second}
		sc.prop = 3
		sc.txs = mkTxs(5, 9)
	})
	// seven validators, hard-fork chain, later height
	sev := laterSpec(20, vps([]int{0, 1, 2, 3, 4, 5, 6}, 10, 11, 12), vps([]int{0, 1, 2, 3, 4, 5, 6}, 10, 11, 12), vps([]int{0, 1, 2, 3, 4, 5, 6}, 10, 11, 12))
	sev.initialHeight = 15
	sev.cp = 2
	add("h21-seven", sev, func(sc *scenario) { sc.round = 1; sc.prop = 5 })
	// total power at the cap
	cap3 := laterSpec(3, vps([]int{1, 2, 3}, maxTotalPower-2, 1, 1), vps([]int{1, 2, 3}, maxTotalPower-2, 1, 1), vps([]int{1, 2, 3}, 1))
	add("h4-cap", cap3, nil)
	// empty app hash / results hash, long chain id
	e := laterSpec(2, vps([]int{4, 7, 9}, 2, 2, 3), vps([]int{4, 7, 9}, 2, 2, 3), vps([]int{4, 7, 9}, 2, 2, 3))
	e.appHash, e.lastResultsHash = nil, nil
	e.chainID = "c32-chain-with-a-name-of-exactly-fifty-characters."
	e.appVersion = ""
	add("h3-empty-hashes", e, func(sc *scenario) { sc.txs = mkTxs(1, 3) })
	return out
}

// ---------------------------------------------------------------- mutations

type mutation struct {
	name string
	f    func(sc *scenario, b *types.Block, r *kit.Rand)
}

func flip(b []byte) []byte {
	if len(b) == 0 {
		return h32("flip-empty")
	}
	c := append([]byte(nil), b...)
	c[len(c)/2] ^= 0x20
	return c
}

// recommit replaces the commit object (fresh memo fields) and, unless stale,
// refreshes Header.LastCommitHash.
func recommit(b *types.Block, stale bool) {
	if b.LastCommit == nil {
		return
	}
	b.LastCommit = types.NewCommit(b.LastCommit.BlockID, b.LastCommit.Precommits)
	if !stale {
		b.LastCommitHash = b.LastCommit.Hash()
		b.LastCommit = types.NewCommit(b.LastCommit.BlockID, b.LastCommit.Precommits)
	}
}

// retime sets Header.Time to what the real MedianTime computes (if it does not panic).
func retime(sc *scenario, b *types.Block) {
	defer func() { recover() }()
	if b.LastCommit == nil || sc.genesis {
		return
	}
	c := types.NewCommit(b.LastCommit.BlockID, b.LastCommit.Precommits)
	b.Time = sm.MedianTime(c, sc.st.LastValidators)
}

// fieldMedianTime is MedianTime as it was before repo commit cbe9f9a39b (validator
// looked up by the vote's ValidatorIndex FIELD); ok=false where that code panicked.
// Used only to build the regression witnesses: a block whose time is this value.
func fieldMedianTime(c *types.Commit, vals *types.ValidatorSet) (res time.Time, ok bool) {
	type wt struct {
		t time.Time
		w int64
	}
	var ws []wt
	total := int64(0)
	for _, pc := range c.Precommits {
		if pc == nil {
			continue
		}
		if pc.ValidatorIndex < 0 || pc.ValidatorIndex >= len(vals.Validators) {
			return time.Time{}, false
		}
		w := vals.Validators[pc.ValidatorIndex].VotingPower
		total += w
		ws = append(ws, wt{pc.Timestamp, w})
	}
	sort.SliceStable(ws, func(i, j int) bool { return ws[i].t.UnixNano() < ws[j].t.UnixNano() })
	median := total / 2
	for _, x := range ws {
		if median <= x.w {
			return x.t, true
		}
		median -= x.w
	}
	return time.Time{}, true
}

// add2p64 returns t + 2^64 ns (about 584.5 years): same UnixNano(), another instant.
func add2p64(t time.Time) time.Time {
	const half = time.Duration(math.MaxInt64) // 2^63-1 ns
	return t.Add(half).Add(half).Add(2)
}

// wrapMedianTime is MedianTime as it was before repo commit 6794836d2f (weights by slot,
// order by the wrapping UnixNano()).  Used only to build regression witnesses.
func wrapMedianTime(c *types.Commit, vals *types.ValidatorSet) time.Time {
	type wt struct {
		t time.Time
		w int64
	}
	var ws []wt
	total := int64(0)
	for i, pc := range c.Precommits {
		if pc == nil || i >= len(vals.Validators) {
			continue
		}
		w := vals.Validators[i].VotingPower
		total += w
		ws = append(ws, wt{pc.Timestamp, w})
	}
	sort.SliceStable(ws, func(i, j int) bool { return ws[i].t.UnixNano() < ws[j].t.UnixNano() })
	median := total / 2
	for _, x := range ws {
		if median <= x.w {
			return x.t
		}
		median -= x.w
	}
	return time.Time{}
}

func firstPC(b *types.Block, r *kit.Rand) (int, *types.CommitSig) {
	if b.LastCommit == nil {
		return -1, nil
	}
	var idx []int
	for i, pc := range b.LastCommit.Precommits {
		if pc != nil {
			idx = append(idx, i)
		}
	}
	if len(idx) == 0 {
		return -1, nil
	}
	i := idx[r.Intn(len(idx))]
	return i, b.LastCommit.Precommits[i]
}

func (sc *scenario) keyOfSlot(i int) int {
	if i >= 0 && i < len(sc.sp.lastVals) {
		return sc.sp.lastVals[i].k
	}
	return 0
}

// pcMut builds the three variants of a precommit-field mutation: unsigned (the old
// signature stays → it no longer verifies unless the field is outside the sign
// bytes), re-signed by the slot's validator, and re-signed + block time recomputed.
func pcMuts(name string, f func(sc *scenario, pc *types.CommitSig, i int, n int, r *kit.Rand)) []mutation {
	mk := func(suffix string, resign, rt, stale bool) mutation {
		return mutation{"pc-" + name + suffix, func(sc *scenario, b *types.Block, r *kit.Rand) {
			i, pc := firstPC(b, r)
			if pc == nil {
				return
			}
			f(sc, pc, i, len(b.LastCommit.Precommits), r)
			if resign {
				signPrecommit(sc.sp.chainID, sc.keyOfSlot(i), pc)
			}
			recommit(b, stale)
			if rt {
				retime(sc, b)
			}
		}}
	}
	out := []mutation{mk("", false, false, false), mk("+sign", true, false, false), mk("+sign+time", true, true, false), mk("+stale", false, false, true)}
	if strings.HasPrefix(name, "ts") {
		// re-signed, and the block time the pre-6794836d2f WeightedMedian (UnixNano order) would have demanded
		out = append(out, mutation{"pc-" + name + "+sign+wraptime", func(sc *scenario, b *types.Block, r *kit.Rand) {
			i, pc := firstPC(b, r)
			if pc == nil {
				return
			}
			f(sc, pc, i, len(b.LastCommit.Precommits), r)
			signPrecommit(sc.sp.chainID, sc.keyOfSlot(i), pc)
			recommit(b, false)
			if !sc.genesis {
				b.Time = wrapMedianTime(b.LastCommit, sc.st.LastValidators)
			}
		}})
	}
	if strings.HasPrefix(name, "vidx-") {
		// the block time the pre-fix MedianTime would have demanded
		out = append(out, mutation{"pc-" + name + "+fieldtime", func(sc *scenario, b *types.Block, r *kit.Rand) {
			i, pc := firstPC(b, r)
			if pc == nil {
				return
			}
			f(sc, pc, i, len(b.LastCommit.Precommits), r)
			recommit(b, false)
			if t, ok := fieldMedianTime(b.LastCommit, sc.st.LastValidators); ok {
				b.Time = t
			}
		}})
	}
	return out
}

func allMutations() []mutation {
	ms := []mutation{
		{"none", func(sc *scenario, b *types.Block, r *kit.Rand) {}},
		// ---- header
		{"version-append", func(sc *scenario, b *types.Block, r *kit.Rand) { b.Version += "-wrong" }},
		{"version-empty", func(sc *scenario, b *types.Block, r *kit.Rand) { b.Version = "" }},
		{"appversion-append", func(sc *scenario, b *types.Block, r *kit.Rand) { b.AppVersion += "x" }},
		{"appversion-other", func(sc *scenario, b *types.Block, r *kit.Rand) { b.AppVersion = "9.9.9" }},
		{"chainid-other", func(sc *scenario, b *types.Block, r *kit.Rand) { b.ChainID = "not-the-real-one" }},
		{"chainid-empty", func(sc *scenario, b *types.Block, r *kit.Rand) { b.ChainID = "" }},
		{"chainid-case", func(sc *scenario, b *types.Block, r *kit.Rand) { b.ChainID = "C" + b.ChainID[1:] }},
		{"chainid-51", func(sc *scenario, b *types.Block, r *kit.Rand) {
			b.ChainID = "123456789012345678901234567890123456789012345678901"
		}},
		{"chainid-50", func(sc *scenario, b *types.Block, r *kit.Rand) {
			b.ChainID = "12345678901234567890123456789012345678901234567890"
		}},
		{"height+1", func(sc *scenario, b *types.Block, r *kit.Rand) { b.Height++ }},
		{"height-1", func(sc *scenario, b *types.Block, r *kit.Rand) { b.Height-- }},
		{"height+10", func(sc *scenario, b *types.Block, r *kit.Rand) { b.Height += 10 }},
		{"height-0", func(sc *scenario, b *types.Block, r *kit.Rand) { b.Height = 0 }},
		{"height-neg", func(sc *scenario, b *types.Block, r *kit.Rand) { b.Height = -b.Height }},
		{"height-max", func(sc *scenario, b *types.Block, r *kit.Rand) { b.Height = math.MaxInt64 }},
		{"height-min", func(sc *scenario, b *types.Block, r *kit.Rand) { b.Height = math.MinInt64 }},
		{"height-initial", func(sc *scenario, b *types.Block, r *kit.Rand) { b.Height = sc.sp.initialHeight }},
		{"height-initial-1", func(sc *scenario, b *types.Block, r *kit.Rand) { b.Height = sc.sp.initialHeight - 1 }},
		{"time+1ns", func(sc *scenario, b *types.Block, r *kit.Rand) { b.Time = b.Time.Add(1) }},
		{"time-1ns", func(sc *scenario, b *types.Block, r *kit.Rand) { b.Time = b.Time.Add(-1) }},
		{"time-1s", func(sc *scenario, b *types.Block, r *kit.Rand) { b.Time = b.Time.Add(-time.Second) }},
		{"time-last", func(sc *scenario, b *types.Block, r *kit.Rand) { b.Time = sc.sp.lastBlockTime }},
		{"time-last+1ns", func(sc *scenario, b *types.Block, r *kit.Rand) { b.Time = sc.sp.lastBlockTime.Add(1) }},
		{"time-before-last", func(sc *scenario, b *types.Block, r *kit.Rand) { b.Time = sc.sp.lastBlockTime.Add(-time.Hour) }},
		{"time-zero", func(sc *scenario, b *types.Block, r *kit.Rand) { b.Time = time.Time{} }},
		{"time-far", func(sc *scenario, b *types.Block, r *kit.Rand) { b.Time = b.Time.Add(24 * 365 * time.Hour) }},
		{"numtxs+1", func(sc *scenario, b *types.Block, r *kit.Rand) { b.NumTxs++ }},
		{"numtxs-1", func(sc *scenario, b *types.Block, r *kit.Rand) { b.NumTxs-- }},
		{"numtxs-neg", func(sc *scenario, b *types.Block, r *kit.Rand) { b.NumTxs = -1 }},
		{"totaltxs+1", func(sc *scenario, b *types.Block, r *kit.Rand) { b.TotalTxs++ }},
		{"totaltxs-1", func(sc *scenario, b *types.Block, r *kit.Rand) { b.TotalTxs-- }},
		{"totaltxs-neg", func(sc *scenario, b *types.Block, r *kit.Rand) { b.TotalTxs = -1 }},
		{"totaltxs-0", func(sc *scenario, b *types.Block, r *kit.Rand) { b.TotalTxs = 0 }},
		{"totaltxs-max", func(sc *scenario, b *types.Block, r *kit.Rand) { b.TotalTxs = math.MaxInt64 }},
		{"lbid-zero", func(sc *scenario, b *types.Block, r *kit.Rand) { b.LastBlockID = types.BlockID{} }},
		{"lbid-other", func(sc *scenario, b *types.Block, r *kit.Rand) { b.LastBlockID = mkBlockID("other", 3) }},
		{"lbid-total+1", func(sc *scenario, b *types.Block, r *kit.Rand) { b.LastBlockID.PartsHeader.Total++ }},
		{"lbid-total-neg", func(sc *scenario, b *types.Block, r *kit.Rand) { b.LastBlockID.PartsHeader.Total = -1 }},
		{"lbid-total-1601", func(sc *scenario, b *types.Block, r *kit.Rand) { b.LastBlockID.PartsHeader.Total = 1601 }},
		{"lbid-total-1602", func(sc *scenario, b *types.Block, r *kit.Rand) { b.LastBlockID.PartsHeader.Total = 1602 }},
		{"lbid-hash-flip", func(sc *scenario, b *types.Block, r *kit.Rand) { b.LastBlockID.Hash = flip(b.LastBlockID.Hash) }},
		{"lbid-hash-31", func(sc *scenario, b *types.Block, r *kit.Rand) { b.LastBlockID.Hash = h32("x")[:31] }},
		{"lbid-hash-33", func(sc *scenario, b *types.Block, r *kit.Rand) { b.LastBlockID.Hash = append(h32("x"), 1) }},
		{"lbid-hash-empty", func(sc *scenario, b *types.Block, r *kit.Rand) { b.LastBlockID.Hash = nil }},
		{"lbid-phash-flip", func(sc *scenario, b *types.Block, r *kit.Rand) {
			b.LastBlockID.PartsHeader.Hash = flip(b.LastBlockID.PartsHeader.Hash)
		}},
		{"lbid-phash-1", func(sc *scenario, b *types.Block, r *kit.Rand) { b.LastBlockID.PartsHeader.Hash = []byte{7} }},
		{"lbid-phash-empty", func(sc *scenario, b *types.Block, r *kit.Rand) { b.LastBlockID.PartsHeader.Hash = nil }},
		{"proposer-outsider", func(sc *scenario, b *types.Block, r *kit.Rand) {
			in := map[int]bool{}
			for _, v := range sc.sp.vals {
				in[v.k] = true
			}
			for k := range pool {
				if !in[k] {
					b.ProposerAddress = pool[k].addr
					return
				}
			}
		}},
		{"proposer-zero", func(sc *scenario, b *types.Block, r *kit.Rand) { b.ProposerAddress = crypto.Address{} }},
		{"proposer-ff", func(sc *scenario, b *types.Block, r *kit.Rand) {
			for i := range b.ProposerAddress {
				b.ProposerAddress[i] = 0xff
			}
		}},
		{"proposer-off-by-one", func(sc *scenario, b *types.Block, r *kit.Rand) { b.ProposerAddress[19] ^= 1 }},
		{"proposer-other-validator", func(sc *scenario, b *types.Block, r *kit.Rand) {
			b.ProposerAddress = pool[sc.sp.vals[r.Intn(len(sc.sp.vals))].k].addr
		}},
		{"proposer-last-only", func(sc *scenario, b *types.Block, r *kit.Rand) {
			in := map[int]bool{}
			for _, v := range sc.sp.vals {
				in[v.k] = true
			}
			for _, v := range sc.sp.lastVals {
				if !in[v.k] {
					b.ProposerAddress = pool[v.k].addr
				}
			}
		}},
		// ---- data
		{"data-extra-tx", func(sc *scenario, b *types.Block, r *kit.Rand) { b.Data.Txs = append(b.Data.Txs, types.Tx("extra")) }},
		{"data-extra-tx+counts", func(sc *scenario, b *types.Block, r *kit.Rand) {
			b.Data.Txs = append(b.Data.Txs, types.Tx("extra"))
			b.NumTxs++
			b.TotalTxs++
		}},
		{"data-extra-tx+counts+hash", func(sc *scenario, b *types.Block, r *kit.Rand) {
			b.Data.Txs = append(b.Data.Txs, types.Tx("extra"))
			b.NumTxs++
			b.TotalTxs++
			b.DataHash = b.Data.Txs.Hash()
		}},
		{"data-drop-txs", func(sc *scenario, b *types.Block, r *kit.Rand) { b.Data.Txs = nil }},
		{"data-tx-flip", func(sc *scenario, b *types.Block, r *kit.Rand) {
			if len(b.Data.Txs) > 0 {
				b.Data.Txs[0] = types.Tx(flip(b.Data.Txs[0]))
			}
		}},
		// ---- commit as a whole
		{"commit-nil", func(sc *scenario, b *types.Block, r *kit.Rand) { b.LastCommit = nil }},
		{"commit-nil+hash", func(sc *scenario, b *types.Block, r *kit.Rand) { b.LastCommit = nil; b.LastCommitHash = nil }},
		{"commit-empty", func(sc *scenario, b *types.Block, r *kit.Rand) {
			b.LastCommit = types.NewCommit(types.BlockID{}, nil)
			recommit(b, false)
		}},
		{"commit-no-precommits", func(sc *scenario, b *types.Block, r *kit.Rand) {
			b.LastCommit = types.NewCommit(b.LastCommit.BlockID, nil)
			recommit(b, false)
		}},
		{"commit-bid-zero", func(sc *scenario, b *types.Block, r *kit.Rand) { b.LastCommit.BlockID = types.BlockID{}; recommit(b, false) }},
		{"commit-bid-other", func(sc *scenario, b *types.Block, r *kit.Rand) {
			b.LastCommit.BlockID = mkBlockID("other", 3)
			recommit(b, false)
		}},
		{"commit-bid-total+1", func(sc *scenario, b *types.Block, r *kit.Rand) {
			b.LastCommit.BlockID.PartsHeader.Total++
			recommit(b, false)
		}},
		{"commit-drop-slot", func(sc *scenario, b *types.Block, r *kit.Rand) {
			if n := len(b.LastCommit.Precommits); n > 0 {
				b.LastCommit.Precommits = b.LastCommit.Precommits[:n-1]
			}
			recommit(b, false)
			retime(sc, b)
		}},
		{"commit-extra-nil-slot", func(sc *scenario, b *types.Block, r *kit.Rand) {
			b.LastCommit.Precommits = append(b.LastCommit.Precommits, nil)
			recommit(b, false)
		}},
		{"commit-extra-dup-slot", func(sc *scenario, b *types.Block, r *kit.Rand) {
			if n := len(b.LastCommit.Precommits); n > 0 && b.LastCommit.Precommits[0] != nil {
				d := *b.LastCommit.Precommits[0]
				b.LastCommit.Precommits = append(b.LastCommit.Precommits, &d)
			}
			recommit(b, false)
		}},
		{"commit-genesis-gets-precommit", func(sc *scenario, b *types.Block, r *kit.Rand) {
			bid := mkBlockID("g", 1)
			pc := &types.CommitSig{Type: types.PrecommitType, Height: sc.height - 1, Round: 0, BlockID: bid,
				Timestamp: sc.sp.lastBlockTime.Add(time.Second), ValidatorAddress: pool[sc.sp.vals[0].k].addr}
			signPrecommit(sc.sp.chainID, sc.sp.vals[0].k, pc)
			b.LastCommit = types.NewCommit(bid, []*types.CommitSig{pc})
			recommit(b, false)
		}},
		{"commit-swap-slots", func(sc *scenario, b *types.Block, r *kit.Rand) {
			p := b.LastCommit.Precommits
			if len(p) >= 2 {
				p[0], p[1] = p[1], p[0]
			}
			recommit(b, false)
		}},
		{"commit-hash-flip", func(sc *scenario, b *types.Block, r *kit.Rand) { b.LastCommitHash = flip(b.LastCommitHash) }},
		{"commit-hash-31", func(sc *scenario, b *types.Block, r *kit.Rand) { b.LastCommitHash = h32("q")[:31] }},
		{"commit-hash-empty", func(sc *scenario, b *types.Block, r *kit.Rand) { b.LastCommitHash = nil }},
		{"commit-all-nil", func(sc *scenario, b *types.Block, r *kit.Rand) {
			for i := range b.LastCommit.Precommits {
				b.LastCommit.Precommits[i] = nil
			}
			recommit(b, false)
		}},
		{"commit-hole", func(sc *scenario, b *types.Block, r *kit.Rand) {
			if i, pc := firstPC(b, r); pc != nil {
				b.LastCommit.Precommits[i] = nil
			}
			recommit(b, false)
		}},
		{"commit-hole+time", func(sc *scenario, b *types.Block, r *kit.Rand) {
			if i, pc := firstPC(b, r); pc != nil {
				b.LastCommit.Precommits[i] = nil
			}
			recommit(b, false)
			retime(sc, b)
		}},
		{"commit-2holes+time", func(sc *scenario, b *types.Block, r *kit.Rand) {
			for k := 0; k < 2; k++ {
				if i, pc := firstPC(b, r); pc != nil {
					b.LastCommit.Precommits[i] = nil
				}
			}
			recommit(b, false)
			retime(sc, b)
		}},
	}
	// ---- the five hash fields of the header
	type hf struct {
		name string
		get  func(b *types.Block) *[]byte
	}
	for _, f := range []hf{
		{"datahash", func(b *types.Block) *[]byte { return &b.DataHash }},
		{"validatorshash", func(b *types.Block) *[]byte { return &b.ValidatorsHash }},
		{"nextvalidatorshash", func(b *types.Block) *[]byte { return &b.NextValidatorsHash }},
		{"consensushash", func(b *types.Block) *[]byte { return &b.ConsensusHash }},
		{"apphash", func(b *types.Block) *[]byte { return &b.AppHash }},
		{"lastresultshash", func(b *types.Block) *[]byte { return &b.LastResultsHash }},
	} {
		f := f
		ms = append(ms,
			mutation{f.name + "-flip", func(sc *scenario, b *types.Block, r *kit.Rand) { *f.get(b) = flip(*f.get(b)) }},
			mutation{f.name + "-other", func(sc *scenario, b *types.Block, r *kit.Rand) { *f.get(b) = h32("wrong " + f.name) }},
			mutation{f.name + "-31", func(sc *scenario, b *types.Block, r *kit.Rand) { *f.get(b) = h32("s")[:31] }},
			mutation{f.name + "-33", func(sc *scenario, b *types.Block, r *kit.Rand) { *f.get(b) = append(h32("s"), 0) }},
			mutation{f.name + "-1", func(sc *scenario, b *types.Block, r *kit.Rand) { *f.get(b) = []byte{0} }},
			mutation{f.name + "-empty", func(sc *scenario, b *types.Block, r *kit.Rand) { *f.get(b) = nil }},
		)
	}
	ms = append(ms, mutation{"validatorshash-swap-next", func(sc *scenario, b *types.Block, r *kit.Rand) {
		b.ValidatorsHash, b.NextValidatorsHash = b.NextValidatorsHash, b.ValidatorsHash
	}})
	// ---- fields of one precommit
	type pf struct {
		name string
		f    func(sc *scenario, pc *types.CommitSig, i, n int, r *kit.Rand)
	}
	for _, p := range []pf{
		{"type-prevote", func(sc *scenario, pc *types.CommitSig, i, n int, r *kit.Rand) { pc.Type = types.PrevoteType }},
		{"type-0", func(sc *scenario, pc *types.CommitSig, i, n int, r *kit.Rand) { pc.Type = 0 }},
		{"type-32", func(sc *scenario, pc *types.CommitSig, i, n int, r *kit.Rand) { pc.Type = types.ProposalType }},
		{"height+1", func(sc *scenario, pc *types.CommitSig, i, n int, r *kit.Rand) { pc.Height++ }},
		{"height-1", func(sc *scenario, pc *types.CommitSig, i, n int, r *kit.Rand) { pc.Height-- }},
		{"height-0", func(sc *scenario, pc *types.CommitSig, i, n int, r *kit.Rand) { pc.Height = 0 }},
		{"round+1", func(sc *scenario, pc *types.CommitSig, i, n int, r *kit.Rand) { pc.Round++ }},
		{"round-neg", func(sc *scenario, pc *types.CommitSig, i, n int, r *kit.Rand) { pc.Round = -1 }},
		{"bid-zero", func(sc *scenario, pc *types.CommitSig, i, n int, r *kit.Rand) { pc.BlockID = types.BlockID{} }},
		{"bid-other", func(sc *scenario, pc *types.CommitSig, i, n int, r *kit.Rand) { pc.BlockID = mkBlockID("stray", 2) }},
		{"bid-total+1", func(sc *scenario, pc *types.CommitSig, i, n int, r *kit.Rand) { pc.BlockID.PartsHeader.Total++ }},
		{"ts+1ns", func(sc *scenario, pc *types.CommitSig, i, n int, r *kit.Rand) { pc.Timestamp = pc.Timestamp.Add(1) }},
		{"ts+1h", func(sc *scenario, pc *types.CommitSig, i, n int, r *kit.Rand) { pc.Timestamp = pc.Timestamp.Add(time.Hour) }},
		{"ts-1h", func(sc *scenario, pc *types.CommitSig, i, n int, r *kit.Rand) { pc.Timestamp = pc.Timestamp.Add(-time.Hour) }},
		{"ts-zero", func(sc *scenario, pc *types.CommitSig, i, n int, r *kit.Rand) { pc.Timestamp = time.Time{} }},
		{"ts+2p64", func(sc *scenario, pc *types.CommitSig, i, n int, r *kit.Rand) { pc.Timestamp = add2p64(pc.Timestamp) }},
		{"ts+2p64-early", func(sc *scenario, pc *types.CommitSig, i, n int, r *kit.Rand) {
			pc.Timestamp = add2p64(sc.sp.lastBlockTime.Add(time.Duration(1+r.Intn(3000)) * time.Millisecond))
		}},
		{"ts-year9999", func(sc *scenario, pc *types.CommitSig, i, n int, r *kit.Rand) {
			pc.Timestamp = time.Date(9999, 12, 31, 23, 59, 59, 999999999, time.UTC)
		}},
		{"ts-year1", func(sc *scenario, pc *types.CommitSig, i, n int, r *kit.Rand) {
			pc.Timestamp = time.Date(1, 1, 1, 0, 0, 0, 1, time.UTC)
		}},
		{"vidx-other", func(sc *scenario, pc *types.CommitSig, i, n int, r *kit.Rand) { pc.ValidatorIndex = (i + 1 + r.Intn(max(1, n-1))) % max(1, n) }},
		{"vidx-heaviest", func(sc *scenario, pc *types.CommitSig, i, n int, r *kit.Rand) {
			best := 0
			for j, v := range sc.sp.lastVals {
				if v.power > sc.sp.lastVals[best].power {
					best = j
				}
			}
			pc.ValidatorIndex = best
		}},
		{"vidx-lightest", func(sc *scenario, pc *types.CommitSig, i, n int, r *kit.Rand) {
			best := 0
			for j, v := range sc.sp.lastVals {
				if v.power < sc.sp.lastVals[best].power {
					best = j
				}
			}
			pc.ValidatorIndex = best
		}},
		{"vidx-n", func(sc *scenario, pc *types.CommitSig, i, n int, r *kit.Rand) { pc.ValidatorIndex = n }},
		{"vidx-neg", func(sc *scenario, pc *types.CommitSig, i, n int, r *kit.Rand) { pc.ValidatorIndex = -1 }},
		{"vidx-99", func(sc *scenario, pc *types.CommitSig, i, n int, r *kit.Rand) { pc.ValidatorIndex = 99 }},
		{"vidx-maxint", func(sc *scenario, pc *types.CommitSig, i, n int, r *kit.Rand) { pc.ValidatorIndex = math.MaxInt64 }},
		{"vaddr-other", func(sc *scenario, pc *types.CommitSig, i, n int, r *kit.Rand) { pc.ValidatorAddress = pool[(sc.keyOfSlot(i)+1)%nKeys].addr }},
		{"sig-flip", func(sc *scenario, pc *types.CommitSig, i, n int, r *kit.Rand) { pc.Signature = flip(pc.Signature) }},
		{"sig-empty", func(sc *scenario, pc *types.CommitSig, i, n int, r *kit.Rand) { pc.Signature = nil }},
		{"sig-63", func(sc *scenario, pc *types.CommitSig, i, n int, r *kit.Rand) { pc.Signature = pc.Signature[:len(pc.Signature)-1] }},
		{"sig-65", func(sc *scenario, pc *types.CommitSig, i, n int, r *kit.Rand) { pc.Signature = append(pc.Signature, 0) }},
		{"sig-other-key", func(sc *scenario, pc *types.CommitSig, i, n int, r *kit.Rand) {
			signPrecommit(sc.sp.chainID, (sc.keyOfSlot(i)+1)%nKeys, pc)
		}},
		{"sig-other-chain", func(sc *scenario, pc *types.CommitSig, i, n int, r *kit.Rand) {
			signPrecommit(sc.sp.chainID+"-x", sc.keyOfSlot(i), pc)
		}},
	} {
		ms = append(ms, pcMuts(p.name, p.f)...)
	}
	return ms
}

// ---------------------------------------------------------------- emission

type emitter struct {
	w       *kit.Out
	skipped int
}

// emit marshals the (mutated) block, decodes it again and writes the line.
func (e *emitter) emit(sc *scenario, b *types.Block) []byte {
	var bz []byte
	func() {
		defer func() {
			if recover() != nil {
				bz = nil
			}
		}()
		var err error
		bz, err = amino.Marshal(b)
		if err != nil {
			bz = nil
		}
	}()
	if bz == nil {
		e.skipped++ // not encodable, hence not a block a peer could send
		return nil
	}
	e.emitBytes(&sc.sp, bz)
	return bz
}

// emitApply writes an `ap` line (the real ApplyBlock) for a decodable block.
func (e *emitter) emitApply(sp *stateSpec, bz []byte) {
	if bz == nil || sp.lastHeight > 1<<60 || sp.lastHeight < 0 {
		return // the state store's own height arithmetic (nextHeight+1) is out of scope at the int64 edge
	}
	if l, ok := lineOp("ap", sp, bz); ok {
		e.w.Op("%s", l)
	}
}

func (e *emitter) emitBytes(sp *stateSpec, bz []byte) {
	if l, ok := line(sp, bz); ok {
		e.w.Op("%s", l)
	} else if _, err := decodeBlock(bz); err != nil {
		e.w.Op("und %s", hexOrE(bz))
	} else {
		e.skipped++
	}
}

func hexOrE(b []byte) string {
	if len(b) == 0 {
		return "e"
	}
	return hex.EncodeToString(b)
}

func (e *emitter) mutate(sc *scenario, ms []mutation, r *kit.Rand) []byte {
	b := sc.block()
	ok := true
	func() {
		defer func() {
			if recover() != nil {
				ok = false
			}
		}()
		for _, m := range ms {
			m.f(sc, b, r)
		}
	}()
	if !ok {
		e.skipped++
		return nil
	}
	return e.emit(sc, b)
}

// ---------------------------------------------------------------- quorum table

func quorumScenarios() []*scenario {
	var out []*scenario
	profiles := [][]int64{{1}, {1, 1}, {1, 1, 1}, {1, 1, 1, 1}, {2, 1, 1}, {3, 1, 1, 1}, {1, 2, 3, 4}, {5, 5, 5, 5, 5},
		{maxTotalPower - 3, 1, 1, 1}, {maxTotalPower / 3, maxTotalPower / 3, maxTotalPower / 3}, {7, 1, 1, 1, 1, 1}}
	for pi, p := range profiles {
		n := len(p)
		ks := []int{0, 2, 3, 5, 7, 8}[:n]
		for mask := 0; mask < 1<<n; mask++ {
			if mask == 0 {
				continue
			}
			sp := laterSpec(int64(pi+2), vps(ks, p...), vps(ks, p...), vps(ks, p...))
			sc := &scenario{name: fmt.Sprintf("quorum-%d-%d", pi, mask), sp: sp, holes: make([]bool, n)}
			for i := 0; i < n; i++ {
				sc.holes[i] = mask&(1<<i) == 0
			}
			if sc.finish() {
				out = append(out, sc)
			}
		}
	}
	return out
}

// ---------------------------------------------------------------- chain stream (real ApplyBlock)

type chainApp struct {
	abci.BaseApplication
	updates []abci.ValidatorUpdate
	n       byte
}

func (a *chainApp) EndBlock(abci.RequestEndBlock) abci.ResponseEndBlock {
	u := a.updates
	a.updates = nil
	return abci.ResponseEndBlock{ValidatorUpdates: u}
}

func (a *chainApp) Commit() abci.ResponseCommit {
	a.n++
	res := abci.ResponseCommit{}
	res.Data = h32(fmt.Sprint("chain-app-", a.n))
	return res
}

func specOfSet(set *types.ValidatorSet) ([]vp, bool) {
	var out []vp
	for _, v := range set.Validators {
		k, ok := poolByNum[addrNum(v.Address)]
		if !ok {
			return nil, false
		}
		out = append(out, vp{k, v.VotingPower})
	}
	return out, true
}

func specOfState(st sm.State) (stateSpec, bool) {
	cp := -1
	for v := 0; v < 3; v++ {
		c := consensusParams(v)
		if string(c.Hash()) == string(st.ConsensusParams.Hash()) {
			cp = v
		}
	}
	vals, ok1 := specOfSet(st.Validators)
	last, ok2 := specOfSet(st.LastValidators)
	next, ok3 := specOfSet(st.NextValidators)
	if cp < 0 || !ok1 || !ok2 || !ok3 {
		return stateSpec{}, false
	}
	return stateSpec{blockVersion: st.BlockVersion, appVersion: st.AppVersion, chainID: st.ChainID,
		initialHeight: st.InitialHeight, lastHeight: st.LastBlockHeight, lastTotalTx: st.LastBlockTotalTx,
		lastBlockID: st.LastBlockID, lastBlockTime: st.LastBlockTime, vals: vals, lastVals: last, nextVals: next,
		appHash: st.AppHash, lastResultsHash: st.LastResultsHash, cp: cp}, true
}

func chainStream(e *emitter, r *kit.Rand, heights, mutsPerHeight int, ms []mutation, id string) {
	n := r.Range(1, 5)
	perm := pickKeys(r, n)
	gvals := make([]types.GenesisValidator, n)
	for i, k := range perm {
		gvals[i] = types.GenesisValidator{Address: pool[k].addr, PubKey: pool[k].pub, Power: int64(r.Range(1, 20)), Name: "v"}
	}
	initial := int64(0)
	if r.Chance(30) {
		initial = int64(r.Range(2, 50))
	}
	st, err := sm.MakeGenesisState(&types.GenesisDoc{ChainID: "c32-live-" + id, Validators: gvals, GenesisTime: t0.Add(time.Duration(r.Intn(1000)) * time.Second),
		InitialHeight: initial, AppHash: nil})
	if err != nil {
		panic(err)
	}
	app := &chainApp{}
	conns := appconn.NewAppConns(proxy.NewLocalClientCreator(app))
	if err := conns.Start(); err != nil {
		panic(err)
	}
	defer conns.Stop()
	db := memdb.NewMemDB()
	sm.SaveState(db, st)
	exec := sm.NewBlockExecutor(db, log.NewNoopLogger(), conns.Consensus(), mock.Mempool{})
	commit := types.NewCommit(types.BlockID{}, nil)
	for i := 0; i < heights; i++ {
		h := st.LastBlockHeight + 1
		sp, ok := specOfState(st)
		if !ok {
			return
		}
		prop := st.Validators.GetProposer().Address
		txs := mkTxs(r.Intn(4), byte(h))
		blk, parts := st.MakeBlock(h, txs, commit, prop)
		sc := &scenario{name: "chain", sp: sp, height: h, genesis: h == st.InitialHeight, txs: txs, base: amino.MustMarshal(blk)}
		var ok2 bool
		if sc.st, ok2 = buildState(&sc.sp); !ok2 {
			return
		}
		e.w.Case(fmt.Sprintf("chain-%s-h%d", id, h))
		e.emitBytes(&sc.sp, sc.base)
		for j := 0; j < mutsPerHeight; j++ {
			e.mutate(sc, []mutation{ms[r.Intn(len(ms))]}, r)
		}
		// sometimes change the validator set through EndBlock
		if r.Chance(40) {
			k := r.Intn(nKeys)
			p := int64(r.Range(0, 15))
			if _, v := st.NextValidators.GetByAddress(pool[k].addr); v == nil && p == 0 {
				p = 3
			}
			if !(p == 0 && st.NextValidators.Size() <= 1) {
				app.updates = []abci.ValidatorUpdate{{Address: pool[k].addr, PubKey: pool[k].pub, Power: p}}
			}
		}
		bid := types.BlockID{Hash: blk.Hash(), PartsHeader: parts.Header()}
		signers := st.Validators
		ns, err := exec.ApplyBlock(st, bid, blk)
		if err != nil {
			panic(fmt.Sprintf("chain stream: the real ApplyBlock refused the block MakeBlock built: %v", err))
		}
		st = ns
		// the next LastCommit: everybody signs, skewed clocks
		pcs := make([]*types.CommitSig, signers.Size())
		for s, v := range signers.Validators {
			pc := &types.CommitSig{Type: types.PrecommitType, Height: h, Round: r.Intn(3) / 2, BlockID: bid,
				Timestamp: blk.Time.Add(time.Duration(1+r.Intn(5000)) * time.Millisecond), ValidatorAddress: v.Address, ValidatorIndex: s}
			pcs[s] = pc
		}
		rd := pcs[0].Round
		for s, v := range signers.Validators {
			pcs[s].Round = rd
			signPrecommit(st.ChainID, poolByNum[addrNum(v.Address)], pcs[s])
		}
		commit = types.NewCommit(bid, pcs)
	}
}

// ---------------------------------------------------------------- random scenarios

func pickKeys(r *kit.Rand, n int) []int {
	in := map[int]bool{}
	for len(in) < n {
		in[r.Intn(nKeys)] = true
	}
	var out []int
	for k := 0; k < nKeys; k++ {
		if in[k] {
			out = append(out, k)
		}
	}
	return out
}

func randPowers(r *kit.Rand, n int) []int64 {
	out := make([]int64, n)
	switch r.Intn(5) {
	case 0:
		for i := range out {
			out[i] = 1
		}
	case 1:
		for i := range out {
			out[i] = int64(r.Range(1, 100))
		}
	case 2:
		for i := range out {
			out[i] = int64(r.Range(1, 3))
		}
		out[r.Intn(n)] = int64(r.Range(50, 1000))
	case 3:
		for i := range out {
			out[i] = maxTotalPower/int64(n) - int64(r.Intn(3))
		}
	default:
		for i := range out {
			out[i] = int64(1) << uint(r.Intn(40))
		}
	}
	return out
}

func randSet(r *kit.Rand) []vp {
	n := r.Range(1, 7)
	return vps(pickKeys(r, n), randPowers(r, n)...)
}

func randScenario(r *kit.Rand) *scenario {
	for {
		var sp stateSpec
		if r.Chance(12) {
			sp = baseSpec()
			if r.Chance(40) {
				sp.initialHeight = int64(r.Range(2, 1000))
				sp.lastHeight = sp.initialHeight - 1
			}
			sp.vals = randSet(r)
			sp.nextVals = sp.vals
			if r.Chance(30) {
				sp.appHash = r.Bytes(kit.Pick(r, []int{0, 20, 32}))
			}
		} else {
			last := randSet(r)
			vals, next := last, last
			if r.Chance(35) {
				vals = randSet(r)
			}
			if r.Chance(35) {
				next = randSet(r)
			}
			h := int64(r.Range(1, 100000))
			if r.Chance(5) {
				h = math.MaxInt64 - int64(r.Intn(3))
			}
			sp = laterSpec(h, vals, last, next)
			sp.lastBlockID = mkBlockID(fmt.Sprint("r", r.Intn(1000)), r.Range(1, 1601))
			sp.lastBlockTime = t0.Add(time.Duration(r.Intn(1<<30)) * time.Microsecond)
			if r.Chance(20) {
				sp.initialHeight = int64(r.Range(1, int(min(h, 1000))))
			}
			if r.Chance(10) {
				sp.lastTotalTx = math.MaxInt64 - int64(r.Intn(4))
			}
			if r.Chance(15) {
				sp.appHash = r.Bytes(kit.Pick(r, []int{0, 8, 20}))
			}
			if r.Chance(10) {
				sp.lastResultsHash = nil
			}
		}
		sp.cp = r.Intn(3)
		if r.Chance(10) {
			sp.appVersion = ""
		}
		sc := &scenario{name: "rand", sp: sp, txs: mkTxs(r.Intn(5), byte(r.Intn(256))), round: r.Intn(4) / 3 * r.Intn(5), prop: r.Intn(8)}
		n := len(sp.lastVals)
		sc.deltas = make([]time.Duration, n)
		for i := range sc.deltas {
			switch r.Intn(10) {
			case 0:
				sc.deltas[i] = time.Duration(r.Intn(3)) - 1 // at / around the last block time
			case 1:
				sc.deltas[i] = time.Duration(r.Intn(5)) * time.Second // ties
			default:
				sc.deltas[i] = time.Duration(r.Intn(1<<33)) + 1
			}
			if r.Chance(4) {
				sc.far = append(sc.far, i)
			}
		}
		if r.Chance(30) && n > 1 {
			sc.holes = make([]bool, n)
			sc.holes[r.Intn(n)] = true
			if r.Chance(30) {
				sc.holes[r.Intn(n)] = true
			}
		}
		if sc.finish() {
			return sc
		}
	}
}

// ---------------------------------------------------------------- malformed stream

func damage(r *kit.Rand, bz []byte) []byte {
	c := append([]byte(nil), bz...)
	if len(c) == 0 {
		return r.Bytes(r.Range(0, 40))
	}
	switch r.Intn(8) {
	case 0: // flip one bit
		c[r.Intn(len(c))] ^= 1 << uint(r.Intn(8))
	case 1: // truncate
		c = c[:r.Intn(len(c))]
	case 2: // set a byte
		c[r.Intn(len(c))] = byte(r.Intn(256))
	case 3: // delete a byte
		i := r.Intn(len(c))
		c = append(c[:i], c[i+1:]...)
	case 4: // insert a byte
		i := r.Intn(len(c) + 1)
		c = append(c[:i], append([]byte{byte(r.Intn(256))}, c[i:]...)...)
	case 5: // damage near the front (header fields)
		c[r.Intn(min(len(c), 120))] ^= byte(1 + r.Intn(255))
	case 6: // append garbage
		c = append(c, r.Bytes(r.Range(1, 12))...)
	default: // random bytes
		c = r.Bytes(r.Range(0, 200))
	}
	return c
}

// ---------------------------------------------------------------- gen

// witnesses: the regression witnesses of the defect fixed by repo commit cbe9f9a39b
// (`gen --tier witness`; committed as corpus/C32/*.ops).
func witnesses(e *emitter, ms []mutation) {
	byName := map[string]mutation{}
	for _, m := range ms {
		byName[m.name] = m
	}
	var sk *scenario
	for _, sc := range tableScenarios() {
		if sc.name == "h10-skewed" {
			sk = sc
		}
	}
	// slot 2 (power 30 of 5,·,30,9; timestamps +7s,·,+2s,+9s): the true median is +7s
	pick := func(name string, slot int, f func(pc *types.CommitSig), fieldTime bool) {
		e.w.Case("witness-" + name)
		b := sk.block()
		f(b.LastCommit.Precommits[slot])
		recommit(b, false)
		if fieldTime {
			if t, ok := fieldMedianTime(b.LastCommit, sk.st.LastValidators); ok {
				b.Time = t
			}
		}
		e.emit(sk, b)
	}
	pick("median-panic-vidx-99", 2, func(pc *types.CommitSig) { pc.ValidatorIndex = 99 }, false)
	pick("median-panic-vidx-neg", 0, func(pc *types.CommitSig) { pc.ValidatorIndex = -1 }, false)
	pick("median-panic-vidx-n", 3, func(pc *types.CommitSig) { pc.ValidatorIndex = 4 }, false)
	pick("median-weight-field-time", 2, func(pc *types.CommitSig) { pc.ValidatorIndex = 1 }, true)
	pick("median-weight-true-time", 2, func(pc *types.CommitSig) { pc.ValidatorIndex = 1 }, false)
	// repo commit 6794836d2f: 4 validators of power 10, timestamps +1s..+4s; the validator of
	// slot 3 re-signs with +1.5s + 2^64 ns (year 2608), which UnixNano() sorted second
	var eq *scenario
	for _, sc := range tableScenarios() {
		if sc.name == "h2-equal4" {
			eq = sc
		}
	}
	wrap := func(name string, wrapTime bool) {
		e.w.Case("witness-" + name)
		b := eq.block()
		pc := b.LastCommit.Precommits[3]
		pc.Timestamp = add2p64(eq.sp.lastBlockTime.Add(1500 * time.Millisecond))
		signPrecommit(eq.sp.chainID, eq.keyOfSlot(3), pc)
		recommit(b, false)
		if wrapTime {
			b.Time = wrapMedianTime(b.LastCommit, eq.st.LastValidators)
		} else {
			retime(eq, b)
		}
		e.emit(eq, b)
	}
	wrap("median-wrap-2608", true)
	wrap("median-wrap-true-time", false)
}

func gen(w *kit.Out, r *kit.Rand, tier string) {
	thorough := tier == "thorough"
	e := &emitter{w: w}
	ms := allMutations()
	if tier == "witness" {
		witnesses(e, ms)
		return
	}
	var pool2 [][2]any // (spec, bytes) of emitted blocks, to feed the malformed stream
	keep := func(sc *scenario, bz []byte) {
		if bz != nil && len(pool2) < 400 {
			pool2 = append(pool2, [2]any{sc, bz})
		}
	}

	// 1. boundary table
	for _, sc := range tableScenarios() {
		w.Case("table-" + sc.name)
		for i, m := range ms {
			bz := e.mutate(sc, []mutation{m}, r)
			keep(sc, bz)
			if m.name == "none" || sc.name == "h10-skewed" || sc.name == "genesis-fork" || (i+len(sc.name))%9 == 0 {
				e.emitApply(&sc.sp, bz)
			}
		}
	}
	// 2. quorum table
	qs := quorumScenarios()
	w.Case("quorum")
	for i, sc := range qs {
		if !thorough && i%3 != int(r.Intn(3)) && len(sc.sp.lastVals) > 3 {
			continue
		}
		e.emitBytes(&sc.sp, sc.base)
	}
	// 3. chain stream
	nch, hts, mph := 3, 8, 3
	if thorough {
		nch, hts, mph = 8, 14, 6
	}
	for c := 0; c < nch; c++ {
		chainStream(e, r.Fork(), hts, mph, ms, fmt.Sprint(c))
	}
	// 4. structured random
	nsc, per := 60, 12
	if thorough {
		nsc, per = 220, 20
	}
	for i := 0; i < nsc; i++ {
		sc := randScenario(r)
		w.Case(fmt.Sprintf("rand-%d", i))
		bz0 := e.mutate(sc, nil, r)
		keep(sc, bz0)
		e.emitApply(&sc.sp, bz0)
		for j := 0; j < per; j++ {
			k := 1
			if r.Chance(25) {
				k = r.Range(2, 3)
			}
			var pick []mutation
			for ; k > 0; k-- {
				pick = append(pick, ms[r.Intn(len(ms))])
			}
			bz := e.mutate(sc, pick, r)
			keep(sc, bz)
			if j%4 == 0 {
				e.emitApply(&sc.sp, bz)
			}
		}
	}
	// 5. malformed stream
	nmal := 700
	if thorough {
		nmal = 3000
	}
	w.Case("malformed")
	for i := 0; i < nmal && len(pool2) > 0; i++ {
		p := pool2[r.Intn(len(pool2))]
		sc, bz := p[0].(*scenario), p[1].([]byte)
		d := damage(r, bz)
		if r.Chance(15) {
			d = damage(r, d)
		}
		e.emitBytes(&sc.sp, d)
	}
	for _, s := range []string{"", "00", "0a00", "ff", "0a0212"} {
		bz, _ := hex.DecodeString(s)
		e.emitBytes(&tableScenarios()[0].sp, bz)
	}
}
