// Harness for C32: block validation (tm2/pkg/bft/state State.ValidateBlock,
// tm2/pkg/bft/types Block.ValidateBasic / Commit.ValidateBasic / VerifyCommit,
// state.MedianTime) on REAL sm.State values, REAL validator sets with ed25519 keys,
// REAL signed commits, and blocks that went through amino (every block the real
// code sees here was amino-decoded from the bytes on the op line).
//
// One (state, block) pair per op line (see lean/GnoVerif/Drive/C32.lean):
//
//	vb  S1 … S15  B1 … B19  COMMIT p1 … pN  |  LBID NEXTVALS CP BLOCKHEX
//	und HEX
//
// The tokens before `|` are the ABSTRACT view given to the Lean model; the tokens
// after it are how this harness rebuilds the real objects:
//
//	LBID      state.LastBlockID as hash:total:partshash (hex, `e` empty)
//	NEXTVALS  state.NextValidators as addr:power,… (only its hash is looked at)
//	CP        consensus-params variant
//	BLOCKHEX  amino bytes of the block
//
// exec rebuilds the state from S1…S12 + LBID/NEXTVALS/CP, amino-decodes the block,
// RECOMPUTES the whole abstract view from the real objects (block-id ids by
// BlockID.Equals classes, signature bits by real ed25519 verification through
// commit.VoteSignBytes, the five recomputed hashes by the real Hash() methods) and
// answers err:absmismatch (which no model output matches) if the line's abstract
// view is not exactly that.  So the model is always run on the abstraction of the
// very objects the real code is run on.
//
// output: <Block.ValidateBasic class>,<State.ValidateBlock class>
// oracle: independent field-by-field re-check of the property statement on every
// accepted block (math/big, own BlockID comparison, own vote sign bytes, own
// weighted median), and "never panics".
package main

import (
	"bytes"
	"encoding/hex"
	"fmt"
	"math/big"
	"runtime/debug"
	"sort"
	"strconv"
	"strings"
	"time"

	"github.com/gnolang/gno/tm2/pkg/amino"
	abci "github.com/gnolang/gno/tm2/pkg/bft/abci/types"
	"github.com/gnolang/gno/tm2/pkg/bft/appconn"
	"github.com/gnolang/gno/tm2/pkg/bft/mempool/mock"
	"github.com/gnolang/gno/tm2/pkg/bft/proxy"
	sm "github.com/gnolang/gno/tm2/pkg/bft/state"
	"github.com/gnolang/gno/tm2/pkg/bft/types"
	"github.com/gnolang/gno/tm2/pkg/crypto"
	"github.com/gnolang/gno/tm2/pkg/crypto/ed25519"
	dbm "github.com/gnolang/gno/tm2/pkg/db"
	"github.com/gnolang/gno/tm2/pkg/db/memdb"
	"github.com/gnolang/gno/tm2/pkg/log"
	"gnoverif/kit"
)

const nKeys = 10

// ---------------------------------------------------------------- key pool

type poolEnt struct {
	priv ed25519.PrivKeyEd25519
	pub  crypto.PubKey
	addr crypto.Address
	num  string // decimal big-endian number of the address bytes
}

var pool []poolEnt // sorted by address
var poolByNum = map[string]int{}

func addrNum(a crypto.Address) string { return new(big.Int).SetBytes(a[:]).String() }

func init() {
	for i := 0; i < nKeys; i++ {
		priv := ed25519.GenPrivKeyFromSecret([]byte(fmt.Sprintf("c32-key-%d", i)))
		pub := priv.PubKey()
		pool = append(pool, poolEnt{priv: priv, pub: pub, addr: pub.Address(), num: addrNum(pub.Address())})
	}
	sort.Slice(pool, func(i, j int) bool { return pool[i].addr.Compare(pool[j].addr) < 0 })
	for i, p := range pool {
		poolByNum[p.num] = i
	}
}

// ---------------------------------------------------------------- state spec

type vp struct {
	k     int // pool index
	power int64
}

type stateSpec struct {
	blockVersion, appVersion, chainID       string
	initialHeight, lastHeight, lastTotalTx  int64
	lastBlockID                             types.BlockID
	lastBlockTime                           time.Time
	vals, lastVals, nextVals                []vp
	appHash, lastResultsHash                []byte
	cp                                      int
}

func consensusParams(variant int) abci.ConsensusParams {
	cp := types.DefaultConsensusParams()
	switch variant {
	case 0:
	case 1:
		b := *cp.Block
		b.MaxGas = 12345
		cp.Block = &b
	case 2:
		b := *cp.Block
		b.MaxTxBytes = 4096
		b.TimeIotaMS = 7
		cp.Block = &b
	default:
		panic(badop{})
	}
	return cp
}

// buildSet makes the real ValidatorSet; ok=false when the real type refuses the
// list or the list is not in set (address) order.
func buildSet(vs []vp) (set *types.ValidatorSet, ok bool) {
	for i, v := range vs {
		if v.k < 0 || v.k >= nKeys {
			panic(badop{})
		}
		if i > 0 && vs[i-1].k >= v.k {
			return nil, false
		}
	}
	defer func() {
		if r := recover(); r != nil {
			set, ok = nil, false
		}
	}()
	lst := make([]*types.Validator, len(vs))
	for i, v := range vs {
		lst[i] = types.NewValidator(pool[v.k].pub, v.power)
	}
	set = types.NewValidatorSet(lst)
	if len(set.Validators) != len(vs) {
		return nil, false
	}
	for i, v := range vs {
		if set.Validators[i].Address != pool[v.k].addr || set.Validators[i].VotingPower != v.power {
			return nil, false
		}
	}
	return set, true
}

func buildState(sp *stateSpec) (st sm.State, ok bool) {
	vals, ok1 := buildSet(sp.vals)
	last, ok2 := buildSet(sp.lastVals)
	next, ok3 := buildSet(sp.nextVals)
	if !ok1 || !ok2 || !ok3 {
		return sm.State{}, false
	}
	return sm.State{
		SoftwareVersion:  "c32",
		BlockVersion:     sp.blockVersion,
		AppVersion:       sp.appVersion,
		ChainID:          sp.chainID,
		InitialHeight:    sp.initialHeight,
		LastBlockHeight:  sp.lastHeight,
		LastBlockTotalTx: sp.lastTotalTx,
		LastBlockID:      sp.lastBlockID,
		LastBlockTime:    sp.lastBlockTime,
		NextValidators:   next,
		Validators:       vals,
		LastValidators:   last,
		ConsensusParams:  consensusParams(sp.cp),
		LastResultsHash:  sp.lastResultsHash,
		AppHash:          sp.appHash,
	}, true
}

// ---------------------------------------------------------------- tokens

func hx(b []byte) string {
	if len(b) == 0 {
		return "e"
	}
	return hex.EncodeToString(b)
}

func unhx(s string) []byte {
	if s == "e" {
		return nil
	}
	b, err := hex.DecodeString(s)
	if err != nil {
		panic(badop{})
	}
	return b
}

var billion = big.NewInt(1000000000)

func timeNS(t time.Time) *big.Int {
	n := new(big.Int).Mul(big.NewInt(t.Unix()), billion)
	return n.Add(n, big.NewInt(int64(t.Nanosecond())))
}

func nsTime(s string) time.Time {
	n, ok := new(big.Int).SetString(s, 10)
	if !ok {
		panic(badop{})
	}
	sec, nsec := new(big.Int).DivMod(n, billion, new(big.Int)) // Euclidean: 0 <= nsec
	if !sec.IsInt64() {
		panic(badop{})
	}
	return time.Unix(sec.Int64(), nsec.Int64()).UTC()
}

func valsTok(set *types.ValidatorSet) string {
	if set == nil || len(set.Validators) == 0 {
		return "-"
	}
	s := make([]string, len(set.Validators))
	for i, v := range set.Validators {
		s[i] = addrNum(v.Address) + ":" + strconv.FormatInt(v.VotingPower, 10)
	}
	return strings.Join(s, ",")
}

func specValsTok(vs []vp) string {
	if len(vs) == 0 {
		return "-"
	}
	s := make([]string, len(vs))
	for i, v := range vs {
		s[i] = pool[v.k].num + ":" + strconv.FormatInt(v.power, 10)
	}
	return strings.Join(s, ",")
}

func parseVals(s string) []vp {
	if s == "-" {
		return nil
	}
	var out []vp
	for _, t := range strings.Split(s, ",") {
		f := strings.Split(t, ":")
		if len(f) != 2 {
			panic(badop{})
		}
		k, ok := poolByNum[f[0]]
		p, err := strconv.ParseInt(f[1], 10, 64)
		if !ok || err != nil {
			panic(badop{})
		}
		out = append(out, vp{k, p})
	}
	return out
}

// idTable assigns block-id ids: 0 = zero BlockID, otherwise one id per class of
// BlockID.Equals, numbered by first appearance (state.LastBlockID first).
type idTable struct{ ids []types.BlockID }

func (t *idTable) id(b types.BlockID) int {
	if b.IsZero() {
		return 0
	}
	for i, x := range t.ids {
		if x.Equals(b) {
			return i + 1
		}
	}
	t.ids = append(t.ids, b)
	return len(t.ids)
}

// stateTokens: S1 … S15 from the real state.
func stateTokens(st sm.State) []string {
	var tab idTable
	return []string{
		hx([]byte(st.BlockVersion)), hx([]byte(st.AppVersion)), hx([]byte(st.ChainID)),
		strconv.FormatInt(st.InitialHeight, 10), strconv.FormatInt(st.LastBlockHeight, 10),
		strconv.FormatInt(st.LastBlockTotalTx, 10), strconv.Itoa(tab.id(st.LastBlockID)),
		timeNS(st.LastBlockTime).String(), valsTok(st.Validators), valsTok(st.LastValidators),
		hx(st.AppHash), hx(st.LastResultsHash), hx(st.ConsensusParams.Hash()),
		hx(st.Validators.Hash()), hx(st.NextValidators.Hash()),
	}
}

func bit(b bool) string {
	if b {
		return "1"
	}
	return "0"
}

// blockTokens: B1 … B19, COMMIT, precommits — the abstraction of a real decoded
// block relative to a real state.  b is consumed (memo fields get filled).
func blockTokens(st sm.State, b *types.Block) []string {
	var tab idTable
	tab.id(st.LastBlockID)
	h := &b.Header
	out := []string{
		hx([]byte(h.Version)), hx([]byte(h.ChainID)), strconv.FormatInt(h.Height, 10),
		timeNS(h.Time).String(), strconv.FormatInt(h.NumTxs, 10), strconv.FormatInt(h.TotalTxs, 10),
		hx([]byte(h.AppVersion)),
		fmt.Sprintf("%d:%d:%d:%d", tab.id(h.LastBlockID), len(h.LastBlockID.Hash), h.LastBlockID.PartsHeader.Total, len(h.LastBlockID.PartsHeader.Hash)),
		hx(h.LastCommitHash), hx(h.DataHash), hx(h.ValidatorsHash), hx(h.NextValidatorsHash),
		hx(h.ConsensusHash), hx(h.AppHash), hx(h.LastResultsHash),
		addrNum(h.ProposerAddress),
		strconv.Itoa(len(b.Data.Txs)), hx(b.Data.Hash()), hx(b.LastCommit.Hash()),
	}
	c := b.LastCommit
	if c == nil {
		return append(out, "nil")
	}
	out = append(out, "C"+strconv.Itoa(tab.id(c.BlockID)))
	for i, pc := range c.Precommits {
		if pc == nil {
			out = append(out, "-")
			continue
		}
		ok := false
		if i < st.LastValidators.Size() {
			_, val := st.LastValidators.GetByIndex(i)
			ok = val.PubKey.VerifyBytes(c.VoteSignBytes(st.ChainID, i), pc.Signature)
		}
		out = append(out, fmt.Sprintf("%d:%d:%d:%d:%s:%d:%s", byte(pc.Type), pc.Height, pc.Round,
			tab.id(pc.BlockID), timeNS(pc.Timestamp).String(), pc.ValidatorIndex, bit(ok)))
	}
	return out
}

// valsDigest: count / Σ power / Σ (i+1)·addr mod 1000000007 (output lines are cut at 300 chars).
func valsDigest(set *types.ValidatorSet) string {
	m := big.NewInt(1000000007)
	sum, acc := new(big.Int), new(big.Int)
	n := 0
	if set != nil {
		for i, v := range set.Validators {
			n++
			sum.Add(sum, big.NewInt(v.VotingPower))
			a := new(big.Int).Mod(new(big.Int).SetBytes(v.Address[:]), m)
			acc.Mod(acc.Add(acc, a.Mul(a, big.NewInt(int64(i+1)))), m)
		}
	}
	return fmt.Sprintf("%d/%s/%s", n, sum.String(), acc.String())
}

func bidTok(b types.BlockID) string {
	return hx(b.Hash) + ":" + strconv.Itoa(b.PartsHeader.Total) + ":" + hx(b.PartsHeader.Hash)
}

func parseBid(s string) types.BlockID {
	f := strings.Split(s, ":")
	if len(f) != 3 {
		panic(badop{})
	}
	t, err := strconv.Atoi(f[1])
	if err != nil {
		panic(badop{})
	}
	return types.BlockID{Hash: unhx(f[0]), PartsHeader: types.PartSetHeader{Total: t, Hash: unhx(f[2])}}
}

func decodeBlock(bz []byte) (b *types.Block, err error) {
	defer func() {
		if r := recover(); r != nil {
			b, err = nil, fmt.Errorf("decode panic: %v", r)
		}
	}()
	b = new(types.Block)
	if err := amino.Unmarshal(bz, b); err != nil {
		return nil, err
	}
	return b, nil
}

// line renders the op line for (spec, block bytes); ok=false if the state cannot
// be built or the bytes do not decode.
func line(sp *stateSpec, bz []byte) (string, bool) { return lineOp("vb", sp, bz) }

func lineOp(op string, sp *stateSpec, bz []byte) (string, bool) {
	st, ok := buildState(sp)
	if !ok {
		return "", false
	}
	b, err := decodeBlock(bz)
	if err != nil {
		return "", false
	}
	toks := append([]string{op}, stateTokens(st)...)
	toks = append(toks, blockTokens(st, b)...)
	toks = append(toks, "|", bidTok(sp.lastBlockID), specValsTok(sp.nextVals), strconv.Itoa(sp.cp), hx(bz))
	return strings.Join(toks, " "), true
}

type badop struct{}

func a64(s string) int64 {
	v, err := strconv.ParseInt(s, 10, 64)
	if err != nil {
		panic(badop{})
	}
	return v
}

// parseLine: the state spec and the block bytes of a vb line, plus its abstract tokens.
func parseLine(t []string) (sp *stateSpec, bz []byte, abs []string) {
	bar := -1
	for i, x := range t {
		if x == "|" {
			bar = i
			break
		}
	}
	if bar < 36 || len(t) != bar+5 {
		panic(badop{})
	}
	abs = t[1:bar]
	tail := t[bar+1:]
	cp, err := strconv.Atoi(tail[2])
	if err != nil {
		panic(badop{})
	}
	sp = &stateSpec{
		blockVersion: string(unhx(abs[0])), appVersion: string(unhx(abs[1])), chainID: string(unhx(abs[2])),
		initialHeight: a64(abs[3]), lastHeight: a64(abs[4]), lastTotalTx: a64(abs[5]),
		lastBlockID: parseBid(tail[0]), lastBlockTime: nsTime(abs[7]),
		vals: parseVals(abs[8]), lastVals: parseVals(abs[9]), nextVals: parseVals(tail[1]),
		appHash: unhx(abs[10]), lastResultsHash: unhx(abs[11]), cp: cp,
	}
	bz = unhx(tail[3])
	return
}

// ---------------------------------------------------------------- classification of the real errors

func classify(err error) string {
	if err == nil {
		return "ok"
	}
	switch err.(type) {
	case types.InvalidCommitPrecommitsError:
		return "err:commitsize"
	case types.InvalidCommitHeightError:
		return "err:commit/height"
	}
	if types.IsErrTooMuchChange(err) {
		return "err:commit/power"
	}
	m := err.Error()
	pre := func(s string) bool { return strings.HasPrefix(m, s) }
	has := func(s string) bool { return strings.Contains(m, s) }
	switch {
	case pre("block height ") && has("< state.InitialHeight"):
		return "err:belowinitial"
	case pre("ChainID is too long"):
		return "err:chainidlen"
	case pre("Negative Header.Height"):
		return "err:heightneg"
	case pre("Zero Header.Height"):
		return "err:heightzero"
	case pre("wrong Header.NumTxs"):
		return "err:numtxs"
	case pre("Header.TotalTxs (") && has("is less than Header.NumTxs"):
		return "err:totalltnum"
	case pre("Negative Header.TotalTxs"):
		return "err:totalneg"
	case pre("wrong Header.LastBlockID: wrong Hash"):
		return "err:lbidhash"
	case pre("wrong Header.LastBlockID: wrong PartsHeader: Negative Total"):
		return "err:lbidnegtotal"
	case pre("wrong Header.LastBlockID: wrong PartsHeader: PartSetHeader total is too big"):
		return "err:lbidtoobig"
	case pre("wrong Header.LastBlockID: wrong PartsHeader: ") && (has("Wrong Hash") || has("expected size to be")):
		return "err:lbidpartshash"
	case pre("nil LastCommit"):
		return "err:nillastcommit"
	case m == "wrong LastCommit":
		return "err:wronglastcommit"
	case pre("wrong Header.LastCommitHash: "):
		return "err:lastcommithashlen"
	case pre("wrong Header.LastCommitHash. Expected"):
		return "err:lastcommithash"
	case pre("wrong Header.DataHash: "):
		return "err:datahashlen"
	case pre("wrong Header.DataHash. Expected"):
		return "err:datahash"
	case pre("wrong Header.ValidatorsHash: "):
		return "err:validatorshashlen"
	case pre("wrong Header.NextValidatorsHash: "):
		return "err:nextvalidatorshashlen"
	case pre("wrong Header.ConsensusHash: "):
		return "err:consensushashlen"
	case pre("wrong Header.LastResultsHash: "):
		return "err:lastresultshashlen"
	case pre("wrong Block.Header.Version"):
		return "err:version"
	case pre("wrong Block.Header.AppVersion"):
		return "err:appversion"
	case pre("wrong Block.Header.ChainID"):
		return "err:chainid"
	case pre("wrong Block.Header.Height"):
		return "err:height"
	case pre("wrong Block.Header.LastBlockID"):
		return "err:lastblockid"
	case pre("wrong Block.Header.TotalTxs"):
		return "err:totaltxs"
	case pre("wrong Block.Header.AppHash"):
		return "err:apphash"
	case pre("wrong Block.Header.ConsensusHash"):
		return "err:consensushash"
	case pre("wrong Block.Header.LastResultsHash"):
		return "err:lastresultshash"
	case pre("wrong Block.Header.ValidatorsHash"):
		return "err:validatorshash"
	case pre("wrong Block.Header.NextValidatorsHash"):
		return "err:nextvalidatorshash"
	case pre("genesis block can't have LastCommit precommits"):
		return "err:genesisprecommits"
	case pre("Commit cannot be for nil block"):
		return "err:commit/nilblock"
	case pre("No precommits in commit"):
		return "err:commit/noprecommits"
	case pre("invalid commit vote. Expected precommit"):
		return "err:commit/vtype"
	case pre("invalid commit precommit height"):
		return "err:commit/vheight"
	case pre("invalid commit precommit round"):
		return "err:commit/vround"
	case pre("invalid commit -- wrong block id"):
		return "err:commit/blockid"
	case pre("invalid commit -- invalid signature"):
		return "err:commit/sig"
	case pre("block time ") && has(" not greater than last block time "):
		return "err:timenotafter"
	case pre("invalid block time. Expected"):
		return "err:timenotmedian"
	case pre("block time ") && has(" is not equal to genesis time "):
		return "err:timenotgenesis"
	case pre("Block.Header.ProposerAddress, ") && has("is not a validator"):
		return "err:proposer"
	}
	return "err:unknown"
}

// guarded runs f; a panic is mapped to a canonical class by where it was raised.
func guarded(f func() error) (cls string, panicked bool) {
	defer func() {
		if r := recover(); r != nil {
			panicked = true
			st := string(debug.Stack())
			switch {
			case strings.Contains(st, "state.MedianTime"):
				cls = "panic:medianidx"
			default:
				cls = "panic:other"
			}
		}
	}()
	return classify(f()), false
}

// ---------------------------------------------------------------- oracle (independent)

func sameBytes(a, b []byte) bool { return len(a) == len(b) && (len(a) == 0 || bytes.Equal(a, b)) }

func sameBlockID(a, b types.BlockID) bool {
	return sameBytes(a.Hash, b.Hash) && a.PartsHeader.Total == b.PartsHeader.Total && sameBytes(a.PartsHeader.Hash, b.PartsHeader.Hash)
}

func big3gt2(tally, total *big.Int) bool {
	l := new(big.Int).Mul(big.NewInt(3), tally)
	r := new(big.Int).Mul(big.NewInt(2), total)
	return l.Cmp(r) > 0
}

// ownSignBytes: the canonical sign bytes of the vote the precommit claims to be,
// built from the precommit's own fields.
func ownSignBytes(chainID string, pc *types.CommitSig) (bz []byte) {
	defer func() {
		if recover() != nil {
			bz = nil
		}
	}()
	v := &types.Vote{Type: pc.Type, Height: pc.Height, Round: pc.Round, BlockID: pc.BlockID, Timestamp: pc.Timestamp}
	return v.SignBytes(chainID)
}

// slotMedian: the weighted median of the commit's timestamps, each weighted with
// the power of the validator in whose SLOT the precommit sits: the smallest
// timestamp t such that the weight of all timestamps <= t reaches floor(total/2).
func slotMedian(c *types.Commit, last *types.ValidatorSet) (time.Time, bool) {
	type wt struct {
		t time.Time
		w *big.Int
	}
	var ws []wt
	total := new(big.Int)
	for i, pc := range c.Precommits {
		if pc == nil {
			continue
		}
		if i >= len(last.Validators) {
			return time.Time{}, false
		}
		w := big.NewInt(last.Validators[i].VotingPower)
		ws = append(ws, wt{pc.Timestamp, w})
		total.Add(total, w)
	}
	if len(ws) == 0 {
		return time.Time{}, false
	}
	half := new(big.Int).Quo(total, big.NewInt(2))
	var best time.Time
	found := false
	for _, cand := range ws {
		cum := new(big.Int)
		for _, x := range ws {
			if !x.t.After(cand.t) {
				cum.Add(cum, x.w)
			}
		}
		if cum.Cmp(half) >= 0 && (!found || cand.t.Before(best)) {
			best, found = cand.t, true
		}
	}
	return best, found
}

// violated lists the conditions of the statement that (state, block) does not meet.
func violated(st sm.State, b *types.Block) []string {
	var v []string
	h := &b.Header
	add := func(s string) { v = append(v, s) }
	if new(big.Int).Add(big.NewInt(st.LastBlockHeight), big.NewInt(1)).Cmp(big.NewInt(h.Height)) != 0 {
		add("height")
	}
	if h.ChainID != st.ChainID {
		add("chain-id")
	}
	if !sameBlockID(h.LastBlockID, st.LastBlockID) {
		add("last-block-id")
	}
	if !sameBytes(h.AppHash, st.AppHash) {
		add("app-hash")
	}
	if !sameBytes(h.LastResultsHash, st.LastResultsHash) {
		add("results-hash")
	}
	if !sameBytes(h.ValidatorsHash, st.Validators.Hash()) {
		add("validators-hash")
	}
	if !sameBytes(h.NextValidatorsHash, st.NextValidators.Hash()) {
		add("next-validators-hash")
	}
	if !sameBytes(h.ConsensusHash, st.ConsensusParams.Hash()) {
		add("consensus-hash")
	}
	want := new(big.Int).Add(big.NewInt(st.LastBlockTotalTx), big.NewInt(int64(len(b.Data.Txs))))
	if want.Cmp(big.NewInt(h.TotalTxs)) != 0 || h.NumTxs != int64(len(b.Data.Txs)) {
		add("tx-counts")
	}
	if !sameBytes(h.DataHash, types.Txs(b.Data.Txs).Hash()) {
		add("data-hash")
	}
	found := false
	for _, val := range st.Validators.Validators {
		if val.Address == h.ProposerAddress {
			found = true
		}
	}
	if !found {
		add("proposer")
	}
	c := b.LastCommit
	if c == nil {
		return append(v, "last-commit")
	}
	if h.Height == st.InitialHeight {
		// first block of the chain: no commit, genesis time
		if len(c.Precommits) != 0 {
			add("last-commit")
		}
		if !h.Time.Equal(st.LastBlockTime) {
			add("time")
		}
		return v
	}
	// more than 2/3 of the previous validator set signed the previous block
	tally, total := new(big.Int), new(big.Int)
	for _, val := range st.LastValidators.Validators {
		total.Add(total, big.NewInt(val.VotingPower))
	}
	if len(c.Precommits) != len(st.LastValidators.Validators) {
		add("last-commit")
	} else {
		for i, pc := range c.Precommits {
			if pc == nil || pc.Type != types.PrecommitType || pc.Height != h.Height-1 || !sameBlockID(pc.BlockID, st.LastBlockID) {
				continue
			}
			if sb := ownSignBytes(st.ChainID, pc); sb != nil && st.LastValidators.Validators[i].PubKey.VerifyBytes(sb, pc.Signature) {
				tally.Add(tally, big.NewInt(st.LastValidators.Validators[i].VotingPower))
			}
		}
		if !big3gt2(tally, total) {
			add("last-commit")
		}
	}
	if !h.Time.After(st.LastBlockTime) {
		add("time-monotonic")
	}
	if m, ok := slotMedian(c, st.LastValidators); !ok || !h.Time.Equal(m) {
		add("time-median")
	}
	return v
}

// indexMismatch: some non-nil precommit's ValidatorIndex field differs from its slot.
func indexMismatch(b *types.Block) (mismatch, outOfRange bool, n int) {
	if b.LastCommit == nil {
		return
	}
	n = len(b.LastCommit.Precommits)
	for i, pc := range b.LastCommit.Precommits {
		if pc == nil {
			continue
		}
		if pc.ValidatorIndex != i {
			mismatch = true
		}
		if pc.ValidatorIndex < 0 || pc.ValidatorIndex >= n {
			outOfRange = true
		}
	}
	return
}

// outOfUnixNano: some non-nil precommit's timestamp is not an int64 number of nanoseconds.
func outOfUnixNano(b *types.Block) bool {
	if b.LastCommit == nil {
		return false
	}
	for _, pc := range b.LastCommit.Precommits {
		if pc != nil && !timeNS(pc.Timestamp).IsInt64() {
			return true
		}
	}
	return false
}

// ---------------------------------------------------------------- exec

func exec(t []string) (impl string, oracle string) {
	defer func() {
		if r := recover(); r != nil {
			if _, ok := r.(badop); ok {
				impl, oracle = "err:badop", "-"
				return
			}
			panic(r)
		}
	}()
	if len(t) == 2 && t[0] == "und" {
		bz := unhx(t[1])
		if _, err := decodeBlock(bz); err != nil {
			return "err:undecodable", "-"
		}
		return "err:decodable", "-"
	}
	if len(t) < 1 || (t[0] != "vb" && t[0] != "ap") {
		panic(badop{})
	}
	sp, bz, abs := parseLine(t)
	st, ok := buildState(sp)
	if !ok {
		return "err:badset", "-"
	}
	fresh := func() *types.Block {
		b, err := decodeBlock(bz)
		if err != nil {
			panic(badop{})
		}
		return b
	}
	want := append(stateTokens(st), blockTokens(st, fresh())...)
	if len(want) != len(abs) {
		return "err:absmismatch", "-"
	}
	for i := range want {
		if want[i] != abs[i] {
			return "err:absmismatch", fmt.Sprintf("- token %d: line has %s, real objects give %s", i+1, abs[i], want[i])
		}
	}

	if t[0] == "ap" {
		return execApply(sp, st, fresh)
	}

	// ---- the real code, each call on a freshly decoded block
	b1 := fresh()
	basic, _ := guarded(func() error { return b1.ValidateBasic() })
	b2 := fresh()
	full, panicked := guarded(func() error { return st.ValidateBlock(b2) })
	impl = basic + "," + full

	// ---- oracle
	b3 := fresh()
	mismatch, oor, _ := indexMismatch(b3)
	if panicked || strings.HasPrefix(basic, "panic:") {
		if oor && full == "panic:medianidx" {
			return impl, "VIOL:median-panic ValidateBlock panics on a decodable block (precommit with ValidatorIndex outside the validator set)"
		}
		return impl, "VIOL:panic block validation panicked on a decodable block: " + impl
	}
	bad := violated(st, b3)
	if full == "ok" {
		if len(bad) == 0 {
			return impl, "ok"
		}
		if len(bad) == 1 && bad[0] == "time-median" && outOfUnixNano(b3) {
			return impl, "VIOL:median-wrap accepted block whose time is not the power-weighted median of its commit (a precommit timestamp outside the int64 UnixNano range)"
		}
		if len(bad) == 1 && bad[0] == "time-median" && mismatch {
			return impl, "VIOL:median-weight accepted block whose time is not the power-weighted median of its commit (a precommit's ValidatorIndex names another validator)"
		}
		return impl, "VIOL:accepted-invalid accepted although: " + strings.Join(bad, ",")
	}
	if basic == "ok" && len(bad) == 0 {
		return impl, "-" // rejected for a reason outside the statement's list (version, hash shape, …)
	}
	return impl, "ok"
}

// ---------------------------------------------------------------- ap: the real BlockExecutor.ApplyBlock

type applyApp struct{ abci.BaseApplication }

var applyConns appconn.AppConns

// prepareDB stores what ApplyBlock reads back from the state DB: the validator set of
// the previous height (for BeginBlock's LastCommitInfo).
func prepareDB(st sm.State) dbm.DB {
	db := memdb.NewMemDB()
	if st.LastBlockHeight >= 1 && st.LastBlockHeight+1 > st.InitialHeight {
		pseudo := st.Copy()
		pseudo.InitialHeight = 1
		pseudo.LastBlockHeight = st.LastBlockHeight - 2
		pseudo.NextValidators = st.LastValidators.Copy()
		pseudo.Validators = st.LastValidators.Copy()
		pseudo.LastHeightValidatorsChanged = st.LastBlockHeight
		pseudo.LastHeightConsensusParamsChanged = st.LastBlockHeight - 1
		if pseudo.LastBlockHeight+1 == pseudo.InitialHeight {
			pseudo.LastHeightValidatorsChanged = pseudo.LastBlockHeight + 2
		}
		func() {
			defer func() { recover() }()
			sm.SaveState(db, pseudo)
		}()
	}
	return db
}

// execApply runs the real ApplyBlock: a refused block must be refused with
// ValidateBlock's error, an applied one must have been valid (oracle), and the new
// State's block-derived fields are printed for the model's `advance`.
func execApply(sp *stateSpec, st sm.State, fresh func() *types.Block) (impl string, oracle string) {
	if applyConns == nil {
		applyConns = appconn.NewAppConns(proxy.NewLocalClientCreator(&applyApp{}))
		if err := applyConns.Start(); err != nil {
			panic(err)
		}
	}
	st.LastHeightValidatorsChanged = st.InitialHeight
	st.LastHeightConsensusParamsChanged = st.InitialHeight
	be := sm.NewBlockExecutor(prepareDB(st), log.NewNoopLogger(), applyConns.Consensus(), mock.Mempool{})
	b := fresh()
	bid := types.BlockID{Hash: h32("c32-apply"), PartsHeader: types.PartSetHeader{Total: 1, Hash: h32("c32-apply-parts")}}
	var ns sm.State
	cls, panicked := guarded(func() error {
		var err error
		ns, err = be.ApplyBlock(st, bid, b)
		return err
	})
	bad := violated(st, fresh())
	if panicked {
		return cls, "VIOL:panic ApplyBlock panicked on a decodable block: " + cls
	}
	if cls != "ok" {
		if len(bad) > 0 {
			return cls, "ok"
		}
		return cls, "-"
	}
	impl = fmt.Sprintf("ok h=%d tot=%d time=%s lastvals=%s lbid=%s", ns.LastBlockHeight, ns.LastBlockTotalTx,
		timeNS(ns.LastBlockTime).String(), valsDigest(ns.LastValidators), bit(ns.LastBlockID.Equals(bid)))
	if len(bad) > 0 {
		return impl, "VIOL:applied-invalid ApplyBlock applied a block although: " + strings.Join(bad, ",")
	}
	_ = sp
	// the statement's link conditions on the new state
	if ns.LastBlockHeight != b.Height || !ns.LastBlockTime.Equal(b.Time) || !ns.LastBlockID.Equals(bid) ||
		valsTok(ns.LastValidators) != valsTok(st.Validators) {
		return impl, "VIOL:bad-advance the State after ApplyBlock does not describe the applied block"
	}
	return impl, "ok"
}

func main() {
	kit.Main(&kit.Harness{Gen: gen, Exec: exec})
}
