package main

import (
	"fmt"
	"sort"
	"strings"

	"gnoverif/kit"
)

// ---------------------------------------------------------------- generator
//
// Three streams from the one *kit.Rand: (i) a boundary table (fixed scripts:
// empty tree, the empty key, each rotation case on insert and on remove,
// ascending/descending runs, prefix chains, re-insert after remove, every
// range end equal/adjacent to a key, start > end, offsets/counts out of
// range); (ii) structured random histories over small key pools so that
// collisions and adjacency are the norm; (iii) a malformed stream.

func h(s string) string { return kit.Hex([]byte(s)) }

type pool struct {
	name string
	keys []string
}

func pools(r *kit.Rand) []pool {
	var seq []string
	for i := 0; i < 40; i++ {
		seq = append(seq, fmt.Sprintf("k%02d", i))
	}
	var bytes1 []string
	for i := 0; i < 12; i++ {
		bytes1 = append(bytes1, string([]byte{byte(i)}))
	}
	bytes1 = append(bytes1, "", "\xfe", "\xff", "\xff\x00", "\xff\xff")
	var rnd []string
	al := []byte{0x00, 0x61, 0x62, 0xff}
	for i := 0; i < 24; i++ {
		n := 1 + r.Intn(3)
		b := make([]byte, n)
		for j := range b {
			b[j] = al[r.Intn(len(al))]
		}
		rnd = append(rnd, string(b))
	}
	rnd = append(rnd, "")
	var wide []string // a large universe: deep trees (height 8-9) in the thorough tier
	for i := 0; i < 400; i++ {
		wide = append(wide, string([]byte{byte(i / 20), byte(i % 20 * 13)}))
	}
	return []pool{
		{"tiny", []string{"", "a", "b", "c"}},
		{"prefix", []string{"", "a", "aa", "aaa", "aab", "ab", "a\x00", "a\x00\x00", "a\xff", "b", "b\x00", "\x00", "\x00\x00"}},
		{"bytes", bytes1},
		{"seq", seq},
		{"rnd", rnd},
		{"utf8", []string{"", "é", "e", "f", "\xc3", "\xc3\xa9\x00", "日本", "日", "\xe6", "z"}},
		{"wide", wide},
	}
}

// neighbours of a key in byte order: itself, its successor k+"\x00", a
// predecessor-ish string, and the key with its last byte bumped.
func near(r *kit.Rand, k string) string {
	switch r.Intn(5) {
	case 0:
		return k
	case 1:
		return k + "\x00"
	case 2:
		if len(k) > 0 {
			return k[:len(k)-1]
		}
		return k
	case 3:
		if len(k) > 0 && k[len(k)-1] < 0xff {
			return k[:len(k)-1] + string([]byte{k[len(k)-1] + 1})
		}
		return k + "\xff"
	default:
		if len(k) > 0 && k[len(k)-1] > 0 {
			return k[:len(k)-1] + string([]byte{k[len(k)-1] - 1}) + "\xff"
		}
		return k
	}
}

func bound(r *kit.Rand, p pool) string {
	if r.Chance(25) {
		return ""
	}
	k := kit.Pick(r, p.keys)
	if r.Chance(50) {
		return near(r, k)
	}
	return k
}

func stopN(r *kit.Rand) int {
	if r.Chance(60) {
		return 0
	}
	return 1 + r.Intn(6)
}

var extremeInts = []string{"9223372036854775807", "-9223372036854775808", "9223372036854775806", "-1", "0", "1", "4611686018427387904"}

func smallInt(r *kit.Rand, size int) string {
	if r.Chance(8) {
		return kit.Pick(r, extremeInts)
	}
	return fmt.Sprint(r.Range(-2, size+2))
}

func randomCase(w *kit.Out, r *kit.Rand, p pool, nops int) {
	live := map[string]bool{}
	val := 0
	for i := 0; i < nops; i++ {
		k := kit.Pick(r, p.keys)
		if r.Chance(10) {
			k = near(r, k)
		}
		x := r.Intn(100)
		switch {
		case x < 34:
			val++
			v := fmt.Sprintf("v%d", val)
			if r.Chance(5) {
				v = ""
			}
			w.Op("set %s %s", h(k), h(v))
			live[k] = true
		case x < 54:
			if r.Chance(70) && len(live) > 0 { // mostly remove a present key
				k = pickLive(live, r)
			}
			w.Op("rm %s", h(k))
			delete(live, k)
		case x < 61:
			w.Op("get %s", h(k))
		case x < 64:
			w.Op("nget %s", h(k))
		case x < 68:
			w.Op("has %s", h(k))
		case x < 70:
			w.Op("size")
		case x < 78:
			w.Op("idx %s", smallInt(r, len(live)))
		case x < 85:
			w.Op("it %s %s %d", h(bound(r, p)), h(bound(r, p)), stopN(r))
		case x < 91:
			w.Op("rit %s %s %d", h(bound(r, p)), h(bound(r, p)), stopN(r))
		case x < 95:
			w.Op("ito %s %s %d", smallInt(r, len(live)), smallInt(r, len(live)), stopN(r))
		case x < 98:
			w.Op("rito %s %s %d", smallInt(r, len(live)), smallInt(r, len(live)), stopN(r))
		default:
			w.Op("shape")
		}
	}
	w.Op("shape")
	w.Op("it e e 0")
	w.Op("rit e e 0")
}

// pickLive picks a live key deterministically in r (independent of Go's map order).
func pickLive(live map[string]bool, r *kit.Rand) string {
	ks := make([]string, 0, len(live))
	for k := range live {
		ks = append(ks, k)
	}
	sort.Strings(ks)
	return ks[r.Intn(len(ks))]
}

// probes: every read op against a set of interesting bounds
func probes(w *kit.Out, keys []string, size int) {
	w.Op("shape")
	w.Op("size")
	bounds := append([]string{""}, keys...)
	for _, k := range keys {
		bounds = append(bounds, k+"\x00")
	}
	for _, k := range keys {
		w.Op("get %s", h(k))
		w.Op("has %s", h(k))
		w.Op("nget %s", h(k))
		w.Op("nget %s", h(k+"\x00"))
	}
	for _, s := range bounds {
		for _, e := range bounds {
			w.Op("it %s %s 0", h(s), h(e))
			w.Op("rit %s %s 0", h(s), h(e))
		}
	}
	for i := -1; i <= size+1; i++ {
		w.Op("idx %d", i)
	}
	for off := -1; off <= size+1; off++ {
		for cnt := -1; cnt <= size+1; cnt++ {
			w.Op("ito %d %d 0", off, cnt)
			w.Op("rito %d %d 0", off, cnt)
		}
		w.Op("ito %d 9223372036854775807 0", off)
		w.Op("rito %d 9223372036854775807 2", off)
	}
	for n := 1; n <= size+1; n++ {
		w.Op("it e e %d", n)
		w.Op("rit e e %d", n)
		w.Op("ito 0 %d %d", size, n)
		w.Op("rito 1 %d %d", size, n)
	}
}

func boundary(w *kit.Out) {
	// empty tree
	w.Case("b/empty")
	for _, l := range []string{"size", "get e", "get 61", "nget e", "has e", "idx 0", "idx -1", "idx 1",
		"idx 9223372036854775807", "idx -9223372036854775808", "rm e", "rm 61", "it e e 0", "rit e e 1",
		"ito 0 1 0", "rito -1 -1 0", "shape"} {
		w.Op("%s", l)
	}
	// the empty key alone, then with neighbours
	w.Case("b/emptykey")
	w.Op("set e 76")
	probes(w, []string{""}, 1)
	w.Op("set 00 77")
	w.Op("set e 78")
	probes(w, []string{"", "\x00"}, 2)
	w.Op("rm e")
	probes(w, []string{"\x00"}, 1)
	w.Op("rm 00")
	w.Op("shape")
	w.Op("set e 79")
	w.Op("rm e")
	w.Op("rm e")
	w.Op("shape")
	// three keys, all probes
	w.Case("b/three")
	for _, k := range []string{"b", "a", "c"} {
		w.Op("set %s %s", h(k), h("v"+k))
	}
	probes(w, []string{"a", "b", "c"}, 3)
	// ascending and descending runs: single rotations; then removals in both orders
	for _, dir := range []string{"asc", "desc", "inout", "zigzag"} {
		w.Case("b/run-" + dir)
		var ks []string
		for i := 0; i < 33; i++ {
			ks = append(ks, fmt.Sprintf("%02d", i))
		}
		order := make([]string, 0, len(ks))
		switch dir {
		case "asc":
			order = ks
		case "desc":
			for i := len(ks) - 1; i >= 0; i-- {
				order = append(order, ks[i])
			}
		case "inout":
			for i := 0; i < len(ks); i++ {
				if i%2 == 0 {
					order = append(order, ks[len(ks)/2+i/2])
				} else {
					order = append(order, ks[len(ks)/2-1-i/2])
				}
			}
		case "zigzag": // double rotations
			for i, j := 0, len(ks)-1; i <= j; i, j = i+1, j-1 {
				order = append(order, ks[i])
				if i != j {
					order = append(order, ks[j])
				}
			}
		}
		for _, k := range order {
			w.Op("set %s %s", h(k), h("v"+k))
			w.Op("shape")
		}
		w.Op("it e e 0")
		w.Op("rit e e 0")
		for i := -1; i <= len(ks); i++ {
			w.Op("idx %d", i)
		}
		w.Op("ito 5 7 0")
		w.Op("rito 5 7 0")
		w.Op("ito 30 7 0")
		w.Op("it %s %s 0", h("10"), h("20"))
		w.Op("rit %s %s 0", h("10"), h("20"))
		w.Op("it %s %s 0", h("20"), h("10"))
		// update every key (no shape change), then remove in the same order
		for _, k := range order {
			w.Op("set %s %s", h(k), h("w"+k))
		}
		w.Op("shape")
		for _, k := range order {
			w.Op("rm %s", h(k))
			w.Op("shape")
			w.Op("rm %s", h(k)) // absent now
		}
		w.Op("size")
		// re-insert after remove
		for _, k := range order[:5] {
			w.Op("set %s %s", h(k), h("x"+k))
		}
		w.Op("shape")
		w.Op("it e e 0")
	}
	// remove the leftmost key of a right subtree (inner key must be refreshed)
	w.Case("b/refresh-inner-key")
	for _, k := range []string{"d", "b", "f", "a", "c", "e", "g"} {
		w.Op("set %s %s", h(k), h("v"+k))
	}
	w.Op("shape")
	w.Op("rm %s", h("d"))
	w.Op("shape")
	w.Op("has %s", h("d"))
	w.Op("get %s", h("e"))
	w.Op("nget %s", h("d"))
	w.Op("rm %s", h("e"))
	w.Op("shape")
	w.Op("rm %s", h("a"))
	w.Op("rm %s", h("b"))
	w.Op("shape")
	w.Op("it e e 0")
	// prefix chain with the empty key
	w.Case("b/prefix")
	pk := []string{"a", "", "aa", "a\x00", "ab", "aaa"}
	for _, k := range pk {
		w.Op("set %s %s", h(k), h("v"))
	}
	probes(w, []string{"", "a", "a\x00", "aa", "aaa", "ab"}, 6)
}

func malformed(w *kit.Out, r *kit.Rand) {
	w.Case("m/tokens")
	w.Op("set 61 76")
	for _, l := range []string{
		"set", "set 61", "set 61 76 76", "set 6 76", "set 6g 76", "set 61 -", "set - 76", "set 6A 76", "SET 61 76",
		"rm", "rm zz", "rm 61 61", "get", "get 6", "has", "has xyz", "size 1", "idx", "idx x", "idx 1.0", "idx +1",
		"idx 9223372036854775808", "idx -9223372036854775809", "idx 00000000000000000001", "idx 0000000000000000001", "idx --1", "idx -",
		"it e e", "it e e -1", "it e e 10000", "it e 0", "it 6 e 0", "rit e e x", "ito 0 0", "ito x 0 0", "ito 0 x 0",
		"rito 0 0 0 0", "shape x", "nget", "foo", "e", "-",
	} {
		w.Op("%s", l)
	}
	w.Op("shape")
	w.Op("get 61")
	w.Case("m/random")
	toks := []string{"set", "rm", "get", "it", "ito", "idx", "e", "-", "61", "6", "zz", "0", "-1", "99999999999999999999", "shape", "size"}
	for i := 0; i < 60; i++ {
		n := 1 + r.Intn(5)
		parts := make([]string, n)
		for j := range parts {
			parts[j] = kit.Pick(r, toks)
		}
		w.Op("%s", strings.Join(parts, " "))
	}
	w.Op("shape")
}

func gen(w *kit.Out, r *kit.Rand, tier string) {
	boundary(w)
	rr := r.Fork()
	rm := r.Fork()
	ps := pools(r.Fork())
	ncases, maxops := 320, 60
	if tier == "thorough" {
		ncases, maxops = 260, 400
	}
	for c := 0; c < ncases; c++ {
		p := ps[c%len(ps)]
		nops := 1 + rr.Intn(maxops)
		if tier == "thorough" && c%5 == 0 {
			nops = 1 + rr.Intn(60)
		}
		w.Case(fmt.Sprintf("r/%s/%d", p.name, c))
		randomCase(w, rr, p, nops)
	}
	malformed(w, rm)
}
