// Harness for C50: the Gno avl package (examples/gno.land/p/nt/avl/v0) is a
// balanced ordered map.
//
// The REAL .gno package runs inside the GnoVM in-process (gnoverif/gnorun):
// one store per process, the avl package imported once from /repo/examples, a
// small fixed Gno `main` package (gnoSrc below) holding `var t avl.Tree` (the
// object under test) and `var n *avl.Node` (a shadow root driven through the
// exported Node API with the same Set/Remove calls — `tree.node` is unexported,
// and the shadow is what lets the harness see inner nodes).  Every op line is
// one Machine.Eval of a call into that package.
//
// op lines (K,V,S,E lowercase hex, `e` = empty; I,OFF,CNT int64; N 0..9999):
//
//	set K V | rm K | get K | nget K | has K | size | idx I |
//	it S E N | rit S E N | ito OFF CNT N | rito OFF CNT N | shape
//
// canonical outputs: see lean/GnoVerif/Drive/C50.lean.
//
// Oracle (independent of the Lean model): a Go map + sorted key slice
// evaluating the property statement directly — set/remove/get/has/size/index/
// range (with the package's documented conventions: "" = unbounded, start
// inclusive, end exclusive ascending and inclusive descending)/offset windows —
// and, after EVERY set/rm and at every `shape`, the shape reconstructed from the
// pre-order of all nodes (exported Node.TraverseInRange with leavesOnly=false):
// leaves in order == the oracle's keys, every inner key == smallest key of its
// right subtree and > every key on its left, Size() == number of leaves, and
// |height(left) − height(right)| ≤ 1 with heights recomputed from the shape.
package main

import (
	"fmt"
	"os"
	"sort"
	"strconv"
	"strings"

	"gnoverif/gnorun"
	"gnoverif/kit"
)

const gnoSrc = `package main

import (
	"strconv"

	"gno.land/p/nt/avl/v0"
)

var t avl.Tree   // object under test (zero value = empty tree)
var n *avl.Node  // shadow root, same operations through the exported Node API

func reset() { t = avl.Tree{}; n = nil }

func enc(s string) string { return strconv.Itoa(len(s)) + ":" + s }

func encv(v any) string {
	if v == nil {
		return "-"
	}
	return enc(v.(string))
}

func b(x bool) string {
	if x {
		return "T"
	}
	return "F"
}

func tSet(k, v string) bool { return t.Set(k, v) }

func nSet(k, v string) bool {
	nn, upd := n.Set(k, v)
	n = nn
	return upd
}

func tRm(k string) string {
	v, removed := t.Remove(k)
	return b(removed) + encv(v)
}

func nRm(k string) string {
	nn, _, v, removed := n.Remove(k)
	n = nn
	return b(removed) + encv(v)
}

func tGet(k string) string { return encv(t.Get(k)) }

func nGet(k string) string {
	i, v, ex := n.Get(k)
	return strconv.Itoa(i) + " " + b(ex) + encv(v)
}

func tHas(k string) bool { return t.Has(k) }
func tSize() int         { return t.Size() }

func tIdx(i int) string {
	k, v := t.GetByIndex(i)
	return enc(k) + encv(v)
}

// mode: 0 Iterate, 1 ReverseIterate, 2 IterateByOffset, 3 ReverseIterateByOffset
func tIter(mode int, s, e string, off, cnt int, stopAt int) string {
	out := ""
	calls := 0
	cb := func(k string, v any) bool {
		calls++
		out += enc(k) + encv(v)
		return calls == stopAt
	}
	ret := false
	switch mode {
	case 0:
		ret = t.Iterate(s, e, cb)
	case 1:
		ret = t.ReverseIterate(s, e, cb)
	case 2:
		ret = t.IterateByOffset(off, cnt, cb)
	case 3:
		ret = t.ReverseIterateByOffset(off, cnt, cb)
	}
	return b(ret) + out
}

// pre-order of all nodes of the shadow root
func nShape() string {
	out := ""
	n.TraverseInRange("", "", true, false, func(x *avl.Node) bool {
		if x.IsLeaf() {
			out += "L" + enc(x.Key())
		} else {
			out += "I" + strconv.Itoa(x.Size()) + ";" + enc(x.Key())
		}
		return false
	})
	return out
}

// leaves of the real Tree in order (to tie the shadow to the Tree)
func tKeys() string {
	out := ""
	t.Iterate("", "", func(k string, v any) bool { out += enc(k); return false })
	return out
}
`

// ---------------------------------------------------------------- VM plumbing

var (
	runner *gnorun.Runner
	pkg    *gnorun.Pkg
)

func vm() *gnorun.Pkg {
	if pkg == nil {
		root := os.Getenv("VERIF_REPO") // same override the runner honours
		if root == "" {
			root = "/repo"
		}
		runner = gnorun.New(root)
		p, perr := runner.Load("main", "main", map[string]string{"main.gno": gnoSrc})
		if perr != nil {
			panic("cannot load gno driver package: " + perr.String())
		}
		pkg = p
	}
	return pkg
}

// classify a Gno panic of the avl package into the canonical token
func panicToken(p *gnorun.Panic) string {
	switch {
	case !p.Gno:
		return "panic:vm " + p.Msg
	case strings.Contains(p.Msg, "negative index not allowed"):
		return "panic:neg"
	case strings.Contains(p.Msg, "asked for invalid index"):
		return "panic:idx"
	case strings.Contains(p.Msg, "nil pointer dereference"):
		return "panic:nilderef"
	case strings.Contains(p.Msg, "copying a value node"):
		return "panic:copyleaf"
	}
	return "panic:other " + p.Msg
}

// dec reads one `len:bytes` item (or `-` for nil) from s.
func dec(s string) (item string, isNil bool, rest string) {
	if strings.HasPrefix(s, "-") {
		return "", true, s[1:]
	}
	i := strings.IndexByte(s, ':')
	if i < 0 {
		panic("bad enc " + s)
	}
	l, err := strconv.Atoi(s[:i])
	if err != nil {
		panic("bad enc len " + s)
	}
	return s[i+1 : i+1+l], false, s[i+1+l:]
}

func hx(s string) string { return kit.Hex([]byte(s)) }
func hxv(s string, isNil bool) string {
	if isNil {
		return "-"
	}
	return hx(s)
}

// ---------------------------------------------------------------- oracle state

type omap struct {
	m map[string]string
}

var spec = omap{m: map[string]string{}}

func (o *omap) sorted() []string {
	ks := make([]string, 0, len(o.m))
	for k := range o.m {
		ks = append(ks, k)
	}
	sort.Strings(ks) // Go string order = byte-wise
	return ks
}

type shapeNode struct {
	leaf        bool
	key         string
	size        int
	left, right *shapeNode
	h, leaves   int
	min, max    string
}

func parseShape(s string) (root *shapeNode, tokens []string, err error) {
	var rec func() *shapeNode
	rec = func() *shapeNode {
		if s == "" {
			err = fmt.Errorf("truncated pre-order")
			return nil
		}
		switch s[0] {
		case 'L':
			k, _, rest := dec(s[1:])
			s = rest
			tokens = append(tokens, "L"+hx(k))
			return &shapeNode{leaf: true, key: k, size: 1, leaves: 1, min: k, max: k}
		case 'I':
			i := strings.IndexByte(s, ';')
			sz, _ := strconv.Atoi(s[1:i])
			k, _, rest := dec(s[i+1:])
			s = rest
			tokens = append(tokens, "I"+hx(k)+":"+strconv.Itoa(sz))
			nd := &shapeNode{key: k, size: sz}
			nd.left = rec()
			if err != nil {
				return nil
			}
			nd.right = rec()
			if err != nil {
				return nil
			}
			nd.h = max(nd.left.h, nd.right.h) + 1
			nd.leaves = nd.left.leaves + nd.right.leaves
			nd.min, nd.max = nd.left.min, nd.right.max
			return nd
		}
		err = fmt.Errorf("bad pre-order")
		return nil
	}
	if s == "" {
		return nil, nil, nil
	}
	root = rec()
	if err == nil && s != "" {
		err = fmt.Errorf("trailing nodes in pre-order")
	}
	return
}

// checkShape evaluates "is a height-balanced search tree holding exactly the
// oracle's keys" on the implementation's node structure.
func checkShape() (tokens []string, verdict string) {
	p := vm()
	res := p.Call("nShape")
	if res.Panic != nil {
		return nil, "VIOL:shape-panic " + res.Panic.String()
	}
	root, tokens, err := parseShape(res.Str(0))
	if err != nil {
		return tokens, "VIOL:shape-malformed " + err.Error()
	}
	var leaves []string
	verdict = "ok"
	var walk func(x *shapeNode)
	walk = func(x *shapeNode) {
		if x.leaf {
			leaves = append(leaves, x.key)
			return
		}
		if d := x.left.h - x.right.h; d > 1 || d < -1 {
			verdict = fmt.Sprintf("VIOL:unbalanced node %s: height(left)=%d height(right)=%d", hx(x.key), x.left.h, x.right.h)
		}
		if x.size != x.leaves {
			verdict = fmt.Sprintf("VIOL:size-cache node %s: Size()=%d leaves=%d", hx(x.key), x.size, x.leaves)
		}
		if !(x.left.max < x.key && x.key == x.right.min) {
			verdict = fmt.Sprintf("VIOL:search-order node %s: left max %s right min %s", hx(x.key), hx(x.left.max), hx(x.right.min))
		}
		walk(x.left)
		walk(x.right)
	}
	if root != nil {
		walk(root)
	}
	want := spec.sorted()
	if !equalStrings(leaves, want) {
		verdict = fmt.Sprintf("VIOL:leaves shadow node leaves %v != map keys %v", hexAll(leaves), hexAll(want))
	}
	// tie the shadow to the real Tree
	rk := p.Call("tKeys")
	if rk.Panic != nil {
		return tokens, "VIOL:iterate-panic " + rk.Panic.String()
	}
	var tk []string
	for s := rk.Str(0); s != ""; {
		var k string
		k, _, s = dec(s)
		tk = append(tk, k)
	}
	if !equalStrings(tk, want) {
		verdict = fmt.Sprintf("VIOL:keys Tree.Iterate keys %v != map keys %v", hexAll(tk), hexAll(want))
	}
	return tokens, verdict
}

func equalStrings(a, b []string) bool {
	if len(a) != len(b) {
		return false
	}
	for i := range a {
		if a[i] != b[i] {
			return false
		}
	}
	return true
}

func hexAll(a []string) []string {
	o := make([]string, len(a))
	for i, s := range a {
		o[i] = hx(s)
	}
	return o
}

// ---------------------------------------------------------------- parsing (strict, mirrors the Lean driver)

func parseHex(s string) (string, bool) {
	if s == "-" || s != strings.ToLower(s) {
		return "", false
	}
	b, err := kit.UnHex(s)
	if err != nil {
		return "", false
	}
	return string(b), true
}

func allDigits(s string) bool {
	for i := 0; i < len(s); i++ {
		if s[i] < '0' || s[i] > '9' {
			return false
		}
	}
	return true
}

func parseI64(s string) (int64, bool) {
	d := strings.TrimPrefix(s, "-")
	if d == "" || len(d) > 19 || !allDigits(d) {
		return 0, false
	}
	v, err := strconv.ParseInt(s, 10, 64)
	if err != nil {
		return 0, false
	}
	return v, true
}

func parseStop(s string) (int, bool) {
	if s == "" || len(s) > 4 || !allDigits(s) {
		return 0, false
	}
	v, _ := strconv.Atoi(s)
	return v, true
}

// ---------------------------------------------------------------- exec

func reset() {
	spec = omap{m: map[string]string{}}
	if res := vm().Call("reset"); res.Panic != nil {
		panic("reset: " + res.Panic.String())
	}
}

func boolStr(b bool) string {
	if b {
		return "true"
	}
	return "false"
}

const bad = "err:badop"

func exec(t []string) (string, string) {
	if len(t) == 0 {
		return bad, "-"
	}
	p := vm()
	switch {
	case t[0] == "set" && len(t) == 3:
		k, ok1 := parseHex(t[1])
		v, ok2 := parseHex(t[2])
		if !ok1 || !ok2 {
			return bad, "-"
		}
		res := p.Call("tSet", k, v)
		if res.Panic != nil {
			return panicToken(res.Panic), "VIOL:set-panic " + res.Panic.String()
		}
		upd := res.Bool(0)
		out := boolStr(upd)
		if r2 := p.Call("nSet", k, v); r2.Panic != nil || r2.Bool(0) != upd {
			out += " !shadow"
		}
		_, existed := spec.m[k]
		spec.m[k] = v
		if upd != existed {
			return out, fmt.Sprintf("VIOL:set-updated Set reported updated=%v but key present before=%v", upd, existed)
		}
		_, verdict := checkShape()
		return out, verdict
	case t[0] == "rm" && len(t) == 2:
		k, ok := parseHex(t[1])
		if !ok {
			return bad, "-"
		}
		res := p.Call("tRm", k)
		if res.Panic != nil {
			return panicToken(res.Panic), "VIOL:remove-panic " + res.Panic.String()
		}
		s := res.Str(0)
		removed := s[0] == 'T'
		v, isNil, _ := dec(s[1:])
		out := hxv(v, isNil) + " " + boolStr(removed)
		if r2 := p.Call("nRm", k); r2.Panic != nil || r2.Str(0) != s {
			out += " !shadow"
		}
		want, existed := spec.m[k]
		delete(spec.m, k)
		if removed != existed || (existed && (isNil || v != want)) || (!existed && !isNil) {
			return out, fmt.Sprintf("VIOL:remove-result got (%s,%v) want (%s,%v)", hxv(v, isNil), removed, hxv(want, !existed), existed)
		}
		_, verdict := checkShape()
		return out, verdict
	case t[0] == "get" && len(t) == 2:
		k, ok := parseHex(t[1])
		if !ok {
			return bad, "-"
		}
		res := p.Call("tGet", k)
		if res.Panic != nil {
			return panicToken(res.Panic), "VIOL:get-panic " + res.Panic.String()
		}
		v, isNil, _ := dec(res.Str(0))
		want, existed := spec.m[k]
		verdict := "ok"
		if isNil == existed || (existed && v != want) {
			verdict = fmt.Sprintf("VIOL:get got %s want %s", hxv(v, isNil), hxv(want, !existed))
		}
		return hxv(v, isNil), verdict
	case t[0] == "nget" && len(t) == 2:
		k, ok := parseHex(t[1])
		if !ok {
			return bad, "-"
		}
		res := p.Call("nGet", k)
		if res.Panic != nil {
			return panicToken(res.Panic), "VIOL:get-panic " + res.Panic.String()
		}
		s := res.Str(0)
		sp := strings.IndexByte(s, ' ')
		idx, _ := strconv.Atoi(s[:sp])
		ex := s[sp+1] == 'T'
		v, isNil, _ := dec(s[sp+2:])
		want, existed := spec.m[k]
		rank := 0
		for kk := range spec.m {
			if kk < k {
				rank++
			}
		}
		verdict := "ok"
		if ex != existed || isNil == existed || (existed && v != want) || idx != rank {
			verdict = fmt.Sprintf("VIOL:node-get got (%d,%s,%v) want (%d,%s,%v)", idx, hxv(v, isNil), ex, rank, hxv(want, !existed), existed)
		}
		return fmt.Sprintf("%d %s %s", idx, hxv(v, isNil), boolStr(ex)), verdict
	case t[0] == "has" && len(t) == 2:
		k, ok := parseHex(t[1])
		if !ok {
			return bad, "-"
		}
		res := p.Call("tHas", k)
		if res.Panic != nil {
			return panicToken(res.Panic), "VIOL:has-panic " + res.Panic.String()
		}
		_, existed := spec.m[k]
		verdict := "ok"
		if res.Bool(0) != existed {
			verdict = fmt.Sprintf("VIOL:has got %v want %v", res.Bool(0), existed)
		}
		return boolStr(res.Bool(0)), verdict
	case t[0] == "size" && len(t) == 1:
		res := p.Call("tSize")
		if res.Panic != nil {
			return panicToken(res.Panic), "VIOL:size-panic " + res.Panic.String()
		}
		verdict := "ok"
		if int(res.Int(0)) != len(spec.m) {
			verdict = fmt.Sprintf("VIOL:size got %d want %d", res.Int(0), len(spec.m))
		}
		return strconv.FormatInt(res.Int(0), 10), verdict
	case t[0] == "idx" && len(t) == 2:
		i, ok := parseI64(t[1])
		if !ok {
			return bad, "-"
		}
		res := p.Call("tIdx", i)
		ks := spec.sorted()
		inRange := i >= 0 && i < int64(len(ks))
		if res.Panic != nil {
			tok := panicToken(res.Panic)
			// An out-of-range index has no answer in an ordered map; the
			// package documents a panic.  A panic on a valid index is a violation.
			if inRange || !res.Panic.Gno {
				return tok, "VIOL:index-panic valid index " + t[1] + ": " + res.Panic.String()
			}
			return tok, "ok"
		}
		s := res.Str(0)
		k, _, rest := dec(s)
		v, isNil, _ := dec(rest)
		out := hx(k) + " " + hxv(v, isNil)
		if !inRange {
			return out, fmt.Sprintf("VIOL:index-oob index %s of %d answered %s", t[1], len(ks), out)
		}
		if k != ks[i] || isNil || v != spec.m[k] {
			return out, fmt.Sprintf("VIOL:index got %s want %s %s", out, hx(ks[i]), hx(spec.m[ks[i]]))
		}
		return out, "ok"
	case (t[0] == "it" || t[0] == "rit") && len(t) == 4:
		s, ok1 := parseHex(t[1])
		e, ok2 := parseHex(t[2])
		n, ok3 := parseStop(t[3])
		if !ok1 || !ok2 || !ok3 {
			return bad, "-"
		}
		asc := t[0] == "it"
		mode := 0
		if !asc {
			mode = 1
		}
		res := p.Call("tIter", mode, s, e, 0, 0, n)
		if res.Panic != nil {
			return panicToken(res.Panic), "VIOL:iterate-panic " + res.Panic.String()
		}
		got, ret, out := decodeIter(res.Str(0))
		// ---- oracle: documented range semantics on the sorted keys
		var want []string
		for _, k := range spec.sorted() {
			lo := s == "" || s <= k
			hi := e == "" || (asc && k < e) || (!asc && k <= e)
			if lo && hi {
				want = append(want, k)
			}
		}
		if !asc {
			reverse(want)
		}
		return out, iterVerdict(got, ret, want, n, true)
	case (t[0] == "ito" || t[0] == "rito") && len(t) == 4:
		off, ok1 := parseI64(t[1])
		cnt, ok2 := parseI64(t[2])
		n, ok3 := parseStop(t[3])
		if !ok1 || !ok2 || !ok3 {
			return bad, "-"
		}
		asc := t[0] == "ito"
		mode := 2
		if !asc {
			mode = 3
		}
		res := p.Call("tIter", mode, "", "", off, cnt, n)
		if res.Panic != nil {
			return panicToken(res.Panic), "VIOL:iterate-panic " + res.Panic.String()
		}
		got, ret, out := decodeIter(res.Str(0))
		ks := spec.sorted()
		if !asc {
			reverse(ks)
		}
		if off < 0 {
			off = 0
		}
		var want []string
		for i := off; i < int64(len(ks)) && int64(len(want)) < cnt; i++ {
			want = append(want, ks[i])
		}
		// the bool result of the ByOffset variants is not part of the property
		// statement (it also reports "limit reached"); only the visit sequence is judged.
		return out, iterVerdict(got, ret, want, n, false)
	case t[0] == "shape" && len(t) == 1:
		tokens, verdict := checkShape()
		if len(tokens) == 0 {
			return "-", verdict
		}
		return strings.Join(tokens, " "), verdict
	}
	return bad, "-"
}

type kv struct {
	k, v string
	nilv bool
}

func decodeIter(s string) (got []kv, ret bool, out string) {
	ret = s[0] == 'T'
	s = s[1:]
	var items []string
	for s != "" {
		var e kv
		e.k, _, s = dec(s)
		e.v, e.nilv, s = dec(s)
		got = append(got, e)
		items = append(items, hx(e.k)+"="+hxv(e.v, e.nilv))
	}
	return got, ret, strings.Join(items, ",") + ";" + boolStr(ret)
}

func iterVerdict(got []kv, ret bool, want []string, stopAt int, judgeRet bool) string {
	stopped := stopAt > 0 && stopAt <= len(want)
	if stopped {
		want = want[:stopAt]
	}
	if len(got) != len(want) {
		return fmt.Sprintf("VIOL:iterate-seq visited %d entries, ordered map has %d: got %v want %v", len(got), len(want), gotKeys(got), hexAll(want))
	}
	for i := range got {
		if got[i].k != want[i] || got[i].nilv || got[i].v != spec.m[want[i]] {
			return fmt.Sprintf("VIOL:iterate-seq position %d: got %s want %s", i, hx(got[i].k), hx(want[i]))
		}
	}
	if judgeRet && ret != stopped {
		return fmt.Sprintf("VIOL:iterate-ret returned %v but callback stopped=%v", ret, stopped)
	}
	return "ok"
}

func gotKeys(g []kv) []string {
	o := make([]string, len(g))
	for i := range g {
		o[i] = hx(g[i].k)
	}
	return o
}

func reverse(a []string) {
	for i, j := 0, len(a)-1; i < j; i, j = i+1, j-1 {
		a[i], a[j] = a[j], a[i]
	}
}

// clip mirrors Drive/C50.lean `clip`: the kit cuts lines at 300 bytes, so long
// outputs are replaced by length + FNV-1a 64 + a 160-char prefix.
func clip(s string) string {
	if len(s) <= 240 {
		return s
	}
	h := uint64(14695981039346656037)
	for i := 0; i < len(s); i++ {
		h = (h ^ uint64(s[i])) * 1099511628211
	}
	return fmt.Sprintf("#%d:%d:%s", len(s), h, s[:160])
}

func execClip(t []string) (string, string) {
	out, verdict := exec(t)
	return clip(out), verdict
}

func main() {
	kit.Main(&kit.Harness{Gen: gen, Reset: reset, Exec: execClip})
}
