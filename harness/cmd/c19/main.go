// Harness for C19: overflow-checked integer arithmetic (tm2/pkg/overflow).
//
// op line:  <fn> <type> <a> <b>      fn ∈ add sub mul div addp subp mulp divp
//                                    type ∈ i8 i16 i32 i64 int u8 u16 u32 u64 uint
// output:   checked:   <c>:<true|false>
//           panicking: <c>  |  panic:overflow
// oracle:   math/big — ok ⇔ exact result representable; on ok the value is exact.
package main

import (
	"fmt"
	"math/big"

	"github.com/gnolang/gno/tm2/pkg/overflow"
	"gnoverif/kit"
)

type num interface {
	~int | ~int8 | ~int16 | ~int32 | ~int64 | ~uint | ~uint8 | ~uint16 | ~uint32 | ~uint64
}

func do[N num](fn string, a, b N) (c N, ok bool, panicked bool) {
	defer func() {
		if recover() != nil {
			panicked = true
		}
	}()
	switch fn {
	case "add":
		c, ok = overflow.Add(a, b)
	case "sub":
		c, ok = overflow.Sub(a, b)
	case "mul":
		c, ok = overflow.Mul(a, b)
	case "div":
		c, ok = overflow.Div(a, b)
	case "addp":
		c = overflow.Addp(a, b)
	case "subp":
		c = overflow.Subp(a, b)
	case "mulp":
		c = overflow.Mulp(a, b)
	case "divp":
		c = overflow.Divp(a, b)
	default:
		panic("bad fn")
	}
	return
}

var widths = map[string]int{"i8": 8, "i16": 16, "i32": 32, "i64": 64, "int": 64, "u8": 8, "u16": 16, "u32": 32, "u64": 64, "uint": 64}

func signed(ty string) bool { return ty[0] == 'i' }

func bounds(ty string) (lo, hi *big.Int) {
	w := uint(widths[ty])
	if signed(ty) {
		hi = new(big.Int).Lsh(big.NewInt(1), w-1)
		lo = new(big.Int).Neg(hi)
		hi.Sub(hi, big.NewInt(1))
		return
	}
	lo = big.NewInt(0)
	hi = new(big.Int).Lsh(big.NewInt(1), w)
	hi.Sub(hi, big.NewInt(1))
	return
}

func run(fn, ty string, A, B *big.Int) (cs string, ok, panicked bool) {
	if signed(ty) {
		a, b := A.Int64(), B.Int64()
		var c int64
		switch ty {
		case "i8":
			x, o, p := do(fn, int8(a), int8(b))
			c, ok, panicked = int64(x), o, p
		case "i16":
			x, o, p := do(fn, int16(a), int16(b))
			c, ok, panicked = int64(x), o, p
		case "i32":
			x, o, p := do(fn, int32(a), int32(b))
			c, ok, panicked = int64(x), o, p
		case "i64":
			x, o, p := do(fn, int64(a), int64(b))
			c, ok, panicked = int64(x), o, p
		case "int":
			x, o, p := do(fn, int(a), int(b))
			c, ok, panicked = int64(x), o, p
		}
		return fmt.Sprint(c), ok, panicked
	}
	a, b := A.Uint64(), B.Uint64()
	var c uint64
	switch ty {
	case "u8":
		x, o, p := do(fn, uint8(a), uint8(b))
		c, ok, panicked = uint64(x), o, p
	case "u16":
		x, o, p := do(fn, uint16(a), uint16(b))
		c, ok, panicked = uint64(x), o, p
	case "u32":
		x, o, p := do(fn, uint32(a), uint32(b))
		c, ok, panicked = uint64(x), o, p
	case "u64":
		x, o, p := do(fn, uint64(a), uint64(b))
		c, ok, panicked = uint64(x), o, p
	case "uint":
		x, o, p := do(fn, uint(a), uint(b))
		c, ok, panicked = uint64(x), o, p
	}
	return fmt.Sprint(c), ok, panicked
}

func exec(t []string) (string, string) {
	fn, ty := t[0], t[1]
	A, _ := new(big.Int).SetString(t[2], 10)
	B, _ := new(big.Int).SetString(t[3], 10)
	lo, hi := bounds(ty)
	if A == nil || B == nil || A.Cmp(lo) < 0 || A.Cmp(hi) > 0 || B.Cmp(lo) < 0 || B.Cmp(hi) > 0 {
		return "err:badop", "-"
	}
	cs, ok, panicked := run(fn, ty, A, B)
	// ---- oracle (independent: math/big)
	base := fn
	pv := false
	if len(fn) == 4 {
		base, pv = fn[:3], true
	}
	var exact *big.Int
	switch base {
	case "add":
		exact = new(big.Int).Add(A, B)
	case "sub":
		exact = new(big.Int).Sub(A, B)
	case "mul":
		exact = new(big.Int).Mul(A, B)
	case "div":
		if B.Sign() != 0 {
			exact = new(big.Int).Quo(A, B) // truncated
		}
	}
	wantOK := exact != nil && exact.Cmp(lo) >= 0 && exact.Cmp(hi) <= 0
	oracle := "ok"
	if pv {
		if panicked == wantOK {
			oracle = fmt.Sprintf("VIOL:panic-mismatch %s %s: panicked=%v but representable=%v", fn, ty, panicked, wantOK)
		} else if !panicked && cs != exact.String() {
			oracle = fmt.Sprintf("VIOL:wrong-value %s %s: got %s want %s", fn, ty, cs, exact)
		}
		if panicked {
			return "panic:overflow", oracle
		}
		return cs, oracle
	}
	if ok != wantOK {
		oracle = fmt.Sprintf("VIOL:ok-mismatch %s %s: ok=%v but representable=%v", fn, ty, ok, wantOK)
	} else if ok && cs != exact.String() {
		oracle = fmt.Sprintf("VIOL:wrong-value %s %s: got %s want %s", fn, ty, cs, exact)
	}
	return fmt.Sprintf("%s:%v", cs, ok), oracle
}

var types = []string{"i8", "i16", "i32", "i64", "int", "u8", "u16", "u32", "u64", "uint"}
var fns = []string{"add", "sub", "mul", "div", "addp", "subp", "mulp", "divp"}

func lattice(ty string) []*big.Int {
	lo, hi := bounds(ty)
	w := uint(widths[ty])
	set := map[string]*big.Int{}
	add := func(x *big.Int) {
		if x.Cmp(lo) >= 0 && x.Cmp(hi) <= 0 {
			set[x.String()] = new(big.Int).Set(x)
		}
	}
	for _, d := range []int64{-2, -1, 0, 1, 2, 3} {
		add(big.NewInt(d))
		add(new(big.Int).Add(lo, big.NewInt(d)))
		add(new(big.Int).Add(hi, big.NewInt(d)))
		h := new(big.Int).Lsh(big.NewInt(1), w/2)
		add(new(big.Int).Add(h, big.NewInt(d)))
		add(new(big.Int).Neg(new(big.Int).Add(h, big.NewInt(d))))
		q := new(big.Int).Lsh(big.NewInt(1), w/2-1)
		add(new(big.Int).Add(q, big.NewInt(d)))
		add(new(big.Int).Neg(new(big.Int).Add(q, big.NewInt(d))))
		s := new(big.Int).Sqrt(hi)
		add(new(big.Int).Add(s, big.NewInt(d)))
		add(new(big.Int).Neg(new(big.Int).Add(s, big.NewInt(d))))
		add(new(big.Int).Add(new(big.Int).Quo(hi, big.NewInt(2)), big.NewInt(d)))
		add(new(big.Int).Add(new(big.Int).Quo(lo, big.NewInt(2)), big.NewInt(d)))
	}
	var out []*big.Int
	for _, v := range set {
		out = append(out, v)
	}
	// deterministic order
	for i := range out {
		for j := i + 1; j < len(out); j++ {
			if out[j].Cmp(out[i]) < 0 {
				out[i], out[j] = out[j], out[i]
			}
		}
	}
	return out
}

func randIn(r *kit.Rand, ty string) *big.Int {
	lo, hi := bounds(ty)
	w := widths[ty]
	// magnitude-stratified: pick a bit length uniformly so that products land near the boundary often
	bits := r.Intn(w + 1)
	x := new(big.Int).SetUint64(r.U64())
	if bits < 64 {
		x.And(x, new(big.Int).Sub(new(big.Int).Lsh(big.NewInt(1), uint(bits)), big.NewInt(1)))
	}
	if signed(ty) && r.Bool() {
		x.Neg(x)
	}
	if x.Cmp(lo) < 0 {
		x.Set(lo)
	}
	if x.Cmp(hi) > 0 {
		x.Set(hi)
	}
	return x
}

func gen(o *kit.Out, r *kit.Rand, tier string) {
	o.Case("lattice")
	for _, ty := range types {
		lat := lattice(ty)
		for _, fn := range fns {
			if tier == "quick" && len(fn) == 4 && ty != "i64" && ty != "u8" && ty != "i8" {
				continue
			}
			for _, a := range lat {
				for _, b := range lat {
					o.Op("%s %s %s %s", fn, ty, a, b)
				}
			}
		}
	}
	if tier == "thorough" {
		// exhaustive 8-bit, all eight functions
		o.Case("exhaustive8")
		for _, ty := range []string{"i8", "u8"} {
			lo, hi := bounds(ty)
			for _, fn := range fns {
				for a := lo.Int64(); a <= hi.Int64(); a++ {
					for b := lo.Int64(); b <= hi.Int64(); b++ {
						o.Op("%s %s %d %d", fn, ty, a, b)
					}
				}
			}
		}
	}
	n := 60000
	if tier == "thorough" {
		n = 400000
	}
	o.Case("random")
	for i := 0; i < n; i++ {
		ty := kit.Pick(r, types)
		fn := kit.Pick(r, fns)
		a, b := randIn(r, ty), randIn(r, ty)
		if fn == "mul" || fn == "mulp" {
			// near-boundary products: b ≈ ±hi/a
			if a.Sign() != 0 && r.Chance(50) {
				_, hi := bounds(ty)
				b = new(big.Int).Quo(hi, a)
				b.Add(b, big.NewInt(int64(r.Intn(5)-2)))
				lo, hi2 := bounds(ty)
				if b.Cmp(lo) < 0 || b.Cmp(hi2) > 0 {
					b = randIn(r, ty)
				}
			}
		}
		o.Op("%s %s %s %s", fn, ty, a, b)
	}
}

func main() {
	kit.Main(&kit.Harness{Gen: gen, Exec: exec})
}
