// Harness for C47: authenticated ciphers round-trip and detect tampering
// (tm2/pkg/crypto/xchacha20poly1305, tm2/pkg/crypto/xsalsa20symmetric).
//
// Stateless ops (bytes as hex, `e` = empty):
//
//	hch   <key32> <nonce16>                    xchacha20poly1305.HChaCha20            -> <hex32>
//	cps   <key32> <nonce12> <pt> <ad>          x/crypto chacha20poly1305 Seal         -> ok <summ>
//	cpo   <key32> <nonce12> <sealed> <ad>      x/crypto chacha20poly1305 Open         -> ok <summ> | err:auth
//	xnew  <key>                                xchacha20poly1305.New                  -> ok | err:keylen
//	xseal <key> <nonce> <pt> <ad>              New+Seal                               -> ok <summ> | err:keylen | panic:nonce
//	xopen <key> <nonce> <ct> <ad>              New+Open                               -> ok <summ> | err:keylen | err:nonce | err:auth
//	xmut  <key> <nonce> <pt> <ad> <which> <i>  Seal, flip bit i of ct|nonce|key|ad, Open (output as xopen)
//	box   <msg> <nonce24> <key32>              x/crypto secretbox.Seal                -> ok <summ>
//	unbox <box> <nonce24> <key32>              x/crypto secretbox.Open                -> ok <summ> | err:auth
//	senc  <nonce24> <secret> <pt>              EncryptSymmetric with CRandBytes := nonce -> ok <summ> | panic:secretlen
//	sdec  <secret> <ct>                        DecryptSymmetric                       -> ok <summ> | err:short | err:auth | panic:secretlen
//	srt   <nonce24> <secret> <pt>              Decrypt(Encrypt(pt))                   (output as sdec)
//	smut  <nonce24> <secret> <pt> <which> <i>  Encrypt, flip bit i of ct|secret, Decrypt (output as sdec)
//
// <summ> = <len>:<hex> when len <= 40, else <len>:#<first 16 bytes of SHA-256, hex>.
//
// Oracle (independent of the model; evaluates the property statement on the real
// code's results): round trip — opening what was sealed must return the plaintext
// (VIOL:roundtrip; VIOL:empty-roundtrip for the empty plaintext); tampering — a
// really changed ciphertext/tag/nonce/key/AD must not open (VIOL:forgery-accepted;
// search support only: forgeries exist, they are merely infeasible to find).
package main

import (
	"bytes"
	crand "crypto/rand"
	"crypto/sha256"
	"encoding/hex"
	"fmt"
	"io"

	"golang.org/x/crypto/chacha20poly1305"
	"golang.org/x/crypto/nacl/secretbox"

	"github.com/gnolang/gno/tm2/pkg/crypto/xchacha20poly1305"
	"github.com/gnolang/gno/tm2/pkg/crypto/xsalsa20symmetric"
	"gnoverif/kit"
)

func summ(b []byte) string {
	if len(b) <= 40 {
		return fmt.Sprintf("%d:%s", len(b), kit.Hex(append([]byte{}, b...)))
	}
	h := sha256.Sum256(b)
	return fmt.Sprintf("%d:#%s", len(b), hex.EncodeToString(h[:16]))
}

func flipBit(b []byte, idx int) []byte {
	out := append([]byte{}, b...)
	if len(out) == 0 {
		return out
	}
	i := idx % (8 * len(out))
	out[i/8] ^= 1 << uint(i%8)
	return out
}

// fixedReader replaces crypto/rand.Reader while EncryptSymmetric runs.
type fixedReader struct{ b []byte }

func (f *fixedReader) Read(p []byte) (int, error) {
	if len(f.b) == 0 {
		return 0, io.ErrUnexpectedEOF
	}
	n := copy(p, f.b)
	f.b = f.b[n:]
	return n, nil
}

func withRand(nonce []byte, f func()) {
	old := crand.Reader
	crand.Reader = &fixedReader{append([]byte{}, nonce...)}
	defer func() { crand.Reader = old }()
	f()
}

// call runs f and classifies a panic by the given mapping of message prefixes.
func call(f func() string, classes map[string]string) (out string) {
	defer func() {
		if v := recover(); v != nil {
			s := fmt.Sprint(v)
			for pre, cls := range classes {
				if len(s) >= len(pre) && s[:len(pre)] == pre {
					out = "panic:" + cls
					return
				}
			}
			panic(v)
		}
	}()
	return f()
}

var xPanics = map[string]string{
	"xchacha20poly1305: bad nonce length passed to Seal": "nonce",
	"xchacha20poly1305: plaintext too large":             "toolarge",
}
var sPanics = map[string]string{"Secret must be 32 bytes long": "secretlen"}

func xopenErr(err error) string {
	switch err.Error() {
	case "xchacha20poly1305: bad nonce length passed to Open":
		return "err:nonce"
	case "xchacha20poly1305: ciphertext too large":
		return "err:toolarge"
	case "chacha20poly1305: message authentication failed":
		return "err:auth"
	}
	return "err:other"
}

// xseal returns (canonical output, sealed bytes or nil)
func xseal(key, nonce, pt, ad []byte) (string, []byte) {
	a, err := xchacha20poly1305.New(key)
	if err != nil {
		return "err:keylen", nil
	}
	var ct []byte
	out := call(func() string {
		ct = a.Seal(nil, nonce, pt, ad)
		return "ok " + summ(ct)
	}, xPanics)
	return out, ct
}

func xopen(key, nonce, ct, ad []byte) (string, []byte, bool) {
	a, err := xchacha20poly1305.New(key)
	if err != nil {
		return "err:keylen", nil, false
	}
	pt, err := a.Open(nil, nonce, ct, ad)
	if err != nil {
		return xopenErr(err), nil, false
	}
	return "ok " + summ(pt), pt, true
}

func sdec(secret, ct []byte) (out string, pt []byte, ok bool) {
	out = call(func() string {
		p, err := xsalsa20symmetric.DecryptSymmetric(ct, secret)
		if err != nil {
			switch err.Error() {
			case "ciphertext is too short":
				return "err:short"
			case "ciphertext decryption failed":
				return "err:auth"
			}
			return "err:other"
		}
		pt, ok = p, true
		return "ok " + summ(p)
	}, sPanics)
	return
}

func senc(nonce, secret, pt []byte) (out string, ct []byte) {
	withRand(nonce, func() {
		out = call(func() string {
			ct = xsalsa20symmetric.EncryptSymmetric(pt, secret)
			return "ok " + summ(ct)
		}, sPanics)
	})
	return
}

func rtVerdict(pt, got []byte, ok bool) string {
	if ok && bytes.Equal(pt, got) {
		return "ok"
	}
	if len(pt) == 0 {
		return fmt.Sprintf("VIOL:empty-roundtrip the sealed empty plaintext does not open (ok=%v)", ok)
	}
	return fmt.Sprintf("VIOL:roundtrip opening the sealed message returned ok=%v %s, want %s", ok, summ(got), summ(pt))
}

func exec(t []string) (string, string) {
	if len(t) == 0 {
		return "err:badop", "-"
	}
	hx := func(i int) []byte {
		b, err := kit.UnHex(t[i])
		if err != nil || b == nil {
			panic("badop")
		}
		return b
	}
	defer func() {}()
	switch {
	case t[0] == "hch" && len(t) == 3:
		key, nonce := hx(1), hx(2)
		if len(key) != 32 || len(nonce) != 16 {
			return "err:badop", "-"
		}
		var out, k [32]byte
		var n [16]byte
		copy(k[:], key)
		copy(n[:], nonce)
		xchacha20poly1305.HChaCha20(&out, &n, &k)
		return hex.EncodeToString(out[:]), "-"
	case t[0] == "cps" && len(t) == 5:
		key, nonce, pt, ad := hx(1), hx(2), hx(3), hx(4)
		if len(key) != 32 || len(nonce) != 12 {
			return "err:badop", "-"
		}
		a, _ := chacha20poly1305.New(key)
		return "ok " + summ(a.Seal(nil, nonce, pt, ad)), "-"
	case t[0] == "cpo" && len(t) == 5:
		key, nonce, ct, ad := hx(1), hx(2), hx(3), hx(4)
		if len(key) != 32 || len(nonce) != 12 {
			return "err:badop", "-"
		}
		a, _ := chacha20poly1305.New(key)
		pt, err := a.Open(nil, nonce, ct, ad)
		if err != nil {
			return "err:auth", "-"
		}
		return "ok " + summ(pt), "-"
	case t[0] == "xnew" && len(t) == 2:
		if _, err := xchacha20poly1305.New(hx(1)); err != nil {
			return "err:keylen", "-"
		}
		return "ok", "-"
	case t[0] == "xseal" && len(t) == 5:
		key, nonce, pt, ad := hx(1), hx(2), hx(3), hx(4)
		out, ct := xseal(key, nonce, pt, ad)
		if ct == nil {
			return out, "-"
		}
		_, got, ok := xopen(key, nonce, ct, ad)
		return out, rtVerdict(pt, got, ok)
	case t[0] == "xopen" && len(t) == 5:
		out, _, _ := xopen(hx(1), hx(2), hx(3), hx(4))
		return out, "-"
	case t[0] == "xmut" && len(t) == 7:
		key, nonce, pt, ad := hx(1), hx(2), hx(3), hx(4)
		idx := kit.Atoi(t[6])
		out, ct := xseal(key, nonce, pt, ad)
		if ct == nil {
			return out, "-"
		}
		k2, n2, c2, a2 := key, nonce, ct, ad
		switch t[5] {
		case "ct":
			c2 = flipBit(ct, idx)
		case "nonce":
			n2 = flipBit(nonce, idx)
		case "key":
			k2 = flipBit(key, idx)
		case "ad":
			a2 = flipBit(ad, idx)
		default:
			return "err:badop", "-"
		}
		changed := !bytes.Equal(k2, key) || !bytes.Equal(n2, nonce) || !bytes.Equal(c2, ct) || !bytes.Equal(a2, ad)
		out, got, ok := xopen(k2, n2, c2, a2)
		if changed && ok {
			return out, "VIOL:forgery-accepted a changed " + t[5] + " opened to " + summ(got)
		}
		if !changed {
			return out, rtVerdict(pt, got, ok)
		}
		return out, "ok"
	case t[0] == "box" && len(t) == 4:
		msg, nonce, key := hx(1), hx(2), hx(3)
		if len(key) != 32 || len(nonce) != 24 {
			return "err:badop", "-"
		}
		var n [24]byte
		var k [32]byte
		copy(n[:], nonce)
		copy(k[:], key)
		return "ok " + summ(secretbox.Seal(nil, msg, &n, &k)), "-"
	case t[0] == "unbox" && len(t) == 4:
		box, nonce, key := hx(1), hx(2), hx(3)
		if len(key) != 32 || len(nonce) != 24 {
			return "err:badop", "-"
		}
		var n [24]byte
		var k [32]byte
		copy(n[:], nonce)
		copy(k[:], key)
		pt, ok := secretbox.Open(nil, box, &n, &k)
		if !ok {
			return "err:auth", "-"
		}
		return "ok " + summ(pt), "-"
	case t[0] == "senc" && len(t) == 4:
		nonce, secret, pt := hx(1), hx(2), hx(3)
		if len(nonce) != 24 {
			return "err:badop", "-"
		}
		out, ct := senc(nonce, secret, pt)
		if ct == nil {
			return out, "-"
		}
		_, got, ok := sdec(secret, ct)
		return out, rtVerdict(pt, got, ok)
	case t[0] == "sdec" && len(t) == 3:
		out, _, _ := sdec(hx(1), hx(2))
		return out, "-"
	case t[0] == "srt" && len(t) == 4:
		nonce, secret, pt := hx(1), hx(2), hx(3)
		if len(nonce) != 24 {
			return "err:badop", "-"
		}
		out, ct := senc(nonce, secret, pt)
		if ct == nil {
			return out, "-"
		}
		out, got, ok := sdec(secret, ct)
		return out, rtVerdict(pt, got, ok)
	case t[0] == "smut" && len(t) == 6:
		nonce, secret, pt := hx(1), hx(2), hx(3)
		idx := kit.Atoi(t[5])
		if len(nonce) != 24 {
			return "err:badop", "-"
		}
		out, ct := senc(nonce, secret, pt)
		if ct == nil {
			return out, "-"
		}
		s2, c2 := secret, ct
		switch t[4] {
		case "ct":
			c2 = flipBit(ct, idx)
		case "secret":
			s2 = flipBit(secret, idx)
		default:
			return "err:badop", "-"
		}
		out, got, ok := sdec(s2, c2)
		if ok {
			return out, "VIOL:forgery-accepted a changed " + t[4] + " opened to " + summ(got)
		}
		if len(pt) == 0 {
			// the unchanged ciphertext would not have opened either: no verdict on tampering
			return out, "-"
		}
		return out, "ok"
	}
	return "err:badop", "-"
}

func safeExec(t []string) (impl, oracle string) {
	defer func() {
		if v := recover(); v != nil {
			if s, ok := v.(string); ok && s == "badop" {
				impl, oracle = "err:badop", "-"
				return
			}
			panic(v)
		}
	}()
	return exec(t)
}

// ---------------------------------------------------------------- generator

var ptLens = []int{0, 1, 2, 15, 16, 17, 31, 32, 33, 47, 48, 63, 64, 65, 127, 128, 129, 255, 256, 257, 1023, 1024, 1028}
var adLens = []int{0, 1, 12, 16, 17, 32}

func pattern(r *kit.Rand, n int) []byte {
	switch r.Intn(5) {
	case 0:
		return make([]byte, n)
	case 1:
		return bytes.Repeat([]byte{0xff}, n)
	case 2:
		b := make([]byte, n)
		for i := range b {
			b[i] = byte(i)
		}
		return b
	}
	return r.Bytes(n)
}

func gen(w *kit.Out, r *kit.Rand, tier string) {
	scale := 1
	if tier == "thorough" {
		scale = 8
	}
	// boundary table
	w.Case("hchacha")
	w.Op("hch %s %s", kit.Hex(make([]byte, 32)), kit.Hex(make([]byte, 16)))
	w.Op("hch %s %s", kit.Hex(bytes.Repeat([]byte{0xff}, 32)), kit.Hex(bytes.Repeat([]byte{0xff}, 16)))
	for i := 0; i < 200*scale; i++ {
		w.Op("hch %s %s", kit.Hex(pattern(r, 32)), kit.Hex(pattern(r, 16)))
	}
	w.Case("chachapoly-lengths")
	for _, n := range ptLens {
		for _, a := range adLens {
			key, nonce, pt, ad := pattern(r, 32), pattern(r, 12), pattern(r, n), pattern(r, a)
			w.Op("cps %s %s %s %s", kit.Hex(key), kit.Hex(nonce), kit.Hex(pt), kit.Hex(ad))
			c, _ := chacha20poly1305.New(key)
			ct := c.Seal(nil, nonce, pt, ad)
			w.Op("cpo %s %s %s %s", kit.Hex(key), kit.Hex(nonce), kit.Hex(ct), kit.Hex(ad))
			w.Op("cpo %s %s %s %s", kit.Hex(key), kit.Hex(nonce), kit.Hex(flipBit(ct, r.Intn(8*len(ct)))), kit.Hex(ad))
		}
	}
	w.Case("xchacha-lengths")
	for _, n := range ptLens {
		for _, a := range adLens {
			key, nonce, pt, ad := pattern(r, 32), pattern(r, 24), pattern(r, n), pattern(r, a)
			w.Op("xseal %s %s %s %s", kit.Hex(key), kit.Hex(nonce), kit.Hex(pt), kit.Hex(ad))
			for _, which := range []string{"ct", "nonce", "key", "ad"} {
				if which == "ad" && a == 0 {
					continue
				}
				w.Op("xmut %s %s %s %s %s %d", kit.Hex(key), kit.Hex(nonce), kit.Hex(pt), kit.Hex(ad), which, r.Intn(1<<20))
			}
		}
	}
	w.Case("secretbox-lengths")
	for _, n := range ptLens {
		nonce, key, pt := pattern(r, 24), pattern(r, 32), pattern(r, n)
		w.Op("box %s %s %s", kit.Hex(pt), kit.Hex(nonce), kit.Hex(key))
		var nn [24]byte
		var kk [32]byte
		copy(nn[:], nonce)
		copy(kk[:], key)
		bx := secretbox.Seal(nil, pt, &nn, &kk)
		w.Op("unbox %s %s %s", kit.Hex(bx), kit.Hex(nonce), kit.Hex(key))
		w.Op("unbox %s %s %s", kit.Hex(flipBit(bx, r.Intn(8*len(bx)))), kit.Hex(nonce), kit.Hex(key))
		w.Op("senc %s %s %s", kit.Hex(nonce), kit.Hex(key), kit.Hex(pt))
		w.Op("srt %s %s %s", kit.Hex(nonce), kit.Hex(key), kit.Hex(pt))
		w.Op("smut %s %s %s ct %d", kit.Hex(nonce), kit.Hex(key), kit.Hex(pt), r.Intn(1<<20))
		w.Op("smut %s %s %s secret %d", kit.Hex(nonce), kit.Hex(key), kit.Hex(pt), r.Intn(1<<20))
	}
	// every single-bit mutation of one short message (the statement's quantifier, on one instance)
	w.Case("all-bits")
	{
		key, nonce, pt, ad := r.Bytes(32), r.Bytes(24), r.Bytes(5), r.Bytes(3)
		for i := 0; i < 8*(5+16); i++ {
			w.Op("xmut %s %s %s %s ct %d", kit.Hex(key), kit.Hex(nonce), kit.Hex(pt), kit.Hex(ad), i)
		}
		for i := 0; i < 8*24; i++ {
			w.Op("xmut %s %s %s %s nonce %d", kit.Hex(key), kit.Hex(nonce), kit.Hex(pt), kit.Hex(ad), i)
		}
		for i := 0; i < 8*32; i++ {
			w.Op("xmut %s %s %s %s key %d", kit.Hex(key), kit.Hex(nonce), kit.Hex(pt), kit.Hex(ad), i)
		}
		for i := 0; i < 8*3; i++ {
			w.Op("xmut %s %s %s %s ad %d", kit.Hex(key), kit.Hex(nonce), kit.Hex(pt), kit.Hex(ad), i)
		}
		for i := 0; i < 8*(24+16+5); i++ {
			w.Op("smut %s %s %s ct %d", kit.Hex(nonce), kit.Hex(key), kit.Hex(pt), i)
		}
		for i := 0; i < 8*32; i++ {
			w.Op("smut %s %s %s secret %d", kit.Hex(nonce), kit.Hex(key), kit.Hex(pt), i)
		}
	}
	// structured random
	w.Case("random")
	for i := 0; i < 300*scale; i++ {
		n := r.Intn(300)
		if r.Chance(10) {
			n = kit.Pick(r, ptLens)
		}
		a := r.Intn(40)
		if r.Chance(40) {
			a = 0
		}
		key, nonce, pt, ad := pattern(r, 32), pattern(r, 24), pattern(r, n), pattern(r, a)
		switch r.Intn(6) {
		case 0:
			w.Op("xseal %s %s %s %s", kit.Hex(key), kit.Hex(nonce), kit.Hex(pt), kit.Hex(ad))
		case 1:
			which := kit.Pick(r, []string{"ct", "nonce", "key", "ad"})
			w.Op("xmut %s %s %s %s %s %d", kit.Hex(key), kit.Hex(nonce), kit.Hex(pt), kit.Hex(ad), which, r.Intn(1<<20))
		case 2:
			a, _ := xchacha20poly1305.New(key)
			ct := a.Seal(nil, nonce, pt, ad)
			w.Op("xopen %s %s %s %s", kit.Hex(key), kit.Hex(nonce), kit.Hex(ct), kit.Hex(ad))
		case 3:
			if n == 0 && r.Chance(80) {
				pt = r.Bytes(1 + r.Intn(20))
			}
			w.Op("srt %s %s %s", kit.Hex(nonce), kit.Hex(key), kit.Hex(pt))
		case 4:
			if n == 0 {
				pt = r.Bytes(1 + r.Intn(20))
			}
			w.Op("smut %s %s %s %s %d", kit.Hex(nonce), kit.Hex(key), kit.Hex(pt), kit.Pick(r, []string{"ct", "secret"}), r.Intn(1<<20))
		case 5:
			w.Op("cps %s %s %s %s", kit.Hex(key), kit.Hex(nonce[:12]), kit.Hex(pt), kit.Hex(ad))
		}
	}
	// malformed stream
	w.Case("malformed")
	for _, kl := range []int{0, 1, 16, 31, 33, 64} {
		w.Op("xnew %s", kit.Hex(r.Bytes(kl)))
		w.Op("xseal %s %s %s %s", kit.Hex(r.Bytes(kl)), kit.Hex(r.Bytes(24)), kit.Hex(r.Bytes(3)), "e")
		w.Op("xopen %s %s %s %s", kit.Hex(r.Bytes(kl)), kit.Hex(r.Bytes(24)), kit.Hex(r.Bytes(19)), "e")
		w.Op("senc %s %s %s", kit.Hex(r.Bytes(24)), kit.Hex(r.Bytes(kl)), kit.Hex(r.Bytes(3)))
		w.Op("sdec %s %s", kit.Hex(r.Bytes(kl)), kit.Hex(r.Bytes(60)))
	}
	for _, nl := range []int{0, 8, 12, 16, 23, 25, 32} {
		w.Op("xseal %s %s %s %s", kit.Hex(r.Bytes(32)), kit.Hex(r.Bytes(nl)), kit.Hex(r.Bytes(3)), "e")
		w.Op("xopen %s %s %s %s", kit.Hex(r.Bytes(32)), kit.Hex(r.Bytes(nl)), kit.Hex(r.Bytes(19)), "e")
	}
	for n := 0; n <= 44; n++ {
		w.Op("xopen %s %s %s %s", kit.Hex(r.Bytes(32)), kit.Hex(r.Bytes(24)), kit.Hex(r.Bytes(n)), "e")
		w.Op("sdec %s %s", kit.Hex(r.Bytes(32)), kit.Hex(r.Bytes(n)))
		w.Op("cpo %s %s %s %s", kit.Hex(r.Bytes(32)), kit.Hex(r.Bytes(12)), kit.Hex(r.Bytes(n)), "e")
		w.Op("unbox %s %s %s", kit.Hex(r.Bytes(n)), kit.Hex(r.Bytes(24)), kit.Hex(r.Bytes(32)))
	}
	for i := 0; i < 40*scale; i++ {
		// truncated / extended real ciphertexts
		key, nonce, pt := r.Bytes(32), r.Bytes(24), r.Bytes(r.Intn(80))
		a, _ := xchacha20poly1305.New(key)
		ct := a.Seal(nil, nonce, pt, nil)
		cut := r.Intn(len(ct) + 1)
		w.Op("xopen %s %s %s e", kit.Hex(key), kit.Hex(nonce), kit.Hex(ct[:cut]))
		w.Op("xopen %s %s %s e", kit.Hex(key), kit.Hex(nonce), kit.Hex(append(append([]byte{}, ct...), byte(r.Intn(256)))))
		w.Op("bogus %d", i)
	}
}

func main() {
	kit.Main(&kit.Harness{Gen: gen, Exec: safeExec, Reset: func() {}})
}
