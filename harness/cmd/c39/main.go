// Harness for C39: block part sets (tm2/pkg/bft/types/part_set.go) on the REAL code.
//
// op lines (state is per #case):
//
//	make <data-hex> <partSize>     src := NewPartSetFromData           → total= hash= parts#=   | panic:nil
//	part <i>                       source part i, digest form
//	fromheader                     cur := NewPartSetFromHeader(src.Header())
//	rawheader <total> <hash-hex>   cur := NewPartSetFromHeader({total, hash})
//	full                           cur := src (the complete set itself)
//	nilset                         cur := (*PartSet)(nil)
//	add <i> [mod…]                 cur.AddPart(deep copy of source part i, mutated)
//	                               → added:true|added:false|err:index|err:proof|panic:range|panic:nil  n=<count>
//	vb <i> [mod…]                  Part.ValidateBasic of the same mutated part → ok|err:negindex|err:toobig|err:proof
//	state | header | getpart <i> | read <chunk>     (chunk 0 = io.ReadAll, else a buffer of that size)
//	race <goroutines> <rounds> <same|overlap|multi> <seed>
//	                               SEARCH SUPPORT, oracle only (the sequential Lean model answers the constant
//	                               `raced`): per round a fresh set from src's header and G goroutines released
//	                               together, each calling AddPart with its own copies of the SAME part / a random
//	                               subset / all parts in its own order.  Oracle per round: Count() == non-nil
//	                               slots == popcount(BitArray); `added=true` at most once per index; IsComplete ⇒
//	                               every slot non-nil and the bytes read back are the block; in `multi` (every part
//	                               offered) the set is complete.  (VIOL:race-corrupt / VIOL:race-incomplete)
//
// mods, applied left to right: idx=<int> pidx=<int> ptot=<int> bytes=<hex> leaf=<hex>
// flipb=<pos>:<mask> flipl=<pos>:<mask> flipa=<k>:<pos>:<mask> dropa adda=<hex> proof=<j> data=<j>
// releaf (LeafHash := leafHash(Bytes), i.e. a self-consistent forged leaf) nil
//
// Oracle (independent of the Lean model; evaluates the property statement):
//   - own RFC-6962 audit-path verification (iterative, crypto/sha256) decides whether a part
//     "matches the header"; a part is accepted  ⇔  in range ∧ slot empty ∧ matches   (else
//     VIOL:accept-mismatch / VIOL:valid-rejected / VIOL:dupe-accepted);
//   - after a rejected or panicking AddPart every observable of the set (count, bit array, header,
//     stored part pointers and contents) equals what it was before (VIOL:corrupt-on-reject);
//     after an accepted one exactly slot i, bit i and count changed (VIOL:corrupt-on-accept);
//   - count = number of distinct stored indices, bit array = stored indices (VIOL:count);
//   - complete ⇔ all indices stored; a complete set reads back exactly the source bytes and keeps
//     the source header (VIOL:reassembly / VIOL:complete-mismatch / VIOL:accept-wrongbytes).
package main

import (
	"bytes"
	"crypto/sha256"
	"encoding/binary"
	"encoding/hex"
	"fmt"
	"io"
	"runtime"
	"strconv"
	"strings"
	"sync"

	"github.com/gnolang/gno/tm2/pkg/bft/types"
	"github.com/gnolang/gno/tm2/pkg/crypto/merkle"
	"gnoverif/kit"
)

// ---------------------------------------------------------------- state

type st struct {
	data    []byte
	psz     int
	src     *types.PartSet
	haveSrc bool
	cur     *types.PartSet
	haveCur bool
	// oracle's shadow of cur
	total    int
	hash     []byte
	accepted map[int]*types.Part // pointer handed to AddPart and accepted
	copies   map[int]*types.Part // deep copy taken at acceptance
	isFull   bool                // cur is the source set itself
}

var S st

func reset() { S = st{} }

// ---------------------------------------------------------------- helpers

func hx(b []byte) string {
	if len(b) == 0 {
		return "e"
	}
	return hex.EncodeToString(b)
}

func short(b []byte) string {
	h := sha256.Sum256(b)
	return hex.EncodeToString(h[:8])
}

func u32(n int) []byte {
	var b [4]byte
	binary.BigEndian.PutUint32(b[:], uint32(n))
	return b[:]
}

func serAunts(a [][]byte) []byte {
	var out []byte
	for _, x := range a {
		out = append(out, u32(len(x))...)
		out = append(out, x...)
	}
	return out
}

func serPart(p *types.Part) []byte {
	var out []byte
	out = append(out, u32(p.Index)...)
	out = append(out, u32(len(p.Bytes))...)
	out = append(out, p.Bytes...)
	out = append(out, u32(p.Proof.Total)...)
	out = append(out, u32(p.Proof.Index)...)
	out = append(out, u32(len(p.Proof.LeafHash))...)
	out = append(out, p.Proof.LeafHash...)
	out = append(out, u32(len(p.Proof.Aunts))...)
	out = append(out, serAunts(p.Proof.Aunts)...)
	return out
}

func deepCopy(p *types.Part) *types.Part {
	q := &types.Part{Index: p.Index, Bytes: append([]byte{}, p.Bytes...)}
	q.Proof = merkle.SimpleProof{Total: p.Proof.Total, Index: p.Proof.Index, LeafHash: append([]byte{}, p.Proof.LeafHash...)}
	q.Proof.Aunts = make([][]byte, len(p.Proof.Aunts))
	for i, a := range p.Proof.Aunts {
		q.Proof.Aunts[i] = append([]byte{}, a...)
	}
	return q
}

func samePart(a, b *types.Part) bool {
	if a.Index != b.Index || !bytes.Equal(a.Bytes, b.Bytes) || a.Proof.Total != b.Proof.Total ||
		a.Proof.Index != b.Proof.Index || !bytes.Equal(a.Proof.LeafHash, b.Proof.LeafHash) ||
		len(a.Proof.Aunts) != len(b.Proof.Aunts) {
		return false
	}
	for i := range a.Proof.Aunts {
		if !bytes.Equal(a.Proof.Aunts[i], b.Proof.Aunts[i]) {
			return false
		}
	}
	return true
}

func flipAt(b []byte, pos int, mask byte) []byte {
	if len(b) == 0 {
		return []byte{mask}
	}
	b[pos%len(b)] ^= mask
	return b
}

type badOp struct{}

func nats(s string, n int) []int {
	f := strings.Split(s, ":")
	if len(f) != n {
		panic(badOp{})
	}
	out := make([]int, n)
	for i, x := range f {
		v, err := strconv.ParseUint(x, 10, 32)
		if err != nil {
			panic(badOp{})
		}
		out[i] = int(v)
	}
	return out
}

func atoi(s string) int {
	v, err := strconv.ParseInt(s, 10, 64)
	if err != nil {
		panic(badOp{})
	}
	return int(v)
}

func unhex(s string) []byte {
	b, err := kit.UnHex(s)
	if err != nil {
		panic(badOp{})
	}
	return b
}

// mutated returns a fresh deep copy of source part i with the mods applied (nil = nil part).
func mutated(is string, mods []string) *types.Part {
	i, err := strconv.ParseUint(is, 10, 32)
	if err != nil || int(i) >= S.src.Total() {
		panic(badOp{})
	}
	p := deepCopy(S.src.GetPart(int(i)))
	for _, m := range mods {
		if p == nil {
			break
		}
		k, v, _ := strings.Cut(m, "=")
		switch k {
		case "nil":
			p = nil
		case "idx":
			p.Index = atoi(v)
		case "pidx":
			p.Proof.Index = atoi(v)
		case "ptot":
			p.Proof.Total = atoi(v)
		case "bytes":
			p.Bytes = unhex(v)
		case "leaf":
			p.Proof.LeafHash = unhex(v)
		case "flipb":
			a := nats(v, 2)
			p.Bytes = flipAt(p.Bytes, a[0], byte(a[1]))
		case "flipl":
			a := nats(v, 2)
			p.Proof.LeafHash = flipAt(p.Proof.LeafHash, a[0], byte(a[1]))
		case "flipa":
			a := nats(v, 3)
			if len(p.Proof.Aunts) == 0 {
				p.Proof.Aunts = [][]byte{bytes.Repeat([]byte{byte(a[2])}, 32)}
			} else {
				j := a[0] % len(p.Proof.Aunts)
				p.Proof.Aunts[j] = flipAt(p.Proof.Aunts[j], a[1], byte(a[2]))
			}
		case "releaf":
			p.Proof.LeafHash = oLeaf(p.Bytes)
		case "dropa":
			if n := len(p.Proof.Aunts); n > 0 {
				p.Proof.Aunts = p.Proof.Aunts[:n-1]
			}
		case "adda":
			p.Proof.Aunts = append(p.Proof.Aunts, unhex(v))
		case "proof":
			j := atoi(v)
			if j < 0 || j >= S.src.Total() {
				panic(badOp{})
			}
			p.Proof = deepCopy(S.src.GetPart(j)).Proof
		case "data":
			j := atoi(v)
			if j < 0 || j >= S.src.Total() {
				panic(badOp{})
			}
			p.Bytes = append([]byte{}, S.src.GetPart(j).Bytes...)
		default:
			panic(badOp{})
		}
	}
	return p
}

// call runs f and classifies a panic.
func call(f func()) (pc string) {
	defer func() {
		if v := recover(); v != nil {
			if _, ok := v.(badOp); ok {
				panic(v)
			}
			msg := fmt.Sprint(v)
			switch {
			case strings.Contains(msg, "index out of range"):
				pc = "panic:range"
			case strings.Contains(msg, "nil pointer dereference"):
				pc = "panic:nil"
			case strings.Contains(msg, "incomplete PartSet"):
				pc = "panic:incomplete"
			default:
				pc = "panic:other " + msg
			}
		}
	}()
	f()
	return ""
}

// ---------------------------------------------------------------- independent oracle pieces

func oLeaf(b []byte) []byte {
	h := sha256.New()
	h.Write([]byte{0})
	h.Write(b)
	return h.Sum(nil)
}

func oInner(l, r []byte) []byte {
	h := sha256.New()
	h.Write([]byte{1})
	h.Write(l)
	h.Write(r)
	return h.Sum(nil)
}

// oRoot: RFC 6962 §2.1 MTH over the leaves (n ≥ 1).
func oRoot(leaves [][]byte) []byte {
	n := len(leaves)
	if n == 1 {
		return oLeaf(leaves[0])
	}
	k := 1
	for k*2 < n {
		k *= 2
	}
	return oInner(oRoot(leaves[:k]), oRoot(leaves[k:]))
}

// oPathOK: RFC 9162 §2.1.3.2 audit-path verification (iterative, bottom-up).
func oPathOK(index, total int, leaf []byte, path [][]byte, root []byte) bool {
	if index < 0 || total <= 0 || index >= total || len(root) != sha256.Size {
		return false
	}
	fn, sn := uint64(index), uint64(total-1)
	r := oLeaf(leaf)
	for _, p := range path {
		if sn == 0 {
			return false
		}
		if fn&1 == 1 || fn == sn {
			r = oInner(p, r)
			if fn&1 == 0 {
				for fn&1 == 0 && fn != 0 {
					fn >>= 1
					sn >>= 1
				}
			}
		} else {
			r = oInner(r, p)
		}
		fn >>= 1
		sn >>= 1
	}
	return sn == 0 && bytes.Equal(r, root)
}

func oSlice(i int) []byte {
	lo, hi := i*S.psz, (i+1)*S.psz
	if hi > len(S.data) {
		hi = len(S.data)
	}
	return S.data[lo:hi]
}

// honest: cur carries the header of the source block.
func honest() bool {
	return S.haveSrc && S.src != nil && S.total == S.src.Total() && bytes.Equal(S.hash, S.src.Hash())
}

// observe compares every observable of cur with the oracle's shadow; deep = compare stored contents too.
func observe(deep bool) string {
	ps := S.cur
	if ps == nil {
		return ""
	}
	if ps.Total() != S.total || !bytes.Equal(ps.Hash(), S.hash) || !ps.HasHeader(types.PartSetHeader{Total: S.total, Hash: S.hash}) {
		return "header changed"
	}
	if ps.Count() != len(S.accepted) {
		return fmt.Sprintf("count=%d but %d distinct indices stored", ps.Count(), len(S.accepted))
	}
	ba := ps.BitArray()
	for i := 0; i < S.total; i++ {
		want, have := S.accepted[i], ps.GetPart(i)
		if have != want {
			return fmt.Sprintf("slot %d holds a different part than the one accepted", i)
		}
		if ba.GetIndex(i) != (want != nil) {
			return fmt.Sprintf("bit %d = %v but stored=%v", i, ba.GetIndex(i), want != nil)
		}
		if deep && want != nil && !samePart(have, S.copies[i]) {
			return fmt.Sprintf("stored part %d was modified", i)
		}
	}
	if ps.IsComplete() != (len(S.accepted) == S.total) {
		return fmt.Sprintf("IsComplete=%v with %d of %d stored", ps.IsComplete(), len(S.accepted), S.total)
	}
	return ""
}

func setCur(ps *types.PartSet, total int, hash []byte, full bool) {
	S.cur, S.haveCur, S.total, S.hash, S.isFull = ps, true, total, append([]byte{}, hash...), full
	S.accepted, S.copies = map[int]*types.Part{}, map[int]*types.Part{}
	if full && ps != nil {
		for i := 0; i < total; i++ {
			S.accepted[i] = ps.GetPart(i)
			S.copies[i] = deepCopy(ps.GetPart(i))
		}
	}
}

// ---------------------------------------------------------------- exec

func exec(t []string) (out, orc string) {
	defer func() {
		if v := recover(); v != nil {
			if _, ok := v.(badOp); ok {
				out, orc = "err:badop", "-"
				return
			}
			panic(v)
		}
	}()
	if len(t) == 0 {
		return "err:badop", "-"
	}
	switch {
	case t[0] == "make" && len(t) == 3:
		data := unhex(t[1])
		psz, err := strconv.ParseUint(t[2], 10, 31)
		if err != nil || psz == 0 {
			return "err:badop", "-"
		}
		if data == nil {
			data = []byte{}
		}
		var ps *types.PartSet
		pc := call(func() { ps = types.NewPartSetFromData(data, int(psz)) })
		S = st{}
		if pc != "" {
			// zero-length data: nothing to reassemble; the statement speaks about blocks (never empty).
			return pc, "-"
		}
		S.data, S.psz, S.src, S.haveSrc = data, int(psz), ps, true
		var ser []byte
		for i := 0; i < ps.Total(); i++ {
			ser = append(ser, serPart(ps.GetPart(i))...)
		}
		out = fmt.Sprintf("total=%d hash=%s parts#=%s", ps.Total(), hx(ps.Hash()), short(ser))
		// oracle: the split is the data cut at multiples of partSize; hash is the RFC-6962 root; every part carries a matching proof; the full set reads back the data
		want := (len(data) + int(psz) - 1) / int(psz)
		if ps.Total() != want || ps.Count() != want || !ps.IsComplete() {
			return out, fmt.Sprintf("VIOL:split total=%d count=%d want %d", ps.Total(), ps.Count(), want)
		}
		leaves := make([][]byte, want)
		for i := range leaves {
			leaves[i] = oSlice(i)
			p := ps.GetPart(i)
			if p == nil || p.Index != i || !bytes.Equal(p.Bytes, leaves[i]) {
				return out, fmt.Sprintf("VIOL:split part %d is not data[%d*ps:...]", i, i)
			}
		}
		root := oRoot(leaves)
		if !bytes.Equal(root, ps.Hash()) {
			return out, "VIOL:split header hash is not the merkle root of the parts"
		}
		for i := range leaves {
			p := ps.GetPart(i)
			if p.Proof.Index != i || p.Proof.Total != want || !oPathOK(i, want, p.Bytes, p.Proof.Aunts, root) || !bytes.Equal(p.Proof.LeafHash, oLeaf(p.Bytes)) {
				return out, fmt.Sprintf("VIOL:split part %d carries a proof that does not match the header", i)
			}
		}
		var back []byte
		if pc := call(func() { back, _ = io.ReadAll(ps.GetReader()) }); pc != "" || !bytes.Equal(back, data) {
			return out, "VIOL:reassembly full set does not read back the data " + pc
		}
		return out, "ok"

	case t[0] == "race":
		// constant impl output: the model is sequential; this op only feeds the oracle
		if !S.haveSrc || len(t) != 5 {
			return "raced", "-"
		}
		g, e1 := strconv.ParseUint(t[1], 10, 8)
		rounds, e2 := strconv.ParseUint(t[2], 10, 24)
		seed, e3 := strconv.ParseUint(t[4], 10, 64)
		if e1 != nil || e2 != nil || e3 != nil || g < 2 || g > 32 || (t[3] != "same" && t[3] != "overlap" && t[3] != "multi") {
			return "raced", "-"
		}
		return "raced", raceStress(int(g), int(rounds), t[3], seed)

	case t[0] == "part" && len(t) == 2:
		if !S.haveSrc {
			return "err:nosrc", "-"
		}
		i, err := strconv.ParseUint(t[1], 10, 31)
		if err != nil || int(i) >= S.src.Total() {
			return "err:badop", "-"
		}
		p := S.src.GetPart(int(i))
		return fmt.Sprintf("idx=%d blen=%d bsha=%s ptot=%d pidx=%d leaf=%s na=%d aunts#=%s", p.Index, len(p.Bytes), short(p.Bytes),
			p.Proof.Total, p.Proof.Index, hx(p.Proof.LeafHash), len(p.Proof.Aunts), short(serAunts(p.Proof.Aunts))), "-"

	case t[0] == "fromheader" && len(t) == 1:
		if !S.haveSrc {
			return "err:nosrc", "-"
		}
		h := S.src.Header()
		setCur(types.NewPartSetFromHeader(h), h.Total, h.Hash, false)
		return "ok", orcObs("corrupt-on-new", true)

	case t[0] == "rawheader" && len(t) == 3:
		tot, err := strconv.ParseUint(t[1], 10, 31)
		if err != nil || tot > 10000 {
			return "err:badop", "-"
		}
		h := unhex(t[2])
		setCur(types.NewPartSetFromHeader(types.PartSetHeader{Total: int(tot), Hash: h}), int(tot), h, false)
		return "ok", orcObs("corrupt-on-new", true)

	case t[0] == "full" && len(t) == 1:
		if !S.haveSrc {
			return "err:nosrc", "-"
		}
		setCur(S.src, S.src.Total(), S.src.Hash(), true)
		return "ok", orcObs("corrupt-on-new", true)

	case t[0] == "nilset" && len(t) == 1:
		setCur(nil, 0, nil, false)
		return "ok", "-"

	case t[0] == "add" && len(t) >= 2:
		if !S.haveSrc || !S.haveCur {
			return "err:nosrc", "-"
		}
		p := mutated(t[1], t[2:])
		var added bool
		var err error
		pc := call(func() { added, err = S.cur.AddPart(p) })
		res := pc
		switch {
		case pc != "":
		case err == types.ErrPartSetUnexpectedIndex:
			res = "err:index"
		case err == types.ErrPartSetInvalidProof:
			res = "err:proof"
		case err != nil:
			res = "err:other"
		default:
			res = fmt.Sprintf("added:%v", added)
		}
		out = fmt.Sprintf("%s n=%d", res, S.cur.Count())
		return out, addOracle(p, res)

	case t[0] == "vb" && len(t) >= 2:
		if !S.haveSrc {
			return "err:nosrc", "-"
		}
		p := mutated(t[1], t[2:])
		var err error
		if pc := call(func() { err = p.ValidateBasic() }); pc != "" {
			return pc, "-"
		}
		// oracle: ValidateBasic passes exactly for well-shaped parts (statement: out-of-range indices are caught before AddPart)
		shapeOK := p.Index >= 0 && len(p.Bytes) <= types.BlockPartSizeBytes && p.Proof.Total >= 0 && p.Proof.Index >= 0 &&
			len(p.Proof.LeafHash) == 32 && len(p.Proof.Aunts) <= 100
		for _, a := range p.Proof.Aunts {
			shapeOK = shapeOK && len(a) == 32
		}
		v := "ok"
		if (err == nil) != shapeOK {
			v = fmt.Sprintf("VIOL:validate-basic err=%v but shapeOK=%v", err != nil, shapeOK)
		}
		if err == nil {
			return "ok", v
		}
		msg := fmt.Sprintf("%+v", err) // message + "Msg Traces" (the wrapper text "wrong Proof" lives there)
		switch {
		case strings.Contains(msg, "wrong Proof"):
			return "err:proof", v
		case strings.Contains(msg, "negative Index"):
			return "err:negindex", v
		case strings.Contains(msg, "too big"):
			return "err:toobig", v
		}
		return "err:other", v

	case t[0] == "state" && len(t) == 1:
		if !S.haveCur {
			return "err:nosrc", "-"
		}
		if S.cur == nil {
			return "nil", "-"
		}
		ps := S.cur
		ba := ps.BitArray()
		var sb strings.Builder
		for i := 0; i < ps.Total(); i++ {
			if ba.GetIndex(i) {
				sb.WriteByte('1')
			} else {
				sb.WriteByte('0')
			}
		}
		bits := "bits=" + sb.String()
		if ps.Total() > 64 {
			bits = "bits#=" + short([]byte(sb.String()))
		}
		out = fmt.Sprintf("n=%d total=%d complete=%v hash=%s %s", ps.Count(), ps.Total(), ps.IsComplete(), hx(ps.Hash()), bits)
		return out, orcObs("corrupt-state", true)

	case t[0] == "header" && len(t) == 1:
		if !S.haveCur {
			return "err:nosrc", "-"
		}
		h := S.cur.Header()
		return fmt.Sprintf("total=%d hash=%s", h.Total, hx(h.Hash)), "-"

	case t[0] == "getpart" && len(t) == 2:
		i := atoi(t[1])
		if !S.haveCur {
			return "err:nosrc", "-"
		}
		if S.cur == nil {
			return "panic:nil", "-"
		}
		var p *types.Part
		if pc := call(func() { p = S.cur.GetPart(i) }); pc != "" {
			return pc, orcObs("corrupt-on-reject", false)
		}
		if p == nil {
			return "-", "-"
		}
		return fmt.Sprintf("idx=%d blen=%d bsha=%s", p.Index, len(p.Bytes), short(p.Bytes)), "-"

	case t[0] == "read" && len(t) == 2:
		chunk, err := strconv.ParseUint(t[1], 10, 31)
		if err != nil {
			return "err:badop", "-"
		}
		if !S.haveCur {
			return "err:nosrc", "-"
		}
		if S.cur == nil {
			return "panic:nil", "-"
		}
		var got []byte
		pc := call(func() {
			r := S.cur.GetReader()
			if chunk == 0 {
				got, _ = io.ReadAll(r)
				return
			}
			buf := make([]byte, chunk)
			for iter := 0; iter < 1<<24; iter++ {
				n, err := r.Read(buf)
				got = append(got, buf[:n]...)
				if err != nil {
					break
				}
			}
		})
		if pc != "" {
			// incomplete → the documented panic; a complete zero-part set has nothing to read.
			v := orcObs("corrupt-on-reject", false)
			if v == "ok" && pc == "panic:incomplete" && len(S.accepted) == S.total {
				v = "VIOL:complete-mismatch reader says incomplete with all parts stored"
			}
			return pc, v
		}
		h := sha256.Sum256(got)
		out = fmt.Sprintf("len=%d sha=%s", len(got), hex.EncodeToString(h[:]))
		if v := orcObs("corrupt-state", true); v != "ok" {
			return out, v
		}
		if len(S.accepted) != S.total {
			return out, "VIOL:complete-mismatch reader served an incomplete set"
		}
		// statement: the reassembled bytes are the block, under the same header
		if honest() {
			if !bytes.Equal(got, S.data) {
				return out, "VIOL:reassembly bytes differ from the source block"
			}
			if !S.cur.HasHeader(S.src.Header()) {
				return out, "VIOL:reassembly header differs from the source header"
			}
		}
		var cat []byte
		for i := 0; i < S.total; i++ {
			cat = append(cat, S.copies[i].Bytes...)
		}
		if !bytes.Equal(got, cat) {
			return out, "VIOL:reassembly bytes are not the concatenation of the accepted parts in index order"
		}
		return out, "ok"
	}
	return "err:badop", "-"
}

func orcObs(class string, deep bool) string {
	if S.cur == nil {
		return "-"
	}
	if d := observe(deep); d != "" {
		return "VIOL:" + class + " " + d
	}
	return "ok"
}

// addOracle judges one AddPart call on cur (shadow state = state before the call).
func addOracle(p *types.Part, res string) string {
	if S.cur == nil {
		if res != "added:false" {
			return "VIOL:nilset AddPart on a nil set returned " + res
		}
		return "ok"
	}
	if res != "added:true" {
		// rejected / duplicate / panic: nothing may have changed
		if d := observe(true); d != "" {
			return "VIOL:corrupt-on-reject " + res + ": " + d
		}
		if p == nil {
			return "ok"
		}
		// completeness: an in-range part for an empty slot that matches the header must be accepted
		if p.Index >= 0 && p.Index < S.total && S.accepted[p.Index] == nil && matches(p) {
			return fmt.Sprintf("VIOL:valid-rejected part %d matches the header but got %s", p.Index, res)
		}
		return "ok"
	}
	// accepted
	if p == nil || p.Index < 0 || p.Index >= S.total {
		return "VIOL:accept-mismatch accepted a nil or out-of-range part"
	}
	i := p.Index
	if S.accepted[i] != nil {
		return fmt.Sprintf("VIOL:dupe-accepted index %d was already stored", i)
	}
	S.accepted[i], S.copies[i] = p, deepCopy(p)
	if d := observe(false); d != "" {
		return "VIOL:corrupt-on-accept " + d
	}
	if !samePart(S.cur.GetPart(i), S.copies[i]) {
		return "VIOL:corrupt-on-accept stored part differs from the accepted one"
	}
	if !matches(p) {
		return fmt.Sprintf("VIOL:accept-mismatch part %d accepted although content/proof do not match header %d:%s", i, S.total, hx(S.hash))
	}
	if honest() && !bytes.Equal(p.Bytes, oSlice(i)) {
		return fmt.Sprintf("VIOL:accept-wrongbytes part %d accepted with bytes that are not the block's", i)
	}
	return "ok"
}

// matches: the part's content and proof match cur's header (independent verification).
func matches(p *types.Part) bool {
	return p.Proof.Index == p.Index && p.Proof.Total == S.total &&
		bytes.Equal(p.Proof.LeafHash, oLeaf(p.Bytes)) &&
		oPathOK(p.Index, S.total, p.Bytes, p.Proof.Aunts, S.hash)
}

// ---------------------------------------------------------------- concurrency stress (search support)

// raceStress races AddPart calls on fresh sets created from the source header and checks, after
// every round (all goroutines joined), only invariants every correct implementation satisfies.
func raceStress(g, rounds int, mode string, seed uint64) string {
	if prev := runtime.GOMAXPROCS(0); prev < 4 {
		runtime.GOMAXPROCS(4)
		defer runtime.GOMAXPROCS(prev)
	}
	total, hdr := S.src.Total(), S.src.Header()
	r := kit.NewRand(seed)
	for round := 0; round < rounds; round++ {
		ps := types.NewPartSetFromHeader(hdr)
		plans := make([][]*types.Part, g)
		same := r.Intn(total)
		for k := range plans {
			var idx []int
			switch mode {
			case "same":
				idx = []int{same}
			case "overlap":
				for i := 0; i < total; i++ {
					if i == same || r.Chance(60) {
						idx = append(idx, i)
					}
				}
			default: // multi: every goroutine brings every part, in its own order
				for i := 0; i < total; i++ {
					idx = append(idx, i)
				}
			}
			for i := len(idx) - 1; i > 0; i-- {
				j := r.Intn(i + 1)
				idx[i], idx[j] = idx[j], idx[i]
			}
			for _, i := range idx {
				plans[k] = append(plans[k], deepCopy(S.src.GetPart(i)))
			}
		}
		trues := make([][]int, g) // per goroutine, per index: number of added=true
		panics := make([]string, g)
		start := make(chan struct{})
		var wg sync.WaitGroup
		for k := 0; k < g; k++ {
			trues[k] = make([]int, total)
			wg.Add(1)
			go func(k int) {
				defer wg.Done()
				<-start
				for _, p := range plans[k] {
					func() {
						defer func() {
							if v := recover(); v != nil {
								panics[k] = fmt.Sprint(v)
							}
						}()
						if ok, _ := ps.AddPart(p); ok {
							trues[k][p.Index]++
						}
					}()
				}
			}(k)
		}
		close(start)
		wg.Wait()
		// ---- oracle (single-threaded from here)
		where := fmt.Sprintf("round %d, %d goroutines, mode %s, total %d", round, g, mode, total)
		filled, pop := 0, 0
		ba := ps.BitArray()
		for i := 0; i < total; i++ {
			if ps.GetPart(i) != nil {
				filled++
			}
			if ba.GetIndex(i) {
				pop++
			}
			n := 0
			for k := 0; k < g; k++ {
				n += trues[k][i]
			}
			if n > 1 {
				return fmt.Sprintf("VIOL:race-corrupt index %d was reported added=true %d times (%s)", i, n, where)
			}
		}
		if ps.Count() != filled || filled != pop {
			return fmt.Sprintf("VIOL:race-corrupt Count()=%d, non-nil slots=%d, bits set=%d (%s)", ps.Count(), filled, pop, where)
		}
		if ps.IsComplete() {
			if filled != total {
				return fmt.Sprintf("VIOL:race-corrupt IsComplete with %d of %d slots filled (%s)", filled, total, where)
			}
			var got []byte
			if pc := call(func() { got, _ = io.ReadAll(ps.GetReader()) }); pc != "" || !bytes.Equal(got, S.data) {
				return fmt.Sprintf("VIOL:race-corrupt complete set does not read back the block %s (%s)", pc, where)
			}
		} else if mode == "multi" {
			return fmt.Sprintf("VIOL:race-incomplete every part was offered but the set is not complete: %d of %d (%s)", filled, total, where)
		}
	}
	return "ok"
}

// ---------------------------------------------------------------- generator

var partSizes = []int{1, 2, 7, 64, 1024}

func numParts(n, ps int) int { return (n + ps - 1) / ps }

func genData(r *kit.Rand, n int) []byte {
	switch r.Intn(4) {
	case 0: // repetitive: equal parts → equal leaves, distinct positions
		b := make([]byte, n)
		for i := range b {
			b[i] = byte(i % 3)
		}
		return b
	case 1:
		return make([]byte, n)
	}
	return r.Bytes(n)
}

// arrival order: every index once, shuffled, with duplicates interleaved
func arrival(r *kit.Rand, total int, dupPct int) []int {
	perm := make([]int, total)
	for i := range perm {
		perm[i] = i
	}
	switch r.Intn(4) {
	case 0: // in order
	case 1: // reversed
		for i, j := 0, total-1; i < j; i, j = i+1, j-1 {
			perm[i], perm[j] = perm[j], perm[i]
		}
	default:
		for i := total - 1; i > 0; i-- {
			j := r.Intn(i + 1)
			perm[i], perm[j] = perm[j], perm[i]
		}
	}
	var out []int
	for k, i := range perm {
		out = append(out, i)
		for r.Chance(dupPct) {
			out = append(out, perm[r.Intn(k+1)]) // a duplicate of something already sent
		}
	}
	return out
}

func randMod(r *kit.Rand, i, total int) string {
	j := r.Intn(total)
	switch r.Intn(25) {
	case 22:
		return fmt.Sprintf("flipb=%d:%d releaf", r.Intn(5000), 1+r.Intn(255)) // forged content, self-consistent leaf hash
	case 23:
		return "bytes=" + kit.Hex(r.Bytes(r.Intn(9))) + " releaf"
	case 24:
		return fmt.Sprintf("data=%d releaf", j) // another part's content under this part's aunts
	case 0:
		return fmt.Sprintf("flipb=%d:%d", r.Intn(5000), 1+r.Intn(255))
	case 1:
		return fmt.Sprintf("flipl=%d:%d", r.Intn(32), 1<<uint(r.Intn(8)))
	case 2:
		return fmt.Sprintf("flipa=%d:%d:%d", r.Intn(16), r.Intn(32), 1<<uint(r.Intn(8)))
	case 3:
		return "dropa"
	case 4:
		return "adda=" + hex.EncodeToString(r.Bytes(32))
	case 5:
		return fmt.Sprintf("proof=%d", j)
	case 6:
		return fmt.Sprintf("data=%d", j)
	case 7:
		return fmt.Sprintf("idx=%d", i+kit.Pick(r, []int{1, -1, 2, -2, total, -total}))
	case 8:
		return fmt.Sprintf("idx=%d", kit.Pick(r, []int{-1, -2, -total, -1 << 31, -1 << 62, total, total + 1, 1 << 31, 1<<62 + 5}))
	case 9:
		return fmt.Sprintf("ptot=%d", total+kit.Pick(r, []int{1, -1, 2, -total, -total - 1, total}))
	case 10:
		return fmt.Sprintf("pidx=%d", kit.Pick(r, []int{i + 1, i - 1, -1, total, j}))
	case 11:
		return fmt.Sprintf("idx=%d pidx=%d", j, j) // proof/bytes of i presented as part j
	case 12:
		return fmt.Sprintf("idx=%d pidx=%d proof=%d data=%d", j, j, j, j) // a fully consistent OTHER part: valid
	case 13:
		return "nil"
	case 14:
		return "bytes=" + kit.Hex(r.Bytes(r.Intn(9)))
	case 15:
		return "leaf=" + kit.Hex(r.Bytes(kit.Pick(r, []int{0, 31, 32, 33})))
	case 16:
		return "adda=e"
	case 17:
		return fmt.Sprintf("idx=%d pidx=%d", -1-r.Intn(3), -1-r.Intn(3))
	case 18:
		return fmt.Sprintf("flipb=%d:%d data=%d", r.Intn(64), 1+r.Intn(255), i) // flip then restore: valid
	case 19:
		return fmt.Sprintf("ptot=%d pidx=%d", total+1, i)
	case 20:
		return fmt.Sprintf("dropa adda=%s", hex.EncodeToString(r.Bytes(32)))
	}
	return fmt.Sprintf("flipb=%d:%d flipl=%d:%d", r.Intn(64), 1+r.Intn(255), r.Intn(32), 1+r.Intn(255))
}

// honest reassembly case
func genHonest(w *kit.Out, r *kit.Rand, id string, n, ps int) {
	w.Case(id)
	data := genData(r, n)
	w.Op("make %s %d", kit.Hex(data), ps)
	total := numParts(n, ps)
	if total == 0 {
		w.Op("fromheader")
		w.Op("rawheader 0 e")
		w.Op("state")
		w.Op("read 0")
		return
	}
	w.Op("part 0")
	w.Op("part %d", total-1)
	w.Op("part %d", r.Intn(total))
	w.Op("fromheader")
	w.Op("state")
	w.Op("read 0")
	seq := arrival(r, total, 25)
	every := 1
	if total > 16 {
		every = len(seq)/6 + 1
	}
	for k, i := range seq {
		w.Op("add %d", i)
		if (k+1)%every == 0 {
			w.Op("state")
		}
	}
	w.Op("state")
	w.Op("header")
	w.Op("read 0")
	w.Op("read %d", kit.Pick(r, []int{1, 3, ps, ps + 1, 2*ps + 1, 4096}))
	// after completion: duplicates and out-of-range never corrupt
	w.Op("add %d", r.Intn(total))
	w.Op("add %d idx=%d pidx=%d", r.Intn(total), total, total)
	w.Op("add %d idx=-1", r.Intn(total))
	w.Op("add %d flipb=0:1", r.Intn(total))
	w.Op("getpart %d", r.Intn(total))
	w.Op("state")
	w.Op("read 0")
}

// corruption stream interleaved with an honest arrival
func genCorrupt(w *kit.Out, r *kit.Rand, id string, n, ps int, corruptPct int) {
	w.Case(id)
	data := genData(r, n)
	total := numParts(n, ps)
	w.Op("make %s %d", kit.Hex(data), ps)
	if total == 0 {
		return
	}
	w.Op("fromheader")
	seq := arrival(r, total, 15)
	for _, i := range seq {
		for r.Chance(corruptPct) {
			k := r.Intn(total)
			m := randMod(r, k, total)
			w.Op("add %d %s", k, m)
			if r.Chance(30) {
				w.Op("state")
			}
			if r.Chance(10) {
				w.Op("vb %d %s", k, m)
			}
			if r.Chance(5) {
				w.Op("read 0")
			}
			if r.Chance(5) {
				w.Op("getpart %d", kit.Pick(r, []int{k, -1, total, total - 1}))
			}
		}
		w.Op("add %d", i)
	}
	w.Op("state")
	w.Op("read 0")
	w.Op("read %d", 1+r.Intn(2*ps+2))
}

// malformed headers, nil set, the full set, ValidateBasic shapes
func genMalformed(w *kit.Out, r *kit.Rand, id string, n, ps int) {
	w.Case(id)
	data := genData(r, n)
	total := numParts(n, ps)
	w.Op("make %s %d", kit.Hex(data), ps)
	if total == 0 {
		return
	}
	// header total off by one / random hash / truncated hash: nothing may be accepted
	w.Op("part %d", r.Intn(total))
	for _, hdr := range []string{
		fmt.Sprintf("rawheader %d %s", total+1, hex.EncodeToString(r.Bytes(32))),
		fmt.Sprintf("rawheader %d %s", total, hex.EncodeToString(r.Bytes(32))),
		fmt.Sprintf("rawheader %d %s", total, hex.EncodeToString(r.Bytes(31))),
		"rawheader 0 e",
	} {
		w.Op("%s", hdr)
		for k := 0; k < 4; k++ {
			i := r.Intn(total)
			if r.Bool() {
				w.Op("add %d", i)
			} else {
				w.Op("add %d %s", i, randMod(r, i, total))
			}
		}
		w.Op("state")
		w.Op("read 0")
	}
	w.Op("nilset")
	w.Op("add %d", r.Intn(total))
	w.Op("add %d nil", r.Intn(total))
	w.Op("state")
	w.Op("header")
	w.Op("read 0")
	w.Op("full")
	w.Op("state")
	for k := 0; k < 6; k++ {
		i := r.Intn(total)
		if r.Bool() {
			w.Op("add %d", i)
		} else {
			w.Op("add %d %s", i, randMod(r, i, total))
		}
	}
	w.Op("state")
	w.Op("read %d", 1+r.Intn(ps+3))
	// ValidateBasic shapes
	i := r.Intn(total)
	w.Op("vb %d", i)
	w.Op("vb %d idx=-1", i)
	w.Op("vb %d idx=0 pidx=-1", i)
	w.Op("vb %d ptot=-1", i)
	w.Op("vb %d leaf=%s", i, hex.EncodeToString(r.Bytes(31)))
	w.Op("vb %d adda=%s", i, hex.EncodeToString(r.Bytes(33)))
	w.Op("vb %d adda=e", i)
	w.Op("vb %d nil", i)
	w.Op("vb %d %s", i, randMod(r, i, total))
}

// regression of a fixed defect (96b4d2262f): a header with an empty hash used to accept malformed proofs
func genNilRoot(w *kit.Out, r *kit.Rand, id string, n, ps int) {
	w.Case(id)
	data := r.Bytes(n)
	total := numParts(n, ps)
	w.Op("make %s %d", kit.Hex(data), ps)
	if total < 2 {
		return
	}
	w.Op("rawheader %d e", total)
	i := r.Intn(total)
	w.Op("add %d", i)       // honest proof does not hash to an empty root: rejected
	w.Op("add %d dropa", i) // aunt list too short → computed hash is nil → must NOT match the empty root
	k := (i + 1) % total
	w.Op("add %d bytes=%s releaf dropa", k, hex.EncodeToString(r.Bytes(1+r.Intn(8)))) // arbitrary content
	w.Op("getpart %d", k)
	w.Op("state")
}

// every single-field confusion between two parts of a small block, exhaustively
func genSmallExhaustive(w *kit.Out, r *kit.Rand, total int) {
	ps := kit.Pick(r, []int{1, 2, 3})
	n := total*ps - r.Intn(ps)
	w.Case(fmt.Sprintf("small-exhaustive/t%d/ps%d", total, ps))
	w.Op("make %s %d", kit.Hex(r.Bytes(n)), ps)
	w.Op("fromheader")
	// half of the slots already filled, so that every confusion meets both an empty and a full slot
	for i := 0; i < total; i += 2 {
		w.Op("add %d", i)
	}
	for i := 0; i < total; i++ {
		for j := -1; j <= total; j++ {
			if j != i {
				w.Op("add %d idx=%d", i, j)
				w.Op("add %d pidx=%d", i, j)
				w.Op("add %d idx=%d pidx=%d", i, j, j)
				w.Op("add %d ptot=%d", i, j+1)
			}
			if j >= 0 && j < total && j != i {
				w.Op("add %d proof=%d", i, j)
				w.Op("add %d data=%d", i, j)
				w.Op("add %d data=%d releaf", i, j)
				w.Op("add %d idx=%d pidx=%d data=%d releaf", i, j, j, j)
				w.Op("add %d idx=%d pidx=%d proof=%d", i, j, j, j)
			}
		}
		w.Op("add %d dropa", i)
		w.Op("add %d adda=%s", i, hex.EncodeToString(r.Bytes(32)))
		for k := 0; k < 4; k++ {
			w.Op("add %d flipa=%d:%d:%d", i, k, r.Intn(32), 1<<uint(r.Intn(8)))
		}
		w.Op("state")
	}
	for i := 1; i < total; i += 2 {
		w.Op("add %d", i)
	}
	w.Op("state")
	w.Op("read 0")
}

// concurrency stress (search support): same part / overlapping subsets / all parts, racing goroutines
func genRace(w *kit.Out, r *kit.Rand, id string, n, ps, rounds int) {
	w.Case(id)
	w.Op("make %s %d", kit.Hex(r.Bytes(n)), ps)
	for _, g := range []int{8, 2, 5} {
		w.Op("race %d %d same %d", g, rounds, r.U64()>>1)
		w.Op("race %d %d overlap %d", g, rounds/2+1, r.U64()>>1)
		w.Op("race %d %d multi %d", g, rounds/4+1, r.U64()>>1)
	}
}

func gen(w *kit.Out, r *kit.Rand, tier string) {
	thorough := tier == "thorough"
	maxRand := 4096
	// (i) boundary table
	rb := r.Fork()
	for _, ps := range partSizes {
		seen := map[int]bool{}
		sizes := []int{0, 1, ps - 1, ps, ps + 1, 2 * ps, 3*ps + 1, 1 + rb.Intn(maxRand)}
		if ps == 1 && !thorough {
			sizes[len(sizes)-1] = 1 + rb.Intn(700) // one part per byte: keep the quick tier short
		}
		for _, n := range sizes {
			if n < 0 || seen[n] {
				continue
			}
			seen[n] = true
			genHonest(w, rb, fmt.Sprintf("honest/ps%d/n%d", ps, n), n, ps)
		}
	}
	// tree-shape boundaries: totals around powers of two (split point changes)
	for _, total := range []int{2, 3, 4, 5, 7, 8, 9, 15, 16, 17, 31, 32, 33, 63, 64, 65, 127, 128, 129} {
		ps := kit.Pick(rb, []int{1, 2, 7})
		n := total*ps - rb.Intn(ps)
		genHonest(w, rb, fmt.Sprintf("shape/t%d/ps%d", total, ps), n, ps)
		genCorrupt(w, rb, fmt.Sprintf("shape-corrupt/t%d/ps%d", total, ps), n, ps, 40)
	}
	maxSmall := 8
	if thorough {
		maxSmall = 17
	}
	for total := 1; total <= maxSmall; total++ {
		genSmallExhaustive(w, rb, total)
	}
	// (ii) structured random: mostly valid
	rr := r.Fork()
	nr := 300
	if thorough {
		nr = 6000
	}
	for c := 0; c < nr; c++ {
		ps := kit.Pick(rr, partSizes)
		if rr.Chance(25) {
			ps = 1 + rr.Intn(200)
		}
		n := 1 + rr.Intn(maxRand)
		if ps < 8 {
			n = 1 + rr.Intn(60*ps)
		}
		if rr.Chance(70) {
			genCorrupt(w, rr, fmt.Sprintf("rand/%d", c), n, ps, 25)
		} else {
			genHonest(w, rr, fmt.Sprintf("rand-honest/%d", c), n, ps)
		}
	}
	if thorough {
		// the real part size, multi-part block; and one large one-byte-part block
		for c := 0; c < 3; c++ {
			genHonest(w, rr, fmt.Sprintf("big/%d", c), 65536*(1+c)+rr.Intn(70000), 65536)
		}
		genCorrupt(w, rr, "big/real-partsize", 65536*3+rr.Intn(65536), 65536, 30)
		genCorrupt(w, rr, "big/ps1", 3000+rr.Intn(1000), 1, 10)
		genHonest(w, rr, "big/ps1-4096", 4096, 1)
		genCorrupt(w, rr, "big/ps2", 4096, 2, 20)
	}
	// (ii') concurrency stress: the real part size (long verification window) and small parts
	rc := r.Fork()
	rounds := 60
	if thorough {
		rounds = 600
	}
	genRace(w, rc, "race/ps65536", 65536*2+1+rc.Intn(65536), 65536, rounds)
	genRace(w, rc, "race/ps1024", 1024*3+rc.Intn(1024), 1024, rounds)
	genRace(w, rc, "race/ps64", 64*4+1+rc.Intn(64), 64, rounds)
	genRace(w, rc, "race/one-part", 1+rc.Intn(4096), 65536, rounds)
	// (iii) malformed stream
	rm := r.Fork()
	nm := 80
	if thorough {
		nm = 1500
	}
	for c := 0; c < nm; c++ {
		ps := kit.Pick(rm, partSizes)
		n := 1 + rm.Intn(20*ps)
		if n > maxRand {
			n = maxRand
		}
		genMalformed(w, rm, fmt.Sprintf("malformed/%d", c), n, ps)
	}
	for c := 0; c < 3; c++ {
		ps := kit.Pick(rm, []int{1, 2, 7})
		genNilRoot(w, rm, fmt.Sprintf("nilroot/%d", c), ps*(2+rm.Intn(9)), ps)
	}
}

func main() {
	kit.Main(&kit.Harness{Gen: gen, Reset: reset, Exec: exec})
}
