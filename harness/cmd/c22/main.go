// Harness for C22: stacks of cache / prefix stores over a dbadapter(memdb) base
// (tm2/pkg/store/{cache,prefix,dbadapter}, tm2/pkg/db/memdb).
//
// Line protocol (see lean/GnoVerif/Drive/C22.lean for the same table):
//
//	new L<i> cache L<i-1>            push a cache store on the current top
//	new L<i> prefix <hex> L<i-1>     push a prefix store
//	get|has|del L<i> <key>           key: hex | e (empty) | - (nil)
//	set L<i> <key> <value>
//	it  L<i> asc|desc <start> <end>  full listing [k=v,k=v,…]
//	ito L<i> asc|desc <start> <end>  open an iterator and keep it (ids 0,1,2,… per case)
//	itr <id>                         drain a kept iterator (or `stale` if an op physically
//	                                 reached the base store after it was opened)
//	write|cp|wcp|hascp L<i>
//	dump                             `it L<i> asc - -` for every layer, bottom to top
//	cmp <a> <b> | pend <p> | indom <k> <s> <e>   bytes.Compare / PrefixEndBytes / IsKeyInDomain
//
// Oracle (independent of the Lean model): every layer is a plain Go map —
// base: map[string][]byte; cache: an overlay map key → (value | tombstone) over
// its parent; prefix: a key translation.  Reads are overlay lookups, listings
// are "flatten, filter by range, sort", Write applies the overlay to the parent
// and clears it, Checkpoint copies the overlay, WriteCheckpoint restores the
// copy and writes.  That is the property statement evaluated directly.
package main

import (
	"bytes"
	"fmt"
	"sort"
	"strconv"
	"strings"

	dbm "github.com/gnolang/gno/tm2/pkg/db"
	"github.com/gnolang/gno/tm2/pkg/db/memdb"
	"github.com/gnolang/gno/tm2/pkg/store/cache"
	"github.com/gnolang/gno/tm2/pkg/store/dbadapter"
	"github.com/gnolang/gno/tm2/pkg/store/prefix"
	"github.com/gnolang/gno/tm2/pkg/store/types"
	"gnoverif/kit"
)

// ---------------------------------------------------------------- state

type oent struct {
	del bool
	v   []byte
}

type layer struct {
	kind   string // "base" | "cache" | "prefix"
	store  types.Store
	parent *layer
	// oracle side
	base   map[string][]byte
	ov     map[string]oent
	cp     map[string]oent
	hasCp  bool
	prefix []byte
}

type held struct {
	id      int
	layer   int
	tainted bool
	it      types.Iterator
	want    string // oracle listing at open time
}

var (
	layers  []*layer
	helds   []*held
	nextID  int
	beneath bool // a set/del/wcp hit a layer that has a cache layer above it
)

func reset() {
	for _, h := range helds {
		closeIt(h.it)
	}
	helds = nil
	nextID = 0
	beneath = false
	layers = []*layer{{
		kind:  "base",
		store: dbadapter.Store{DB: memdb.NewMemDB()},
		base:  map[string][]byte{},
	}}
}

func closeIt(it types.Iterator) {
	defer func() { recover() }()
	it.Close()
}

// ---------------------------------------------------------------- oracle

func oget(l *layer, k string) ([]byte, bool) {
	switch l.kind {
	case "base":
		v, ok := l.base[k]
		return v, ok
	case "cache":
		if e, ok := l.ov[k]; ok {
			if e.del {
				return nil, false
			}
			return e.v, true
		}
		return oget(l.parent, k)
	default:
		return oget(l.parent, string(l.prefix)+k)
	}
}

func oset(l *layer, k string, v []byte) {
	switch l.kind {
	case "base":
		l.base[k] = v
	case "cache":
		l.ov[k] = oent{v: v}
	default:
		oset(l.parent, string(l.prefix)+k, v)
	}
}

func odel(l *layer, k string) {
	switch l.kind {
	case "base":
		delete(l.base, k)
	case "cache":
		l.ov[k] = oent{del: true}
	default:
		odel(l.parent, string(l.prefix)+k)
	}
}

func oflat(l *layer) map[string][]byte {
	out := map[string][]byte{}
	switch l.kind {
	case "base":
		for k, v := range l.base {
			out[k] = v
		}
	case "cache":
		out = oflat(l.parent)
		for k, e := range l.ov {
			if e.del {
				delete(out, k)
			} else {
				out[k] = e.v
			}
		}
	default:
		p := string(l.prefix)
		for k, v := range oflat(l.parent) {
			if strings.HasPrefix(k, p) {
				out[k[len(p):]] = v
			}
		}
	}
	return out
}

func olist(l *layer, s, e []byte, asc bool) string {
	m := oflat(l)
	keys := make([]string, 0, len(m))
	for k := range m {
		if s != nil && k < string(s) {
			continue
		}
		if e != nil && k >= string(e) {
			continue
		}
		keys = append(keys, k)
	}
	sort.Strings(keys)
	if !asc {
		for i, j := 0, len(keys)-1; i < j; i, j = i+1, j-1 {
			keys[i], keys[j] = keys[j], keys[i]
		}
	}
	parts := make([]string, len(keys))
	for i, k := range keys {
		parts[i] = kit.Hex([]byte(k)) + "=" + kit.Hex(m[k])
	}
	return "[" + strings.Join(parts, ",") + "]"
}

func owrite(l *layer) {
	for k, e := range l.ov {
		if e.del {
			odel(l.parent, k)
		} else {
			oset(l.parent, k, e.v)
		}
	}
	l.ov = map[string]oent{}
	l.cp, l.hasCp = nil, false
}

func cloneOv(m map[string]oent) map[string]oent {
	out := make(map[string]oent, len(m))
	for k, v := range m {
		out[k] = v
	}
	return out
}

// ---------------------------------------------------------------- real-code calls with panic classification

func classify(v any) string {
	s := fmt.Sprint(v)
	switch {
	case strings.Contains(s, "key is nil"), strings.Contains(s, "nil key on Store"):
		return "panic:nilkey"
	case strings.Contains(s, "value is nil"):
		return "panic:nilvalue"
	case strings.Contains(s, "unexpected .Write()"):
		return "panic:write"
	case strings.Contains(s, "WriteCheckpoint called without Checkpoint"):
		return "panic:nocheckpoint"
	}
	return "panic:other " + s
}

// guard runs f; returns "" or the panic class.
func guard(f func()) (p string) {
	defer func() {
		if v := recover(); v != nil {
			p = classify(v)
		}
	}()
	f()
	return ""
}

func nn(b []byte) []byte {
	if b == nil {
		return []byte{}
	}
	return b
}

func cpb(b []byte) []byte {
	if b == nil {
		return nil
	}
	return append([]byte{}, b...)
}

func drain(it types.Iterator) string {
	var parts []string
	for ; it.Valid(); it.Next() {
		k, v := cpb(it.Key()), cpb(it.Value())
		parts = append(parts, kit.Hex(nn(k))+"="+kit.Hex(v))
	}
	it.Close()
	return "[" + strings.Join(parts, ",") + "]"
}

func openIt(l *layer, s, e []byte, asc bool) types.Iterator {
	if asc {
		return l.store.Iterator(nil, s, e)
	}
	return l.store.ReverseIterator(nil, s, e)
}

// ---------------------------------------------------------------- exec

// natTok: 1–9 decimal digits, nothing else.
func natTok(s string) (int, bool) {
	if len(s) < 1 || len(s) > 9 {
		return 0, false
	}
	for _, c := range s {
		if c < '0' || c > '9' {
			return 0, false
		}
	}
	n, err := strconv.Atoi(s)
	return n, err == nil
}

func layerIdx(tok string) (int, bool) {
	if !strings.HasPrefix(tok, "L") {
		return 0, false
	}
	return natTok(tok[1:])
}

func hexTok(s string) ([]byte, bool) {
	if s == "-" {
		return nil, true
	}
	if s == "e" {
		return []byte{}, true
	}
	if len(s)%2 != 0 || len(s) == 0 {
		return nil, false
	}
	for _, c := range s {
		if !(c >= '0' && c <= '9' || c >= 'a' && c <= 'f' || c >= 'A' && c <= 'F') {
			return nil, false
		}
	}
	b, err := kit.UnHex(strings.ToLower(s))
	return b, err == nil
}

// A kept iterator has copied the dirty items of every cache store it runs
// through; only the memdb iterator at the bottom reads its values lazily.  So it
// is disturbed exactly by an op that physically reaches the base: set/del on a
// layer with no cache store at or below it, write/wcp of a cache store with no
// cache store below it.  Such an op taints every kept iterator.
func taint(op string, j int) {
	n := j
	if op == "set" || op == "del" {
		n = j + 1
	}
	for i := 0; i < n && i < len(layers); i++ {
		if layers[i].kind == "cache" {
			return
		}
	}
	for _, h := range helds {
		h.tainted = true
	}
}

// compact: the kit cuts lines at 300 characters; long listings are printed as a
// 200-character head plus length and FNV-1a digest of the whole.
func compact(s string) string {
	if len(s) <= 250 {
		return s
	}
	h := uint64(14695981039346656037)
	for i := 0; i < len(s); i++ {
		h ^= uint64(s[i])
		h *= 1099511628211
	}
	return fmt.Sprintf("%s~%d~%016x", s[:200], len(s), h)
}

// markBeneath records that a view-changing op hit layer j while a cache layer sits above it.
func markBeneath(j int) {
	for i := j + 1; i < len(layers); i++ {
		if layers[i].kind == "cache" {
			beneath = true
		}
	}
}

func readClass() string {
	if beneath {
		return "stale-read"
	}
	return "read-mismatch"
}

func verdict(cls, what, got, want string) string {
	if got == want {
		return "ok"
	}
	return fmt.Sprintf("VIOL:%s %s: got %s, overlay model says %s", cls, what, got, want)
}

func getLayer(tok string) (*layer, int, string) {
	i, ok := layerIdx(tok)
	if !ok {
		return nil, 0, "err:badop"
	}
	if i >= len(layers) {
		return nil, 0, "err:badlayer"
	}
	return layers[i], i, ""
}

func exec(t []string) (string, string) {
	a, b := exec1(t)
	return compact(a), b
}

func exec1(t []string) (string, string) {
	if len(t) == 0 {
		return "err:badop", "-"
	}
	switch {
	case t[0] == "new" && len(t) == 4 && t[2] == "cache":
		i, ok1 := layerIdx(t[1])
		j, ok2 := layerIdx(t[3])
		if !ok1 || !ok2 || i != len(layers) || j+1 != i {
			return "err:badop", "-"
		}
		p := layers[j]
		layers = append(layers, &layer{kind: "cache", store: cache.New(p.store), parent: p, ov: map[string]oent{}})
		return "ok", "-"
	case t[0] == "new" && len(t) == 5 && t[2] == "prefix":
		i, ok1 := layerIdx(t[1])
		j, ok2 := layerIdx(t[4])
		q, ok3 := hexTok(t[3])
		if !ok1 || !ok2 || !ok3 || i != len(layers) || j+1 != i {
			return "err:badop", "-"
		}
		p := layers[j]
		layers = append(layers, &layer{kind: "prefix", store: prefix.New(p.store, q), parent: p, prefix: nn(cpb(q))})
		return "ok", "-"
	case (t[0] == "get" || t[0] == "has" || t[0] == "del") && len(t) == 3:
		k, ok := hexTok(t[2])
		if !ok {
			return "err:badop", "-"
		}
		l, i, e := getLayer(t[1])
		if e != "" {
			return e, "-"
		}
		switch t[0] {
		case "get":
			var v []byte
			if p := guard(func() { v = l.store.Get(nil, k) }); p != "" {
				return p, "-"
			}
			want, _ := oget(l, string(k))
			return kit.Hex(v), verdict(readClass(), "get", kit.Hex(v), kit.Hex(want))
		case "has":
			var b bool
			if p := guard(func() { b = l.store.Has(nil, k) }); p != "" {
				return p, "-"
			}
			_, want := oget(l, string(k))
			return strconv.FormatBool(b), verdict(readClass(), "has", strconv.FormatBool(b), strconv.FormatBool(want))
		default:
			taint("del", i)
			if p := guard(func() { l.store.Delete(nil, k) }); p != "" {
				return p, "-"
			}
			markBeneath(i)
			odel(l, string(k))
			return "ok", "-"
		}
	case t[0] == "set" && len(t) == 4:
		k, ok1 := hexTok(t[2])
		v, ok2 := hexTok(t[3])
		if !ok1 || !ok2 {
			return "err:badop", "-"
		}
		l, i, e := getLayer(t[1])
		if e != "" {
			return e, "-"
		}
		taint("set", i)
		if p := guard(func() { l.store.Set(nil, k, v) }); p != "" {
			return p, "-"
		}
		markBeneath(i)
		oset(l, string(k), nn(cpb(v)))
		return "ok", "-"
	case (t[0] == "it" || t[0] == "ito") && len(t) == 5:
		var asc bool
		switch t[2] {
		case "asc":
			asc = true
		case "desc":
		default:
			return "err:badop", "-"
		}
		s, ok1 := hexTok(t[3])
		e, ok2 := hexTok(t[4])
		if !ok1 || !ok2 {
			return "err:badop", "-"
		}
		l, i, er := getLayer(t[1])
		if er != "" {
			return er, "-"
		}
		want := olist(l, s, e, asc)
		if t[0] == "it" {
			var got string
			if p := guard(func() { got = drain(openIt(l, s, e, asc)) }); p != "" {
				return p, "-"
			}
			return got, verdict("iter-mismatch", "it", got, want)
		}
		var it types.Iterator
		if p := guard(func() { it = openIt(l, s, e, asc) }); p != "" {
			return p, "-"
		}
		helds = append(helds, &held{id: nextID, layer: i, it: it, want: want})
		nextID++
		return "ok", "-"
	case t[0] == "itr" && len(t) == 2:
		n, ok := natTok(t[1])
		if !ok {
			return "err:badop", "-"
		}
		for x, h := range helds {
			if h.id == n {
				helds = append(helds[:x], helds[x+1:]...)
				if h.tainted {
					closeIt(h.it)
					return "stale", "-"
				}
				var got string
				if p := guard(func() { got = drain(h.it) }); p != "" {
					return p, "-"
				}
				return got, verdict("held-iter-mismatch", "itr", got, h.want)
			}
		}
		return "err:badop", "-"
	case (t[0] == "write" || t[0] == "cp" || t[0] == "wcp" || t[0] == "hascp") && len(t) == 2:
		l, i, e := getLayer(t[1])
		if e != "" {
			return e, "-"
		}
		switch t[0] {
		case "write":
			taint("write", i)
			if p := guard(func() { l.store.Write() }); p != "" {
				return p, "-"
			}
			owrite(l)
			return "ok", "-"
		case "cp":
			c, ok := l.store.(types.Checkpointable)
			if !ok {
				return "err:notcache", "-"
			}
			c.Checkpoint()
			l.cp, l.hasCp = cloneOv(l.ov), true
			return "ok", "-"
		case "wcp":
			taint("wcp", i)
			c, ok := l.store.(types.Checkpointable)
			if !ok {
				return "err:notcache", "-"
			}
			if p := guard(func() { c.WriteCheckpoint() }); p != "" {
				o := "-"
				if l.hasCp {
					o = "VIOL:checkpoint-lost WriteCheckpoint panicked although a checkpoint was taken"
				}
				return p, o
			}
			if !l.hasCp {
				return "ok", "VIOL:checkpoint-phantom WriteCheckpoint succeeded without a checkpoint"
			}
			markBeneath(i)
			l.ov = l.cp
			owrite(l)
			return "ok", "-"
		default:
			c, ok := l.store.(types.Checkpointable)
			if !ok {
				return "err:notcache", "-"
			}
			b := c.HasCheckpoint()
			return strconv.FormatBool(b), verdict("checkpoint-flag", "hascp", strconv.FormatBool(b), strconv.FormatBool(l.hasCp))
		}
	case t[0] == "dump" && len(t) == 1:
		var parts, wants []string
		for i, l := range layers {
			var got string
			if p := guard(func() { got = drain(openIt(l, nil, nil, true)) }); p != "" {
				got = p
			}
			parts = append(parts, fmt.Sprintf("L%d=%s", i, got))
			wants = append(wants, fmt.Sprintf("L%d=%s", i, olist(l, nil, nil, true)))
		}
		g, w := strings.Join(parts, " "), strings.Join(wants, " ")
		return g, verdict("iter-mismatch", "dump", g, w)
	case t[0] == "cmp" && len(t) == 3:
		a, ok1 := hexTok(t[1])
		b, ok2 := hexTok(t[2])
		if !ok1 || !ok2 {
			return "err:badop", "-"
		}
		return strconv.Itoa(bytes.Compare(a, b)), "-"
	case t[0] == "pend" && len(t) == 2:
		p, ok := hexTok(t[1])
		if !ok {
			return "err:badop", "-"
		}
		e := types.PrefixEndBytes(p)
		// independent check of the characterisation on a few keys is done by the Lean theorem;
		// here: the result must be > p and must not have p as a prefix.
		o := "ok"
		if e != nil && (bytes.Compare(e, p) <= 0 || bytes.HasPrefix(e, p)) {
			o = "VIOL:prefix-end PrefixEndBytes(" + kit.Hex(p) + ")=" + kit.Hex(e)
		}
		return kit.Hex(e), o
	case t[0] == "indom" && len(t) == 4:
		k, ok1 := hexTok(t[1])
		s, ok2 := hexTok(t[2])
		e, ok3 := hexTok(t[3])
		if !ok1 || !ok2 || !ok3 {
			return "err:badop", "-"
		}
		return strconv.FormatBool(dbm.IsKeyInDomain(k, s, e)), "-"
	}
	return "err:badop", "-"
}

// ---------------------------------------------------------------- generators

var alphabet = []byte{0x00, 0x61, 0xff}

func allKeys(maxLen int) [][]byte {
	out := [][]byte{{}}
	frontier := [][]byte{{}}
	for l := 1; l <= maxLen; l++ {
		var next [][]byte
		for _, f := range frontier {
			for _, a := range alphabet {
				k := append(append([]byte{}, f...), a)
				next = append(next, k)
			}
		}
		out = append(out, next...)
		frontier = next
	}
	return out
}

type gstate struct {
	r        *kit.Rand
	w        *kit.Out
	kinds    []string // per layer
	prefixes [][]byte // per layer (prefix layers)
	clean    []bool   // cache layer may hold clean entries
	hasCp    []bool
	known    [][]string // per layer: key tokens used by set ops on that layer
	open     []int      // ids of kept iterators
	nextID   int
	maxDepth int
}

func (g *gstate) top() int { return len(g.kinds) - 1 }

func (g *gstate) randKey(n int) []byte {
	k := make([]byte, n)
	for i := range k {
		k[i] = kit.Pick(g.r, alphabet)
	}
	return k
}

// absolute prefix (in base coordinates) of layer i, and the chain of prefixes above a layer.
func (g *gstate) key(layer int) string {
	k := g.key0(layer)
	return k
}

// usedKey: mostly a key that was set on this layer before (so reads and deletes hit).
func (g *gstate) usedKey(layer int) string {
	if ks := g.known[layer]; len(ks) > 0 && g.r.Chance(45) {
		return kit.Pick(g.r, ks)
	}
	return g.key(layer)
}

func (g *gstate) cacheLayer() int {
	j := g.pickLayer()
	if g.kinds[j] != "cache" && g.r.Chance(90) {
		var cs []int
		for i, k := range g.kinds {
			if k == "cache" {
				cs = append(cs, i)
			}
		}
		if len(cs) > 0 {
			if g.r.Chance(50) {
				return cs[len(cs)-1]
			}
			return kit.Pick(g.r, cs)
		}
	}
	return j
}

func (g *gstate) key0(layer int) string {
	r := g.r
	switch {
	case r.Chance(2):
		return "-"
	case r.Chance(6):
		return "e"
	}
	// keys that line up with the prefix of a prefix layer above this one
	var above [][]byte
	for i := layer + 1; i < len(g.kinds); i++ {
		if g.kinds[i] == "prefix" {
			above = append(above, g.prefixes[i])
		}
	}
	if len(above) > 0 && r.Chance(55) {
		// concatenate the prefixes of the prefix layers between `layer` and some layer above
		n := r.Range(1, len(above))
		var k []byte
		for _, p := range above[:n] {
			k = append(k, p...)
		}
		switch r.Intn(5) {
		case 0: // exactly the prefix (empty-suffix key)
		case 1, 2:
			k = append(k, g.randKey(r.Range(1, 2))...)
		case 3: // just outside: PrefixEndBytes
			if e := types.PrefixEndBytes(k); e != nil {
				k = e
			}
		default: // a strict prefix of the prefix
			if len(k) > 0 {
				k = k[:len(k)-1]
			}
		}
		return kit.Hex(nn(k))
	}
	return kit.Hex(g.randKey(r.Range(0, 3)))
}

func (g *gstate) val() string {
	r := g.r
	switch {
	case r.Chance(2):
		return "-"
	case r.Chance(5):
		return "e"
	}
	return kit.Hex([]byte{byte(r.Range(1, 9))})
}

func (g *gstate) bound(layer int) string {
	r := g.r
	if r.Chance(35) {
		return "-"
	}
	k := g.key(layer)
	if k != "-" && k != "e" && r.Chance(20) {
		return k + "00" // adjacent: the immediate successor
	}
	return k
}

// safe reports whether a view-changing op at layer j respects the discipline
// "no cache layer above j holds clean (read-through) entries".
func (g *gstate) safe(j int) bool {
	for i := j + 1; i < len(g.kinds); i++ {
		if g.kinds[i] == "cache" && g.clean[i] {
			return false
		}
	}
	return true
}

func (g *gstate) noteRead(j int) {
	for i := 0; i <= j; i++ {
		if g.kinds[i] == "cache" {
			g.clean[i] = true
		}
	}
}

func (g *gstate) pickLayer() int {
	if g.r.Chance(60) {
		return g.top()
	}
	return g.r.Intn(len(g.kinds))
}

func (g *gstate) push() {
	i := len(g.kinds)
	if g.r.Chance(60) {
		g.w.Op("new L%d cache L%d", i, i-1)
		g.kinds = append(g.kinds, "cache")
		g.prefixes = append(g.prefixes, nil)
	} else {
		var p []byte
		switch g.r.Intn(8) {
		case 0:
			p = []byte{}
		case 1:
			p = []byte{0xff}
		case 2:
			p = []byte{0xff, 0xff}
		case 3:
			p = []byte{0x61, 0xff}
		case 4:
			p = []byte{0x00}
		default:
			p = g.randKey(g.r.Range(1, 2))
		}
		g.w.Op("new L%d prefix %s L%d", i, kit.Hex(p), i-1)
		g.kinds = append(g.kinds, "prefix")
		g.prefixes = append(g.prefixes, p)
	}
	g.clean = append(g.clean, false)
	g.hasCp = append(g.hasCp, false)
	g.known = append(g.known, nil)
}

// one op; disciplined=false lets view-changing ops hit unsafe layers.
func (g *gstate) op(disciplined bool) {
	r, w := g.r, g.w
	x := r.Intn(100)
	mut := func() int {
		j := g.pickLayer()
		if disciplined && !g.safe(j) {
			j = g.top()
		}
		return j
	}
	switch {
	case x < 24:
		j := mut()
		k := g.key(j)
		if r.Chance(20) {
			k = g.usedKey(j)
		}
		w.Op("set L%d %s %s", j, k, g.val())
		g.known[j] = append(g.known[j], k)
	case x < 36:
		j := mut()
		w.Op("del L%d %s", j, g.usedKey(j))
	case x < 48:
		j := g.pickLayer()
		w.Op("get L%d %s", j, g.usedKey(j))
		g.noteRead(j)
	case x < 52:
		j := g.pickLayer()
		w.Op("has L%d %s", j, g.usedKey(j))
		g.noteRead(j)
	case x < 67:
		j := g.pickLayer()
		d := "asc"
		if r.Bool() {
			d = "desc"
		}
		w.Op("it L%d %s %s %s", j, d, g.bound(j), g.bound(j))
	case x < 75:
		w.Op("dump")
	case x < 81:
		j := g.cacheLayer()
		w.Op("write L%d", j)
		if g.kinds[j] == "cache" {
			g.clean[j] = false
			g.hasCp[j] = false
		}
	case x < 85:
		j := g.cacheLayer()
		w.Op("cp L%d", j)
		if g.kinds[j] == "cache" {
			g.hasCp[j] = true
		}
	case x < 88:
		j := g.cacheLayer()
		if disciplined && !g.safe(j) {
			j = g.top()
		}
		if g.kinds[j] == "cache" && !g.hasCp[j] && r.Chance(80) {
			w.Op("cp L%d", j)
			g.hasCp[j] = true
			return
		}
		w.Op("wcp L%d", j)
		if g.kinds[j] == "cache" && g.hasCp[j] {
			g.clean[j] = false
			g.hasCp[j] = false
		}
	case x < 89:
		w.Op("hascp L%d", g.cacheLayer())
	case x < 93:
		if len(g.kinds) < g.maxDepth {
			g.push()
		} else {
			w.Op("dump")
		}
	case x < 96:
		j := g.pickLayer()
		d := "asc"
		if r.Bool() {
			d = "desc"
		}
		w.Op("ito L%d %s %s %s", j, d, g.bound(j), g.bound(j))
		g.open = append(g.open, g.nextID)
		g.nextID++
	default:
		if len(g.open) > 0 {
			x := r.Intn(len(g.open))
			w.Op("itr %d", g.open[x])
			g.open = append(g.open[:x], g.open[x+1:]...)
		} else {
			w.Op("dump")
		}
	}
}

func script(w *kit.Out, r *kit.Rand, id string, nops, maxDepth int, disciplined bool) {
	w.Case(id)
	g := &gstate{r: r, w: w, kinds: []string{"base"}, prefixes: [][]byte{nil}, clean: []bool{false}, hasCp: []bool{false}, known: [][]string{nil}, maxDepth: maxDepth}
	// populate the base a little, then build part of the stack early
	for i := r.Intn(5); i > 0; i-- {
		k := g.key(0)
		w.Op("set L0 %s %s", k, g.val())
		g.known[0] = append(g.known[0], k)
	}
	for i := r.Intn(3); i > 0 && len(g.kinds) < maxDepth; i-- {
		g.push()
	}
	for i := 0; i < nops; i++ {
		g.op(disciplined)
	}
	if !disciplined {
		// targeted: read through a cache store, change a store underneath, read again
		for i := g.top(); i >= 1; i-- {
			if g.kinds[i] != "cache" {
				continue
			}
			k := g.key(i)
			j := r.Intn(i)
			w.Op("get L%d %s", i, k)
			switch r.Intn(3) {
			case 0:
				w.Op("set L%d %s %s", j, k, g.val())
			case 1:
				w.Op("del L%d %s", j, k)
			default:
				if g.kinds[j] == "cache" {
					w.Op("cp L%d", j)
					w.Op("set L%d %s %s", j, k, g.val())
					w.Op("get L%d %s", i, k)
					w.Op("wcp L%d", j)
				} else {
					w.Op("set L%d %s %s", j, k, g.val())
				}
			}
			w.Op("get L%d %s", i, k)
			w.Op("has L%d %s", i, k)
			w.Op("it L%d asc - -", i)
			break
		}
	}
	for _, id := range g.open {
		w.Op("itr %d", id)
	}
	w.Op("dump")
}

func boundary(w *kit.Out) {
	keys := allKeys(2)
	// --- Base.Lex against the Go functions
	w.Case("lex")
	for _, a := range keys {
		w.Op("pend %s", kit.Hex(a))
		for _, b := range keys {
			w.Op("cmp %s %s", kit.Hex(a), kit.Hex(b))
		}
	}
	for _, p := range [][]byte{nil, {0xff, 0xff, 0xff}, {0x61, 0xff, 0xff}, {0xfe}, {0xfe, 0xff}, {0x00, 0xff}} {
		w.Op("pend %s", kit.Hex(p))
	}
	w.Op("cmp - e")
	w.Op("cmp - -")
	w.Op("cmp - 00")
	bnds := []string{"-", "e", "00", "61", "6100", "61ff", "ff", "ffff"}
	for _, k := range []string{"-", "e", "00", "61", "6100", "61ff", "ff", "ffff", "ffff00"} {
		for _, s := range bnds {
			for _, e := range bnds {
				w.Op("indom %s %s %s", k, s, e)
			}
		}
	}
	// --- nil keys / values, Write and checkpoints on every store kind
	w.Case("nil-and-panics")
	for _, l := range []string{
		"new L1 cache L0", "new L2 prefix 61 L1", "new L3 cache L2",
		"set L0 - 01", "get L0 e", "get L0 -", "has L0 -", "set L0 61 -", "get L0 61", "has L0 61", "del L0 -", "get L0 e",
		"set L1 - 01", "set L1 61 -", "set L1 - -", "get L1 -", "has L1 -", "del L1 -",
		"set L2 - 01", "set L2 61 -", "set L2 - -", "get L2 -", "has L2 -", "del L2 -",
		"set L3 - 01", "set L3 61 -", "get L3 -", "has L3 -", "del L3 -",
		"set L3 e 05", "get L3 e", "get L2 e", "get L1 61", "set L1 e 06", "get L1 e", "set L3 61 e", "get L3 61", "has L3 61", "dump",
		"write L0", "write L2", "cp L0", "cp L2", "wcp L0", "wcp L2", "hascp L0", "hascp L2",
		"wcp L1", "hascp L1", "cp L1", "hascp L1", "wcp L1", "hascp L1", "wcp L1",
		"cp L3", "write L3", "hascp L3", "wcp L3", "dump",
		"get L9 61", "it L4 asc - -", "new L9 cache L3", "new L4 cache L2", "new L4 prefix zz L3",
	} {
		w.Op("%s", l)
	}
	// --- a cache over a populated base: every range over the alphabet keys of length ≤ 1
	small := allKeys(1)
	ext := append(append([][]byte{}, small...), []byte{0x61, 0x00}, []byte{0x61, 0xff}, []byte{0xff, 0xff})
	w.Case("ranges-cache")
	for i, k := range keys {
		if i%2 == 0 {
			w.Op("set L0 %s %02x", kit.Hex(k), i+1)
		}
	}
	w.Op("new L1 cache L0")
	for i, k := range keys {
		switch i % 5 {
		case 1:
			w.Op("set L1 %s %02x", kit.Hex(k), 0x80+i)
		case 2, 4:
			w.Op("del L1 %s", kit.Hex(k))
		}
	}
	bb := []string{"-"}
	for _, k := range ext {
		bb = append(bb, kit.Hex(k))
	}
	for _, d := range []string{"asc", "desc"} {
		for _, s := range bb {
			for _, e := range bb {
				w.Op("it L1 %s %s %s", d, s, e)
			}
		}
	}
	w.Op("dump")
	w.Op("write L1")
	w.Op("dump")
	// --- prefix stores: every prefix over the alphabet (≤ 2 bytes), empty and all-0xFF included
	for pi, p := range keys {
		w.Case(fmt.Sprintf("prefix-%s", kit.Hex(p)))
		for i, k := range allKeys(3) {
			if (i+pi)%3 == 0 {
				w.Op("set L0 %s %02x", kit.Hex(k), (i%250)+1)
			}
		}
		w.Op("new L1 cache L0")
		w.Op("new L2 prefix %s L1", kit.Hex(p))
		w.Op("new L3 cache L2")
		w.Op("set L2 e 70")
		w.Op("set L3 ff 71")
		w.Op("del L3 00")
		w.Op("set L1 %s 72", kit.Hex(append(append([]byte{}, p...), 0x61)))
		if e := types.PrefixEndBytes(p); e != nil {
			w.Op("set L1 %s 73", kit.Hex(e))
		}
		for _, d := range []string{"asc", "desc"} {
			for _, s := range []string{"-", "e", "00", "61", "ff"} {
				for _, e := range []string{"-", "e", "00", "61", "ff", "ffff"} {
					w.Op("it L2 %s %s %s", d, s, e)
					w.Op("it L3 %s %s %s", d, s, e)
				}
			}
		}
		w.Op("get L2 e")
		w.Op("get L3 e")
		w.Op("has L3 ff")
		w.Op("dump")
		w.Op("write L3")
		w.Op("dump")
		w.Op("write L1")
		w.Op("dump")
	}
	// --- checkpoints
	w.Case("checkpoint")
	for _, l := range []string{
		"set L0 61 01", "set L0 62 02", "new L1 cache L0",
		"set L1 61 11", "del L1 62", "set L1 63 13", "cp L1", "hascp L1",
		"set L1 61 21", "set L1 62 22", "del L1 63", "set L1 64 24", "get L1 65", "it L1 asc - -", "dump",
		"wcp L1", "hascp L1", "dump", "get L1 61", "get L1 64", "wcp L1",
		"set L1 66 01", "cp L1", "set L1 67 01", "cp L1", "set L1 68 01", "wcp L1", "dump",
		"cp L1", "write L1", "wcp L1", "dump",
	} {
		w.Op("%s", l)
	}
	// --- kept iterators
	w.Case("held-iterators")
	for _, l := range []string{
		"set L0 61 01", "set L0 63 03", "new L1 cache L0", "set L1 62 02", "del L1 63", "new L2 cache L1", "set L2 64 04",
		"ito L2 asc - -", "ito L1 desc - -", "ito L2 asc 62 64",
		"set L2 60 09", "del L2 61", "set L2 62 99", "get L2 63", "it L2 asc - -", "write L2",
		"itr 0", "itr 2", "itr 1", "itr 1", "itr 7",
		"ito L2 asc - -", "ito L1 asc - -", "ito L0 asc - -", "set L1 65 05", "itr 3", "itr 4", "itr 5",
		"ito L2 asc - -", "write L1", "itr 6", "dump",
	} {
		w.Op("%s", l)
	}
}

func malformed(w *kit.Out, r *kit.Rand, n int) {
	w.Case("malformed")
	w.Op("new L1 cache L0")
	w.Op("new L2 prefix 61 L1")
	toks := []string{"get", "set", "del", "has", "it", "ito", "itr", "write", "cp", "wcp", "hascp", "dump", "new", "cmp", "pend", "indom",
		"L0", "L1", "L2", "L3", "L01", "L-1", "L", "l1", "cache", "prefix", "asc", "desc", "up", "-", "e", "61", "6", "zz", "0x61", "ff00", "FF", "1", "-1", "99", ""}
	for i := 0; i < n; i++ {
		k := r.Range(1, 6)
		var parts []string
		for j := 0; j < k; j++ {
			if t := kit.Pick(r, toks); t != "" {
				parts = append(parts, t)
			}
		}
		if len(parts) == 0 || strings.HasPrefix(parts[0], "#") {
			continue
		}
		w.Op("%s", strings.Join(parts, " "))
	}
	w.Op("dump")
}

func gen(w *kit.Out, r *kit.Rand, tier string) {
	boundary(w)
	nScripts, maxOps, maxDepth, nBeneath, nMal := 2500, 60, 5, 40, 400
	if tier == "thorough" {
		nScripts, maxOps, maxDepth, nBeneath, nMal = 12000, 200, 6, 200, 3000
	}
	rs := r.Fork()
	for i := 0; i < nScripts; i++ {
		n := rs.Range(1, maxOps)
		if rs.Chance(50) {
			n = rs.Range(1, 25)
		}
		script(w, rs, fmt.Sprintf("rand-%d", i), n, rs.Range(2, maxDepth), true)
	}
	rb := r.Fork()
	for i := 0; i < nBeneath; i++ {
		script(w, rb, fmt.Sprintf("beneath-%d", i), rb.Range(5, 40), rb.Range(2, maxDepth), false)
	}
	malformed(w, r.Fork(), nMal)
}

func main() {
	kit.Main(&kit.Harness{Gen: gen, Reset: reset, Exec: exec})
}
