// Harness for C23: the B+ tree (tm2/pkg/bptree) is a correct versioned ordered map.
//
// One REAL bptree.MutableTree over an in-memory DB per case.  Every op line is
// one call of the exported API (see gnoverif/bptkit: Inst.Exec for the op
// language and the canonical outputs).  `cfg CACHE FAST` (first op of a case)
// re-creates the tree with that node-cache size and fast-index setting; the
// answers must not depend on it, so the Lean model ignores it.
//
// Oracle (independent of the Lean model, gnoverif/bptkit/oracle.go): a plain Go
// map for the working contents and one frozen map per retained version; every
// read is compared with the map, every retained version is re-read in full after
// each save / prune / audit (a saved version never changes, pruning does not
// touch retained versions), the working tree is re-read in full after each
// rollback / load / reopen, and the root hash recorded when a version was
// saved must be reported for it ever after.
package main

import (
	"strconv"

	"gnoverif/bptkit"
	"gnoverif/kit"
)

var (
	inst   *bptkit.Inst
	oracle *bptkit.Oracle
	fresh  bool
)

func reset() {
	inst = bptkit.NewInst(bptkit.Cfg{Cache: 0, Fast: false})
	oracle = bptkit.NewOracle()
	fresh = true
}

func exec(t []string) (string, string) {
	if len(t) > 0 && t[0] == "cfg" {
		if len(t) != 3 || !fresh {
			return "err:badop", "-"
		}
		c, err := strconv.ParseUint(t[1], 10, 20)
		if err != nil || (t[2] != "0" && t[2] != "1") || t[1][0] == '+' {
			return "err:badop", "-"
		}
		inst = bptkit.NewInst(bptkit.Cfg{Cache: int(c), Fast: t[2] == "1"})
		return "ok", "-"
	}
	if len(t) > 0 && t[0] == "export" {
		return "err:badop", "-" // C24 only
	}
	fresh = false
	st := inst.Exec(t)
	return st.Out, oracle.Judge(t, st, inst)
}

func main() {
	kit.Main(&kit.Harness{Gen: bptkit.Gen("c23"), Reset: reset, Exec: exec})
}
