package main

import (
	"encoding/binary"
	"fmt"
	"strings"

	"gnoverif/kit"
)

// sizes of the boundary table; -1 = nil
var sizes = []int{-1, 0, 1, 2, 63, 64, 65, 127, 128, 129, 200}

const (
	fillZero = iota
	fillFull
	fillSparse
	fillRandom
	fillJSON
	nFills
)

func hexStr(s string) string { return hexE([]byte(s)) }

// wfWords builds well-formed words for n bits, each set with probability pct%.
func genWords(r *kit.Rand, n, pct int) string {
	if n == 0 {
		return "e"
	}
	ws := make([]uint64, (n+63)/64)
	for i := 0; i < n; i++ {
		if r.Chance(pct) {
			ws[i/64] |= 1 << uint(i%64)
		}
	}
	return wordsStr(ws)
}

func wordsStr(ws []uint64) string {
	if len(ws) == 0 {
		return "e"
	}
	s := make([]string, len(ws))
	for i, w := range ws {
		s[i] = fmt.Sprintf("%016x", w)
	}
	return strings.Join(s, ",")
}

func bitString(r *kit.Rand, n, pct int) string {
	var sb strings.Builder
	sb.WriteByte('"')
	for i := 0; i < n; i++ {
		if r.Chance(pct) {
			sb.WriteByte('x')
		} else {
			sb.WriteByte('_')
		}
	}
	sb.WriteByte('"')
	return sb.String()
}

// mk emits ops that leave a well-formed array of n bits (n<0: nil) in reg.
func mk(w *kit.Out, r *kit.Rand, reg string, n, fill int) {
	if n < 0 {
		w.Op("nil %s", reg)
		return
	}
	if n == 0 {
		switch r.Intn(4) {
		case 0:
			w.Op("new %s 0", reg) // nil
		case 1:
			w.Op("unjson %s %s", reg, hexStr(`""`)) // empty, non-nil
		case 2:
			w.Op("unjson %s %s", reg, hexStr(`null`))
		default:
			w.Op("raw %s 0 e", reg)
		}
		return
	}
	switch fill {
	case fillZero:
		w.Op("new %s %d", reg, n)
	case fillFull:
		if r.Bool() {
			w.Op("new %s %d", reg, n)
			w.Op("not %s %s", reg, reg)
		} else {
			w.Op("raw %s %d %s", reg, n, genWords(r, n, 100))
		}
	case fillSparse:
		w.Op("new %s %d", reg, n)
		for k := r.Range(1, 4); k > 0; k-- {
			w.Op("set %s %d 1", reg, pickIndex(r, n))
		}
	case fillRandom:
		w.Op("raw %s %d %s", reg, n, genWords(r, n, kit.Pick(r, []int{5, 30, 50, 70, 95})))
	default:
		w.Op("unjson %s %s", reg, hexStr(bitString(r, n, kit.Pick(r, []int{0, 10, 50, 90, 100}))))
	}
}

// pickIndex favours word and size boundaries.
func pickIndex(r *kit.Rand, n int) int {
	if n <= 0 {
		return r.Intn(3)
	}
	c := []int{0, n - 1, n / 2, 63, 64, 65, 127, 128}
	i := kit.Pick(r, c)
	if r.Chance(40) || i >= n {
		i = r.Intn(n)
	}
	return i
}

func anyIndex(r *kit.Rand, n int) int {
	if n < 0 {
		n = 0
	}
	if r.Chance(75) {
		return pickIndex(r, n)
	}
	return kit.Pick(r, []int{n, n + 1, n + 62, n + 63, n + 64, n + 65, 2*n + 128, 1 << 20})
}

func queries(w *kit.Out, reg string, n int) {
	for _, q := range []string{"size", "isempty", "isfull", "trueidx", "json", "str", "valid", "dump", "bytes"} {
		w.Op("%s %s", q, reg)
	}
	if n < 0 {
		n = 0
	}
	for _, i := range []int{0, n - 1, n, n + 1, 63, 64, 65} {
		if i >= 0 {
			w.Op("get %s %d", reg, i)
		}
	}
}

func boundary(w *kit.Out, r *kit.Rand) {
	for _, n := range sizes {
		for fill := 0; fill < nFills; fill++ {
			w.Case(fmt.Sprintf("unary/%d/%d", n, fill))
			mk(w, r, "r0", n, fill)
			queries(w, "r0", n)
			w.Op("not r1 r0")
			queries(w, "r1", n)
			w.Op("copy r2 r0")
			w.Op("set r2 %d 1", anyIndex(r, n))
			w.Op("set r2 %d 0", anyIndex(r, n))
			w.Op("dump r0") // the copy must not share storage
			w.Op("not r3 r1")
			w.Op("dump r3")
			// complement of a full array is empty; every bit of a complement can be cleared again
			w.Op("or r2 r0 r1")
			w.Op("isfull r2")
			w.Op("not r2 r2")
			w.Op("isempty r2")
			w.Op("and r3 r0 r1")
			w.Op("isempty r3")
			w.Op("sub r3 r0 r0")
			w.Op("isempty r3")
			if n > 0 && n <= 65 {
				w.Op("new r2 %d", n)
				w.Op("not r2 r2")
				for i := 0; i < n; i++ {
					w.Op("set r2 %d 0", i)
				}
				w.Op("isempty r2")
				w.Op("new r3 %d", n+70)
				w.Op("or r3 r2 r3")
				w.Op("isempty r3")
			}
		}
	}
	combos := [][2]int{{fillRandom, fillRandom}, {fillFull, fillFull}, {fillZero, fillFull}, {fillFull, fillZero}, {fillSparse, fillJSON}}
	for _, n1 := range sizes {
		for _, n2 := range sizes {
			for ci, c := range combos {
				w.Case(fmt.Sprintf("binary/%d/%d/%d", n1, n2, ci))
				mk(w, r, "r0", n1, c[0])
				mk(w, r, "r1", n2, c[1])
				w.Op("or r2 r0 r1")
				w.Op("and r3 r0 r1")
				w.Op("sub r2 r0 r1")
				w.Op("sub r3 r1 r0")
				w.Op("or r2 r1 r0")
				w.Op("and r3 r1 r0")
				w.Op("not r2 r2")
				w.Op("isempty r2")
				w.Op("copy r2 r0")
				w.Op("update r2 r1")
				w.Op("isempty r2")
				w.Op("isfull r2")
				w.Op("dump r0")
				w.Op("dump r1")
			}
		}
	}
	// compact: every size around byte boundaries
	for _, n := range []int{-1, 0, 1, 2, 7, 8, 9, 15, 16, 17, 63, 64, 65, 127, 128, 129, 200} {
		for _, pct := range []int{0, 100, 20} {
			w.Case(fmt.Sprintf("compact/%d/%d", n, pct))
			if n < 0 {
				w.Op("cnil c0")
			} else {
				w.Op("cnew c0 %d", n)
			}
			for i := 0; i < n; i++ {
				if r.Chance(pct) {
					w.Op("cset c0 %d 1", i)
				}
			}
			for _, q := range []string{"csize", "cjson", "cmarshal", "cstr", "cdump"} {
				w.Op("%s c0", q)
			}
			for _, i := range []int{-1, 0, n - 1, n, n + 1, 7, 8, 9} {
				w.Op("cget c0 %d", i)
				w.Op("cntb c0 %d", i)
			}
			w.Op("ccopy c1 c0")
			w.Op("cset c1 %d 1", n-1)
			w.Op("cset c1 0 0")
			w.Op("cset c1 %d 1", n)
			w.Op("cset c1 -1 1")
			w.Op("cdump c0")
			if n >= 0 {
				w.Op("cunjson c2 %s", hexStr(bitString(r, n, pct)))
				w.Op("cmarshal c2")
				w.Op("cjson c2")
			}
		}
	}
}

var bregs = []string{"r0", "r1", "r2", "r3"}
var ccregs = []string{"c0", "c1", "c2"}

func randSize(r *kit.Rand, wide bool) int {
	if r.Chance(70) {
		return kit.Pick(r, sizes)
	}
	if wide && r.Chance(30) {
		return r.Range(1, 700)
	}
	return r.Range(1, 260)
}

// compactEncoding: uvarint(size) ++ ceil(size/8) random bytes (a genuine encoding).
func compactEncoding(r *kit.Rand, n int) []byte {
	var buf [binary.MaxVarintLen64]byte
	k := binary.PutUvarint(buf[:], uint64(n))
	return append(append([]byte{}, buf[:k]...), r.Bytes((n+7)/8)...)
}

func randomCase(w *kit.Out, r *kit.Rand, id int, wide bool) {
	w.Case(fmt.Sprintf("rand/%d", id))
	// sizes known to the generator (best effort; only used to aim indices)
	sz := map[string]int{}
	nops := r.Range(1, 40)
	// mostly start from two populated registers
	if r.Chance(85) {
		for _, reg := range bregs[:2] {
			n := randSize(r, wide)
			mk(w, r, reg, n, r.Intn(nFills))
			sz[reg] = n
		}
	}
	for k := 0; k < nops; k++ {
		d, a, b := kit.Pick(r, bregs), kit.Pick(r, bregs), kit.Pick(r, bregs)
		switch x := r.Intn(100); {
		case x < 10:
			n := randSize(r, wide)
			mk(w, r, d, n, r.Intn(nFills))
			sz[d] = n
		case x < 22:
			w.Op("set %s %d %d", a, anyIndex(r, sz[a]), r.Intn(2))
		case x < 27:
			w.Op("get %s %d", a, anyIndex(r, sz[a]))
		case x < 35:
			w.Op("or %s %s %s", d, a, b)
			sz[d] = max(sz[a], sz[b])
		case x < 43:
			w.Op("and %s %s %s", d, a, b)
			sz[d] = min(sz[a], sz[b])
		case x < 51:
			w.Op("sub %s %s %s", d, a, b)
			sz[d] = sz[a]
		case x < 59:
			w.Op("not %s %s", d, a)
			sz[d] = sz[a]
		case x < 62:
			w.Op("copy %s %s", d, a)
			sz[d] = sz[a]
		case x < 66:
			w.Op("update %s %s", a, b)
		case x < 69:
			w.Op("isempty %s", a)
		case x < 72:
			w.Op("isfull %s", a)
		case x < 75:
			w.Op("trueidx %s", a)
		case x < 77:
			w.Op("bytes %s", a)
		case x < 79:
			w.Op("json %s", a)
		case x < 80:
			w.Op("%s %s", kit.Pick(r, []string{"str", "size", "valid", "dump"}), a)
		case x < 83:
			n := randSize(r, wide)
			if n < 0 {
				w.Op("unjson %s %s", d, hexStr("null"))
				n = 0
			} else {
				w.Op("unjson %s %s", d, hexStr(bitString(r, n, r.Intn(101))))
			}
			sz[d] = n
		default:
			compactOp(w, r, sz, wide)
		}
	}
}

func compactOp(w *kit.Out, r *kit.Rand, sz map[string]int, wide bool) {
	d, a := kit.Pick(r, ccregs), kit.Pick(r, ccregs)
	idx := func(n int) int {
		if r.Chance(15) {
			return kit.Pick(r, []int{-1, -8, -9, -64, -65, n, n + 1, n + 7, n + 8, n + 9})
		}
		return pickIndex(r, n)
	}
	switch x := r.Intn(100); {
	case x < 15:
		n := randSize(r, wide)
		w.Op("cnew %s %d", d, n)
		sz[d] = n
	case x < 40:
		w.Op("cset %s %d %d", a, idx(sz[a]), r.Intn(2))
	case x < 50:
		w.Op("cget %s %d", a, idx(sz[a]))
	case x < 57:
		w.Op("cntb %s %d", a, idx(sz[a]))
	case x < 62:
		w.Op("ccopy %s %s", d, a)
		sz[d] = sz[a]
	case x < 70:
		w.Op("cjson %s", a)
	case x < 78:
		w.Op("cmarshal %s", a)
	case x < 86:
		n := max(randSize(r, wide), 1)
		w.Op("cunmarshal %s %s", d, hexE(compactEncoding(r, n)))
		sz[d] = n
	case x < 93:
		n := max(randSize(r, wide), 0)
		if r.Chance(10) {
			w.Op("cunjson %s %s", d, hexStr("null"))
			n = 0
		} else {
			w.Op("cunjson %s %s", d, hexStr(bitString(r, n, r.Intn(101))))
		}
		sz[d] = n
	default:
		w.Op("%s %s", kit.Pick(r, []string{"csize", "cstr", "cdump"}), a)
	}
}

// malformed: hand-made structs, broken JSON, arbitrary bytes for the compact decoder.
func malformedCase(w *kit.Out, r *kit.Rand, id int) {
	w.Case(fmt.Sprintf("malformed/%d", id))
	switch r.Intn(4) {
	case 0: // BitArray with a wrong number of words or dirty padding, then every op
		for _, reg := range bregs[:2] {
			n := max(randSize(r, false), 0)
			nw := (n + 63) / 64
			switch r.Intn(4) {
			case 0:
				nw = max(0, nw-1-r.Intn(2))
			case 1:
				nw += 1 + r.Intn(2)
			}
			ws := make([]uint64, nw)
			for i := range ws {
				switch r.Intn(3) {
				case 0:
					ws[i] = r.U64()
				case 1:
					ws[i] = ^uint64(0)
				}
			}
			w.Op("raw %s %d %s", reg, n, wordsStr(ws))
		}
		for k := r.Range(3, 25); k > 0; k-- {
			d, a, b := kit.Pick(r, bregs), kit.Pick(r, bregs), kit.Pick(r, bregs)
			switch r.Intn(14) {
			case 0:
				w.Op("or %s %s %s", d, a, b)
			case 1:
				w.Op("and %s %s %s", d, a, b)
			case 2:
				w.Op("sub %s %s %s", d, a, b)
			case 3:
				w.Op("not %s %s", d, a)
			case 4:
				w.Op("update %s %s", a, b)
			case 5:
				w.Op("set %s %d %d", a, anyIndex(r, 130), r.Intn(2))
			case 6:
				w.Op("get %s %d", a, anyIndex(r, 130))
			case 7:
				w.Op("bytes %s", a)
			case 8:
				w.Op("trueidx %s", a)
			case 9:
				w.Op("json %s", a)
			case 10:
				w.Op("isfull %s", a)
			case 11:
				w.Op("isempty %s", a)
			case 12:
				w.Op("copy %s %s", d, a)
			default:
				w.Op("%s %s", kit.Pick(r, []string{"str", "size", "valid", "dump"}), a)
			}
		}
	case 1: // JSON strings, valid and broken
		for k := r.Range(2, 12); k > 0; k-- {
			s := bitString(r, r.Intn(70), 50)
			switch r.Intn(12) {
			case 0:
				s = s[1:]
			case 1:
				s = s[:len(s)-1]
			case 2:
				s = strings.Replace(s, "x", "X", 1)
			case 3:
				s = s + "\n"
			case 4:
				s = " " + s
			case 5:
				s = `"` + s
			case 6:
				s = "null "
			case 7:
				s = kit.Pick(r, []string{"", `"`, `""`, "nul", "NULL", "null", `"-x"`, `"x_"x"`, "\"x\x00\"", "\"\xff\"", `'x_'`, `"x\n"`, "0", "[]"})
			case 8:
				s = string(r.Bytes(r.Intn(8)))
			}
			if r.Bool() {
				w.Op("unjson r0 %s", hexStr(s))
				w.Op("dump r0")
			} else {
				w.Op("cunjson c0 %s", hexStr(s))
				w.Op("cdump c0")
			}
		}
	case 2: // arbitrary bytes for CompactUnmarshal
		for k := r.Range(2, 10); k > 0; k-- {
			var bz []byte
			switch r.Intn(9) {
			case 0:
				bz = r.Bytes(r.Intn(20))
			case 1: // genuine encoding with a byte too many / too few
				bz = compactEncoding(r, r.Range(1, 80))
				if r.Bool() {
					bz = append(bz, byte(r.U64()))
				} else {
					bz = bz[:len(bz)-1]
				}
			case 2: // overflowing varint
				bz = append(make([]byte, 0), []byte{0xff, 0xff, 0xff, 0xff, 0xff, 0xff, 0xff, 0xff, 0xff}...)
				bz = append(bz, kit.Pick(r, [][]byte{{0xff, 0x01}, {0x02}, {0x01}, {0x7f}, {0x80, 0x00}, {0x01, 0x00}, {}})...)
			case 3: // huge sizes near 2^64 and 2^63
				var buf [binary.MaxVarintLen64]byte
				v := kit.Pick(r, []uint64{^uint64(0), ^uint64(0) - 6, ^uint64(0) - 7, 1 << 63, 1<<63 - 1, 1<<63 - 8, 1 << 62, 1 << 32})
				n := binary.PutUvarint(buf[:], v-uint64(r.Intn(3)))
				bz = append(append([]byte{}, buf[:n]...), r.Bytes(r.Intn(3))...)
			case 4:
				bz = []byte(kit.Pick(r, []string{"null", "nul", "nulll", "n", "", "\x00", "\x00\x00", "\x01", "\x08\xff", "\x09\xff\x80"}))
			case 5: // unterminated varint
				bz = []byte{0x80, 0x80, 0x80}[:r.Range(2, 3)]
			case 6: // non-minimal varint of a small size
				n := r.Range(1, 16)
				bz = append([]byte{byte(n) | 0x80, 0x00}, r.Bytes((n+7)/8)...)
			default:
				bz = compactEncoding(r, r.Range(1, 200))
			}
			w.Op("cunmarshal c0 %s", hexE(bz))
			for _, q := range []string{"csize", "cjson", "cmarshal", "cstr"} {
				if r.Chance(50) {
					w.Op("%s c0", q)
				}
			}
			w.Op("cget c0 %d", r.Range(-2, 20))
			w.Op("cset c0 %d 1", r.Range(-2, 20))
			w.Op("cntb c0 %d", r.Range(-2, 40))
		}
	default: // hand-made compact structs
		for k := r.Range(2, 8); k > 0; k-- {
			e := kit.Pick(r, []int{0, 1, 7, 8, 9, 200, 255, r.Intn(256)})
			w.Op("craw c0 %d %s", e, hexE(r.Bytes(r.Intn(5))))
			for _, q := range []string{"csize", "cjson", "cmarshal", "cstr", "cdump"} {
				if r.Chance(60) {
					w.Op("%s c0", q)
				}
			}
			for j := 0; j < 4; j++ {
				i := r.Range(-3, 300)
				w.Op("cget c0 %d", i)
				w.Op("cset c0 %d %d", i, r.Intn(2))
				w.Op("cntb c0 %d", i)
			}
			w.Op("ccopy c1 c0")
		}
	}
}

func gen(w *kit.Out, r *kit.Rand, tier string) {
	nRand, nMal, wide := 1500, 300, false
	if tier == "thorough" {
		nRand, nMal, wide = 12000, 2500, true
	}
	boundary(w, r.Fork())
	rr := r.Fork()
	for i := 0; i < nRand; i++ {
		randomCase(w, rr, i, wide)
	}
	rm := r.Fork()
	for i := 0; i < nMal; i++ {
		malformedCase(w, rm, i)
	}
}
