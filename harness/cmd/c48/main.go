// Harness for C48: bit arrays behave like boolean vectors.
//
// Real code: tm2/pkg/bitarray (BitArray) and tm2/pkg/crypto/multisig/bitarray
// (CompactBitArray), run in-process over named registers (unknown register = nil).
//
// BitArray ops (output):
//
//	new r n | nil r | raw r bits w0,w1..|e        -> dump
//	set r i 0|1                                    -> <bool> <dump>
//	get r i | isempty a | isfull a | valid a       -> bool
//	size a                                         -> int
//	or d a b | and d a b | sub d a b               -> dump | panic:<class>
//	not d a | copy d a | update a b                -> dump
//	trueidx a                                      -> [i,j,..]
//	bytes a                                        -> hex | panic:nil
//	json a                                         -> the JSON text
//	unjson d hex                                   -> dump | err:json
//	str a                                          -> String()
//	dump a                                         -> nil | <bits>:<16-hex-digit words, comma separated>
//
// CompactBitArray ops: cnew cnil craw cset cget csize cntb ccopy cjson cunjson
// cmarshal cunmarshal cstr cdump   (dump = nil | <extra>:<hex of Elems>)
//
// Oracle: plain []bool vectors with the statement's size rules (Or -> max,
// shorter padded with false; And -> min; Sub -> left size; Not pointwise; nil
// rules as documented by the code).  After every op that produces or mutates an
// array the whole observable surface of the result (Size, GetIndex sweep,
// IsEmpty, IsFull, true indices, PickRandom membership, JSON, Bytes, String,
// Or with a longer all-false array) is compared with the vector.  Arrays made by
// `raw` that are not well-formed (wrong number of words, padding bits set) are
// outside the statement: they and everything derived from them get no verdict.
// An array that fails its check is reported once, at the op that produced it
// (`VIOL:<op>-…`), and gets no further verdicts.
package main

import (
	"bytes"
	"encoding/binary"
	"fmt"
	"strconv"
	"strings"
	_ "unsafe"

	ba "github.com/gnolang/gno/tm2/pkg/bitarray"
	cba "github.com/gnolang/gno/tm2/pkg/crypto/multisig/bitarray"
	"gnoverif/kit"
)

//go:linkname getTrueIndices github.com/gnolang/gno/tm2/pkg/bitarray.(*BitArray).getTrueIndices
func getTrueIndices(bA *ba.BitArray) []int

// ------------------------------------------------------------------ state

type ovec struct {
	isNil bool
	v     []bool
}

type oreg struct {
	vec   ovec
	taint bool // outside the statement's domain or already reported
}

var (
	regs  map[string]*ba.BitArray
	oregs map[string]*oreg
	cregs map[string]*cba.CompactBitArray
	coreg map[string]*oreg
)

func reset() {
	regs = map[string]*ba.BitArray{}
	oregs = map[string]*oreg{}
	cregs = map[string]*cba.CompactBitArray{}
	coreg = map[string]*oreg{}
}

func oget(m map[string]*oreg, r string) *oreg {
	if o, ok := m[r]; ok {
		return o
	}
	return &oreg{vec: ovec{isNil: true}}
}

// ------------------------------------------------------------------ canonical output

func dump(a *ba.BitArray) string {
	if a == nil {
		return "nil"
	}
	ws := make([]string, len(a.Elems))
	for i, w := range a.Elems {
		ws[i] = fmt.Sprintf("%016x", w)
	}
	return fmt.Sprintf("%d:%s", a.Bits, strings.Join(ws, ","))
}

func cdump(c *cba.CompactBitArray) string {
	if c == nil {
		return "nil"
	}
	return fmt.Sprintf("%d:%s", c.ExtraBitsStored, hexE(c.Elems))
}

func hexE(b []byte) string {
	if len(b) == 0 {
		return "e"
	}
	return kit.Hex(b)
}

func bstr(b bool) string {
	if b {
		return "true"
	}
	return "false"
}

func idxStr(l []int) string {
	s := make([]string, len(l))
	for i, x := range l {
		s[i] = strconv.Itoa(x)
	}
	return "[" + strings.Join(s, ",") + "]"
}

// call runs f and classifies a run-time panic.
func call(f func()) (p string) {
	defer func() {
		if v := recover(); v != nil {
			s := fmt.Sprint(v)
			switch {
			case strings.Contains(s, "nil pointer"):
				p = "panic:nil"
			case strings.Contains(s, "index out of range"):
				p = "panic:index"
			case strings.Contains(s, "slice bounds out of range"):
				p = "panic:slice"
			default:
				p = "panic:other"
			}
		}
	}()
	f()
	return ""
}

// fresh rebuilds a register from its exported fields: Or/Sub do not unlock their
// mutexes when they panic (only possible on malformed arrays), so the old
// objects must not be touched again.
func fresh(r string) {
	if a := regs[r]; a != nil {
		regs[r] = &ba.BitArray{Bits: a.Bits, Elems: a.Elems}
	}
}

func clone(a *ba.BitArray) *ba.BitArray {
	if a == nil {
		return nil
	}
	return &ba.BitArray{Bits: a.Bits, Elems: append([]uint64(nil), a.Elems...)}
}

// ------------------------------------------------------------------ oracle on []bool

func vcopy(a ovec) ovec {
	if a.isNil {
		return a
	}
	return ovec{v: append([]bool{}, a.v...)}
}

func at(v []bool, i int) bool { return i < len(v) && v[i] }

func oOr(a, b ovec) ovec {
	switch {
	case a.isNil && b.isNil:
		return ovec{isNil: true}
	case a.isNil:
		return vcopy(b)
	case b.isNil:
		return vcopy(a)
	}
	n := max(len(a.v), len(b.v))
	r := make([]bool, n)
	for i := range r {
		r[i] = at(a.v, i) || at(b.v, i)
	}
	return ovec{v: r}
}

func oAnd(a, b ovec) ovec {
	if a.isNil || b.isNil {
		return ovec{isNil: true}
	}
	n := min(len(a.v), len(b.v))
	r := make([]bool, n)
	for i := range r {
		r[i] = a.v[i] && b.v[i]
	}
	return ovec{v: r}
}

func oSub(a, b ovec) ovec {
	if a.isNil || b.isNil {
		return ovec{isNil: true}
	}
	r := make([]bool, len(a.v))
	for i := range r {
		r[i] = a.v[i] && !at(b.v, i)
	}
	return ovec{v: r}
}

func oNot(a ovec) ovec {
	if a.isNil {
		return a
	}
	r := make([]bool, len(a.v))
	for i := range r {
		r[i] = !a.v[i]
	}
	return ovec{v: r}
}

func allEq(v []bool, x bool) bool {
	for _, b := range v {
		if b != x {
			return false
		}
	}
	return true
}

func trueIdx(v []bool) []int {
	r := []int{}
	for i, b := range v {
		if b {
			r = append(r, i)
		}
	}
	return r
}

func xs(v []bool) string {
	var sb strings.Builder
	for _, b := range v {
		if b {
			sb.WriteByte('x')
		} else {
			sb.WriteByte('_')
		}
	}
	return sb.String()
}

func jsonOf(o ovec) string {
	if o.isNil {
		return "null"
	}
	return `"` + xs(o.v) + `"`
}

// packLSB: byte k bit j (value 1<<j) is v[8k+j] — the little-endian words of BitArray.
func packLSB(v []bool) []byte {
	r := make([]byte, (len(v)+7)/8)
	for i, b := range v {
		if b {
			r[i/8] |= 1 << uint(i%8)
		}
	}
	return r
}

// parseBitString is the statement's reading of the JSON form: null, or a
// quoted string of x and _ only.
func parseBitString(bz []byte) (ovec, bool) {
	if string(bz) == "null" {
		return ovec{v: []bool{}}, true
	}
	if len(bz) < 2 || bz[0] != '"' || bz[len(bz)-1] != '"' {
		return ovec{}, false
	}
	v := []bool{}
	for _, c := range bz[1 : len(bz)-1] {
		switch c {
		case 'x':
			v = append(v, true)
		case '_':
			v = append(v, false)
		default:
			return ovec{}, false
		}
	}
	return ovec{v: v}, true
}

func eqInts(a, b []int) bool {
	if len(a) != len(b) {
		return false
	}
	for i := range a {
		if a[i] != b[i] {
			return false
		}
	}
	return true
}

// sameVec: does the implementation array show exactly vector o (nil and the
// empty array are both the empty vector when looseNil is set)?
func sameVec(a *ba.BitArray, o ovec) bool {
	if a.Size() != len(o.v) {
		return false
	}
	for i := range o.v {
		if a.GetIndex(i) != o.v[i] {
			return false
		}
	}
	return true
}

// checkReg compares the whole observable surface of a with the vector o.
func checkReg(op string, a *ba.BitArray, o ovec) string {
	bad := func(what, detail string) string { return fmt.Sprintf("VIOL:%s-%s %s", op, what, detail) }
	if (a == nil) != o.isNil {
		return bad("nilness", fmt.Sprintf("got nil=%v want nil=%v", a == nil, o.isNil))
	}
	n := len(o.v)
	if a.Size() != n {
		return bad("size", fmt.Sprintf("got %d want %d", a.Size(), n))
	}
	for i := 0; i < n; i++ {
		if a.GetIndex(i) != o.v[i] {
			return bad("bit", fmt.Sprintf("bit %d got %v want %v", i, a.GetIndex(i), o.v[i]))
		}
	}
	for _, i := range []int{n, n + 1, n + 63, n + 64, n + 65, 2*n + 128} {
		if a.GetIndex(i) {
			return bad("bit", fmt.Sprintf("bit %d beyond size %d reads true", i, n))
		}
	}
	if a.IsEmpty() != allEq(o.v, false) {
		return bad("phantom-bits", fmt.Sprintf("IsEmpty=%v on %s", a.IsEmpty(), jsonOf(o)))
	}
	if a.IsFull() != allEq(o.v, true) {
		return bad("isfull", fmt.Sprintf("IsFull=%v on %s", a.IsFull(), jsonOf(o)))
	}
	want := trueIdx(o.v)
	if a != nil {
		if got := getTrueIndices(a); !eqInts(got, want) {
			return bad("trueidx", fmt.Sprintf("got %v want %v", got, want))
		}
	}
	if k, ok := a.PickRandom(); ok != (len(want) > 0) || (ok && !at(o.v, k)) {
		return bad("pickrandom", fmt.Sprintf("got %d,%v on %s", k, ok, jsonOf(o)))
	}
	if j, err := a.MarshalJSON(); err != nil || string(j) != jsonOf(o) {
		return bad("json", fmt.Sprintf("got %s want %s", j, jsonOf(o)))
	}
	if a != nil {
		if got := a.Bytes(); !bytes.Equal(got, packLSB(o.v)) {
			return bad("phantom-bits", fmt.Sprintf("Bytes=%x want %x", got, packLSB(o.v)))
		}
		if got, w := a.String(), fmt.Sprintf("BA{%d:%s}", n, xs(o.v)); got != w {
			return bad("string", fmt.Sprintf("got %s want %s", got, w))
		}
		// Or with a longer all-false array must only pad with false.
		ext := a.Or(ba.NewBitArray(n + 70))
		for i := 0; i < n+70; i++ {
			if ext.GetIndex(i) != at(o.v, i) {
				return bad("phantom-bits", fmt.Sprintf("Or with %d false bits shows bit %d = %v", n+70, i, ext.GetIndex(i)))
			}
		}
	} else if a.String() != "nil-BitArray" {
		return bad("string", a.String())
	}
	return "ok"
}

// wfWords: is (bits, words) a well-formed bit array, and which vector is it?
func wfWords(bits int, ws []uint64) (ovec, bool) {
	if len(ws) != (bits+63)/64 {
		return ovec{}, false
	}
	v := make([]bool, bits)
	for w, e := range ws {
		for j := 0; j < 64; j++ {
			set := e>>uint(j)&1 == 1
			if p := w*64 + j; p < bits {
				v[p] = set
			} else if set {
				return ovec{}, false
			}
		}
	}
	return ovec{v: v}, true
}

// settle stores a produced array, runs the full check (unless outside the
// domain) and returns the oracle verdict.
func settle(op, d string, a *ba.BitArray, exp ovec, taint bool) string {
	regs[d] = a
	if taint {
		oregs[d] = &oreg{taint: true}
		return "-"
	}
	var v string
	if p := call(func() { v = checkReg(op, a, exp) }); p != "" {
		regs[d] = clone(a) // a mutex may have been left locked
		v = fmt.Sprintf("VIOL:%s-panic %s while reading back %s", op, p, jsonOf(exp))
	}
	oregs[d] = &oreg{vec: exp, taint: v != "ok"}
	return v
}

// ------------------------------------------------------------------ compact oracle

// cvalid: a compact array whose fields are consistent (what NewCompactBitArray
// and a decoder of a genuine encoding produce).
func cvalid(c *cba.CompactBitArray) bool {
	if c == nil {
		return true
	}
	return c.ExtraBitsStored < 8 && (c.ExtraBitsStored == 0 || len(c.Elems) >= 1)
}

// cvecOf reads the vector of a consistent compact array from its fields
// (most significant bit of each byte first).
func cvecOf(c *cba.CompactBitArray) ovec {
	if c == nil {
		return ovec{isNil: true}
	}
	n := len(c.Elems) * 8
	if c.ExtraBitsStored != 0 {
		n = (len(c.Elems)-1)*8 + int(c.ExtraBitsStored)
	}
	v := make([]bool, n)
	for i := range v {
		v[i] = c.Elems[i/8]>>(7-uint(i%8))&1 == 1
	}
	return ovec{v: v}
}

func csame(c *cba.CompactBitArray, o ovec) bool {
	if c.Size() != len(o.v) {
		return false
	}
	for i := range o.v {
		if c.GetIndex(i) != o.v[i] {
			return false
		}
	}
	return true
}

func ccheck(op string, c *cba.CompactBitArray, o ovec) string {
	bad := func(what, detail string) string { return fmt.Sprintf("VIOL:%s-%s %s", op, what, detail) }
	if (c == nil) != o.isNil {
		return bad("nilness", fmt.Sprintf("got nil=%v want nil=%v", c == nil, o.isNil))
	}
	n := len(o.v)
	if c.Size() != n {
		return bad("size", fmt.Sprintf("got %d want %d", c.Size(), n))
	}
	cnt := 0
	for i := 0; i < n; i++ {
		if c.NumTrueBitsBefore(i) != cnt {
			return bad("ntb", fmt.Sprintf("NumTrueBitsBefore(%d)=%d want %d", i, c.NumTrueBitsBefore(i), cnt))
		}
		if c.GetIndex(i) != o.v[i] {
			return bad("bit", fmt.Sprintf("bit %d got %v", i, c.GetIndex(i)))
		}
		if o.v[i] {
			cnt++
		}
	}
	for _, i := range []int{n, n + 1, n + 7, n + 8, n + 9, 2*n + 64} {
		if c.GetIndex(i) {
			return bad("bit", fmt.Sprintf("bit %d outside size %d reads true", i, n))
		}
	}
	if c.NumTrueBitsBefore(n+9) != cnt {
		return bad("ntb", "count past the end")
	}
	if j, err := c.MarshalJSON(); err != nil || string(j) != jsonOf(o) {
		return bad("json", fmt.Sprintf("got %s want %s", j, jsonOf(o)))
	}
	// binary round trip
	var back *cba.CompactBitArray
	var err error
	enc := c.CompactMarshal()
	if p := call(func() { back, err = cba.CompactUnmarshal(enc) }); p != "" || err != nil || !csame(back, o) {
		return bad("binary-roundtrip", fmt.Sprintf("CompactUnmarshal(%x): %s %v %s", enc, p, err, cdump(back)))
	}
	return "ok"
}

func csettle(op, d string, c *cba.CompactBitArray, exp ovec, taint bool) string {
	cregs[d] = c
	if taint {
		coreg[d] = &oreg{taint: true}
		return "-"
	}
	var v string
	if p := call(func() { v = ccheck(op, c, exp) }); p != "" {
		v = fmt.Sprintf("VIOL:%s-panic %s while reading back %s", op, p, jsonOf(exp))
	}
	coreg[d] = &oreg{vec: exp, taint: v != "ok"}
	return v
}

// ------------------------------------------------------------------ exec

func parseWords(s string) []uint64 {
	if s == "e" {
		return []uint64{}
	}
	var ws []uint64
	for _, p := range strings.Split(s, ",") {
		if len(p) != 16 {
			panic("bad word " + p)
		}
		w, err := strconv.ParseUint(p, 16, 64)
		if err != nil {
			panic("bad word " + p)
		}
		ws = append(ws, w)
	}
	return ws
}

func exec(t []string) (string, string) {
	if len(t) == 0 {
		return "err:badop", "-"
	}
	if strings.HasPrefix(t[0], "c") && t[0] != "copy" {
		return cexec(t)
	}
	switch t[0] {
	case "new":
		n := kit.Atoi(t[2])
		a := ba.NewBitArray(n)
		exp := ovec{isNil: true}
		if n > 0 {
			exp = ovec{v: make([]bool, n)}
		}
		v := settle("new", t[1], a, exp, false)
		return dump(a), v
	case "nil":
		return "nil", settle("nil", t[1], nil, ovec{isNil: true}, false)
	case "raw":
		bits := kit.Atoi(t[2])
		if bits < 0 {
			return "err:badop", "-"
		}
		a := &ba.BitArray{Bits: bits, Elems: parseWords(t[3])}
		exp, ok := wfWords(bits, a.Elems)
		v := settle("raw", t[1], a, exp, !ok)
		return dump(a), v
	case "set":
		i, val := kit.Atoi(t[2]), t[3] == "1"
		if i < 0 {
			return "err:badop", "-"
		}
		a, o := regs[t[1]], oget(oregs, t[1])
		ok := a.SetIndex(i, val)
		out := bstr(ok) + " " + dump(a)
		if o.taint {
			return out, "-"
		}
		exp := vcopy(o.vec)
		wantOK := !exp.isNil && i < len(exp.v)
		if wantOK {
			exp.v[i] = val
		}
		if ok != wantOK {
			oregs[t[1]] = &oreg{taint: true}
			return out, fmt.Sprintf("VIOL:set-result SetIndex(%d) returned %v on size %d", i, ok, len(exp.v))
		}
		return out, settle("set", t[1], a, exp, false)
	case "get":
		i := kit.Atoi(t[2])
		if i < 0 {
			return "err:badop", "-"
		}
		a, o := regs[t[1]], oget(oregs, t[1])
		got := a.GetIndex(i)
		if o.taint {
			return bstr(got), "-"
		}
		if got != at(o.vec.v, i) {
			return bstr(got), fmt.Sprintf("VIOL:get-bit GetIndex(%d)=%v on %s", i, got, jsonOf(o.vec))
		}
		return bstr(got), "ok"
	case "size":
		a, o := regs[t[1]], oget(oregs, t[1])
		if !o.taint && a.Size() != len(o.vec.v) {
			return strconv.Itoa(a.Size()), "VIOL:size-value"
		}
		return strconv.Itoa(a.Size()), verdict(o)
	case "or", "and", "sub":
		a, b := regs[t[2]], regs[t[3]]
		oa, ob := oget(oregs, t[2]), oget(oregs, t[3])
		if t[2] == t[3] {
			b = clone(b) // x.Or(x) locks the same mutex twice and never returns
		}
		var r *ba.BitArray
		var exp ovec
		p := call(func() {
			switch t[0] {
			case "or":
				r = a.Or(b)
			case "and":
				r = a.And(b)
			case "sub":
				r = a.Sub(b)
			}
		})
		if p != "" {
			fresh(t[2])
			fresh(t[3])
			if !oa.taint && !ob.taint {
				return p, fmt.Sprintf("VIOL:%s-panic on %s %s", t[0], jsonOf(oa.vec), jsonOf(ob.vec))
			}
			return p, "-"
		}
		switch t[0] {
		case "or":
			exp = oOr(oa.vec, ob.vec)
		case "and":
			exp = oAnd(oa.vec, ob.vec)
		case "sub":
			exp = oSub(oa.vec, ob.vec)
		}
		v := settle(t[0], t[1], r, exp, oa.taint || ob.taint)
		return dump(r), v
	case "not", "copy":
		a, oa := regs[t[2]], oget(oregs, t[2])
		var r *ba.BitArray
		var exp ovec
		if t[0] == "not" {
			r, exp = a.Not(), oNot(oa.vec)
		} else {
			r, exp = a.Copy(), vcopy(oa.vec)
		}
		if r != nil && r == a {
			return dump(r), fmt.Sprintf("VIOL:%s-alias result shares the operand", t[0])
		}
		v := settle(t[0], t[1], r, exp, oa.taint)
		return dump(r), v
	case "update":
		a, b := regs[t[1]], regs[t[2]]
		oa, ob := oget(oregs, t[1]), oget(oregs, t[2])
		if t[1] == t[2] {
			b = clone(b)
		}
		a.Update(b)
		out := dump(a)
		if oa.taint || ob.taint {
			oregs[t[1]] = &oreg{taint: true}
			return out, "-"
		}
		exp := vcopy(oa.vec)
		if !oa.vec.isNil && !ob.vec.isNil {
			// "sets the bA's bits to be that of the other bit array, the copying
			// begins from the begin of both": the common prefix is o's; the
			// statement gives no rule for a's bits beyond o's size, so those are
			// read back from the implementation.
			m := min(len(exp.v), len(ob.vec.v))
			for i := 0; i < len(exp.v); i++ {
				if i < m {
					exp.v[i] = ob.vec.v[i]
				} else {
					exp.v[i] = a.GetIndex(i)
				}
			}
		}
		return out, settle("update", t[1], a, exp, false)
	case "isempty":
		a, o := regs[t[1]], oget(oregs, t[1])
		got := a.IsEmpty()
		if !o.taint && got != allEq(o.vec.v, false) {
			return bstr(got), fmt.Sprintf("VIOL:isempty-value got %v on %s", got, jsonOf(o.vec))
		}
		return bstr(got), verdict(o)
	case "isfull":
		a, o := regs[t[1]], oget(oregs, t[1])
		got := a.IsFull()
		if !o.taint && got != allEq(o.vec.v, true) {
			return bstr(got), fmt.Sprintf("VIOL:isfull-value got %v on %s", got, jsonOf(o.vec))
		}
		return bstr(got), verdict(o)
	case "valid":
		a, o := regs[t[1]], oget(oregs, t[1])
		got := a.ValidateBasic() == nil
		if !o.taint && !got {
			return bstr(got), "VIOL:valid-value"
		}
		return bstr(got), verdict(o)
	case "trueidx":
		a, o := regs[t[1]], oget(oregs, t[1])
		got := []int{}
		if a != nil { // PickRandom's own nil guard
			got = getTrueIndices(a)
		}
		if !o.taint && !eqInts(got, trueIdx(o.vec.v)) {
			return idxStr(got), fmt.Sprintf("VIOL:trueidx-value got %v on %s", got, jsonOf(o.vec))
		}
		return idxStr(got), verdict(o)
	case "bytes":
		a, o := regs[t[1]], oget(oregs, t[1])
		var got []byte
		if p := call(func() { got = a.Bytes() }); p != "" {
			fresh(t[1])
			if !o.taint {
				// the statement includes nil arrays; every other method accepts them
				return p, fmt.Sprintf("VIOL:bytes-nil-panic Bytes() panics on %s", jsonOf(o.vec))
			}
			return p, "-"
		}
		if !o.taint && !bytes.Equal(got, packLSB(o.vec.v)) {
			return hexE(got), fmt.Sprintf("VIOL:bytes-value got %x on %s", got, jsonOf(o.vec))
		}
		return hexE(got), verdict(o)
	case "json":
		a, o := regs[t[1]], oget(oregs, t[1])
		got, err := a.MarshalJSON()
		if err != nil {
			return "err:json", "VIOL:json-error"
		}
		if o.taint {
			return string(got), "-"
		}
		if string(got) != jsonOf(o.vec) {
			return string(got), fmt.Sprintf("VIOL:json-value got %s want %s", got, jsonOf(o.vec))
		}
		back := &ba.BitArray{}
		if err := back.UnmarshalJSON(got); err != nil || !sameVec(back, o.vec) {
			return string(got), fmt.Sprintf("VIOL:json-roundtrip %s decodes to %s (%v)", got, dump(back), err)
		}
		return string(got), "ok"
	case "unjson":
		bz := kit.MustUnHex(t[2])
		a := &ba.BitArray{}
		err := a.UnmarshalJSON(bz)
		exp, valid := parseBitString(bz)
		if err != nil {
			if valid {
				return "err:json", fmt.Sprintf("VIOL:unjson-reject %q", bz)
			}
			return "err:json", "ok"
		}
		if !valid {
			regs[t[1]] = a
			oregs[t[1]] = &oreg{taint: true}
			return dump(a), fmt.Sprintf("VIOL:unjson-accept %q", bz)
		}
		v := settle("unjson", t[1], a, exp, false)
		return dump(a), v
	case "str":
		a, o := regs[t[1]], oget(oregs, t[1])
		got := a.String()
		want := "nil-BitArray"
		if !o.vec.isNil {
			want = fmt.Sprintf("BA{%d:%s}", len(o.vec.v), xs(o.vec.v))
		}
		if !o.taint && got != want {
			return got, "VIOL:str-value want " + want
		}
		return got, verdict(o)
	case "dump":
		return dump(regs[t[1]]), "-"
	}
	return "err:badop", "-"
}

func verdict(o *oreg) string {
	if o.taint {
		return "-"
	}
	return "ok"
}

func cexec(t []string) (string, string) {
	switch t[0] {
	case "cnew":
		n := kit.Atoi(t[2])
		c := cba.NewCompactBitArray(n)
		exp := ovec{isNil: true}
		if n > 0 {
			exp = ovec{v: make([]bool, n)}
		}
		return cdump(c), csettle("cnew", t[1], c, exp, false)
	case "cnil":
		return "nil", csettle("cnil", t[1], nil, ovec{isNil: true}, false)
	case "craw":
		e := kit.Atoi(t[2])
		if e < 0 || e > 255 {
			return "err:badop", "-"
		}
		c := &cba.CompactBitArray{ExtraBitsStored: byte(e), Elems: kit.MustUnHex(t[3])}
		if !cvalid(c) {
			return cdump(c), csettle("craw", t[1], c, ovec{}, true)
		}
		return cdump(c), csettle("craw", t[1], c, cvecOf(c), false)
	case "cset":
		i, val := kit.Atoi(t[2]), t[3] == "1"
		c, o := cregs[t[1]], oget(coreg, t[1])
		if i < 0 {
			// negative indices are outside the statement (vectors have none): the
			// result is still compared with the model, but gets no verdict
			var ok bool
			if p := call(func() { ok = c.SetIndex(i, val) }); p != "" {
				return p, "-"
			}
			if ok {
				coreg[t[1]] = &oreg{taint: true}
			}
			return bstr(ok) + " " + cdump(c), "-"
		}
		var ok bool
		if p := call(func() { ok = c.SetIndex(i, val) }); p != "" {
			if !o.taint {
				return p, "VIOL:cset-panic"
			}
			return p, "-"
		}
		out := bstr(ok) + " " + cdump(c)
		if o.taint {
			return out, "-"
		}
		exp := vcopy(o.vec)
		wantOK := !exp.isNil && i >= 0 && i < len(exp.v)
		if wantOK {
			exp.v[i] = val
		}
		if ok != wantOK {
			coreg[t[1]] = &oreg{taint: true}
			return out, fmt.Sprintf("VIOL:cset-result SetIndex(%d) returned %v on size %d", i, ok, len(exp.v))
		}
		return out, csettle("cset", t[1], c, exp, false)
	case "cget":
		i := kit.Atoi(t[2])
		c, o := cregs[t[1]], oget(coreg, t[1])
		if i < 0 {
			o = &oreg{taint: true} // outside the statement: no verdict
		}
		var got bool
		if p := call(func() { got = c.GetIndex(i) }); p != "" {
			if !o.taint {
				return p, "VIOL:cget-panic"
			}
			return p, "-"
		}
		if !o.taint && got != (i >= 0 && at(o.vec.v, i)) {
			return bstr(got), fmt.Sprintf("VIOL:cget-bit GetIndex(%d)=%v on %s", i, got, jsonOf(o.vec))
		}
		return bstr(got), verdict(o)
	case "csize":
		c, o := cregs[t[1]], oget(coreg, t[1])
		if !o.taint && c.Size() != len(o.vec.v) {
			return strconv.Itoa(c.Size()), "VIOL:csize-value"
		}
		return strconv.Itoa(c.Size()), verdict(o)
	case "cntb":
		i := kit.Atoi(t[2])
		c, o := cregs[t[1]], oget(coreg, t[1])
		if i < 0 {
			o = &oreg{taint: true} // outside the statement: no verdict
		}
		var got int
		if p := call(func() { got = c.NumTrueBitsBefore(i) }); p != "" {
			if !o.taint {
				return p, "VIOL:cntb-panic"
			}
			return p, "-"
		}
		want := 0
		for k := 0; k < i && k < len(o.vec.v); k++ {
			if o.vec.v[k] {
				want++
			}
		}
		if !o.taint && got != want {
			return strconv.Itoa(got), fmt.Sprintf("VIOL:cntb-value got %d want %d", got, want)
		}
		return strconv.Itoa(got), verdict(o)
	case "ccopy":
		c, o := cregs[t[2]], oget(coreg, t[2])
		r := c.Copy()
		return cdump(r), csettle("ccopy", t[1], r, vcopy(o.vec), o.taint)
	case "cjson":
		c, o := cregs[t[1]], oget(coreg, t[1])
		got, err := c.MarshalJSON()
		if err != nil {
			return "err:json", "VIOL:cjson-error"
		}
		if o.taint {
			return string(got), "-"
		}
		if string(got) != jsonOf(o.vec) {
			return string(got), fmt.Sprintf("VIOL:cjson-value got %s want %s", got, jsonOf(o.vec))
		}
		back := &cba.CompactBitArray{}
		var err2 error
		if p := call(func() { err2 = back.UnmarshalJSON(got) }); p != "" {
			return string(got), fmt.Sprintf("VIOL:cjson-empty-panic UnmarshalJSON(%s) of its own MarshalJSON output: %s", got, p)
		}
		if err2 != nil || !csame(back, o.vec) {
			return string(got), fmt.Sprintf("VIOL:cjson-roundtrip %s decodes to %s (%v)", got, cdump(back), err2)
		}
		return string(got), "ok"
	case "cunjson":
		bz := kit.MustUnHex(t[2])
		c := &cba.CompactBitArray{}
		var err error
		exp, valid := parseBitString(bz)
		if p := call(func() { err = c.UnmarshalJSON(bz) }); p != "" {
			if valid {
				return p, fmt.Sprintf("VIOL:cjson-empty-panic UnmarshalJSON(%s): %s", bz, p)
			}
			return p, "-"
		}
		if err != nil {
			if valid {
				return "err:json", fmt.Sprintf("VIOL:cunjson-reject %q", bz)
			}
			return "err:json", "ok"
		}
		if !valid {
			cregs[t[1]] = c
			coreg[t[1]] = &oreg{taint: true}
			return cdump(c), fmt.Sprintf("VIOL:cunjson-accept %q", bz)
		}
		return cdump(c), csettle("cunjson", t[1], c, exp, false)
	case "cmarshal":
		c, o := cregs[t[1]], oget(coreg, t[1])
		var got []byte
		if p := call(func() { got = c.CompactMarshal() }); p != "" {
			if !o.taint {
				return p, "VIOL:cmarshal-panic"
			}
			return p, "-"
		}
		if o.taint {
			return hexE(got), "-"
		}
		var back *cba.CompactBitArray
		var err error
		if p := call(func() { back, err = cba.CompactUnmarshal(got) }); p != "" || err != nil || !csame(back, o.vec) {
			return hexE(got), fmt.Sprintf("VIOL:cmarshal-roundtrip %x decodes to %s (%v %s)", got, cdump(back), err, p)
		}
		return hexE(got), "ok"
	case "cunmarshal":
		bz := kit.MustUnHex(t[2])
		var c *cba.CompactBitArray
		var err error
		// Which vector is bz the encoding of, if any?  uvarint(size) ++ ceil(size/8) bytes.
		var exp ovec
		genuine := false
		if string(bz) == "null" {
			exp, genuine = ovec{isNil: true}, true
		} else if size, n := binary.Uvarint(bz); n > 0 && size > 0 && size < 1<<31 && len(bz)-n == int(size+7)/8 {
			v := make([]bool, size)
			for i := range v {
				v[i] = bz[n+i/8]>>(7-uint(i%8))&1 == 1
			}
			exp, genuine = ovec{v: v}, true
		}
		if p := call(func() { c, err = cba.CompactUnmarshal(bz) }); p != "" {
			if genuine {
				return p, "VIOL:cunmarshal-panic"
			}
			return p, "-"
		}
		if err != nil {
			if genuine {
				return "err:size", fmt.Sprintf("VIOL:cunmarshal-reject %x", bz)
			}
			return "err:size", "ok"
		}
		if !genuine {
			return cdump(c), csettle("cunmarshal", t[1], c, ovec{}, true)
		}
		return cdump(c), csettle("cunmarshal", t[1], c, exp, false)
	case "cstr":
		c, o := cregs[t[1]], oget(coreg, t[1])
		got := c.String()
		want := "nil-BitArray"
		if !o.vec.isNil {
			want = fmt.Sprintf("BA{%d:%s}", len(o.vec.v), xs(o.vec.v))
		}
		if !o.taint && got != want {
			return got, "VIOL:cstr-value want " + want
		}
		return got, verdict(o)
	case "cdump":
		return cdump(cregs[t[1]]), "-"
	}
	return "err:badop", "-"
}

// clip keeps every output line below the kit's 300-character cut: long outputs
// are replaced by a prefix, their length and their FNV-1a hash (same in the driver).
func clip(s string) string {
	if len(s) <= 240 {
		return s
	}
	h := uint64(14695981039346656037)
	for i := 0; i < len(s); i++ {
		h = (h ^ uint64(s[i])) * 1099511628211
	}
	return fmt.Sprintf("%s..#%d:%016x", s[:48], len(s), h)
}

func main() {
	kit.Main(&kit.Harness{Gen: gen, Reset: reset, Exec: func(t []string) (string, string) {
		impl, orc := exec(t)
		return clip(impl), orc
	}})
}
