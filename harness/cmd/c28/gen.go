package main

import "gnoverif/kit"

func gen(o *kit.Out, r *kit.Rand, tier string) {
}
