package main

import (
	"fmt"
	"strings"

	"gnoverif/kit"
)

// ---------------------------------------------------------------- generator
//
// 1. boundary table: every yield point of a commit x every query kind x pruning
//    x store wiring; long-lived queries across commits; the first commit;
//    simulate writes; protocol-order errors
// 2. structured random schedules (a small generator-side state machine keeps
//    most ops legal)
// 3. a malformed stream
// 4. hammer lines (free-running goroutines; oracle only)

func tagTx(h, ns int) string {
	var p []string
	for k := 0; k < 2; k++ {
		for s := 0; s < ns; s++ {
			p = append(p, fmt.Sprintf("w.%d.%d.%d", s, k, h))
		}
	}
	return strings.Join(p, ",")
}

func readAll(ns int, pause bool) string {
	var p []string
	for s := 0; s < ns; s++ {
		p = append(p, fmt.Sprintf("r.%d.0", s))
	}
	if pause {
		p = append(p, "p")
	}
	for s := ns - 1; s >= 0; s-- {
		p = append(p, fmt.Sprintf("r.%d.1", s))
	}
	return strings.Join(p, ",")
}

func block(o *kit.Out, h, ns int, extra ...string) {
	o.Op("begin")
	o.Op("tx %s", tagTx(h, ns))
	for _, e := range extra {
		o.Op("tx %s", e)
	}
	o.Op("end")
}

var points = []string{"pre", "W0", "W1", "S1", "X", "L", "post"}

func boundary(o *kit.Out) {
	kinds := []string{"c 0", "s 0", "c 1", "c 2", "c 3"}
	for _, K := range []string{"all", "0", "1", "5"} {
		for _, ns := range []int{2, 3} {
			for pi, pt := range points {
				for ki, kind := range kinds {
					o.Case(fmt.Sprintf("pt-%s-%d-%s-%d", K, ns, pt, ki))
					o.Op("init %s %d", K, ns)
					block(o, 1, ns)
					o.Op("commit")
					block(o, 2, ns, "w.0.2.20,w.1.2.21")
					o.Op("commit")
					block(o, 3, ns, "r.0.0,r.1.0,w.1.3.30", "w.0.3.9,f")
					id := 1
					q := func(op string) {
						o.Op("%s %d %s %s", op, id, kind, readAll(ns, true))
						id++
					}
					if pi == 0 {
						q("q")
					}
					o.Op("cstart")
					for i := 1; i <= 5; i++ {
						if i == pi {
							if pt == "X" {
								q("qblk")
							} else {
								q("q")
							}
						}
						if i < 5 {
							// S1 -> X -> L takes one more step than S1 -> L
							o.Op("cstep")
						}
					}
					o.Op("cstep") // done (or L -> done)
					o.Op("cstep") // err:order when already done
					if pi == 6 {
						q("q")
					}
					for j := 1; j < id; j++ {
						o.Op("qstep %d", j)
					}
					block(o, 4, ns, "r.0.0,r.1.0,r.1.3,r.0.3")
					o.Op("commit")
					o.Op("q 90 c 0 %s", readAll(ns, false))
				}
			}
		}
	}
	// long-lived queries across several commits; refcounts and closes; pruning under a held snapshot
	for _, K := range []string{"all", "0", "2"} {
		for _, ns := range []int{2, 3} {
			o.Case(fmt.Sprintf("long-%s-%d", K, ns))
			o.Op("init %s %d", K, ns)
			block(o, 1, ns)
			o.Op("commit")
			o.Op("q 1 c 0 %s", "r.0.0,p,r.1.0,p,r.0.1,r.1.1")
			o.Op("q 2 s 0 %s", "r.1.0,w.1.0.777,p,r.1.0,r.0.0")
			block(o, 2, ns)
			o.Op("cstart")
			o.Op("cstep")
			o.Op("cstep")
			o.Op("cstep") // L: snapshot 1 still held by q1,q2 -> no X
			o.Op("q 3 c 0 %s", readAll(ns, true))
			o.Op("q 4 s 0 %s", readAll(ns, true))
			o.Op("cstep")
			o.Op("qstep 1")
			block(o, 3, ns)
			o.Op("cstart")
			o.Op("cstep")
			o.Op("cstep")
			o.Op("cstep")
			o.Op("cstep")
			o.Op("cstep")
			o.Op("qstep 2") // releases snapshot 1? (q1 still holds it)
			o.Op("qstep 1") // last holder of snapshot 1: close=1
			o.Op("qstep 3")
			o.Op("qstep 4") // last holder of snapshot 2
			block(o, 4, ns)
			o.Op("cstart")
			o.Op("cstep")
			o.Op("cstep")
			o.Op("cstep") // X: nobody holds snapshot 3
			o.Op("qblk 5 c 0 %s", readAll(ns, true))
			o.Op("qblk 6 s 0 %s", readAll(ns, false))
			o.Op("qblk 7 c 2 %s", readAll(ns, false))
			o.Op("cstep")
			o.Op("cstep")
			o.Op("qstep 5")
			o.Op("q 8 c 1 %s", readAll(ns, false))
			o.Op("q 9 c 4 %s", readAll(ns, false))
			o.Op("q 10 c 5 %s", readAll(ns, false))
		}
	}
	// the first commit (version 0 queries)
	for _, ns := range []int{2, 3} {
		for pi, pt := range points {
			o.Case(fmt.Sprintf("first-%d-%s", ns, pt))
			o.Op("init all %d", ns)
			o.Op("q 1 c 0 %s", readAll(ns, false))
			o.Op("q 2 s 0 -")
			o.Op("q 3 c 0 r.1.0,w.0.0.5,r.0.0,p,r.0.1")
			block(o, 1, ns)
			if pi == 0 {
				o.Op("q 4 c 0 %s", readAll(ns, true))
			}
			o.Op("cstart")
			for i := 1; i <= 5; i++ {
				if i == pi {
					if pt == "X" {
						o.Op("qblk 4 c 0 %s", readAll(ns, true))
						o.Op("qblk 5 s 0 %s", readAll(ns, true))
					} else {
						o.Op("q 4 c 0 %s", readAll(ns, true))
						o.Op("q 5 s 0 %s", readAll(ns, true))
					}
				}
				o.Op("cstep")
			}
			o.Op("cstep")
			o.Op("qstep 3")
			o.Op("qstep 4")
			o.Op("qstep 5")
			o.Op("q 6 s 0 %s", readAll(ns, false))
		}
	}
	// simulate / query writes never reach consensus state
	o.Case("simwrites")
	o.Op("init all 3")
	block(o, 1, 3)
	o.Op("commit")
	o.Op("q 1 s 0 w.0.0.500,w.1.0.501,w.2.0.502,w.0.5.503,r.0.0,r.1.0,r.2.0,r.0.5,r.0.1,p,r.1.1")
	o.Op("q 2 c 0 w.0.0.600,w.1.6.601,r.0.0,r.1.6,r.1.0")
	o.Op("begin")
	o.Op("tx r.0.0,r.1.0,r.2.0,r.0.5,r.1.6")
	o.Op("tx w.0.5.77,r.0.5")
	o.Op("q 3 c 0 r.0.5,r.0.0")
	o.Op("q 4 s 0 r.0.5,w.0.5.78,r.0.5")
	o.Op("end")
	o.Op("commit")
	o.Op("qstep 1")
	o.Op("q 5 c 0 r.0.0,r.1.0,r.2.0,r.0.5,r.1.6")
	// protocol order
	o.Case("order")
	o.Op("begin")
	o.Op("init 3 2")
	o.Op("tx w.0.0.1")
	o.Op("end")
	o.Op("commit")
	o.Op("cstart")
	o.Op("cstep")
	o.Op("qstep 1")
	o.Op("qblk 1 c 0 -")
	o.Op("q 1 s 0 -")
	o.Op("q 1 c 0 r.2.0")
	o.Op("begin")
	o.Op("begin")
	o.Op("commit")
	o.Op("cstart")
	o.Op("tx r.2.1")
	o.Op("tx w.1.0.1,f,w.1.0.2")
	o.Op("end")
	o.Op("end")
	o.Op("begin")
	o.Op("cstart")
	o.Op("begin")
	o.Op("tx w.0.0.1")
	o.Op("end")
	o.Op("commit")
	o.Op("q 1 c 0 p,p")
	o.Op("q 1 c 0 -")
	o.Op("qstep 1")
	o.Op("qstep 1")
	o.Op("qstep 1")
	o.Op("cstep")
	o.Op("cstep")
	o.Op("cstep")
	o.Op("cstep")
	o.Op("cstep")
	o.Op("cstep")
	o.Op("init all 2")
	o.Op("q 1 c 7 r.0.0")
}

// ---------------------------------------------------------------- random schedules

type gq struct {
	pauses int
}

type gsim struct {
	ns      int
	phase   int // 0 idle 1 inblock 2 ended 3 committing
	at      int // 0 W0 1 W1 2 S1 3 X 4 L
	commits int
	paused  map[int]*gq
	pinCur  int // paused queries pinned to the current snapshot (approximation)
	blocked []int
	nextID  int
	txs     int
}

func randScript(r *kit.Rand, ns int, allowP bool) (string, int) {
	n := 1 + r.Intn(6)
	var p []string
	pauses := 0
	for i := 0; i < n; i++ {
		c := r.Intn(100)
		switch {
		case c < 65:
			p = append(p, fmt.Sprintf("r.%d.%d", r.Intn(ns), r.Intn(4)))
		case c < 78:
			p = append(p, fmt.Sprintf("w.%d.%d.%d", r.Intn(ns), r.Intn(4), 700+r.Intn(100)))
		case allowP:
			p = append(p, "p")
			pauses++
		default:
			p = append(p, fmt.Sprintf("r.%d.%d", r.Intn(ns), r.Intn(nKeys)))
		}
	}
	return strings.Join(p, ","), pauses
}

func randTx(r *kit.Rand, g *gsim) string {
	h := g.commits + 1
	if g.txs == 0 && r.Chance(80) {
		return tagTx(h, g.ns)
	}
	n := 1 + r.Intn(4)
	var p []string
	for i := 0; i < n; i++ {
		if r.Chance(30) {
			p = append(p, fmt.Sprintf("r.%d.%d", r.Intn(g.ns), r.Intn(4)))
		} else {
			p = append(p, fmt.Sprintf("w.%d.%d.%d", r.Intn(g.ns), r.Intn(4), h*10+r.Intn(10)))
		}
	}
	if r.Chance(12) {
		p = append(p, "f")
		if r.Chance(50) {
			p = append(p, fmt.Sprintf("w.%d.0.%d", r.Intn(g.ns), 9999))
		}
	}
	return strings.Join(p, ",")
}

func (g *gsim) startQuery(o *kit.Out, r *kit.Rand) {
	if g.nextID >= maxQ-1 {
		return
	}
	id := g.nextID
	g.nextID++
	kind := "c 0"
	switch {
	case g.commits >= 1 && r.Chance(35):
		kind = "s 0"
	case r.Chance(25):
		kind = fmt.Sprintf("c %d", 1+r.Intn(g.commits+2))
	}
	script, pauses := randScript(r, g.ns, true)
	if g.phase == 3 && g.at == 3 {
		if len(g.blocked) >= 3 {
			// keep the cstep answer (one progress entry per blocked query) under the kit's 300-byte cut
			g.nextID--
			g.cstep(o)
			return
		}
		o.Op("qblk %d %s %s", id, kind, script)
		g.blocked = append(g.blocked, id)
		if pauses > 0 {
			g.paused[id] = &gq{pauses}
		}
		return
	}
	o.Op("q %d %s %s", id, kind, script)
	if pauses > 0 {
		g.paused[id] = &gq{pauses}
		g.pinCur++
	}
}

func (g *gsim) stepQuery(o *kit.Out, r *kit.Rand) {
	if len(g.paused) == 0 {
		return
	}
	ids := make([]int, 0, len(g.paused))
	for id := 0; id < g.nextID; id++ {
		if _, ok := g.paused[id]; ok {
			ids = append(ids, id)
		}
	}
	id := ids[r.Intn(len(ids))]
	for _, b := range g.blocked {
		if b == id {
			return // not started yet
		}
	}
	o.Op("qstep %d", id)
	g.paused[id].pauses--
	if g.paused[id].pauses <= 0 {
		delete(g.paused, id)
		if g.pinCur > 0 {
			g.pinCur--
		}
	}
}

func (g *gsim) cstep(o *kit.Out) {
	o.Op("cstep")
	switch g.at {
	case 2: // S1 -> X or L
		if g.pinCur == 0 {
			g.at = 3
		} else {
			g.at = 4
		}
		g.pinCur = 0
	case 3:
		g.at = 4
		for _, b := range g.blocked {
			if _, ok := g.paused[b]; ok {
				g.pinCur++
			}
		}
		g.blocked = nil
	case 4:
		g.phase, g.commits, g.txs = 0, g.commits+1, 0
	default:
		g.at++
	}
}

func randomCase(o *kit.Out, r *kit.Rand, n int) {
	g := &gsim{ns: 2 + r.Intn(2), paused: map[int]*gq{}}
	K := kit.Pick(r, []string{"all", "all", "0", "1", "2", "10", "705"})
	o.Op("init %s %d", K, g.ns)
	for i := 0; i < n; i++ {
		c := r.Intn(100)
		switch g.phase {
		case 0:
			switch {
			case c < 45:
				o.Op("begin")
				g.phase = 1
			case c < 80:
				g.startQuery(o, r)
			default:
				g.stepQuery(o, r)
			}
		case 1:
			switch {
			case c < 45:
				o.Op("tx %s", randTx(r, g))
				g.txs++
			case c < 70:
				o.Op("end")
				g.phase = 2
			case c < 90:
				g.startQuery(o, r)
			default:
				g.stepQuery(o, r)
			}
		case 2:
			switch {
			case c < 20:
				o.Op("commit")
				g.phase, g.commits, g.txs, g.pinCur = 0, g.commits+1, 0, 0
			case c < 65:
				o.Op("cstart")
				g.phase, g.at = 3, 0
			case c < 88:
				g.startQuery(o, r)
			default:
				g.stepQuery(o, r)
			}
		case 3:
			switch {
			case c < 45:
				g.cstep(o)
			case c < 85:
				g.startQuery(o, r)
			default:
				g.stepQuery(o, r)
			}
		}
	}
	// wind down
	for g.phase == 3 {
		g.cstep(o)
	}
	for guard := 0; len(g.paused) > 0 && guard < 400; guard++ {
		g.stepQuery(o, r)
	}
	if g.phase == 0 {
		o.Op("q %d c 0 %s", maxQ-1, readAll(g.ns, false))
	}
}

func malformed(o *kit.Out, r *kit.Rand, n int) {
	pool := []string{"init", "all", "2", "3", "0", "begin", "tx", "end", "commit", "cstart", "cstep", "q", "qstep", "qblk", "c", "s",
		"1", "7", "01", "1000000", "-1", "r.0.0", "r.3.0", "r.0.8", "w.0.0", "w.1.1.5", "p", "f", "r.0.0,p", "r.0.0,,r.1.1", "-", "x",
		"hammer", "conn", "direct", "w.1.1.x", "r..0", "0", "99", "100"}
	for i := 0; i < n; i++ {
		k := 1 + r.Intn(7)
		var t []string
		for j := 0; j < k; j++ {
			t = append(t, kit.Pick(r, pool))
		}
		if t[0] == "hammer" {
			t[0] = "hamer"
		}
		o.Op("%s", strings.Join(t, " "))
	}
}

func gen(o *kit.Out, r *kit.Rand, tier string) {
	nRand, lenRand, nMal, nHam, hamBlocks := 170, 45, 150, 4, 150
	if tier == "thorough" {
		nRand, lenRand, nMal, nHam, hamBlocks = 1500, 70, 500, 20, 900
	}
	boundary(o)
	rr := r.Fork()
	for i := 0; i < nRand; i++ {
		o.Case(fmt.Sprintf("rand-%d", i))
		randomCase(o, rr.Fork(), 10+rr.Intn(lenRand))
	}
	o.Case("malformed")
	malformed(o, r.Fork(), nMal)
	o.Case("malformed-live")
	o.Op("init all 3")
	o.Op("begin")
	malformed(o, r.Fork(), nMal/2)
	hr := r.Fork()
	procs := []int{1, 2, 4, 8, 3, 16}
	for i := 0; i < nHam; i++ {
		o.Case(fmt.Sprintf("hammer-%d", i))
		mode := "conn"
		if i%3 == 2 {
			mode = "direct"
		}
		K := kit.Pick(hr, []string{"all", "705", "705", "3", "0"})
		o.Op("hammer %d %d %d %d %s %s", hr.Intn(100000), hamBlocks/2+hr.Intn(hamBlocks), 1+hr.Intn(6), procs[i%len(procs)], mode, K)
	}
}
