// Harness for C28: queries never interfere with consensus and see one
// committed version.
//
// A REAL sdk.BaseApp (tm2/pkg/sdk) over memdb, wired like gno.land
// (main = bptree.FastStoreConstructor, base = dbadapter.StoreConstructor, plus
// aux = iavl.StoreConstructor as a second versioned store), with a scripted
// message/query handler.  A second, identical app ("baseline") receives the
// same blocks and never a query: app hashes and DeliverTx results of the two
// must be equal.
//
// Part 1 (correspondence, deterministic): FORCED interleavings.  Only one
// goroutine runs at a time; the controller moves the commit goroutine from one
// yield point to the next and starts / resumes query goroutines in between.
// The yield points need no hook in /repo: they are calls the real code makes
// into objects the harness supplies (the db.DB handed to NewBaseApp, the
// *slog.Logger, the scripted handler):
//
//	W0  realBatch.WriteSync() entered      everything staged in the collector, DB still at N
//	W1  realBatch.WriteSync() returned     DB at N+1; query snapshot, lastCommitID, header at N
//	S1  ms.db.NewSnapshot() returned       snapshot N+1 exists, not yet swapped in
//	X   old snapshot's Close()             inside refreshQuerySnapshot's critical section (snapshotMu
//	                                       write-locked), after the Swap; only reached when the old
//	                                       snapshot's last reference is the store's own
//	L   logger "Commit synced"             after cms.Commit(): snapshot N+1, lastCommitID N+1, header N
//	(done)                                 after setCheckState: header N+1
//
// A query started while the commit goroutine is parked runs (height read,
// snapshot acquire, LoadVersion, handler) up to the first `p` of its script.
// `qblk` (only at X) starts a query that reads its height and then blocks on
// snapshotMu.RLock (detected by goroutine-dump polling); it continues when the
// commit goroutine leaves the critical section.
//
// Everything printed is OBSERVED: the version from the request/context the
// handler receives, the snapshot from which hookSnap object served the query's
// Gets (tagged with the number of WriteSyncs completed when it was created),
// the header height from ctx.BlockHeight(), the read values from the stores,
// snapshot Close calls, the yield point actually reached.
//
// Part 2 (search support, oracle only): `hammer` runs blocks in one goroutine
// and free-running query goroutines (through the real proxy local clients with
// their separate query mutex, or directly), with GOMAXPROCS variations.
//
// op lines (numbers: 1..6 decimal digits):
//
//	init <K|all> <2|3>           new app pair with 2 stores (base, main: the gno.land wiring) or 3 (plus aux); pruning KeepRecent=K,KeepEvery=0 ("all": PruneNothing)
//	begin | end | commit         BeginBlock(height = commits+1) / EndBlock / Commit (not forced)
//	tx <script>                  DeliverTx
//	cstart | cstep               start Commit in its goroutine and park at W0 / advance to the next yield point
//	q <id> <c|s> <height> <script>     start a custom query (height 0 = latest) or a simulate (height must be 0)
//	qstep <id>                   resume a paused query up to its next `p` / its end
//	qblk <id> <c|s> <height> <script>  (at X only) start a query that blocks on snapshotMu
//	hammer <seed> <blocks> <nq> <procs> <conn|direct> <K|all>
//
// script: `-` or comma-separated steps  r.<store>.<key>  w.<store>.<key>.<val>  p  f(tx only)
// stores: 0 = base (dbadapter, unversioned), 1 = main (bptree), 2 = aux (iavl); keys 0..7.
//
// oracle (plain maps; nothing from the Lean model): hist[h] = the key/value
// state after the h-th atomic write, from the scripts of the successful txs.
// Checked on every query progress line, first failing class wins:
//
//	consensus-perturbed    app hash or DeliverTx result differs from the baseline app
//	tx-result              DeliverTx returned a read value that is not the block-local state
//	stray-write            the raw DB was written outside Commit's single WriteSync
//	use-after-close        a snapshot served a Get after it was closed
//	uncommitted-read       a read value that no committed height <= the heights written so far has for that key
//	mixed-heights[-historic]  every read value belongs to a committed height, but no single height has them all
//	header-skew[-historic]    the reads are consistent, but ctx.BlockHeight() is not one of the heights they fit
//	own-write              a script did not read back its own write
//
// (-historic: the query named an explicit height.)
package main

import (
	"context"
	"fmt"
	"log/slog"
	"os"
	"regexp"
	"runtime"
	"sort"
	"strconv"
	"strings"
	"sync"
	"sync/atomic"
	"time"

	"github.com/gnolang/gno/tm2/pkg/amino"
	abci "github.com/gnolang/gno/tm2/pkg/bft/abci/types"
	"github.com/gnolang/gno/tm2/pkg/bft/proxy"
	bft "github.com/gnolang/gno/tm2/pkg/bft/types"
	"github.com/gnolang/gno/tm2/pkg/crypto"
	dbm "github.com/gnolang/gno/tm2/pkg/db"
	"github.com/gnolang/gno/tm2/pkg/db/memdb"
	"github.com/gnolang/gno/tm2/pkg/sdk"
	"github.com/gnolang/gno/tm2/pkg/std"
	"github.com/gnolang/gno/tm2/pkg/store"
	"github.com/gnolang/gno/tm2/pkg/store/bptree"
	"github.com/gnolang/gno/tm2/pkg/store/dbadapter"
	"github.com/gnolang/gno/tm2/pkg/store/iavl"
	"gnoverif/kit"
)

const (
	nStores = 3
	nKeys   = 8
	maxQ    = 100
)

// ---------------------------------------------------------------- message type

type Msg struct{ Script string }

func (m Msg) Route() string                { return "s" }
func (m Msg) Type() string                 { return "s" }
func (m Msg) GetSignBytes() []byte         { return nil }
func (m Msg) GetSigners() []crypto.Address { return nil }
func (m Msg) ValidateBasic() error         { return nil }

var Package = amino.RegisterPackage(amino.NewPackage(
	"main", "gnoverif.c28", amino.GetCallersDirname(),
).WithDependencies(std.Package).WithTypes(Msg{}, "Msg"))

var (
	baseKey = store.NewStoreKey("base")
	mainKey = store.NewStoreKey("main")
	auxKey  = store.NewStoreKey("aux")
	keys    = [nStores]store.StoreKey{baseKey, mainKey, auxKey}
)

// ---------------------------------------------------------------- scripts (strict; mirrored in Lean)

type sop struct {
	op      byte // r w p f
	s, k    int
	v       int64
	gosched bool
}

var reNum = regexp.MustCompile(`^(0|[1-9][0-9]{0,5})$`)

func num(s string) (int, bool) {
	if !reNum.MatchString(s) {
		return 0, false
	}
	n, _ := strconv.Atoi(s)
	return n, true
}

func parseScript(s string, tx bool) ([]sop, bool) {
	if s == "-" {
		return nil, true
	}
	var out []sop
	for _, p := range strings.Split(s, ",") {
		f := strings.Split(p, ".")
		switch {
		case len(f) == 3 && f[0] == "r":
			st, ok1 := num(f[1])
			k, ok2 := num(f[2])
			if !ok1 || !ok2 || st >= nStores || k >= nKeys {
				return nil, false
			}
			out = append(out, sop{op: 'r', s: st, k: k})
		case len(f) == 4 && f[0] == "w":
			st, ok1 := num(f[1])
			k, ok2 := num(f[2])
			v, ok3 := num(f[3])
			if !ok1 || !ok2 || !ok3 || st >= nStores || k >= nKeys {
				return nil, false
			}
			out = append(out, sop{op: 'w', s: st, k: k, v: int64(v)})
		case len(f) == 1 && f[0] == "p" && !tx:
			out = append(out, sop{op: 'p'})
		case len(f) == 1 && f[0] == "f" && tx:
			out = append(out, sop{op: 'f'})
		default:
			return nil, false
		}
	}
	return out, true
}

func keyBytes(k int) []byte { return []byte{'k', byte('0' + k)} }

func valBytes(v int64) []byte { return []byte(strconv.FormatInt(v, 10)) }

func valOf(b []byte) int64 {
	if b == nil {
		return -1
	}
	n, err := strconv.ParseInt(string(b), 10, 64)
	if err != nil {
		return -2
	}
	return n
}

func showVal(v int64) string {
	if v == -1 {
		return "-"
	}
	return strconv.FormatInt(v, 10)
}

// ---------------------------------------------------------------- goroutine identity

func gid() int64 {
	var buf [64]byte
	n := runtime.Stack(buf[:], false)
	// "goroutine 123 [running]:"
	s := string(buf[:n])
	s = strings.TrimPrefix(s, "goroutine ")
	i := strings.IndexByte(s, ' ')
	id, _ := strconv.ParseInt(s[:i], 10, 64)
	return id
}

// ---------------------------------------------------------------- world

type sk struct{ s, k int }

type rd struct {
	s, k int
	val  int64
	own  bool
}

type qrec struct {
	id       int
	kind     byte
	explicit int64
	script   []sop
	gid      int64

	mu       sync.Mutex
	ver      int64
	hdr      int64
	handler  bool // handler reached
	snapSeen bool
	snapTag  int
	reads    []rd
	printed  int
	closes   []int
	overlay  map[sk]int64
	status   string // running paused done errload
	errVer   int64

	abort  atomic.Bool
	parked chan struct{}
	resume chan struct{}
	done   chan struct{}

	// hammer bookkeeping
	startWrites, endStarted int
	free                    bool
	rnd                     *kit.Rand
	uac                     bool
}

type world struct {
	app, base *sdk.BaseApp
	db        *hookDB
	keep      string
	ns        int // mounted stores: 2 = gno.land wiring (base, main), 3 = plus aux (iavl)

	mu     sync.Mutex
	byGid  map[int64]*qrec
	forced atomic.Bool

	commitG      atomic.Int64
	commitPark   chan string
	commitResume chan struct{}
	commitDone   chan abci.ResponseCommit
	at           string // "" = no commit goroutine
	phase        int    // 0 idle 1 inblock 2 ended 3 committing
	commits      int    // completed Commit calls
	queries      map[int]*qrec
	blocked      []*qrec // started by qblk, waiting on snapshotMu

	// oracle
	ostate   map[sk]int64
	oblock   map[sk]int64
	hist     []map[sk]int64
	pending  string // verdict raised asynchronously (stray write, use after close)
	baseHash []byte
}

var w *world

// ---------------------------------------------------------------- DB hooks

type hookDB struct {
	*memdb.MemDB
	w       *world
	writes  atomic.Int64 // completed WriteSyncs
	started atomic.Int64 // WriteSyncs entered
	snapN   atomic.Int64
}

func (d *hookDB) stray(what string) {
	d.w.mu.Lock()
	if d.w.pending == "" {
		d.w.pending = "VIOL:stray-write raw DB " + what + " outside Commit's WriteSync"
	}
	d.w.mu.Unlock()
}
func (d *hookDB) Set(k, v []byte) error     { d.stray("Set"); return d.MemDB.Set(k, v) }
func (d *hookDB) SetSync(k, v []byte) error { d.stray("SetSync"); return d.MemDB.SetSync(k, v) }
func (d *hookDB) Delete(k []byte) error     { d.stray("Delete"); return d.MemDB.Delete(k) }
func (d *hookDB) DeleteSync(k []byte) error { d.stray("DeleteSync"); return d.MemDB.DeleteSync(k) }
func (d *hookDB) NewBatch() dbm.Batch       { return &hookBatch{Batch: d.MemDB.NewBatch(), d: d} }
func (d *hookDB) NewBatchWithSize(n int) dbm.Batch {
	return &hookBatch{Batch: d.MemDB.NewBatchWithSize(n), d: d}
}

func (d *hookDB) NewSnapshot() (dbm.Snapshot, error) {
	s, err := d.MemDB.NewSnapshot()
	if err != nil {
		return nil, err
	}
	hs := &hookSnap{Snapshot: s, d: d, tag: int(d.writes.Load())}
	d.snapN.Add(1)
	d.w.yield("S1")
	return hs, nil
}

type hookBatch struct {
	dbm.Batch
	d *hookDB
}

func (b *hookBatch) Write() error { return b.WriteSync() }
func (b *hookBatch) WriteSync() error {
	if b.d.w.commitG.Load() != gid() && b.d.w.commitG.Load() != -1 {
		b.d.stray("batch write")
	}
	b.d.started.Add(1)
	b.d.w.yield("W0")
	err := b.Batch.WriteSync()
	b.d.writes.Add(1)
	b.d.w.yield("W1")
	return err
}

type hookSnap struct {
	dbm.Snapshot
	d      *hookDB
	tag    int
	closed atomic.Bool
}

func (s *hookSnap) note() {
	g := gid()
	s.d.w.mu.Lock()
	q := s.d.w.byGid[g]
	s.d.w.mu.Unlock()
	if q != nil {
		q.mu.Lock()
		if !q.snapSeen {
			q.snapSeen, q.snapTag = true, s.tag
		} else if q.snapTag != s.tag {
			q.snapTag = -1 // two snapshots in one query: reported as mixed by the oracle
		}
		if s.closed.Load() {
			q.uac = true
		}
		q.mu.Unlock()
	}
	if s.closed.Load() {
		s.d.w.mu.Lock()
		if s.d.w.pending == "" {
			s.d.w.pending = fmt.Sprintf("VIOL:use-after-close snapshot %d read after Close", s.tag)
		}
		s.d.w.mu.Unlock()
	}
}
func (s *hookSnap) Get(k []byte) ([]byte, error) { s.note(); return s.Snapshot.Get(k) }
func (s *hookSnap) Has(k []byte) (bool, error)   { s.note(); return s.Snapshot.Has(k) }
func (s *hookSnap) Iterator(a, b []byte) (dbm.Iterator, error) {
	s.note()
	return s.Snapshot.Iterator(a, b)
}
func (s *hookSnap) ReverseIterator(a, b []byte) (dbm.Iterator, error) {
	s.note()
	return s.Snapshot.ReverseIterator(a, b)
}
func (s *hookSnap) Close() error {
	s.closed.Store(true)
	g := gid()
	s.d.w.mu.Lock()
	q := s.d.w.byGid[g]
	s.d.w.mu.Unlock()
	if q != nil {
		q.mu.Lock()
		q.closes = append(q.closes, s.tag)
		q.mu.Unlock()
	}
	s.d.w.yield("X")
	return s.Snapshot.Close()
}

// ---------------------------------------------------------------- logger hook

type logHook struct{ w **world }

func (l logHook) Enabled(context.Context, slog.Level) bool { return true }
func (l logHook) Handle(_ context.Context, r slog.Record) error {
	if r.Message == "Commit synced" && *l.w != nil {
		(*l.w).yield("L")
	}
	return nil
}
func (l logHook) WithAttrs([]slog.Attr) slog.Handler { return l }
func (l logHook) WithGroup(string) slog.Handler      { return l }

// yield parks the commit goroutine (forced mode only).
func (w *world) yield(name string) {
	if !w.forced.Load() || w.commitG.Load() != gid() {
		return
	}
	w.commitPark <- name
	<-w.commitResume
}

// ---------------------------------------------------------------- the scripted handler

type handler struct{ w **world }

func (h handler) world() *world { return *h.w }

func (h handler) Process(ctx sdk.Context, msg sdk.Msg) (res sdk.Result) {
	m := msg.(Msg)
	w := h.world()
	var q *qrec
	if ctx.Mode() == sdk.RunTxModeSimulate {
		w.mu.Lock()
		q = w.byGid[gid()]
		w.mu.Unlock()
	}
	if q != nil {
		q.mu.Lock()
		q.handler, q.ver, q.hdr = true, ctx.BlockHeight(), ctx.BlockHeight()
		q.mu.Unlock()
		runQueryScript(ctx, q)
		return
	}
	ops, ok := parseScript(m.Script, true)
	if !ok {
		panic("c28: bad tx script")
	}
	var data []string
	for _, o := range ops {
		switch o.op {
		case 'w':
			ctx.Store(keys[o.s]).Set(nil, keyBytes(o.k), valBytes(o.v))
		case 'r':
			data = append(data, showVal(valOf(ctx.Store(keys[o.s]).Get(nil, keyBytes(o.k)))))
		case 'f':
			res.Data = []byte(strings.Join(data, ","))
			res.Error = sdk.ABCIError(std.ErrUnauthorized("scripted failure"))
			return
		}
	}
	res.Data = []byte(strings.Join(data, ","))
	return
}

func (h handler) Query(ctx sdk.Context, req abci.RequestQuery) (res abci.ResponseQuery) {
	w := h.world()
	w.mu.Lock()
	q := w.byGid[gid()]
	w.mu.Unlock()
	if q == nil {
		panic("c28: query from an unregistered goroutine")
	}
	q.mu.Lock()
	q.handler, q.ver, q.hdr = true, req.Height, ctx.BlockHeight()
	q.mu.Unlock()
	runQueryScript(ctx, q)
	return
}

func runQueryScript(ctx sdk.Context, q *qrec) {
	for _, o := range q.script {
		if q.free && q.rnd.Chance(30) {
			runtime.Gosched()
		}
		switch o.op {
		case 'w':
			ctx.Store(keys[o.s]).Set(nil, keyBytes(o.k), valBytes(o.v))
			q.mu.Lock()
			q.overlay[sk{o.s, o.k}] = o.v
			q.mu.Unlock()
		case 'r':
			v := valOf(ctx.Store(keys[o.s]).Get(nil, keyBytes(o.k)))
			q.mu.Lock()
			_, own := q.overlay[sk{o.s, o.k}]
			q.reads = append(q.reads, rd{o.s, o.k, v, own})
			q.mu.Unlock()
		case 'p':
			if q.free || q.abort.Load() {
				continue
			}
			q.mu.Lock()
			q.status = "paused"
			q.mu.Unlock()
			q.parked <- struct{}{}
			<-q.resume
			q.mu.Lock()
			q.status = "running"
			q.mu.Unlock()
		}
	}
}

// ---------------------------------------------------------------- app construction

func pruning(keep string) store.PruningOptions {
	if keep == "all" {
		return store.PruneNothing
	}
	k, _ := strconv.Atoi(keep)
	return store.PruningOptions{KeepRecent: int64(k), KeepEvery: 0}
}

func newApp(wp **world, db dbm.DB, keep string, ns int) *sdk.BaseApp {
	logger := slog.New(logHook{wp})
	app := sdk.NewBaseApp("c28", logger, db, baseKey, mainKey, sdk.SetPruningOptions(pruning(keep)))
	app.MountStoreWithDB(mainKey, bptree.FastStoreConstructor, nil)
	app.MountStoreWithDB(baseKey, dbadapter.StoreConstructor, nil)
	if ns == 3 {
		app.MountStoreWithDB(auxKey, iavl.StoreConstructor, nil)
	}
	app.Router().AddRoute("s", handler{wp})
	if err := app.LoadLatestVersion(); err != nil {
		panic(err)
	}
	app.InitChain(abci.RequestInitChain{ChainID: "verif"})
	return app
}

var nilWorld *world

func newWorld(keep string, ns int) *world {
	x := &world{keep: keep, ns: ns, byGid: map[int64]*qrec{}, queries: map[int]*qrec{},
		commitPark: make(chan string), commitResume: make(chan struct{}), commitDone: make(chan abci.ResponseCommit, 1),
		ostate: map[sk]int64{}, oblock: map[sk]int64{}, hist: []map[sk]int64{{}}}
	x.db = &hookDB{MemDB: memdb.NewMemDB(), w: x}
	wp := new(*world)
	*wp = x
	x.commitG.Store(-1) // setup: LoadLatestVersion may write
	x.app = newApp(wp, x.db, keep, ns)
	x.commitG.Store(0)
	x.base = newApp(&nilWorld, memdb.NewMemDB(), keep, ns)
	return x
}

// ---------------------------------------------------------------- reset

func (w *world) shutdown() {
	if w == nil {
		return
	}
	w.forced.Store(false)
	for _, q := range w.queries {
		q.abort.Store(true)
	}
	if w.at != "" {
		w.commitResume <- struct{}{}
		<-w.commitDone
		w.at = ""
	}
	for _, q := range w.queries {
		q.mu.Lock()
		st := q.status
		q.mu.Unlock()
		if st == "done" || st == "errload" {
			continue
		}
		for {
			select {
			case <-q.parked:
				q.resume <- struct{}{}
				continue
			case <-q.done:
			case <-time.After(10 * time.Second):
			}
			break
		}
	}
}

func reset() {
	w.shutdown()
	w = nil
}

// ---------------------------------------------------------------- oracle helpers

func cloneMap(m map[sk]int64) map[sk]int64 {
	o := make(map[sk]int64, len(m))
	for k, v := range m {
		o[k] = v
	}
	return o
}

func getOr(m map[sk]int64, k sk) int64 {
	if v, ok := m[k]; ok {
		return v
	}
	return -1
}

// noteWrite is called when the atomic write of a commit has happened.
func (w *world) oracleCommitted() {
	for k, v := range w.oblock {
		w.ostate[k] = v
	}
	w.oblock = map[sk]int64{}
	w.hist = append(w.hist, cloneMap(w.ostate))
}

// judge evaluates the statement on the reads of one query against hist[0..allowed].
func judge(hist []map[sk]int64, allowed int, q *qrec) string {
	hs := ""
	if q.explicit > 0 {
		hs = "-historic"
	}
	if q.uac {
		return fmt.Sprintf("VIOL:use-after-close q%d read a closed snapshot", q.id)
	}
	if q.snapSeen && q.snapTag == -1 {
		return fmt.Sprintf("VIOL:mixed-heights%s q%d was served by two different snapshots", hs, q.id)
	}
	if allowed >= len(hist) {
		allowed = len(hist) - 1
	}
	fit := make([]bool, allowed+1)
	for h := range fit {
		fit[h] = true
	}
	any := false
	for _, r := range q.reads {
		if r.own {
			if r.val != q.overlay[sk{r.s, r.k}] {
				// a later write may have replaced the value; only the last write is kept, so
				// compare on the spot is done in checkOwn; here be lenient
			}
			continue
		}
		any = true
		one := false
		for h := 0; h <= allowed; h++ {
			if getOr(hist[h], sk{r.s, r.k}) == r.val {
				one = true
			} else {
				fit[h] = false
			}
		}
		if !one {
			return fmt.Sprintf("VIOL:uncommitted-read q%d read %d.%d=%s which no committed height <= %d has", q.id, r.s, r.k, showVal(r.val), allowed)
		}
	}
	if !any {
		return "ok"
	}
	var fits []int
	for h, f := range fit {
		if f {
			fits = append(fits, h)
		}
	}
	if len(fits) == 0 {
		return fmt.Sprintf("VIOL:mixed-heights%s q%d reads %s fit no single committed height", hs, q.id, showReads(q.reads))
	}
	if q.handler {
		ok := false
		for _, h := range fits {
			if int64(h) == q.hdr {
				ok = true
			}
		}
		if !ok {
			return fmt.Sprintf("VIOL:header-skew%s q%d state of height %v but ctx.BlockHeight()=%d", hs, q.id, fits, q.hdr)
		}
	}
	return "ok"
}

func showReads(rs []rd) string {
	var p []string
	for _, r := range rs {
		p = append(p, fmt.Sprintf("%d.%d=%s", r.s, r.k, showVal(r.val)))
	}
	return strings.Join(p, ",")
}

var sev = []string{"consensus-perturbed", "tx-result", "stray-write", "use-after-close", "uncommitted-read", "own-write", "mixed-heights", "header-skew"}

func worse(a, b string) string {
	rank := func(s string) int {
		if !strings.HasPrefix(s, "VIOL:") {
			return 100
		}
		for i, c := range sev {
			if strings.HasPrefix(s[5:], c) {
				// non-historic before historic inside a class
				if strings.HasPrefix(s[5+len(c):], "-historic") {
					return 2*i + 1
				}
				return 2 * i
			}
		}
		return 50
	}
	if rank(b) < rank(a) {
		return b
	}
	return a
}

func (w *world) takePending(v string) string {
	w.mu.Lock()
	p := w.pending
	w.pending = ""
	w.mu.Unlock()
	if p != "" {
		return worse(v, p)
	}
	return v
}

// ---------------------------------------------------------------- query progress

var reLoadErr = regexp.MustCompile(`at height (-?[0-9]+)`)

// progress prints what the query did since the last progress line.
func (w *world) progress(q *qrec) (string, string) {
	q.mu.Lock()
	defer q.mu.Unlock()
	var sb strings.Builder
	snap := "-"
	if q.snapSeen {
		snap = strconv.Itoa(q.snapTag)
	}
	if q.status == "errload" {
		fmt.Fprintf(&sb, "err:load s=%s", snap)
	} else {
		var vals []string
		for _, r := range q.reads[q.printed:] {
			vals = append(vals, showVal(r.val))
		}
		q.printed = len(q.reads)
		rs := "-"
		if len(vals) > 0 {
			rs = strings.Join(vals, ",")
		}
		fmt.Fprintf(&sb, "v=%d s=%s h=%d r=%s %s", q.ver, snap, q.hdr, rs, q.status)
	}
	for _, c := range q.closes {
		fmt.Fprintf(&sb, " close=%d", c)
	}
	q.closes = nil
	allowed := int(w.db.writes.Load())
	verdict := judge(w.hist, allowed, q)
	// own writes must be read back
	for _, r := range q.reads {
		if r.own && r.val < 0 {
			verdict = worse(verdict, fmt.Sprintf("VIOL:own-write q%d did not read back its own write of %d.%d", q.id, r.s, r.k))
		}
	}
	return sb.String(), verdict
}

func (w *world) runQueryBody(q *qrec) {
	q.gid = gid()
	w.mu.Lock()
	w.byGid[q.gid] = q
	w.mu.Unlock()
	defer func() {
		w.mu.Lock()
		delete(w.byGid, q.gid)
		w.mu.Unlock()
		close(q.done)
	}()
	var errLog string
	if q.kind == 'c' {
		res := w.app.Query(abci.RequestQuery{Path: "s/q", Height: q.explicit})
		if res.Error != nil {
			errLog = res.Error.Error() + " " + res.Log
		}
	} else {
		tx := amino.MustMarshal(std.Tx{Msgs: []std.Msg{Msg{Script: "-"}}})
		res := w.app.Query(abci.RequestQuery{Path: ".app/simulate", Data: tx})
		if res.Error != nil {
			errLog = res.Error.Error() + " " + res.Log
		} else {
			var r sdk.Result
			if err := amino.Unmarshal(res.Value, &r); err != nil {
				errLog = "decode " + err.Error()
			} else if r.Error != nil {
				errLog = r.Error.Error() + " " + r.Log
			}
		}
	}
	q.mu.Lock()
	if errLog != "" && os.Getenv("VERIF_TRACE") != "" {
		fmt.Fprintf(os.Stderr, "q%d error: %s\n", q.id, errLog)
	}
	if errLog != "" {
		q.status = "errload"
		q.errVer = -1
		if m := reLoadErr.FindStringSubmatch(errLog); m != nil {
			q.errVer, _ = strconv.ParseInt(m[1], 10, 64)
		}
	} else {
		q.status = "done"
	}
	q.mu.Unlock()
}

func newQ(id int, kind byte, explicit int64, script []sop) *qrec {
	return &qrec{id: id, kind: kind, explicit: explicit, script: script, overlay: map[sk]int64{}, status: "running",
		parked: make(chan struct{}), resume: make(chan struct{}), done: make(chan struct{})}
}

func (w *world) waitQ(q *qrec) {
	select {
	case <-q.parked:
	case <-q.done:
	}
}

// blockedOnRLock polls the goroutine dump until goroutine g waits on a RWMutex read lock.
func blockedOnRLock(g int64) bool {
	hdr := fmt.Sprintf("goroutine %d [", g)
	buf := make([]byte, 1<<20)
	deadline := time.Now().Add(10 * time.Second)
	for time.Now().Before(deadline) {
		n := runtime.Stack(buf, true)
		s := string(buf[:n])
		if i := strings.Index(s, hdr); i >= 0 {
			blk := s[i:]
			if j := strings.Index(blk, "\n\n"); j >= 0 {
				blk = blk[:j]
			}
			first := blk
			if j := strings.IndexByte(blk, '\n'); j >= 0 {
				first = blk[:j]
			}
			if (strings.Contains(first, "RWMutex.RLock") || strings.Contains(first, "semacquire") || strings.Contains(first, "sync.Mutex")) &&
				strings.Contains(blk, "immutableAtVersion") {
				return true
			}
		}
		time.Sleep(200 * time.Microsecond)
	}
	return false
}

// ---------------------------------------------------------------- exec

func hexHash(b []byte) string { return fmt.Sprintf("%X", b) }

func (w *world) finishCommit(res abci.ResponseCommit) (string, string) {
	w.at = ""
	w.commitG.Store(0)
	w.forced.Store(false)
	w.phase = 0
	w.commits++
	bres := w.base.Commit()
	same := "same"
	verdict := "ok"
	if hexHash(res.Data) != hexHash(bres.Data) || res.Error != nil {
		same = "diff"
		verdict = fmt.Sprintf("VIOL:consensus-perturbed app hash of block %d is %X, without queries %X", w.commits, res.Data, bres.Data)
	}
	return fmt.Sprintf("v=%d %s", w.app.LastBlockHeight(), same), verdict
}

func (w *world) afterWrite() {
	// the oracle's committed history follows the atomic write
	for len(w.hist)-1 < int(w.db.writes.Load()) {
		w.oracleCommitted()
	}
}

func (w *world) blockedProgress() (string, string) {
	out, verdict := "", "ok"
	bl := w.blocked
	w.blocked = nil
	sort.Slice(bl, func(i, j int) bool { return bl[i].id < bl[j].id })
	for _, q := range bl {
		w.waitQ(q)
		o, v := w.progress(q)
		out += fmt.Sprintf(" | q%d %s", q.id, o)
		verdict = worse(verdict, v)
	}
	return out, verdict
}

func exec(t []string) (string, string) {
	if len(t) == 0 {
		return "err:badop", "-"
	}
	if t[0] == "init" {
		if len(t) != 3 || (t[2] != "2" && t[2] != "3") {
			return "err:badop", "-"
		}
		if t[1] != "all" {
			if k, ok := num(t[1]); !ok || k > 1000 {
				return "err:badop", "-"
			}
		}
		w.shutdown()
		w = newWorld(t[1], int(t[2][0]-'0'))
		return "ok", w.takePending("ok")
	}
	if t[0] == "hammer" {
		return hammer(t)
	}
	switch t[0] {
	case "begin", "end", "commit", "cstart", "cstep":
		if len(t) != 1 {
			return "err:badop", "-"
		}
	case "tx":
		if len(t) != 2 {
			return "err:badop", "-"
		}
		if _, ok := parseScript(t[1], true); !ok {
			return "err:badop", "-"
		}
	case "q", "qblk":
		if len(t) != 5 || (t[2] != "c" && t[2] != "s") {
			return "err:badop", "-"
		}
		id, ok1 := num(t[1])
		h, ok2 := num(t[3])
		_, ok3 := parseScript(t[4], false)
		if !ok1 || !ok2 || !ok3 || id >= maxQ || (t[2] == "s" && h != 0) {
			return "err:badop", "-"
		}
	case "qstep":
		if len(t) != 2 {
			return "err:badop", "-"
		}
		if id, ok := num(t[1]); !ok || id >= maxQ {
			return "err:badop", "-"
		}
	default:
		return "err:badop", "-"
	}
	if w == nil {
		return "err:noapp", "-"
	}
	if t[0] == "tx" || t[0] == "q" || t[0] == "qblk" {
		ops, _ := parseScript(t[len(t)-1], t[0] == "tx")
		for _, o := range ops {
			if (o.op == 'r' || o.op == 'w') && o.s >= w.ns {
				return "err:nostore", "-"
			}
		}
	}
	switch t[0] {
	case "begin":
		if w.phase != 0 {
			return "err:order", "-"
		}
		h := int64(w.commits + 1)
		w.app.BeginBlock(abci.RequestBeginBlock{Header: &bft.Header{ChainID: "verif", Height: h}})
		w.base.BeginBlock(abci.RequestBeginBlock{Header: &bft.Header{ChainID: "verif", Height: h}})
		w.phase = 1
		return fmt.Sprintf("ok h=%d", h), w.takePending("ok")
	case "tx":
		if w.phase != 1 {
			return "err:order", "-"
		}
		ops, _ := parseScript(t[1], true)
		txb := amino.MustMarshal(std.Tx{Msgs: []std.Msg{Msg{Script: t[1]}}})
		r := w.app.DeliverTx(abci.RequestDeliverTx{Tx: txb})
		b := w.base.DeliverTx(abci.RequestDeliverTx{Tx: txb})
		show := func(r abci.ResponseDeliverTx) string {
			d := string(r.Data)
			if d == "" {
				d = "-"
			}
			if r.Error != nil {
				return "err:" + d
			}
			return "ok:" + d
		}
		out := show(r)
		verdict := "ok"
		if out != show(b) || r.GasUsed != b.GasUsed {
			verdict = fmt.Sprintf("VIOL:consensus-perturbed DeliverTx result %s, without queries %s", out, show(b))
		}
		// independent expectation from the scripts alone
		tmp := map[sk]int64{}
		var exp []string
		failed := false
		for _, o := range ops {
			switch o.op {
			case 'w':
				tmp[sk{o.s, o.k}] = o.v
			case 'r':
				v, ok := tmp[sk{o.s, o.k}]
				if !ok {
					v, ok = w.oblock[sk{o.s, o.k}]
				}
				if !ok {
					v = getOr(w.ostate, sk{o.s, o.k})
				}
				exp = append(exp, showVal(v))
			case 'f':
				failed = true
			}
			if failed {
				break
			}
		}
		e := strings.Join(exp, ",")
		if e == "" {
			e = "-"
		}
		if failed {
			e = "err:" + e
		} else {
			e = "ok:" + e
			for k, v := range tmp {
				w.oblock[k] = v
			}
		}
		if e != out {
			verdict = worse(verdict, fmt.Sprintf("VIOL:tx-result DeliverTx returned %s, the block-local state gives %s", out, e))
		}
		return out, w.takePending(verdict)
	case "end":
		if w.phase != 1 {
			return "err:order", "-"
		}
		w.app.EndBlock(abci.RequestEndBlock{})
		w.base.EndBlock(abci.RequestEndBlock{})
		w.phase = 2
		return "ok", w.takePending("ok")
	case "commit":
		if w.phase != 2 {
			return "err:order", "-"
		}
		w.phase = 3
		w.commitG.Store(gid())
		res := w.app.Commit()
		w.afterWrite()
		o, v := w.finishCommit(res)
		return o, w.takePending(v)
	case "cstart":
		if w.phase != 2 {
			return "err:order", "-"
		}
		w.phase = 3
		w.forced.Store(true)
		started := make(chan struct{})
		go func() {
			w.commitG.Store(gid())
			close(started)
			w.commitDone <- w.app.Commit()
		}()
		<-started
		select {
		case name := <-w.commitPark:
			w.at = name
			return "at=" + name, w.takePending("ok")
		case res := <-w.commitDone:
			w.afterWrite()
			o, v := w.finishCommit(res)
			return "done " + o, w.takePending(v)
		}
	case "cstep":
		if w.phase != 3 || w.at == "" {
			return "err:order", "-"
		}
		w.commitResume <- struct{}{}
		var out, verdict string
		select {
		case name := <-w.commitPark:
			w.at = name
			w.afterWrite()
			out, verdict = "at="+name, "ok"
		case res := <-w.commitDone:
			w.afterWrite()
			o, v := w.finishCommit(res)
			out, verdict = "done "+o, v
		}
		if len(w.blocked) > 0 {
			o, v := w.blockedProgress()
			out += o
			verdict = worse(verdict, v)
		}
		return out, w.takePending(verdict)
	case "q", "qblk":
		id, _ := num(t[1])
		h, _ := num(t[3])
		script, _ := parseScript(t[4], false)
		if _, dup := w.queries[id]; dup {
			return "err:dup", "-"
		}
		if t[0] == "qblk" && w.at != "X" {
			return "err:order", "-"
		}
		if t[0] == "q" && w.at == "X" {
			// snapshotMu is write-locked: a plain start would block
			return "err:order", "-"
		}
		if t[2] == "s" && w.commits < 1 {
			return "err:early", "-"
		}
		q := newQ(id, t[2][0], int64(h), script)
		w.queries[id] = q
		started := make(chan struct{})
		go func() {
			q.gid = gid()
			close(started)
			w.runQueryBody(q)
		}()
		<-started
		if t[0] == "qblk" {
			if !blockedOnRLock(q.gid) {
				return "err:noblock", "-"
			}
			w.blocked = append(w.blocked, q)
			return "blocked", w.takePending("ok")
		}
		w.waitQ(q)
		o, v := w.progress(q)
		return o, w.takePending(v)
	case "qstep":
		id, _ := num(t[1])
		q := w.queries[id]
		if q == nil {
			return "err:noq", "-"
		}
		q.mu.Lock()
		st := q.status
		q.mu.Unlock()
		if st != "paused" {
			return "err:notpaused", "-"
		}
		q.resume <- struct{}{}
		w.waitQ(q)
		o, v := w.progress(q)
		return o, w.takePending(v)
	}
	return "err:badop", "-"
}

// ---------------------------------------------------------------- hammer (search support; oracle only)

type hq struct {
	q          *qrec
	startW     int // WriteSyncs completed when the query started
	endStarted int // WriteSyncs entered when the query returned
	errload    bool
}

func hammer(t []string) (string, string) {
	if len(t) != 7 || (t[5] != "conn" && t[5] != "direct") {
		return "err:badop", "-"
	}
	seed, ok1 := num(t[1])
	blocks, ok2 := num(t[2])
	nq, ok3 := num(t[3])
	procs, ok4 := num(t[4])
	if t[6] != "all" {
		if k, ok := num(t[6]); !ok || k > 1000 {
			return "err:badop", "-"
		}
	}
	if !ok1 || !ok2 || !ok3 || !ok4 || blocks < 1 || blocks > 100000 || nq < 1 || nq > 64 || procs < 1 || procs > 64 {
		return "err:badop", "-"
	}
	old := runtime.GOMAXPROCS(procs)
	defer runtime.GOMAXPROCS(old)
	x := newWorld(t[6], 3)
	r := kit.NewRand(uint64(seed)*7919 + 13)
	cc := proxy.NewLocalClientCreator(x.app)
	cons, _ := cc.NewABCIClient()
	qcli, _ := cc.NewReadOnlyABCIClient()
	cons.SetResponseCallback(func(abci.Request, abci.Response) {})
	qcli.SetResponseCallback(func(abci.Request, abci.Response) {})
	direct := t[5] == "direct"

	var stop atomic.Bool
	var wg sync.WaitGroup
	results := make([][]hq, nq)
	var committed atomic.Int64 // completed Commit calls (header published)
	for i := 0; i < nq; i++ {
		qr := r.Fork()
		wg.Add(1)
		go func(i int) {
			defer wg.Done()
			n := 0
			for !stop.Load() {
				n++
				kind := byte('c')
				var explicit int64
				c := committed.Load()
				switch {
				case c >= 1 && qr.Chance(35):
					kind = 's'
				case c >= 2 && qr.Chance(10):
					explicit = 1 + int64(qr.Intn(int(c)))
				}
				var script []sop
				for j, m := 0, 2+qr.Intn(5); j < m; j++ {
					if kind == 's' && qr.Chance(15) {
						script = append(script, sop{op: 'w', s: qr.Intn(nStores), k: 4 + qr.Intn(4), v: 900000 + int64(qr.Intn(1000))})
					} else {
						script = append(script, sop{op: 'r', s: qr.Intn(nStores), k: qr.Intn(nKeys)})
					}
				}
				q := newQ(i*1000000+n, kind, explicit, script)
				q.free, q.rnd = true, qr
				rec := hq{q: q, startW: int(x.db.writes.Load())}
				x.runFree(q, direct, qcli)
				rec.endStarted = int(x.db.started.Load())
				rec.errload = q.status == "errload"
				results[i] = append(results[i], rec)
				if qr.Chance(20) {
					runtime.Gosched()
				}
			}
		}(i)
	}
	verdict := "ok"
	br := r.Fork()
	for h := 1; h <= blocks; h++ {
		hdr := &bft.Header{ChainID: "verif", Height: int64(h)}
		cons.BeginBlockSync(abci.RequestBeginBlock{Header: hdr})
		x.base.BeginBlock(abci.RequestBeginBlock{Header: hdr})
		ntx := 1 + br.Intn(3)
		for i := 0; i < ntx; i++ {
			var parts []string
			if i == 0 {
				for s := 0; s < nStores; s++ {
					for k := 0; k < 2; k++ {
						parts = append(parts, fmt.Sprintf("w.%d.%d.%d", s, k, h))
					}
				}
			} else {
				for j, m := 0, 1+br.Intn(3); j < m; j++ {
					if br.Chance(25) {
						parts = append(parts, fmt.Sprintf("r.%d.%d", br.Intn(nStores), br.Intn(nKeys)))
					} else {
						parts = append(parts, fmt.Sprintf("w.%d.%d.%d", br.Intn(nStores), 2+br.Intn(nKeys-2), h*100+br.Intn(100)))
					}
				}
				if br.Chance(10) {
					parts = append(parts, "f")
				}
			}
			script := strings.Join(parts, ",")
			ops, _ := parseScript(script, true)
			txb := amino.MustMarshal(std.Tx{Msgs: []std.Msg{Msg{Script: script}}})
			a, _ := cons.DeliverTxSync(abci.RequestDeliverTx{Tx: txb})
			b := x.base.DeliverTx(abci.RequestDeliverTx{Tx: txb})
			if string(a.Data) != string(b.Data) || (a.Error == nil) != (b.Error == nil) || a.GasUsed != b.GasUsed {
				verdict = worse(verdict, fmt.Sprintf("VIOL:consensus-perturbed hammer block %d tx %d: result %q, without queries %q", h, i, a.Data, b.Data))
			}
			failed := false
			tmp := map[sk]int64{}
			for _, o := range ops {
				if o.op == 'w' {
					tmp[sk{o.s, o.k}] = o.v
				}
				if o.op == 'f' {
					failed = true
				}
			}
			if !failed {
				for k, v := range tmp {
					x.oblock[k] = v
				}
			}
		}
		cons.EndBlockSync(abci.RequestEndBlock{})
		x.base.EndBlock(abci.RequestEndBlock{})
		// the oracle's history entry must exist before the atomic write can be observed
		x.mu.Lock()
		x.oracleCommitted()
		x.mu.Unlock()
		x.commitG.Store(-1)
		a, _ := cons.CommitSync()
		b := x.base.Commit()
		committed.Store(int64(h))
		if hexHash(a.Data) != hexHash(b.Data) {
			verdict = worse(verdict, fmt.Sprintf("VIOL:consensus-perturbed hammer block %d: app hash %X, without queries %X", h, a.Data, b.Data))
		}
		if br.Chance(30) {
			runtime.Gosched()
		}
	}
	stop.Store(true)
	wg.Wait()
	total, mixed := 0, 0
	for _, rs := range results {
		for _, rec := range rs {
			total++
			if rec.errload {
				continue
			}
			v := judge(x.hist, rec.endStarted, rec.q)
			if os.Getenv("VERIF_TRACE") != "" && strings.HasPrefix(v, "VIOL:") {
				fmt.Fprintf(os.Stderr, "hammer: %s | kind=%c explicit=%d ver=%d hdr=%d snap=%d startW=%d endStarted=%d reads=%s\n", v, rec.q.kind, rec.q.explicit, rec.q.ver, rec.q.hdr, rec.q.snapTag, rec.startW, rec.endStarted, showReads(rec.q.reads))
			}
			if strings.HasPrefix(v, "VIOL:mixed") {
				mixed++
			}
			verdict = worse(verdict, v)
		}
	}
	verdict = x.takePending(verdict)
	return fmt.Sprintf("hammered blocks=%d", blocks), verdict
}

type querier interface {
	QuerySync(abci.RequestQuery) (abci.ResponseQuery, error)
}

func (w *world) runFree(q *qrec, direct bool, cli querier) {
	q.gid = gid()
	w.mu.Lock()
	w.byGid[q.gid] = q
	w.mu.Unlock()
	defer func() {
		w.mu.Lock()
		delete(w.byGid, q.gid)
		w.mu.Unlock()
	}()
	var req abci.RequestQuery
	if q.kind == 'c' {
		req = abci.RequestQuery{Path: "s/q", Height: q.explicit}
	} else {
		req = abci.RequestQuery{Path: ".app/simulate", Data: amino.MustMarshal(std.Tx{Msgs: []std.Msg{Msg{Script: "-"}}})}
	}
	var res abci.ResponseQuery
	if direct {
		res = w.app.Query(req)
	} else {
		res, _ = cli.QuerySync(req)
	}
	bad := res.Error != nil
	if !bad && q.kind == 's' {
		var r sdk.Result
		if err := amino.Unmarshal(res.Value, &r); err != nil || r.Error != nil {
			bad = true
		}
	}
	if bad {
		q.status = "errload"
	} else {
		q.status = "done"
	}
}

func main() {
	kit.Main(&kit.Harness{Gen: gen, Reset: reset, Exec: exec})
}
