package main

// Generator for C51: boundary table first, then structured-random histories
// (mostly valid: amounts are chosen against a naive shadow of the ledger kept by
// the generator only — it is a heuristic for reaching deep states, not an
// oracle), then a malformed stream.  Every choice comes from the one *kit.Rand.

import (
	"fmt"
	"math"
	"strconv"

	"gnoverif/kit"
)

var boundaryAmounts = []int64{0, 1, 5, math.MaxInt64, math.MaxInt64 - 1, -1, math.MinInt64, math.MaxInt64/2 + 1}

func v(i int) string { return "v" + strconv.Itoa(i) }
func x(i int) string { return "x" + strconv.Itoa(i) }

// presets: op lines that build a state
var presets = [][]string{
	{},
	{"mint v0 10", "mint v1 5", "appr v0 v1 7", "appr v1 v0 9223372036854775807", "appr v0 v4 3"},
	{"mint v0 9223372036854775806", "mint v1 1", "appr v0 v2 9223372036854775807", "appr v1 v2 1"},
}

func boundary(w *kit.Out) {
	// the witness of the defect fixed by "grc20 TransferFrom validates owner != to
	// before spending the allowance": the failing call must leave Allowance at 50
	w.Case("b-selfxfrom")
	w.Op("mint v0 100")
	w.Op("appr v0 v1 50")
	w.Op("xfrom v0 v1 v0 30")
	w.Op("xfrom v0 v1 v2 30")
	w.Op("xfrom v0 v1 v2 30")
	w.Op("xfrom v0 v1 v2 20")
	w.Op("txfrom v1 v0 v0 1")

	// zero entries: Mint(a,0) and Transfer(…,0) create accounts; dropping to 0 removes
	w.Case("b-zero-entries")
	w.Op("mint v0 0")
	w.Op("mint v1 3")
	w.Op("xfer v1 v2 0")
	w.Op("xfer v1 v2 3")
	w.Op("burn v2 3")
	w.Op("burn v0 0")
	w.Op("appr v0 v1 0")
	w.Op("appr v0 v1 4")
	w.Op("spend v0 v1 4")
	w.Op("spend v0 v1 0")
	w.Op("spend v0 x0 0")
	w.Op("xfrom v1 x1 v2 0")
	w.Op("xfrom v1 v3 v2 0")

	// upper-case twin of v0 is its own account
	w.Case("b-case-twin")
	w.Op("mint v0 7")
	w.Op("mint v4 2")
	w.Op("xfer v0 v4 7")
	w.Op("appr v4 v0 9")
	w.Op("xfrom v4 v0 v0 9")
	w.Op("xfer v0 x1 1")

	// the supply cap
	w.Case("b-cap")
	w.Op("mint v0 9223372036854775807")
	w.Op("mint v1 1")
	w.Op("mint v0 1")
	w.Op("mint v1 0")
	w.Op("xfer v0 v1 9223372036854775807")
	w.Op("xfer v1 v0 9223372036854775806")
	w.Op("burn v1 1")
	w.Op("mint v2 1")
	w.Op("mint v2 1")
	w.Op("burn v0 9223372036854775806")
	w.Op("burn v0 1")
	w.Op("mint v3 9223372036854775806")

	// every operation × address pattern × preset, probed with all boundary amounts
	// in two orders (failing-prone first, and reversed)
	orders := [][]int64{
		{-1, math.MinInt64, math.MaxInt64, math.MaxInt64 - 1, math.MaxInt64/2 + 1, 5, 1, 0},
		{0, 1, 5, math.MaxInt64/2 + 1, math.MaxInt64 - 1, math.MaxInt64, math.MinInt64, -1},
	}
	id := 0
	emit := func(pre []string, format string, a ...any) {
		for _, ord := range orders {
			id++
			w.Case(fmt.Sprintf("b%d", id))
			for _, l := range pre {
				w.Op("%s", l)
			}
			for _, n := range ord {
				w.Op(format+" %d", append(append([]any{}, a...), n)...)
			}
			// a follow-up that shows the state is still coherent
			w.Op("xfer v0 v1 1")
		}
	}
	for _, pre := range presets {
		for _, a := range []string{"v0", "v4", "x0"} {
			emit(pre, "mint %s", a)
			emit(pre, "burn %s", a)
		}
		for _, p := range [][2]string{{"v0", "v1"}, {"v1", "v0"}, {"v0", "v0"}, {"v0", "x1"}, {"x2", "v0"}} {
			emit(pre, "xfer %s %s", p[0], p[1])
			emit(pre, "appr %s %s", p[0], p[1])
			emit(pre, "spend %s %s", p[0], p[1])
		}
		for _, p := range [][3]string{
			{"v0", "v1", "v2"}, {"v1", "v0", "v2"}, {"v0", "v1", "v0"}, {"v0", "v1", "v1"}, {"v0", "v0", "v1"},
			{"v0", "v2", "v1"}, {"v0", "x1", "v1"}, {"x0", "v1", "v2"}, {"v0", "v1", "x2"}, {"v0", "v3", "v1"},
		} {
			emit(pre, "xfrom %s %s %s", p[0], p[1], p[2])
		}
	}
	// tellers
	w.Case("b-tellers")
	w.Op("mint v0 10")
	w.Op("txfer v0 v1 4")
	w.Op("txfer v0 v0 1")
	w.Op("txfer x0 v1 1")
	w.Op("tappr v0 v2 5")
	w.Op("txfrom v2 v0 v3 6")
	w.Op("txfrom v2 v0 v3 5")
	w.Op("txfrom v2 v0 v0 0")
	w.Op("rxfer v1 1")
	w.Op("rappr v1 1")
	w.Op("rxfrom v0 v1 1")
	w.Op("rxfer x0 -1")
}

// ---- structured random

type shadow struct {
	ts  int64
	bal map[string]int64
	alw map[string]int64
}

func pickAddr(r *kit.Rand, invalidPct int) string {
	if r.Chance(invalidPct) {
		return x(r.Intn(nInvalid))
	}
	// v4 (the upper-case twin) a bit less often
	if r.Chance(12) {
		return v(4)
	}
	return v(r.Intn(4))
}

func holders(s *shadow) []string {
	var h []string
	for i := 0; i < nValid; i++ {
		if s.bal[v(i)] > 0 {
			h = append(h, v(i))
		}
	}
	return h
}

// amount relative to a reference value `ref` (a balance / allowance / room)
func amountNear(r *kit.Rand, ref int64, huge bool) int64 {
	switch k := r.Intn(100); {
	case k < 30:
		if ref > 0 {
			return 1 + int64(r.U64()%uint64(ref)) // 1..ref
		}
		return 0
	case k < 45:
		return ref
	case k < 55:
		if ref < math.MaxInt64 {
			return ref + 1
		}
		return ref
	case k < 62:
		return 0
	case k < 66:
		return -1 - int64(r.Intn(3))
	case k < 70:
		return kit.Pick(r, boundaryAmounts)
	case k < 85 && huge:
		return math.MaxInt64 - int64(r.Intn(4))
	case k < 92 && huge:
		return math.MaxInt64/2 + int64(r.Intn(5)) - 2
	default:
		return int64(r.Intn(20))
	}
}

func randomCase(w *kit.Out, r *kit.Rand, id string, nops int, huge bool) {
	w.Case(id)
	s := &shadow{bal: map[string]int64{}, alw: map[string]int64{}}
	inv := 4
	for i := 0; i < nops; i++ {
		k := r.Intn(100)
		hs := holders(s)
		switch {
		case k < 22 || len(hs) == 0 && k < 60: // mint
			a := pickAddr(r, inv)
			room := math.MaxInt64 - s.ts
			var n int64
			if huge && r.Chance(50) {
				n = amountNear(r, room, true)
			} else {
				n = amountNear(r, 50, false)
			}
			w.Op("mint %s %d", a, n)
			if a[0] == 'v' && n >= 0 && n <= room {
				s.ts += n
				s.bal[a] += n
			}
		case k < 32: // burn
			a := pickAddr(r, inv)
			if len(hs) > 0 && r.Chance(80) {
				a = kit.Pick(r, hs)
			}
			n := amountNear(r, s.bal[a], huge)
			w.Op("burn %s %d", a, n)
			if a[0] == 'v' && n >= 0 && n <= s.bal[a] {
				s.ts -= n
				s.bal[a] -= n
			}
		case k < 52: // transfer
			f, t := pickAddr(r, inv), pickAddr(r, inv)
			if len(hs) > 0 && r.Chance(85) {
				f = kit.Pick(r, hs)
			}
			n := amountNear(r, s.bal[f], huge)
			name := "xfer"
			if r.Chance(15) {
				name = "txfer"
			}
			w.Op("%s %s %s %d", name, f, t, n)
			if f[0] == 'v' && t[0] == 'v' && f != t && n >= 0 && n <= s.bal[f] {
				s.bal[f] -= n
				s.bal[t] += n
			}
		case k < 68: // approve
			o, sp := pickAddr(r, inv), pickAddr(r, inv)
			if len(hs) > 0 && r.Chance(70) {
				o = kit.Pick(r, hs)
			}
			n := amountNear(r, s.bal[o], huge)
			name := "appr"
			if r.Chance(15) {
				name = "tappr"
			}
			w.Op("%s %s %s %d", name, o, sp, n)
			if o[0] == 'v' && sp[0] == 'v' && n >= 0 {
				s.alw[o+">"+sp] = n
			}
		case k < 90: // transferFrom
			o, sp, t := pickAddr(r, inv), pickAddr(r, inv), pickAddr(r, inv)
			// prefer an existing allowance
			var keys [][2]string
			for a := 0; a < nValid; a++ {
				for b := 0; b < nValid; b++ {
					if s.alw[v(a)+">"+v(b)] > 0 {
						keys = append(keys, [2]string{v(a), v(b)})
					}
				}
			}
			if len(keys) > 0 && r.Chance(85) {
				p := kit.Pick(r, keys)
				o, sp = p[0], p[1]
			}
			ref := s.alw[o+">"+sp]
			if r.Chance(40) && s.bal[o] < ref {
				ref = s.bal[o]
			}
			n := amountNear(r, ref, huge)
			if r.Chance(15) {
				w.Op("txfrom %s %s %s %d", sp, o, t, n)
			} else {
				w.Op("xfrom %s %s %s %d", o, sp, t, n)
			}
			if o[0] == 'v' && t[0] == 'v' && o != t && n >= 0 && n <= s.bal[o] && (n == 0 && sp[0] == 'v' || n > 0 && sp[0] == 'v' && n <= s.alw[o+">"+sp]) {
				s.alw[o+">"+sp] -= n
				s.bal[o] -= n
				s.bal[t] += n
			}
		case k < 96: // spendAllowance
			o, sp := pickAddr(r, inv), pickAddr(r, inv)
			n := amountNear(r, s.alw[o+">"+sp], huge)
			w.Op("spend %s %s %d", o, sp, n)
			if o[0] == 'v' && sp[0] == 'v' && n >= 0 && n <= s.alw[o+">"+sp] {
				s.alw[o+">"+sp] -= n
			}
		default: // readonly teller
			switch r.Intn(3) {
			case 0:
				w.Op("rxfer %s %d", pickAddr(r, inv), amountNear(r, 5, huge))
			case 1:
				w.Op("rappr %s %d", pickAddr(r, inv), amountNear(r, 5, huge))
			default:
				w.Op("rxfrom %s %s %d", pickAddr(r, inv), pickAddr(r, inv), amountNear(r, 5, huge))
			}
		}
	}
}

func malformed(w *kit.Out, r *kit.Rand, n int) {
	w.Case("malformed")
	fixed := []string{
		"mint", "mint v0", "mint v0 1 2", "mint v5 1", "mint x3 1", "mint V0 1", "mint v 1", "mint v00 1", "mint 0 1",
		"mint v0 9223372036854775808", "mint v0 -9223372036854775809", "mint v0 +1", "mint v0 1e3", "mint v0 0x10",
		"mint v0 00000000000000000001", "mint v0 -0", "mint v0 007", "mint v0 -", "mint v0 1.0", "mint v0 ١",
		"MINT v0 1", "foo v0 1", "xfer v0 v1", "xfer v0 1", "xfrom v0 v1 v2", "xfrom v0 v1 5", "appr v0 v1 v2 5",
		"spend v0 5", "burn 5 v0", "txfrom v0 v1 5", "rxfer 5", "rxfer v0 v1 5", "rxfrom v0 5", "rappr v1 v2 3",
		"mint v0 5", "xfer v0 v1 2", "dump", "ts",
	}
	for _, l := range fixed {
		w.Op("%s", l)
	}
	toks := []string{"mint", "burn", "xfer", "appr", "xfrom", "spend", "txfer", "rxfer", "v0", "v1", "v4", "v5", "x0", "x2", "x3", "vv", "", "1", "-1", "5", "99999999999999999999", "9223372036854775807", "-9223372036854775808", "a", "v0v1", "1-"}
	for i := 0; i < n; i++ {
		k := r.Range(1, 6)
		line := ""
		for j := 0; j < k; j++ {
			if j > 0 {
				line += " "
			}
			line += kit.Pick(r, toks)
		}
		w.Op("%s", line)
	}
}

func gen(w *kit.Out, r *kit.Rand, tier string) {
	boundary(w)
	nCases, nOps, nMal := 80, 25, 120
	if tier == "thorough" {
		nCases, nOps, nMal = 320, 45, 1000
	}
	rr := r.Fork()
	for i := 0; i < nCases; i++ {
		huge := i%3 == 1
		ops := nOps
		if i%10 == 9 {
			ops = nOps * 3
		}
		randomCase(w, rr, fmt.Sprintf("r%d", i), ops, huge)
	}
	malformed(w, r.Fork(), nMal)
}
