// Harness for C51: GRC20 tokens (examples/gno.land/p/demo/tokens/grc20) conserve
// supply and honour allowances.
//
// The REAL .gno package runs inside the GnoVM in-process (gnoverif/gnorun): one
// store per process, grc20 imported once from /repo/examples, and a small fixed
// Gno package (gnoSrc below, loaded at the realm path gno.land/r/verif/c51 so
// that `cur realm` exists for grc20.NewToken and the Teller methods) that holds
// the *Token / *PrivateLedger under test.  Every op line is ONE Machine.Eval of
// a call into that package; the Gno side performs the ledger call (recovering a
// Gno panic so that the state AFTER the panic is still observable), classifies
// the returned error by identity (grc20.ErrXxx), and dumps the whole observable
// state through the token's query methods only: TotalSupply, KnownAccounts,
// BalanceOf for every table address, Allowance for every ordered pair.
//
// address table (tokens of the line protocol):
//
//	v0..v3  four distinct valid addresses (bech32, prefix g, 20 bytes)
//	v4      v0 in UPPER case: IsValid() is true, but it is a different string,
//	        hence a different account and a different allowance key
//	x0 ""   x1 v1 with a damaged checksum   x2 valid bech32 with another prefix
//	(the ledger only ever asks IsValid(); further invalid shapes — garbage, a
//	32-byte payload, mixed case — are checked once at start-up to be invalid too)
//
// op lines (N: optional '-', 1..19 digits, inside int64):
//
//	mint A N | burn A N | xfer F T N | appr O S N | xfrom O S T N | spend O S N
//	txfer C T N | tappr C S N | txfrom C O T N     through led.ImpersonateTeller(C)
//	rxfer T N | rappr S N | rxfrom O T N           through tok.ReadonlyTeller()
//
// canonical output: `<res> ts=<supply> n=<KnownAccounts> b=<A:bal,…|-> a=<O>S:allow,…|->`
// (non-zero entries only, table order), res ∈ ok | err:addr | err:amount | err:self |
// err:balance | err:allowance | err:mintoverflow | err:readonly | panic:overflow.
// Lines longer than 240 chars are clipped exactly like Drive/C51.lean `clip`.
//
// Oracle (independent of the Lean model; math/big over the dumped numbers): the
// property statement, literally, on the transition prev-dump → op → dump:
//
//	supply-sum         TotalSupply() != Σ BalanceOf over the table (every op)
//	fail-mutates       the call did not return nil (error or panic) and ANY of
//	                   supply / KnownAccounts / a balance / an allowance changed
//	transfer-conserve  a successful Transfer/TransferFrom changed the supply or Σ balances
//	allowance-exceeded a successful TransferFrom took more from the owner (or gave
//	                   more to the recipient) than Allowance(owner, spender) was before
//	allowance-not-decreased  … or did not lower that allowance by exactly the amount moved
//	                   (same two checks for a successful SpendAllowance w.r.t. its amount)
package main

import (
	"fmt"
	"math/big"
	"os"
	"strconv"
	"strings"

	gno "github.com/gnolang/gno/gnovm/pkg/gnolang"
	"github.com/gnolang/gno/tm2/pkg/bech32"
	"github.com/gnolang/gno/tm2/pkg/crypto"

	"gnoverif/gnorun"
	"gnoverif/kit"
)

const (
	nValid   = 5
	nInvalid = 3
)

// ---------------------------------------------------------------- address table

func mkTable() []string {
	var t []string
	for i := 0; i < 4; i++ {
		t = append(t, crypto.AddressFromPreimage([]byte(fmt.Sprintf("c51-account-%d", i))).String())
	}
	t = append(t, strings.ToUpper(t[0])) // v4
	// invalid ones
	bad := t[1]
	last := bad[len(bad)-1]
	repl := byte('q')
	if last == 'q' {
		repl = 'p'
	}
	other, err := bech32.Encode("cosmos", crypto.AddressFromPreimage([]byte("c51-other")).Bytes())
	if err != nil {
		panic(err)
	}
	long, err := bech32.Encode("g", make([]byte, 32))
	if err != nil {
		panic(err)
	}
	mixed := t[0][:2] + strings.ToUpper(t[0][2:20]) + t[0][20:]
	t = append(t,
		"",                            // x0
		bad[:len(bad)-1]+string(repl), // x1
		other,                         // x2
	)
	moreInvalid = []string{"g1xyz", long, mixed, t[0][:len(t[0])-1], t[0] + "q", " " + t[0], "g", "1"}
	return t
}

// further strings that must NOT be valid addresses (checked once at start-up)
var moreInvalid []string

var table = mkTable()

func addrName(i int) string {
	if i < nValid {
		return "v" + strconv.Itoa(i)
	}
	return "x" + strconv.Itoa(i-nValid)
}

// ---------------------------------------------------------------- the Gno side

func gnoSource() string {
	var q []string
	for _, a := range table {
		q = append(q, strconv.Quote(a))
	}
	return strings.Replace(gnoSrc, "@TABLE@", strings.Join(q, ", "), 1)
}

const gnoSrc = `package c51

import (
	"strconv"

	"gno.land/p/demo/tokens/grc20"
)

var tbl = []string{@TABLE@}

const nValid = 5

var tok *grc20.Token
var led *grc20.PrivateLedger

func reset(cur realm) string {
	tok, led = grc20.NewToken("Verif", "VRF", 0, 0, cur)
	return dump()
}

func ad(i int) address { return address(tbl[i]) }

func nm(i int) string {
	if i < nValid {
		return "v" + strconv.Itoa(i)
	}
	return "x" + strconv.Itoa(i-nValid)
}

func isValid(i int) bool { return ad(i).IsValid() }

func isValidStr(s string) bool { return address(s).IsValid() }

func cls(err error) string {
	if err == nil {
		return "ok"
	}
	if err == grc20.ErrInvalidAddress {
		return "err:addr"
	}
	if err == grc20.ErrInvalidAmount {
		return "err:amount"
	}
	if err == grc20.ErrCannotTransferToSelf {
		return "err:self"
	}
	if err == grc20.ErrInsufficientBalance {
		return "err:balance"
	}
	if err == grc20.ErrInsufficientAllowance {
		return "err:allowance"
	}
	if err == grc20.ErrMintOverflow {
		return "err:mintoverflow"
	}
	if err == grc20.ErrReadonly {
		return "err:readonly"
	}
	if err == grc20.ErrSpoofedRealm {
		return "err:spoofed"
	}
	return "err:other"
}

func pcls(r any) string {
	s := ""
	switch v := r.(type) {
	case string:
		s = v
	case error:
		s = v.Error()
	}
	if s == "addition overflow" || s == "subtraction overflow" {
		return "panic:overflow"
	}
	return "panic:other"
}

func dump() string {
	b := ""
	for i := range tbl {
		v := tok.BalanceOf(ad(i))
		if v != 0 {
			if b != "" {
				b += ","
			}
			b += nm(i) + ":" + strconv.FormatInt(v, 10)
		}
	}
	if b == "" {
		b = "-"
	}
	a := ""
	for i := range tbl {
		for j := range tbl {
			v := tok.Allowance(ad(i), ad(j))
			if v != 0 {
				if a != "" {
					a += ","
				}
				a += nm(i) + ">" + nm(j) + ":" + strconv.FormatInt(v, 10)
			}
		}
	}
	if a == "" {
		a = "-"
	}
	return "ts=" + strconv.FormatInt(tok.TotalSupply(), 10) + " n=" + strconv.Itoa(tok.KnownAccounts()) + " b=" + b + " a=" + a
}

func opMint(a int, n int64) (res string) {
	defer func() {
		if r := recover(); r != nil {
			res = pcls(r) + " " + dump()
		}
	}()
	return cls(led.Mint(ad(a), n)) + " " + dump()
}

func opBurn(a int, n int64) (res string) {
	defer func() {
		if r := recover(); r != nil {
			res = pcls(r) + " " + dump()
		}
	}()
	return cls(led.Burn(ad(a), n)) + " " + dump()
}

func opXfer(f, t int, n int64) (res string) {
	defer func() {
		if r := recover(); r != nil {
			res = pcls(r) + " " + dump()
		}
	}()
	return cls(led.Transfer(ad(f), ad(t), n)) + " " + dump()
}

func opAppr(o, s int, n int64) (res string) {
	defer func() {
		if r := recover(); r != nil {
			res = pcls(r) + " " + dump()
		}
	}()
	return cls(led.Approve(ad(o), ad(s), n)) + " " + dump()
}

func opXfrom(o, s, t int, n int64) (res string) {
	defer func() {
		if r := recover(); r != nil {
			res = pcls(r) + " " + dump()
		}
	}()
	return cls(led.TransferFrom(ad(o), ad(s), ad(t), n)) + " " + dump()
}

func opSpend(o, s int, n int64) (res string) {
	defer func() {
		if r := recover(); r != nil {
			res = pcls(r) + " " + dump()
		}
	}()
	return cls(led.SpendAllowance(ad(o), ad(s), n)) + " " + dump()
}

// mode 0: led.ImpersonateTeller(c); mode 1: tok.ReadonlyTeller()
func teller(mode, c int) grc20.Teller {
	if mode == 1 {
		return tok.ReadonlyTeller()
	}
	return led.ImpersonateTeller(ad(c))
}

func opTXfer(cur realm, mode, c, t int, n int64) (res string) {
	defer func() {
		if r := recover(); r != nil {
			res = pcls(r) + " " + dump()
		}
	}()
	return cls(teller(mode, c).Transfer(0, cur, ad(t), n)) + " " + dump()
}

func opTAppr(cur realm, mode, c, s int, n int64) (res string) {
	defer func() {
		if r := recover(); r != nil {
			res = pcls(r) + " " + dump()
		}
	}()
	return cls(teller(mode, c).Approve(0, cur, ad(s), n)) + " " + dump()
}

func opTXfrom(cur realm, mode, c, o, t int, n int64) (res string) {
	defer func() {
		if r := recover(); r != nil {
			res = pcls(r) + " " + dump()
		}
	}()
	return cls(teller(mode, c).TransferFrom(0, cur, ad(o), ad(t), n)) + " " + dump()
}
`

// ---------------------------------------------------------------- VM plumbing

var (
	runner *gnorun.Runner
	pkg    *gnorun.Pkg
)

func vm() *gnorun.Pkg {
	if pkg == nil {
		root := os.Getenv("VERIF_REPO") // same override the runner honours
		if root == "" {
			root = "/repo"
		}
		runner = gnorun.New(root)
		p, perr := runner.Load("c51", "gno.land/r/verif/c51", map[string]string{"c51.gno": gnoSource()})
		if perr != nil {
			panic("cannot load gno driver package: " + perr.String())
		}
		pkg = p
		// the table convention (v* valid, x* invalid) is checked against the real IsValid once
		for i := range table {
			res := p.Call("isValid", i)
			if res.Panic != nil {
				panic("isValid: " + res.Panic.String())
			}
			if res.Bool(0) != (i < nValid) {
				tableBroken = fmt.Sprintf("address.IsValid() of table entry %s (%q) is %v", addrName(i), table[i], res.Bool(0))
			}
		}
		for _, a := range moreInvalid {
			res := p.Call("isValidStr", a)
			if res.Panic != nil {
				panic("isValidStr: " + res.Panic.String())
			}
			if res.Bool(0) {
				tableBroken = fmt.Sprintf("address.IsValid() of %q is true", a)
			}
		}
	}
	return pkg
}

// set when IsValid disagrees with the table convention: every op then answers
// with this text, which the model cannot match (broken tie, not a silent pass)
var tableBroken string

func curArg() gno.Expr { return gno.Nx(".cur") }

// ---------------------------------------------------------------- observed state

type obs struct {
	ts  *big.Int
	n   int
	bal map[string]*big.Int
	alw map[string]*big.Int
}

func parseDump(s string) (*obs, error) {
	f := strings.Split(s, " ")
	if len(f) != 4 || !strings.HasPrefix(f[0], "ts=") || !strings.HasPrefix(f[1], "n=") ||
		!strings.HasPrefix(f[2], "b=") || !strings.HasPrefix(f[3], "a=") {
		return nil, fmt.Errorf("malformed dump %q", s)
	}
	o := &obs{bal: map[string]*big.Int{}, alw: map[string]*big.Int{}}
	var ok bool
	if o.ts, ok = new(big.Int).SetString(f[0][3:], 10); !ok {
		return nil, fmt.Errorf("malformed supply in %q", s)
	}
	n, err := strconv.Atoi(f[1][2:])
	if err != nil {
		return nil, err
	}
	o.n = n
	fill := func(list string, dst map[string]*big.Int) error {
		if list == "-" {
			return nil
		}
		for _, e := range strings.Split(list, ",") {
			i := strings.LastIndexByte(e, ':')
			if i < 0 {
				return fmt.Errorf("malformed entry %q", e)
			}
			v, ok := new(big.Int).SetString(e[i+1:], 10)
			if !ok {
				return fmt.Errorf("malformed number in %q", e)
			}
			dst[e[:i]] = v
		}
		return nil
	}
	if err := fill(f[2][2:], o.bal); err != nil {
		return nil, err
	}
	if err := fill(f[3][2:], o.alw); err != nil {
		return nil, err
	}
	return o, nil
}

func get(m map[string]*big.Int, k string) *big.Int {
	if v, ok := m[k]; ok {
		return v
	}
	return new(big.Int)
}

func sum(m map[string]*big.Int) *big.Int {
	s := new(big.Int)
	for _, v := range m {
		s.Add(s, v)
	}
	return s
}

func sameMap(a, b map[string]*big.Int) (string, bool) {
	for k, v := range a {
		if get(b, k).Cmp(v) != 0 {
			return k, false
		}
	}
	for k, v := range b {
		if get(a, k).Cmp(v) != 0 {
			return k, false
		}
	}
	return "", true
}

var prev *obs

// judge evaluates the property statement on one transition.
func judge(t []string, res string, p, c *obs) string {
	if s := sum(c.bal); s.Cmp(c.ts) != 0 {
		return fmt.Sprintf("VIOL:supply-sum TotalSupply=%s but the balances add up to %s", c.ts, s)
	}
	if p == nil {
		return "ok"
	}
	if res != "ok" {
		switch {
		case p.ts.Cmp(c.ts) != 0:
			return fmt.Sprintf("VIOL:fail-mutates %s returned %s but TotalSupply went %s -> %s", t[0], res, p.ts, c.ts)
		case p.n != c.n:
			return fmt.Sprintf("VIOL:fail-mutates %s returned %s but KnownAccounts went %d -> %d", t[0], res, p.n, c.n)
		}
		if k, same := sameMap(p.bal, c.bal); !same {
			return fmt.Sprintf("VIOL:fail-mutates %s returned %s but BalanceOf(%s) went %s -> %s", t[0], res, k, get(p.bal, k), get(c.bal, k))
		}
		if k, same := sameMap(p.alw, c.alw); !same {
			return fmt.Sprintf("VIOL:fail-mutates %s returned %s but Allowance(%s) went %s -> %s", t[0], res, k, get(p.alw, k), get(c.alw, k))
		}
		return "ok"
	}
	// successful call
	var owner, spender, to string
	isTransfer, viaAllowance := false, false
	switch t[0] {
	case "xfer", "txfer":
		isTransfer = true
	case "xfrom":
		isTransfer, viaAllowance = true, true
		owner, spender, to = t[1], t[2], t[3]
	case "txfrom":
		isTransfer, viaAllowance = true, true
		spender, owner, to = t[1], t[2], t[3]
	}
	if isTransfer {
		if p.ts.Cmp(c.ts) != 0 {
			return fmt.Sprintf("VIOL:transfer-conserve %s changed TotalSupply %s -> %s", t[0], p.ts, c.ts)
		}
		if a, b := sum(p.bal), sum(c.bal); a.Cmp(b) != 0 {
			return fmt.Sprintf("VIOL:transfer-conserve %s changed the sum of balances %s -> %s", t[0], a, b)
		}
	}
	if viaAllowance {
		key := owner + ">" + spender
		allowed := get(p.alw, key)
		left := new(big.Int).Sub(get(p.bal, owner), get(c.bal, owner))
		arrived := new(big.Int).Sub(get(c.bal, to), get(p.bal, to))
		if left.Cmp(allowed) > 0 || arrived.Cmp(allowed) > 0 {
			return fmt.Sprintf("VIOL:allowance-exceeded %s moved %s out of %s (%s into %s) with Allowance(%s)=%s", t[0], left, owner, arrived, to, key, allowed)
		}
		if want := new(big.Int).Sub(allowed, left); get(c.alw, key).Cmp(want) != 0 {
			return fmt.Sprintf("VIOL:allowance-not-decreased %s moved %s, Allowance(%s) went %s -> %s, want %s", t[0], left, key, allowed, get(c.alw, key), want)
		}
	}
	if t[0] == "spend" {
		key := t[1] + ">" + t[2]
		amount, _ := new(big.Int).SetString(t[3], 10)
		allowed := get(p.alw, key)
		if amount.Cmp(allowed) > 0 {
			return fmt.Sprintf("VIOL:allowance-exceeded spend of %s accepted with Allowance(%s)=%s", amount, key, allowed)
		}
		if want := new(big.Int).Sub(allowed, amount); get(c.alw, key).Cmp(want) != 0 {
			return fmt.Sprintf("VIOL:allowance-not-decreased spend of %s, Allowance(%s) went %s -> %s", amount, key, allowed, get(c.alw, key))
		}
	}
	return "ok"
}

// ---------------------------------------------------------------- parsing (strict, mirrors the Lean driver)

func allDigits(s string) bool {
	for i := 0; i < len(s); i++ {
		if s[i] < '0' || s[i] > '9' {
			return false
		}
	}
	return true
}

func parseI64(s string) (int64, bool) {
	d := strings.TrimPrefix(s, "-")
	if d == "" || len(d) > 19 || !allDigits(d) {
		return 0, false
	}
	v, err := strconv.ParseInt(s, 10, 64)
	if err != nil {
		return 0, false
	}
	return v, true
}

func parseAddr(s string) (int, bool) {
	if len(s) != 2 || s[1] < '0' || s[1] > '9' {
		return 0, false
	}
	d := int(s[1] - '0')
	switch {
	case s[0] == 'v' && d < nValid:
		return d, true
	case s[0] == 'x' && d < nInvalid:
		return nValid + d, true
	}
	return 0, false
}

// ---------------------------------------------------------------- exec

const bad = "err:badop"

func reset() {
	res := vm().Call("reset", curArg())
	if res.Panic != nil {
		panic("reset: " + res.Panic.String())
	}
	o, err := parseDump(res.Str(0))
	if err != nil {
		panic("reset: " + err.Error())
	}
	prev = o
}

// shape of every op: name → (number of address args, Gno function, leading fixed args)
type opShape struct {
	addrs   int
	fn      string
	withCur bool
	mode    int // teller mode (only with withCur)
	padC    bool // readonly teller: no caller token on the line, pass 0
}

var shapes = map[string]opShape{
	"mint":   {1, "opMint", false, 0, false},
	"burn":   {1, "opBurn", false, 0, false},
	"xfer":   {2, "opXfer", false, 0, false},
	"appr":   {2, "opAppr", false, 0, false},
	"xfrom":  {3, "opXfrom", false, 0, false},
	"spend":  {2, "opSpend", false, 0, false},
	"txfer":  {2, "opTXfer", true, 0, false},
	"tappr":  {2, "opTAppr", true, 0, false},
	"txfrom": {3, "opTXfrom", true, 0, false},
	"rxfer":  {1, "opTXfer", true, 1, true},
	"rappr":  {1, "opTAppr", true, 1, true},
	"rxfrom": {2, "opTXfrom", true, 1, true},
}

func exec(t []string) (string, string) {
	if len(t) == 0 {
		return bad, "-"
	}
	sh, ok := shapes[t[0]]
	if !ok || len(t) != sh.addrs+2 {
		return bad, "-"
	}
	var args []any
	if sh.withCur {
		args = append(args, curArg(), sh.mode)
		if sh.padC {
			args = append(args, 0)
		}
	}
	for i := 0; i < sh.addrs; i++ {
		a, ok := parseAddr(t[1+i])
		if !ok {
			return bad, "-"
		}
		args = append(args, a)
	}
	n, ok := parseI64(t[len(t)-1])
	if !ok {
		return bad, "-"
	}
	args = append(args, n)
	p := vm()
	if tableBroken != "" {
		return "broken-table " + tableBroken, "-"
	}
	r := p.Call(sh.fn, args...)
	var out string
	if r.Panic != nil {
		// a panic the Gno side could not recover (VM-level): observe the state separately
		d := p.Call("dump")
		if d.Panic != nil {
			return "panic:vm " + r.Panic.String(), "VIOL:vm-panic " + r.Panic.String()
		}
		out = "panic:vm " + d.Str(0)
	} else {
		out = r.Str(0)
	}
	sp := strings.IndexByte(out, ' ')
	if sp < 0 {
		return out, "VIOL:harness malformed answer"
	}
	res, dump := out[:sp], out[sp+1:]
	c, err := parseDump(dump)
	if err != nil {
		return out, "VIOL:harness " + err.Error()
	}
	verdict := judge(t, res, prev, c)
	prev = c
	return out, verdict
}

// clip mirrors Drive/C51.lean `clip`: the kit cuts lines at 300 bytes, so long
// outputs are replaced by length + FNV-1a 64 + a 160-char prefix.
func clip(s string) string {
	if len(s) <= 240 {
		return s
	}
	h := uint64(14695981039346656037)
	for i := 0; i < len(s); i++ {
		h = (h ^ uint64(s[i])) * 1099511628211
	}
	return fmt.Sprintf("#%d:%d:%s", len(s), h, s[:160])
}

func execClip(t []string) (string, string) {
	out, verdict := exec(t)
	return clip(out), verdict
}

func main() {
	kit.Main(&kit.Harness{Gen: gen, Reset: reset, Exec: execClip})
}
