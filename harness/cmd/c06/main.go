// Harness for C06 — the persisted object graph stays consistent after every
// transaction.
//
// REAL code under test: the GnoVM realm finalizer (gnovm/pkg/gnolang/realm.go,
// ownership.go, store.go) driven through the real vm.VMKeeper over memdb
// (harness/c06env): one op line = one transaction (MsgCall / MsgAddPackage /
// MsgRun), committed iff the message succeeded.
//
// op lines
//
//	tx <a|b> <script>      MsgCall Exec(script) on the heap-machine realm A or B
//	                       (harness/c06env/realms.go).  impl-output: `ok <dump>`
//	                       (abstract heap dump, see dump.go) or `err`.
//	prog <id> <expect>     MsgAddPackage of generated realm program <id> from the
//	                       program table of progs.go (exported vars: pointers,
//	                       slices, maps, structs, closures, interfaces);
//	                       impl-output `ok` / `err` (expect ∈ ok|err is echoed by the model).
//	call <id> <fn> <expect> MsgCall of function <fn> of program <id>.
//	run <id> <script> <expect> MsgRun of generated script <script> (values built in the caller's
//	                       ephemeral realm and handed to program <id>: adoption of foreign-stamped objects).
//
// After EVERY op the oracle (c06env.CheckGraph) re-derives the statement from
// the raw `oid:` keys of the base store; it shares nothing with the Lean model.
package main

import (
	"os"
	"strings"

	"gnoverif/c06env"
	"gnoverif/kit"
)

func verdict(e *c06env.Env, s *c06env.Snap) string {
	if v := c06env.CheckGraphVerdict(s); v != "" {
		if os.Getenv("C06_DEBUG") != "" {
			os.Stderr.WriteString(v + "\n")
			c06env.DebugDump(s, func(l string) {
				if strings.Contains(l, v[len(v)-12:len(v)-6]) {
					os.Stderr.WriteString(l + "\n")
				}
			})
		}
		return v
	}
	return "ok"
}

func firstLine(err error) string {
	msg := err.Error()
	if i := strings.Index(msg, "\n"); i > 0 {
		msg = msg[:i]
	}
	return msg
}

func ready() *c06env.Env {
	e := c06env.Get()
	if !e.DeployBase(c06env.PathA, c06env.BodyA) || !e.DeployBase(c06env.PathB, c06env.BodyB) {
		panic("cannot deploy the heap-machine realms")
	}
	return e
}

func validScript(s string) bool {
	if len(s) == 0 || len(s) > 600 {
		return false
	}
	for i := 0; i < len(s); i++ {
		if s[i] <= ' ' || s[i] > '~' {
			return false
		}
	}
	return true
}

func exec(toks []string) (string, string) {
	if len(toks) == 0 {
		return "err:badop", "-"
	}
	switch toks[0] {
	case "tx":
		if len(toks) != 3 || (toks[1] != "a" && toks[1] != "b") || !validScript(toks[2]) {
			return "err:badop", "-"
		}
		e := ready()
		path := c06env.PathA
		if toks[1] == "b" {
			path = c06env.PathB
		}
		_, err := e.Call(e.Callers[0], path, "Exec", []string{toks[2]}, 0)
		snap := e.Snapshot()
		if err != nil {
			if c06env.Trace() {
				os.Stderr.WriteString("  tx err: " + firstLine(err) + "\n")
			}
			return "err", verdict(e, snap)
		}
		lay := layouts(e)
		full := abstractDump(snap, lay)
		if os.Getenv("C06_FULL") != "" {
			os.Stderr.WriteString("  " + full + "\n")
		}
		// the oracle's verdict class is part of the output: the model evaluates
		// its own statement predicate (Model/C06Inv.lean) on its own state, so
		// the Lean-side statement is compared with the oracle on every state.
		// (the class printed here is the FIRST failing clause in the canonical order the model
		// uses too; the oracle column prefers a failure that is not one of the known owner findings)
		v := verdict(e, snap)
		cls := "ok"
		if first := c06env.CheckGraph(snap); strings.HasPrefix(first, "VIOL:") {
			cls = strings.SplitN(first[5:], " ", 2)[0]
		}
		return "ok " + clip(full) + " inv=" + cls, v
	case "prog":
		if len(toks) != 3 {
			return "err:badop", "-"
		}
		return opProg(toks[1], toks[2])
	case "call":
		if len(toks) != 4 {
			return "err:badop", "-"
		}
		return opCall(toks[1], toks[2], toks[3])
	case "run":
		if len(toks) != 4 {
			return "err:badop", "-"
		}
		return opRun(toks[1], toks[2], toks[3])
	}
	return "err:badop", "-"
}

func reset() {
	c06env.Get().NewCase()
	progReset()
}

func main() {
	kit.Main(&kit.Harness{Gen: gen, Reset: reset, Exec: exec})
}
