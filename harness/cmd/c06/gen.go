package main

import (
	"fmt"
	"strings"

	"gnoverif/kit"
)

// ---------------------------------------------------------------- shadow semantics
//
// The generator keeps a plain pointer-graph simulation of the heap-machine
// language (NOT of ref-counting) only to know which registers are nil, so that
// most generated scripts are valid.

type gnode struct{ l, r int } // 0 = nil

type shadow struct {
	nodes []gnode // index 0 unused
	ra    [4]int
	rb    [4]int
}

func newShadow() *shadow { return &shadow{nodes: make([]gnode, 1)} }

func (s *shadow) clone() *shadow {
	c := *s
	c.nodes = append([]gnode(nil), s.nodes...)
	return &c
}

// step executes one instruction; ok=false means the real program panics.
func (s *shadow) step(realm byte, t *[8]int, op byte, a, b int) bool {
	roots := &s.ra
	if realm == 'b' {
		roots = &s.rb
	}
	switch op {
	case 'N':
		s.nodes = append(s.nodes, gnode{})
		t[a] = len(s.nodes) - 1
	case 'M':
		t[a] = t[b]
	case 'Z':
		t[a] = 0
	case 'G':
		t[a] = roots[b&3]
	case 'P':
		roots[a&3] = t[b]
	case 'L':
		if t[b] == 0 {
			return false
		}
		t[a] = s.nodes[t[b]].l
	case 'R':
		if t[b] == 0 {
			return false
		}
		t[a] = s.nodes[t[b]].r
	case 'l':
		if t[a] == 0 {
			return false
		}
		s.nodes[t[a]].l = t[b]
	case 'r':
		if realm == 'b' || t[a] == 0 {
			return false
		}
		s.nodes[t[a]].r = t[b]
	case 'V':
		if realm == 'b' || t[a] == 0 {
			return false
		}
	case 'X':
		if realm != 'b' {
			return false
		}
		t[a] = s.ra[b&3]
	case 'Y':
		if realm != 'b' {
			return false
		}
		s.ra[a&3] = t[b]
	default:
		return false
	}
	return true
}

func (s *shadow) run(realm byte, script string) bool {
	c := s.clone()
	var t [8]int
	for i := 0; i+2 < len(script); i += 3 {
		a, b := int(script[i+1]-'0')&7, int(script[i+2]-'0')&7
		if !c.step(realm, &t, script[i], a, b) {
			return false
		}
	}
	*s = *c
	return true
}

// ---------------------------------------------------------------- generator

func ins(op byte, a, b int) string { return string([]byte{op, byte('0' + a), byte('0' + b)}) }

// randScript builds a mostly valid script against the shadow state.
func randScript(r *kit.Rand, s *shadow, realm byte, n int) string {
	c := s.clone()
	var t [8]int
	var sb strings.Builder
	opsA := "NNNMZGGGPPPLLRRlllrrrV"
	opsB := "NNMZGGPPPLRlllXXYY"
	for i := 0; i < n; i++ {
		for try := 0; try < 8; try++ {
			var op byte
			if realm == 'a' {
				op = opsA[r.Intn(len(opsA))]
			} else {
				op = opsB[r.Intn(len(opsB))]
			}
			a, b := r.Intn(4), r.Intn(4)
			if r.Chance(15) {
				a, b = r.Intn(8), r.Intn(8)
			}
			// prefer operands that make the instruction meaningful
			nonNil := func() (int, bool) {
				var c []int
				for k := 0; k < 8; k++ {
					if t[k] != 0 {
						c = append(c, k)
					}
				}
				if len(c) == 0 {
					return 0, false
				}
				return c[r.Intn(len(c))], true
			}
			lenient := r.Chance(6) // sometimes let a nil dereference through
			switch op {
			case 'L', 'R':
				if k, ok := nonNil(); ok {
					b = k
				} else if !lenient {
					continue
				}
			case 'l', 'r', 'V':
				if k, ok := nonNil(); ok {
					a = k
				} else if !lenient {
					continue
				}
				if op != 'V' && r.Chance(70) {
					if k, ok := nonNil(); ok {
						b = k
					}
				}
			case 'P', 'Y':
				if r.Chance(75) {
					if k, ok := nonNil(); ok {
						b = k
					}
				}
			}
			if !c.step(realm, &t, op, a, b) && !lenient {
				// undo is not needed: a failing step does not mutate
				continue
			}
			sb.WriteString(ins(op, a, b))
			break
		}
	}
	out := sb.String()
	if out == "" {
		out = "Z0_"
	}
	return out
}

// boundary table: each entry is one case (a list of `realm script` lines).
var boundary = [][]string{
	{"a N0_P00"},                         // attach one
	{"a N0_N1_l01P00"},                   // attach a chain built off-store
	{"a N0_P00", "a Z0_P00"},             // detach: delete
	{"a N0_P00P10"},                      // share a new object: escapes at creation
	{"a N0_P00", "a G00P10"},             // share a real object: escapes later
	{"a N0_P00P10", "a Z0_P10"},          // escaped, then singly referenced again
	{"a N0_P00", "a G00Z1_P01P00"},       // detach and re-attach in one transaction
	{"a N0_P00Z1_P01"},                   // attach and detach a new object in one transaction
	{"a N0_P00N1_P11", "a N2_G00l02", "a G00G11L20l12Z3_l03"}, // MOVE between persisted parents (finding)
	{"a N0_P00N1_P11", "a N2_G00l02", "a G00G11L20Z3_l03l12"}, // the same, detach first
	{"a N0_N1_l01l10P00", "a Z0_P00"},    // two-cycle, then dropped: leaks
	{"a N0_l00P00", "a Z0_P00"},          // self loop
	{"a N0_N1_N2_l01r02l12P00", "a Z0_P00"}, // diamond among new objects, then delete all
	{"a N0_N1_N2_N3_l01l12l23P00", "a G00L10Z2_l12", "a Z0_P00"}, // chain: cut in the middle, drop
	{"a N0_P00", "a G00V0_", "a G00V0_V0_"}, // plain field writes
	{"a L10"},                            // nil dereference: transaction fails
	{"a N0_P00", "a G00L10L21"},          // nil dereference after a successful tx
	{"a N0_N1_l01P00", "a G00L10N2_l21Z3_l03P12"}, // real child re-parented under a NEW parent in one tx
	{"a N0_N1_l01P00P11", "a Z0_P00", "a Z0_P10"}, // shared subtree survives one parent
	{"a N0_N1_N2_l01r01l12P00", "a G00Z1_l01", "a G00Z1_r01"}, // doubly referenced child, drop one by one
	{"a N0_P00", "a N1_G00l01l10", "a Z0_P00"}, // cycle through a real object
	{"a Q00"},                            // bad opcode
	{"a N0_P0"},                          // trailing partial instruction is ignored
	{"a N8_P98"},                         // operand digits are masked
	{"b N0_P00"},                         // cross-realm attach: A's object under B's root
	{"b N0_P00", "b Z0_P00"},             // … and delete it from B
	{"b N0_N1_l01P00", "b G00L10P11", "b Z0_P00"}, // B shares an A-subtree
	{"a N0_P00", "b X00P00", "a Z0_P00", "b Z0_P00"}, // object of A shared into B, dropped by A then B
	{"b N0_Y00", "a G00P10", "b X00P00", "a Z0_P00Z0_P10"}, // B stores into A's roots
	{"b N0_N1_Y00Y11", "b X00X11l01", "a G00L10P21"},          // link inside A on B's behalf
	{"b N0_P00", "a N0_P00", "b G00X10l01", "b Z0_P00"}, // B's object points to A's root object
	{"b r00"},                            // opcode of A only
	// objects stamped by A stored under B, replaced by same-size ones, re-minted, deleted: A's id
	// counter must be written back also when A's storage did not change
	{"b N0_P00", "b N0_P00", "b N0_P10", "b Z0_P10", "b G00P20", "b Z0_P00"},
	{"b N0_N1_P00P11", "b N0_N1_P11P00", "b N0_P20", "b N1_P31", "b Z0_P20Z0_P30", "b Z0_P00P10"},
	{"b N0_P00", "b N0_P00", "b N0_P00", "b N0_P10", "b G00P20", "b Z0_P10", "b Z0_P00", "b Z0_P20"},
}

func emitCase(w *kit.Out, id string, lines []string) {
	w.Case(id)
	for _, l := range lines {
		w.Op("tx %s", l)
	}
}

func gen(w *kit.Out, r *kit.Rand, tier string) {
	nRand, nProg := 60, 6
	if tier == "thorough" {
		nRand, nProg = 400, 40
	}
	for i, c := range boundary {
		emitCase(w, fmt.Sprintf("b%d", i), c)
	}
	// structured random histories on A, then on A and B
	rr := r.Fork()
	for i := 0; i < nRand; i++ {
		s := newShadow()
		w.Case(fmt.Sprintf("r%d", i))
		n := rr.Range(2, 9)
		for j := 0; j < n; j++ {
			realm := byte('a')
			if i%3 == 2 && rr.Chance(45) {
				realm = 'b'
			}
			sc := randScript(rr, s, realm, rr.Range(1, 9))
			s.run(realm, sc)
			w.Op("tx %c %s", realm, sc)
		}
	}
	// generated realm programs (oracle only)
	rp := r.Fork()
	for i := 0; i < nProg; i++ {
		seed := rp.U64() % 1000000000
		w.Case(fmt.Sprintf("p%d", i))
		w.Op("prog %d ok", seed)
		n := rp.Range(3, 10)
		for j := 0; j < n; j++ {
			if rp.Chance(35) {
				w.Op("run %d %d ok", seed, rp.U64()%1000000000)
			} else {
				w.Op("call %d %d ok", seed, rp.Intn(nFuncs))
			}
		}
	}
	// scripted shapes on a generated program: several finalizations of the realm in one transaction
	for i, sc := range [][]int{{1, 2}, {1, 3}, {1, 4}, {1, 5}, {6}, {1, 2, 1, 3}} {
		seed := 424200 + i
		w.Case(fmt.Sprintf("s%d", i))
		w.Op("prog %d ok", seed)
		for _, k := range sc {
			w.Op("run %d %d ok", seed, k)
		}
		w.Op("call %d 0 ok", seed)
	}
	// malformed stream
	rm := r.Fork()
	w.Case("m0")
	w.Op("tx")
	w.Op("tx c N0_P00")
	w.Op("tx a")
	w.Op("frob 1 2")
	w.Op("call 5 0 ok")
	w.Op("prog 12 err")
	w.Op("call 12 0 ok")
	w.Op("prog x ok")
	w.Op("run 5 1 ok")
	w.Op("run 12 x ok")
	w.Op("prog 7 maybe")
	for i := 0; i < 12; i++ {
		w.Case(fmt.Sprintf("m%d", i+1))
		n := rm.Range(1, 4)
		for j := 0; j < n; j++ {
			l := rm.Range(1, 14)
			b := make([]byte, l)
			for k := range b {
				b[k] = "NMZGPLRlrVXY0123456789_Q"[rm.Intn(24)]
			}
			w.Op("tx %c %s", "ab"[rm.Intn(2)], string(b))
		}
	}
}
