package main

import (
	"fmt"
	"strings"

	"gnoverif/c06env"

	gno "github.com/gnolang/gno/gnovm/pkg/gnolang"
)

// layout is what the dump needs to know about a heap-machine realm; it is
// read from the raw store right after deployment (not hard-coded), so the
// canonical names below do not depend on how many objects a deployment makes.
type layout struct {
	letter string
	pid    gno.PkgID
	base   uint64         // realm Time right after deployment
	block  gno.ObjectID   // the package block
	roots  []gno.ObjectID // heap items of the package-level root variables, in declaration order
}

var theLayouts []*layout

func layouts(e *c06env.Env) []*layout {
	if theLayouts != nil {
		return theLayouts
	}
	// read from the BASE store: the case layer may already hold transactions
	save, savec := e.CaseMS, e.CaseCtx
	e.NewCase()
	s := e.Snapshot()
	e.CaseMS, e.CaseCtx = save, savec
	for _, lp := range [][2]string{{"a", c06env.PathA}, {"b", c06env.PathB}} {
		pid := gno.PkgIDFromPkgPath(lp[1])
		l := &layout{letter: lp[0], pid: pid}
		pv := s.Objs[gno.ObjectID{PkgID: pid, NewTime: 1}]
		if pv == nil || len(pv.Refs) == 0 || s.Realms[pid] == nil {
			panic("heap-machine realm not deployed: " + lp[1])
		}
		l.base = s.Realms[pid].Time
		l.block = pv.Refs[0]
		for _, r := range s.Objs[l.block].Refs {
			if s.Objs[r] != nil && s.Objs[r].Kind == "H" {
				l.roots = append(l.roots, r)
			}
		}
		if len(l.roots) != 4 {
			panic(fmt.Sprintf("unexpected root layout of %s: %d heap items", lp[1], len(l.roots)))
		}
		theLayouts = append(theLayouts, l)
	}
	return theLayouts
}

// name is the canonical, deployment-independent name of an object id:
//
//	<r>.b      package block of realm r
//	<r>.r<i>   heap item of root variable i
//	<r><k>     the k-th object id minted for realm r after deployment
//	<r>#<n>    any other deployment-time object
func name(id gno.ObjectID, lay []*layout) string {
	if id.IsZero() {
		return "-"
	}
	for _, l := range lay {
		if id.PkgID != l.pid {
			continue
		}
		if id == l.block {
			return l.letter + ".b"
		}
		for i, r := range l.roots {
			if id == r {
				return fmt.Sprintf("%s.r%d", l.letter, i)
			}
		}
		if id.NewTime > l.base {
			return fmt.Sprintf("%s%d", l.letter, id.NewTime-l.base)
		}
		return fmt.Sprintf("%s#%d", l.letter, id.NewTime)
	}
	return "?" + c06env.Short(id)
}

// abstractDump lists, per realm (a then b), the root heap items and every
// object minted after deployment, in id order:
//
//	<name>=<kind><refcount><e|n>@<owner>><child>,<child>…
func abstractDump(s *c06env.Snap, lay []*layout) string {
	var parts []string
	one := func(id gno.ObjectID) {
		o := s.Objs[id]
		if o == nil {
			parts = append(parts, name(id, lay)+"=missing")
			return
		}
		esc := "n"
		if o.Info.IsEscaped {
			esc = "e"
		}
		var ch []string
		for _, r := range o.Refs {
			ch = append(ch, name(r, lay))
		}
		parts = append(parts, fmt.Sprintf("%s=%s%d%s@%s>%s", name(id, lay), o.Kind, o.Info.RefCount, esc,
			name(o.Info.OwnerID, lay), strings.Join(ch, ",")))
	}
	for _, l := range lay {
		for _, r := range l.roots {
			// a root variable in its resting state (nil pointer, singly
			// referenced by the package block) is not printed
			if o := s.Objs[r]; o != nil && len(o.Refs) == 0 && o.Info.RefCount == 1 && !o.Info.IsEscaped && o.Info.OwnerID == l.block {
				continue
			}
			one(r)
		}
		for _, id := range s.Order {
			if id.PkgID == l.pid && id.NewTime > l.base {
				one(id)
			}
		}
	}
	return strings.Join(parts, " ")
}

func fnv64(s string) uint64 {
	h := uint64(14695981039346656037)
	for i := 0; i < len(s); i++ {
		h ^= uint64(s[i])
		h *= 1099511628211
	}
	return h
}

// clip keeps an output line under the kit's 300-byte limit: long dumps are
// cut after 180 bytes and completed by the FNV-1a hash and length of the whole.
func clip(full string) string {
	if len(full) <= 230 {
		return full
	}
	return fmt.Sprintf("%s~%016x~%d", full[:180], fnv64(full), len(full))
}
