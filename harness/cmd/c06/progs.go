package main

import (
	"fmt"
	"os"
	"strconv"
	"strings"

	"gnoverif/c06env"
)

const nFuncs = c06env.NFuncs

// Programs are deployed in the case layer; the block-node cache of the keeper
// survives discarded case layers, so every deployment gets a fresh path.
var (
	progSerial int
	progPaths  = map[string]string{} // seed token -> path (this case)
)

func progReset() { progPaths = map[string]string{} }

func outcome(err error, expect string) string {
	if err != nil {
		if c06env.Trace() {
			fmt.Fprintf(os.Stderr, "  prog err: %+v\n", err)
		} else if expect == "ok" {
			fmt.Fprintf(os.Stderr, "  prog err: %s\n", firstLine(err))
		}
		return "err"
	}
	return "ok"
}

func opProg(seedTok, expect string) (string, string) {
	if expect != "ok" && expect != "err" {
		return "err:badop", "-"
	}
	if len(seedTok) == 0 || len(seedTok) > 18 || strings.Trim(seedTok, "0123456789") != "" {
		return "err:badop", "-"
	}
	seed, _ := strconv.ParseUint(seedTok, 10, 64)
	e := ready()
	if _, dup := progPaths[seedTok]; dup {
		return "err:badop", "-"
	}
	progSerial++
	name := fmt.Sprintf("g%07d", progSerial)
	path := "gno.land/r/c06/" + name
	body := c06env.GenProgram(seed, name)
	if expect == "err" {
		body += "\nfunc broken() { undefinedIdentifier() }\n"
	}
	if os.Getenv("C06_SRC") != "" {
		fmt.Fprintf(os.Stderr, "%s\n", body)
	}
	err := e.AddPackage(e.Callers[0], path, body, 0)
	if err == nil {
		progPaths[seedTok] = path
	}
	return outcome(err, expect), verdict(e, e.Snapshot())
}

func opCall(seedTok, fn, expect string) (string, string) {
	if expect != "ok" && expect != "err" {
		return "err:badop", "-"
	}
	e := ready()
	path, ok := progPaths[seedTok]
	if !ok || len(fn) != 1 || fn[0] < '0' || fn[0] >= '0'+nFuncs {
		// calling a program that is not deployed is a malformed script
		return "err:badop", "-"
	}
	_, err := e.Call(e.Callers[0], path, "T"+fn, nil, 0)
	return outcome(err, expect), verdict(e, e.Snapshot())
}

// opRun: MsgRun of a generated script against program <seed>.
func opRun(seedTok, scriptTok, expect string) (string, string) {
	if expect != "ok" && expect != "err" {
		return "err:badop", "-"
	}
	if len(scriptTok) == 0 || len(scriptTok) > 18 || strings.Trim(scriptTok, "0123456789") != "" {
		return "err:badop", "-"
	}
	e := ready()
	path, ok := progPaths[seedTok]
	if !ok {
		return "err:badop", "-"
	}
	sseed, _ := strconv.ParseUint(scriptTok, 10, 64)
	src := c06env.GenRunScript(sseed, path)
	if os.Getenv("C06_SRC") != "" {
		fmt.Fprintf(os.Stderr, "%s\n", src)
	}
	_, err := e.Run(e.Callers[0], src, 0)
	return outcome(err, expect), verdict(e, e.Snapshot())
}
