// Harness for C49: the concurrent list tm2/pkg/clist (CList/CElement) is
// linearizable and never loses wake-ups.
//
// Part 1 (correspondence): a REAL clist.CList is driven SINGLE-threaded, one
// method call per op line; blocking calls (FrontWait/NextWait) run in their own
// goroutine ("traverser") and are observed after every op: a traverser whose
// wake-up condition holds must have returned (waited for with a long deadline —
// a hang is a lost wake-up), one whose condition does not hold must still be
// blocked.  After every op the complete observable state is printed and compared
// with the Lean model's.  A traverser that does not return within hangTimeout
// although its condition holds is reported (lost-wakeup), stays pending (printed
// as blocked, which is what it is) and is polled with a short deadline afterwards.
//
// Part 2 (search support only, no model): the `stress` op runs real goroutines
// (appender, two removers, k traversers) on a separate list and is judged by the
// oracle alone; see func stress.
//
// op lines (ids/traverser numbers: 1..6 decimal digits; traversers 0..3):
//
//	push                 l.PushBack(id)            the n-th push creates element n
//	pushrm               e := l.PushBack(id); l.Remove(e) back to back, GOMAXPROCS(1) pinned around the
//	                     pair: a caller parked in NextWait on the tail / in FrontWait is woken by the push
//	                     and finds nothing when it runs — it must block again (output ok:<id>/<Remove result>)
//	remove <id>          l.Remove(elem[id])
//	detachprev <id>      elem[id].DetachPrev()
//	detachnext <id>      elem[id].DetachNext()
//	tfront <t>           traverser t calls l.FrontWait() (a new traversal)
//	tnext <t>            traverser t calls NextWait() on the element it holds
//	tnextnow <t>         traverser t calls Next() on the element it holds
//	stress <seed> <n> <k>   (search support) concurrent append/remove/traverse on a separate list
//
// output (cut to 300 bytes on both sides):
//
//	<res> | L<Len>,<Front>,<Back>,<WaitChan closed 0|1>,g<#replaced list chans>,o<#replaced chans still open>
//	| one entry per element in id order, `;`-separated:
//	  <Prev>.<Next> + flags r (Removed) n (NextWaitChan closed) p (PrevWaitChan closed)
//	  [+ g<#replaced next chans>.<#replaced prev chans>] [+ o<#replaced chans still open>]
//	| T<t>=<wf|@id|wn<id>|fin>[<log>];…
//
//	res: ok | ok:<id> | next:<id|-> | panic:empty | panic:falsehead | panic:falsetail | panic:notremoved |
//	     panic:wg (negative WaitGroup counter / close of closed channel: the list's mutexes stay locked;
//	     nothing can be observed any more, every later op answers err:poisoned) |
//	     err:busy | err:notat | err:badop | err:poisoned | stress
//
// oracle (own bookkeeping: which ids were pushed, which Remove calls returned; plain slices;
// nothing from the Lean model).  Checked after every op, first failing class wins:
//
//	order        walking Front()/Next() does not yield exactly the pushed-and-not-removed ids in insertion order
//	order-back   same for Back()/Prev()
//	len          Len() differs from the number of pushed-and-not-removed ids
//	removed-flag Removed() differs from the bookkeeping
//	waitch       NextWaitChan closed  <=/=>  Next()!=nil || Removed()   (same for Prev, and WaitChan vs Front()!=nil)
//	stale-open   a replaced wait channel was never closed (a goroutine holding it would sleep forever)
//	wg-panic     a WaitGroup/close panic inside the list (mutexes left locked)
//	lost-wakeup  a blocked traverser did not return although its condition holds
//	trav-order   a traverser was handed an element that is not after its cursor in insertion order
//	trav-skip    a traverser skipped an element that has not been removed
//	nil-live     NextWait returned nil although the cursor was not removed
//	removed-next a traverser holding a LIVE element (or calling FrontWait) was handed a removed element
//	removed-next-stale   a traverser holding a REMOVED element was handed an element that had been removed before the call
//	double-remove <check>  any of the above after a second Remove of the same element was accepted
package main

import (
	"fmt"
	"os"
	"runtime"
	"strings"
	"sync"
	"sync/atomic"
	"time"

	"github.com/gnolang/gno/tm2/pkg/clist"
	"gnoverif/kit"
)

const maxTrav = 4

// generator: at most this many pushes per random case (keeps a state line under 300 bytes)
const maxElems = 10

var hangTimeout = 3 * time.Second

// how long a caller woken for nothing is given to (wrongly) return
const spuriousGrace = 3 * time.Millisecond

const (
	stIdle = iota
	stWantFront
	stAt
	stWantNext
	stFin
)

type trav struct {
	st  int
	cur *clist.CElement
	log []int
	res chan *clist.CElement
	// waitCh: the wait channel that was current when the call was launched (or
	// when the caller was last seen to have gone back to sleep).  If it is closed
	// while the wake-up condition does not hold, the caller has been woken for
	// nothing (pushrm: PushBack then Remove before it ran): it must go back to
	// sleep, which is given a grace period to show.
	waitCh <-chan struct{}
	// hung: the call did not return within hangTimeout although its wake-up
	// condition held (reported as lost-wakeup); it stays pending and is polled
	// with a short deadline from then on.
	hung bool
}

type world struct {
	l        *clist.CList
	elems    []*clist.CElement
	id       map[*clist.CElement]int
	nextCh   [][]<-chan struct{} // per element: every NextWaitChan() value seen, oldest first
	prevCh   [][]<-chan struct{}
	listCh   []<-chan struct{}
	travs    [maxTrav]*trav
	poisoned bool
	// oracle bookkeeping
	removed       []bool
	doubleRemoved bool
	pendingViol   string // verdict of an event (traverser return, panic) during this op
	// pushrm bookkeeping: the element pushed and removed by the current op, and
	// whether a traverser was handed it (= it ran between the two calls)
	pairElem *clist.CElement
	raced    bool
}

var w *world

var stressFailures int

func newWorld() *world {
	x := &world{l: clist.New(), id: map[*clist.CElement]int{}}
	for i := range x.travs {
		x.travs[i] = &trav{}
	}
	x.listCh = []<-chan struct{}{x.l.WaitChan()}
	return x
}

// self-test knob: with VERIF_C49_YIELD=1 the first attempt of every pushrm (per position
// in its case) yields between PushBack and Remove, so the discard-and-replay path of exec
// runs; the output must not change.
var forceYield = os.Getenv("VERIF_C49_YIELD") == "1"
var yielded = map[int]bool{}

// history: the op lines of the current case that were executed on w (for rebuild).
var history [][]string

func reset() {
	history = nil
	yielded = map[int]bool{}
	abandon()
	w = newWorld()
}

// abandon lets the blocked traversers of w go.
func abandon() {
	if w != nil && !w.poisoned {
		// let blocked traversers of the previous case go: a push wakes FrontWait
		// and the NextWait on the tail.
		busy := false
		for _, t := range w.travs {
			if t.st == stWantFront || t.st == stWantNext {
				busy = true
			}
		}
		if busy {
			func() {
				defer func() { recover() }()
				w.l.PushBack(-1)
			}()
		}
	}
}

// rebuild replays the case so far on a fresh list (used when a pushrm pair was
// interleaved, see exec); false if a replayed pushrm was interleaved itself.
func rebuild() bool {
	abandon()
	w = newWorld()
	for _, h := range history {
		execOnce(h)
		if w.raced {
			return false
		}
	}
	return true
}

// exec runs one op.  `pushrm` needs the woken waiter NOT to run between PushBack
// and Remove.  One P and no yield make that the rule, but not a guarantee: if the
// OS takes the thread away for more than the scheduler's 10 ms time slice inside
// the pair, sysmon preempts the harness goroutine and the waiter runs in between —
// on correct code it is then handed the new element (the only way it can be handed
// that element at all, since after the Remove neither Front() nor the tail's next
// is that element).  That is a legal schedule but not the one the op is meant to
// produce (and the model does not produce), so the attempt is discarded: the case is
// replayed on a fresh list and the op retried.  An implementation that hands out the
// removed element every time is reported after three attempts.
func exec(t []string) (string, string) {
	impl, orc := execOnce(t)
	for try := 0; w.raced && try < 3; try++ {
		if os.Getenv("VERIF_TRACE") != "" {
			fmt.Fprintf(os.Stderr, "c49: pushrm pair was interleaved (attempt %d), replaying %d ops\n", try+1, len(history))
		}
		for i := 0; i < 5 && !rebuild(); i++ {
		}
		impl, orc = execOnce(t)
	}
	if len(t) > 0 && t[0] != "stress" {
		history = append(history, t)
	}
	return impl, orc
}

// ---------------------------------------------------------------- observation

func isClosed(ch <-chan struct{}) bool {
	select {
	case <-ch:
		return true
	default:
		return false
	}
}

func (x *world) idOf(e *clist.CElement) string {
	if e == nil {
		return "-"
	}
	if i, ok := x.id[e]; ok {
		return fmt.Sprint(i)
	}
	return "?"
}

func b01(b bool) int {
	if b {
		return 1
	}
	return 0
}

func openStale(h []<-chan struct{}) int {
	n := 0
	for _, c := range h[:len(h)-1] {
		if !isClosed(c) {
			n++
		}
	}
	return n
}

// refresh the channel histories (at most one replacement per channel per op).
func (x *world) observeChans() {
	if c := x.l.WaitChan(); c != x.listCh[len(x.listCh)-1] {
		x.listCh = append(x.listCh, c)
	}
	for i, e := range x.elems {
		if c := e.NextWaitChan(); c != x.nextCh[i][len(x.nextCh[i])-1] {
			x.nextCh[i] = append(x.nextCh[i], c)
		}
		if c := e.PrevWaitChan(); c != x.prevCh[i][len(x.prevCh[i])-1] {
			x.prevCh[i] = append(x.prevCh[i], c)
		}
	}
}

func (x *world) dump() string {
	var sb strings.Builder
	fmt.Fprintf(&sb, "L%d,%s,%s,%d,g%d,o%d | ", x.l.Len(), x.idOf(x.l.Front()), x.idOf(x.l.Back()),
		b01(isClosed(x.listCh[len(x.listCh)-1])), len(x.listCh)-1, openStale(x.listCh))
	if len(x.elems) == 0 {
		sb.WriteString("-")
	}
	for i, e := range x.elems {
		if i > 0 {
			sb.WriteByte(';')
		}
		nh, ph := x.nextCh[i], x.prevCh[i]
		fmt.Fprintf(&sb, "%s.%s", x.idOf(e.Prev()), x.idOf(e.Next()))
		if e.Removed() {
			sb.WriteByte('r')
		}
		if isClosed(nh[len(nh)-1]) {
			sb.WriteByte('n')
		}
		if isClosed(ph[len(ph)-1]) {
			sb.WriteByte('p')
		}
		if len(nh)+len(ph) > 2 {
			fmt.Fprintf(&sb, "g%d.%d", len(nh)-1, len(ph)-1)
		}
		if so := openStale(nh) + openStale(ph); so > 0 {
			fmt.Fprintf(&sb, "o%d", so)
		}
	}
	sb.WriteString(" | ")
	first := true
	for i, t := range x.travs {
		if t.st == stIdle {
			continue
		}
		if !first {
			sb.WriteByte(';')
		}
		first = false
		var s string
		switch t.st {
		case stWantFront:
			s = "wf"
		case stAt:
			s = "@" + x.idOf(t.cur)
		case stWantNext:
			s = "wn" + x.idOf(t.cur)
		case stFin:
			s = "fin"
		}
		lg := make([]string, len(t.log))
		for j, v := range t.log {
			lg[j] = fmt.Sprint(v)
		}
		fmt.Fprintf(&sb, "T%d=%s[%s]", i, s, strings.Join(lg, ","))
	}
	if first {
		sb.WriteString("-")
	}
	return sb.String()
}

// ---------------------------------------------------------------- oracle

func (x *world) viol(class, detail string) {
	if x.pendingViol == "" {
		x.pendingViol = class + " " + detail
	}
}

// arrive judges a value handed to traverser t (front = by FrontWait) and records it.
func (x *world) arrive(t *trav, r *clist.CElement, front bool) {
	if r != nil && r == x.pairElem {
		x.raced = true
	}
	if r == nil {
		if front {
			x.viol("nil-live", "FrontWait returned nil")
		} else if ci, ok := x.id[t.cur]; !ok || !x.removed[ci] {
			x.viol("nil-live", fmt.Sprintf("NextWait on live element %s returned nil", x.idOf(t.cur)))
		}
		t.st = stFin
		return
	}
	ri, ok := x.id[r]
	if !ok {
		x.viol("trav-order", "unknown element returned")
		t.st = stFin
		return
	}
	lo := -1
	curRemoved := false
	if !front {
		lo = x.id[t.cur]
		curRemoved = x.removed[lo]
	}
	if ri <= lo {
		x.viol("trav-order", fmt.Sprintf("cursor %d was handed %d", lo, ri))
	}
	for j := lo + 1; j < ri; j++ {
		if !x.removed[j] {
			x.viol("trav-skip", fmt.Sprintf("cursor %d was handed %d, skipping %d which was never removed", lo, ri, j))
			break
		}
	}
	if x.removed[ri] {
		if curRemoved {
			x.viol("removed-next-stale", fmt.Sprintf("removed cursor %d was handed %d, removed earlier", lo, ri))
		} else {
			x.viol("removed-next", fmt.Sprintf("cursor %d was handed removed element %d", lo, ri))
		}
	}
	if front {
		t.log = []int{ri}
	} else {
		t.log = append(t.log, ri)
	}
	t.cur = r
	t.st = stAt
}

// settle: every traverser with a pending blocking call either has returned or is blocked.
func (x *world) settle() {
	for _, t := range x.travs {
		if t.st != stWantFront && t.st != stWantNext {
			continue
		}
		front := t.st == stWantFront
		var cond bool
		if front {
			cond = x.l.Front() != nil
		} else {
			cond = t.cur.Next() != nil || t.cur.Removed()
		}
		if cond {
			d := hangTimeout
			if t.hung {
				d = 20 * time.Millisecond
			}
			select {
			case r := <-t.res:
				t.hung = false
				x.arrive(t, r, front)
			case <-time.After(d):
				what := "FrontWait although Front()!=nil"
				if !front {
					what = fmt.Sprintf("NextWait on %s although next!=nil or removed", x.idOf(t.cur))
				}
				x.viol("lost-wakeup", "traverser still blocked in "+what)
				t.hung = true
			}
		} else if t.waitCh != nil && isClosed(t.waitCh) {
			// woken although there is nothing to return: the call must re-check and
			// block again (NextWait/FrontWait loop); a return now is spurious.
			select {
			case r := <-t.res:
				x.arrive(t, r, front)
			case <-time.After(spuriousGrace):
				if front {
					t.waitCh = x.l.WaitChan()
				} else {
					t.waitCh = t.cur.NextWaitChan()
				}
			}
		} else {
			runtime.Gosched()
			select {
			case r := <-t.res:
				x.arrive(t, r, front)
			default:
			}
		}
	}
}

// state checks: the statement evaluated on what the list shows now.
func (x *world) stateChecks() (string, string) {
	var live []int
	for i := range x.elems {
		if !x.removed[i] {
			live = append(live, i)
		}
	}
	walk := func(start *clist.CElement, step func(*clist.CElement) *clist.CElement) []string {
		var out []string
		for e, n := start, 0; e != nil && n <= len(x.elems)+1; e, n = step(e), n+1 {
			out = append(out, x.idOf(e))
		}
		return out
	}
	want := make([]string, len(live))
	for i, v := range live {
		want[i] = fmt.Sprint(v)
	}
	fw := walk(x.l.Front(), (*clist.CElement).Next)
	if strings.Join(fw, ",") != strings.Join(want, ",") {
		return "order", fmt.Sprintf("Front/Next walk %v, remaining in insertion order %v", fw, want)
	}
	rev := make([]string, len(want))
	for i := range want {
		rev[len(want)-1-i] = want[i]
	}
	bw := walk(x.l.Back(), (*clist.CElement).Prev)
	if strings.Join(bw, ",") != strings.Join(rev, ",") {
		return "order-back", fmt.Sprintf("Back/Prev walk %v, expected %v", bw, rev)
	}
	if x.l.Len() != len(live) {
		return "len", fmt.Sprintf("Len()=%d, %d elements remain", x.l.Len(), len(live))
	}
	for i, e := range x.elems {
		if e.Removed() != x.removed[i] {
			return "removed-flag", fmt.Sprintf("element %d Removed()=%v", i, e.Removed())
		}
	}
	if isClosed(x.listCh[len(x.listCh)-1]) != (x.l.Front() != nil) {
		return "waitch", fmt.Sprintf("WaitChan closed=%v, Front()!=nil is %v", isClosed(x.listCh[len(x.listCh)-1]), x.l.Front() != nil)
	}
	for i, e := range x.elems {
		nh, ph := x.nextCh[i], x.prevCh[i]
		if c := isClosed(nh[len(nh)-1]); c != (e.Next() != nil || e.Removed()) {
			return "waitch", fmt.Sprintf("element %d NextWaitChan closed=%v, next=%s removed=%v", i, c, x.idOf(e.Next()), e.Removed())
		}
		if c := isClosed(ph[len(ph)-1]); c != (e.Prev() != nil || e.Removed()) {
			return "waitch", fmt.Sprintf("element %d PrevWaitChan closed=%v, prev=%s removed=%v", i, c, x.idOf(e.Prev()), e.Removed())
		}
	}
	if openStale(x.listCh) > 0 {
		return "stale-open", "a replaced list wait channel is open"
	}
	for i := range x.elems {
		if openStale(x.nextCh[i])+openStale(x.prevCh[i]) > 0 {
			return "stale-open", fmt.Sprintf("a replaced wait channel of element %d is open", i)
		}
	}
	return "", ""
}

func (x *world) verdict() string {
	cls, det := "", ""
	if !x.poisoned {
		cls, det = x.stateChecks()
	}
	if cls == "" && x.pendingViol != "" {
		p := strings.SplitN(x.pendingViol, " ", 2)
		cls, det = p[0], p[1]
	}
	if cls == "" {
		return "ok"
	}
	if x.doubleRemoved {
		return "VIOL:double-remove " + cls + ": " + det
	}
	return "VIOL:" + cls + " " + det
}

// ---------------------------------------------------------------- ops

func pNat(s string) (int, bool) {
	if len(s) == 0 || len(s) > 6 {
		return 0, false
	}
	n := 0
	for _, c := range []byte(s) {
		if c < '0' || c > '9' {
			return 0, false
		}
		n = n*10 + int(c-'0')
	}
	return n, true
}

// call runs one list method and classifies a panic.
func call(f func()) (res string) {
	defer func() {
		if v := recover(); v != nil {
			msg := fmt.Sprint(v)
			switch {
			case strings.Contains(msg, "on empty CList"):
				res = "panic:empty"
			case strings.Contains(msg, "false head"):
				res = "panic:falsehead"
			case strings.Contains(msg, "false tail"):
				res = "panic:falsetail"
			case strings.Contains(msg, "must be called after Remove"):
				res = "panic:notremoved"
			case strings.Contains(msg, "negative WaitGroup counter"), strings.Contains(msg, "close of closed channel"):
				res = "panic:wg"
			default:
				panic(v)
			}
		}
	}()
	f()
	return "ok"
}

func (x *world) finish(res string) (string, string) {
	x.observeChans()
	x.settle()
	return res + " | " + x.dump(), x.verdict()
}

func execOnce(t []string) (string, string) {
	x := w
	x.pendingViol = ""
	x.pairElem, x.raced = nil, false
	if len(t) == 0 {
		return "err:badop", "-"
	}
	arg := -1
	switch t[0] {
	case "push", "pushrm":
		if len(t) != 1 {
			return "err:badop", "-"
		}
	case "remove", "detachprev", "detachnext", "tfront", "tnext", "tnextnow":
		if len(t) != 2 {
			return "err:badop", "-"
		}
		v, ok := pNat(t[1])
		if !ok {
			return "err:badop", "-"
		}
		if t[0][0] == 't' && v >= maxTrav {
			return "err:badop", "-"
		}
		arg = v
	case "stress":
		if len(t) != 4 {
			return "err:badop", "-"
		}
		seed, ok1 := pNat(t[1])
		n, ok2 := pNat(t[2])
		k, ok3 := pNat(t[3])
		if !(ok1 && ok2 && ok3) || n == 0 || n > 5000 || k == 0 || k > 8 {
			return "err:badop", "-"
		}
		// a failing stress run costs its whole deadline: stop searching after two
		if stressFailures >= 2 {
			return "stress", "-"
		}
		v := stress(uint64(seed), n, k)
		if v != "ok" {
			stressFailures++
		}
		return "stress", v
	default:
		return "err:badop", "-"
	}
	if x.poisoned {
		return "err:poisoned", "-"
	}
	switch t[0] {
	case "pushrm":
		// PushBack and Remove of the new element back to back: a caller parked on the
		// tail (or in FrontWait on the empty list) is woken by the push but cannot
		// run before the removal (one P, no blocking call or yield in between).
		for _, tr := range x.travs {
			if tr.st == stWantFront || tr.st == stWantNext {
				time.Sleep(100 * time.Microsecond) // let it reach Wait()
				break
			}
		}
		id := len(x.elems)
		var e *clist.CElement
		procs := runtime.GOMAXPROCS(1)
		res := call(func() { e = x.l.PushBack(id) })
		res2 := ""
		if res == "ok" {
			if forceYield && !yielded[len(history)] {
				// self-test (VERIF_C49_YIELD=1): interleave the first attempt on purpose
				yielded[len(history)] = true
				runtime.Gosched()
			}
			res2 = call(func() { x.l.Remove(e) })
		}
		runtime.GOMAXPROCS(procs)
		if res == "panic:wg" {
			x.poisoned = true
			x.viol("wg-panic", "PushBack")
			return res, x.verdict()
		}
		x.pairElem = e
		x.elems = append(x.elems, e)
		x.id[e] = id
		x.removed = append(x.removed, res2 == "ok" || res2 == "panic:wg")
		if res2 == "panic:wg" {
			x.poisoned = true
			x.viol("wg-panic", "pushrm Remove")
			return res2, x.verdict()
		}
		x.nextCh = append(x.nextCh, []<-chan struct{}{e.NextWaitChan()})
		x.prevCh = append(x.prevCh, []<-chan struct{}{e.PrevWaitChan()})
		return x.finish(fmt.Sprintf("ok:%d/%s", id, res2))
	case "push":
		id := len(x.elems)
		var e *clist.CElement
		res := call(func() { e = x.l.PushBack(id) })
		if res == "panic:wg" {
			x.poisoned = true
			x.viol("wg-panic", "PushBack")
			return res, x.verdict()
		}
		x.elems = append(x.elems, e)
		x.id[e] = id
		x.removed = append(x.removed, false)
		x.nextCh = append(x.nextCh, []<-chan struct{}{e.NextWaitChan()})
		x.prevCh = append(x.prevCh, []<-chan struct{}{e.PrevWaitChan()})
		return x.finish(fmt.Sprintf("ok:%d", id))
	case "remove", "detachprev", "detachnext":
		if arg >= len(x.elems) {
			return "err:badop", "-"
		}
		e := x.elems[arg]
		var res string
		switch t[0] {
		case "remove":
			res = call(func() { x.l.Remove(e) })
			if res == "ok" || res == "panic:wg" {
				if x.removed[arg] {
					x.doubleRemoved = true
				}
				x.removed[arg] = true
			}
		case "detachprev":
			res = call(func() { e.DetachPrev() })
		case "detachnext":
			res = call(func() { e.DetachNext() })
		}
		if res == "panic:wg" {
			x.poisoned = true
			x.viol("wg-panic", t[0])
			return res, x.verdict()
		}
		return x.finish(res)
	default: // traverser ops
		tr := x.travs[arg]
		if tr.st == stWantFront || tr.st == stWantNext {
			return x.finish("err:busy")
		}
		switch t[0] {
		case "tfront":
			tr.st, tr.cur, tr.log = stWantFront, nil, nil
			tr.res = make(chan *clist.CElement, 1)
			tr.waitCh = x.l.WaitChan()
			go func(l *clist.CList, c chan *clist.CElement) { c <- l.FrontWait() }(x.l, tr.res)
			return x.finish("ok")
		case "tnext":
			if tr.st != stAt {
				return x.finish("err:notat")
			}
			tr.st = stWantNext
			tr.res = make(chan *clist.CElement, 1)
			tr.waitCh = tr.cur.NextWaitChan()
			go func(e *clist.CElement, c chan *clist.CElement) { c <- e.NextWait() }(tr.cur, tr.res)
			return x.finish("ok")
		default: // tnextnow
			if tr.st != stAt {
				return x.finish("err:notat")
			}
			n := tr.cur.Next()
			res := "next:" + x.idOf(n)
			if n != nil {
				x.arrive(tr, n, false)
			}
			return x.finish(res)
		}
	}
}

// ---------------------------------------------------------------- concurrent stress (search support; judged by the oracle only)

// stress: one appender pushes 0..n-1 and then the sentinel n; two removers remove
// (each element at most once) the ids with id%3 != 2 and DetachPrev them — remover 0
// the ids 3k, remover 1 their neighbours 3k+1, either keeping pace with the appender
// or working off a backlog, and in lockstep mode meeting before every removal so that
// two ADJACENT elements are removed at the same instant; k
// traversers walk FrontWait/NextWait (odd ones: NextWaitChan + Next, as the
// mempool reactor does) until they reach the sentinel, restarting from FrontWait
// when handed nil.  Oracle: every traversal segment strictly increasing; no
// never-removed id inside a segment's span is skipped; a segment starts at or
// before the first never-removed id; all traversers reach the sentinel (no lost
// wake-up); the final list is exactly the never-removed ids in order.
func stress(seed uint64, n, k int) string {
	l := clist.New()
	r := kit.NewRand(seed)
	keep := func(id int) bool { return id%3 == 2 || id == n }
	feeds := [2]chan *clist.CElement{make(chan *clist.CElement, n+1), make(chan *clist.CElement, n+1)}
	// the removers start when element startAt is pushed: 0 = removal keeps pace with
	// the appender, later = they work off a backlog at full speed
	start := make(chan struct{})
	startAt, gosched := 0, 30
	if r.Chance(70) {
		startAt, gosched = r.Intn(n+1), 3
	}
	// lockstep: the removers meet at a spin barrier before each removal, so the neighbours 3k and 3k+1
	// are removed at the same instant (both calls enter Remove together)
	lockstep := r.Chance(75)
	dead := make(chan struct{})
	var arrived int64
	var deadOnce sync.Once
	pairs := 0
	for id := 0; id < n; id++ {
		if id%3 == 1 {
			pairs++
		}
	}
	var wg sync.WaitGroup
	type seg []int
	logs := make([][]seg, k)
	bad := make([]string, k)
	for ti := 0; ti < k; ti++ {
		wg.Add(1)
		go func(ti int, rr *kit.Rand) {
			defer wg.Done()
			defer func() {
				if v := recover(); v != nil {
					bad[ti] = fmt.Sprint("panic ", v)
				}
			}()
			for {
				e := l.FrontWait()
				cur := seg{e.Value.(int)}
				for e.Value.(int) != n {
					var nx *clist.CElement
					if ti%2 == 1 {
						<-e.NextWaitChan()
						nx = e.Next()
					} else {
						nx = e.NextWait()
					}
					if rr.Chance(5) {
						runtime.Gosched()
					}
					if nx == nil {
						break
					}
					e = nx
					cur = append(cur, e.Value.(int))
				}
				logs[ti] = append(logs[ti], cur)
				if e.Value.(int) == n {
					return
				}
			}
		}(ti, r.Fork())
	}
	for ri := 0; ri < 2; ri++ {
		wg.Add(1)
		go func(ri int, rr *kit.Rand) {
			defer wg.Done()
			defer func() {
				if v := recover(); v != nil {
					bad[0] = fmt.Sprint("remover panic ", v)
					deadOnce.Do(func() { close(dead) })
				}
			}()
			<-start
			i := 0
			for e := range feeds[ri] {
				if lockstep && i < pairs {
					// spin barrier (both removers are running when it opens; a channel
					// hand-off would let one finish before the other is scheduled)
					atomic.AddInt64(&arrived, 1)
					for spins := 0; atomic.LoadInt64(&arrived) < int64(2*(i+1)); spins++ {
						if spins%8192 == 8191 {
							select {
							case <-dead:
								atomic.AddInt64(&arrived, 1<<40)
							default:
								runtime.Gosched()
							}
						}
					}
					// random offset of a few dozen ns between the two calls
					for j := rr.Intn(48); j > 0; j-- {
						atomic.LoadInt64(&arrived)
					}
				} else if rr.Chance(gosched) {
					runtime.Gosched()
				}
				i++
				l.Remove(e)
				e.DetachPrev()
			}
		}(ri, r.Fork())
	}
	wg.Add(1)
	go func(rr *kit.Rand) {
		defer wg.Done()
		for id := 0; id <= n; id++ {
			if id == startAt {
				close(start)
			}
			e := l.PushBack(id)
			if !keep(id) {
				// 3k goes to remover 0, its neighbour 3k+1 to remover 1: once the
				// removers work off a backlog they remove ADJACENT elements at the
				// same time, contending for l.mtx
				feeds[id%3] <- e
			}
			if rr.Chance(10) {
				runtime.Gosched()
			}
		}
		close(feeds[0])
		close(feeds[1])
	}(r.Fork())
	done := make(chan struct{})
	go func() { wg.Wait(); close(done) }()
	select {
	case <-done:
	case <-time.After(15 * time.Second):
		return "VIOL:lost-wakeup stress: goroutines did not finish (traverser never reached the sentinel)"
	}
	for ti := 0; ti < k; ti++ {
		if bad[ti] != "" {
			return "VIOL:wg-panic stress: " + bad[ti]
		}
		segs := logs[ti]
		for si, sg := range segs {
			for j := 1; j < len(sg); j++ {
				if sg[j] <= sg[j-1] {
					return fmt.Sprintf("VIOL:trav-order stress: traverser %d saw %d after %d", ti, sg[j], sg[j-1])
				}
			}
			if n >= 2 && sg[0] > 2 {
				return fmt.Sprintf("VIOL:trav-skip stress: traverser %d started at %d, after never-removed element 2", ti, sg[0])
			}
			in := map[int]bool{}
			for _, v := range sg {
				in[v] = true
			}
			for id := sg[0]; id <= sg[len(sg)-1]; id++ {
				if keep(id) && !in[id] {
					return fmt.Sprintf("VIOL:trav-skip stress: traverser %d skipped never-removed element %d", ti, id)
				}
			}
			if si == len(segs)-1 && sg[len(sg)-1] != n {
				return fmt.Sprintf("VIOL:lost-wakeup stress: traverser %d stopped at %d", ti, sg[len(sg)-1])
			}
		}
	}
	want := 0
	e := l.Front()
	for id := 0; id <= n; id++ {
		if !keep(id) {
			continue
		}
		want++
		if e == nil || e.Value.(int) != id {
			return fmt.Sprintf("VIOL:order stress: final list does not hold element %d in order", id)
		}
		if e.Removed() {
			return fmt.Sprintf("VIOL:removed-next stress: final list holds removed element %d", id)
		}
		e = e.Next()
	}
	if e != nil {
		return "VIOL:order stress: final list has extra elements"
	}
	if l.Len() != want {
		return fmt.Sprintf("VIOL:len stress: Len()=%d, %d remain", l.Len(), want)
	}
	return "ok"
}

// ---------------------------------------------------------------- generator

type gen struct {
	o *kit.Out
	r *kit.Rand
}

func boundary(o *kit.Out) {
	c := func(id string, ops ...string) {
		o.Case("b/" + id)
		for _, op := range ops {
			o.Op("%s", op)
		}
	}
	c("empty", "remove 0", "detachprev 0", "detachnext 0", "tnext 0", "tnextnow 0", "tfront 0", "tfront 0", "push", "tnext 0", "push", "tnextnow 0")
	c("single", "push", "tfront 0", "remove 0", "tnext 0", "remove 0", "push", "tfront 1", "tfront 0", "tnext 0", "remove 1", "tfront 2", "push")
	c("remove-head", "push", "push", "push", "tfront 0", "remove 0", "tnext 0", "tnext 0", "tnext 0", "push", "detachprev 0", "detachnext 0", "tfront 1", "tnext 1")
	c("remove-middle", "push", "push", "push", "tfront 0", "tnext 0", "remove 1", "tnext 0", "tfront 1", "tnext 1", "tnext 1", "detachprev 1")
	c("remove-tail", "push", "push", "push", "tfront 0", "tnext 0", "tnext 0", "tnext 0", "remove 2", "tfront 1", "tnext 1", "tnext 1", "push", "remove 1", "tnext 1")
	c("wake-push", "push", "tfront 0", "tnext 0", "tfront 1", "tnext 1", "push", "tnext 0", "tnext 1", "push")
	c("wake-remove", "push", "tfront 0", "tnext 0", "remove 0", "tfront 0", "push", "tnext 0")
	c("push-then-remove", "push", "tfront 0", "tnext 0", "push", "remove 1", "tnext 0", "tnext 0", "push", "remove 2", "push")
	c("front-gens", "tfront 0", "push", "remove 0", "tfront 1", "push", "remove 1", "tfront 2", "tfront 0", "push")
	c("detach-live", "push", "push", "detachprev 0", "detachnext 1", "remove 0", "detachprev 0", "detachnext 0", "detachnext 0", "tfront 0")
	c("detachnext-ends-traversal", "push", "push", "push", "tfront 0", "remove 0", "detachnext 0", "tnext 0")
	c("stale-next", "push", "push", "push", "tfront 0", "tnext 0", "remove 1", "remove 2", "tnext 0", "tnext 0") // W1
	c("stale-next-now", "push", "push", "push", "tfront 0", "tnextnow 0", "remove 1", "remove 2", "tnextnow 0", "tnextnow 0")
	c("double-remove-relink", "push", "push", "push", "remove 1", "remove 2", "remove 1", "tfront 0", "tnext 0", "push", "push") // W2
	c("double-remove-poison", "push", "push", "push", "remove 1", "remove 0", "detachnext 0", "remove 1", "push", "tfront 0")    // W3
	c("double-remove-head", "push", "push", "remove 0", "remove 0", "detachprev 0", "remove 0")
	c("double-remove-tail", "push", "push", "remove 1", "remove 1", "detachnext 1", "remove 1", "push", "remove 1")
	c("double-remove-only", "push", "remove 0", "remove 0", "push", "remove 0")
	c("double-remove-middle", "push", "push", "push", "remove 1", "remove 1", "remove 1", "remove 0", "remove 2", "push", "push", "remove 4")
	c("double-remove-prev-removed", "push", "push", "push", "remove 1", "remove 0", "remove 1", "remove 2", "remove 0", "push")
	c("busy", "tfront 0", "tfront 0", "tnext 0", "tnextnow 0", "push", "tnext 0", "tnext 0", "tfront 0", "tnextnow 0")
	c("all-traversers", "tfront 0", "tfront 1", "tfront 2", "tfront 3", "push", "tnext 0", "tnext 1", "tnext 2", "tnext 3", "remove 0", "push", "push", "tnext 1", "tnext 3")
	// a caller woken for nothing (push then remove before it runs) must go back to sleep
	c("pushrm-parked-tail", "push", "tfront 0", "tnext 0", "pushrm", "pushrm", "push", "tnext 0", "pushrm")
	c("pushrm-parked-front", "tfront 0", "pushrm", "pushrm", "tfront 1", "pushrm", "push", "tnext 0", "tnext 1")
	c("pushrm-many", "push", "tfront 0", "tnext 0", "tfront 1", "tnext 1", "tfront 2", "pushrm", "tnext 2", "pushrm", "remove 0", "pushrm", "push")
	c("pushrm-empty", "pushrm", "pushrm", "tfront 0", "push", "pushrm", "tnext 0", "pushrm", "remove 2", "pushrm")
	// every removal order of a three-element list, with one waiting and one walking traverser
	perms := [][3]int{{0, 1, 2}, {0, 2, 1}, {1, 0, 2}, {1, 2, 0}, {2, 0, 1}, {2, 1, 0}}
	for _, p := range perms {
		ops := []string{"push", "push", "push", "tfront 0", "tfront 1", "tnext 1", "tnext 1", "tnext 1"}
		for _, id := range p {
			ops = append(ops, fmt.Sprintf("remove %d", id), "tnext 0", fmt.Sprintf("detachprev %d", id))
		}
		ops = append(ops, "tfront 2", "push", "tnext 2")
		c(fmt.Sprintf("perm/%d%d%d", p[0], p[1], p[2]), ops...)
	}
}

func (g *gen) randomCase(id string, nOpsMax int) {
	r, o := g.r, g.o
	o.Case(id)
	// generator-side bookkeeping (only to bias choices)
	n := 0
	var live, gone []int
	double := r.Chance(12)  // this case may remove an element twice
	detachN := r.Chance(25) // this case may DetachNext
	nops := r.Range(1, nOpsMax)
	for i := 0; i < nops; i++ {
		switch p := r.Intn(100); {
		case (p < 28 || (n == 0 && p < 60)) && n < maxElems:
			live = append(live, n)
			n++
			o.Op("push")
		case p < 48:
			if len(live) == 0 {
				o.Op("remove %d", r.Intn(n+2))
				continue
			}
			var k int
			switch q := r.Intn(10); {
			case q < 3:
				k = 0
			case q < 6:
				k = len(live) - 1
			default:
				k = r.Intn(len(live))
			}
			o.Op("remove %d", live[k])
			gone = append(gone, live[k])
			live = append(live[:k:k], live[k+1:]...)
		case p < 56:
			if len(gone) > 0 {
				o.Op("detachprev %d", kit.Pick(r, gone))
			} else {
				o.Op("detachprev %d", r.Intn(n+2))
			}
		case p < 60:
			if detachN && len(gone) > 0 {
				o.Op("detachnext %d", kit.Pick(r, gone))
			} else if r.Chance(30) {
				o.Op("detachnext %d", r.Intn(n+2))
			} else {
				o.Op("tnext %d", r.Intn(maxTrav))
			}
		case p < 63:
			if double && len(gone) > 0 {
				o.Op("remove %d", kit.Pick(r, gone))
			} else {
				o.Op("tnextnow %d", r.Intn(maxTrav))
			}
		case p < 72:
			o.Op("tfront %d", r.Intn(maxTrav))
		case p < 90:
			o.Op("tnext %d", r.Intn(maxTrav))
		case p < 95 && n < maxElems:
			gone = append(gone, n)
			n++
			o.Op("pushrm")
		default:
			o.Op("tnextnow %d", r.Intn(maxTrav))
		}
	}
}

func malformed(g *gen, n int) {
	r, o := g.r, g.o
	o.Case("malformed")
	toks := []string{"", "x", "-", "-1", "+1", "0", "1", "2", "3", "4", "007", "1234567", "999999", "1_0", "0x1", "1e1", "18446744073709551616", "a"}
	ops := []string{"push", "pushrm", "remove", "detachprev", "detachnext", "tfront", "tnext", "tnextnow", "stress", "Push", "pop", "tstep"}
	for i := 0; i < n; i++ {
		op := kit.Pick(r, ops)
		parts := []string{op}
		for j, k := 0, r.Range(0, 4); j < k; j++ {
			parts = append(parts, kit.Pick(r, toks))
		}
		line := strings.Join(parts, " ")
		if op == "stress" {
			line = "stress x " + line[6:]
		}
		o.Op("%s", line)
	}
}

func generate(o *kit.Out, r *kit.Rand, tier string) {
	g := &gen{o: o, r: r}
	boundary(o)
	cases, nstress, sn := 5000, 24, 300
	if tier == "thorough" {
		cases, nstress, sn = 30000, 60, 3000
	}
	for i := 0; i < cases; i++ {
		g.randomCase(fmt.Sprintf("r/%d", i), 45)
	}
	malformed(g, 500)
	for i := 0; i < nstress; i++ {
		o.Case(fmt.Sprintf("stress/%d", i))
		o.Op("stress %d %d %d", r.Intn(1000000), r.Range(sn/3, sn), r.Range(1, 6))
	}
}

func main() {
	kit.Main(&kit.Harness{Gen: generate, Reset: reset, Exec: exec})
}
