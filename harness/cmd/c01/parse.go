package main

// Strict parser of the C01 op lines.  The Lean driver (Drive/C01.lean) parses the
// same grammar; everything outside it answers `err:badop` on both sides.
//
//	open <cfg>{1..8}          cfg = [mlpb][nse][16][yen]
//	                            backend  m memdb | l goleveldb | p pebbledb | b boltdb
//	                            restart  n never | s at every `restart` op | e after every block
//	                            procs    1 GOMAXPROCS(1) | 6 GOMAXPROCS(16)
//	                            pruning  y syncable | e everything | n nothing
//	                          only as the first op of a case; the first cfg is the reference
//	tx <who> <gas> <msg>{1..4}   who = u0|u1|u2|x0 (x0 never has an account); gas = hi|lo
//	probe <who> <gas> <msg>{1..3}   1000000 <= gas <= 299999999: the same transaction as `tx` but with
//	                          this gas limit and one more, always failing, message appended
//	                          (a send of a denom nobody holds): it has no effect, wherever it stops
//	commit                    ends the block (an empty block is allowed)
//	restart                   only directly after `commit`/`open`/case start (block boundary)
//
//	msg (fields separated by `;`)
//	  send;<to>;<amt>;<den>          to = u0|u1|u2 ; 1 <= amt <= 1000000 ; den = u (ugnot) | f (a denom nobody holds)
//	  add;<slot>                     slot = a|b|c|h|p (deploys the slot's fixed realm)
//	  call;<slot>;<fn>;<k>;<v>;<dep> slot a|b|c|p: fn = set|del|inc|fail|sum ; slot h: fn = both|half|grab
//	                                 0 <= k <= 7 ; -999 <= v <= 999 ; dep = - | d (max_deposit 1ugnot; only with slot b, fn set)
//	  run;<script>;<k>;<v>           script = ab|fail|noop|read

import "strings"

type cfgSpec struct {
	backend byte // m l p b
	restart byte // n s e
	procs   int  // 1 | 16
	prune   byte // y e n
	text    string
}

type msgSpec struct {
	kind string // send add call run
	to   string
	amt  int64
	den  byte
	slot byte
	fn   string
	k    int
	v    int
	dep  bool
}

type opSpec struct {
	kind string // open tx commit restart
	cfgs []cfgSpec
	who  string
	lo   bool
	gas  int64
	msgs []msgSpec
}

func pNat(s string, maxDigits int) (int64, bool) {
	if len(s) == 0 || len(s) > maxDigits || (len(s) > 1 && s[0] == '0') {
		return 0, false
	}
	var v int64
	for _, c := range s {
		if c < '0' || c > '9' {
			return 0, false
		}
		v = v*10 + int64(c-'0')
	}
	return v, true
}

func pSmallInt(s string) (int, bool) {
	neg := strings.HasPrefix(s, "-")
	if neg {
		s = s[1:]
	}
	v, ok := pNat(s, 3)
	if !ok || (neg && v == 0) {
		return 0, false
	}
	if neg {
		v = -v
	}
	return int(v), true
}

func pWho(s string) bool { return s == "u0" || s == "u1" || s == "u2" || s == "x0" }

func pCfg(s string) (cfgSpec, bool) {
	if len(s) != 4 {
		return cfgSpec{}, false
	}
	c := cfgSpec{backend: s[0], restart: s[1], prune: s[3], text: s}
	if !strings.ContainsRune("mlpb", rune(s[0])) || !strings.ContainsRune("nse", rune(s[1])) || !strings.ContainsRune("yen", rune(s[3])) {
		return c, false
	}
	switch s[2] {
	case '1':
		c.procs = 1
	case '6':
		c.procs = 16
	default:
		return c, false
	}
	return c, true
}

func pMsg(s string) (msgSpec, bool) {
	f := strings.Split(s, ";")
	m := msgSpec{kind: f[0]}
	switch f[0] {
	case "send":
		if len(f) != 4 || !pWho(f[1]) || f[1] == "x0" || (f[3] != "u" && f[3] != "f") {
			return m, false
		}
		a, ok := pNat(f[2], 7)
		if !ok || a < 1 || a > 1000000 {
			return m, false
		}
		m.to, m.amt, m.den = f[1], a, f[3][0]
		return m, true
	case "add":
		if len(f) != 2 || len(f[1]) != 1 || !strings.ContainsRune("abchp", rune(f[1][0])) {
			return m, false
		}
		m.slot = f[1][0]
		return m, true
	case "call":
		if len(f) != 6 || len(f[1]) != 1 || !strings.ContainsRune("abchp", rune(f[1][0])) {
			return m, false
		}
		m.slot, m.fn = f[1][0], f[2]
		if m.slot == 'h' {
			if m.fn != "both" && m.fn != "half" && m.fn != "grab" {
				return m, false
			}
		} else {
			switch m.fn {
			case "set", "del", "inc", "fail", "sum":
			default:
				return m, false
			}
		}
		k, ok := pNat(f[3], 1)
		if !ok || k > 7 {
			return m, false
		}
		v, ok := pSmallInt(f[4])
		if !ok {
			return m, false
		}
		if f[5] != "-" && f[5] != "d" {
			return m, false
		}
		m.k, m.v, m.dep = int(k), v, f[5] == "d"
		if m.dep && (m.fn != "set" || m.slot != 'b') {
			return m, false
		}
		return m, true
	case "run":
		if len(f) != 4 {
			return m, false
		}
		switch f[1] {
		case "ab", "fail", "noop", "read":
		default:
			return m, false
		}
		k, ok := pNat(f[2], 1)
		if !ok || k > 7 {
			return m, false
		}
		v, ok := pSmallInt(f[3])
		if !ok {
			return m, false
		}
		m.fn, m.k, m.v = f[1], int(k), v
		return m, true
	}
	return m, false
}

func parseOp(toks []string) (*opSpec, bool) {
	if len(toks) == 0 {
		return nil, false
	}
	op := &opSpec{kind: toks[0]}
	switch toks[0] {
	case "commit", "restart":
		return op, len(toks) == 1
	case "open":
		if len(toks) < 2 || len(toks) > 9 {
			return nil, false
		}
		for _, t := range toks[1:] {
			c, ok := pCfg(t)
			if !ok {
				return nil, false
			}
			op.cfgs = append(op.cfgs, c)
		}
		return op, true
	case "probe":
		if len(toks) < 4 || len(toks) > 6 || !pWho(toks[1]) {
			return nil, false
		}
		g, ok := pNat(toks[2], 9)
		if !ok || g < 1000000 || g > 299999999 {
			return nil, false
		}
		op.who, op.gas = toks[1], g
		for _, t := range toks[3:] {
			m, ok := pMsg(t)
			if !ok {
				return nil, false
			}
			op.msgs = append(op.msgs, m)
		}
		return op, true
	case "tx":
		if len(toks) < 4 || len(toks) > 7 || !pWho(toks[1]) || (toks[2] != "hi" && toks[2] != "lo") {
			return nil, false
		}
		op.who, op.lo = toks[1], toks[2] == "lo"
		for _, t := range toks[3:] {
			m, ok := pMsg(t)
			if !ok {
				return nil, false
			}
			op.msgs = append(op.msgs, m)
		}
		return op, true
	}
	return nil, false
}
