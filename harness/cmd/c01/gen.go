package main

// Generator for C01: boundary histories first, then structured random histories
// (mostly valid: a light shadow of "what is deployed / which keys exist" biases the
// choices), then a malformed stream.  Every random choice comes from the one
// *kit.Rand; the generator never touches the application.
//
// A case = one history replayed on the configurations of its `open` line.
// Application start-up and every restart cost seconds, so the quick tier uses few,
// long histories on memdb; the thorough tier adds the disk backends, the
// restart-after-every-block instances and the pruning variants.

import (
	"fmt"
	"strings"

	"gnoverif/kit"
)

// boundary histories (without the `open` line).
func boundary() [][2]string {
	j := func(l ...string) string { return strings.Join(l, "\n") }
	return [][2]string{
		{"failed-deploy-leaves-no-node", j(
			// a deployment rolled back by a later message of the same tx: neither the
			// package nor its node may survive — a warm instance must answer like a cold one
			"tx u0 hi add;a call;a;fail;1;1;-",
			"tx u1 hi call;a;set;1;1;-",
			"commit",
			"restart",
			"tx u1 hi call;a;set;1;1;-",
			"tx u0 hi add;a call;a;set;1;1;-",
			"tx u1 hi call;a;inc;1;41;-",
			"commit",
			"tx u2 hi add;h",
			"tx u2 hi add;b add;h call;h;both;2;7;-",
			"tx u2 hi call;h;half;3;3;-",
			"commit",
			"restart",
			"tx u0 hi call;h;both;3;-5;-",
			"tx u0 hi call;h;half;4;4;-",
			"commit",
		)},
		{"deposits-across-realms", j(
			// one tx growing three realms (storage-deposit events in sorted realm order),
			// then shrinking them (refunds), with a deposit cap that cannot be met
			"tx u0 hi add;a add;b",
			"tx u0 hi add;h add;c",
			"commit",
			"tx u1 hi call;h;both;0;1;-",
			"tx u1 hi call;h;both;1;2;- call;h;both;2;3;- call;c;set;5;5;-",
			"tx u2 hi call;b;set;7;7;d",
			"tx u2 hi call;b;set;1;9;d",
			"commit",
			"restart",
			"tx u1 hi call;a;del;0;0;- call;b;del;0;0;- call;c;del;5;0;-",
			"tx u2 hi call;b;set;0;1;d",
			"tx u2 hi call;b;set;0;1;-",
			"tx u2 hi call;b;set;0;-999;d",
			"tx u1 hi call;a;del;1;0;- call;a;del;2;0;- call;b;del;1;0;- call;b;del;2;0;-",
			"commit",
			"commit",
			"restart",
			"tx u1 hi call;h;both;6;6;-",
			"tx u1 hi call;h;grab;1;2;-",
			"probe u2 2500000 call;h;both;7;7;-",
			"probe u2 1200000 call;h;grab;3;4;- call;a;set;7;7;-",
			"commit",
			"tx u1 hi call;h;grab;3;4;-",
			"probe u0 299999999 call;h;grab;5;6;-",
			"probe u0 1000000 add;c",
			"commit",
		)},
		{"map-order-and-run-scripts", j(
			"tx u0 hi add;b add;a",
			"tx u0 hi call;b;set;3;1;- call;b;set;1;2;- call;b;set;2;3;- call;b;del;3;0;-",
			"tx u0 hi call;b;set;3;4;- call;b;inc;0;5;- call;b;inc;1;5;-",
			"commit",
			"tx u1 hi run;ab;4;4",
			"tx u1 hi run;read;0;0",
			"tx u1 hi run;fail;0;0",
			"tx u2 hi run;noop;0;0",
			"commit",
			"restart",
			"tx u1 hi run;ab;4;4",
			"tx u2 hi run;ab;5;-1",
			"tx u1 hi run;read;0;0",
			"tx u0 hi call;b;sum;0;0;- call;a;sum;0;0;-",
			"commit",
			"restart",
			"restart",
			"tx u1 hi run;noop;0;0 run;ab;6;6 run;read;0;0",
			"commit",
		)},
		{"ante-failures-and-sends", j(
			"tx x0 hi add;a",
			"tx x0 lo add;a",
			"tx u0 lo add;a",
			"tx u0 hi send;u1;1000000;u",
			"tx u0 hi send;u1;1;f",
			"tx u0 hi add;c send;u2;5;f",
			"tx u0 hi send;u2;5;u add;c call;c;set;0;0;- call;c;inc;0;-3;-",
			"commit",
			"tx u1 hi call;c;fail;1;1;-",
			"tx u1 hi call;c;sum;0;0;-",
			"tx u1 hi run;read;0;0",
			"tx u1 hi call;a;set;0;0;-",
			"tx u1 hi add;c",
			"tx u1 hi add;h",
			"commit",
			"restart",
			"commit",
			"tx u2 hi call;c;set;7;999;- call;c;set;0;-999;- call;c;del;7;0;- call;c;set;7;1;-",
			"tx u2 hi call;p;set;1;0;-",
			"tx u2 hi add;p call;p;set;2;0;-",
			"commit",
			"restart",
			"tx u0 hi call;p;set;1;0;- call;p;fail;0;0;-",
			"tx u0 hi call;p;set;0;0;- call;p;sum;0;0;-",
			"tx u1 hi call;p;set;5;0;- call;p;inc;1;1;-",
			"commit",
		)},
	}
}

type shadow struct {
	dep   map[byte]bool
	bKeys map[int]bool
}

func (s *shadow) clone() *shadow {
	c := &shadow{dep: map[byte]bool{}, bKeys: map[int]bool{}}
	for k, v := range s.dep {
		c.dep[k] = v
	}
	for k, v := range s.bKeys {
		c.bKeys[k] = v
	}
	return c
}

func user(r *kit.Rand) string { return fmt.Sprintf("u%d", r.Intn(3)) }

func val(r *kit.Rand) int {
	switch r.Intn(8) {
	case 0:
		return 0
	case 1:
		return 999
	case 2:
		return -999
	}
	return r.Range(-50, 50)
}

// genMsg returns a message and whether the shadow expects it to fail.
func genMsg(r *kit.Rand, s *shadow) (string, bool) {
	slots := []byte{'a', 'b', 'c'}
	x := r.Intn(100)
	switch {
	case x < 52: // a realm call
		sl := kit.Pick(r, slots)
		if r.Chance(12) {
			sl = 'p' // the params realm: set 0..2 rewrites an auth parameter (accounts are touched)
		}
		k := r.Intn(8)
		fn := kit.Pick(r, []string{"set", "set", "set", "inc", "inc", "del", "sum"})
		dep := "-"
		fail := !s.dep[sl]
		if sl == 'b' && fn == "set" && r.Chance(20) {
			dep = "d"
			if !s.bKeys[k] {
				fail = true
			}
		}
		if !fail && sl == 'b' {
			switch fn {
			case "set", "inc":
				s.bKeys[k] = true
			case "del":
				delete(s.bKeys, k)
			}
		}
		return fmt.Sprintf("call;%c;%s;%d;%d;%s", sl, fn, k, val(r), dep), fail
	case x < 64: // the hub
		k := r.Intn(8)
		if r.Chance(25) {
			return fmt.Sprintf("call;h;grab;%d;%d;-", k, val(r)), !s.dep['h']
		}
		if s.dep['h'] {
			s.bKeys[k] = true
		}
		return fmt.Sprintf("call;h;both;%d;%d;-", k, val(r)), !s.dep['h']
	case x < 70: // failing calls
		if r.Bool() {
			return fmt.Sprintf("call;h;half;%d;%d;-", r.Intn(8), val(r)), true
		}
		return fmt.Sprintf("call;%c;fail;%d;%d;-", kit.Pick(r, slots), r.Intn(8), val(r)), true
	case x < 80: // run scripts
		sc := kit.Pick(r, []string{"ab", "ab", "read", "noop", "fail"})
		k := r.Intn(8)
		fail := sc == "fail" || (sc == "ab" && !(s.dep['a'] && s.dep['b'])) || (sc == "read" && !s.dep['a'])
		if sc == "ab" && !fail {
			s.bKeys[k] = true
		}
		return fmt.Sprintf("run;%s;%d;%d", sc, k, val(r)), fail
	case x < 88: // bank
		if r.Chance(20) {
			return fmt.Sprintf("send;%s;%d;f", user(r), r.Range(1, 1000000)), true
		}
		return fmt.Sprintf("send;%s;%d;u", user(r), kit.Pick(r, []int{1, 1000000, r.Range(1, 1000000)})), false
	default: // deployments
		sl := kit.Pick(r, []byte{'a', 'b', 'c', 'h', 'h', 'p'})
		fail := s.dep[sl] || (sl == 'h' && !(s.dep['a'] && s.dep['b']))
		if !fail {
			s.dep[sl] = true
		}
		return fmt.Sprintf("add;%c", sl), fail
	}
}

// genProbe: a transaction cut off at a random gas limit (log-uniform between 10^6 and
// ~1.6*10^7: most calls use 1.7 to 11 million) - it runs out of gas somewhere inside
// the ante handler's tail, the VM, the realm finalization or the deposit settlement,
// or reaches its last, always failing, message.  Never an effect.
func genProbe(r *kit.Rand, s *shadow) string {
	who := user(r)
	if r.Chance(3) {
		who = "x0"
	}
	gas := 1000000
	for i := r.Intn(5); i > 0; i-- {
		gas *= 2
	}
	gas += r.Intn(gas)
	n := 1
	if r.Chance(25) {
		n = r.Range(2, 3)
	}
	trial := s.clone()
	var msgs []string
	for i := 0; i < n; i++ {
		m, _ := genMsg(r, trial)
		msgs = append(msgs, m)
	}
	return fmt.Sprintf("probe %s %d %s", who, gas, strings.Join(msgs, " "))
}

func genTx(r *kit.Rand, s *shadow) string {
	if r.Chance(9) {
		return genProbe(r, s)
	}
	who, gas := user(r), "hi"
	if r.Chance(3) {
		who = "x0"
	}
	if r.Chance(3) {
		gas = "lo"
	}
	n := 1
	if r.Chance(22) {
		n = r.Range(2, 4)
	}
	trial := s.clone()
	var msgs []string
	failed := who == "x0" || gas == "lo"
	for i := 0; i < n; i++ {
		m, f := genMsg(r, trial)
		msgs = append(msgs, m)
		failed = failed || f
	}
	if !failed {
		*s = *trial
	}
	return fmt.Sprintf("tx %s %s %s", who, gas, strings.Join(msgs, " "))
}

func randomHistory(w *kit.Out, r *kit.Rand, blocks, maxTx int, restartPct int) {
	s := &shadow{dep: map[byte]bool{}, bKeys: map[int]bool{}}
	// first block: deployments in a random order (a hub before its imports fails)
	order := []byte{'a', 'b', 'c', 'h'}
	for i := len(order) - 1; i > 0; i-- {
		j := r.Intn(i + 1)
		order[i], order[j] = order[j], order[i]
	}
	if r.Chance(60) { // mostly: the hub last, so that it deploys
		for i, c := range order {
			if c == 'h' {
				order[i], order[3] = order[3], order[i]
			}
		}
	}
	if r.Chance(60) {
		order = append(order, 'p')
	}
	for _, sl := range order {
		if r.Chance(15) {
			continue
		}
		fail := s.dep[sl] || (sl == 'h' && !(s.dep['a'] && s.dep['b']))
		if !fail {
			s.dep[sl] = true
		}
		w.Op("tx %s hi add;%c", user(r), sl)
	}
	for b := 0; b < blocks; b++ {
		n := r.Range(0, maxTx)
		if b == 0 {
			n = r.Range(1, 3)
		}
		for i := 0; i < n; i++ {
			w.Op("%s", genTx(r, s))
		}
		w.Op("commit")
		if r.Chance(restartPct) {
			w.Op("restart")
			if r.Chance(10) {
				w.Op("restart")
			}
		}
	}
}

func malformed(w *kit.Out, r *kit.Rand, n int) {
	bad := []string{
		"open", "open mn6", "open xn6y", "open mn6y mn6y mn6y mn6y mn6y mn6y mn6y mn6y mn6y", "open mn2y", "open mnay",
		"tx", "tx u0", "tx u0 hi", "tx u3 hi add;a", "tx u0 mid add;a", "tx u0 hi add;z", "tx u0 hi add", "tx u0 hi add;a;b",
		"tx u0 hi call;a;set;8;0;-", "tx u0 hi call;a;set;01;0;-", "tx u0 hi call;a;set;1;1000;-", "tx u0 hi call;a;set;1;-0;-",
		"tx u0 hi call;a;set;1;1;x", "tx u0 hi call;a;set;1;1;d", "tx u0 hi call;c;set;1;1;d", "tx u0 hi call;b;inc;1;1;d",
		"tx u0 hi call;a;both;1;1;-", "tx u0 hi call;h;set;1;1;-", "tx u0 hi call;a;set;1;1", "tx u0 hi call;a;set;;1;-",
		"tx u0 hi send;x0;5;u", "tx u0 hi send;u1;0;u", "tx u0 hi send;u1;1000001;u", "tx u0 hi send;u1;5;g", "tx u0 hi send;u1;05;u",
		"tx u0 hi run;xx;1;1", "tx u0 hi run;ab;1", "tx u0 hi run;ab;9;1", "tx u0 hi add;a add;b add;c add;h add;a",
		"probe", "probe u0 999999 add;a", "probe u0 300000000 add;a", "probe u0 hi add;a", "probe u3 1000000 add;a",
		"probe u0 1000000", "probe u0 1000000 add;a add;b add;c add;h", "probe u0 01000000 add;a", "tx u0 hi call;a;grab;1;1;-", "tx u0 hi call;p;both;1;1;-", "tx u0 hi call;p;set;1;1;d", "tx u0 hi add;q",
		"commit now", "restart 1", "begin", "COMMIT", "tx u0 hi ;", "tx u0 hi call;;;;;",
	}
	for i := 0; i < n; i++ {
		w.Op("%s", kit.Pick(r, bad))
	}
}

func gen(w *kit.Out, r *kit.Rand, tier string) {
	b := boundary()
	if tier == "quick" {
		// one boundary history per seed (rotating), three instances: reference, a
		// follower of the restart ops on one processor, a second fresh run
		pick := r.Intn(len(b))
		w.Case("b-" + b[pick][0])
		w.Op("open mn6y ms1y mn1y")
		for _, l := range strings.Split(b[pick][1], "\n") {
			w.Op("%s", l)
		}
		w.Case("r0")
		w.Op("open mn6y ms1y")
		randomHistory(w, r.Fork(), 7, 7, 22)
		w.Case("malformed")
		malformed(w, r.Fork(), 40)
		w.Op("tx u0 hi add;a")
		malformed(w, r.Fork(), 10)
		w.Op("restart") // mid-block: not allowed
		w.Op("open mn6y")
		w.Op("commit")
		w.Op("restart")
		w.Op("tx u1 hi call;a;set;0;1;-")
		w.Op("commit")
		return
	}
	// thorough
	pools := []string{
		"mn6y ms1y ls6y ps1e bs6n",
		"mn6y me1y mn6e mn1n",
		"mn1y ls6y le1y",
		"mn6y ps6y pe1n",
		"mn6y bs1y be6e",
		"mn6y ms6y ms1y mn6y",
	}
	off := r.Intn(len(pools))
	for i, h := range b {
		w.Case("b-" + h[0])
		w.Op("open %s", pools[(off+i)%len(pools)])
		for _, l := range strings.Split(h[1], "\n") {
			w.Op("%s", l)
		}
	}
	for i := 0; i < 5; i++ {
		w.Case(fmt.Sprintf("r%d", i))
		p := pools[(off+len(b)+i)%len(pools)]
		w.Op("open %s", p)
		blocks := 8
		if strings.Contains(p, "e1") || strings.Contains(p, "e6") { // an every-block restarter: shorter history
			blocks = 5
		}
		randomHistory(w, r.Fork(), blocks, 8, 30)
	}
	w.Case("malformed")
	malformed(w, r.Fork(), 120)
	w.Op("restart")
	malformed(w, r.Fork(), 20)
	w.Op("tx u0 hi add;a")
	w.Op("restart")
	w.Op("open mn6y")
	w.Op("commit")
}
