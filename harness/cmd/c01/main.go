// Harness for C01: chain replay is deterministic across runs, restarts, caches and backends.
//
// Every case replays ONE generated history (blocks of really signed transactions:
// bank sends, package deployments, realm calls touching up to three realms, MsgRun
// scripts, failing and out-of-gas transactions, storage deposits and refunds) on
// SEVERAL instances of the real gno.land application (gnoland.NewAppWithOptions:
// production ante chain, bank/auth/vm handlers, GnoVM, B+tree multistore) at the
// same time.  The instances differ only in what the statement says must not
// matter: the database backend (memdb, goleveldb, pebbledb, boltdb), the restart
// pattern over block boundaries (never / at the `restart` ops of the history /
// after every block; a restart closes the application, reopens the database and
// builds a new application over it, so every in-memory cache is cold), the
// pruning strategy, and GOMAXPROCS (1 or 16, switched before every step of the
// instance).  Two instances with the same configuration sample Go's randomised
// map iteration order.
//
// output (must equal the Lean model's line):
//
//	open ...   -> ok
//	tx ...     -> ok | err:<abci error type>       (the reference instance's DeliverTx result)
//	probe ...  -> probed                           (a tx with an arbitrary gas limit that always fails)
//	commit     -> h=<height> a=<render> b=<render> c=<render> h=<render> p=<render>   (`-` = not deployed, `e` = empty)
//	restart    -> ok
//
// oracle (the statement itself, evaluated on the instances' real outputs; never
// looks at the model): every instance must return, for every transaction, the
// same Error, Data, Events, GasWanted and GasUsed, for every block the same
// EndBlock response and the same app hash (ResponseCommit.Data), and the same
// query results for the realms' state:
//
//	result-diverge    a DeliverTx response differs between two instances
//	oog-gasused-diverge  only the GasUsed of a transaction that ran out of gas on both differs
//	endblock-diverge  an EndBlock response differs
//	apphash-diverge   the app hash after a block differs
//	state-diverge     a render / storage query differs after a block
//	restart-failed    an instance could not be rebuilt over its database
package main

import (
	"bytes"
	"encoding/hex"
	"fmt"
	"os"
	"path/filepath"
	"reflect"
	"runtime"
	"sort"
	"strconv"
	"strings"
	"time"

	"github.com/gnolang/gno/gno.land/pkg/gnoland"
	"github.com/gnolang/gno/gno.land/pkg/sdk/vm"
	"github.com/gnolang/gno/gnovm/pkg/gnoenv"
	"github.com/gnolang/gno/gnovm/pkg/gnolang"
	"github.com/gnolang/gno/tm2/pkg/amino"
	abci "github.com/gnolang/gno/tm2/pkg/bft/abci/types"
	bft "github.com/gnolang/gno/tm2/pkg/bft/types"
	"github.com/gnolang/gno/tm2/pkg/crypto"
	"github.com/gnolang/gno/tm2/pkg/crypto/secp256k1"
	dbm "github.com/gnolang/gno/tm2/pkg/db"
	_ "github.com/gnolang/gno/tm2/pkg/db/boltdb"
	_ "github.com/gnolang/gno/tm2/pkg/db/goleveldb"
	"github.com/gnolang/gno/tm2/pkg/db/memdb"
	_ "github.com/gnolang/gno/tm2/pkg/db/pebbledb"
	"github.com/gnolang/gno/tm2/pkg/sdk"
	"github.com/gnolang/gno/tm2/pkg/sdk/bank"
	"github.com/gnolang/gno/tm2/pkg/std"
	stypes "github.com/gnolang/gno/tm2/pkg/store/types"
	"gnoverif/kit"
)

const (
	chainID = "verif-c01"
	t0      = int64(1_700_000_000)
	gasHi   = int64(300_000_000)
	gasLo   = int64(1)
	avlPath = "gno.land/p/nt/avl/v0"
)

var slotPath = map[byte]string{
	'a': "gno.land/r/c01/ra",
	'b': "gno.land/r/c01/rb",
	'c': "gno.land/r/c01/rc",
	'h': "gno.land/r/c01/rh",
	'p': "gno.land/r/sys/params", // the one realm allowed to write module parameters (no r/sys/names in this genesis: anybody may deploy it)
}

// ---------------------------------------------------------------- the realms

const srcRA = `package ra

import (
	"strconv"

	"gno.land/p/nt/avl/v0"
)

var t avl.Tree

// Box / Item: a method of Box allocates an Item inside the borrowed realm, so the
// Item is owned by THIS realm even when another realm keeps it (see rh.Grab).
type Box struct{ n int }

type Item struct{ V int }

var box = &Box{}

func Peek() *Box { return box }

func (b *Box) Make(v int) *Item { return &Item{V: v} }

func key(k int) string { return "k" + strconv.Itoa(k) }

func Set(cur realm, k, v int) { t.Set(key(k), v) }

func Del(cur realm, k, v int) { t.Remove(key(k)) }

func Inc(cur realm, k, d int) {
	v := 0
	if t.Has(key(k)) {
		v = t.Get(key(k)).(int)
	}
	t.Set(key(k), v+d)
}

func Fail(cur realm, k, v int) {
	t.Set(key(k), v)
	panic("fail")
}

func Sum(cur realm, k, v int) int {
	s := 0
	t.Iterate("", "", func(k string, v any) bool {
		s += v.(int)
		return false
	})
	return s
}

func Render(path string) string {
	out := ""
	t.Iterate("", "", func(k string, v any) bool {
		out += k[1:] + ":" + strconv.Itoa(v.(int)) + ","
		return false
	})
	return out
}
`

const srcRB = `package rb

import "strconv"

var m = map[string]int{}

// Box / Item: a method of Box allocates an Item inside the borrowed realm, so the
// Item is owned by THIS realm even when another realm keeps it (see rh.Grab).
type Box struct{ n int }

type Item struct{ V int }

var box = &Box{}

func Peek() *Box { return box }

func (b *Box) Make(v int) *Item { return &Item{V: v} }

func key(k int) string { return "k" + strconv.Itoa(k) }

func Set(cur realm, k, v int) { m[key(k)] = v }

func Del(cur realm, k, v int) { delete(m, key(k)) }

func Inc(cur realm, k, d int) { m[key(k)] += d }

func Fail(cur realm, k, v int) {
	m[key(k)] = v
	panic("fail")
}

func Sum(cur realm, k, v int) int {
	s := 0
	for _, x := range m {
		s += x
	}
	return s
}

func Render(path string) string {
	out := ""
	for k, v := range m {
		out += k[1:] + ":" + strconv.Itoa(v) + ","
	}
	return out
}
`

const srcRC = `package rc

import "strconv"

type item struct{ k, v int }

var items []item

func find(k int) (int, bool) {
	for i, it := range items {
		if it.k == k {
			return i, true
		}
		if it.k > k {
			return i, false
		}
	}
	return len(items), false
}

func Set(cur realm, k, v int) {
	i, ok := find(k)
	if ok {
		items[i].v = v
		return
	}
	items = append(items, item{})
	copy(items[i+1:], items[i:])
	items[i] = item{k, v}
}

func Del(cur realm, k, v int) {
	i, ok := find(k)
	if ok {
		items = append(items[:i], items[i+1:]...)
	}
}

func Inc(cur realm, k, d int) {
	i, ok := find(k)
	if ok {
		items[i].v += d
		return
	}
	Set(cur, k, d)
}

func Fail(cur realm, k, v int) {
	Set(cur, k, v)
	panic("fail")
}

func Sum(cur realm, k, v int) int {
	s := 0
	for _, it := range items {
		s += it.v
	}
	return s
}

func Render(path string) string {
	out := ""
	for _, it := range items {
		out += strconv.Itoa(it.k) + ":" + strconv.Itoa(it.v) + ","
	}
	return out
}
`

const srcRH = `package rh

import (
	"strconv"

	"gno.land/r/c01/ra"
	"gno.land/r/c01/rb"
)

var n int

// two objects owned by ra and rb but kept (and persisted) by this realm: rh's
// finalization then touches two FOREIGN realms
var ia *ra.Item
var ib *rb.Item

func Grab(cur realm, k, v int) {
	ia = ra.Peek().Make(k)
	ib = rb.Peek().Make(v)
}

func Both(cur realm, k, v int) {
	n++
	ra.Set(cross(cur), k, v)
	rb.Set(cross(cur), k, v)
}

func Half(cur realm, k, v int) {
	n++
	ra.Set(cross(cur), k, v)
	rb.Del(cross(cur), k, v)
	panic("half")
}

func Render(path string) string { return strconv.Itoa(n) + "," }
`

// rp: deployed at gno.land/r/sys/params.  Set(k) replaces the auth module's
// unrestricted-address list: the auth keeper then flips the whitelist bit of every
// added / removed account (tm2/pkg/sdk/auth/params.go applyUnrestrictedAddrsChange).
var srcRP = strings.NewReplacer(
	"ADDR0", userKey("u0").PubKey().Address().String(),
	"ADDR1", userKey("u1").PubKey().Address().String(),
	"ADDR2", userKey("u2").PubKey().Address().String(),
).Replace(`package params

import (
	"strconv"

	sysparams "sys/params"
)

var last int

func Set(cur realm, k, v int) {
	last = k
	switch k {
	case 0:
		sysparams.SetSysParamStrings("auth", "p", "unrestricted_addrs", []string{})
	case 1:
		sysparams.SetSysParamStrings("auth", "p", "unrestricted_addrs", []string{"ADDR1", "ADDR2"})
	case 2:
		sysparams.SetSysParamStrings("auth", "p", "unrestricted_addrs", []string{"ADDR0", "ADDR1", "ADDR2"})
	}
}

func Del(cur realm, k, v int) {}

func Inc(cur realm, k, v int) {}

func Fail(cur realm, k, v int) {
	last = k
	panic("fail")
}

func Sum(cur realm, k, v int) int { return last }

func Render(path string) string { return strconv.Itoa(last) + "," }
`)

var slotSrc = map[byte]string{'a': srcRA, 'b': srcRB, 'c': srcRC, 'h': srcRH, 'p': srcRP}

func runSrc(script string, k, v int) string {
	switch script {
	case "ab":
		return fmt.Sprintf(`package main

import (
	"gno.land/r/c01/ra"
	"gno.land/r/c01/rb"
)

func main(cur realm) {
	ra.Set(cross(cur), %d, %d)
	rb.Inc(cross(cur), %d, %d)
}
`, k, v, k, v)
	case "fail":
		return "package main\n\nfunc main() { panic(\"fail\") }\n"
	case "read":
		return `package main

import "gno.land/r/c01/ra"

func main() { println(ra.Render("")) }
`
	}
	return "package main\n\nfunc main() {}\n"
}

// ---------------------------------------------------------------- one application instance

type node struct {
	spec    cfgSpec
	db      dbm.DB
	dir     string
	app     *sdk.BaseApp
	genesis string // canonical InitChain response
}

var tmpRoot string

func openDB(spec cfgSpec, dir string) dbm.DB {
	switch spec.backend {
	case 'l':
		d, err := dbm.NewDB("c01", dbm.GoLevelDBBackend, dir)
		if err != nil {
			panic(err)
		}
		return d
	case 'p':
		d, err := dbm.NewDB("c01", dbm.PebbleDBBackend, dir)
		if err != nil {
			panic(err)
		}
		return d
	case 'b':
		d, err := dbm.NewDB("c01", dbm.BoltDBBackend, dir)
		if err != nil {
			panic(err)
		}
		return d
	}
	return memdb.NewMemDB()
}

func (n *node) newApp() {
	opts := gnoland.TestAppOptions(n.db)
	switch n.spec.prune {
	case 'e':
		opts.PruneStrategy = stypes.PruneEverythingStrategy
	case 'n':
		opts.PruneStrategy = stypes.PruneNothingStrategy
	default:
		opts.PruneStrategy = stypes.PruneSyncableStrategy
	}
	app, err := gnoland.NewAppWithOptions(opts)
	if err != nil {
		panic(err)
	}
	n.app = app.(*sdk.BaseApp)
}

// restart: close the application (and with it the database), reopen the database,
// build a new application over it.  memdb's Close is a no-op, so the same object
// is reused there.  Before the first block is committed nothing is persisted
// (InitChain does not commit): a node restarted then runs InitChain again, as the
// consensus handshake does for an application at height 0.
func (n *node) restart() {
	// start-up itself (re-preprocessing every stored package, single-threaded Go
	// code) runs with all processors to keep the check affordable; the instance's
	// own GOMAXPROCS is set again before its next block step
	runtime.GOMAXPROCS(16)
	n.app.Close()
	if n.spec.backend != 'm' {
		n.db = openDB(n.spec, n.dir)
	}
	n.app = nil
	n.newApp()
	if n.app.LastBlockHeight() == 0 {
		before := n.genesis
		n.initChain()
		if n.genesis != before {
			panic("InitChain after a restart at height 0 answered differently")
		}
	}
}

func (n *node) initChain() {
	resp := n.app.InitChain(abci.RequestInitChain{
		Time: time.Unix(t0, 0), ChainID: chainID,
		ConsensusParams: &abci.ConsensusParams{Block: &abci.BlockParams{MaxTxBytes: 1e6, MaxDataBytes: 2e6, MaxGas: 3e10, TimeIotaMS: 100}},
		AppState:        genesis(),
	})
	if resp.Error != nil {
		panic(resp.Error)
	}
	var b strings.Builder
	for _, r := range resp.TxResponses {
		d := txDigest(r)
		b.WriteString(strings.Join(d[:], "|") + ";")
	}
	b.WriteString(string(amino.MustMarshalJSON(resp.Validators)))
	n.genesis = b.String()
}

func (n *node) close() {
	if n.app != nil {
		n.app.Close()
		n.app = nil
	}
	if n.dir != "" {
		os.RemoveAll(n.dir)
	}
}

var avlFiles []*std.MemFile

func loadAvl() []*std.MemFile {
	if avlFiles != nil {
		return avlFiles
	}
	dir := filepath.Join(gnoRoot(), "examples", "gno.land", "p", "nt", "avl", "v0")
	mp, err := gnolang.ReadMemPackage(dir, avlPath, gnolang.MPUserProd)
	if err != nil {
		panic(err)
	}
	fs := append([]*std.MemFile(nil), mp.Files...)
	sort.Slice(fs, func(i, j int) bool { return fs[i].Name < fs[j].Name })
	avlFiles = fs
	return fs
}

func gnoRoot() string { return gnoenv.RootDir() }

func userKey(who string) crypto.PrivKey {
	return secp256k1.GenPrivKeySecp256k1([]byte("c01-" + who))
}

func genesis() gnoland.GnoGenesisState {
	gs := gnoland.DefaultGenState()
	for _, u := range []string{"u0", "u1", "u2"} {
		gs.Balances = append(gs.Balances, gnoland.Balance{Address: userKey(u).PubKey().Address(),
			Amount: std.Coins{{Denom: "ugnot", Amount: 1_000_000_000_000_000}}})
	}
	gs.Txs = append(gs.Txs, gnoland.TxWithMetadata{Tx: std.Tx{
		Msgs:       []std.Msg{vm.NewMsgAddPackage(userKey("u0").PubKey().Address(), avlPath, loadAvl())},
		Fee:        std.Fee{GasWanted: 1e9, GasFee: std.Coin{Amount: 1, Denom: "ugnot"}},
		Signatures: []std.Signature{{}},
	}})
	return gs
}

func newNode(spec cfgSpec, idx int) *node {
	n := &node{spec: spec}
	runtime.GOMAXPROCS(spec.procs)
	if spec.backend != 'm' {
		if tmpRoot == "" {
			var err error
			tmpRoot, err = os.MkdirTemp("", "gvh_c01_")
			if err != nil {
				panic(err)
			}
		}
		dir, err := os.MkdirTemp(tmpRoot, fmt.Sprintf("n%d_", idx))
		if err != nil {
			panic(err)
		}
		n.dir = dir
	}
	n.db = openDB(spec, n.dir)
	n.newApp()
	n.initChain() // no Commit: block 1 starts from InitChain's deliver state, as on a real node
	return n
}

func (n *node) query(path string, data []byte) ([]byte, bool) {
	r := n.app.Query(abci.RequestQuery{Path: path, Data: data})
	if r.Error != nil {
		return nil, false
	}
	return r.Data, true
}

// ---------------------------------------------------------------- the world of one case

type world struct {
	nodes    []*node
	height   int64 // height of the block being built / to be built next
	inBlock  bool
	boundary bool // the last op was open/commit/restart (or nothing yet)
	opened   bool
	seq      map[string]uint64 // next sequence per user: +1 whenever the ante handler passed
	num      map[string]uint64
}

var W *world

func closeWorld() {
	if W != nil {
		for _, n := range W.nodes {
			n.close()
		}
	}
	W = nil
}

func reset() {
	closeWorld()
	W = &world{height: 1, boundary: true, seq: map[string]uint64{}, num: map[string]uint64{}}
}

var defaultCfgs = []string{"mn6y", "ms1y"}

func (w *world) open(cfgs []cfgSpec) string {
	for i, c := range cfgs {
		w.nodes = append(w.nodes, newNode(c, i))
	}
	w.opened = true
	// the genesis transactions' results must already agree (the genesis state
	// itself is covered by the app hash of block 1)
	for i, n := range w.nodes[1:] {
		if n.genesis != w.nodes[0].genesis {
			return fmt.Sprintf("VIOL:result-diverge genesis cfg=%s#%d ref=%.150s got=%.150s", n.spec.text, i+1, w.nodes[0].genesis, n.genesis)
		}
	}
	return "ok"
}

func (w *world) ensureOpen() {
	if !w.opened {
		var cs []cfgSpec
		for _, t := range defaultCfgs {
			c, _ := pCfg(t)
			cs = append(cs, c)
		}
		if v := w.open(cs); v != "ok" {
			panic(v)
		}
	}
}

func errClass(e abci.Error) string {
	if e == nil {
		return "ok"
	}
	name := reflect.TypeOf(e).String()
	if i := strings.LastIndexByte(name, '.'); i >= 0 {
		name = name[i+1:]
	}
	return "err:" + name
}

// canonical form of what the statement compares: Error, Data, Events, gas.
func txDigest(r abci.ResponseDeliverTx) [4]string {
	ev := make([]string, len(r.Events))
	for i, e := range r.Events {
		ev[i] = string(amino.MustMarshalJSONAny(e))
	}
	errs := "-"
	if r.Error != nil {
		errs = string(amino.MustMarshalJSONAny(r.Error))
	}
	return [4]string{errs, hex.EncodeToString(r.Data), strings.Join(ev, ";"),
		strconv.FormatInt(r.GasWanted, 10) + "/" + strconv.FormatInt(r.GasUsed, 10)}
}

var digestField = [4]string{"error", "data", "events", "gas"}

// diffAt: the two strings from (a little before) their first difference.
func diffAt(a, b string) (string, string) {
	i := 0
	for i < len(a) && i < len(b) && a[i] == b[i] {
		i++
	}
	if i > 20 {
		i -= 20
	} else {
		i = 0
	}
	cut := func(s string) string {
		s = s[i:]
		if len(s) > 110 {
			s = s[:110]
		}
		return strings.ReplaceAll(s, " ", "_")
	}
	return cut(a), cut(b)
}

func (w *world) buildTx(op *opSpec) []byte {
	priv := userKey(op.who)
	from := priv.PubKey().Address()
	var msgs []std.Msg
	for _, m := range op.msgs {
		switch m.kind {
		case "send":
			den := "ugnot"
			if m.den == 'f' {
				den = "foo"
			}
			msgs = append(msgs, bank.NewMsgSend(from, userKey(m.to).PubKey().Address(), std.Coins{{Denom: den, Amount: m.amt}}))
		case "add":
			p := slotPath[m.slot]
			name := p[strings.LastIndexByte(p, '/')+1:]
			msgs = append(msgs, vm.NewMsgAddPackage(from, p, []*std.MemFile{
				{Name: "gnomod.toml", Body: gnolang.GenGnoModLatest(p)},
				{Name: name + ".gno", Body: slotSrc[m.slot]},
			}))
		case "call":
			fn := strings.ToUpper(m.fn[:1]) + m.fn[1:]
			mc := vm.NewMsgCall(from, nil, slotPath[m.slot], fn, []string{strconv.Itoa(m.k), strconv.Itoa(m.v)})
			if m.dep {
				mc.MaxDeposit = std.Coins{{Denom: "ugnot", Amount: 1}}
			}
			msgs = append(msgs, mc)
		case "run":
			msgs = append(msgs, vm.NewMsgRun(from, nil, []*std.MemFile{{Name: "main.gno", Body: runSrc(m.fn, m.k, m.v)}}))
		}
	}
	gas := gasHi
	if op.lo {
		gas = gasLo
	}
	if op.kind == "probe" {
		// an arbitrary gas limit, and a last message that fails whatever happens
		// before it: the transaction never has an effect beyond fee and sequence
		gas = op.gas
		msgs = append(msgs, bank.NewMsgSend(from, userKey("u0").PubKey().Address(), std.Coins{{Denom: "foo", Amount: 1}}))
	}
	fee := std.Fee{GasWanted: gas, GasFee: std.Coin{Denom: "ugnot", Amount: 1000}}
	// account number / sequence: read from the reference instance's committed state
	// at the start of every block, the sequence then tracked inside the block
	// (queries read the last committed state, not the block being built)
	if !w.inBlock {
		for i, u := range []string{"u0", "u1", "u2", "x0"} {
			w.num[u], w.seq[u] = 0, 0
			if w.height == 1 {
				// nothing is committed yet, so nothing can be queried: the genesis
				// accounts are numbered in the order of the balances; the genesis
				// transaction (signature check skipped) did not consume a sequence
				w.num[u] = uint64(i)
				continue
			}
			if bz, ok := w.nodes[0].query("auth/accounts/"+userKey(u).PubKey().Address().String(), nil); ok && string(bz) != "null" {
				var acc gnoland.GnoAccount
				amino.MustUnmarshalJSON(bz, &acc)
				w.num[u], w.seq[u] = acc.GetAccountNumber(), acc.GetSequence()
			}
		}
	}
	num, seq := w.num[op.who], w.seq[op.who]
	sb, err := std.GetSignaturePayload(std.SignDoc{ChainID: chainID, AccountNumber: num, Sequence: seq, Fee: fee, Msgs: msgs})
	if err != nil {
		panic(err)
	}
	sig, err := priv.Sign(sb)
	if err != nil {
		panic(err)
	}
	tx := std.NewTx(msgs, fee, []std.Signature{{PubKey: priv.PubKey(), Signature: sig}}, "")
	return amino.MustMarshal(tx)
}

func (w *world) header() *bft.Header {
	return &bft.Header{ChainID: chainID, Height: w.height, Time: time.Unix(t0+5*w.height, 0)}
}

func (w *world) deliver(op *opSpec) (string, string) {
	w.ensureOpen()
	txbz := w.buildTx(op) // queries the committed state: must precede BeginBlock? (queries read the last commit; fine either way)
	var ref [4]string
	var refRes abci.ResponseDeliverTx
	verdict := "ok"
	for i, n := range w.nodes {
		runtime.GOMAXPROCS(n.spec.procs)
		if !w.inBlock {
			n.app.BeginBlock(abci.RequestBeginBlock{Header: w.header()})
		}
		r := n.app.DeliverTx(abci.RequestDeliverTx{Tx: txbz})
		d := txDigest(r)
		if os.Getenv("C01_EV") != "" {
			fmt.Fprintf(os.Stderr, "node %d %s: gas=%s events=%s\n", i, n.spec.text, d[3], d[2])
		}
		if i == 0 {
			ref, refRes = d, r
			if os.Getenv("C01_LOG") != "" && r.Error != nil {
				fmt.Fprintf(os.Stderr, "%s => %.700q\n", errClass(r.Error), r.Log)
			}
			continue
		}
		if d != ref && verdict == "ok" {
			for f := range d {
				if d[f] != ref[f] {
					a, b := diffAt(ref[f], d[f])
					class := "result-diverge"
					if f == 3 && errClass(r.Error) == "err:OutOfGasError" && errClass(refRes.Error) == "err:OutOfGasError" {
						// same error, data and events; only the gas number reported for
						// an out-of-gas transaction differs
						class = "oog-gasused-diverge"
					}
					verdict = fmt.Sprintf("VIOL:%s cfg=%s#%d field=%s ref=%s got=%s", class, n.spec.text, i, digestField[f], a, b)
					break
				}
			}
		}
	}
	w.inBlock, w.boundary = true, false
	if op.kind == "probe" {
		// gas >= 10^6 always carries a probe through the ante handler (for an existing
		// account), so its sequence is consumed whatever fails later
		w.seq[op.who]++
		return "probed", verdict
	}
	if refRes.Error == nil || strings.HasPrefix(refRes.Log, "msg:") || strings.HasPrefix(refRes.Log, "recovered:") {
		w.seq[op.who]++ // the ante handler passed: the sequence was consumed even if a message failed
	}
	return errClass(refRes.Error), verdict
}

func trimRender(bz []byte, ok bool) string {
	if !ok {
		return "-"
	}
	s := strings.TrimSuffix(string(bz), ",")
	if s == "" {
		return "e"
	}
	return s
}

func (w *world) dump(n *node) string {
	var b strings.Builder
	for _, s := range []byte{'a', 'b', 'c', 'h', 'p'} {
		bz, ok := n.query("vm/qrender", []byte(slotPath[s]+":"))
		fmt.Fprintf(&b, " %c=%s", s, trimRender(bz, ok))
	}
	return b.String()
}

// extra state read back for the oracle only (never printed): realm storage
// accounting and the users' balances.
func (w *world) extra(n *node) string {
	var b strings.Builder
	for _, s := range []byte{'a', 'b', 'c', 'h', 'p'} {
		bz, _ := n.query("vm/qstorage", []byte(slotPath[s]))
		b.WriteString(string(bz) + "|")
	}
	for _, u := range []string{"u0", "u1", "u2", "x0"} {
		bz, _ := n.query("bank/balances/"+userKey(u).PubKey().Address().String(), nil)
		b.WriteString(string(bz) + "|")
	}
	return b.String()
}

func (w *world) commit() (string, string) {
	w.ensureOpen()
	verdict := "ok"
	var refEnd string
	var refHash []byte
	for i, n := range w.nodes {
		runtime.GOMAXPROCS(n.spec.procs)
		if !w.inBlock {
			n.app.BeginBlock(abci.RequestBeginBlock{Header: w.header()})
		}
		eb := n.app.EndBlock(abci.RequestEndBlock{Height: w.height})
		cr := n.app.Commit()
		ebs := string(amino.MustMarshalJSON(eb))
		if i == 0 {
			refEnd, refHash = ebs, cr.Data
			continue
		}
		if verdict != "ok" {
			continue
		}
		if ebs != refEnd {
			verdict = fmt.Sprintf("VIOL:endblock-diverge cfg=%s#%d h=%d", n.spec.text, i, w.height)
		} else if !bytes.Equal(cr.Data, refHash) {
			verdict = fmt.Sprintf("VIOL:apphash-diverge cfg=%s#%d h=%d ref=%x got=%x", n.spec.text, i, w.height, refHash, cr.Data)
		}
	}
	h := w.height
	w.height++
	w.inBlock, w.boundary = false, true
	for _, n := range w.nodes {
		if n.spec.restart == 'e' {
			if v := w.safeRestart(n); v != "" && verdict == "ok" {
				verdict = v
			}
		}
	}
	refDump, refExtra := w.dump(w.nodes[0]), w.extra(w.nodes[0])
	for i, n := range w.nodes[1:] {
		runtime.GOMAXPROCS(n.spec.procs)
		if d, x := w.dump(n), w.extra(n); (d != refDump || x != refExtra) && verdict == "ok" {
			verdict = fmt.Sprintf("VIOL:state-diverge cfg=%s#%d h=%d ref=%.100s got=%.100s", n.spec.text, i+1, h, refDump+refExtra, d+x)
		}
	}
	return fmt.Sprintf("h=%d%s", h, refDump), verdict
}

func (w *world) safeRestart(n *node) (verdict string) {
	defer func() {
		if v := recover(); v != nil {
			verdict = fmt.Sprintf("VIOL:restart-failed cfg=%s %.200v", n.spec.text, v)
		}
	}()
	n.restart()
	// restarts happen at block boundaries only: w.height-1 blocks are committed
	if h := n.app.LastBlockHeight(); h != w.height-1 {
		return fmt.Sprintf("VIOL:restart-failed cfg=%s height %d after restart, want %d", n.spec.text, h, w.height-1)
	}
	return ""
}

var profOn = os.Getenv("C01_PROF") != ""

func exec(toks []string) (a, b string) {
	if profOn {
		t := time.Now()
		defer func() { fmt.Fprintf(os.Stderr, "prof %-8s %8.1fms %s\n", toks[0], float64(time.Since(t).Microseconds())/1000, a) }()
	}
	if W == nil {
		reset()
	}
	op, ok := parseOp(toks)
	if !ok {
		return "err:badop", "-"
	}
	switch op.kind {
	case "open":
		if W.opened || !W.boundary || W.height != 1 {
			return "err:badop", "-"
		}
		if v := W.open(op.cfgs); v != "ok" {
			return "ok", v
		}
		return "ok", "ok"
	case "restart":
		if !W.boundary {
			return "err:badop", "-"
		}
		W.ensureOpen()
		verdict := "ok"
		for _, n := range W.nodes {
			if n.spec.restart == 's' {
				if v := W.safeRestart(n); v != "" && verdict == "ok" {
					verdict = v
				}
			}
		}
		return "ok", verdict
	case "commit":
		return W.commit()
	case "tx", "probe":
		return W.deliver(op)
	}
	return "err:badop", "-"
}

func main() {
	isExec := len(os.Args) > 1 && os.Args[1] == "exec"
	kit.Main(&kit.Harness{Gen: gen, Reset: func() {
		if isExec {
			reset()
		}
	}, Exec: exec})
	closeWorld()
	if tmpRoot != "" {
		os.RemoveAll(tmpRoot)
	}
}
